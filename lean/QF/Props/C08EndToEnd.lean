import QF.Props.C08Construct
import QF.Props.C08CtorsGen
import QF.Props.C17Factory
import QF.Props.C09ViewsGen
import QF.Props.C04Aggregations
/-!
# C08 — `New` of today's source with the constructors of today's source, end to end (tie T1, composition)

`C08Construct.gen_new_semantics_partial` proves `New` (guards `C08Guards`, construction `C08Construct`) equal to `newS` for
ANY column constructors that implement the spec's cell lists (`Ctors.Spec`). Here the constructors are the REGENERATED ones:

* `<pkg>.New(data)` / `<pkg>.NewConst(v, n)` of icolumn / fcolumn / bcolumn : `C08CtorsGen.genNumNew` / `genNumConst` (`Gen.numCtors`),
* `scolumn.New(data)` / `scolumn.NewConst(v, n)`                              : `C08CtorsGen.genScolNew` / `genScolNewConst`
  (`Gen.scolNew`, `Gen.scolNewConst`, with `qfstrings.NewPointer` as regenerated: `C08PointerGen`), READ BACK through the
  pointers (`readBack`),
* `ecolumn.New(data, values)` / `ecolumn.NewConst(v, n, values)`             : the enum factory `C17Factory.factoryEnumCells` /
  `factoryEnumConst` (`Gen.factoryNew`, `Gen.factoryNewConst`), the codes decoded through the value table

(`genCtors`). They are partial functions of typed Go data; on cells that are not of the constructor's element type — which
Go's type checker rules out — `genCtors` has no cells (`#[]`), so `genCtors` does NOT satisfy `Ctors.Spec` as such. The
composition goes through `new_congr`: `New` calls a constructor only on the data of a column of the map, with the
constructor `createColumn` selects for the kind of that data.

* `gen_new_end_to_end_partial` — for every column map whose columns are well-typed Go values (`GoData`: `WF` of C08Construct —
  a Go cell type, a slice of `count` cells or one constant, `count < 2^32` — and every cell of the declared type), where
  every string column that has NO declaration in `Enums` is within the documented limits of `qfstrings.Pointer`
  (`TypedFor`: each string < 2^28 bytes, all strings of the column together < 2^35 bytes; string data that is declared an
  enum is not packed into pointers and may have any size), every column order without duplicates and every list of enum
  declarations: `New` as regenerated = `newS`, and every cell of the frame reads back through the regenerated typed views
  (`C09ViewsGen.genItemAt` / `genLen` / `genSlice`) over the ascending index.
* `new_congr_for` — the composition step behind it: with an order without repetitions `New` calls, on a string column with a
  declaration, the enum constructor only (`loop_congr`: a declaration is deleted only by the column of its own name, so it
  is still there when the column's turn comes; `run_enums`: what `createColumn` does to the declarations).

Hypotheses that remain (`_partial`), stated precisely:
1. `(specOrder cols order).Nodup` — a column order naming a column twice is outside the property's quantifier. The
   hypothesis is NECESSARY: `nodup_necessary` (the second occurrence of a declared enum column is built as a string
   column; with every other hypothesis met the conclusion is false).
2. `count < 2^32` (`WF.small`): the index is made with `uint32(len)` — `rows_2_32_outside`.
3. the pointer limits, for the string columns WITHOUT enum declaration (the ones `scolumn.New` / `scolumn.NewConst` is
   called on): beyond them `NewPointer` packs offset and length into overlapping bits (`C08PointerGen`).
   `enum_beyond_limits`: a declared enum column with a string of 2^28 bytes meets the hypotheses.
The complementary reading — `New` returns an error exactly for the inputs C08's text says it rejects — is
`C08NewIff.gen_new_rejects` / `gen_new_iff` (QF/Props/C08NewIff.lean).
-/
namespace QF.Props.C08EndToEnd
open QF QF.Props.C08Construct QF.Props.C08CtorsGen QF.Props.C08Guards
open QF.Props.C17Factory (factoryEnumCells factoryEnumConst gen_factory_is_ctor cellOf)

/-! ## Typed Go data from cells -/

def toInts : List Cell → Option (List Int)
  | [] => some []
  | .int v :: r => (toInts r).map (v :: ·)
  | _ :: _ => none

def toFloats : List Cell → Option (List UInt64)
  | [] => some []
  | .float v :: r => (toFloats r).map (v :: ·)
  | _ :: _ => none

def toBools : List Cell → Option (List Bool)
  | [] => some []
  | .bool v :: r => (toBools r).map (v :: ·)
  | _ :: _ => none

def toStrs : List Cell → Option (List (Option Bytes))
  | [] => some []
  | .str s :: r => (toStrs r).map (s :: ·)
  | _ :: _ => none

/-- the `[]*string` of a list of string cells -/
def strsOf (l : List Cell) : List (Option Bytes) := l.map fun c => match c with | .str s => s | _ => none

theorem toInts_map (xs : List Int) : toInts (xs.map Cell.int) = some xs := by
  induction xs with
  | nil => rfl
  | cons x xs ih => simp [toInts, ih]

theorem toFloats_map (xs : List UInt64) : toFloats (xs.map Cell.float) = some xs := by
  induction xs with
  | nil => rfl
  | cons x xs ih => simp [toFloats, ih]

theorem toBools_map (xs : List Bool) : toBools (xs.map Cell.bool) = some xs := by
  induction xs with
  | nil => rfl
  | cons x xs ih => simp [toBools, ih]

theorem toStrs_map (xs : List (Option Bytes)) : toStrs (xs.map Cell.str) = some xs := by
  induction xs with
  | nil => rfl
  | cons x xs ih => simp [toStrs, ih]

theorem cells_str {l : List Cell} (h : ∀ x ∈ l, cellType x = .string) : (strsOf l).map Cell.str = l := by
  induction l with
  | nil => rfl
  | cons x xs ih =>
    have hx := h x (by simp)
    cases x <;> simp [cellType] at hx
    simp only [strsOf, List.map_cons, List.cons.injEq, true_and]
    exact ih (fun y hy => h y (by simp [hy]))

/-! ## The constructors of today's source, as `createColumn` sees them -/

/-- the cells of `<pkg>.New(data)`; no cells for data that is not of the package's element type -/
def genCells (ty : CType) (l : List Cell) : Array Cell :=
  match ty with
  | .int => match toInts l with | some xs => (((genNumNew .int 0 xs).getD []).map Cell.int).toArray | none => #[]
  | .float => match toFloats l with | some xs => (((genNumNew .float 0 xs).getD []).map Cell.float).toArray | none => #[]
  | .bool => match toBools l with | some xs => (((genNumNew .bool false xs).getD []).map Cell.bool).toArray | none => #[]
  | .string => match toStrs l with | some ss => ((((genScolNew ss).map readBack).getD []).map Cell.str).toArray | none => #[]
  | _ => #[]

/-- the cells of `<pkg>.NewConst(v, n)` -/
def genConst (ty : CType) (v : Cell) (n : Nat) : Array Cell :=
  match ty, v with
  | .int, .int x => (((genNumConst .int 0 x n).getD []).map Cell.int).toArray
  | .float, .float x => (((genNumConst .float 0 x n).getD []).map Cell.float).toArray
  | .bool, .bool x => (((genNumConst .bool false x n).getD []).map Cell.bool).toArray
  | .string, .str s => ((((genScolNewConst s n).map readBack).getD []).map Cell.str).toArray
  | _, _ => #[]

def genEnumCells (d : List Bytes) (l : List Cell) : Option (List Bytes × Bool × Array Cell) :=
  match toStrs l with
  | some ss => factoryEnumCells d ss
  | none => none

def genEnumConst (d : List Bytes) (v : Cell) (n : Nat) : Option (List Bytes × Bool × Array Cell) :=
  match v with
  | .str s => factoryEnumConst d s n
  | _ => none

/-- **the column constructors of today's source** -/
def genCtors : Ctors := { cells := genCells, const := genConst, enumCells := genEnumCells, enumConst := genEnumConst }

/-! ## On typed data within the pointer's limits they build the spec's cell lists -/

theorem cells_agree (ty : CType) (l : List Cell) (hty : goType ty) (ht : ∀ x ∈ l, cellType x = ty)
    (hlim : ty = .string → Within (strsOf l)) : genCells ty l = l.toArray := by
  rcases hty with rfl | rfl | rfl | rfl
  · obtain ⟨xs, rfl⟩ := C04Aggregations.cells_int ht
    simp only [genCells, toInts_map, (gen_const_semantics .int (Or.inl rfl) 0 0 0 xs).2, Option.getD_some]
  · obtain ⟨xs, rfl⟩ := C04Aggregations.cells_float ht
    simp only [genCells, toFloats_map, (gen_const_semantics .float (Or.inr (Or.inl rfl)) 0 0 0 xs).2, Option.getD_some]
  · obtain ⟨xs, rfl⟩ := C04Aggregations.cells_bool ht
    simp only [genCells, toBools_map, (gen_const_semantics .bool (Or.inr (Or.inr rfl)) false false 0 xs).2, Option.getD_some]
  · have hl := cells_str ht
    obtain ⟨c, hc, _, _, _, _, _, _, hr⟩ := gen_scolumn_new_semantics (strsOf l) (hlim rfl)
    have : toStrs l = some (strsOf l) := by
      have := toStrs_map (strsOf l); rw [hl] at this; exact this
    simp only [genCells, this, hc, Option.map_some, Option.getD_some, hr, hl]

theorem const_agree (ty : CType) (v : Cell) (n : Nat) (hty : goType ty) (ht : cellType v = ty)
    (hlim : ∀ s, v = .str (some s) → s.length < 2 ^ 28) : genConst ty v n = (List.replicate n v).toArray := by
  rcases hty with rfl | rfl | rfl | rfl
  · cases v <;> simp [cellType] at ht
    rename_i x
    simp only [genConst, (gen_const_semantics .int (Or.inl rfl) (0 : Int) x n []).1, Option.getD_some, List.map_replicate]
  · cases v <;> simp [cellType] at ht
    rename_i x
    simp only [genConst, (gen_const_semantics .float (Or.inr (Or.inl rfl)) (0 : UInt64) x n []).1, Option.getD_some, List.map_replicate]
  · cases v <;> simp [cellType] at ht
    rename_i x
    simp only [genConst, (gen_const_semantics .bool (Or.inr (Or.inr rfl)) false x n []).1, Option.getD_some, List.map_replicate]
  · cases v <;> simp [cellType] at ht
    rename_i s
    obtain ⟨c, hc, _, _, _, hr⟩ := gen_scolumn_const_semantics s n (fun t e => hlim t (by rw [e]))
    simp only [genConst, hc, Option.map_some, Option.getD_some, hr, List.map_replicate]

theorem enumCells_agree (d : List Bytes) (l : List Cell) (ht : ∀ x ∈ l, cellType x = .string) :
    genEnumCells d l = (mkEnum d l).map (fun p => (p.1, p.2, l.toArray)) := by
  have hl := cells_str ht
  have : toStrs l = some (strsOf l) := by
    have := toStrs_map (strsOf l); rw [hl] at this; exact this
  have hc := (gen_factory_is_ctor d).1 (strsOf l)
  have hm : (strsOf l).map cellOf = l := hl
  rw [hm] at hc
  simp only [genEnumCells, this, hc]

theorem enumConst_agree (d : List Bytes) (v : Cell) (n : Nat) (ht : cellType v = .string) :
    genEnumConst d v n = (mkEnum d (v :: List.replicate n v)).map (fun p => (p.1, p.2, (List.replicate n v).toArray)) := by
  cases v <;> simp [cellType] at ht
  rename_i s
  exact (gen_factory_is_ctor d).2 s n

/-! ## Well-typed column maps -/

/-- A column of the map handed to `New` that is a well-typed Go value within the pointer's limits: `WF` (a Go cell type;
a slice with `count` cells or one constant; `count < 2^32`), every cell of the declared type, and for string data the
documented limits of `qfstrings.Pointer` (each string shorter than 2^28 bytes, all strings of a slice together shorter than
2^35 bytes). -/
structure Typed (c : NewCol) : Prop where
  wf : WF c
  cells : match c.kind with
    | .cells ty => ∀ x ∈ c.cells, cellType x = ty
    | .const ty => ∀ x ∈ c.cells, cellType x = ty
    | .unsupported => True
  limits : match c.kind with
    | .cells .string => Within (strsOf c.cells)
    | .const .string => ∀ s, Cell.str (some s) ∈ c.cells → s.length < 2 ^ 28
    | _ => True

/-- A column of the map handed to `New` that is a well-typed Go value — `WF` (a Go cell type; a slice with `count` cells
or one constant; `count < 2^32`) and every cell of the declared type — with strings of ANY length. This is what Go's type
checker guarantees of a `[]int` / `[]float64` / `[]bool` / `[]string` / `[]*string` / `Const…` value (a `NewCol` can also
hold, say, a string cell under the kind `[]int`, which no Go value does); only `count < 2^32` restricts the inputs. -/
structure GoData (c : NewCol) : Prop where
  wf : WF c
  cells : match c.kind with
    | .cells ty => ∀ x ∈ c.cells, cellType x = ty
    | .const ty => ∀ x ∈ c.cells, cellType x = ty
    | .unsupported => True

/-- the documented limits of `qfstrings.Pointer` for the data of a string column: each string shorter than 2^28 bytes, all
strings of a slice together shorter than 2^35 bytes -/
def PtrLimits (c : NewCol) : Prop :=
  match c.kind with
  | .cells .string => Within (strsOf c.cells)
  | .const .string => ∀ s, Cell.str (some s) ∈ c.cells → s.length < 2 ^ 28
  | _ => True

theorem Typed.data {c : NewCol} (h : Typed c) : GoData c := ⟨h.wf, h.cells⟩

theorem Typed.ptrLimits {c : NewCol} (h : Typed c) : PtrLimits c := h.limits

/-- two families of constructors do the same on the data of the column `c`, each with the constructor of the kind -/
def Agree (K K' : Ctors) (c : NewCol) : Prop :=
  match c.kind with
  | .cells ty => K.cells ty c.cells = K'.cells ty c.cells ∧ (ty = .string → ∀ d, K.enumCells d c.cells = K'.enumCells d c.cells)
  | .const ty => ∀ v rest, c.cells = v :: rest →
      K.const ty v c.count.toNat = K'.const ty v c.count.toNat ∧
      (ty = .string → ∀ d, K.enumConst d v c.count.toNat = K'.enumConst d v c.count.toNat)
  | .unsupported => True

/-- on a typed column today's constructors are the spec's -/
theorem typed_agree (c : NewCol) (h : Typed c) : Agree genCtors specCtors c := by
  obtain ⟨hwf, hcells, hlim⟩ := h
  have hkind := hwf.kind
  unfold Agree
  cases hk : c.kind with
  | unsupported => trivial
  | cells ty =>
    rw [hk] at hkind hcells hlim
    simp only at hkind hcells hlim ⊢
    refine ⟨?_, ?_⟩
    · show genCells ty c.cells = c.cells.toArray
      apply cells_agree ty c.cells hkind.1 hcells
      intro e; subst e; exact hlim
    · intro e d
      subst e
      exact enumCells_agree d c.cells hcells
  | const ty =>
    rw [hk] at hkind hcells hlim
    simp only at hkind hcells hlim ⊢
    intro v rest hv
    have hvm : v ∈ c.cells := by rw [hv]; simp
    refine ⟨?_, ?_⟩
    · show genConst ty v c.count.toNat = (List.replicate c.count.toNat v).toArray
      apply const_agree ty v _ hkind.1 (hcells v hvm)
      intro s e
      subst e
      have hs : ty = .string := by have := hcells _ hvm; simpa [cellType] using this.symm
      subst hs
      exact hlim s hvm
    · intro e d
      subst e
      exact enumConst_agree d v _ (hcells v hvm)

/-! ## `New` calls a constructor only on the data of a column, with the constructor of its kind -/

theorem run_enumOr_cells (K K' : Ctors) (c : NewCol) (hk : c.kind = .cells .string) (σ : CSt)
    (h1 : K.cells .string c.cells = K'.cells .string c.cells) (h2 : ∀ d, K.enumCells d c.cells = K'.enumCells d c.cells) :
    (enumOr .cells (.cells .string)).run K c σ = (enumOr .cells (.cells .string)).run K' c σ := by
  simp only [enumOr, CK.run, hk]
  cases σ.enums.find? (·.1 == c.name) with
  | none => simp only [h1]
  | some p => simp only [h2]

theorem run_enumOr_const (K K' : Ctors) (c : NewCol) (hk : c.kind = .const .string) (σ : CSt)
    (v : Cell) (rest : List Cell) (hc : c.cells = v :: rest)
    (h1 : K.const .string v c.count.toNat = K'.const .string v c.count.toNat)
    (h2 : ∀ d, K.enumConst d v c.count.toNat = K'.enumConst d v c.count.toNat) :
    (enumOr .const (.const .string)).run K c σ = (enumOr .const (.const .string)).run K' c σ := by
  simp only [enumOr, CK.run, hk, hc]
  cases σ.enums.find? (·.1 == c.name) with
  | none => simp only [h1]
  | some p => simp only [h2]

theorem create_congr (K K' : Ctors) (plain : Bool) (c : NewCol) (h : Agree K K' c) (E : List (Bytes × List Bytes)) :
    runCreate K canonCreate plain c E = runCreate K' canonCreate plain c E := by
  unfold Agree at h
  cases hk : c.kind with
  | unsupported =>
    rw [runCreate_eq K plain c E .other .retErr (by rw [hk]; rfl) (by rfl),
      runCreate_eq K' plain c E .other .retErr (by rw [hk]; rfl) (by rfl)]
    rfl
  | cells ty =>
    rw [hk] at h
    obtain ⟨h1, h2⟩ := h
    cases ty with
    | int =>
      rw [runCreate_eq K plain c E .ints _ (by rw [hk]; rfl) (by rfl), runCreate_eq K' plain c E .ints _ (by rw [hk]; rfl) (by rfl)]
      simp only [CK.run, hk, h1]
    | float =>
      rw [runCreate_eq K plain c E .floats _ (by rw [hk]; rfl) (by rfl), runCreate_eq K' plain c E .floats _ (by rw [hk]; rfl) (by rfl)]
      simp only [CK.run, hk, h1]
    | bool =>
      rw [runCreate_eq K plain c E .bools _ (by rw [hk]; rfl) (by rfl), runCreate_eq K' plain c E .bools _ (by rw [hk]; rfl) (by rfl)]
      simp only [CK.run, hk, h1]
    | string =>
      cases plain
      · rw [runCreate_eq K false c E .ptrs _ (by rw [hk]; rfl) (by rfl), runCreate_eq K' false c E .ptrs _ (by rw [hk]; rfl) (by rfl)]
        exact run_enumOr_cells K K' c hk _ h1 (h2 rfl)
      · rw [runCreate_eq K true c E .strs _ (by rw [hk]; rfl) (by rfl), runCreate_eq K' true c E .strs _ (by rw [hk]; rfl) (by rfl)]
        exact run_enumOr_cells K K' c hk _ h1 (h2 rfl)
    | enum => simp only [runCreate, hk, dkindOf]
    | undef => simp only [runCreate, hk, dkindOf]
  | const ty =>
    rw [hk] at h
    have hneg : ∀ (t : CK), (∀ σ, ¬ c.count < 0 → t.run K c σ = t.run K' c σ) →
        (CK.ifCountNeg .retErr t).run K c { enums := E } = (CK.ifCountNeg .retErr t).run K' c { enums := E } := by
      intro t ht
      simp only [CK.run, hk]
      split
      · rfl
      · next hn => exact ht _ hn
    cases hc : c.cells with
    | nil =>
      have hstuck : ∀ (K : Ctors) (ct : Ctor) (σ : CSt), (CK.make ct .retCol).run K c σ = .stuck := by
        intro K ct σ; simp only [CK.run, hk, hc]
      cases ty with
      | int =>
        rw [runCreate_eq K plain c E .constInt _ (by rw [hk]; rfl) (by rfl), runCreate_eq K' plain c E .constInt _ (by rw [hk]; rfl) (by rfl)]
        exact hneg _ (fun σ _ => by rw [hstuck, hstuck])
      | float =>
        rw [runCreate_eq K plain c E .constFloat _ (by rw [hk]; rfl) (by rfl), runCreate_eq K' plain c E .constFloat _ (by rw [hk]; rfl) (by rfl)]
        exact hneg _ (fun σ _ => by rw [hstuck, hstuck])
      | bool =>
        rw [runCreate_eq K plain c E .constBool _ (by rw [hk]; rfl) (by rfl), runCreate_eq K' plain c E .constBool _ (by rw [hk]; rfl) (by rfl)]
        exact hneg _ (fun σ _ => by rw [hstuck, hstuck])
      | string =>
        rw [runCreate_eq K plain c E .constStr _ (by rw [hk]; rfl) (by rfl), runCreate_eq K' plain c E .constStr _ (by rw [hk]; rfl) (by rfl)]
        apply hneg
        intro σ _
        simp only [enumOr, CK.run, hk, hc]
      | enum => simp only [runCreate, hk, dkindOf]
      | undef => simp only [runCreate, hk, dkindOf]
    | cons v rest =>
      obtain ⟨h1, h2⟩ := h v rest hc
      have hmake : ∀ (σ : CSt), (CK.make (.const ty) .retCol).run K c σ = (CK.make (.const ty) .retCol).run K' c σ := by
        intro σ; simp only [CK.run, hk, hc, h1]
      cases ty with
      | int =>
        rw [runCreate_eq K plain c E .constInt _ (by rw [hk]; rfl) (by rfl), runCreate_eq K' plain c E .constInt _ (by rw [hk]; rfl) (by rfl)]
        exact hneg _ (fun σ _ => hmake σ)
      | float =>
        rw [runCreate_eq K plain c E .constFloat _ (by rw [hk]; rfl) (by rfl), runCreate_eq K' plain c E .constFloat _ (by rw [hk]; rfl) (by rfl)]
        exact hneg _ (fun σ _ => hmake σ)
      | bool =>
        rw [runCreate_eq K plain c E .constBool _ (by rw [hk]; rfl) (by rfl), runCreate_eq K' plain c E .constBool _ (by rw [hk]; rfl) (by rfl)]
        exact hneg _ (fun σ _ => hmake σ)
      | string =>
        rw [runCreate_eq K plain c E .constStr _ (by rw [hk]; rfl) (by rfl), runCreate_eq K' plain c E .constStr _ (by rw [hk]; rfl) (by rfl)]
        apply hneg
        intro σ _
        exact run_enumOr_const K K' c hk σ v rest hc h1 (h2 rfl)
      | enum => simp only [runCreate, hk, dkindOf]
      | undef => simp only [runCreate, hk, dkindOf]

/-- **`New` depends on the constructors only through what they build of the data of the map's columns.** -/
theorem new_congr (K K' : Ctors) (plain : Bytes → Bool) (cols : List NewCol) (h : ∀ c ∈ cols, Agree K K' c)
    (order : List Bytes) (enums : List (Bytes × List Bytes)) :
    genNew K plain cols order enums = genNew K' plain cols order enums := by
  have hc : createIn K canonCreate plain cols = createIn K' canonCreate plain cols := by
    funext name E
    unfold createIn
    cases hf : cols.find? (·.name == name) with
    | some c => exact create_congr K K' _ c (h c (List.mem_of_find?_eq_some hf)) E
    | none => exact create_congr K K' false _ (by unfold Agree; trivial) E
  unfold genNew constructIn
  rw [gen_construct_canon.1, hc]

/-! ## … and, of a string column that is declared an enum, only through the enum constructor -/

/-- the declarations `createColumn` returns are the ones it got, or those without the column's own -/
theorem run_enums (K : Ctors) (c : NewCol) : ∀ (t : CK) (σ : CSt) (col : LCol) (e : List (Bytes × List Bytes)),
    t.run K c σ = .ok col e → e = σ.enums ∨ e = σ.enums.filter (fun x => !(x.1 == c.name)) := by
  intro t
  induction t with
  | strsToPtrs k ih => intro σ col e h; simp only [CK.run] at h; exact ih σ col e h
  | lookupEnum hit miss ih1 ih2 =>
    intro σ col e h
    simp only [CK.run] at h
    split at h
    · exact (by have := ih1 _ col e h; exact this)
    · exact (by have := ih2 _ col e h; exact this)
  | consume k ih =>
    intro σ col e h
    simp only [CK.run] at h
    rcases ih _ col e h with h' | h'
    · exact .inr h'
    · refine .inr ?_
      rw [h', List.filter_filter]
      simp
  | make ctor k ih =>
    intro σ col e h
    simp only [CK.run] at h
    split at h
    · exact (by have := ih _ col e h; exact this)
    · exact (by have := ih _ col e h; exact this)
    · cases h
  | makeEnum ctor onErr k ih1 ih2 =>
    intro σ col e h
    simp only [CK.run] at h
    split at h
    · cases h
    · split at h
      · cases h
      · exact (by have := ih1 _ col e h; exact this)
      · exact (by have := ih2 _ col e h; exact this)
  | ifCountNeg t e' ih1 ih2 =>
    intro σ col e h
    simp only [CK.run] at h
    split at h
    · split at h
      · exact (by have := ih1 _ col e h; exact this)
      · exact (by have := ih2 _ col e h; exact this)
    · cases h
  | retCol =>
    intro σ col e h
    simp only [CK.run] at h
    split at h
    · cases h; exact .inl rfl
    · cases h
  | retErr => intro σ col e h; cases h
  | «opaque» txt => intro σ col e h; cases h


/-! ## The pointer limits only where `scolumn.New` / `scolumn.NewConst` is called -/

/-- a string column (slice or constant) for which `enums` holds a declaration: `createColumn` builds it with
`ecolumn.New` / `ecolumn.NewConst`, `scolumn.New` is not called -/
def declaredEnum (enums : List (Bytes × List Bytes)) (c : NewCol) : Bool :=
  (match c.kind with | .cells .string => true | .const .string => true | _ => false) &&
    (enums.find? (·.1 == c.name)).isSome

/-- the two enum constructors do the same on the data of the column `c` -/
def AgreeEnum (K K' : Ctors) (c : NewCol) : Prop :=
  match c.kind with
  | .cells _ => ∀ d, K.enumCells d c.cells = K'.enumCells d c.cells
  | .const _ => ∀ v rest, c.cells = v :: rest → ∀ d, K.enumConst d v c.count.toNat = K'.enumConst d v c.count.toNat
  | .unsupported => True

/-- what `New` needs of two families of constructors on the column `c` when the declarations are `enums`: for a string
column with a declaration only the enum constructors, else `Agree` -/
def AgreeFor (K K' : Ctors) (enums : List (Bytes × List Bytes)) (c : NewCol) : Prop :=
  (declaredEnum enums c = false → Agree K K' c) ∧ (declaredEnum enums c = true → AgreeEnum K K' c)

/-- a string column whose declaration is still there: `createColumn` calls the enum constructor only -/
theorem create_congr_decl (K K' : Ctors) (plain : Bool) (c : NewCol) (E : List (Bytes × List Bytes))
    (hk : c.kind = .cells .string ∨ c.kind = .const .string) (p : Bytes × List Bytes)
    (hf : E.find? (·.1 == c.name) = some p) (h : AgreeEnum K K' c) :
    runCreate K canonCreate plain c E = runCreate K' canonCreate plain c E := by
  unfold AgreeEnum at h
  rcases hk with hk | hk
  · rw [hk] at h
    simp only at h
    cases plain
    · rw [runCreate_eq K false c E .ptrs _ (by rw [hk]; rfl) (by rfl), runCreate_eq K' false c E .ptrs _ (by rw [hk]; rfl) (by rfl)]
      simp only [enumOr, CK.run, hk, hf, h]
    · rw [runCreate_eq K true c E .strs _ (by rw [hk]; rfl) (by rfl), runCreate_eq K' true c E .strs _ (by rw [hk]; rfl) (by rfl)]
      simp only [enumOr, CK.run, hk, hf, h]
  · rw [hk] at h
    simp only at h
    rw [runCreate_eq K plain c E .constStr _ (by rw [hk]; rfl) (by rfl), runCreate_eq K' plain c E .constStr _ (by rw [hk]; rfl) (by rfl)]
    cases hc : c.cells with
    | nil => simp only [enumOr, CK.run, hk, hc, hf]
    | cons v rest =>
      have h2 := h v rest hc
      simp only [enumOr, CK.run, hk, hc, hf, h2]

theorem create_congr_for (K K' : Ctors) (plain : Bool) (c : NewCol) (enums : List (Bytes × List Bytes))
    (h : AgreeFor K K' enums c) (E : List (Bytes × List Bytes))
    (hfind : E.find? (·.1 == c.name) = enums.find? (·.1 == c.name)) :
    runCreate K canonCreate plain c E = runCreate K' canonCreate plain c E := by
  cases hd : declaredEnum enums c with
  | false => exact create_congr K K' plain c (h.1 hd) E
  | true =>
    have hA := h.2 hd
    unfold declaredEnum at hd
    rw [Bool.and_eq_true] at hd
    obtain ⟨hd1, hd2⟩ := hd
    have hk : c.kind = .cells .string ∨ c.kind = .const .string := by
      cases hk : c.kind with
      | unsupported => rw [hk] at hd1; cases hd1
      | cells ty => cases ty <;> simp [hk] at hd1 ⊢
      | const ty => cases ty <;> simp [hk] at hd1 ⊢
    obtain ⟨p, hp⟩ := Option.isSome_iff_exists.1 hd2
    exact create_congr_decl K K' plain c E hk p (hfind.trans hp) hA

theorem find_filter_ne (E : List (Bytes × List Bytes)) (n m : Bytes) (h : m ≠ n) :
    (E.filter (fun x => !(x.1 == n))).find? (·.1 == m) = E.find? (·.1 == m) := by
  induction E with
  | nil => rfl
  | cons x xs ih =>
    by_cases hx : x.1 = n
    · have hm : (x.1 == m) = false := beq_false_of_ne (by rw [hx]; exact fun e => h e.symm)
      simp only [List.filter_cons, hx, beq_self_eq_true, Bool.not_true, Bool.false_eq_true, if_false, ih,
        List.find?_cons]
      rw [← hx, hm]
    · have hb : (x.1 == n) = false := beq_false_of_ne hx
      simp only [List.filter_cons, hb, Bool.not_false, if_true, List.find?_cons, ih]

/-- what `createColumn` leaves of the declarations: all of them, or all but the column's -/
theorem createIn_out (K : Ctors) (plain : Bytes → Bool) (cols : List NewCol) (n : Bytes) (E : List (Bytes × List Bytes))
    (col : LCol) (e : List (Bytes × List Bytes)) (h : createIn K canonCreate plain cols n E = .ok col e) :
    e = E ∨ e = E.filter (fun x => !(x.1 == n)) := by
  have key : ∀ (pl : Bool) (c : NewCol), c.name = n → runCreate K canonCreate pl c E = .ok col e →
      e = E ∨ e = E.filter (fun x => !(x.1 == n)) := by
    intro pl c hn hr
    unfold runCreate at hr
    split at hr
    · cases hr
    · split at hr
      · cases hr
      · have := run_enums K c _ _ col e hr
        rw [hn] at this
        exact this
  unfold createIn at h
  split at h
  · next c hc => exact key _ c (find_name hc).1 h
  · exact key _ _ rfl h

/-- **The loop of `New` depends on `createColumn` only at the names of the order, each with its own declaration still
there** (an order without repetitions: a declaration is deleted only by the column of its name). -/
theorem loop_congr (cr cr' : Bytes → List (Bytes × List Bytes) → COut) (enums : List (Bytes × List Bytes))
    (hout : ∀ n E col e, cr' n E = .ok col e → e = E ∨ e = E.filter (fun x => !(x.1 == n)))
    (heq : ∀ n E, E.find? (·.1 == n) = enums.find? (·.1 == n) → cr n E = cr' n E) :
    ∀ (ns : List Bytes) (i : Nat) (σ : LSt), ns.Nodup →
      (∀ n ∈ ns, σ.enums.find? (·.1 == n) = enums.find? (·.1 == n)) →
      runLoop cr canonBody i ns σ = runLoop cr' canonBody i ns σ := by
  intro ns
  induction ns with
  | nil => intro i σ _ _; rfl
  | cons n ns ih =>
    intro i σ hnd hinv
    have hl : ∀ (f : Bytes → List (Bytes × List Bytes) → COut), runLoop f canonBody i (n :: ns) σ =
        match runBody f i n canonBody { σ with created := none } with
        | .next σ' => runLoop f canonBody (i + 1) ns σ'
        | r => r := fun _ => rfl
    rw [hl cr, hl cr', body_run, body_run, heq n σ.enums (hinv n (by simp))]
    cases hc : cr' n σ.enums with
    | err => rfl
    | stuck => rfl
    | ok c e =>
      simp only
      by_cases h1 : σ.cols.length = i
      · simp only [h1, if_true]
        by_cases h2 : ((if i = 0 then (c.cells.size : Int) else σ.first) != (c.cells.size : Int)) = true
        · simp only [h2, if_true]
        · simp only [h2]
          apply ih _ _ (List.nodup_cons.1 hnd).2
          intro m hm
          have hmn : m ≠ n := fun e => (List.nodup_cons.1 hnd).1 (e ▸ hm)
          have hm' := hinv m (List.mem_cons_of_mem _ hm)
          rcases hout n σ.enums c e hc with rfl | rfl
          · exact hm'
          · show (σ.enums.filter _).find? _ = _
            rw [find_filter_ne _ _ _ hmn]; exact hm'
      · simp only [h1, if_false]

/-- **`New` depends on the constructors only through what `createColumn` calls on the data of the map's columns**: for a
string column with a declaration the enum constructor, else the constructors of its kind (`AgreeFor`). For an order without
repetitions. -/
theorem new_congr_for (K K' : Ctors) (plain : Bytes → Bool) (cols : List NewCol)
    (order : List Bytes) (enums : List (Bytes × List Bytes)) (hnd : (specOrder cols order).Nodup)
    (h : ∀ c ∈ cols, AgreeFor K K' enums c) :
    genNew K plain cols order enums = genNew K' plain cols order enums := by
  have heq : ∀ n E, E.find? (·.1 == n) = enums.find? (·.1 == n) →
      createIn K canonCreate plain cols n E = createIn K' canonCreate plain cols n E := by
    intro n E hE
    unfold createIn
    cases hf : cols.find? (·.name == n) with
    | some c =>
      obtain ⟨hn, hm⟩ := find_name hf
      exact create_congr_for K K' _ c enums (h c hm) E (by rw [hn]; exact hE)
    | none => exact create_congr K K' false _ (by unfold Agree; trivial) E
  have hloop := loop_congr (createIn K canonCreate plain cols) (createIn K' canonCreate plain cols) enums
    (createIn_out K' plain cols) heq (specOrder cols order) 0 { enums := enums } hnd (fun _ _ => rfl)
  unfold genNew constructIn
  rw [gen_construct_canon.1, gen_construct_canon.2.1]
  simp only [canonTail, runTail, hloop]

/-- **What `gen_new_end_to_end_partial` asks of a column of the map, given the enum declarations**: a well-typed Go value
(`GoData`), and the limits of the packed string pointer ONLY IF `createColumn` hands the data to `scolumn.New` /
`scolumn.NewConst` — a string column WITHOUT a declaration in `Enums`. String data that is declared an enum is never
packed into pointers (`ecolumn.New` stores one byte per row and the distinct values as Go strings): any length. -/
structure TypedFor (enums : List (Bytes × List Bytes)) (c : NewCol) : Prop where
  data : GoData c
  limits : declaredEnum enums c = false → PtrLimits c

/-- the stronger hypothesis of the earlier version of the theorem -/
theorem Typed.for {c : NewCol} (h : Typed c) (enums : List (Bytes × List Bytes)) : TypedFor enums c :=
  ⟨h.data, fun _ => h.limits⟩

theorem typedFor_agree (enums : List (Bytes × List Bytes)) (c : NewCol) (h : TypedFor enums c) :
    AgreeFor genCtors specCtors enums c := by
  refine ⟨fun hd => typed_agree c ⟨h.data.wf, h.data.cells, h.limits hd⟩, fun hd => ?_⟩
  have hcells := h.data.cells
  unfold declaredEnum at hd
  rw [Bool.and_eq_true] at hd
  have hd1 := hd.1
  unfold AgreeEnum
  cases hk : c.kind with
  | unsupported => trivial
  | cells ty =>
    rw [hk] at hcells hd1
    simp only at hcells
    have hs : ty = .string := by cases ty <;> simp at hd1 ⊢
    subst hs
    intro d
    exact enumCells_agree d c.cells hcells
  | const ty =>
    rw [hk] at hcells hd1
    simp only at hcells
    have hs : ty = .string := by cases ty <;> simp at hd1 ⊢
    subst hs
    intro v rest hv d
    exact enumConst_agree d v _ (hcells v (by rw [hv]; simp))

/-! ## The frame `newS` builds is well-typed -/

/-- the column as stored -/
def vcolOf (c : LCol) : VCol := { name := c.name, ty := c.ty, vals := c.vals, data := c.cells }

/-- a column of `n` cells of its type -/
def ColProp (n : Int) (col : LCol) : Prop :=
  col.ty ∈ C03Compare.tys ∧ col.cells.size = n.toNat ∧ ∀ x ∈ col.cells.toList, wtCell col.ty col.vals x = true

theorem wt_of_cellType {ty : CType} (hty : goType ty) (vals : List Bytes) {x : Cell} (h : cellType x = ty) :
    wtCell ty vals x = true := by
  rcases hty with rfl | rfl | rfl | rfl <;> cases x <;> simp [cellType] at h <;> rfl

theorem mkEnum_mem {decl : List Bytes} {src : List Cell} {vals : List Bytes} {strict : Bool}
    (h : mkEnum decl src = some (vals, strict)) (s : Bytes) (hs : Cell.str (some s) ∈ src) : s ∈ vals := by
  rw [C17Enum.mkEnum_eq] at h
  split at h
  · cases h
  · split at h
    · split at h
      · next hall =>
        simp only [Option.some.injEq, Prod.mk.injEq] at h
        obtain ⟨rfl, _⟩ := h
        have := List.all_eq_true.mp hall _ hs
        simpa [C17Enum.declOk] using this
      · cases h
    · split at h
      · cases h
      · simp only [Option.some.injEq, Prod.mk.injEq] at h
        obtain ⟨rfl, _⟩ := h
        exact (C17Enum.mem_deriveFrom [] src s).mpr (.inr hs)

theorem wt_enum {decl : List Bytes} {src : List Cell} {vals : List Bytes} {strict : Bool}
    (h : mkEnum decl src = some (vals, strict)) {x : Cell} (hx : x ∈ src) (ht : cellType x = .string) :
    wtCell .enum vals x = true := by
  cases x <;> simp [cellType] at ht
  rename_i o
  cases o with
  | none => rfl
  | some s =>
    have hm := mkEnum_mem h s hx
    have hsome := C17Enum.enumRank_isSome_iff.mpr hm
    cases hr : enumRank vals s with
    | none => rw [hr] at hsome; cases hsome
    | some i =>
      have hi := ((C17Enum.mkEnum_rank_lt_255 decl src vals strict h).2.1 s i hr).1
      simp [wtCell, cellVal, hr, enumNull, hi]

theorem specCol_ok (enums : List (Bytes × List Bytes)) (used : List Bytes) (c : NewCol) (ht : GoData c)
    (col : LCol) (used' : List Bytes) (h : specCol enums used c = some (col, used')) : ColProp c.count col := by
  obtain ⟨hwf, hcells⟩ := ht
  have hkind := hwf.kind
  unfold specCol at h
  -- the cell list and its type
  have key : ∀ (ty : CType) (cl : List Cell) (src : List Cell), goType ty → (∀ x ∈ cl, cellType x = ty) →
      (∀ x ∈ cl, x ∈ src) → cl.length = c.count.toNat →
      (if ty == .string then
        match enums.find? (·.1 == c.name) with
        | some (_, decl) =>
          (mkEnum decl src).map (fun (vals, strict) =>
            (({ name := c.name, ty := .enum, vals := vals, strict := strict, cells := cl.toArray } : LCol), c.name :: used))
        | none => some ({ name := c.name, ty := .string, cells := cl.toArray }, used)
      else some ({ name := c.name, ty := ty, cells := cl.toArray }, used)) = some (col, used') → ColProp c.count col := by
    intro ty cl src hty hcl hsub hlen hres
    by_cases hs : ty = .string
    · subst hs
      simp only [beq_self_eq_true, if_true] at hres
      cases hf : enums.find? (·.1 == c.name) with
      | none =>
        rw [hf] at hres
        simp only [Option.some.injEq, Prod.mk.injEq] at hres
        obtain ⟨rfl, _⟩ := hres
        exact ⟨by simp [C03Compare.tys], by simpa using hlen, fun x hx => wt_of_cellType hty [] (hcl x (by simpa using hx))⟩
      | some p =>
        obtain ⟨k, decl⟩ := p
        rw [hf] at hres
        simp only at hres
        cases hm : mkEnum decl src with
        | none => rw [hm] at hres; cases hres
        | some q =>
          obtain ⟨vals, strict⟩ := q
          rw [hm] at hres
          simp only [Option.map_some, Option.some.injEq, Prod.mk.injEq] at hres
          obtain ⟨rfl, _⟩ := hres
          refine ⟨by simp [C03Compare.tys], by simpa using hlen, fun x hx => ?_⟩
          have hx' : x ∈ cl := by simpa using hx
          exact wt_enum hm (hsub x hx') (hcl x hx')
    · have hb : (ty == CType.string) = false := beq_false_of_ne hs
      simp only [hb, Bool.false_eq_true, if_false, Option.some.injEq, Prod.mk.injEq] at hres
      obtain ⟨rfl, _⟩ := hres
      refine ⟨?_, by simpa using hlen, fun x hx => wt_of_cellType hty [] (hcl x (by simpa using hx))⟩
      rcases hty with rfl | rfl | rfl | rfl <;> simp [C03Compare.tys]
  cases hk : c.kind with
  | unsupported => rw [hk] at h; cases h
  | cells ty =>
    rw [hk] at h hkind hcells
    simp only at h hkind hcells
    exact key ty c.cells c.cells hkind.1 hcells (fun x hx => hx) (by rw [hkind.2]; simp) h
  | const ty =>
    rw [hk] at h hkind hcells
    simp only at h hkind hcells
    obtain ⟨hty, v, hv⟩ := hkind
    have hvt : cellType v = ty := hcells v (by rw [hv]; simp)
    refine key ty (List.replicate c.count.toNat c.cells.head!) (c.cells ++ List.replicate c.count.toNat c.cells.head!) hty ?_ ?_ (by simp) h
    · intro x hx
      rw [hv] at hx
      have := (List.mem_replicate.mp hx).2
      rw [this]; exact hvt
    · intro x hx
      exact List.mem_append_right _ hx

theorem build_ok (enums : List (Bytes × List Bytes)) (len : Int) : ∀ (ordered : List NewCol) (used : List Bytes)
    (lcols : List LCol) (u : List Bytes), (∀ c ∈ ordered, GoData c) →
    newS.build enums len used ordered = some (lcols, u) → ∀ col ∈ lcols, ColProp len col := by
  intro ordered
  induction ordered with
  | nil =>
    intro used lcols u _ h
    rw [build_nil] at h
    simp only [Option.some.injEq, Prod.mk.injEq] at h
    obtain ⟨rfl, _⟩ := h
    intro col hc; cases hc
  | cons c cs ih =>
    intro used lcols u ht h
    rw [build_cons] at h
    by_cases hneg : c.count < 0
    · simp [hneg] at h
    · simp only [hneg, if_false] at h
      cases hs : specCol enums used c with
      | none => rw [hs] at h; cases h
      | some p =>
        obtain ⟨col0, used'⟩ := p
        rw [hs] at h
        simp only at h
        by_cases hl : c.count = len
        · have hb : (c.count != len) = false := by simp [hl]
          simp only [hb, Bool.false_eq_true, if_false] at h
          cases hr : newS.build enums len used' cs with
          | none => rw [hr] at h; cases h
          | some q =>
            obtain ⟨rest, u'⟩ := q
            rw [hr] at h
            simp only [Option.some.injEq, Prod.mk.injEq] at h
            obtain ⟨rfl, _⟩ := h
            intro col hc
            rcases List.mem_cons.mp hc with rfl | hc
            · rw [← hl]
              exact specCol_ok enums used c (ht c (by simp)) _ _ hs
            · exact ih used' rest u' (fun c' hc' => ht c' (by simp [hc'])) hr col hc
        · have hb : (c.count != len) = true := by simpa using hl
          simp [hb] at h

/-- the frame `newS` builds of typed columns: every column of one of the five column types, with `n` cells of its type
(an enum cell null or a member of the value table with rank < 255) -/
theorem newS_ok (cols : List NewCol) (order : List Bytes) (enums : List (Bytes × List Bytes)) (ht : ∀ c ∈ cols, GoData c)
    (f : LFrame) (h : newS cols order enums = .ok f) : ∀ col ∈ f.cols, ColProp f.n col := by
  by_cases hp : newPrefixRejects cols order
  · rw [C08Guards.newS_prefix cols order enums hp] at h; cases h
  · rw [newS_after_prefix cols order enums hp] at h
    have hsub : ∀ c ∈ (specOrder cols order).filterMap (fun n => cols.find? (·.name == n)), GoData c := by
      intro c hc
      obtain ⟨n, _, hn⟩ := List.mem_filterMap.mp hc
      exact ht c (List.mem_of_find?_eq_some hn)
    split at h
    · cases h
    · next lcols used hb =>
      split at h
      · simp only [Res.ok.injEq] at h
        subst h
        intro col hc
        obtain ⟨h1, h2, h3⟩ := build_ok enums _ _ [] lcols used hsub hb col hc
        exact ⟨h1, by rw [h2]; exact (Int.toNat_natCast _).symm, h3⟩
      · cases h

theorem pick_range (c : VCol) (n : Nat) (h : c.data.size = n) : c.pick (List.range n) = c.data.toList := by
  unfold VCol.pick
  apply List.ext_getElem
  · simp [h]
  · intro i h1 h2
    simp only [List.length_map, List.length_range] at h1
    have h3 : i < c.data.size := by omega
    simp [h3]

theorem colOK_of_prop (n : Nat) (col : LCol) (h : ColProp n col) : C09ViewsGen.ColOK (vcolOf col) (List.range n) := by
  obtain ⟨h1, h2, h3⟩ := h
  have hsize : col.cells.size = n := by rw [h2]; exact Int.toNat_natCast n
  refine ⟨h1, ?_, ?_⟩
  · intro j hj
    have hj' : j < col.cells.size := hj
    have e : (vcolOf col).data[j]! = col.cells[j] := by simp [vcolOf, hj']
    rw [e]
    exact h3 _ (by simp)
  · intro j hj
    have := List.mem_range.mp hj
    show j < col.cells.size
    omega

/-! ## `New`, end to end -/

/-- **`New` of today's source with the constructors of today's source builds `newS`, and every cell reads back.**
For every map of columns that are well-typed Go values (`GoData`), with the string columns that have NO enum declaration
within the limits of the packed string pointer (`TypedFor`), every requested column order (empty: the default, sorted by
name) without duplicates, every list of enum declarations and either way of passing string slices (`plain`: `[]string` /
`[]*string`): `New` as regenerated — the guard prefix (`C08Guards`), `createColumn` and the loop and tail of `New`
(`C08Construct`), the column constructors of icolumn / fcolumn / bcolumn / scolumn (`C08CtorsGen`, `NewPointer` of
`C08PointerGen` included) and the enum factory (`C17Factory`) — returns exactly `newS cols order enums`: `Err` where the spec
rejects, else the spec's frame; and in that frame, stored with the ascending index `0 … n-1` `New` gives it, every column
read through the regenerated typed views (`C09ViewsGen`: `View(ix).Len()`, `.Slice()`, `.ItemAt(i)`) shows `n` rows and
exactly the spec's cells, which are the cells that were passed in (`newS`: `cells := cl.toArray`).

FULL STATEMENT (what C08 says of `New`): the same conclusion for EVERY column map, order and declaration list.
EXCLUDED here (`_partial`), exactly:
1. a column order that names a column twice (`hnd`); NECESSARY — `nodup_necessary` below: for `ColumnOrder("e","e")`
   over `{e, a}` with `Enums{e: …}` the conclusion is false (code `[enum, string]`, spec `[enum, enum]`);
2. a column with 2^32 rows or more (`GoData.wf.small`): the index is made with `uint32(len)` (`rows_2_32_outside`);
3. a string column WITHOUT enum declaration holding a string of 2^28 bytes or more, or 2^35 bytes or more in all
   (`TypedFor.limits`): `NewPointer` packs offset and length into overlapping bits (`C08PointerGen`). String data that is
   declared an enum is NOT restricted (`enum_beyond_limits`).
The remaining content of `GoData` (a Go cell type, a slice of `count` cells or one constant, cells of the declared type) is
no restriction of the Go inputs: it says which `NewCol` values stand for Go values. -/
theorem gen_new_end_to_end_partial (plain : Bytes → Bool) (cols : List NewCol) (order : List Bytes)
    (enums : List (Bytes × List Bytes)) (ht : ∀ c ∈ cols, TypedFor enums c) (hnd : (specOrder cols order).Nodup) :
    C08Construct.genNew genCtors plain cols order enums = some (newS cols order enums) ∧
    ∀ f, newS cols order enums = .ok f → ∀ col ∈ f.cols,
      C09ViewsGen.genLen (vcolOf col) (List.range f.n) = some f.n ∧
      C09ViewsGen.genSlice (vcolOf col) (List.range f.n) = some col.cells.toList ∧
      ∀ i, C09ViewsGen.genItemAt (vcolOf col) (List.range f.n) i = col.cells[i]? := by
  refine ⟨?_, ?_⟩
  · rw [new_congr_for genCtors specCtors plain cols order enums hnd (fun c hc => typedFor_agree enums c (ht c hc))]
    exact gen_new_semantics_partial specCtors specCtors_spec plain cols order enums (fun c hc => (ht c hc).data.wf) hnd
  · intro f hf col hc
    have hprop := newS_ok cols order enums (fun c hc => (ht c hc).data) f hf col hc
    have hsize : (vcolOf col).data.size = f.n := by
      show col.cells.size = f.n
      rw [hprop.2.1]; exact Int.toNat_natCast f.n
    obtain ⟨h1, h2, h3⟩ := C09ViewsGen.gen_view_semantics (vcolOf col) (List.range f.n) (colOK_of_prop f.n col hprop)
    rw [pick_range _ _ hsize] at h1 h3
    refine ⟨by simpa using h2, h3, fun i => ?_⟩
    rw [h1 i]
    simp [vcolOf]

/-! ## A concrete input that meets the hypotheses -/

section Example

/-- `{"i": []int{1, 2}, "f": ConstFloat(0.0, 2), "e": []*string{"x", nil}, "s": []string{"", "ab"}}` -/
def exCols : List NewCol :=
  [{ name := [105], kind := .cells .int, count := 2, cells := [.int 1, .int 2] },
   { name := [102], kind := .const .float, count := 2, cells := [.float 0] },
   { name := [101], kind := .cells .string, count := 2, cells := [.str (some [120]), .str none] },
   { name := [115], kind := .cells .string, count := 2, cells := [.str (some []), .str (some [97, 98])] }]

theorem exCols_typed : ∀ c ∈ exCols, Typed c := by
  intro c hc
  simp only [exCols, List.mem_cons, List.not_mem_nil, or_false] at hc
  rcases hc with rfl | rfl | rfl | rfl
  · exact ⟨⟨by decide, ⟨Or.inl rfl, rfl⟩⟩, by decide, trivial⟩
  · exact ⟨⟨by decide, ⟨Or.inr (Or.inl rfl), _, rfl⟩⟩, by decide, trivial⟩
  · refine ⟨⟨by decide, ⟨Or.inr (Or.inr (Or.inr rfl)), rfl⟩⟩, by decide, ⟨by decide, ?_⟩⟩
    intro s hs
    simp [strsOf] at hs
    subst hs; decide
  · refine ⟨⟨by decide, ⟨Or.inr (Or.inr (Or.inr rfl)), rfl⟩⟩, by decide, ⟨by decide, ?_⟩⟩
    intro s hs
    simp [strsOf] at hs
    rcases hs with rfl | rfl <;> decide

/-- the hypotheses of `gen_new_end_to_end_partial` hold for it, in the order `s, e, i, f` with `e` declared an enum -/
example : (∀ c ∈ exCols, TypedFor [([101], [[121], [120]])] c) ∧ (specOrder exCols [[115], [101], [105], [102]]).Nodup ∧
    (specOrder exCols []).Nodup :=
  ⟨fun c hc => (exCols_typed c hc).for _, by decide, by decide⟩

/-- … and the spec is not trivial on it -/
example : (match newS exCols [[115], [101], [105], [102]] [([101], [[121], [120]])] with
    | .ok f => some (f.names, f.cols.map (·.ty), f.cols.map (·.vals), f.rows)
    | .err => none) =
    some ([[115], [101], [105], [102]], [.string, .enum, .int, .float], [[], [[121], [120]], [], []],
      [[.str (some []), .str (some [120]), .int 1, .float 0], [.str (some [97, 98]), .str none, .int 2, .float 0]]) := by
  rfl

/-- a string of 2^28 bytes -/
def bigStr : Bytes := List.replicate (2 ^ 28) 97

theorem bigStr_length : bigStr.length = 2 ^ 28 := List.length_replicate

/-- `{"e": []*string{<a string of 2^28 bytes>}}`: beyond the limit of the string pointer -/
def bigCol : NewCol := { name := [101], kind := .cells .string, count := 1, cells := [.str (some bigStr)] }

/-- **String data declared an enum is not restricted**: with `Enums{"e": …}` the column meets the hypothesis of
`gen_new_end_to_end_partial` (`TypedFor`), although it is outside the pointer's limits (`Typed`, the hypothesis of the
earlier version, fails; so does `TypedFor` without the declaration). -/
theorem enum_beyond_limits : TypedFor [([101], [])] bigCol ∧ ¬ Typed bigCol ∧ ¬ TypedFor [] bigCol := by
  have hd : GoData bigCol := by
    refine ⟨⟨by decide, ⟨Or.inr (Or.inr (Or.inr rfl)), rfl⟩⟩, ?_⟩
    intro x hx
    have hx' : x = .str (some bigStr) := by simpa only [bigCol, List.mem_cons, List.not_mem_nil, or_false] using hx
    subst hx'; rfl
  have hno : ¬ PtrLimits bigCol := by
    intro h
    have h2 : bigStr.length < 2 ^ 28 := h.2 bigStr (List.mem_cons_self ..)
    rw [bigStr_length] at h2
    exact Nat.lt_irrefl _ h2
  have e1 : declaredEnum [([101], [])] bigCol = true := rfl
  have e2 : declaredEnum [] bigCol = false := rfl
  exact ⟨⟨hd, fun h => by rw [e1] at h; cases h⟩, fun h => hno h.limits, fun h => hno (h.limits e2)⟩

/-! ### The hypothesis on the order is necessary -/

private def nE : Bytes := [101]
private def nA : Bytes := [97]
/-- `{"e": []*string{"a"}, "a": []int{1}}` -/
def dupCols : List NewCol :=
  [{ name := nE, kind := .cells .string, count := 1, cells := [.str (some nA)] },
   { name := nA, kind := .cells .int, count := 1, cells := [.int 1] }]

def typesOf : Option Res → List CType
  | some (.ok f) => f.cols.map (·.ty)
  | _ => []

theorem dupCols_typed : ∀ c ∈ dupCols, Typed c := by
  intro c hc
  simp only [dupCols, List.mem_cons, List.not_mem_nil, or_false] at hc
  rcases hc with rfl | rfl
  · refine ⟨⟨by decide, ⟨Or.inr (Or.inr (Or.inr rfl)), rfl⟩⟩, by decide, ⟨by decide, ?_⟩⟩
    intro s hs
    simp [strsOf] at hs
    subst hs; decide
  · exact ⟨⟨by decide, ⟨Or.inl rfl, rfl⟩⟩, by decide, trivial⟩

/-- **The `Nodup` hypothesis cannot be dropped**: `New({e, a}, ColumnOrder("e", "e"), Enums{"e": {}})` meets every other
hypothesis (even the stronger `Typed`), the guard prefix lets it pass (right length, only known names), and the conclusion
is FALSE: the regenerated `New` (with the regenerated constructors) builds `[enum, string]` — the declaration is consumed
by the first occurrence —, `newS` builds `[enum, enum]`. (Outside the property's quantifier: a column order naming a
column twice; cf. `C08Construct.dup_order_witness`.) -/
theorem nodup_necessary :
    (∀ c ∈ dupCols, TypedFor [(nE, [])] c) ∧ ¬ (specOrder dupCols [nE, nE]).Nodup ∧
    typesOf (C08Construct.genNew genCtors (fun _ => false) dupCols [nE, nE] [(nE, [])]) = [.enum, .string] ∧
    typesOf (some (newS dupCols [nE, nE] [(nE, [])])) = [.enum, .enum] ∧
    C08Construct.genNew genCtors (fun _ => false) dupCols [nE, nE] [(nE, [])] ≠ some (newS dupCols [nE, nE] [(nE, [])]) := by
  have h1 : typesOf (C08Construct.genNew genCtors (fun _ => false) dupCols [nE, nE] [(nE, [])]) = [.enum, .string] := by
    rw [new_congr genCtors specCtors _ dupCols (fun c hc => typed_agree c (dupCols_typed c hc))]
    unfold C08Construct.genNew
    rw [gen_new_outcome, gen_construct_canon.1, gen_construct_canon.2.1]
    have : newOutcome (newReq dupCols [nE, nE]) = .ok := by decide
    rw [this]
    decide
  have h2 : typesOf (some (newS dupCols [nE, nE] [(nE, [])])) = [.enum, .enum] := by decide
  refine ⟨fun c hc => (dupCols_typed c hc).for _, by decide, h1, h2, fun h => ?_⟩
  rw [h] at h1
  rw [h1] at h2
  cases h2

/-! ### 2^32 rows or more are outside the statement -/

/-- **Counts of 2^32 or more are outside the statement**: a column of 4294967296 rows (`ConstBool{Val: false, Count: 1 << 32}`,
4 GiB) does not meet `GoData` (`WF.small`), and the hypothesis is not idle: the tail of `New` returns
`index.NewAscending(uint32(currentLen))` (`canonTail`: `.retFrame (.u32 .current)`), which for `currentLen = 2^32` is an
index of 0 rows, while `newS` says `n = 2^32`. -/
theorem rows_2_32_outside :
    ¬ GoData { name := [98], kind := .const .bool, count := 4294967296, cells := [.bool false] } ∧
    canonTail.getLast? = some (.retFrame (.u32 .current)) ∧
    (LInt.u32 .current).eval 0 { enums := [], current := 4294967296 } = 0 := by
  refine ⟨fun h => ?_, by decide, by decide⟩
  have := h.wf.small
  simp at this

end Example

end QF.Props.C08EndToEnd

#print axioms QF.Props.C08EndToEnd.new_congr
#print axioms QF.Props.C08EndToEnd.typed_agree
#print axioms QF.Props.C08EndToEnd.newS_ok
#print axioms QF.Props.C08EndToEnd.new_congr_for
#print axioms QF.Props.C08EndToEnd.enum_beyond_limits
#print axioms QF.Props.C08EndToEnd.nodup_necessary
#print axioms QF.Props.C08EndToEnd.rows_2_32_outside
#print axioms QF.Props.C08EndToEnd.gen_new_end_to_end_partial
