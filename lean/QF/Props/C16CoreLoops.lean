import QF.Props.C16Core
/-!
# C16 — the Ryu core, step 4 (3f, first part): the digit-removal loops and the final decision

* the loops of `QF.Ryu64.step4General` / `step4Common` in closed form (`loopGeneral1_eq`, `loopGeneral2_eq`,
  `loopCommon100_eq`, `loopCommon10_eq`, `rmN_*`, `crmN_*`), with the proof that the fuel of the mirror is never the
  reason a loop stops (`cnt1_spec`, `cnt2_spec`, `cnt100_spec`) and that the common case removes as many digits as the
  general case (`common_count`);
* the final decision (`finish`) at the level where the loops stopped is in the rounding interval and a closest
  admissible decimal of that length (`finish_correct`); no shorter decimal is admissible (`none_shorter`).

Everything is stated over exact naturals: the interval is `[A/D, C/D]` (open if the bounds are not acceptable), the exact
value is `B/D`, all in units of `10^e10`.
-/
namespace QF.Props.C16Core
open QF.Ryu64

/-! ## 3f. step 4: the digit-removal loops in closed form -/

/-- one digit removed (the body of both loops of the general case) -/
def rm1 (s : Gen) : Gen :=
  { vmIsTrailingZeros := s.vmIsTrailingZeros && s.vm % 10 == 0
    vrIsTrailingZeros := s.vrIsTrailingZeros && s.lastRemovedDigit == 0
    lastRemovedDigit := s.vr % 10
    vr := s.vr / 10
    vp := s.vp / 10
    vm := s.vm / 10
    removed := s.removed + 1 }

def rmN : Nat → Gen → Gen
  | 0, s => s
  | j + 1, s => rmN j (rm1 s)

/-- number of iterations of the first loop -/
def cnt1 : Nat → Nat → Nat → Nat
  | 0, _, _ => 0
  | fuel + 1, vp, vm => if vp / 10 ≤ vm / 10 then 0 else cnt1 fuel (vp / 10) (vm / 10) + 1

/-- number of iterations of the second loop -/
def cnt2 : Nat → Nat → Nat
  | 0, _ => 0
  | fuel + 1, vm => if vm % 10 != 0 then 0 else cnt2 fuel (vm / 10) + 1

theorem loopGeneral1_eq : ∀ (fuel : Nat) (s : Gen), loopGeneral1 fuel s = rmN (cnt1 fuel s.vp s.vm) s := by
  intro fuel
  induction fuel with
  | zero => intro s; rfl
  | succ fuel ih =>
    intro s
    unfold loopGeneral1 cnt1
    dsimp only
    by_cases h : s.vp / 10 ≤ s.vm / 10
    · rw [if_pos h, if_pos h]; rfl
    · rw [if_neg h, if_neg h]
      exact ih (rm1 s)

theorem loopGeneral2_eq : ∀ (fuel : Nat) (s : Gen), loopGeneral2 fuel s = rmN (cnt2 fuel s.vm) s := by
  intro fuel
  induction fuel with
  | zero => intro s; rfl
  | succ fuel ih =>
    intro s
    unfold loopGeneral2 cnt2
    dsimp only
    by_cases h : (s.vm % 10 != 0) = true
    · rw [if_pos h, if_pos h]; rfl
    · rw [if_neg h, if_neg h]
      have h0 : s.vm % 10 = 0 := by simpa using h
      have : rm1 s = { vmIsTrailingZeros := s.vmIsTrailingZeros
                       vrIsTrailingZeros := s.vrIsTrailingZeros && s.lastRemovedDigit == 0
                       lastRemovedDigit := s.vr % 10
                       vr := s.vr / 10, vp := s.vp / 10, vm := s.vm / 10, removed := s.removed + 1 } := by
        unfold rm1; simp [h0]
      rw [← this, ih (rm1 s)]
      rfl


theorem dvd_ten_mul_iff (x P : Nat) : 10 * P ∣ x ↔ x % 10 = 0 ∧ P ∣ x / 10 := by
  constructor
  · rintro ⟨c, hc⟩
    rw [Nat.mul_assoc] at hc
    refine ⟨by omega, ⟨c, ?_⟩⟩
    rw [hc, Nat.mul_div_cancel_left _ (by decide : 0 < 10)]
  · rintro ⟨h1, ⟨c, hc⟩⟩
    refine ⟨c, ?_⟩
    have : x = 10 * (x / 10) := by omega
    rw [this, hc, Nat.mul_assoc]

theorem rmN_vr : ∀ (j : Nat) (s : Gen), (rmN j s).vr = s.vr / 10 ^ j ∧ (rmN j s).vp = s.vp / 10 ^ j ∧
    (rmN j s).vm = s.vm / 10 ^ j ∧ (rmN j s).removed = s.removed + j := by
  intro j
  induction j with
  | zero => intro s; simp [rmN]
  | succ j ih =>
    intro s
    obtain ⟨h1, h2, h3, h4⟩ := ih (rm1 s)
    have e : ∀ x : Nat, x / 10 / 10 ^ j = x / 10 ^ (j + 1) := by
      intro x; rw [Nat.div_div_eq_div_mul, Nat.pow_succ, Nat.mul_comm]
    refine ⟨?_, ?_, ?_, ?_⟩
    · show (rmN j (rm1 s)).vr = _; rw [h1]; exact e _
    · show (rmN j (rm1 s)).vp = _; rw [h2]; exact e _
    · show (rmN j (rm1 s)).vm = _; rw [h3]; exact e _
    · show (rmN j (rm1 s)).removed = _; rw [h4]; show s.removed + 1 + (j : Int) = s.removed + ((j + 1 : Nat) : Int); omega

theorem rmN_vmTZ : ∀ (j : Nat) (s : Gen),
    ((rmN j s).vmIsTrailingZeros = true ↔ s.vmIsTrailingZeros = true ∧ 10 ^ j ∣ s.vm) := by
  intro j
  induction j with
  | zero => intro s; simp [rmN]
  | succ j ih =>
    intro s
    show (rmN j (rm1 s)).vmIsTrailingZeros = true ↔ _
    rw [ih (rm1 s), Nat.pow_succ, Nat.mul_comm, dvd_ten_mul_iff]
    show (s.vmIsTrailingZeros && s.vm % 10 == 0) = true ∧ 10 ^ j ∣ s.vm / 10 ↔ _
    simp only [Bool.and_eq_true, beq_iff_eq, and_assoc]

theorem rmN_last : ∀ (j : Nat) (s : Gen), (rmN (j + 1) s).lastRemovedDigit = s.vr / 10 ^ j % 10 := by
  intro j
  induction j with
  | zero => intro s; simp [rmN, rm1]
  | succ j ih =>
    intro s
    show (rmN (j + 1) (rm1 s)).lastRemovedDigit = _
    rw [ih (rm1 s)]
    show s.vr / 10 / 10 ^ j % 10 = _
    rw [Nat.div_div_eq_div_mul, Nat.pow_succ, Nat.mul_comm]

theorem rmN_vrTZ : ∀ (j : Nat) (s : Gen),
    ((rmN (j + 1) s).vrIsTrailingZeros = true ↔
      s.vrIsTrailingZeros = true ∧ s.lastRemovedDigit = 0 ∧ 10 ^ j ∣ s.vr) := by
  intro j
  induction j with
  | zero => intro s; simp [rmN, rm1]
  | succ j ih =>
    intro s
    show (rmN (j + 1) (rm1 s)).vrIsTrailingZeros = true ↔ _
    rw [ih (rm1 s), Nat.pow_succ, Nat.mul_comm, dvd_ten_mul_iff]
    show (s.vrIsTrailingZeros && s.lastRemovedDigit == 0) = true ∧ s.vr % 10 = 0 ∧ 10 ^ j ∣ s.vr / 10 ↔ _
    simp only [Bool.and_eq_true, beq_iff_eq, and_assoc]


theorem div_ten_div_pow (x j : Nat) : x / 10 / 10 ^ j = x / 10 ^ (j + 1) := by
  rw [Nat.div_div_eq_div_mul, Nat.pow_succ, Nat.mul_comm]

/-- `k` digits are removed by the first loop: a multiple of `10^(j+1)` lies in `(vm, vp]` for every `j < k`, none for `j = k` -/
def IsCnt (vp vm k : Nat) : Prop :=
  (∀ j, j < k → vm / 10 ^ (j + 1) < vp / 10 ^ (j + 1)) ∧ vp / 10 ^ (k + 1) ≤ vm / 10 ^ (k + 1)

theorem lt_div_pow_mono (vp vm : Nat) {i j : Nat} (hij : i ≤ j) (h : vm / 10 ^ j < vp / 10 ^ j) :
    vm / 10 ^ i < vp / 10 ^ i := by
  obtain ⟨d, rfl⟩ : ∃ d, j = i + d := ⟨j - i, by omega⟩
  rw [Nat.pow_add, ← Nat.div_div_eq_div_mul, ← Nat.div_div_eq_div_mul] at h
  apply Nat.lt_of_not_le
  intro hle
  exact Nat.not_le_of_lt h (Nat.div_le_div_right hle)

theorem IsCnt_unique {vp vm k k' : Nat} (h : IsCnt vp vm k) (h' : IsCnt vp vm k') : k = k' := by
  apply Nat.le_antisymm
  · apply Nat.le_of_not_lt; intro hlt
    exact Nat.not_le_of_lt (h.1 k' hlt) h'.2
  · apply Nat.le_of_not_lt; intro hlt
    exact Nat.not_le_of_lt (h'.1 k hlt) h.2

/-- fuel: the first loop stops because its condition fails (not because the fuel is used up) whenever `vp < 10^fuel`;
in particular for every 64-bit `vp` with the mirror's fuel 20 -/
theorem cnt1_spec : ∀ (fuel vp vm : Nat), vp < 10 ^ fuel → IsCnt vp vm (cnt1 fuel vp vm) := by
  intro fuel
  induction fuel with
  | zero =>
    intro vp vm h
    have : vp = 0 := by simp at h; omega
    subst this
    exact ⟨fun j hj => absurd hj (Nat.not_lt_zero _), by simp [cnt1]⟩
  | succ fuel ih =>
    intro vp vm h
    unfold cnt1
    by_cases hc : vp / 10 ≤ vm / 10
    · rw [if_pos hc]
      exact ⟨fun j hj => absurd hj (Nat.not_lt_zero _), by simpa using hc⟩
    · rw [if_neg hc]
      obtain ⟨h1, h2⟩ := ih (vp / 10) (vm / 10) (by rw [Nat.pow_succ] at h; omega)
      refine ⟨?_, ?_⟩
      · intro j hj
        cases j with
        | zero => simpa using Nat.lt_of_not_le hc
        | succ j =>
          have := h1 j (by omega)
          rwa [div_ten_div_pow, div_ten_div_pow] at this
      · rwa [div_ten_div_pow, div_ten_div_pow] at h2

/-- fuel: the second loop stops at the first non-zero digit of a non-zero `vm < 10^fuel` -/
theorem cnt2_spec : ∀ (fuel vm : Nat), vm ≠ 0 → vm < 10 ^ fuel →
    10 ^ cnt2 fuel vm ∣ vm ∧ ¬ 10 ^ (cnt2 fuel vm + 1) ∣ vm := by
  intro fuel
  induction fuel with
  | zero => intro vm h0 h; simp at h; omega
  | succ fuel ih =>
    intro vm h0 h
    unfold cnt2
    by_cases hc : vm % 10 = 0
    · have : (vm % 10 != 0) = false := by simp [hc]
      rw [this]; simp only [Bool.false_eq_true, if_false]
      obtain ⟨h1, h2⟩ := ih (vm / 10) (by omega) (by rw [Nat.pow_succ] at h; omega)
      refine ⟨?_, ?_⟩
      · rw [Nat.pow_succ, Nat.mul_comm, dvd_ten_mul_iff]; exact ⟨hc, h1⟩
      · rw [Nat.pow_succ, Nat.mul_comm, dvd_ten_mul_iff]; exact fun hh => h2 hh.2
    · have : (vm % 10 != 0) = true := by simp [hc]
      rw [this]; simp only [if_true]
      refine ⟨by simp, ?_⟩
      rw [Nat.dvd_iff_mod_eq_zero]; simpa using hc


/-! the common case: the two-digit loop followed by the one-digit loop removes the same number of digits -/

def crm1 (c : Com) : Com :=
  { roundUp := c.vr % 10 ≥ 5, vr := c.vr / 10, vp := c.vp / 10, vm := c.vm / 10, removed := c.removed + 1 }

def crmN : Nat → Com → Com
  | 0, c => c
  | j + 1, c => crmN j (crm1 c)

theorem crmN_add : ∀ (i j : Nat) (c : Com), crmN j (crmN i c) = crmN (i + j) c := by
  intro i
  induction i with
  | zero => intro j c; simp [crmN]
  | succ i ih => intro j c; rw [show i + 1 + j = (i + j) + 1 by omega]; exact ih j (crm1 c)

def cnt100 : Nat → Nat → Nat → Nat
  | 0, _, _ => 0
  | fuel + 1, vp, vm => if vp / 100 > vm / 100 then cnt100 fuel (vp / 100) (vm / 100) + 1 else 0

theorem crm1_crm1 (c : Com) : crm1 (crm1 c) =
    { roundUp := c.vr % 100 ≥ 50, vr := c.vr / 100, vp := c.vp / 100, vm := c.vm / 100, removed := c.removed + 2 } := by
  unfold crm1
  have e : ∀ x : Nat, x / 10 / 10 = x / 100 := fun x => by omega
  have r : decide (c.vr / 10 % 10 ≥ 5) = decide (c.vr % 100 ≥ 50) := by
    apply decide_eq_decide.mpr; omega
  simp only [e, r, Int.add_assoc]
  rfl

theorem loopCommon100_eq : ∀ (fuel : Nat) (c : Com), loopCommon100 fuel c = crmN (2 * cnt100 fuel c.vp c.vm) c := by
  intro fuel
  induction fuel with
  | zero => intro c; rfl
  | succ fuel ih =>
    intro c
    unfold loopCommon100 cnt100
    by_cases h : c.vp / 100 > c.vm / 100
    · rw [if_pos h, if_pos h, ← crm1_crm1, ih]
      rw [show 2 * (cnt100 fuel (c.vp / 100) (c.vm / 100) + 1) = 2 * cnt100 fuel (c.vp / 100) (c.vm / 100) + 1 + 1 by omega]
      have e : ∀ x : Nat, x / 10 / 10 = x / 100 := fun x => by omega
      show _ = crmN _ (crm1 (crm1 c))
      congr 2 <;> simp [crm1, e]
    · rw [if_neg h, if_neg h]; rfl

theorem loopCommon10_eq : ∀ (fuel : Nat) (c : Com), loopCommon10 fuel c = crmN (cnt1 fuel c.vp c.vm) c := by
  intro fuel
  induction fuel with
  | zero => intro c; rfl
  | succ fuel ih =>
    intro c
    unfold loopCommon10 cnt1
    by_cases h : c.vp / 10 ≤ c.vm / 10
    · rw [if_neg (Nat.not_lt_of_le h), if_pos h]; rfl
    · rw [if_pos (Nat.lt_of_not_le h), if_neg h]
      exact ih (crm1 c)

theorem crmN_fields : ∀ (j : Nat) (c : Com), (crmN j c).vr = c.vr / 10 ^ j ∧ (crmN j c).vp = c.vp / 10 ^ j ∧
    (crmN j c).vm = c.vm / 10 ^ j ∧ (crmN j c).removed = c.removed + j := by
  intro j
  induction j with
  | zero => intro c; simp [crmN]
  | succ j ih =>
    intro c
    obtain ⟨h1, h2, h3, h4⟩ := ih (crm1 c)
    refine ⟨?_, ?_, ?_, ?_⟩
    · show (crmN j (crm1 c)).vr = _; rw [h1]; exact div_ten_div_pow _ _
    · show (crmN j (crm1 c)).vp = _; rw [h2]; exact div_ten_div_pow _ _
    · show (crmN j (crm1 c)).vm = _; rw [h3]; exact div_ten_div_pow _ _
    · show (crmN j (crm1 c)).removed = _; rw [h4]; show c.removed + 1 + (j : Int) = c.removed + ((j + 1 : Nat) : Int); omega

theorem crmN_roundUp : ∀ (j : Nat) (c : Com), (crmN (j + 1) c).roundUp = decide (c.vr / 10 ^ j % 10 ≥ 5) := by
  intro j
  induction j with
  | zero => intro c; simp [crmN, crm1]
  | succ j ih =>
    intro c
    show (crmN (j + 1) (crm1 c)).roundUp = _
    rw [ih (crm1 c)]
    show decide (c.vr / 10 / 10 ^ j % 10 ≥ 5) = _
    rw [div_ten_div_pow]


theorem cnt100_spec : ∀ (fuel vp vm : Nat), vp < 100 ^ fuel →
    (∀ i, i < cnt100 fuel vp vm → vm / 100 ^ (i + 1) < vp / 100 ^ (i + 1)) ∧
    vp / 100 ^ (cnt100 fuel vp vm + 1) ≤ vm / 100 ^ (cnt100 fuel vp vm + 1) := by
  intro fuel
  induction fuel with
  | zero =>
    intro vp vm h
    have : vp = 0 := by simp at h; omega
    subst this
    exact ⟨fun j hj => absurd hj (Nat.not_lt_zero _), by simp [cnt100]⟩
  | succ fuel ih =>
    intro vp vm h
    have e : ∀ x j : Nat, x / 100 / 100 ^ j = x / 100 ^ (j + 1) := by
      intro x j; rw [Nat.div_div_eq_div_mul, Nat.pow_succ, Nat.mul_comm]
    unfold cnt100
    by_cases hc : vp / 100 > vm / 100
    · rw [if_pos hc]
      obtain ⟨h1, h2⟩ := ih (vp / 100) (vm / 100) (by rw [Nat.pow_succ] at h; omega)
      refine ⟨?_, ?_⟩
      · intro j hj
        cases j with
        | zero => simpa using hc
        | succ j =>
          have := h1 j (by omega)
          rwa [e, e] at this
      · rwa [e, e] at h2
    · rw [if_neg hc]
      exact ⟨fun j hj => absurd hj (Nat.not_lt_zero _), by simpa using Nat.le_of_not_lt hc⟩

theorem hundred_pow (c : Nat) : 100 ^ c = 10 ^ (2 * c) := by
  rw [Nat.pow_mul]

/-- the common case removes exactly as many digits as the first loop of the general case would -/
theorem common_count (vp vm : Nat) (h : vp < 10 ^ 20) :
    2 * cnt100 20 vp vm + cnt1 20 (vp / 10 ^ (2 * cnt100 20 vp vm)) (vm / 10 ^ (2 * cnt100 20 vp vm)) = cnt1 20 vp vm := by
  apply IsCnt_unique _ (cnt1_spec 20 vp vm h)
  obtain ⟨a1, a2⟩ := cnt100_spec 20 vp vm (Nat.lt_trans h (by decide))
  generalize cnt100 20 vp vm = c at *
  have hlt : vp / 10 ^ (2 * c) < 10 ^ 20 := Nat.lt_of_le_of_lt (Nat.div_le_self _ _) h
  obtain ⟨b1, b2⟩ := cnt1_spec 20 (vp / 10 ^ (2 * c)) (vm / 10 ^ (2 * c)) hlt
  generalize cnt1 20 (vp / 10 ^ (2 * c)) (vm / 10 ^ (2 * c)) = d at *
  have e : ∀ x j : Nat, x / 10 ^ (2 * c) / 10 ^ j = x / 10 ^ (2 * c + j) := by
    intro x j; rw [Nat.div_div_eq_div_mul, Nat.pow_add]
  refine ⟨?_, ?_⟩
  · intro j hj
    by_cases hjc : j + 1 ≤ 2 * c
    · obtain ⟨c', rfl⟩ : ∃ c', c = c' + 1 := ⟨c - 1, by omega⟩
      have := a1 c' (by omega)
      rw [hundred_pow] at this
      exact lt_div_pow_mono vp vm hjc this
    · have := b1 (j - 2 * c) (by omega)
      rw [e, e] at this
      rwa [show 2 * c + (j - 2 * c + 1) = j + 1 by omega] at this
  · rw [e, e] at b2
    rwa [show 2 * c + d + 1 = 2 * c + (d + 1) by omega]

/-! ## 3f. step 4: the final decision is correct -/

/-- the last digit removed after `k` removals (0 before the first) -/
def digitAt (vr k : Nat) : Nat := if k = 0 then 0 else vr / 10 ^ (k - 1) % 10

/-- the final rounding decision of step 4 (both cases) from the state after the loops -/
def finish (vr vm : Nat) (incl vmTZ vrTZ : Bool) (last : Nat) : Nat :=
  let last' := if vrTZ && last == 5 && vr % 2 == 0 then 4 else last
  if (vr == vm && (!incl || !vmTZ)) || last' ≥ 5 then u64 (vr + 1) else vr

/-- lower end of the rounding interval in units of `1/D`: `A` if the bounds are acceptable, else just above -/
def loEnd (A : Nat) (incl : Bool) : Nat := A + if incl then 0 else 1
/-- upper end -/
def hiEnd (C : Nat) (incl : Bool) : Nat := C - if incl then 0 else 1

/-- `n · 10^j` (in units of `10^e10`) lies in the rounding interval `[A/D, C/D]` (open if `¬incl`) -/
def Adm (A C D : Nat) (incl : Bool) (n j : Nat) : Prop :=
  loEnd A incl ≤ n * (D * 10 ^ j) ∧ n * (D * 10 ^ j) ≤ hiEnd C incl

def dist (x y : Nat) : Nat := (x - y) + (y - x)

theorem adm_iff (A Cu X : Nat) (incl : Bool) (n : Nat) (hX : 0 < X) :
    (loEnd A incl ≤ n * X ∧ n * X ≤ Cu) ↔
    (n ≤ Cu / X ∧ (A / X < n ∨ (n = A / X ∧ incl = true ∧ X ∣ A))) := by
  rw [Nat.le_div_iff_mul_le hX]
  have hdm := Nat.div_add_mod A X
  have hml := Nat.mod_lt A hX
  constructor
  · rintro ⟨h1, h2⟩
    refine ⟨h2, ?_⟩
    by_cases hlt : A / X < n
    · exact Or.inl hlt
    · right
      have hle : n ≤ A / X := Nat.le_of_not_lt hlt
      have h3 : n * X ≤ A / X * X := Nat.mul_le_mul_right X hle
      have h4 : A / X * X ≤ A := Nat.div_mul_le_self A X
      cases incl with
      | false => unfold loEnd at h1; simp at h1; omega
      | true =>
        unfold loEnd at h1; simp at h1
        have h5 : n * X = A := by omega
        have h6 : A / X * X = A := by omega
        refine ⟨?_, rfl, ⟨n, by rw [Nat.mul_comm]; exact h5.symm⟩⟩
        have : n * X = A / X * X := by omega
        exact Nat.eq_of_mul_eq_mul_right hX this
  · rintro ⟨h2, h3⟩
    refine ⟨?_, h2⟩
    rcases h3 with h3 | ⟨h3, h4, h5⟩
    · have : A < n * X := (Nat.div_lt_iff_lt_mul hX).mp h3
      unfold loEnd; split <;> omega
    · subst h4
      unfold loEnd; simp
      rw [h3, Nat.div_mul_cancel h5]; exact Nat.le_refl _


theorem mul_dvd_iff (D P B : Nat) (hD : 0 < D) : D * P ∣ B ↔ D ∣ B ∧ P ∣ B / D := by
  constructor
  · rintro ⟨c, hc⟩
    rw [Nat.mul_assoc] at hc
    refine ⟨⟨P * c, hc⟩, ⟨c, ?_⟩⟩
    rw [hc, Nat.mul_div_cancel_left _ hD]
  · rintro ⟨h1, ⟨c, hc⟩⟩
    refine ⟨c, ?_⟩
    have : B = D * (B / D) := (Nat.mul_div_cancel' h1).symm
    rw [this, hc, Nat.mul_assoc]

/-- what the last removed digit says about the exact value `B/D`: with `X = D·10^k` and `r = ⌊B/X⌋`,
digit ≥ 5 iff `B/X − r ≥ 1/2`; and digit = 5 with all lower digits and the fraction zero is an exact tie -/
theorem digit_facts (B D k : Nat) (hD : 0 < D) :
    (5 ≤ digitAt (B / D) k → 1 ≤ k ∧ 2 * (B / (D * 10 ^ k) * (D * 10 ^ k)) + D * 10 ^ k ≤ 2 * B) ∧
    (digitAt (B / D) k < 5 → 1 ≤ k → 2 * B < 2 * (B / (D * 10 ^ k) * (D * 10 ^ k)) + D * 10 ^ k) ∧
    (digitAt (B / D) k = 5 → D ∣ B → (k = 0 ∨ 10 ^ (k - 1) ∣ B / D) →
      2 * B = 2 * (B / (D * 10 ^ k) * (D * 10 ^ k)) + D * 10 ^ k) := by
  cases k with
  | zero => simp [digitAt]
  | succ k =>
    simp only [digitAt, Nat.add_sub_cancel, Nat.succ_ne_zero, if_false]
    have hY : 0 < D * 10 ^ k := Nat.mul_pos hD (Nat.pow_pos (by decide))
    have e1 : B / D / 10 ^ k = B / (D * 10 ^ k) := Nat.div_div_eq_div_mul _ _ _
    have e2 : D * 10 ^ (k + 1) = D * 10 ^ k * 10 := by rw [Nat.pow_succ, Nat.mul_assoc]
    have e3 : B / (D * 10 ^ k * 10) = B / (D * 10 ^ k) / 10 := (Nat.div_div_eq_div_mul _ _ _).symm
    rw [e1, e2, e3]
    have hdiv : D ∣ B → 10 ^ k ∣ B / D → B % (D * 10 ^ k) = 0 := by
      intro h1 h2
      exact Nat.mod_eq_zero_of_dvd ((mul_dvd_iff D (10 ^ k) B hD).mpr ⟨h1, h2⟩)
    generalize D * 10 ^ k = Y at *
    have hdm := Nat.div_add_mod B Y
    have hml := Nat.mod_lt B hY
    generalize B / Y = t at *
    have ht : Y * t = Y * (t / 10) * 10 + Y * (t % 10) := by
      rw [Nat.mul_assoc, ← Nat.mul_add]; congr 1; omega
    have hr : t / 10 * (Y * 10) = Y * (t / 10) * 10 := by
      rw [Nat.mul_comm (t / 10), Nat.mul_assoc, Nat.mul_assoc, Nat.mul_comm 10]
    rw [hr]
    generalize Y * (t / 10) = rY at *
    refine ⟨?_, ?_, ?_⟩
    · intro h5
      have : Y * 5 ≤ Y * (t % 10) := Nat.mul_le_mul_left Y h5
      omega
    · intro h5 _
      have : Y * (t % 10) ≤ Y * 4 := Nat.mul_le_mul_left Y (by omega)
      omega
    · intro h5 hd hz
      rw [h5] at ht
      have hz : 10 ^ k ∣ B / D := by
        rcases hz with hz | hz
        · exact hz.elim
        · exact hz
      have := hdiv hd hz
      omega


theorem u64_of_lt (x : Nat) (h : x < 2 ^ 64) : u64 x = x := Nat.mod_eq_of_lt h

/-- no decimal with one digit fewer lies in the interval once the loops have stopped -/
theorem none_shorter (A C D k : Nat) (incl : Bool) (hD : 0 < D)
    (K1 : hiEnd C incl / (D * 10 ^ (k + 1)) ≤ A / (D * 10 ^ (k + 1)))
    (K2 : ¬ (incl = true ∧ D * 10 ^ (k + 1) ∣ A)) : ∀ n, ¬ Adm A C D incl n (k + 1) := by
  intro n h
  have hX : 0 < D * 10 ^ (k + 1) := Nat.mul_pos hD (Nat.pow_pos (by decide))
  obtain ⟨h1, h2⟩ := (adm_iff A _ _ incl n hX).mp h
  rcases h2 with h2 | ⟨_, h3, h4⟩
  · omega
  · exact K2 ⟨h3, h4⟩

/-- products with a common positive factor compare like the factors -/
theorem mul_cmp (X a b : Nat) (_hX : 0 < X) :
    (a ≤ b → X * a ≤ X * b) ∧ (a < b → X * a + X ≤ X * b) ∧ (X * a < X * b + X → a ≤ b) := by
  refine ⟨fun h => Nat.mul_le_mul_left X h, fun h => ?_, fun h => ?_⟩
  · have := Nat.mul_le_mul_left X (Nat.succ_le_of_lt h); rwa [Nat.mul_succ] at this
  · have : X * a < X * (b + 1) := by rw [Nat.mul_succ]; exact h
    exact Nat.le_of_lt_succ (Nat.lt_of_mul_lt_mul_left this)

/-- level `X = D·10^k`: the candidate `o·X` is in the interval and no admissible `n·X` is closer to `B`, when `o` is either
`r = ⌊B/X⌋` (admissible, at most half a unit below `B`) or `r + 1` (admissible, and `r` is farther or inadmissible) -/
theorem level_key (A B Cu X m r p o : Nat) (incl : Bool) (hX : 0 < X)
    (hmA : X * m + A % X = A) (hmA' : A % X < X) (hrB1 : X * r ≤ B) (hrB2 : B < X * r + X)
    (hpC1 : X * p ≤ Cu) (hmr : m ≤ r) (hrp : r ≤ p)
    (ho : (o = r ∧ (m < r ∨ (r = m ∧ incl = true ∧ A % X = 0)) ∧ 2 * B ≤ 2 * (X * r) + X) ∨
      (o = r + 1 ∧ r < p ∧ (2 * (X * r) + X ≤ 2 * B ∨ (r = m ∧ ¬ (incl = true ∧ A % X = 0))))) :
    (loEnd A incl ≤ o * X ∧ o * X ≤ Cu) ∧
      ∀ n, (loEnd A incl ≤ n * X ∧ n * X ≤ Cu) → dist (o * X) B ≤ dist (n * X) B := by
  have hlE : loEnd A incl ≤ A + 1 ∧ A ≤ loEnd A incl ∧ (incl = true → loEnd A incl = A) ∧ (incl = false → loEnd A incl = A + 1) := by
    unfold loEnd; cases incl <;> simp
  generalize loEnd A incl = lo at *
  have c1 := (mul_cmp X m r hX).1 hmr
  rcases ho with ⟨rfl, hlo, hnear⟩ | ⟨rfl, hup, hnear⟩
  · rw [Nat.mul_comm o X]
    have c2 := (mul_cmp X o p hX).1 hrp
    refine ⟨⟨?_, ?_⟩, ?_⟩
    · rcases hlo with hlo | ⟨h1, h2, h3⟩
      · have := (mul_cmp X m o hX).2.1 hlo; omega
      · subst h1; have := hlE.2.2.1 h2; omega
    · omega
    · intro n hn
      rw [Nat.mul_comm n X] at hn ⊢
      unfold dist
      by_cases hno : n ≤ o
      · have := (mul_cmp X n o hX).1 hno; omega
      · have := (mul_cmp X o n hX).2.1 (Nat.lt_of_not_le hno); omega
  · rw [Nat.add_mul, Nat.one_mul, Nat.mul_comm r X]
    have h4 := (mul_cmp X r p hX).2.1 hup
    refine ⟨⟨by omega, by omega⟩, ?_⟩
    intro n hn
    rw [Nat.mul_comm n X] at hn ⊢
    unfold dist
    by_cases hno : n ≤ r
    · have h5 := (mul_cmp X n r hX).1 hno
      rcases hnear with hnear | ⟨h1, h2⟩
      · omega
      · exfalso
        subst h1
        by_cases hi : incl = true
        · have := hlE.2.2.1 hi
          apply h2; exact ⟨hi, by omega⟩
        · have := hlE.2.2.2 (by simpa using hi); omega
    · have := (mul_cmp X r n hX).2.1 (Nat.lt_of_not_le hno); omega

/-- when the code increments because `vr = vm` is not admissible, `vr + 1` is still below the upper end -/
theorem incr_lt_of_eq (A X m p : Nat) (incl : Bool)
    (K3 : m < p ∨ (incl = true ∧ A % X = 0)) (h2 : ¬ (incl = true ∧ A % X = 0)) : m < p := by
  rcases K3 with h | h
  · exact h
  · exact (h2 h).elim

/-- when the code increments because the removed part is at least half a unit, `vr + 1` is still below the upper end
(the lower neighbour is never farther away than the upper one) -/
theorem incr_lt_of_half (A B C Cu X m r p : Nat) (incl : Bool) (hX : 0 < X)
    (hmA : X * m + A % X = A) (hmA' : A % X < X) (hpC2 : Cu < X * p + X)
    (hmr : m ≤ r) (hrp : r ≤ p) (hCu : C ≤ Cu + 1 ∧ (incl = true → Cu = C)) (hgap : 2 * B ≤ A + C)
    (K3 : m < p ∨ (incl = true ∧ A % X = 0)) (hup : 2 * (X * r) + X ≤ 2 * B) : r < p := by
  apply Nat.lt_of_le_of_ne hrp
  intro hpr
  subst hpr
  have hrm : r ≤ m := (mul_cmp X r m hX).2.2 (by omega)
  have hrm' : r = m := Nat.le_antisymm hrm hmr
  subst hrm'
  rcases K3 with h3 | h3
  · omega
  · have := hCu.2 h3.1; omega

/-- a value `B/D` that is a half-integer whose double is a multiple of 5 cannot show the digits `50…0` of an exact tie: if the
removed digits of `⌊B/D⌋` are a 5 followed by zeros, then `B/D` is an integer after all -/
theorem half_int_tie (B D k : Nat) (hD : 0 < D) (h2 : D ∣ 2 * B) (h5 : 5 ∣ 2 * B / D) (hz : 10 ^ k ∣ B / D)
    (hd : B / D / 10 ^ k % 10 = 5) : D ∣ B := by
  obtain ⟨Y, hY⟩ := h2
  rw [hY, Nat.mul_div_cancel_left _ hD] at h5
  obtain ⟨w, hw⟩ := hz
  rw [hw, Nat.mul_div_cancel_left _ (Nat.pow_pos (by decide))] at hd
  have hv5 : B / D % 5 = 0 := by
    rw [hw]
    have : w = 5 * (2 * (w / 10) + 1) := by omega
    rw [this, ← Nat.mul_assoc, Nat.mul_comm (10 ^ k) 5, Nat.mul_assoc]; exact Nat.mul_mod_right _ _
  have hdm := Nat.div_add_mod B D
  have hml := Nat.mod_lt B hD
  generalize B / D = v at *
  generalize B % D = f at *
  -- D·Y = 2·D·v + 2·f with 2·f < 2·D, so Y = 2v or Y = 2v + 1
  have c1 := (mul_cmp D (2 * v) Y hD).2.2 (by rw [← Nat.mul_assoc, Nat.mul_comm D 2, Nat.mul_assoc]; omega)
  have c2 := (mul_cmp D Y (2 * v + 1) hD).2.2 (by rw [Nat.mul_add, ← Nat.mul_assoc, Nat.mul_comm D 2, Nat.mul_assoc]; omega)
  have hYv : Y = 2 * v ∨ Y = 2 * v + 1 := by omega
  rcases hYv with h | h
  · subst h
    have : f = 0 := by rw [← Nat.mul_assoc, Nat.mul_comm D 2, Nat.mul_assoc] at hY; omega
    subst this
    exact ⟨v, by omega⟩
  · subst h; omega

/-- the decision taken by `finish` is one of the two situations of `level_key` -/
theorem finish_cases (A B C Cu X m r p last : Nat) (incl fm fr : Bool) (hX : 0 < X)
    (hmA : X * m + A % X = A) (hmA' : A % X < X) (hpC2 : Cu < X * p + X)
    (hmr : m ≤ r) (hrp : r ≤ p) (hp64 : p < 2 ^ 64)
    (hCu : C ≤ Cu + 1 ∧ (incl = true → Cu = C)) (hgap : 2 * B ≤ A + C)
    (K3 : m < p ∨ (incl = true ∧ A % X = 0))
    (K4 : (fm = true → (incl = true ∧ A % X = 0)) ∧ ((incl = true ∧ A % X = 0) → fm = false → r ≠ m))
    (dg1 : 5 ≤ last → 2 * (X * r) + X ≤ 2 * B)
    (dg2 : last < 5 → 2 * B ≤ 2 * (X * r) + X)
    (dg3 : fr = true → last = 5 → 2 * B = 2 * (X * r) + X) :
    (finish r m incl fm fr last = r ∧ (m < r ∨ (r = m ∧ incl = true ∧ A % X = 0)) ∧ 2 * B ≤ 2 * (X * r) + X) ∨
    (finish r m incl fm fr last = r + 1 ∧ r < p ∧
      (2 * (X * r) + X ≤ 2 * B ∨ (r = m ∧ ¬ (incl = true ∧ A % X = 0)))) := by
  have hA1 : (r == m && (!incl || !fm)) = true ↔ (r = m ∧ ¬ (incl = true ∧ A % X = 0)) := by
    rw [Bool.and_eq_true, beq_iff_eq]
    constructor
    · rintro ⟨h1, h2⟩
      refine ⟨h1, fun hex => ?_⟩
      have hf : fm = false := by
        cases hfm : fm with
        | false => rfl
        | true => rw [hex.1, hfm] at h2; simp at h2
      exact K4.2 hex hf h1
    · rintro ⟨h1, h2⟩
      refine ⟨h1, ?_⟩
      cases hfm : fm with
      | false => simp
      | true => exact (h2 (K4.1 hfm)).elim
  have hlow : ¬ (r = m ∧ ¬ (incl = true ∧ A % X = 0)) → (m < r ∨ (r = m ∧ incl = true ∧ A % X = 0)) := by
    intro h
    by_cases hrm : r = m
    · right
      refine ⟨hrm, ?_⟩
      apply Classical.byContradiction; intro hh; exact h ⟨hrm, fun h' => hh h'⟩
    · left; omega
  have hinc : ∀ (h : r < p), u64 (r + 1) = r + 1 := fun h =>
    u64_of_lt _ (Nat.lt_of_le_of_lt (Nat.succ_le_of_lt h) hp64)
  unfold finish
  dsimp only
  by_cases htie : (fr && last == 5 && r % 2 == 0) = true
  · rw [if_pos htie]
    simp only [Bool.and_eq_true, beq_iff_eq] at htie
    obtain ⟨⟨hfr, hl5⟩, _⟩ := htie
    have htieq := dg3 hfr hl5
    have : decide (4 ≥ 5) = false := by decide
    rw [this, Bool.or_false]
    by_cases hc : (r == m && (!incl || !fm)) = true
    · rw [if_pos hc]
      obtain ⟨h1, h2⟩ := hA1.mp hc
      have hrp' : r < p := by
        subst h1; exact incr_lt_of_eq A X r p incl K3 h2
      rw [hinc hrp']
      exact Or.inr ⟨rfl, hrp', Or.inr ⟨h1, h2⟩⟩
    · rw [if_neg hc]
      exact Or.inl ⟨rfl, hlow (mt hA1.mpr hc), by omega⟩
  · rw [if_neg htie]
    by_cases hc : ((r == m && (!incl || !fm)) || decide (last ≥ 5)) = true
    · rw [if_pos hc]
      rw [Bool.or_eq_true] at hc
      rcases hc with hc | hc
      · obtain ⟨h1, h2⟩ := hA1.mp hc
        have hrp' : r < p := by
          subst h1; exact incr_lt_of_eq A X r p incl K3 h2
        rw [hinc hrp']
        exact Or.inr ⟨rfl, hrp', Or.inr ⟨h1, h2⟩⟩
      · have h5 : 5 ≤ last := by simpa using hc
        have hup := dg1 h5
        have hrp' : r < p := incr_lt_of_half A B C Cu X m r p incl hX hmA hmA' hpC2 hmr hrp hCu hgap K3 hup
        rw [hinc hrp']
        exact Or.inr ⟨rfl, hrp', Or.inl hup⟩
    · rw [if_neg hc]
      rw [Bool.or_eq_true, not_or] at hc
      obtain ⟨hc1, hc2⟩ := hc
      have hl : last < 5 := by simpa using hc2
      exact Or.inl ⟨rfl, hlow (mt hA1.mpr hc1), dg2 hl⟩


theorem div_bounds (A X : Nat) (hX : 0 < X) : X * (A / X) ≤ A ∧ A < X * (A / X) + X := by
  have h1 := Nat.div_add_mod A X
  have h2 := Nat.mod_lt A hX
  omega

/-- Step 4's decision at the level where the loops stopped (`k` digits removed): the output is in the rounding interval
and no admissible decimal with `k` digits removed is closer to the exact value. -/
theorem finish_correct (A B C D k : Nat) (incl fm fr : Bool)
    (hD : 0 < D) (hAB : A + D ≤ B) (hBC : B + D ≤ C) (hgap : B - A ≤ C - B)
    (hp64 : hiEnd C incl / D < 2 ^ 64)
    (K3 : 1 ≤ k → A / (D * 10 ^ k) < hiEnd C incl / (D * 10 ^ k) ∨ (incl = true ∧ D * 10 ^ k ∣ A))
    (K4 : (fm = true → (incl = true ∧ D * 10 ^ k ∣ A)) ∧
      ((incl = true ∧ D * 10 ^ k ∣ A) → fm = false → B / (D * 10 ^ k) ≠ A / (D * 10 ^ k)))
    (K5 : fr = true → ((D ∣ B ∨ (D ∣ 2 * B ∧ 5 ∣ 2 * B / D)) ∧ (k = 0 ∨ 10 ^ (k - 1) ∣ B / D)))
    (K6 : k = 0 → D ∣ B) :
    Adm A C D incl (finish (B / (D * 10 ^ k)) (A / (D * 10 ^ k)) incl fm fr (digitAt (B / D) k)) k ∧
    ∀ n, Adm A C D incl n k →
      dist (finish (B / (D * 10 ^ k)) (A / (D * 10 ^ k)) incl fm fr (digitAt (B / D) k) * (D * 10 ^ k)) B
        ≤ dist (n * (D * 10 ^ k)) B := by
  have hgap' : 2 * B ≤ A + C := by omega
  have hADC : A + D ≤ C - 1 := by omega
  obtain ⟨dg1, dg2, dg3⟩ := digit_facts B D k hD
  have hX : 0 < D * 10 ^ k := Nat.mul_pos hD (Nat.pow_pos (by decide))
  have hDX : D ≤ D * 10 ^ k := Nat.le_mul_of_pos_right D (Nat.pow_pos (by decide))
  have hk0 : k = 0 → D * 10 ^ k = D := by intro h; subst h; simp
  have hCu : hiEnd C incl ≤ C ∧ C ≤ hiEnd C incl + 1 ∧ (incl = true → hiEnd C incl = C) := by
    unfold hiEnd; cases incl <;> simp <;> omega
  have hBCu : B ≤ hiEnd C incl := by have := hCu.2.1; omega
  have hpD : hiEnd C incl / (D * 10 ^ k) ≤ hiEnd C incl / D := Nat.div_le_div_left hDX hD
  have hp64' : hiEnd C incl / (D * 10 ^ k) < 2 ^ 64 := Nat.lt_of_le_of_lt hpD hp64
  have hB0 : k = 0 → B / (D * 10 ^ k) * (D * 10 ^ k) = B := by
    intro h; rw [hk0 h]; exact Nat.div_mul_cancel (K6 h)
  have hdvd : ∀ P : Prop, (P ∧ D * 10 ^ k ∣ A ↔ P ∧ A % (D * 10 ^ k) = 0) := fun P => by
    rw [Nat.dvd_iff_mod_eq_zero]
  rw [hdvd] at K4
  have K3' : A / (D * 10 ^ k) < hiEnd C incl / (D * 10 ^ k) ∨ (incl = true ∧ A % (D * 10 ^ k) = 0) := by
    by_cases hk : 1 ≤ k
    · have := K3 hk; rwa [hdvd] at this
    · left
      rw [hk0 (by omega)]
      have h1 : A / D + 1 ≤ hiEnd C incl / D := by
        rw [← Nat.add_div_right A hD]; exact Nat.div_le_div_right (Nat.le_trans hADC (by have := hCu.2.1; omega))
      exact h1
  have hmr : A / (D * 10 ^ k) ≤ B / (D * 10 ^ k) := Nat.div_le_div_right (Nat.le_trans (Nat.le_add_right A D) hAB)
  have hrp : B / (D * 10 ^ k) ≤ hiEnd C incl / (D * 10 ^ k) := Nat.div_le_div_right hBCu
  have d2 : digitAt (B / D) k < 5 → 2 * B ≤ 2 * (B / (D * 10 ^ k) * (D * 10 ^ k)) + D * 10 ^ k := by
    intro hl
    by_cases hk : 1 ≤ k
    · exact Nat.le_of_lt (dg2 hl hk)
    · rw [hB0 (by omega)]; omega
  have d3 : fr = true → digitAt (B / D) k = 5 → 2 * B = 2 * (B / (D * 10 ^ k) * (D * 10 ^ k)) + D * 10 ^ k :=
    fun hfr hl => by
      obtain ⟨ha, hb⟩ := K5 hfr
      have hk : k ≠ 0 := by intro h0; rw [h0] at hl; simp [digitAt] at hl
      have hb' : 10 ^ (k - 1) ∣ B / D := by
        rcases hb with hb | hb
        · exact (hk hb).elim
        · exact hb
      have hdB : D ∣ B := by
        rcases ha with ha | ⟨ha1, ha2⟩
        · exact ha
        · apply half_int_tie B D (k - 1) hD ha1 ha2 hb'
          rw [digitAt, if_neg hk] at hl; exact hl
      exact dg3 hl hdB (Or.inr hb')
  have d1 : 5 ≤ digitAt (B / D) k → 2 * (B / (D * 10 ^ k) * (D * 10 ^ k)) + D * 10 ^ k ≤ 2 * B := fun h => (dg1 h).2
  unfold Adm
  clear dg1 dg2 dg3 K3 K5 K6 hB0 hk0 hdvd hpD hp64 hDX hgap hBC hAB
  generalize D * 10 ^ k = X at *
  generalize hiEnd C incl = Cu at *
  have hmA := Nat.div_add_mod A X
  have hmA' := Nat.mod_lt A hX
  have hrB := div_bounds B X hX
  have hpC := div_bounds Cu X hX
  generalize digitAt (B / D) k = last at *
  generalize A / X = m at *
  generalize B / X = r at *
  generalize Cu / X = p at *
  rw [Nat.mul_comm r X] at d1 d2 d3
  have hc := finish_cases A B C Cu X m r p last incl fm fr hX hmA hmA' hpC.2 hmr hrp hp64'
    ⟨hCu.2.1, hCu.2.2⟩ hgap' K3' K4 d1 d2 d3
  exact level_key A B Cu X m r p _ incl hX hmA hmA' hrB.1 hrB.2 hpC.1 hmr hrp hc

end QF.Props.C16Core
