import QF.Core.XExpr
import QF.Gen.ExprDecode
/-!
# C07 — the finite part of QF/Props/C07Decode.lean: today's decoder tree reaches the canonical leaf for every shape

Kept in a module of its own because the `decide`s walk the generated tree once per shape (a few thousand shapes) and
only need to be re-run when `QF/Gen/ExprDecode.lean` changes. See C07Decode.lean for what is proved from them.
-/
namespace QF.Props.C07Decode
open QF

/-! ## 1. the canonical leaves -/

def isConstKind : XKind → Bool
  | .int | .float | .bool | .str | .pstr | .nil => true
  | _ => false

/-- the constant a raw value of kind `k` stands for: nil is read as the null string -/
def kOf (k : XKind) (v : XV) : XK := if k = .nil then .null else .of v

/-- the hand-written decoder on shapes: which struct `newExpr` returns for an argument of this shape -/
def canonNode (s : XShape) : XN :=
  match s.kind with
  | .expr => .same .arg
  | .col => .col .arg
  | .nil => .const .null
  | .int | .float | .bool | .str | .pstr => .const (.of .arg)
  | .other => .error
  | .list =>
    match s.len, s.elems with
    | 2, [(k0, _), (k1, e1)] =>
      if k0 ≠ .str then .error
      else if k1 = .col then .unary (.elem 0) (.elem 1)
      else if e1 then .error
      else .ex1 (.elem 0) 1
    | 3, [(k0, _), (k1, e1), (k2, e2)] =>
      if k0 ≠ .str then .error
      else if k1 = .col ∧ isConstKind k2 then .colConst (.elem 0) (.elem 1) (kOf k2 (.elem 2)) false
      else if k2 = .col ∧ isConstKind k1 then .colConst (.elem 0) (.elem 2) (kOf k1 (.elem 1)) true
      else if k1 = .col ∧ k2 = .col then .colCol (.elem 0) (.elem 1) (.elem 2)
      else if e1 then .error
      else if e2 then .error
      else .ex2 (.elem 0) 1 2
    | _, _ => .error

def allKinds : List XKind := [.expr, .col, .str, .int, .float, .bool, .pstr, .nil, .list, .other]

def allPairs : List (XKind × Bool) := allKinds.flatMap fun k => [(k, false), (k, true)]

theorem mem_allKinds (k : XKind) : k ∈ allKinds := by cases k <;> decide

theorem mem_allPairs (p : XKind × Bool) : p ∈ allPairs := by
  obtain ⟨k, b⟩ := p
  cases k <;> cases b <;> decide

instance {P : XKind × Bool → Prop} [DecidablePred P] : Decidable (∀ p, P p) :=
  decidable_of_iff (∀ p ∈ allPairs, P p) ⟨fun h p => h p (mem_allPairs p), fun h p _ => h p⟩

instance {P : XKind → Prop} [DecidablePred P] : Decidable (∀ p, P p) :=
  decidable_of_iff (∀ p ∈ allKinds, P p) ⟨fun h p => h p (mem_allKinds p), fun h p _ => h p⟩

theorem gen_decoder_canon_atom : ∀ k : XKind, k ≠ .list →
    Gen.newExprAst.flatten { kind := k } = some (canonNode { kind := k }) := by decide +kernel

theorem gen_decoder_canon_len : ∀ n ∈ [0, 1, 4],
    Gen.newExprAst.flatten { kind := .list, len := n } = some .error := by decide +kernel

theorem gen_decoder_canon2 : ∀ p0 p1 : XKind × Bool,
    Gen.newExprAst.flatten { kind := .list, len := 2, elems := [p0, p1] } =
      some (canonNode { kind := .list, len := 2, elems := [p0, p1] }) := by decide +kernel

/-- what the decoder can answer for an element of this kind: a column name or a constant is never an error, a value of
an unsupported type always is (both are instances of `gen_decoder_canon_atom`); an `Expression` or a list may or may not be -/
def consistent : XKind × Bool → Bool
  | (.expr, _) | (.list, _) => true
  | (.other, e) => e
  | (_, e) => !e

def goodPairs : List (XKind × Bool) := allPairs.filter consistent

theorem mem_goodPairs (p : XKind × Bool) (h : consistent p = true) : p ∈ goodPairs :=
  List.mem_filter.mpr ⟨mem_allPairs p, h⟩

theorem gen_decoder_canon3 : ∀ p0 ∈ goodPairs, ∀ p1 ∈ goodPairs, ∀ p2 ∈ goodPairs,
    Gen.newExprAst.flatten { kind := .list, len := 3, elems := [p0, p1, p2] } =
      some (canonNode { kind := .list, len := 3, elems := [p0, p1, p2] }) := by decide +kernel

/-- `Expr`: no argument is an error, one or two are handed to the decoder as `[name, a]` / `[name, a, b]`, more: a fresh
slice `[decoded [name, a, b], c, …]` and a tail call -/
def canonFold : XF :=
  .ifLen 0 .error (.ifLen 1 (.decode [.name, .arg 0]) (.ifLen 2 (.decode [.name, .arg 0, .arg 1])
    (.foldFresh 1 2 (.decode [.name, .arg 0, .arg 1]))))

theorem gen_expr_fold_canon : Gen.exprFoldAst = canonFold := by decide

end QF.Props.C07Decode
