import QF.Props.C16CoreStep4
/-!
# C16 — the Ryu core (3f, third part): `ryu_shortest_partial`

From the fields of a float to the hypotheses of step 4: the scale `N/D = 2^e2 / 10^e10` chosen by the code satisfies
`D ≤ N < 100·D` (`posScale`, `negScale`, `scale_facts`, from `log10Pow2_exact` / `log10Pow5_exact`), hence the arithmetic
hypotheses of `Sem` hold for every finite non-zero float (`sem_arith`); what step 3 returns (`step3_fields`); and the final
theorem `ryu_shortest_of_sound_flags` with explicit hypotheses about step 3 (floors and flags; the flags are discharged
in `C16CoreFlags`).
-/
namespace QF.Props.C16Core
open QF.Ryu64

/-! ## 3f. from the float to the hypotheses of step 4 -/

theorem log10Pow2_lt (e : Int) : log10Pow2 e < 2 ^ 14 := by
  unfold log10Pow2 u32
  rw [Nat.shiftRight_eq_div_pow]
  have := Nat.mod_lt (toU32 e * 78913) (by decide : 0 < 2 ^ 32)
  omega

theorem log10Pow5_lt (e : Int) : log10Pow5 e < 2 ^ 12 := by
  unfold log10Pow5 u32
  rw [Nat.shiftRight_eq_div_pow]
  have := Nat.mod_lt (toU32 e * 732923) (by decide : 0 < 2 ^ 32)
  omega

/-- the decimal exponent chosen for `e2 ≥ 0`: `q = max(0, ⌊log10 2^e2⌋ − 1)`, so `10^q ≤ 2^e2 < 100·10^q` -/
theorem posScale (e2 : Nat) (h : e2 ≤ 1650) :
    10 ^ subU32 (log10Pow2 (e2 : Int)) (boolToNat (decide ((e2 : Int) > 3))) ≤ 2 ^ e2 ∧
    2 ^ e2 < 100 * 10 ^ subU32 (log10Pow2 (e2 : Int)) (boolToNat (decide ((e2 : Int) > 3))) ∧
    (1 ≤ subU32 (log10Pow2 (e2 : Int)) (boolToNat (decide ((e2 : Int) > 3))) →
      10 * 10 ^ subU32 (log10Pow2 (e2 : Int)) (boolToNat (decide ((e2 : Int) > 3))) ≤ 2 ^ e2) := by
  obtain ⟨h1, h2⟩ := log10Pow2_exact e2 h
  have hL := log10Pow2_lt (e2 : Int)
  generalize log10Pow2 (e2 : Int) = L at *
  by_cases h3 : (e2 : Int) > 3
  · have hd : decide ((e2 : Int) > 3) = true := by simpa using h3
    rw [hd]
    have hL1 : 1 ≤ L := by
      apply Nat.le_of_not_lt; intro hL0
      have : L = 0 := by omega
      subst this
      have : 2 ^ 4 ≤ 2 ^ e2 := Nat.pow_le_pow_right (by decide) (by omega)
      omega
    have hq : subU32 L (boolToNat true) = L - 1 := by
      unfold subU32 boolToNat; simp only [if_true]; omega
    rw [hq]
    obtain ⟨L', rfl⟩ : ∃ L', L = L' + 1 := ⟨L - 1, by omega⟩
    simp only [Nat.add_sub_cancel]
    rw [Nat.pow_succ] at h1
    rw [Nat.pow_succ, Nat.pow_succ] at h2
    refine ⟨by omega, by omega, fun _ => by omega⟩
  · have hd : decide ((e2 : Int) > 3) = false := by simpa using h3
    rw [hd]
    have hq : subU32 L (boolToNat false) = L := by
      unfold subU32 boolToNat; simp; omega
    rw [hq]
    have he : e2 ≤ 3 := by omega
    have hL0 : L = 0 := by
      apply Classical.byContradiction; intro hne
      have : 10 ^ 1 ≤ 10 ^ L := Nat.pow_le_pow_right (by decide) (by omega)
      have : 2 ^ e2 ≤ 2 ^ 3 := Nat.pow_le_pow_right (by decide) he
      omega
    subst hL0
    rw [Nat.pow_succ] at h2
    refine ⟨h1, by omega, fun h => by omega⟩


/-- the decimal exponent chosen for `e2 < 0` (`n = −e2`): `q = max(0, ⌊log10 5^n⌋ − 1) < n`, and with `i = n − q`:
`2^q ≤ 5^i < 100·2^q` -/
theorem negScale (n : Nat) (h0 : 1 ≤ n) (h : n ≤ 2620) :
    subU32 (log10Pow5 (n : Int)) (boolToNat (decide ((n : Int) > 1))) < n ∧
    2 ^ subU32 (log10Pow5 (n : Int)) (boolToNat (decide ((n : Int) > 1))) ≤
      5 ^ (n - subU32 (log10Pow5 (n : Int)) (boolToNat (decide ((n : Int) > 1)))) ∧
    5 ^ (n - subU32 (log10Pow5 (n : Int)) (boolToNat (decide ((n : Int) > 1)))) <
      100 * 2 ^ subU32 (log10Pow5 (n : Int)) (boolToNat (decide ((n : Int) > 1))) ∧
    (1 ≤ subU32 (log10Pow5 (n : Int)) (boolToNat (decide ((n : Int) > 1))) →
      10 * 2 ^ subU32 (log10Pow5 (n : Int)) (boolToNat (decide ((n : Int) > 1))) ≤
        5 ^ (n - subU32 (log10Pow5 (n : Int)) (boolToNat (decide ((n : Int) > 1))))) := by
  obtain ⟨h1, h2⟩ := log10Pow5_exact n h
  have hL := log10Pow5_lt (n : Int)
  generalize log10Pow5 (n : Int) = L at *
  -- facts about q in terms of powers of ten
  have key : ∀ q : Nat, 10 ^ q ≤ 5 ^ n → 5 ^ n < 100 * 10 ^ q → (1 ≤ q → 10 * 10 ^ q ≤ 5 ^ n) →
      q < n ∧ 2 ^ q ≤ 5 ^ (n - q) ∧ 5 ^ (n - q) < 100 * 2 ^ q ∧ (1 ≤ q → 10 * 2 ^ q ≤ 5 ^ (n - q)) := by
    intro q a b c
    have hqn : q < n := by
      apply Nat.lt_of_not_le; intro hnq
      have h5 : 5 ^ n < 10 ^ n := Nat.pow_lt_pow_left (by decide) (by omega)
      have : 10 ^ n ≤ 10 ^ q := Nat.pow_le_pow_right (by decide) hnq
      omega
    have e5 : 5 ^ n = 5 ^ (n - q) * 5 ^ q := by rw [← Nat.pow_add]; congr 1; omega
    have e10 : 10 ^ q = 2 ^ q * 5 ^ q := Nat.mul_pow 2 5 q
    have hpos : 0 < 5 ^ q := Nat.pow_pos (by decide)
    rw [e5, e10] at a b c
    refine ⟨hqn, Nat.le_of_mul_le_mul_right a hpos, ?_, ?_⟩
    · apply Nat.lt_of_mul_lt_mul_right (a := 5 ^ q)
      rw [Nat.mul_assoc]; exact b
    · intro hq
      apply Nat.le_of_mul_le_mul_right _ hpos
      rw [Nat.mul_assoc]; exact c hq
  by_cases h3 : (n : Int) > 1
  · have hd : decide ((n : Int) > 1) = true := by simpa using h3
    rw [hd]
    have hL1 : 1 ≤ L := by
      apply Nat.le_of_not_lt; intro hL0
      have : L = 0 := by omega
      subst this
      have : 5 ^ 2 ≤ 5 ^ n := Nat.pow_le_pow_right (by decide) (by omega)
      omega
    have hq : subU32 L (boolToNat true) = L - 1 := by
      unfold subU32 boolToNat; simp only [if_true]; omega
    rw [hq]
    obtain ⟨L', rfl⟩ : ∃ L', L = L' + 1 := ⟨L - 1, by omega⟩
    simp only [Nat.add_sub_cancel]
    rw [Nat.pow_succ] at h1
    rw [Nat.pow_succ, Nat.pow_succ] at h2
    exact key L' (by omega) (by omega) (fun _ => by omega)
  · have hd : decide ((n : Int) > 1) = false := by simpa using h3
    rw [hd]
    have hq : subU32 L (boolToNat false) = L := by
      unfold subU32 boolToNat; simp; omega
    rw [hq]
    have hn1 : n = 1 := by omega
    subst hn1
    have hL0 : L = 0 := by
      apply Classical.byContradiction; intro hne
      have : 10 ^ 1 ≤ 10 ^ L := Nat.pow_le_pow_right (by decide) (by omega)
      omega
    subst hL0
    exact key 0 (by decide) (by decide) (fun h => by omega)


/-- the arithmetic hypotheses of step 4 for an interval `(4·m2 − 1 − s, 4·m2, 4·m2 + 2) · N / D` with `D ≤ N < 100·D` -/
theorem sem_arith (m2 s N D : Nat) (incl : Bool) (hm0 : 1 ≤ m2) (hm : m2 < 2 ^ 53) (hs : s ≤ 1)
    (hD : 0 < D) (hDN : D ≤ N) (hN : N < 100 * D) (hq : D = 1 ∨ 10 * D ≤ N) :
    D ≤ (4 * m2 - 1 - s) * N ∧ (4 * m2 - 1 - s) * N + D ≤ 4 * m2 * N ∧ 4 * m2 * N + D ≤ (4 * m2 + 2) * N ∧
    4 * m2 * N - (4 * m2 - 1 - s) * N ≤ (4 * m2 + 2) * N - 4 * m2 * N ∧
    (D ∣ 4 * m2 * N ∨ (4 * m2 - 1 - s) * N + 10 * D + 1 ≤ (4 * m2 + 2) * N) ∧
    hiEnd ((4 * m2 + 2) * N) incl / D < 2 ^ 64 := by
  obtain ⟨m, rfl⟩ : ∃ m, m2 = m + 1 := ⟨m2 - 1, by omega⟩
  have e1 : 4 * (m + 1) * N = 4 * (m * N) + 4 * N := by
    rw [Nat.mul_assoc, Nat.add_mul, Nat.one_mul, Nat.mul_add]
  have e2 : (4 * (m + 1) + 2) * N = 4 * (m * N) + 6 * N := by
    rw [Nat.add_mul, e1]; omega
  have e3 : (4 * (m + 1) - 1 - s) * N = 4 * (m * N) + (3 - s) * N := by
    rw [show 4 * (m + 1) - 1 - s = 4 * m + (3 - s) by omega, Nat.add_mul, Nat.mul_assoc]
  have e4 : (3 - s) * N = 3 * N ∨ (3 - s) * N = 2 * N := by
    have : s = 0 ∨ s = 1 := by omega
    rcases this with h | h <;> subst h <;> simp
  rw [e1, e2, e3]
  have hlt : hiEnd (4 * (m * N) + 6 * N) incl / D < 2 ^ 64 := by
    apply Nat.lt_of_le_of_lt (Nat.div_le_div_right (hiEnd_facts _ incl).1)
    rw [Nat.div_lt_iff_lt_mul hD]
    have h1 : m * N ≤ m * (100 * D) := Nat.mul_le_mul_left m (Nat.le_of_lt hN)
    have h2 : m * (100 * D) = 100 * m * D := by rw [← Nat.mul_assoc, Nat.mul_comm m 100]
    have h3 : 100 * m * D ≤ 100 * 2 ^ 53 * D := Nat.mul_le_mul_right D (by omega)
    have h4 : 2 ^ 64 * D = 2048 * 2 ^ 53 * D := by rw [show (2:Nat) ^ 64 = 2048 * 2 ^ 53 by decide]
    have h5 : 100 * 2 ^ 53 * D = 100 * (2 ^ 53 * D) := Nat.mul_assoc _ _ _
    have h6 : 2048 * 2 ^ 53 * D = 2048 * (2 ^ 53 * D) := Nat.mul_assoc _ _ _
    have h7 : D ≤ 2 ^ 53 * D := Nat.le_mul_of_pos_left D (by decide)
    generalize 2 ^ 53 * D = Z at *
    omega
  generalize m * N = X at *
  refine ⟨?_, ?_, ?_, ?_, ?_, hlt⟩
  · rcases e4 with h | h <;> omega
  · rcases e4 with h | h <;> omega
  · omega
  · rcases e4 with h | h <;> omega
  · rcases hq with h | h
    · left; subst h; exact Nat.one_dvd _
    · right; rcases e4 with h' | h' <;> omega


/-- the code's `q` -/
def qOf (exp : Nat) : Nat :=
  if decodeE2 exp ≥ 0 then subU32 (log10Pow2 (decodeE2 exp)) (boolToNat (decodeE2 exp > 3))
  else subU32 (log10Pow5 (-decodeE2 exp)) (boolToNat (-decodeE2 exp > 1))
/-- the code's `e10`: the interval is expressed in units of `10^e10` -/
def e10Of (exp : Nat) : Int := if decodeE2 exp ≥ 0 then (qOf exp : Int) else (qOf exp : Int) + decodeE2 exp
/-- `2^e2 / 10^e10 = scaleNum / scaleDen`: for `e2 ≥ 0` it is `2^e2 / 10^q`, for `e2 < 0` it is `5^(−e2−q) / 2^q` -/
def scaleNum (exp : Nat) : Nat :=
  if decodeE2 exp ≥ 0 then 2 ^ (decodeE2 exp).toNat else 5 ^ (-decodeE2 exp - (qOf exp : Int)).toNat
def scaleDen (exp : Nat) : Nat := if decodeE2 exp ≥ 0 then 10 ^ qOf exp else 2 ^ qOf exp
/-- the multiplier read from the tables and the shift passed to `mulShift64` -/
def mulOf (exp : Nat) : Nat × Nat :=
  if decodeE2 exp ≥ 0 then QF.Gen.pow5InvSplit64.getD (qOf exp) (0, 0)
  else QF.Gen.pow5Split64.getD (-decodeE2 exp - (qOf exp : Int)).toNat (0, 0)
def shiftOf (exp : Nat) : Int :=
  if decodeE2 exp ≥ 0 then -decodeE2 exp + (qOf exp : Int) + ((pow5InvNumBits64 : Int) + pow5Bits (qOf exp : Int) - 1)
  else (qOf exp : Int) - (pow5Bits (-decodeE2 exp - (qOf exp : Int)) - (pow5NumBits64 : Int))

theorem step3PosQ_fields (q : Nat) (e2 : Int) (m2 s : Nat) (acc : Bool) :
    (step3PosQ q e2 m2 s acc).vr = mulShift64 (mvOf m2) (QF.Gen.pow5InvSplit64.getD q (0, 0))
      (-e2 + (q : Int) + ((pow5InvNumBits64 : Int) + pow5Bits (q : Int) - 1)) ∧
    (step3PosQ q e2 m2 s acc).vm = mulShift64 (mmOf m2 s) (QF.Gen.pow5InvSplit64.getD q (0, 0))
      (-e2 + (q : Int) + ((pow5InvNumBits64 : Int) + pow5Bits (q : Int) - 1)) ∧
    ((step3PosQ q e2 m2 s acc).vp = mulShift64 (mpOf m2) (QF.Gen.pow5InvSplit64.getD q (0, 0))
        (-e2 + (q : Int) + ((pow5InvNumBits64 : Int) + pow5Bits (q : Int) - 1)) ∨
     (step3PosQ q e2 m2 s acc).vp = subU64 (mulShift64 (mpOf m2) (QF.Gen.pow5InvSplit64.getD q (0, 0))
        (-e2 + (q : Int) + ((pow5InvNumBits64 : Int) + pow5Bits (q : Int) - 1))) 1) ∧
    (step3PosQ q e2 m2 s acc).e10 = (q : Int) := by
  unfold step3PosQ
  dsimp only
  split
  · split
    · exact ⟨rfl, rfl, Or.inl rfl, rfl⟩
    · split
      · exact ⟨rfl, rfl, Or.inl rfl, rfl⟩
      · split
        · exact ⟨rfl, rfl, Or.inr rfl, rfl⟩
        · exact ⟨rfl, rfl, Or.inl rfl, rfl⟩
  · exact ⟨rfl, rfl, Or.inl rfl, rfl⟩

theorem step3NegQ_fields (q : Nat) (e2 : Int) (m2 s : Nat) (acc : Bool) :
    (step3NegQ q e2 m2 s acc).vr = mulShift64 (mvOf m2) (QF.Gen.pow5Split64.getD (-e2 - (q : Int)).toNat (0, 0))
      ((q : Int) - (pow5Bits (-e2 - (q : Int)) - (pow5NumBits64 : Int))) ∧
    (step3NegQ q e2 m2 s acc).vm = mulShift64 (mmOf m2 s) (QF.Gen.pow5Split64.getD (-e2 - (q : Int)).toNat (0, 0))
      ((q : Int) - (pow5Bits (-e2 - (q : Int)) - (pow5NumBits64 : Int))) ∧
    ((step3NegQ q e2 m2 s acc).vp = mulShift64 (mpOf m2) (QF.Gen.pow5Split64.getD (-e2 - (q : Int)).toNat (0, 0))
        ((q : Int) - (pow5Bits (-e2 - (q : Int)) - (pow5NumBits64 : Int))) ∨
     (step3NegQ q e2 m2 s acc).vp = subU64 (mulShift64 (mpOf m2) (QF.Gen.pow5Split64.getD (-e2 - (q : Int)).toNat (0, 0))
        ((q : Int) - (pow5Bits (-e2 - (q : Int)) - (pow5NumBits64 : Int)))) 1) ∧
    (step3NegQ q e2 m2 s acc).e10 = (q : Int) + e2 := by
  unfold step3NegQ
  dsimp only
  split
  · split
    · exact ⟨rfl, rfl, Or.inl rfl, rfl⟩
    · exact ⟨rfl, rfl, Or.inr rfl, rfl⟩
  · split
    · exact ⟨rfl, rfl, Or.inl rfl, rfl⟩
    · exact ⟨rfl, rfl, Or.inl rfl, rfl⟩

/-- what step 3 returns: `vr` and `vm` are the `mulShift64` results, `vp` is the `mulShift64` result or one less -/
theorem step3_fields (mant exp : Nat) :
    (step3 mant exp).vr = mulShift64 (mvOf (decodeM2 mant exp)) (mulOf exp) (shiftOf exp) ∧
    (step3 mant exp).vm = mulShift64 (mmOf (decodeM2 mant exp) (mmShiftOf mant exp)) (mulOf exp) (shiftOf exp) ∧
    ((step3 mant exp).vp = mulShift64 (mpOf (decodeM2 mant exp)) (mulOf exp) (shiftOf exp) ∨
     (step3 mant exp).vp = subU64 (mulShift64 (mpOf (decodeM2 mant exp)) (mulOf exp) (shiftOf exp)) 1) ∧
    (step3 mant exp).e10 = e10Of exp := by
  unfold step3 mulOf shiftOf e10Of
  dsimp only
  by_cases h : decodeE2 exp ≥ 0
  · have hq : qOf exp = subU32 (log10Pow2 (decodeE2 exp)) (boolToNat (decodeE2 exp > 3)) := by
      unfold qOf; rw [if_pos h]
    rw [if_pos h, if_pos h, if_pos h, if_pos h, hq]
    exact step3PosQ_fields _ _ _ _ _
  · have hq : qOf exp = subU32 (log10Pow5 (-decodeE2 exp)) (boolToNat (-decodeE2 exp > 1)) := by
      unfold qOf; rw [if_neg h]
    rw [if_neg h, if_neg h, if_neg h, if_neg h, hq]
    exact step3NegQ_fields _ _ _ _ _


theorem decodeE2_pos (exp : Nat) (h : 1077 ≤ exp) : decodeE2 exp = ((exp - 1077 : Nat) : Int) := by
  unfold decodeE2
  have h52 : (mantBits64 : Int) = 52 := rfl
  have hb : (bias64 : Int) = 1023 := rfl
  have : (exp == 0) = false := by simp; omega
  rw [this, h52, hb]; simp only [Bool.false_eq_true, if_false]; omega

theorem decodeE2_neg (exp : Nat) (h : exp < 1077) :
    decodeE2 exp = -((if exp = 0 then 1076 else 1077 - exp : Nat) : Int) := by
  unfold decodeE2
  have h52 : (mantBits64 : Int) = 52 := rfl
  have hb : (bias64 : Int) = 1023 := rfl
  rw [h52, hb]
  by_cases h0 : exp = 0
  · subst h0; rfl
  · have : (exp == 0) = false := by simp [h0]
    rw [this]; simp only [Bool.false_eq_true, if_false, h0]; omega

/-- `D ≤ N < 100·D`, and `10·D ≤ N` unless `q = 0` (`D = 1`): at least one and fewer than three digits are to be removed -/
theorem scale_facts (exp : Nat) (he : exp < 2047) :
    0 < scaleDen exp ∧ scaleDen exp ≤ scaleNum exp ∧ scaleNum exp < 100 * scaleDen exp ∧
    (scaleDen exp = 1 ∨ 10 * scaleDen exp ≤ scaleNum exp) := by
  unfold scaleDen scaleNum qOf
  by_cases h : 1077 ≤ exp
  · have he2 := decodeE2_pos exp h
    have hge : decodeE2 exp ≥ 0 := by rw [he2]; omega
    simp only [hge, if_true]
    rw [he2, Int.toNat_natCast]
    obtain ⟨a, b, c⟩ := posScale (exp - 1077) (by omega)
    generalize subU32 (log10Pow2 ((exp - 1077 : Nat) : Int)) (boolToNat (decide (((exp - 1077 : Nat) : Int) > 3))) = q at *
    refine ⟨Nat.pow_pos (by decide), a, b, ?_⟩
    by_cases hq : q = 0
    · left; subst hq; rfl
    · right; exact c (by omega)
  · have he2 := decodeE2_neg exp (by omega)
    have hlt : ¬ decodeE2 exp ≥ 0 := by rw [he2]; split <;> omega
    simp only [hlt, if_false]
    rw [he2, Int.neg_neg]
    have hn1 : 1 ≤ (if exp = 0 then 1076 else 1077 - exp) := by split <;> omega
    have hn2 : (if exp = 0 then 1076 else 1077 - exp) ≤ 2620 := by split <;> omega
    generalize (if exp = 0 then 1076 else 1077 - exp) = n at *
    obtain ⟨a, b, c, d⟩ := negScale n hn1 hn2
    generalize subU32 (log10Pow5 (n : Int)) (boolToNat (decide ((n : Int) > 1))) = q at *
    have hi : ((n : Int) - (q : Int)).toNat = n - q := by omega
    rw [hi]
    refine ⟨Nat.pow_pos (by decide), b, c, ?_⟩
    by_cases hq : q = 0
    · left; subst hq; rfl
    · right; exact d (by omega)


/-- `⌊(C−1)/D⌋` is `⌊C/D⌋ − 1` if `D ∣ C` and `⌊C/D⌋` otherwise -/
theorem pred_div (C D : Nat) (hD : 0 < D) (hC : 0 < C) :
    (D ∣ C → (C - 1) / D = C / D - 1) ∧ (¬ D ∣ C → (C - 1) / D = C / D) := by
  have hdm := Nat.div_add_mod C D
  have hml := Nat.mod_lt C hD
  constructor
  · intro hd
    have h0 : C % D = 0 := Nat.mod_eq_zero_of_dvd hd
    have hc1 : 1 ≤ C / D := Nat.div_pos (Nat.le_of_dvd hC hd) hD
    apply Nat.div_eq_of_lt_le
    · rw [Nat.mul_comm, Nat.mul_sub, Nat.mul_one]; omega
    · rw [show C / D - 1 + 1 = C / D by omega, Nat.mul_comm]; omega
  · intro hd
    have h0 : C % D ≠ 0 := fun h => hd (Nat.dvd_of_mod_eq_zero h)
    apply Nat.div_eq_of_lt_le
    · rw [Nat.mul_comm]; omega
    · rw [Nat.add_mul, Nat.one_mul, Nat.mul_comm]; omega

/-- the last-digit form of "`vp` is the floor of the upper end" from the raw floor and a sound decrement -/
theorem vp_last_digit (C D vp raw : Nat) (incl : Bool) (hD : 0 < D) (hC : 0 < C) (hraw : raw = C / D)
    (hraw64 : raw < 2 ^ 64)
    (hvp : vp = raw ∨ vp = subU64 raw 1)
    (hkeep : vp = raw → incl = false → D ∣ C → ¬ 10 ∣ C / D)
    (hdec : vp = subU64 raw 1 → vp ≠ raw → incl = false ∧ D ∣ C) :
    vp / 10 = hiEnd C incl / D / 10 := by
  obtain ⟨p1, p2⟩ := pred_div C D hD hC
  by_cases hvr : vp = raw
  · cases hi : incl with
    | true => rw [hvr, hraw]; unfold hiEnd; simp
    | false =>
      have hE : hiEnd C false = C - 1 := by unfold hiEnd; simp
      rw [hE, hvr, hraw]
      by_cases hd : D ∣ C
      · have h10 := hkeep hvr hi hd
        rw [p1 hd]
        rw [Nat.dvd_iff_mod_eq_zero] at h10
        omega
      · rw [p2 hd]
  · have hv2 : vp = subU64 raw 1 := by
      rcases hvp with h | h
      · exact (hvr h).elim
      · exact h
    obtain ⟨hi, hd⟩ := hdec hv2 hvr
    have hE : hiEnd C incl = C - 1 := by unfold hiEnd; rw [hi]; simp
    have hc1 : 1 ≤ C / D := Nat.div_pos (Nat.le_of_dvd hC hd) hD
    rw [hE, p1 hd, hv2, hraw]
    have : subU64 (C / D) 1 = C / D - 1 := by
      unfold subU64; rw [← hraw] at hc1 ⊢; omega
    rw [this]


/-- what the scale means: `scaleNum / scaleDen = 2^e2 / 10^e10`. For `e2 ≥ 0`: `scaleNum = 2^e2`, `scaleDen = 10^e10`, `e10 = q ≥ 0`;
for `e2 < 0`: `e10 = q + e2 < 0` and `scaleNum · 2^(−e2) = scaleDen · 10^(−e10)` -/
theorem scale_meaning (exp : Nat) (he : exp < 2047) :
    (decodeE2 exp ≥ 0 → 0 ≤ e10Of exp ∧ scaleNum exp = 2 ^ (decodeE2 exp).toNat ∧ scaleDen exp = 10 ^ (e10Of exp).toNat) ∧
    (decodeE2 exp < 0 → e10Of exp < 0 ∧
      scaleNum exp * 2 ^ (-decodeE2 exp).toNat = scaleDen exp * 10 ^ (-e10Of exp).toNat) := by
  constructor
  · intro h
    unfold e10Of scaleNum scaleDen
    rw [if_pos h, if_pos h, if_pos h]
    exact ⟨by omega, rfl, by rw [Int.toNat_natCast]⟩
  · intro h
    have hlt : ¬ decodeE2 exp ≥ 0 := by omega
    have h1077 : exp < 1077 := by
      apply Nat.lt_of_not_le; intro hge
      rw [decodeE2_pos exp hge] at h; omega
    have he2 := decodeE2_neg exp h1077
    unfold e10Of scaleNum scaleDen qOf
    simp only [hlt, if_false]
    rw [he2, Int.neg_neg]
    have hn1 : 1 ≤ (if exp = 0 then 1076 else 1077 - exp) := by split <;> omega
    have hn2 : (if exp = 0 then 1076 else 1077 - exp) ≤ 2620 := by split <;> omega
    generalize (if exp = 0 then 1076 else 1077 - exp) = n at *
    obtain ⟨a, _, _, _⟩ := negScale n hn1 hn2
    generalize subU32 (log10Pow5 (n : Int)) (boolToNat (decide ((n : Int) > 1))) = q at *
    have hi : ((n : Int) - (q : Int)).toNat = n - q := by omega
    have hj : (-((q : Int) + -(n : Int))).toNat = n - q := by omega
    have hk : ((n : Int)).toNat = n := Int.toNat_natCast n
    rw [hi, hj, hk]
    refine ⟨by omega, ?_⟩
    have e1 : (10 : Nat) ^ (n - q) = 2 ^ (n - q) * 5 ^ (n - q) := Nat.mul_pow 2 5 (n - q)
    have e2 : (2 : Nat) ^ n = 2 ^ q * 2 ^ (n - q) := by rw [← Nat.pow_add]; congr 1; omega
    rw [e1, e2, Nat.mul_comm (5 ^ (n - q)), Nat.mul_assoc]

theorem decodeM2_range (mant exp : Nat) (hm : mant < 2 ^ 52) (hnz : mant ≠ 0 ∨ exp ≠ 0) :
    1 ≤ decodeM2 mant exp ∧ decodeM2 mant exp < 2 ^ 53 := by
  rw [decodeM2_eq mant exp hm]
  split <;> omega

/-- 3f. Ryu's step 4 yields the shortest, correctly rounded decimal — given exact step-3 products and sound flags
(the flag hypotheses are discharged in `C16CoreFlags`: `flags_sound`, `ryu_shortest_partial`).

For the fields `mant < 2^52`, `exp < 2047` of a finite non-zero float64 let `m2`, `e2` be its significand and exponent − 2
(`interval_value`), `mv = 4·m2`, `mp = 4·m2 + 2`, `mm = 4·m2 − 1 − mmShift` (`interval_upper`, `interval_lower`: the
rounding interval is `[mm, mp]·2^e2`), and `N/D = 2^e2 / 10^e10` the scale chosen by the code (`scaleNum`, `scaleDen`, `e10Of`).

HYPOTHESES (what remains to be proved about step 3):
* `Hvr`, `Hvp`, `Hvm` — the three `mulShift64` results are the exact floors `⌊mv·N/D⌋`, `⌊mp·N/D⌋`, `⌊mm·N/D⌋` of the scaled
  quantities (this is what `mulShift64_exact` plus the precision of the 121/122-bit multipliers, `C16Tables`, give by the
  argument of the Ryu paper, Lemma 3.3/3.4);
* `Hkeep`, `Hdec`, `Hfm1`, `Hfm2`, `Hfr` — the conclusions step 3 draws from `multipleOfPowerOfFive64` /
  `multipleOfPowerOfTwo64` (proved correct in `multipleOfPowerOfFive64_iff`, `multipleOfPowerOfTwo64_iff`) are sound for the
  scaled quantities: `vp` is decremented only for an excluded integral upper end and left alone for such an end only if its
  last digit is not 0; `vmIsTrailingZeros` is set only for an acceptable integral lower end and left unset for such an end only
  if its last digit is not 0; `vrIsTrailingZeros` is set only for an integral value or a half-integral one whose double
  is a multiple of 5.

CONCLUSION: with `d = float64ToDecimal mant exp` and `k = d.e − e10` digits removed, `d.m·10^k` (in units of `10^e10`) lies in
the rounding interval (closed iff the significand is even), no decimal with fewer digits does, and no decimal of the same
length in the interval is closer to the float's exact value. -/
theorem ryu_shortest_of_sound_flags (mant exp : Nat) (hm : mant < 2 ^ 52) (he : exp < 2047) (hnz : mant ≠ 0 ∨ exp ≠ 0)
    (Hvr : mulShift64 (mvOf (decodeM2 mant exp)) (mulOf exp) (shiftOf exp)
      = mvOf (decodeM2 mant exp) * scaleNum exp / scaleDen exp)
    (Hvp : mulShift64 (mpOf (decodeM2 mant exp)) (mulOf exp) (shiftOf exp)
      = mpOf (decodeM2 mant exp) * scaleNum exp / scaleDen exp)
    (Hvm : mulShift64 (mmOf (decodeM2 mant exp) (mmShiftOf mant exp)) (mulOf exp) (shiftOf exp)
      = mmOf (decodeM2 mant exp) (mmShiftOf mant exp) * scaleNum exp / scaleDen exp)
    (Hkeep : (step3 mant exp).vp = mulShift64 (mpOf (decodeM2 mant exp)) (mulOf exp) (shiftOf exp) →
      acceptBoundsOf mant exp = false → scaleDen exp ∣ mpOf (decodeM2 mant exp) * scaleNum exp →
      ¬ 10 ∣ mpOf (decodeM2 mant exp) * scaleNum exp / scaleDen exp)
    (Hdec : (step3 mant exp).vp ≠ mulShift64 (mpOf (decodeM2 mant exp)) (mulOf exp) (shiftOf exp) →
      acceptBoundsOf mant exp = false ∧ scaleDen exp ∣ mpOf (decodeM2 mant exp) * scaleNum exp)
    (Hfm1 : (step3 mant exp).vmIsTrailingZeros = true →
      acceptBoundsOf mant exp = true ∧ scaleDen exp ∣ mmOf (decodeM2 mant exp) (mmShiftOf mant exp) * scaleNum exp)
    (Hfm2 : acceptBoundsOf mant exp = true →
      scaleDen exp ∣ mmOf (decodeM2 mant exp) (mmShiftOf mant exp) * scaleNum exp →
      (step3 mant exp).vmIsTrailingZeros = false →
      ¬ 10 ∣ mmOf (decodeM2 mant exp) (mmShiftOf mant exp) * scaleNum exp / scaleDen exp)
    (Hfr : (step3 mant exp).vrIsTrailingZeros = true →
      (scaleDen exp ∣ mvOf (decodeM2 mant exp) * scaleNum exp ∨
        (scaleDen exp ∣ 2 * (mvOf (decodeM2 mant exp) * scaleNum exp) ∧
          5 ∣ 2 * (mvOf (decodeM2 mant exp) * scaleNum exp) / scaleDen exp))) :
    ∃ k : Nat, (float64ToDecimal mant exp).e = e10Of exp + (k : Int) ∧
      Spec (mmOf (decodeM2 mant exp) (mmShiftOf mant exp) * scaleNum exp) (mvOf (decodeM2 mant exp) * scaleNum exp)
        (mpOf (decodeM2 mant exp) * scaleNum exp) (scaleDen exp) (acceptBoundsOf mant exp)
        (float64ToDecimal mant exp).m k := by
  obtain ⟨f1, f2, f3, f4⟩ := step3_fields mant exp
  obtain ⟨hm1, hm2⟩ := decodeM2_range mant exp hm hnz
  obtain ⟨hD, hDN, hN, hq⟩ := scale_facts exp he
  have hs := mmShiftOf_le mant exp
  obtain ⟨a1, a2, a3, a4, a5, a6⟩ :=
    sem_arith (decodeM2 mant exp) (mmShiftOf mant exp) (scaleNum exp) (scaleDen exp) (acceptBoundsOf mant exp)
      hm1 hm2 hs hD hDN hN hq
  have emv := (mv_mp_eq _ hm2).1
  have emp := (mv_mp_eq _ hm2).2
  have emm := mm_eq _ _ (by omega) hm2 hs
  rw [← emm] at a1 a2 a4 a5
  rw [← emp] at a3 a4 a5 a6
  rw [← emv] at a2 a3 a4 a5
  have hCpos : 0 < mpOf (decodeM2 mant exp) * scaleNum exp := by omega
  have hmppos : 0 < mpOf (decodeM2 mant exp) := by rw [emp]; omega
  have hmplt : mpOf (decodeM2 mant exp) < 2 ^ 56 := by rw [emp]; omega
  have hraw64 : mpOf (decodeM2 mant exp) * scaleNum exp / scaleDen exp < 2 ^ 64 := by
    have h3 : mpOf (decodeM2 mant exp) * scaleNum exp / scaleDen exp < mpOf (decodeM2 mant exp) * 100 := by
      rw [Nat.div_lt_iff_lt_mul hD, Nat.mul_assoc]
      exact (Nat.mul_lt_mul_left hmppos).mpr hN
    omega
  have hsem : Sem (mmOf (decodeM2 mant exp) (mmShiftOf mant exp) * scaleNum exp) (mvOf (decodeM2 mant exp) * scaleNum exp)
      (mpOf (decodeM2 mant exp) * scaleNum exp) (scaleDen exp) (acceptBoundsOf mant exp) (step3 mant exp) :=
    { hD := hD, hA := a1, hAB := a2, hBC := a3, hgap := a4, hwide := a5
      hvm := by rw [f2, Hvm]
      hvr := by rw [f1, Hvr]
      hvp := vp_last_digit _ _ _ _ _ hD hCpos Hvp (by rw [Hvp]; exact hraw64) f3
        (fun h => Hkeep h) (fun _ h => Hdec h)
      hlt := a6
      hfm1 := Hfm1, hfm2 := Hfm2, hfr := Hfr }
  obtain ⟨k, hk1, hk2⟩ := step4_correct hsem
  refine ⟨k, ?_, hk2⟩
  show (step3 mant exp).e10 + (step4 (step3 mant exp) (acceptBoundsOf mant exp)).2 = _
  rw [f4, hk1]

end QF.Props.C16Core
