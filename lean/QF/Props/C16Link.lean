import QF.Props.C16LinkScale
import QF.Props.C16LinkText
import QF.Props.C16CoreCheck
import QF.Props.C16
/-!
# C16 — the link: Ryu's decimal, laid out by `appendF`, satisfies `Num.isShortestRoundTrip`

The three ingredients proved separately —
* `C16Round`: `Num.ofDecimal` is IEEE round-to-nearest-even (`ofDecimal_correct`, `isNearest_unique`),
* `C16Core*`: the mirror of the Ryu core returns a decimal satisfying `Spec` (`ryu_shortest_partial`, `exactInt_spec`),
* `C16Layouts` / `AppendF`: the digit layouts of `dec64.appendF`,
are joined here into the statement of property C16 in its own words: the text written for a finite non-zero float64 passes
`Num.isShortestRoundTrip`, the executable check the replay driver applies to the implementation's output (canonical
positional form, parses back to the identical bits, no decimal with fewer digits does, closest among that length).

* `interval_iff_roundtrip` (in `C16LinkInterval`): in the rounding interval ⇔ `ofDecimal` returns the float.
* `shortest_of_spec` (in `C16LinkScale`): `Spec` in units of `10^e10` ⇒ `Shortest` for the decimal `m·10^e`.
* `isShortest_of_shortest`: `Shortest` ⇒ `isShortestRoundTrip` of the positional text (clause by clause).
* `spec_implies_isShortest`, `ryu_text_is_shortest_partial`: the corollaries for the mirror pipeline
  `Ryu64.decimal` ∘ `appendF`, every sign, general algorithm (under the three exact-floor hypotheses of
  `ryu_shortest_partial`) and exact-integer fast path (no hypothesis).
-/
namespace QF.Props.C16Link
open QF.Num QF.Ryu64 QF.Props.C16Round QF.Props.C16Core

/-! ## `isShortestRoundTrip`, clause by clause -/

theorem pair_eq (c : Nat) (sd : Int) :
    (if sd ≥ 0 then (c * 10 ^ sd.toNat, 1) else (c, 10 ^ (-sd).toNat)) = (decNum c sd, decDen sd) := by
  unfold decNum decDen; split <;> rfl
theorem vnum_eq (M : Nat) (E : Int) : (if E ≥ 0 then M * 2 ^ E.toNat else M) = dyNum M E := rfl
theorem vden_eq (E : Int) : (if E ≥ 0 then 1 else 2 ^ (-E).toNat) = dyDen E := rfl
theorem ite_absDiff (a b : Nat) : (if a ≥ b then a - b else b - a) = absDiff a b := by
  unfold absDiff; split <;> omega

theorem shorter_false (neg : Bool) (bits : UInt64) (p : Int) (hlo : ∀ lo, lo ≠ 0 → ofDecimal neg lo p ≠ bits) (lo : Nat) :
    ((lo != 0 && ofDecimal neg lo p == bits) || ofDecimal neg (lo + 1) p == bits) = false := by
  have h2 : (ofDecimal neg (lo + 1) p == bits) = false := by
    rw [beq_eq_false_iff_ne]; exact hlo _ (by omega)
  rw [h2, Bool.or_false]
  by_cases h : lo = 0
  · subst h; rfl
  · have h1 : (ofDecimal neg lo p == bits) = false := by
      rw [beq_eq_false_iff_ne]; exact hlo _ h
    rw [h1, Bool.and_false]

theorem closer_false (neg : Bool) (bits : UInt64) (dy : Num.Dyadic) (sm : Nat) (sd : Int)
    (hclose : ∀ c, ofDecimal neg c sd = bits → ¬ distNum dy c sd < distNum dy sm sd) (c : Nat) :
    (ofDecimal neg c sd == bits && decide (distNum dy c sd < distNum dy sm sd)) = false := by
  by_cases h : ofDecimal neg c sd = bits
  · have := hclose c h
    rw [decide_eq_false this, Bool.and_false]
  · have h1 : (ofDecimal neg c sd == bits) = false := by rw [beq_eq_false_iff_ne]; exact h
    rw [h1, Bool.false_and]

/-- `isShortestRoundTrip bits text` holds as soon as each of its clauses does: the text is canonical, it parses to
`(neg, m, d)`, `ofDecimal neg m d = bits`, and with `(sm, sd)` the digits without trailing zeros: no non-zero multiple of
`10^(sd+1)` parses back to `bits` (in particular not the two candidates `lo`, `hi` the check tries), and no `c·10^sd` that
parses back is strictly closer to the exact value than `sm·10^sd` (in particular not `sm ± 1`). -/
theorem isShortest_intro (neg : Bool) (bits : UInt64) (text : List UInt8) (dy : Num.Dyadic) (m : Nat) (d : Int) (sm : Nat)
    (sd : Int) (hc : canonicalForm text = true) (hp : parsePositional text = some (neg, m, d))
    (hd : decode bits = some dy) (ho : ofDecimal neg m d = bits) (h0 : dy.m ≠ 0) (hn : normalize m d = (sm, sd))
    (hlo : ∀ lo, lo ≠ 0 → ofDecimal neg lo (sd + 1) ≠ bits)
    (hclose : ∀ c, ofDecimal neg c sd = bits → ¬ distNum dy c sd < distNum dy sm sd) :
    isShortestRoundTrip bits text = true := by
  unfold isShortestRoundTrip
  rw [hc, hp, hd]
  have h0' : (dy.m == 0) = false := by rw [beq_eq_false_iff_ne]; exact h0
  simp only [Bool.true_and, ho, bne_self_eq_false, Bool.false_eq_true, if_false, hn, h0']
  split
  · rfl
  simp only [pair_eq, vnum_eq, vden_eq, ite_absDiff]
  rw [shorter_false neg bits (sd + 1) hlo]
  simp only [Bool.false_eq_true, if_false]
  have e : ∀ c, absDiff (decNum c sd * dyDen dy.e) (dyNum dy.m dy.e * decDen sd) = distNum dy c sd := fun _ => rfl
  simp only [e]
  rw [closer_false neg bits dy sm sd hclose, closer_false neg bits dy sm sd hclose, Bool.and_false]
  rfl

/-! ## auxiliary facts -/

/-- `decimalLen64 v` is the number of decimal digits of `v` for `0 < v < 2^57` (`decimalLen64_spec` of `C16Core` with the
bound its proof really uses; Ryu's output is below `2^57`, `Shortest.lt`) -/
theorem decimalLen64_spec57 (v : Nat) (h0 : v ≠ 0) (h : v < 2 ^ 57) :
    10 ^ (decimalLen64 v - 1) ≤ v ∧ v < 10 ^ decimalLen64 v := by
  have hb1 : 2 ^ Nat.log2 v ≤ v := Nat.log2_self_le h0
  have hb2 : v < 2 ^ (Nat.log2 v + 1) := Nat.lt_log2_self
  have hb : Nat.log2 v + 1 < 58 := by
    have : Nat.log2 v < 57 := (Nat.log2_lt h0).mpr h
    omega
  have hc := all_range_lift decimalLen_check _ hb
  unfold decimalLen64 bitLen64
  rw [if_neg h0]
  dsimp only
  simp only [decimalLenOk, Bool.and_eq_true, Bool.or_eq_true, beq_iff_eq, decide_eq_true_iff, Nat.add_sub_cancel] at hc
  obtain ⟨⟨hp, hlo⟩, hhi⟩ := hc
  generalize ((Nat.log2 v + 1) * 1233) >>> 12 = t at *
  rw [hp]
  by_cases hlt : v < 10 ^ t
  · simp only [hlt, decide_true, boolToNat, if_true, Nat.add_sub_cancel]
    refine ⟨?_, trivial⟩
    rcases hlo with ht | hle
    · subst ht; simp at hlt; omega
    · exact Nat.le_trans hle hb1
  · simp only [hlt, decide_false, boolToNat, Bool.false_eq_true, if_false, Nat.sub_zero, Nat.add_sub_cancel]
    exact ⟨Nat.le_of_not_lt hlt, Nat.lt_of_lt_of_le hb2 hhi⟩

theorem decimalLen64_pos (v : Nat) (h0 : v ≠ 0) (h : v < 2 ^ 57) : 1 ≤ decimalLen64 v := by
  obtain ⟨_, h2⟩ := decimalLen64_spec57 v h0 h
  apply Nat.pos_of_ne_zero; intro hz
  rw [hz] at h2; simp at h2; omega

/-- `ofDecimal` depends on the decimal only through its value `decNum / decDen` -/
theorem ofDecimal_congr (neg : Bool) (m m' : Nat) (d d' : Int) (h1 : decNum m d = decNum m' d')
    (h2 : decDen d = decDen d') (h3 : m = 0 ↔ m' = 0) : ofDecimal neg m d = ofDecimal neg m' d' := by
  rw [ofDecimal_unfold neg m d, ofDecimal_unfold neg m' d', h1, h2]
  by_cases h : m = 0
  · rw [if_pos h, if_pos (h3.mp h)]
  · rw [if_neg h, if_neg (fun h' => h (h3.mpr h'))]

/-- what `parsePositional` reads from the positional text (trailing zeros of the integer layout folded into the mantissa)
denotes the same value as `m·10^e` -/
theorem ofDecimal_repr (neg : Bool) (m : Nat) (e : Int) :
    ofDecimal neg (if e ≥ 0 then m * 10 ^ e.toNat else m) (if e ≥ 0 then 0 else e) = ofDecimal neg m e := by
  by_cases h : e ≥ 0
  · rw [if_pos h, if_pos h]
    apply ofDecimal_congr
    · unfold decNum; rw [if_pos h, if_pos (by decide)]
      show m * 10 ^ e.toNat * 10 ^ 0 = _
      rw [Nat.pow_zero, Nat.mul_one]
    · unfold decDen; rw [if_pos h, if_pos (by decide)]
    · have : 0 < 10 ^ e.toNat := Nat.pow_pos (by decide)
      constructor
      · intro hm; exact (Nat.mul_eq_zero.mp hm).resolve_right (by omega)
      · intro hm; rw [hm, Nat.zero_mul]
  · rw [if_neg h, if_neg h]

set_option exponentiation.threshold 2000 in
theorem pow10_400 : 2 ^ 55 * 2 ^ 969 < 10 ^ 400 := by
  have h1 : (2 : Nat) ^ 55 * 2 ^ 969 ≤ 2 ^ (3 * 400) := by
    rw [← Nat.pow_add]; exact Nat.pow_le_pow_right (by decide) (by decide)
  have h2 : (2 : Nat) ^ (3 * 400) = 8 ^ 400 := by rw [Nat.pow_mul]
  have h3 : (8 : Nat) ^ 400 < 10 ^ 400 := Nat.pow_lt_pow_left (by decide) (by decide)
  rw [h2] at h1
  exact Nat.lt_of_le_of_lt h1 h3

set_option exponentiation.threshold 2000 in
/-- a decimal `m·10^e`, `m > 0`, in the rounding interval of a finite float has `e ≤ 400` -/
theorem inInterval_exp_le (b : UInt64) (dy : Num.Dyadic) (F : Fields b dy) (m : Nat) (e : Int) (hm : 0 < m)
    (h : InInterval b m e) : e ≤ 400 := by
  by_cases he : e ≤ 400
  · exact he
  exfalso
  have hup : decNum m e * Q (decodeE2 (expOf b)) ≤
      mpOf (decodeM2 (mantOf b) (expOf b)) * (decDen e * P (decodeE2 (expOf b))) := by
    unfold InInterval at h
    split at h
    · exact h.2
    · exact Nat.le_of_lt h.2
  have hden : decDen e = 1 := by unfold decDen; rw [if_pos (by omega)]
  have hnum : decNum m e = m * 10 ^ e.toNat := by unfold decNum; rw [if_pos (by omega)]
  rw [hden, hnum, Nat.one_mul, F.mp] at hup
  have h1 : 10 ^ 400 ≤ 10 ^ e.toNat := Nat.pow_le_pow_right (by decide) (by omega)
  have h2 : 10 ^ e.toNat ≤ m * 10 ^ e.toNat * Q (decodeE2 (expOf b)) := by
    rw [Nat.mul_assoc]
    exact Nat.le_trans (Nat.le_mul_of_pos_right _ (Q_pos _)) (Nat.le_mul_of_pos_left _ hm)
  have h3 : P (decodeE2 (expOf b)) ≤ 2 ^ 969 := by
    unfold P; apply Nat.pow_le_pow_right (by decide)
    have := F.e2; have := F.e_le; omega
  have h4 : (4 * dy.m + 2) * P (decodeE2 (expOf b)) ≤ 2 ^ 55 * 2 ^ 969 :=
    Nat.mul_le_mul (by have := F.m_lt; omega) h3
  exact absurd (Nat.le_trans h1 (Nat.le_trans h2 (Nat.le_trans hup h4))) (Nat.not_le_of_gt pow10_400)

/-! ## 2. from `Shortest` to `isShortestRoundTrip` -/

/-- the positional text `dec64.appendF` writes for `m·10^e`: the digit count is `decimalLen64 m` -/
def positional (m : Nat) (e : Int) : List UInt8 := positionalL (decimalLen64 m) m e

/-! ### the sign -/

theorem ite_none_some {α : Type} (c : Prop) [Decidable c] (v w : α) (h : (if c then none else some v) = some w) :
    ¬ c ∧ v = w := by
  by_cases hc : c
  · rw [if_pos hc] at h; cases h
  · rw [if_neg hc] at h; exact ⟨hc, Option.some.inj h⟩

/-- a text that parses with positive sign does not start with `'-'` -/
theorem not_neg_of_parse (t : List UInt8) (m : Nat) (d : Int) (h : parsePositional t = some (false, m, d)) :
    ∀ r, t = 45 :: r → False := by
  intro r hr
  subst hr
  unfold parsePositional at h
  simp only [] at h
  have := (ite_none_some _ _ _ h).2
  injection this with h1 h2
  cases h1

theorem parsePositional_neg (t : List UInt8) (m : Nat) (d : Int) (h : parsePositional t = some (false, m, d)) :
    parsePositional (45 :: t) = some (true, m, d) := by
  have hs := not_neg_of_parse t m d h
  unfold parsePositional at h ⊢
  simp only [] at h ⊢
  obtain ⟨hc, hv⟩ := ite_none_some _ _ _ h
  rw [if_neg hc]
  injection hv with h1 h2
  rw [h2]

theorem canonicalForm_neg (t : List UInt8) (hs : ∀ r, t = 45 :: r → False) :
    canonicalForm (45 :: t) = canonicalForm t := by
  unfold canonicalForm
  simp only []

/-- the float without its sign bit -/
def magBits (b : UInt64) : UInt64 := UInt64.ofNat (b.toNat % 2 ^ 63)

theorem magBits_toNat (b : UInt64) : (magBits b).toNat = b.toNat % 2 ^ 63 := by
  unfold magBits; rw [UInt64.toNat_ofNat']; omega

theorem mantOf_magBits (b : UInt64) : mantOf (magBits b) = mantOf b := by
  unfold mantOf; rw [magBits_toNat]; omega
theorem expOf_magBits (b : UInt64) : expOf (magBits b) = expOf b := by
  unfold expOf; rw [magBits_toNat]; omega

theorem decode_magBits (b : UInt64) (dy : Num.Dyadic) (h : decode b = some dy) :
    decode (magBits b) = some ⟨false, dy.m, dy.e⟩ := by
  have hm := magBits_toNat b
  rw [decode_of_parts (magBits b) 0 (b.toNat / 2 ^ 52 % 2048) (b.toNat % 2 ^ 52) (by rw [hm]; omega)
    (by rw [hm]; omega) (by rw [hm]; omega)]
  rcases decode_some h with ⟨h1, d⟩ | ⟨h1, h2, d⟩
  · rw [h1, d]; rfl
  · have e1 : (b.toNat / 2 ^ 52 % 2048 == 2047) = false := by rw [beq_eq_false_iff_ne]; exact h2
    have e2 : (b.toNat / 2 ^ 52 % 2048 == 0) = false := by rw [beq_eq_false_iff_ne]; exact h1
    rw [e1, e2, d]; rfl

theorem bits_eq_mag_add (b : UInt64) (dy : Num.Dyadic) (h : decode b = some dy) :
    b = magBits b + UInt64.ofNat (signBit dy.neg) := by
  apply UInt64.toNat_inj.1
  have hlt := UInt64.toNat_lt b
  have hadd : (magBits b + UInt64.ofNat (signBit dy.neg)).toNat =
      ((magBits b).toNat + (UInt64.ofNat (signBit dy.neg)).toNat) % 2 ^ 64 := by rw [UInt64.toNat_add]
  rw [hadd, magBits_toNat, UInt64.toNat_ofNat']
  have hneg : dy.neg = (b.toNat / 2 ^ 63 == 1) := by
    rcases decode_some h with ⟨_, d⟩ | ⟨_, _, d⟩ <;> rw [d]
  rw [hneg]
  by_cases hs : b.toNat / 2 ^ 63 = 1
  · have : (b.toNat / 2 ^ 63 == 1) = true := by rw [beq_iff_eq]; exact hs
    rw [this, signBit_true]; omega
  · have : (b.toNat / 2 ^ 63 == 1) = false := by rw [beq_eq_false_iff_ne]; exact hs
    rw [this, signBit_false]; omega

/-- parsing back to a signed float is parsing the magnitude back to the float without its sign bit -/
theorem ofDecimal_signed (b : UInt64) (dy : Num.Dyadic) (h : decode b = some dy) (x : Nat) (y : Int) :
    ofDecimal dy.neg x y = b ↔ ofDecimal false x y = magBits b := by
  have hb := bits_eq_mag_add b dy h
  generalize magBits b = mb at hb ⊢
  rw [hb, (ofDecimal_neg dy.neg x y).1, UInt64.add_left_inj]

/-- **`Shortest` ⇒ `isShortestRoundTrip`**, for either sign: if `m·10^e` is in the rounding interval of the magnitude of the
finite non-zero float `b`, has no shorter competitor and no closer competitor of its length (`Shortest`), then the text
`[-]positional m e` passes the executable check `Num.isShortestRoundTrip b`, clause by clause: canonical form
(`canonicalForm_positionalL`), parse/layout round trip (`parsePositional_positionalL`, `normalize_positional`),
`ofDecimal = bits` (`interval_iff_roundtrip`), the two shorter candidates, the closeness test. It also passes `parsesTo`. -/
theorem isShortest_of_shortest (b : UInt64) (dy : Num.Dyadic) (hd : decode b = some dy) (h0 : dy.m ≠ 0) (m : Nat) (e : Int)
    (S : Shortest (magBits b) ⟨false, dy.m, dy.e⟩ m e) :
    isShortestRoundTrip b ((if dy.neg then [45] else []) ++ positional m e) = true ∧
    parsesTo b ((if dy.neg then [45] else []) ++ positional m e) = true := by
  have hd0 := decode_magBits b dy hd
  have F := fields_of_decode (magBits b) ⟨false, dy.m, dy.e⟩ hd0 h0
  have hm0 : m ≠ 0 := by have := S.pos; omega
  obtain ⟨hlo, hhi⟩ := decimalLen64_spec57 m hm0 S.lt
  have hL := decimalLen64_pos m hm0 S.lt
  have iff := interval_iff_roundtrip (magBits b) ⟨false, dy.m, dy.e⟩ hd0 rfl h0
  have sgn := ofDecimal_signed b dy hd
  have he := inInterval_exp_le (magBits b) _ F m e S.pos S.inI
  have hc0 := canonicalForm_positionalL _ m e hL hlo hhi S.nz
  have hp0 := parsePositional_positionalL _ m e hL hlo hhi
  have hc : canonicalForm ((if dy.neg then [45] else []) ++ positional m e) = true := by
    cases dy.neg with
    | false => exact hc0
    | true => exact (canonicalForm_neg _ (not_neg_of_parse _ _ _ hp0)).trans hc0
  have hp : parsePositional ((if dy.neg then [45] else []) ++ positional m e) =
      some (dy.neg, (if e ≥ 0 then m * 10 ^ e.toNat else m), (if e ≥ 0 then 0 else e)) := by
    cases dy.neg with
    | false => exact hp0
    | true => exact parsePositional_neg _ _ _ hp0
  have ho : ofDecimal dy.neg (if e ≥ 0 then m * 10 ^ e.toNat else m) (if e ≥ 0 then 0 else e) = b := by
    rw [ofDecimal_repr, sgn]; exact (iff m e S.pos).mp S.inI
  refine ⟨?_, ?_⟩
  · apply isShortest_intro dy.neg b _ dy _ _ m e hc hp hd ho h0 (normalize_positional m e hm0 S.nz he)
    · intro lo hlo0 hb
      exact S.none_shorter lo ((iff lo (e + 1) (by omega)).mpr ((sgn _ _).mp hb))
    · intro c hb
      have hb := (sgn _ _).mp hb
      by_cases hc0 : c = 0
      · subst hc0
        have hz : decode (UInt64.ofNat (signBit false)) = some ⟨false, 0, -1074⟩ := decode_sub false 0 (by decide)
        rw [ofDecimal_zero] at hb
        rw [← hb, hz] at hd0
        injection hd0 with hd0
        injection hd0 with _ h2 _
        exact absurd h2.symm h0
      · have : distNum ⟨false, dy.m, dy.e⟩ m e ≤ distNum ⟨false, dy.m, dy.e⟩ c e :=
          S.closest c ((iff c e (by omega)).mpr hb)
        have e1 : ∀ x, distNum ⟨false, dy.m, dy.e⟩ x e = distNum dy x e := fun _ => rfl
        rw [e1, e1] at this
        omega
  · unfold parsesTo
    rw [hp]
    simp only [ho, beq_self_eq_true]

/-! ## the mirror of `dec64.appendF` -/

/-- `dec64.appendF` after the sign: `outLen := decimalLen64(out)`, then the integer layout (`dE ≥ 0`, `AF.layoutInt`) or one of
the two fractional layouts (`C16.appendFNeg`: `0.XYZ`, `Y.XZ`), on a buffer with arbitrary stale spare capacity -/
def appendFMag (buf : AF.Buf) (m : Nat) (e : Int) (extra0 extra : List AF.Byte) : AF.Buf :=
  if e ≥ 0 then AF.layoutInt buf m (decimalLen64 m) e.toNat extra
  else C16.appendFNeg buf m (decimalLen64 m) (-e).toNat extra0 extra

/-- `func (d dec64) appendF(b []byte, neg bool) []byte`: `if neg { b = append(b, '-') }`, then the digits -/
def appendF (buf : AF.Buf) (neg : Bool) (m : Nat) (e : Int) (extraS extra0 extra : List AF.Byte) : AF.Buf :=
  appendFMag (if neg then C16.appendBytes buf [45] extraS else buf) m e extra0 extra

theorem appendFMag_content (buf : AF.Buf) (m : Nat) (e : Int) (extra0 extra : List AF.Byte)
    (hm : m < 10 ^ decimalLen64 m) :
    (appendFMag buf m e extra0 extra).content = buf.content ++ positional m e := by
  unfold appendFMag positional positionalL
  by_cases h : e ≥ 0
  · rw [if_pos h, if_pos h, AF.layoutInt_spec, List.append_assoc]
  · rw [if_neg h, if_neg h, C16.appendFNeg_spec _ _ _ _ _ _ hm]
    split
    · simp only [List.append_assoc]
    · simp only [List.append_assoc]

/-- what `appendF` writes behind the old content, for every buffer state: the sign and the positional text -/
theorem appendF_content (buf : AF.Buf) (neg : Bool) (m : Nat) (e : Int) (extraS extra0 extra : List AF.Byte)
    (hm : m < 10 ^ decimalLen64 m) :
    (appendF buf neg m e extraS extra0 extra).content =
      buf.content ++ ((if neg then [45] else []) ++ positional m e) := by
  unfold appendF
  rw [appendFMag_content _ _ _ _ _ hm]
  cases neg with
  | false => simp
  | true => simp [C16.appendBytes_content]

/-! ## 2. `Spec` ⇒ `isShortestRoundTrip` -/

/-- **2. `spec_implies_isShortest`.** Let `b` be a finite non-zero float64 (either sign) and `b0` its magnitude. If `Spec A B C D
incl out k` holds with `A, B, C, D, incl` as in `ryu_shortest_partial` for the fields of `b0` — `out·10^k`, in units of
`10^e10`, lies in the rounding interval `[A/D, C/D]`, no decimal with fewer digits does, none of that length is closer to
`B/D` — then the text `appendF` (the layout mirror of `C16Layouts` / `AppendF`, for every state of the output buffer) writes
for the sign of `b` and the decimal `(out, e10 + k)` satisfies `Num.isShortestRoundTrip b`. -/
theorem spec_implies_isShortest (b : UInt64) (dy : Num.Dyadic) (hd : decode b = some dy) (h0 : dy.m ≠ 0) (out k : Nat)
    (hS : Spec (mmOf (decodeM2 (mantOf b) (expOf b)) (mmShiftOf (mantOf b) (expOf b)) * scaleNum (expOf b))
      (mvOf (decodeM2 (mantOf b) (expOf b)) * scaleNum (expOf b))
      (mpOf (decodeM2 (mantOf b) (expOf b)) * scaleNum (expOf b)) (scaleDen (expOf b))
      (acceptBoundsOf (mantOf b) (expOf b)) out k)
    (buf : AF.Buf) (extraS extra0 extra : List AF.Byte) :
    ∃ text, (appendF buf dy.neg out (e10Of (expOf b) + (k : Int)) extraS extra0 extra).content = buf.content ++ text ∧
      isShortestRoundTrip b text = true ∧ parsesTo b text = true := by
  have hd0 := decode_magBits b dy hd
  rw [← mantOf_magBits b, ← expOf_magBits b] at hS
  have S := shortest_of_spec (magBits b) ⟨false, dy.m, dy.e⟩ hd0 h0 out k hS
  rw [expOf_magBits] at S
  have hm0 : out ≠ 0 := by have := S.pos; omega
  obtain ⟨_, hhi⟩ := decimalLen64_spec57 out hm0 S.lt
  obtain ⟨r1, r2⟩ := isShortest_of_shortest b dy hd h0 out _ S
  exact ⟨_, appendF_content buf dy.neg out _ extraS extra0 extra hhi, r1, r2⟩

/-! ## the exact-integer fast path -/

/-- when `float64ToDecimalExactInt` answers, its decimal is the float's exact value (`exactInt_spec`), hence `Shortest` -/
theorem shortest_of_exactInt (b : UInt64) (dy : Num.Dyadic) (d : Dec64) (hd : decode b = some dy) (h0 : dy.m ≠ 0)
    (hx : float64ToDecimalExactInt (mantOf b) (expOf b) = (d, true)) : Shortest b dy d.m d.e := by
  obtain ⟨hE, hde, h10, hval⟩ := exactInt_decode b dy d hd hx
  have F := fields_of_decode b dy hd h0
  have hP : P dy.e = 1 := by
    unfold P
    have : dy.e.toNat = 0 := by omega
    rw [this, Nat.pow_zero]
  have hQ : Q dy.e = 2 ^ (-dy.e).toNat := rfl
  have hden : ∀ j : Nat, decDen (d.e + (j : Int)) = 1 := by
    intro j; unfold decDen; rw [if_pos (by omega)]
  have hnum : ∀ (n j : Nat), decNum n (d.e + (j : Int)) = n * (10 ^ d.e.toNat * 10 ^ j) := by
    intro n j; unfold decNum
    have : (d.e + (j : Int)).toNat = d.e.toNat + j := by omega
    rw [if_pos (by omega), ← Nat.pow_add, this]
  have hden0 := hden 0
  have hnum0 := fun n => hnum n 0
  simp only [Int.natCast_zero, Int.add_zero, Nat.pow_zero, Nat.mul_one] at hden0 hnum0
  have hT : 0 < 10 ^ d.e.toNat := Nat.pow_pos (by decide)
  have hQp : 0 < 2 ^ (-dy.e).toNat := Nat.two_pow_pos _
  have hdm : d.m ≠ 0 := by
    intro hz; apply h0; rw [hval, hz, Nat.zero_mul, Nat.zero_mul]
  -- the exact value
  have hexact : decNum d.m d.e * Q dy.e = dy.m * (decDen d.e * P dy.e) := by
    rw [hnum0, hden0, hP, hQ, hval]
    simp only [Nat.mul_one]
  have hu : decDen d.e * P dy.e = 1 := by rw [hden0, hP]
  have hN : IsNearest (decNum d.m d.e) (decDen d.e) dy.m dy.e := by
    refine
      { mant_lt := F.m_lt, exp_ge := F.e_ge, exp_le := F.e_le, normal := F.normal
        upper := ?_, upper_tie := ?_, lower := ?_, lower_tie := ?_, lower_binade := ?_ }
    all_goals rw [hexact, hu]
    all_goals generalize dy.m = M
    all_goals omega
  refine
    { pos := by omega
      nz := h10
      lt := ?_
      inI := (inInterval_iff_isNearest b dy F d.m d.e).mpr hN
      none_shorter := ?_
      closest := ?_ }
  · have h1 : d.m ≤ d.m * (10 ^ d.e.toNat * 2 ^ (-dy.e).toNat) := Nat.le_mul_of_pos_right _ (Nat.mul_pos hT hQp)
    rw [← Nat.mul_assoc, ← hval] at h1
    have := F.m_lt
    omega
  · intro n hI
    have hN' := (inInterval_iff_isNearest b dy F n (d.e + 1)).mp hI
    have hu' := hN'.upper
    have hl' := hN'.lower
    have e1 : d.e + 1 = d.e + ((1 : Nat) : Int) := rfl
    rw [e1, hnum n 1, hden 1, hP, hQ] at hu' hl'
    simp only [Nat.mul_one] at hu' hl'
    -- both sides are multiples of `T = 10^d.e · 2^(−dy.e)`
    have ea : n * (10 ^ d.e.toNat * 10 ^ 1) * 2 ^ (-dy.e).toNat =
        (n * 10) * (10 ^ d.e.toNat * 2 ^ (-dy.e).toNat) := by rw [Nat.pow_one]; ac_rfl
    have eb : dy.m = d.m * (10 ^ d.e.toNat * 2 ^ (-dy.e).toNat) := by rw [hval, Nat.mul_assoc]
    rw [ea] at hu' hl'
    have hTT : 0 < 10 ^ d.e.toNat * 2 ^ (-dy.e).toNat := Nat.mul_pos hT hQp
    have heq : (n * 10) * (10 ^ d.e.toNat * 2 ^ (-dy.e).toNat) = dy.m := by
      generalize (n * 10) * (10 ^ d.e.toNat * 2 ^ (-dy.e).toNat) = a at hu' hl' ⊢
      generalize dy.m = M at hu' hl' ⊢
      omega
    rw [eb] at heq
    have := Nat.eq_of_mul_eq_mul_right hTT heq
    omega
  · intro n _
    have : distNum dy d.m d.e = 0 := by
      unfold distNum absDiff
      rw [dyNum_eq, dyDen_eq, hexact, Nat.mul_assoc, Nat.mul_comm (P dy.e)]
      omega
    omega

/-! ## 3. the mirror pipeline -/

/-- **3. `ryu_text_is_shortest_partial`.** For every finite non-zero float64 `b` (either sign): the text the mirror pipeline
`Ryu64.decimal` (the exact-integer fast path, else `float64ToDecimal`) ∘ `appendF` (sign, `decimalLen64`, the three digit
layouts) writes behind the old content of the output buffer — whatever the buffer's stale spare capacity holds —
* passes `Num.isShortestRoundTrip b`: canonical positional notation, parses back to exactly `b` under correct rounding, no
  decimal with fewer significant digits does, and none of that length in the rounding interval is closer to the exact value;
* passes `Num.parsesTo b`, and therefore (`C16Round.parsesTo_unique`) every finite float64 of the text's sign that is an IEEE
  nearest-even rounding of the number the text denotes — i.e. what any correct parser returns — is `b` itself.

HYPOTHESIS (the one of `ryu_shortest_partial`, needed only when the fast path does not answer): the three `mulShift64` results
of step 3 are the exact floors of the scaled quantities.  On the exact-integer fast path (`exactInt_spec`) nothing is
assumed. -/
theorem ryu_text_is_shortest_partial (b : UInt64) (dy : Num.Dyadic) (hd : decode b = some dy) (h0 : dy.m ≠ 0)
    (Hfloors : (float64ToDecimalExactInt (mantOf b) (expOf b)).2 = false →
      mulShift64 (mvOf (decodeM2 (mantOf b) (expOf b))) (mulOf (expOf b)) (shiftOf (expOf b))
        = mvOf (decodeM2 (mantOf b) (expOf b)) * scaleNum (expOf b) / scaleDen (expOf b) ∧
      mulShift64 (mpOf (decodeM2 (mantOf b) (expOf b))) (mulOf (expOf b)) (shiftOf (expOf b))
        = mpOf (decodeM2 (mantOf b) (expOf b)) * scaleNum (expOf b) / scaleDen (expOf b) ∧
      mulShift64 (mmOf (decodeM2 (mantOf b) (expOf b)) (mmShiftOf (mantOf b) (expOf b))) (mulOf (expOf b)) (shiftOf (expOf b))
        = mmOf (decodeM2 (mantOf b) (expOf b)) (mmShiftOf (mantOf b) (expOf b)) * scaleNum (expOf b) / scaleDen (expOf b))
    (buf : AF.Buf) (extraS extra0 extra : List AF.Byte) :
    ∃ text,
      (appendF buf dy.neg (decimal (mantOf b) (expOf b)).1 (decimal (mantOf b) (expOf b)).2.1 extraS extra0 extra).content
        = buf.content ++ text ∧
      isShortestRoundTrip b text = true ∧ parsesTo b text = true ∧
      ∀ (bits' : UInt64) (dy' : Num.Dyadic) (neg : Bool) (m : Nat) (d : Int),
        parsePositional text = some (neg, m, d) → decode bits' = some dy' → dy'.neg = neg →
        IsNearest (decNum m d) (decDen d) dy'.m dy'.e → bits' = b := by
  have hd0 := decode_magBits b dy hd
  have F := fields_of_decode (magBits b) ⟨false, dy.m, dy.e⟩ hd0 h0
  have hml : mantOf b < 2 ^ 52 := by have := F.mant_lt; rwa [mantOf_magBits] at this
  have hel : expOf b < 2047 := by have := F.exp_lt; rwa [expOf_magBits] at this
  have hnz : mantOf b ≠ 0 ∨ expOf b ≠ 0 := by have := F.nz; rwa [mantOf_magBits, expOf_magBits] at this
  have key : ∀ (m : Nat) (e : Int), Shortest (magBits b) ⟨false, dy.m, dy.e⟩ m e →
      ∃ text, (appendF buf dy.neg m e extraS extra0 extra).content = buf.content ++ text ∧
        isShortestRoundTrip b text = true ∧ parsesTo b text = true ∧
        ∀ (bits' : UInt64) (dy' : Num.Dyadic) (neg : Bool) (m : Nat) (d : Int),
          parsePositional text = some (neg, m, d) → decode bits' = some dy' → dy'.neg = neg →
          IsNearest (decNum m d) (decDen d) dy'.m dy'.e → bits' = b := by
    intro m e S
    have hm0 : m ≠ 0 := by have := S.pos; omega
    obtain ⟨_, hhi⟩ := decimalLen64_spec57 m hm0 S.lt
    obtain ⟨r1, r2⟩ := isShortest_of_shortest b dy hd h0 m e S
    exact ⟨_, appendF_content buf dy.neg m e extraS extra0 extra hhi, r1, r2,
      fun bits' dy' neg m' d' hp hd' hs hn => parsesTo_unique r2 hp hd' hs hn⟩
  have hdec : decimal (mantOf b) (expOf b) =
      ((if (float64ToDecimalExactInt (mantOf b) (expOf b)).2 = true then (float64ToDecimalExactInt (mantOf b) (expOf b)).1
          else float64ToDecimal (mantOf b) (expOf b)).m,
       (if (float64ToDecimalExactInt (mantOf b) (expOf b)).2 = true then (float64ToDecimalExactInt (mantOf b) (expOf b)).1
          else float64ToDecimal (mantOf b) (expOf b)).e,
       (float64ToDecimalExactInt (mantOf b) (expOf b)).2) := rfl
  rw [hdec]
  generalize hr : float64ToDecimalExactInt (mantOf b) (expOf b) = r at Hfloors ⊢
  obtain ⟨d, ok⟩ := r
  cases ok with
  | true =>
    simp only [if_true]
    apply key
    apply shortest_of_exactInt (magBits b) _ _ hd0 h0
    rw [mantOf_magBits, expOf_magBits]
    exact hr
  | false =>
    simp only [Bool.false_eq_true, if_false]
    obtain ⟨Hvr, Hvp, Hvm⟩ := Hfloors rfl
    obtain ⟨k, hk, hS⟩ := ryu_shortest_partial (mantOf b) (expOf b) hml hel hnz Hvr Hvp Hvm
    rw [hk]
    apply key
    have := shortest_of_spec (magBits b) ⟨false, dy.m, dy.e⟩ hd0 h0 (float64ToDecimal (mantOf b) (expOf b)).m k
      (by rw [mantOf_magBits, expOf_magBits]; exact hS)
    rw [expOf_magBits] at this
    exact this

/-- the same with the hypothesis in the executable form the replay driver evaluates on every generated float
(`C16Core.floorsHold`) -/
theorem ryu_text_is_shortest_of_check (b : UInt64) (dy : Num.Dyadic) (hd : decode b = some dy) (h0 : dy.m ≠ 0)
    (hc : (float64ToDecimalExactInt (mantOf b) (expOf b)).2 = false → floorsHold (mantOf b) (expOf b) = true)
    (buf : AF.Buf) (extraS extra0 extra : List AF.Byte) :
    ∃ text,
      (appendF buf dy.neg (decimal (mantOf b) (expOf b)).1 (decimal (mantOf b) (expOf b)).2.1 extraS extra0 extra).content
        = buf.content ++ text ∧
      isShortestRoundTrip b text = true ∧ parsesTo b text = true := by
  obtain ⟨text, h1, h2, h3, _⟩ := ryu_text_is_shortest_partial b dy hd h0 (fun hf => by
    have hc := hc hf
    unfold floorsHold at hc
    dsimp only at hc
    simp only [Bool.and_eq_true, beq_iff_eq] at hc
    exact ⟨hc.1.1, hc.1.2, hc.2⟩) buf extraS extra0 extra
  exact ⟨text, h1, h2, h3⟩

/-! ## sanity checks: the hypotheses are satisfiable and the conclusions are the expected facts on concrete floats -/

instance (b : UInt64) (m : Nat) (e : Int) : Decidable (InInterval b m e) := by unfold InInterval; infer_instance

-- 0.1 = 0x3FB999999999999A: the general algorithm; 3.0 = 0x4008000000000000: the fast path; -2.5 = 0xC004000000000000
example : decimal (mantOf 0x3FB999999999999A) (expOf 0x3FB999999999999A) = (1, -1, false) := by decide +kernel
example : positional 1 (-1) = [48, 46, 49] := by decide +kernel
example : isShortestRoundTrip 0x3FB999999999999A [48, 46, 49] = true := by decide +kernel
example : floorsHold (mantOf 0x3FB999999999999A) (expOf 0x3FB999999999999A) = true := by decide +kernel
example : decimal (mantOf 0x4008000000000000) (expOf 0x4008000000000000) = (3, 0, true) := by decide +kernel
example : InInterval 0x3FB999999999999A 1 (-1) := by decide +kernel
example : ¬ InInterval 0x3FB999999999999A 2 (-1) := by decide +kernel
example : ([45] ++ positional 25 (-1) : List UInt8) = [45, 50, 46, 53] := by decide +kernel
example : isShortestRoundTrip 0xC004000000000000 [45, 50, 46, 53] = true := by decide +kernel
example : magBits 0xC004000000000000 = 0x4004000000000000 := by decide

/-- `interval_iff_roundtrip` instantiated at 0.1: `1·10^-1` is in the interval, hence parses back -/
example : ofDecimal false 1 (-1) = 0x3FB999999999999A :=
  (interval_iff_roundtrip 0x3FB999999999999A ⟨false, 7205759403792794, -56⟩ (by decide) rfl (by decide) 1 (-1)
    (by decide)).mp (by decide +kernel)

/-- `ryu_text_is_shortest_of_check` instantiated at 0.1 (general algorithm: the floors hypothesis is decided) -/
example (buf : AF.Buf) (x y z : List AF.Byte) :=
  ryu_text_is_shortest_of_check 0x3FB999999999999A ⟨false, 7205759403792794, -56⟩ (by decide) (by decide)
    (fun _ => by decide +kernel) buf x y z

/-- `ryu_text_is_shortest_partial` instantiated at −3.0 (fast path: the floors hypothesis is vacuous) -/
example (buf : AF.Buf) (x y z : List AF.Byte) :=
  ryu_text_is_shortest_partial 0xC008000000000000 ⟨true, 6755399441055744, -51⟩ (by decide) (by decide)
    (fun h => absurd h (by decide +kernel)) buf x y z

#print axioms interval_iff_roundtrip
#print axioms shortest_of_spec
#print axioms isShortest_intro
#print axioms isShortest_of_shortest
#print axioms appendF_content
#print axioms spec_implies_isShortest
#print axioms shortest_of_exactInt
#print axioms ryu_text_is_shortest_partial
#print axioms ryu_text_is_shortest_of_check

end QF.Props.C16Link
