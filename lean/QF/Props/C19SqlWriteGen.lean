import QF.Props.C19Sql
import QF.Props.C09ViewsGen
import QF.Gen.SqlWrite
/-!
# C19 (C15) — the write side of SQL of today's source does what `toSqlS` / `insertText` say (tie T1, by semantics)

`QF.Gen.escapeAst`, `QF.Gen.insertAst`, `QF.Gen.argBuilderClauses` / `argBuilderDefault`, `QF.Gen.columnNamesAst`,
`QF.Gen.toSqlAst` (regenerated on every run by go/cmd/extract/sqlwast.go) are `escape`, `Insert`, `NewArgBuilder` of
internal/io/sql and `QFrame.ColumnNames`, `QFrame.ToSQL` of qframe.go as programs of `QF.SqB`, `QF.SqAB`, `QF.SqCN`, `QF.SqT`
(QF/Core/SqExpr.lean). Their `run` functions are their Go meaning. This file proves, for the terms generated TODAY:

* `gen_sqlwrite_no_opaque`       — the five functions were found and translated completely
* `gen_sqlwrite_canon`           — the terms are the canonical ones (finite check, redone on every run)
* `gen_insert_semantics`         — for EVERY table name, column list, escape rune (0 included) and marker flag the
                                   regenerated `Insert` returns `insertTextGo`: the spec's `insertText` with Go's rune writer
                                   (`(*bytes.Buffer).WriteRune`: U+FFFD for surrogates and values above U+10FFFF)
* `gen_insert_semantics_partial` — … and that is the spec's `insertText` for every escape rune that is a Unicode scalar
                                   value (EXCLUDED: surrogates U+D800..U+DFFF and values above U+10FFFF, where the spec writes
                                   the generalized UTF-8 encoding and Go writes U+FFFD: `insert_spec_differs_on_surrogate`)
* `gen_columnnames_semantics`    — `ColumnNames()` is the list of the columns' names in order
* `gen_argbuilder_semantics`     — `NewArgBuilder` returns, for a column of each of the five types, the builder
                                   `(ix, i) ↦ c.View(ix).ItemAt(i)` of the column's package; for anything else `(nil, error)`
* `gen_tosql_of_views`           — `ToSQL` for ANY views that hand out the stored cell at `ix[i]` (`ItemAtOK`)
* `gen_tosql_semantics`          — with TODAY's views (`C09ViewsGen.gen_view_semantics`), for EVERY stored frame,
                                   configuration and scripted driver (`efail k`: `Exec` number `k` returns an error): a frame
                                   with an error makes no call and returns an error; otherwise the `Exec` calls are exactly the
                                   statements of `toSqlS` (text `insertTextGo`, arguments = the logical cells of the row: the
                                   cells the index selects) in order, cut after the first failing call, and an error is
                                   returned iff a call failed
* `gen_tosql_semantics_partial`  — … with the spec's statement text `insertText`, for escape runes that are Unicode scalar values
* `gen_tosql_fault` (C15)        — a failing `Exec` number `k`: exactly `k + 1` statements reached the driver, error returned
* `gen_tosql_unsupported`        — a column of no known type: the error of `NewArgBuilder` is returned before any `Exec`
-/
namespace QF.Props.C19SqlWriteGen
open QF QF.Props.C19Sql
open QF.Props.C03Compare (pkgOf tys)

/-! ## The canonical programs -/

/-- `if char == 0 { buf.WriteString(s); return }; buf.WriteRune(char); buf.WriteString(s); buf.WriteRune(char)` -/
def canonEscape : SqB :=
  .ifRuneZero .charParam (.writeStr .strParam .ret)
    (.writeRune .charParam (.writeStr .strParam (.writeRune .charParam .done)))

/-- `if i+1 < len(colNames) { buf.WriteString(",") }` -/
def canonSep : SqB := .ifBefore 1 (.writeStr (.lit [44]) .done) .done

def canonNameBody : SqB := .callEscape .name .confEscape canonSep

def canonMarkBody : SqB := .ifIncr (.writeStr (.dollar 1) .done) (.writeStr (.lit [63]) .done) canonSep

def canonInsert : SqB :=
  .newBuf (.writeStr (.lit [73, 78, 83, 69, 82, 84, 32, 73, 78, 84, 79, 32]) (.callEscape .table .confEscape
    (.writeStr (.lit [32, 40]) (.forNames canonNameBody
      (.writeStr (.lit [41, 32, 86, 65, 76, 85, 69, 83, 32, 40]) (.forNames canonMarkBody
        (.writeStr (.lit [41, 59]) .retString)))))))

def canonSetName : SqCN := .setName .done

def canonColumnNames : SqCN := .alloc (.forCols canonSetName .ret)

def canonNewB : SqT := .newBuilder .done

def canonSetArg : SqT := .setArg .done

def canonExec : SqT := .exec .insertOfNames .done

def canonRowBody : SqT := .allocArgs (.forBuilders canonSetArg canonExec)

def canonToSQL : SqT :=
  .guardErr (.allocBuilders (.forCols canonNewB (.forRows canonRowBody .retNil)))

/-! ## Today's terms are the canonical ones (finite checks over `QF.Gen`, redone on every run) -/

theorem gen_sqlwrite_no_opaque :
    Gen.escapeAst.hasOpaque = false ∧ Gen.insertAst.hasOpaque = false ∧
    (∀ p ∈ Gen.argBuilderClauses, p.2.hasOpaque = false) ∧ Gen.argBuilderDefault.hasOpaque = false ∧
    Gen.columnNamesAst.hasOpaque = false ∧ Gen.toSqlAst.hasOpaque = false := by decide

/-- the clauses of the type switch are looked at through `lookup`: their order in the source does not matter -/
theorem gen_sqlwrite_canon :
    Gen.escapeAst = canonEscape ∧ Gen.insertAst = canonInsert ∧
    (∀ ty ∈ tys, Gen.argBuilderClauses.lookup (pkgOf ty) = some (.retBuilder .viewItemAt)) ∧
    (Gen.argBuilderClauses.map (·.1)).Nodup ∧ Gen.argBuilderClauses.length = 5 ∧
    Gen.argBuilderDefault = .retErr ∧
    Gen.columnNamesAst = canonColumnNames ∧ Gen.toSqlAst = canonToSQL := by decide

/-! ## `escape` -/

/-- the runes `WriteRune` writes as themselves: the Unicode scalar values -/
def validRune (r : Nat) : Bool := r < 0xD800 || (0xE000 ≤ r && r < 0x110000)

/-- `escapeIdent` with Go's rune writer: the identifier as it is for the rune 0, else wrapped in what `WriteRune` writes -/
def escapeGo (ch : Nat) (s : Bytes) : Bytes := if ch = 0 then s else goRuneBytes ch ++ s ++ goRuneBytes ch

theorem goRuneBytes_valid (r : Nat) (h : validRune r = true) : goRuneBytes r = Json.encodeRune r := by
  unfold goRuneBytes
  unfold validRune at h
  rw [if_pos h]

theorem escapeGo_eq (cfg : SqlCfg) (h : validRune cfg.escape = true) (s : Bytes) :
    escapeGo cfg.escape s = escapeIdent cfg s := by
  unfold escapeGo escapeIdent
  by_cases h0 : cfg.escape = 0
  · simp [h0]
  · have : (cfg.escape == 0) = false := by simpa using h0
    simp [h0, this, goRuneBytes_valid _ h]

/-- the canonical helper, on every string, rune and buffer -/
theorem canon_escape (s : Bytes) (ch : Nat) (buf : Bytes) :
    canonEscape.asEscape s ch buf = some (buf ++ escapeGo ch s) := by
  by_cases h : ch = 0
  · subst h
    simp [SqB.asEscape, canonEscape, SqB.run, SqRune.eval, SqSrc.eval, escapeGo]
  · simp [SqB.asEscape, canonEscape, SqB.run, SqRune.eval, SqSrc.eval, escapeGo, h]

/-! ## `Insert` -/

/-- the spec's `insertText` with Go's rune writer -/
def insertTextGo (cfg : SqlCfg) (names : List Bytes) : Bytes :=
  strBytes "INSERT INTO " ++ escapeGo cfg.escape cfg.table ++ strBytes " (" ++
  intercalateB [44] (names.map (escapeGo cfg.escape)) ++ strBytes ") VALUES (" ++
  intercalateB [44] (placeholders cfg names.length) ++ strBytes ");"

theorem insertTextGo_eq (cfg : SqlCfg) (h : validRune cfg.escape = true) (names : List Bytes) :
    insertTextGo cfg names = insertText cfg names := by
  rw [insertText_shape]
  unfold insertTextGo
  have : (fun s => escapeGo cfg.escape s) = escapeIdent cfg := by funext s; exact escapeGo_eq cfg h s
  rw [escapeGo_eq cfg h]
  show _ ++ intercalateB [44] (names.map (fun s => escapeGo cfg.escape s)) ++ _ ++ _ ++ _ = _
  rw [this]

/-- what a loop over the names writes per round, from position `i` on -/
def itemsFrom (g : Nat → Bytes → Bytes) : Nat → List Bytes → List Bytes
  | _, [] => []
  | i, n :: ns => g i n :: itemsFrom g (i + 1) ns

theorem itemsFrom_elem (f : Bytes → Bytes) : ∀ (l : List Bytes) (k : Nat), itemsFrom (fun _ n => f n) k l = l.map f := by
  intro l
  induction l with
  | nil => intro k; rfl
  | cons n ns ih => intro k; simp [itemsFrom, ih]

theorem itemsFrom_pos (h : Nat → Bytes) : ∀ (l : List Bytes) (k : Nat),
    itemsFrom (fun i _ => h i) k l = (List.range' k l.length).map h := by
  intro l
  induction l with
  | nil => intro k; rfl
  | cons n ns ih => intro k; simp [itemsFrom, ih, List.range'_succ]

def st (b : Bytes) : SqBSt := { buf := some b, ret := false, out := none }

/-- A loop over the names whose body appends `g i name` and, in front of every further name, a comma: the buffer receives
the items joined by commas. -/
theorem sep_loop (E : SqBEnv) (body : SqB) (g : Nat → Bytes → Bytes)
    (hbody : ∀ i n b, body.run E (some (i, n)) (st b) =
      some (st (b ++ g i n ++ if i + 1 < E.names.length then [44] else []))) :
    ∀ (rest pre : List Bytes) (b : Bytes), E.names = pre ++ rest →
      loopIdx (fun i n σ => body.run E (some (i, n)) σ) (fun σ => σ.ret) pre.length rest (st b) =
        some (st (b ++ intercalateB [44] (itemsFrom g pre.length rest))) := by
  intro rest
  induction rest with
  | nil => intro pre b _; simp [loopIdx, itemsFrom, intercalateB]
  | cons n ns ih =>
    intro pre b hsplit
    rw [loopIdx]
    have hst : (st b).ret = false := rfl
    simp only [hst, Bool.false_eq_true, if_false, hbody, Option.bind_some]
    have hlen : E.names.length = pre.length + 1 + ns.length := by rw [hsplit]; simp; omega
    have := ih (pre ++ [n]) (b ++ g pre.length n ++ if pre.length + 1 < E.names.length then [44] else [])
      (by simp [hsplit])
    simp only [List.length_append, List.length_cons, List.length_nil, Nat.zero_add] at this
    rw [this]
    cases ns with
    | nil =>
      have : ¬ (pre.length + 1 < E.names.length) := by rw [hlen]; simp
      simp [itemsFrom, intercalateB, this]
    | cons m ms =>
      have : pre.length + 1 < E.names.length := by rw [hlen]; simp
      simp [itemsFrom, intercalateB, this]

/-- the environment of `Insert(names, cfg)` with the helper `esc` -/
def insEnv (esc : SqB) (cfg : SqlCfg) (names : List Bytes) : SqBEnv :=
  { cfg := some cfg, names := names, esc := esc.asEscape }

/-- the marker of position `i` -/
def marker (cfg : SqlCfg) (i : Nat) : Bytes := if cfg.incrementing then [36] ++ strBytes (toString (i + 1)) else [63]

theorem marker_eq (cfg : SqlCfg) (i : Nat) :
    marker cfg i = if cfg.incrementing then strBytes ("$" ++ toString (i + 1)) else [63] := by
  have h1 : strBytes "$" = [36] := by decide +kernel
  unfold marker
  rw [strBytes_append, h1]

theorem markers_eq (cfg : SqlCfg) (n : Nat) : (List.range' 0 n).map (marker cfg) = placeholders cfg n := by
  unfold placeholders
  rw [List.range_eq_range']
  apply List.map_congr_left
  intro i _
  exact marker_eq cfg i

/-- **The canonical `Insert`, all inputs**, for any helper that appends `escapeGo`. -/
theorem canon_insert (esc : SqB) (hesc : ∀ s ch b, esc.asEscape s ch b = some (b ++ escapeGo ch s))
    (cfg : SqlCfg) (names : List Bytes) :
    canonInsert.asInsert esc cfg names = some (insertTextGo cfg names) := by
  have hE : canonInsert.asInsert esc cfg names = (canonInsert.run (insEnv esc cfg names) none {}).bind (·.out) := rfl
  have hn : (insEnv esc cfg names).names = names := rfl
  have hbody1 : ∀ i n b, canonNameBody.run (insEnv esc cfg names) (some (i, n)) (st b) =
      some (st (b ++ (fun _ x => escapeGo cfg.escape x) i n ++
        if i + 1 < (insEnv esc cfg names).names.length then [44] else [])) := by
    intro i n b
    by_cases h : i + 1 < names.length <;>
      simp [canonNameBody, canonSep, SqB.run, SqSrc.eval, SqRune.eval, insEnv, st, hesc, h]
  have hbody2 : ∀ i n b, canonMarkBody.run (insEnv esc cfg names) (some (i, n)) (st b) =
      some (st (b ++ (fun j _ => marker cfg j) i n ++
        if i + 1 < (insEnv esc cfg names).names.length then [44] else [])) := by
    intro i n b
    by_cases h : i + 1 < names.length <;> cases hi : cfg.incrementing <;>
      simp [canonMarkBody, canonSep, SqB.run, SqSrc.eval, insEnv, st, marker, h, hi]
  have l1 := fun b => sep_loop (insEnv esc cfg names) canonNameBody _ hbody1 names [] b rfl
  have l2 := fun b => sep_loop (insEnv esc cfg names) canonMarkBody _ hbody2 names [] b rfl
  simp only [List.length_nil, itemsFrom_elem, itemsFrom_pos, markers_eq] at l1 l2
  have t1 : strBytes "INSERT INTO " = [73, 78, 83, 69, 82, 84, 32, 73, 78, 84, 79, 32] := by decide +kernel
  have t2 : strBytes " (" = [32, 40] := by decide +kernel
  have t3 : strBytes ") VALUES (" = [41, 32, 86, 65, 76, 85, 69, 83, 32, 40] := by decide +kernel
  have t4 : strBytes ");" = [41, 59] := by decide +kernel
  rw [hE]
  unfold canonInsert
  simp only [SqB.run, SqSrc.eval, SqRune.eval]
  simp only [insEnv, Option.map_some, hesc]
  have l1' := l1 ([] ++ [73, 78, 83, 69, 82, 84, 32, 73, 78, 84, 79, 32] ++ escapeGo cfg.escape cfg.table ++ [32, 40])
  simp only [insEnv, st] at l1' l2
  rw [l1']
  simp only [Bool.false_eq_true, if_false]
  rw [l2]
  simp [insertTextGo, t1, t2, t3, t4]

/-! ## Today's `escape` and `Insert` -/

/-- `escape(s, char, buf)` of today's source: the buffer afterwards -/
def genEscape (s : Bytes) (ch : Nat) (buf : Bytes) : Option Bytes := Gen.escapeAst.asEscape s ch buf

/-- `Insert(names, cfg)` of today's source -/
def genInsert (cfg : SqlCfg) (names : List Bytes) : Option Bytes := Gen.insertAst.asInsert Gen.escapeAst cfg names

/-- today's helper appends the identifier as it is for the rune 0, else wrapped in the rune -/
theorem gen_escape_semantics (s : Bytes) (ch : Nat) (buf : Bytes) : genEscape s ch buf = some (buf ++ escapeGo ch s) := by
  have canon : Gen.escapeAst = canonEscape := by decide
  rw [genEscape, canon]
  exact canon_escape s ch buf

/-- **Today's `Insert` on ALL inputs**: every table name, every column list (the empty one included), every escape rune
(0: no escaping), both marker styles — `INSERT INTO <table> (<names>) VALUES (<markers>);` with table and names escaped,
names and markers separated by single commas, `?` or `$1 … $n` as markers. -/
theorem gen_insert_semantics (cfg : SqlCfg) (names : List Bytes) : genInsert cfg names = some (insertTextGo cfg names) := by
  have c1 : Gen.escapeAst = canonEscape := by decide
  have c2 : Gen.insertAst = canonInsert := by decide
  rw [genInsert, c1, c2]
  exact canon_insert canonEscape canon_escape cfg names

/-- **Today's `Insert` is the spec's `insertText`** for every table name, column list, marker flag and every escape rune
that is a Unicode scalar value (0 included). EXCLUDED: the surrogates and values above U+10FFFF, where `WriteRune` writes
U+FFFD (`insert_spec_differs_on_surrogate`). -/
theorem gen_insert_semantics_partial (cfg : SqlCfg) (h : validRune cfg.escape = true) (names : List Bytes) :
    genInsert cfg names = some (insertText cfg names) := by
  rw [gen_insert_semantics, insertTextGo_eq cfg h]

/-- FINDING (spec): for the escape rune U+D800 the spec's text wraps the table name `t` in `ED A0 80`, Go's `WriteRune` in
`EF BF BD`. -/
theorem insert_spec_differs_on_surrogate :
    insertTextGo { escape := 0xD800, incrementing := false, table := [116] } [] =
      [73, 78, 83, 69, 82, 84, 32, 73, 78, 84, 79, 32, 0xEF, 0xBF, 0xBD, 116, 0xEF, 0xBF, 0xBD, 32, 40, 41, 32, 86, 65, 76, 85, 69, 83, 32, 40, 41, 59] ∧
    insertText { escape := 0xD800, incrementing := false, table := [116] } [] =
      [73, 78, 83, 69, 82, 84, 32, 73, 78, 84, 79, 32, 0xED, 0xA0, 0x80, 116, 0xED, 0xA0, 0x80, 32, 40, 41, 32, 86, 65, 76, 85, 69, 83, 32, 40, 41, 59] := by
  constructor <;> decide +kernel

/-! ## `ColumnNames` -/

theorem canon_names_loop : ∀ (rest pre : List Bytes) (names : List Bytes), names = pre ++ rest →
    loopIdx (fun i n σ => canonSetName.run names (some (i, n)) σ) (fun σ => σ.ret) pre.length rest
        { res := some (pre ++ List.replicate rest.length []), ret := false } =
      some { res := some (pre ++ rest), ret := false } := by
  intro rest
  induction rest with
  | nil => intro pre names _; simp [loopIdx]
  | cons n ns ih =>
    intro pre names hsplit
    have hset : (pre ++ List.replicate (ns.length + 1) ([] : Bytes)).set pre.length n
        = (pre ++ [n]) ++ List.replicate ns.length [] := by
      simp [List.replicate_succ]
    have hlt : pre.length < (pre ++ List.replicate (ns.length + 1) ([] : Bytes)).length := by simp
    have hstep : canonSetName.run names (some (pre.length, n))
          { res := some (pre ++ List.replicate (ns.length + 1) []), ret := false } =
        some { res := some ((pre ++ [n]) ++ List.replicate ns.length []), ret := false } := by
      simp only [canonSetName, SqCN.run, hlt, if_true, hset]
    rw [loopIdx]
    simp only [Bool.false_eq_true, if_false, List.length_cons, hstep, Option.bind_some]
    have := ih (pre ++ [n]) names (by simp [hsplit])
    simp only [List.length_append, List.length_cons, List.length_nil, Nat.zero_add] at this
    rw [this]
    simp

/-- the canonical `ColumnNames`: the names in order -/
theorem canon_columnnames (names : List Bytes) : canonColumnNames.result names = some names := by
  have := canon_names_loop names [] names rfl
  simp only [List.length_nil, List.nil_append] at this
  simp [SqCN.result, canonColumnNames, SqCN.run, this]

/-- `qf.ColumnNames()` of today's source on a frame whose columns are called `names` -/
def genColumnNames (names : List Bytes) : Option (List Bytes) := Gen.columnNamesAst.result names

/-- **`ColumnNames()` of today's source is the list of the columns' names in order.** -/
theorem gen_columnnames_semantics (names : List Bytes) : genColumnNames names = some names := by
  have canon : Gen.columnNamesAst = canonColumnNames := by decide
  rw [genColumnNames, canon]
  exact canon_columnnames names

/-! ## `NewArgBuilder` -/

/-- `NewArgBuilder(c)` of today's source for a column of type `c.ty`; `itemAt pkg` is the meaning of
`c.View(ix).ItemAt(i)` in the package `pkg` -/
def genBuilder (itemAt : String → VCol → SqBuilder) (c : VCol) : Option (Option SqBuilder) :=
  SqAB.build Gen.argBuilderClauses Gen.argBuilderDefault (itemAt (pkgOf c.ty)) (pkgOf c.ty) c

/-- **`NewArgBuilder` of today's source**: for a column of each of the five types the builder is
`(ix, i) ↦ c.View(ix).ItemAt(i)` of the column's own package and no error; a column of no known type gets `(nil, error)`. -/
theorem gen_argbuilder_semantics (itemAt : String → VCol → SqBuilder) (c : VCol) :
    (c.ty ∈ tys → genBuilder itemAt c = some (some (itemAt (pkgOf c.ty) c))) ∧
    (c.ty = .undef → genBuilder itemAt c = some none) := by
  have canon : ∀ ty ∈ tys, Gen.argBuilderClauses.lookup (pkgOf ty) = some (.retBuilder .viewItemAt) := by decide
  have hd : Gen.argBuilderClauses.lookup (pkgOf .undef) = none ∧ Gen.argBuilderDefault = .retErr := by decide
  constructor
  · intro h
    simp [genBuilder, SqAB.build, canon c.ty h]
  · intro h
    simp [genBuilder, SqAB.build, h, hd.1, hd.2]

/-! ## `ToSQL`: the meaning of the canonical program, once and for all -/

/-- the logical cell `i` of the stored column `c` under the index `ix` -/
def cellAt (c : VCol) (ix : List Nat) (i : Nat) : Cell := (c.logical ix).cells[i]!

/-- the environment does what the spec assumes -/
structure EnvOK (E : SqTEnv) (text : Bytes) (bld : VCol → SqBuilder) : Prop where
  names : E.colNames = some (E.P.cols.map (·.name))
  insert : E.insert E.cfg (E.P.cols.map (·.name)) = some text
  builder : ∀ c ∈ E.P.cols, E.builder c = some (some (bld c))
  item : ∀ c ∈ E.P.cols, ∀ i, i < E.P.index.length → bld c E.P.index i = some (cellAt c E.P.index i)

theorem set_mid {α : Type} (A R : List α) (x y : α) : (A ++ x :: R).set A.length y = A ++ y :: R := by
  simp

/-- the first loop: one builder per column -/
theorem canon_builders (E : SqTEnv) (text : Bytes) (bld : VCol → SqBuilder) (hE : EnvOK E text bld) (c : SqTCtx) :
    ∀ (rest pre : List VCol) (a : Option (List (Option Cell))) (e : List (Bytes × List Cell)), E.P.cols = pre ++ rest →
      loopIdx (fun i col σ => canonNewB.run E { c with col := some (i, col) } σ) (fun σ => σ.ret.isSome)
          pre.length rest
          { builders := some (pre.map (fun c => some (bld c)) ++ List.replicate rest.length none), args := a, execs := e, ret := none } =
        some { builders := some ((pre ++ rest).map (fun c => some (bld c))), args := a, execs := e, ret := none } := by
  intro rest
  induction rest with
  | nil => intro pre a e _; simp [loopIdx]
  | cons x xs ih =>
    intro pre a e hsplit
    have hmem : x ∈ E.P.cols := by rw [hsplit]; simp
    rw [loopIdx]
    have hlt : pre.length < (pre.map (fun c => some (bld c)) ++ List.replicate (xs.length + 1) (none : Option SqBuilder)).length := by
      simp
    have hset : (pre.map (fun c => some (bld c)) ++ List.replicate (xs.length + 1) (none : Option SqBuilder)).set pre.length (some (bld x))
        = (pre ++ [x]).map (fun c => some (bld c)) ++ List.replicate xs.length none := by
      have := set_mid (pre.map (fun c => some (bld c))) (List.replicate xs.length (none : Option SqBuilder)) none (some (bld x))
      simp only [List.length_map] at this
      simp [List.replicate_succ, this]
    have hstep : canonNewB.run E { c with col := some (pre.length, x) }
          { builders := some (pre.map (fun c => some (bld c)) ++ List.replicate (xs.length + 1) none), args := a, execs := e, ret := none } =
        some { builders := some ((pre ++ [x]).map (fun c => some (bld c)) ++ List.replicate xs.length none), args := a, execs := e, ret := none } := by
      simp only [canonNewB, SqT.run, hlt, if_true, hE.builder x hmem, hset]
    simp only [Option.isSome_none, Bool.false_eq_true, if_false, List.length_cons, hstep, Option.bind_some]
    have := ih (pre ++ [x]) a e (by simp [hsplit])
    simp only [List.length_append, List.length_cons, List.length_nil, Nat.zero_add] at this
    rw [this]
    simp

/-- the loop over the builders in one round of the row loop: the arguments are the row's cells -/
theorem canon_args (E : SqTEnv) (text : Bytes) (bld : VCol → SqBuilder) (hE : EnvOK E text bld) (c : SqTCtx) (i : Nat)
    (hrow : c.row = some i) (hi : i < E.P.index.length) (B : Option (List (Option SqBuilder))) :
    ∀ (rest pre : List VCol) (e : List (Bytes × List Cell)), E.P.cols = pre ++ rest →
      loopIdx (fun j b σ => canonSetArg.run E { c with bld := some (j, b) } σ) (fun σ => σ.ret.isSome)
          pre.length (rest.map (fun c => some (bld c)))
          { builders := B, args := some (pre.map (fun c => some (cellAt c E.P.index i)) ++ List.replicate rest.length none),
            execs := e, ret := none } =
        some { builders := B, args := some ((pre ++ rest).map (fun c => some (cellAt c E.P.index i))), execs := e, ret := none } := by
  intro rest
  induction rest with
  | nil => intro pre e _; simp [loopIdx]
  | cons x xs ih =>
    intro pre e hsplit
    have hmem : x ∈ E.P.cols := by rw [hsplit]; simp
    rw [List.map_cons, loopIdx]
    have hlt : pre.length < (pre.map (fun c => some (cellAt c E.P.index i)) ++ List.replicate (xs.length + 1) (none : Option Cell)).length := by
      simp
    have hset : (pre.map (fun c => some (cellAt c E.P.index i)) ++ List.replicate (xs.length + 1) (none : Option Cell)).set pre.length
          (some (cellAt x E.P.index i))
        = (pre ++ [x]).map (fun c => some (cellAt c E.P.index i)) ++ List.replicate xs.length none := by
      have := set_mid (pre.map (fun c => some (cellAt c E.P.index i))) (List.replicate xs.length (none : Option Cell)) none
        (some (cellAt x E.P.index i))
      simp only [List.length_map] at this
      simp [List.replicate_succ, this]
    have hstep : canonSetArg.run E { c with bld := some (pre.length, some (bld x)) }
          { builders := B, args := some (pre.map (fun c => some (cellAt c E.P.index i)) ++ List.replicate (xs.length + 1) none),
            execs := e, ret := none } =
        some { builders := B, args := some ((pre ++ [x]).map (fun c => some (cellAt c E.P.index i)) ++ List.replicate xs.length none),
               execs := e, ret := none } := by
      simp only [canonSetArg, SqT.run, hrow, hlt, if_true, hE.item x hmem i hi, hset]
    simp only [Option.isSome_none, Bool.false_eq_true, if_false, List.length_cons, hstep, Option.bind_some]
    have := ih (pre ++ [x]) e (by simp [hsplit])
    simp only [List.length_append, List.length_cons, List.length_nil, Nat.zero_add] at this
    rw [this]
    simp

theorem optMap_id_some {α β : Type} (f : α → β) : ∀ l : List α, optMap id (l.map (fun a => some (f a))) = some (l.map f) := by
  intro l
  induction l with
  | nil => rfl
  | cons a as ih => simp [optMap, ih]

/-- the statement of row `i`: text and arguments -/
def stmtOf (E : SqTEnv) (text : Bytes) (i : Nat) : Bytes × List Cell :=
  (text, E.P.cols.map (fun c => cellAt c E.P.index i))

/-- one round of the row loop: the arguments are built and handed to `Exec` -/
theorem canon_row (E : SqTEnv) (text : Bytes) (bld : VCol → SqBuilder) (hE : EnvOK E text bld) (i : Nat)
    (hi : i < E.P.index.length) (a : Option (List (Option Cell))) (w : List (Bytes × List Cell)) :
    canonRowBody.run E { row := some i }
        { builders := some (E.P.cols.map (fun c => some (bld c))), args := a, execs := w, ret := none } =
      some { builders := some (E.P.cols.map (fun c => some (bld c))),
             args := some (E.P.cols.map (fun c => some (cellAt c E.P.index i))),
             execs := w ++ [stmtOf E text i], ret := if E.efail w.length then some .execErr else none } := by
  have hargs := canon_args E text bld hE { row := some i } i rfl hi (some (E.P.cols.map (fun c => some (bld c))))
    E.P.cols [] w rfl
  simp only [List.length_nil, List.map_nil, List.nil_append] at hargs
  unfold canonRowBody
  simp only [SqT.run]
  rw [hargs]
  simp only [Option.isSome_none, Bool.false_eq_true, if_false, canonExec, SqT.run, SqStmt.eval, hE.names,
    Option.bind_some, hE.insert, optMap_id_some]
  by_cases hf : E.efail w.length = true
  · simp [hf, stmtOf]
  · simp [hf, stmtOf]

/-- the row loop: one `Exec` per row, until one of them fails -/
theorem canon_rows (E : SqTEnv) (text : Bytes) (bld : VCol → SqBuilder) (hE : EnvOK E text bld) :
    ∀ (rs : List Nat) (j : Nat) (a : Option (List (Option Cell))) (w : List (Bytes × List Cell)),
      (∀ i ∈ rs, i < E.P.index.length) →
      ∃ a', loopIdx (fun _ i σ => canonRowBody.run E { row := some i } σ) (fun σ => σ.ret.isSome) j rs
          { builders := some (E.P.cols.map (fun c => some (bld c))), args := a, execs := w, ret := none } =
        some { builders := some (E.P.cols.map (fun c => some (bld c))), args := a',
               execs := w ++ (cutWrites E.efail w.length (rs.map (stmtOf E text))).1,
               ret := if (cutWrites E.efail w.length (rs.map (stmtOf E text))).2 then some .execErr else none } := by
  intro rs
  induction rs with
  | nil => intro j a w _; exact ⟨a, by simp [loopIdx, cutWrites]⟩
  | cons i rs ih =>
    intro j a w hlt
    rw [loopIdx]
    simp only [Option.isSome_none, Bool.false_eq_true, if_false]
    rw [canon_row E text bld hE i (hlt i (by simp))]
    simp only [Option.bind_some, List.map_cons, cutWrites]
    by_cases hf : E.efail w.length = true
    · simp only [hf, if_true]
      refine ⟨some (E.P.cols.map (fun c => some (cellAt c E.P.index i))), ?_⟩
      cases rs with
      | nil => rfl
      | cons i' rs' => simp [loopIdx]
    · simp only [hf, Bool.false_eq_true, if_false]
      obtain ⟨a', h1⟩ := ih (j + 1) (some (E.P.cols.map (fun c => some (cellAt c E.P.index i)))) (w ++ [stmtOf E text i])
        (fun x hx => hlt x (by simp [hx]))
      refine ⟨a', ?_⟩
      rw [h1]
      simp

/-- what `ToSQL` is to do: nothing but an error for a frame that carries one; else the statements in order, cut after the
first failing `Exec`, and an error iff one failed -/
def expected (hasErr : Bool) (efail : Nat → Bool) (stmts : List (Bytes × List Cell)) : List (Bytes × List Cell) × SqRet :=
  if hasErr then ([], .frameErr)
  else ((cutWrites efail 0 stmts).1, if (cutWrites efail 0 stmts).2 then .execErr else .nil)

/-- **The canonical program, all frames, all drivers.** -/
theorem canon_output (E : SqTEnv) (text : Bytes) (bld : VCol → SqBuilder) (hE : EnvOK E text bld) :
    canonToSQL.output E =
      some (expected E.hasErr E.efail ((List.range E.P.index.length).map (stmtOf E text))) := by
  unfold SqT.output canonToSQL expected
  by_cases herr : E.hasErr = true
  · simp [SqT.run, herr]
  · have hb := canon_builders E text bld hE {} E.P.cols [] none [] rfl
    simp only [List.length_nil, List.map_nil, List.nil_append] at hb
    simp only [SqT.run, herr, Bool.false_eq_true, if_false]
    rw [hb]
    simp only [Option.isSome_none, Bool.false_eq_true, if_false]
    obtain ⟨a', h1⟩ := canon_rows E text bld hE (List.range E.P.index.length) 0 none [] (fun i hi => List.mem_range.1 hi)
    rw [h1]
    simp only [List.length_nil, List.nil_append]
    by_cases hc : (cutWrites E.efail 0 ((List.range E.P.index.length).map (stmtOf E text))).2 = true
    · simp [hc]
    · simp [hc]

/-! ## Today's `ToSQL` -/

/-- the environment of today's source: `ColumnNames`, `Insert` (with its helper) and `NewArgBuilder` are the regenerated
ones; `itemAt pkg` is the meaning of `c.View(ix).ItemAt(i)` in the package `pkg` -/
def genEnv (itemAt : String → VCol → SqBuilder) (P : VFrame) (hasErr : Bool) (cfg : SqlCfg) (efail : Nat → Bool) : SqTEnv where
  P := P
  hasErr := hasErr
  cfg := cfg
  colNames := genColumnNames (P.cols.map (·.name))
  insert := genInsert
  builder := genBuilder itemAt
  efail := efail

/-- what a caller of today's `ToSQL` and the driver see: the `Exec` calls (text, arguments) and how the call returned -/
def genToSQL (itemAt : String → VCol → SqBuilder) (P : VFrame) (hasErr : Bool) (cfg : SqlCfg) (efail : Nat → Bool) :
    Option (List (Bytes × List Cell) × SqRet) :=
  Gen.toSqlAst.output (genEnv itemAt P hasErr cfg efail)

/-- the views hand out the stored cell at `ix[i]` (C09ViewsGen: `gen_view_semantics` proves it of today's views) -/
def ItemAtOK (itemAt : String → VCol → SqBuilder) (P : VFrame) : Prop :=
  ∀ c ∈ P.cols, ∀ i, i < P.index.length → itemAt (pkgOf c.ty) c P.index i = some (cellAt c P.index i)

theorem logical_names (P : VFrame) : P.logical.names = P.cols.map (·.name) := by
  simp [VFrame.logical, LFrame.names, VCol.logical, Function.comp_def]

theorem logical_row (P : VFrame) (i : Nat) : P.logical.row i = P.cols.map (fun c => cellAt c P.index i) := by
  simp [VFrame.logical, LFrame.row, cellAt, Function.comp_def]

/-- the statements of the spec with the statement text of `insertTextGo` -/
def toSqlGo (cfg : SqlCfg) (f : LFrame) : List (Bytes × List Cell) :=
  (List.range f.n).map (fun r => (insertTextGo cfg f.names, f.row r))

theorem toSqlGo_eq (cfg : SqlCfg) (h : validRune cfg.escape = true) (f : LFrame) : toSqlGo cfg f = toSqlS cfg f := by
  unfold toSqlGo toSqlS
  rw [insertTextGo_eq cfg h]

/-- **Today's `ToSQL`** on EVERY stored frame whose columns are of the five types, for every configuration and every scripted
driver (`efail k`: `Exec` number `k` returns an error), given views that hand out the stored cell at `ix[i]`:

* a frame that carries an error: no `Exec`, an error is returned;
* otherwise one `Exec` per row of the index, in order: the text is `Insert(names, cfg)` (`insertTextGo`), the arguments are
  the LOGICAL cells of the row — `data[index[i]]` of every column in column order: bool / int / float by value, string / enum
  as `*string` with nil for null (`Cell.str`) — exactly `toSqlS` of the logical frame;
* the first failing `Exec` ends the call: the calls up to and including it were made, and an error is returned; without a
  failing call nil is returned. -/
theorem gen_tosql_of_views (itemAt : String → VCol → SqBuilder) (P : VFrame) (hty : ∀ c ∈ P.cols, c.ty ∈ tys)
    (hitem : ItemAtOK itemAt P) (hasErr : Bool) (cfg : SqlCfg) (efail : Nat → Bool) :
    genToSQL itemAt P hasErr cfg efail = some (expected hasErr efail (toSqlGo cfg P.logical)) := by
  have canon : Gen.toSqlAst = canonToSQL := by decide
  have hE : EnvOK (genEnv itemAt P hasErr cfg efail) (insertTextGo cfg (P.cols.map (·.name)))
      (fun c => itemAt (pkgOf c.ty) c) := by
    refine ⟨gen_columnnames_semantics _, gen_insert_semantics _ _, ?_, ?_⟩
    · intro c hc
      exact (gen_argbuilder_semantics itemAt c).1 (hty c hc)
    · intro c hc i hi
      exact hitem c hc i hi
  rw [genToSQL, canon, canon_output _ _ _ hE]
  have hs : (List.range (genEnv itemAt P hasErr cfg efail).P.index.length).map
        (stmtOf (genEnv itemAt P hasErr cfg efail) (insertTextGo cfg (P.cols.map (·.name)))) = toSqlGo cfg P.logical := by
    unfold toSqlGo stmtOf
    rw [logical_names]
    show (List.range P.index.length).map _ = (List.range P.index.length).map _
    apply List.map_congr_left
    intro i _
    rw [logical_row]
    rfl
  rw [hs]
  rfl

/-! ## Today's `ToSQL` with today's views -/

/-- `c.View(ix).ItemAt(i)` of today's source in the package `pkg` (C09ViewsGen) -/
def viewItemAt : String → VCol → SqBuilder :=
  fun pkg c ix i => C09ViewsGen.itemAtIn C09ViewsGen.genVwEnv (C09ViewsGen.genFns pkg) c ix i

/-- every column of the stored frame has cells of its type (one of the five), and the index stays inside the columns -/
def FrameOK (P : VFrame) : Prop := ∀ c ∈ P.cols, C09ViewsGen.ColOK c P.index

/-- today's views hand the builders the logical cells (`C09ViewsGen.gen_view_semantics`) -/
theorem viewItemAt_ok (P : VFrame) (h : FrameOK P) : ItemAtOK viewItemAt P := by
  intro c hc i hi
  have h1 := (C09ViewsGen.gen_view_semantics c P.index (h c hc)).1 i
  have hl : i < (c.pick P.index).length := by simpa [VCol.pick] using hi
  show C09ViewsGen.genItemAt c P.index i = _
  rw [h1, List.getElem?_eq_getElem hl]
  simp [cellAt, VCol.logical, hl]

/-- what a caller of today's `ToSQL` and the driver see, everything regenerated: `ToSQL`, `ColumnNames`, `Insert`, `escape`,
`NewArgBuilder`, and the views `View` / `ItemAt` with their helpers -/
def genToSQLToday (P : VFrame) (hasErr : Bool) (cfg : SqlCfg) (efail : Nat → Bool) :
    Option (List (Bytes × List Cell) × SqRet) :=
  genToSQL viewItemAt P hasErr cfg efail

/-- **Today's `ToSQL`, everything regenerated**, on EVERY stored frame (columns of the five types, cells of their column's
type, any index into the columns), every configuration and every scripted driver (`efail k`: `Exec` number `k` returns an
error):

* a frame that carries an error: no `Exec`, an error is returned;
* otherwise exactly the statements of `toSqlS` of the logical frame, in order — one `Exec` per row of the index; the text
  is `INSERT INTO <table> (<names>) VALUES (<markers>);` (`insertTextGo`: the spec's `insertText` with Go's rune writer); the
  arguments are the cells `data[index[i]]` of every column in column order: bool / int / float by value, string / enum as
  `*string` with nil for null (`Cell.str`);
* the first failing `Exec` ends the call: the calls up to and including it were made, and an error is returned; without a
  failing call nil is returned. -/
theorem gen_tosql_semantics (P : VFrame) (h : FrameOK P) (hasErr : Bool) (cfg : SqlCfg) (efail : Nat → Bool) :
    genToSQLToday P hasErr cfg efail = some (expected hasErr efail (toSqlGo cfg P.logical)) := by
  -- today's terms, checked here again so that a changed source is reported at this statement
  have _canon : Gen.toSqlAst = canonToSQL ∧ Gen.insertAst = canonInsert ∧ Gen.escapeAst = canonEscape ∧
      Gen.columnNamesAst = canonColumnNames ∧ Gen.argBuilderDefault = .retErr ∧
      (∀ ty ∈ tys, Gen.argBuilderClauses.lookup (pkgOf ty) = some (.retBuilder .viewItemAt)) := by decide
  have _views : C09ViewsGen.GenCanon := by unfold C09ViewsGen.GenCanon; decide
  exact gen_tosql_of_views viewItemAt P (fun c hc => (h c hc).ty) (viewItemAt_ok P h) hasErr cfg efail

/-- **Today's `ToSQL` against the spec's `toSqlS`**, for escape runes that are Unicode scalar values (0 included).
EXCLUDED: surrogates and values above U+10FFFF (`insert_spec_differs_on_surrogate`). -/
theorem gen_tosql_semantics_partial (P : VFrame) (h : FrameOK P) (hasErr : Bool) (cfg : SqlCfg)
    (hr : validRune cfg.escape = true) (efail : Nat → Bool) :
    genToSQLToday P hasErr cfg efail = some (expected hasErr efail (toSqlS cfg P.logical)) := by
  rw [gen_tosql_semantics P h, toSqlGo_eq cfg hr]

/-- with a driver that does not fail: exactly the statements of the spec, nil returned -/
theorem gen_tosql_all (P : VFrame) (h : FrameOK P) (cfg : SqlCfg) (hr : validRune cfg.escape = true) :
    genToSQLToday P false cfg (fun _ => false) = some (toSqlS cfg P.logical, .nil) := by
  rw [gen_tosql_semantics_partial P h false cfg hr]
  simp [expected, cutWrites_nofail _ (fun _ => rfl)]

/-- **The failing statement rule (C15).** `Exec` number `k` failing (of the `n` of a frame with `n` rows) ends `ToSQL` at
once: exactly the first `k + 1` statements were handed to the driver, and an error is returned. -/
theorem gen_tosql_fault (P : VFrame) (h : FrameOK P) (cfg : SqlCfg) (k : Nat) (hk : k < P.index.length) :
    genToSQLToday P false cfg (fun j => j == k) = some ((toSqlGo cfg P.logical).take (k + 1), .execErr) := by
  have _canon : Gen.toSqlAst = canonToSQL := by decide
  rw [gen_tosql_semantics P h]
  have h : ∀ (l : List (Bytes × List Cell)) (s k : Nat), s ≤ k → k < s + l.length →
      cutWrites (fun j => j == k) s l = (l.take (k - s + 1), true) := by
    intro l
    induction l with
    | nil => intro s k h1 h2; simp at h2; omega
    | cons b bs ih =>
      intro s k h1 h2
      by_cases hs : s = k
      · subst hs; simp [cutWrites]
      · have hb : (s == k) = false := by simpa using hs
        have e : k - s + 1 = (k - (s + 1) + 1) + 1 := by omega
        simp only [cutWrites, hb, Bool.false_eq_true, if_false]
        rw [ih (s + 1) k (by omega) (by simp at h2; omega), e]
        simp
  have hl : (toSqlGo cfg P.logical).length = P.index.length := by simp [toSqlGo, VFrame.logical]
  have := h (toSqlGo cfg P.logical) 0 k (Nat.zero_le _) (by rw [hl]; omega)
  simp [expected, this]

/-- a frame that carries an error: `ToSQL` returns an error and the driver sees nothing -/
theorem gen_tosql_frame_error (P : VFrame) (h : FrameOK P) (cfg : SqlCfg) (efail : Nat → Bool) :
    genToSQLToday P true cfg efail = some ([], .frameErr) := by
  rw [gen_tosql_semantics P h]; rfl

/-- A column of no known type: `NewArgBuilder` returns an error, and `ToSQL` returns it without any `Exec`. -/
theorem gen_tosql_unsupported (itemAt : String → VCol → SqBuilder) (c : VCol) (hc : c.ty = .undef) (ix : List Nat)
    (cfg : SqlCfg) (efail : Nat → Bool) :
    genToSQL itemAt { cols := [c], index := ix } false cfg efail = some ([], .builderErr) := by
  have canon : Gen.toSqlAst = canonToSQL := by decide
  have hb := (gen_argbuilder_semantics itemAt c).2 hc
  rw [genToSQL, canon]
  simp [SqT.output, canonToSQL, canonNewB, SqT.run, genEnv, loopIdx, hb]

/-! ## Witnesses: the statements tell wrong programs apart -/

def wCfg : SqlCfg := { escape := 34, incrementing := true, table := [116] }

/-- today's `Insert` on table `t`, columns `a`, `b`, escape `"`, incrementing: `INSERT INTO "t" ("a","b") VALUES ($1,$2);` -/
example : canonInsert.asInsert canonEscape wCfg [[97], [98]] =
    some [73, 78, 83, 69, 82, 84, 32, 73, 78, 84, 79, 32, 34, 116, 34, 32, 40, 34, 97, 34, 44, 34, 98, 34, 41, 32, 86, 65, 76, 85, 69,
      83, 32, 40, 36, 49, 44, 36, 50, 41, 59] := by decide +kernel

/-- the separator test `i < len(colNames)` instead of `i+1 < len(colNames)` … -/
def sepAlways : SqB := .ifBefore 0 (.writeStr (.lit [44]) .done) .done

def insertSepAlways : SqB :=
  .newBuf (.writeStr (.lit [73, 78, 83, 69, 82, 84, 32, 73, 78, 84, 79, 32]) (.callEscape .table .confEscape
    (.writeStr (.lit [32, 40]) (.forNames (.callEscape .name .confEscape sepAlways)
      (.writeStr (.lit [41, 32, 86, 65, 76, 85, 69, 83, 32, 40]) (.forNames (.ifIncr (.writeStr (.dollar 1) .done) (.writeStr (.lit [63]) .done) sepAlways)
        (.writeStr (.lit [41, 59]) .retString)))))))

/-- … leaves a comma after the last name and the last marker: `INSERT INTO t (a,) VALUES (?,);` is not `insertText`. -/
example : insertSepAlways.asInsert canonEscape { escape := 0, incrementing := false, table := [116] } [[97]] =
      some [73, 78, 83, 69, 82, 84, 32, 73, 78, 84, 79, 32, 116, 32, 40, 97, 44, 41, 32, 86, 65, 76, 85, 69, 83, 32, 40, 63, 44, 41, 59] ∧
    insertText { escape := 0, incrementing := false, table := [116] } [[97]] =
      [73, 78, 83, 69, 82, 84, 32, 73, 78, 84, 79, 32, 116, 32, 40, 97, 41, 32, 86, 65, 76, 85, 69, 83, 32, 40, 63, 41, 59] := by
  constructor <;> decide +kernel

/-- `$%d` with `i` instead of `i+1` numbers the markers from 0: `VALUES ($0)`. -/
def insertDollarZero : SqB :=
  .newBuf (.writeStr (.lit [73, 78, 83, 69, 82, 84, 32, 73, 78, 84, 79, 32]) (.callEscape .table .confEscape
    (.writeStr (.lit [32, 40]) (.forNames canonNameBody
      (.writeStr (.lit [41, 32, 86, 65, 76, 85, 69, 83, 32, 40]) (.forNames (.ifIncr (.writeStr (.dollar 0) .done) (.writeStr (.lit [63]) .done) canonSep)
        (.writeStr (.lit [41, 59]) .retString)))))))

example : insertDollarZero.asInsert canonEscape { escape := 0, incrementing := true, table := [116] } [[97]] =
      some [73, 78, 83, 69, 82, 84, 32, 73, 78, 84, 79, 32, 116, 32, 40, 97, 41, 32, 86, 65, 76, 85, 69, 83, 32, 40, 36, 48, 41, 59] ∧
    insertText { escape := 0, incrementing := true, table := [116] } [[97]] =
      [73, 78, 83, 69, 82, 84, 32, 73, 78, 84, 79, 32, 116, 32, 40, 97, 41, 32, 86, 65, 76, 85, 69, 83, 32, 40, 36, 49, 41, 59] := by
  constructor <;> decide +kernel

/-- the escape applied to the table but not to the columns: `INSERT INTO "t" (a) …`. -/
def insertRawNames : SqB :=
  .newBuf (.writeStr (.lit [73, 78, 83, 69, 82, 84, 32, 73, 78, 84, 79, 32]) (.callEscape .table .confEscape
    (.writeStr (.lit [32, 40]) (.forNames (.writeStr .name canonSep)
      (.writeStr (.lit [41, 32, 86, 65, 76, 85, 69, 83, 32, 40]) (.forNames canonMarkBody
        (.writeStr (.lit [41, 59]) .retString)))))))

example : insertRawNames.asInsert canonEscape { escape := 34, incrementing := false, table := [116] } [[97]] =
      some [73, 78, 83, 69, 82, 84, 32, 73, 78, 84, 79, 32, 34, 116, 34, 32, 40, 97, 41, 32, 86, 65, 76, 85, 69, 83, 32, 40, 63, 41, 59] ∧
    insertText { escape := 34, incrementing := false, table := [116] } [[97]] =
      [73, 78, 83, 69, 82, 84, 32, 73, 78, 84, 79, 32, 34, 116, 34, 32, 40, 34, 97, 34, 41, 32, 86, 65, 76, 85, 69, 83, 32, 40, 63, 41, 59] := by
  constructor <;> decide +kernel

/-- the frame of the witnesses: three physical rows, the index picks rows 2 and 0 -/
def wFrame : VFrame :=
  { cols := [{ name := [97], ty := .int, data := #[.int 10, .int 11, .int 12] },
             { name := [98], ty := .string, data := #[.str (some [120]), .str none, .str none] }],
    index := [2, 0] }

/-- the view of the witnesses: the stored cell at `ix[i]` -/
def wItemAt : VCol → SqBuilder := fun c ix i => (ix[i]?).bind (fun j => c.data[j]?)

def wEnv (itemAt : VCol → SqBuilder) (efail : Nat → Bool) : SqTEnv :=
  { P := wFrame, hasErr := false, cfg := { escape := 0, incrementing := false, table := [116] },
    colNames := some [[97], [98]], insert := fun _ _ => some [83], builder := fun c => some (some (itemAt c)), efail := efail }

/-- the canonical program on the witness frame: rows 2 and 0, a null string as nil; with a failing first `Exec` only that
call is made -/
example : canonToSQL.output (wEnv wItemAt (fun _ => false)) =
      some ([([83], [.int 12, .str none]), ([83], [.int 10, .str (some [120])])], .nil) ∧
    canonToSQL.output (wEnv wItemAt (fun k => k == 0)) = some ([([83], [.int 12, .str none])], .execErr) := by
  constructor <;> decide +kernel

/-- `ToSQL` going on after a failed `Exec` (the error is not looked at): all statements reach the driver and nil is
returned, where today's code makes one call and returns the error. -/
def toSqlIgnoreErr : SqT :=
  .guardErr (.allocBuilders (.forCols canonNewB
    (.forRows (.allocArgs (.forBuilders canonSetArg (.execIgnore .insertOfNames .done))) .retNil)))

example : toSqlIgnoreErr.output (wEnv wItemAt (fun k => k == 0)) =
      some ([([83], [.int 12, .str none]), ([83], [.int 10, .str (some [120])])], .nil) ∧
    canonToSQL.output (wEnv wItemAt (fun k => k == 0)) = some ([([83], [.int 12, .str none])], .execErr) := by
  constructor <;> decide +kernel

/-- a view that reads `data[i]` instead of `data[index[i]]` hands rows 0 and 1 to the driver instead of rows 2 and 0 -/
def wItemAtRaw : VCol → SqBuilder := fun c ix i => if i < ix.length then c.data[i]? else none

example : canonToSQL.output (wEnv wItemAtRaw (fun _ => false)) =
      some ([([83], [.int 10, .str (some [120])]), ([83], [.int 11, .str none])], .nil) ∧
    toSqlS { escape := 0, incrementing := false, table := [116] } wFrame.logical =
      [(insertText { escape := 0, incrementing := false, table := [116] } [[97], [98]], [.int 12, .str none]),
       (insertText { escape := 0, incrementing := false, table := [116] } [[97], [98]], [.int 10, .str (some [120])])] := by
  constructor <;> decide +kernel

#print axioms gen_sqlwrite_no_opaque
#print axioms gen_sqlwrite_canon
#print axioms gen_escape_semantics
#print axioms gen_insert_semantics
#print axioms gen_insert_semantics_partial
#print axioms insert_spec_differs_on_surrogate
#print axioms gen_columnnames_semantics
#print axioms gen_argbuilder_semantics
#print axioms canon_output
#print axioms gen_tosql_of_views
#print axioms gen_tosql_semantics_partial
#print axioms gen_tosql_all
#print axioms gen_tosql_fault
#print axioms gen_tosql_unsupported
#print axioms gen_tosql_semantics
#print axioms gen_tosql_frame_error
#print axioms viewItemAt_ok

end QF.Props.C19SqlWriteGen
