import QF.Spec.Filter
import QF.Spec.Ops
/-!
# C10 — error discipline, on the specification

The replay driver relies on these facts about the spec functions of Ops.lean:

* `applyS` stops at the first failing instruction: `applyS_err_iff`, `firstFailing_le`,
  `applyS_stops_at_first_failing`, `applyS_append_err`;
* `filteredApplyS` errs when the clause is ill-formed: `filteredApplyS_err_iff`;
* `sliceS` / `selectS` / `dropS` / `copyS` reject exactly the invalid requests:
  `sliceS_err_iff`, `selectS_err_iff`, `dropS_err_iff`, `copyS_err_iff`;
* Sort / Distinct have no acceptable result exactly when a named column is unknown: `sortKeys_none_iff`,
  `isSortedResult_unknown`, `distinctKeys_none_iff`, `isDistinctResult_unknown`;
* `groupAggS` rejects unknown grouping columns, unknown aggregation columns, and — later — taken result names and
  functions not defined for the column type: `groupAggS_err_iff`;
* `applyInstr` reads an instruction by its number of source columns and rejects unknown ones: `instrArity`,
  `applyInstr_no_src1`, `applyInstr_unknown_src1`, `applyInstr_unknown_src2`;
* `equalsS` is false when the row counts or the column names differ: `equalsS_shape`.
-/
namespace QF.Props.C10Sticky
open QF

theorem res_ok_ne_err (f : LFrame) : Res.ok f ≠ Res.err := by intro h; cases h

/-! ## `applyS` -/

theorem firstFailing_le (up : UpperOracle) (f : LFrame) (m : Nat → Bool) (is : List Instr) :
    firstFailing up f m is ≤ is.length := by
  induction is generalizing f with
  | nil => simp [firstFailing]
  | cons i t ih =>
    unfold firstFailing
    cases h : applyInstr up f m i with
    | ok f' => have := ih f'; simp only [List.length_cons]; omega
    | err => simp

/-- `applyS` fails exactly when some instruction fails (on the frame built by its predecessors). -/
theorem applyS_err_iff (up : UpperOracle) (f : LFrame) (m : Nat → Bool) (is : List Instr) :
    applyS up f m false is = .err ↔ firstFailing up f m is < is.length := by
  induction is generalizing f with
  | nil => simp [applyS, firstFailing]
  | cons i t ih =>
    unfold applyS firstFailing
    cases h : applyInstr up f m i with
    | ok f' =>
      simp only [List.length_cons]
      rw [ih f']; omega
    | err => simp

theorem applyS_ok_iff (up : UpperOracle) (f : LFrame) (m : Nat → Bool) (is : List Instr) :
    (∃ g, applyS up f m false is = .ok g) ↔ firstFailing up f m is = is.length := by
  have h1 := applyS_err_iff up f m is
  have h2 := firstFailing_le up f m is
  constructor
  · rintro ⟨g, hg⟩
    have : ¬ firstFailing up f m is < is.length := by
      intro h; rw [← h1, hg] at h; cases h
    omega
  · intro h
    cases hg : applyS up f m false is with
    | ok g => exact ⟨g, rfl⟩
    | err => have := h1.1 hg; omega

/-- The instructions before the first failing one are all applied, and the next one fails on the frame
they built: the error is raised by that instruction and nothing after it is looked at. -/
theorem applyS_stops_at_first_failing (up : UpperOracle) (f : LFrame) (m : Nat → Bool) (is : List Instr) :
    ∃ g, applyS up f m false (is.take (firstFailing up f m is)) = .ok g ∧
      ∀ i, is[firstFailing up f m is]? = some i → applyInstr up g m i = .err := by
  induction is generalizing f with
  | nil => exact ⟨f, rfl, fun i h => by simp at h⟩
  | cons i t ih =>
    cases h : applyInstr up f m i with
    | ok f' =>
      have e : firstFailing up f m (i :: t) = firstFailing up f' m t + 1 := by
        conv => lhs; unfold firstFailing
        rw [h]; simp only []; omega
      obtain ⟨g, hg, hfail⟩ := ih f'
      refine ⟨g, ?_, ?_⟩
      · rw [e, List.take_succ_cons]
        unfold applyS
        rw [h]; exact hg
      · intro j hj
        rw [e, List.getElem?_cons_succ] at hj
        exact hfail j hj
    | err =>
      have e : firstFailing up f m (i :: t) = 0 := by
        conv => lhs; unfold firstFailing
        rw [h]
      refine ⟨f, by rw [e]; rfl, ?_⟩
      intro j hj
      rw [e] at hj
      simp only [List.getElem?_cons_zero, Option.some.injEq] at hj
      subst hj; exact h

/-- What comes after a failing list is irrelevant (the error is sticky). -/
theorem applyS_append_err (up : UpperOracle) (f : LFrame) (m : Nat → Bool) (fillAll : Bool)
    (is js : List Instr) (h : applyS up f m fillAll is = .err) :
    applyS up f m fillAll (is ++ js) = .err := by
  induction is generalizing f with
  | nil => cases h
  | cons i t ih =>
    unfold applyS at h
    rw [List.cons_append]
    unfold applyS
    cases hi : applyInstr up f m i fillAll with
    | ok f' => rw [hi] at h; exact ih f' h
    | err => rfl

theorem applyS_append_ok (up : UpperOracle) (f g : LFrame) (m : Nat → Bool) (fillAll : Bool)
    (is js : List Instr) (h : applyS up f m fillAll is = .ok g) :
    applyS up f m fillAll (is ++ js) = applyS up g m fillAll js := by
  induction is generalizing f with
  | nil => cases h; rfl
  | cons i t ih =>
    unfold applyS at h
    rw [List.cons_append]
    conv => lhs; unfold applyS
    cases hi : applyInstr up f m i fillAll with
    | ok f' => rw [hi] at h; exact ih f' h
    | err => rw [hi] at h; cases h

/-! ## `filteredApplyS` -/

theorem filteredApplyS_err_iff (lo : LikeOracle) (up : UpperOracle) (f : LFrame) (c : Clause)
    (is : List Instr) (fillAll : Bool) :
    filteredApplyS lo up f c is fillAll = .err ↔
      c.wellFormed lo f = false ∨ applyS up f (c.sem lo f) fillAll is = .err := by
  unfold filteredApplyS
  cases h : c.wellFormed lo f <;> simp

theorem filteredApplyS_illformed (lo : LikeOracle) (up : UpperOracle) (f : LFrame) (c : Clause)
    (is : List Instr) (fillAll : Bool) (h : c.wellFormed lo f = false) :
    filteredApplyS lo up f c is fillAll = .err :=
  (filteredApplyS_err_iff lo up f c is fillAll).2 (.inl h)

/-- With the default fill mode: ill-formed clause, or some instruction fails on the frame built so far. -/
theorem filteredApplyS_err_iff' (lo : LikeOracle) (up : UpperOracle) (f : LFrame) (c : Clause)
    (is : List Instr) :
    filteredApplyS lo up f c is = .err ↔
      c.wellFormed lo f = false ∨ firstFailing up f (c.sem lo f) is < is.length := by
  rw [filteredApplyS_err_iff, applyS_err_iff]

/-! ## projections -/

theorem sliceS_err_iff (f : LFrame) (a b : Int) :
    sliceS f a b = .err ↔ a < 0 ∨ a > b ∨ b > f.n := by
  unfold sliceS
  split
  · next h => simp only [true_iff]; simpa [or_assoc] using h
  · next h =>
    constructor
    · intro e; cases e
    · intro h'; exact absurd (by simpa [or_assoc] using h') h

theorem not_all_has_iff (f : LFrame) (names : List Bytes) :
    names.all f.has = false ↔ ∃ n ∈ names, f.has n = false := by
  simp

theorem selectS_err_iff (f : LFrame) (names : List Bytes) :
    selectS f names = .err ↔ ∃ n ∈ names, f.has n = false := by
  rw [← not_all_has_iff]
  unfold selectS
  cases h : names.all f.has
  · simp
  · simp only [if_true]
    split <;> simp

theorem dropS_err_iff (f : LFrame) (names : List Bytes) :
    dropS f names = .err ↔ ∃ n ∈ names, f.has n = false := by
  rw [← not_all_has_iff]
  unfold dropS
  cases names with
  | nil => simp
  | cons n t =>
    simp only [List.isEmpty_cons, Bool.false_eq_true, if_false]
    cases h : (n :: t).all f.has
    · simp
    · simp only [Bool.not_true, Bool.false_eq_true, if_false]
      split <;> simp

theorem copyS_err_iff (f : LFrame) (dst src : Bytes) :
    copyS f dst src = .err ↔ f.has src = false ∨ (dst ≠ src ∧ legalName dst = false) := by
  unfold copyS LFrame.has
  cases h : f.find? src with
  | none => simp
  | some c =>
    simp only [Option.isSome_some, Bool.true_eq_false, false_or]
    by_cases hd : dst = src
    · simp [hd]
    · have : (dst == src) = false := beq_false_of_ne hd
      simp only [this, Bool.false_eq_true, if_false]
      cases hl : legalName dst <;> simp [hd]

/-! ## Sort, Distinct, GroupBy / Aggregate, Equals, Apply: which requests the spec rejects -/

theorem mapM_option_none_iff {α β : Type} (g : α → Option β) (l : List α) :
    l.mapM g = none ↔ ∃ x ∈ l, g x = none := by
  induction l with
  | nil => simp
  | cons x xs ih =>
    rw [List.mapM_cons]
    cases hx : g x with
    | none => simp [hx]
    | some y =>
      cases hxs : xs.mapM g with
      | none =>
        have := ih.1 hxs
        simp [hx, this]
      | some ys =>
        have h2 : ¬ ∃ x ∈ xs, g x = none := fun h => by rw [ih.2 h] at hxs; cases hxs
        simp [hx]
        intro a ha
        exact fun h => h2 ⟨a, ha, h⟩

theorem find?_none_iff (f : LFrame) (n : Bytes) : f.find? n = none ↔ f.has n = false := by
  unfold LFrame.has
  cases f.find? n <;> simp

theorem mapM_find_none_iff (f : LFrame) (names : List Bytes) :
    names.mapM f.find? = none ↔ ∃ n ∈ names, f.has n = false := by
  rw [mapM_option_none_iff]
  constructor
  · rintro ⟨n, hn, h⟩; exact ⟨n, hn, (find?_none_iff f n).1 h⟩
  · rintro ⟨n, hn, h⟩; exact ⟨n, hn, (find?_none_iff f n).2 h⟩

/-- **Sort** has keys to sort by iff every order names a column of the frame. -/
theorem sortKeys_none_iff (f : LFrame) (os : List Order) :
    sortKeys f os = none ↔ ∃ o ∈ os, f.has o.col = false := by
  unfold sortKeys
  rw [mapM_option_none_iff]
  constructor
  · rintro ⟨o, ho, h⟩
    refine ⟨o, ho, (find?_none_iff f o.col).1 ?_⟩
    cases hf : f.find? o.col with
    | none => rfl
    | some c => simp [hf] at h
  · rintro ⟨o, ho, h⟩
    refine ⟨o, ho, ?_⟩
    rw [(find?_none_iff f o.col).2 h]; rfl

theorem has_iff_mem_names (f : LFrame) (n : Bytes) : f.has n = true ↔ n ∈ f.names := by
  unfold LFrame.has LFrame.find? LFrame.names
  rw [List.find?_isSome]
  constructor
  · rintro ⟨c, hc, h⟩; exact List.mem_map.2 ⟨c, hc, eq_of_beq h⟩
  · intro h
    obtain ⟨c, hc, rfl⟩ := List.mem_map.1 h
    exact ⟨c, hc, beq_self_eq_true _⟩

theorem has_congr_names (f g : LFrame) (h : g.names = f.names) (n : Bytes) : g.has n = f.has n := by
  rw [Bool.eq_iff_iff, has_iff_mem_names, has_iff_mem_names, h]

/-- No frame is an acceptable result of `Sort` when an order names an unknown column: the spec's verdict is an error. -/
theorem isSortedResult_unknown (f out : LFrame) (os : List Order) (h : sortKeys f os = none) :
    isSortedResult f out os = false := by
  unfold isSortedResult
  cases hk : sortKeys out os with
  | none => rfl
  | some keys =>
    simp only []
    cases hn : out.names == f.names
    · simp
    · exfalso
      obtain ⟨o, ho, hu⟩ := (sortKeys_none_iff f os).1 h
      have : sortKeys out os = none :=
        (sortKeys_none_iff out os).2 ⟨o, ho, by rw [has_congr_names f out (eq_of_beq hn)]; exact hu⟩
      rw [this] at hk; cases hk

/-- The columns `Distinct` compares: the requested ones, or all. -/
def distinctKeys (f : LFrame) (keyNames : List Bytes) : Option (List LCol) :=
  (if keyNames.isEmpty then f.names else keyNames).mapM f.find?

/-- **Distinct** has key columns iff every requested name is a column of the frame. -/
theorem distinctKeys_none_iff (f : LFrame) (keyNames : List Bytes) :
    distinctKeys f keyNames = none ↔ ∃ n ∈ keyNames, f.has n = false := by
  unfold distinctKeys
  rw [mapM_find_none_iff]
  cases keyNames with
  | nil =>
    simp only [List.isEmpty_nil, if_true]
    constructor
    · rintro ⟨n, hn, h⟩
      rw [(has_iff_mem_names f n).2 hn] at h; cases h
    · rintro ⟨n, hn, _⟩; cases hn
  | cons k ks => simp

/-- … and without them no frame is an acceptable result. -/
theorem isDistinctResult_unknown (f out : LFrame) (gbNull : Bool) (keyNames : List Bytes)
    (h : distinctKeys f keyNames = none) : isDistinctResult f out gbNull keyNames = false := by
  unfold distinctKeys at h
  unfold isDistinctResult
  simp only [h]

/-! ### GroupBy / Aggregate -/

/-- the name of the column an aggregation produces -/
def aggName (a : Agg) : Bytes := if a.as.isEmpty then a.col else a.as

/-- `a` cannot be computed although its column exists: its result name is taken (a grouping column or an earlier
aggregate), or the function is not defined for the column's type -/
def aggLate (f : LFrame) (taken : List Bytes) (a : Agg) : Bool :=
  match f.find? a.col with
  | none => false
  | some c => taken.contains (aggName a) || (aggApply a.fn c.ty).isNone

/-- some aggregation fails late, given the names of the columns built before it -/
def aggsLate (f : LFrame) : List Bytes → List Agg → Bool
  | _, [] => false
  | taken, a :: as => aggLate f taken a || aggsLate f (taken ++ [aggName a]) as

theorem contains_col_names (cols : List LCol) (n : Bytes) :
    (cols.map (·.name)).contains n = cols.any (·.name == n) := by
  rw [Bool.eq_iff_iff, List.contains_iff_mem, List.any_eq_true, List.mem_map]
  constructor
  · rintro ⟨c, hc, rfl⟩; exact ⟨c, hc, beq_self_eq_true _⟩
  · rintro ⟨c, hc, h⟩; exact ⟨c, hc, eq_of_beq h⟩

theorem go_none_iff (f : LFrame) (gs : List (List Nat)) (acc : List LCol) (aggs : List Agg) :
    groupAggS.go f gs acc aggs = none ↔
      (∃ a ∈ aggs, f.has a.col = false) ∨ aggsLate f (acc.map (·.name)) aggs = true := by
  induction aggs generalizing acc with
  | nil => simp [groupAggS.go, aggsLate]
  | cons a as ih =>
    unfold groupAggS.go aggsLate aggLate
    cases hf : f.find? a.col with
    | none =>
      simp only [true_iff]
      exact .inl ⟨a, List.mem_cons_self, (find?_none_iff f a.col).1 hf⟩
    | some c =>
      have hk : f.has a.col = true := by unfold LFrame.has; rw [hf]; rfl
      simp only []
      rw [← contains_col_names]
      have hn : (if a.as.isEmpty = true then a.col else a.as) = aggName a := rfl
      rw [hn]
      cases ht : (acc.map (·.name)).contains (aggName a)
      · cases ha : aggApply a.fn c.ty with
        | none => simp
        | some p =>
          obtain ⟨rt, g⟩ := p
          simp only [Bool.false_eq_true, if_false, Option.isNone_some, Bool.or_false, Bool.false_or]
          rw [ih]
          simp only [List.map_append, List.map_cons, List.map_nil, List.mem_cons]
          constructor
          · rintro (⟨b, hb, h⟩ | h)
            · exact .inl ⟨b, .inr hb, h⟩
            · exact .inr h
          · rintro (⟨b, hb | hb, h⟩ | h)
            · subst hb; rw [hk] at h; cases h
            · exact .inl ⟨b, hb, h⟩
            · exact .inr h
      · simp

theorem find?_name (f : LFrame) (n : Bytes) (c : LCol) (h : f.find? n = some c) : c.name = n := by
  unfold LFrame.find? at h
  have := List.find?_some h
  exact eq_of_beq this

theorem map_name_with_cells (keys : List LCol) (g : LCol → Array Cell) :
    (keys.map (fun c => ({ c with cells := g c } : LCol))).map (·.name) = keys.map (·.name) := by
  induction keys with
  | nil => rfl
  | cons k ks ih => simp only [List.map_cons, ih]

theorem mapM_find_names (f : LFrame) (names : List Bytes) (ks : List LCol) (h : names.mapM f.find? = some ks) :
    ks.map (·.name) = names := by
  induction names generalizing ks with
  | nil => simp at h; subst h; rfl
  | cons n ns ih =>
    rw [List.mapM_cons] at h
    cases hn : f.find? n with
    | none => simp [hn] at h
    | some c =>
      cases hns : ns.mapM f.find? with
      | none => simp [hn, hns] at h
      | some cs =>
        simp [hn, hns] at h
        subst h
        simp [find?_name f n c hn, ih cs hns]

/-- **GroupBy(keys).Aggregate(aggs)** is rejected iff a grouping column is unknown, or an aggregation names an unknown
column, or — all columns known — an aggregation fails late: its result name is taken, or its function is not defined for
the type of its column. -/
theorem groupAggS_err_iff (f : LFrame) (gbNull : Bool) (keyNames : List Bytes) (aggs : List Agg) :
    groupAggS f gbNull keyNames aggs = .err ↔
      (∃ n ∈ keyNames, f.has n = false) ∨ (∃ a ∈ aggs, f.has a.col = false) ∨ aggsLate f keyNames aggs = true := by
  unfold groupAggS
  cases hk : keyNames.mapM f.find? with
  | none => simp only [true_iff]; exact .inl ((mapM_find_none_iff f keyNames).1 hk)
  | some keys =>
    have hno : ¬ ∃ n ∈ keyNames, f.has n = false := fun h => by
      rw [(mapM_find_none_iff f keyNames).2 h] at hk; cases hk
    simp only []
    split
    · next hg =>
      rw [go_none_iff, map_name_with_cells, mapM_find_names f keyNames keys hk] at hg
      simp only [true_iff]
      exact .inr hg
    · next cols hg =>
      constructor
      · intro h; cases h
      · rintro (h | h)
        · exact absurd h hno
        · exfalso
          rw [(go_none_iff f _ _ aggs).2 (by
            rw [map_name_with_cells, mapM_find_names f keyNames keys hk]
            exact h)] at hg
          cases hg

/-! ### Apply: how the spec reads an instruction -/

/-- the number of source columns of an instruction, as `applyInstr` reads it -/
def instrArity (ins : Instr) : Nat :=
  match ins.src1, ins.src2 with
  | none, _ => 0
  | some _, none => 1
  | some _, some _ => 2

/-- without a first source column the second one is not looked at -/
theorem applyInstr_no_src1 (up : UpperOracle) (f : LFrame) (m : Nat → Bool) (ins : Instr) (b : Bool)
    (h : ins.src1 = none) (x : Option Bytes) :
    applyInstr up f m { ins with src2 := x } b = applyInstr up f m { ins with src2 := none } b := by
  obtain ⟨dst, s1, s2, fn⟩ := ins
  simp only at h
  subst h
  rfl

/-- an unknown first source column is an error, whatever the function -/
theorem applyInstr_unknown_src1 (up : UpperOracle) (f : LFrame) (m : Nat → Bool) (ins : Instr) (b : Bool) (s : Bytes)
    (h : ins.src1 = some s) (hu : f.has s = false) : applyInstr up f m ins b = .err := by
  obtain ⟨dst, s1, s2, fn⟩ := ins
  simp only at h
  subst h
  have hf := (find?_none_iff f s).2 hu
  cases s2 with
  | none => simp only [applyInstr, hf]
  | some t => simp only [applyInstr, hf]

/-- an unknown second source column is an error, whatever the function -/
theorem applyInstr_unknown_src2 (up : UpperOracle) (f : LFrame) (m : Nat → Bool) (ins : Instr) (b : Bool) (s t : Bytes)
    (h1 : ins.src1 = some s) (h2 : ins.src2 = some t) (hu : f.has t = false) : applyInstr up f m ins b = .err := by
  obtain ⟨dst, s1, s2, fn⟩ := ins
  simp only at h1 h2
  subst h1 h2
  have hf := (find?_none_iff f t).2 hu
  cases hs : f.find? s <;> simp only [applyInstr, hf, hs]

/-! ### Equals: the shape checks -/

theorem equalsS_shape (a b : LFrame) (h : a.n ≠ b.n ∨ a.names ≠ b.names) : equalsS a b = false := by
  unfold equalsS
  rcases h with h | h
  · have : (a.n == b.n) = false := beq_false_of_ne h
    simp [this]
  · have : (a.names == b.names) = false := beq_false_of_ne h
    simp [this]

/-! ## Concrete instances -/

section Examples

private def fr : LFrame :=
  { cols := [{ name := [120], ty := .int, cells := #[.int 1, .int 2, .int 3] }], n := 3 }

/-- `y := 7` succeeds, `z := copy of "nope"` fails, the third instruction is never reached. -/
private def prog : List Instr :=
  [ { dst := [121], src1 := none, src2 := none, fn := .const (.int 7) },
    { dst := [122], src1 := none, src2 := none, fn := .colCopy [110, 111, 112, 101] },
    { dst := [119], src1 := none, src2 := none, fn := .const (.bool true) } ]

example : firstFailing id fr (fun _ => true) prog = 1 := by decide
example : applyS id fr (fun _ => true) false prog = .err :=
  (applyS_err_iff id fr (fun _ => true) prog).2 (by decide)
example : ∃ g, applyS id fr (fun _ => true) false (prog.take 1) = .ok g :=
  (applyS_ok_iff id fr (fun _ => true) (prog.take 1)).2 (by decide)

private def noLike : LikeOracle := { valid := fun _ _ => false, isMatch := fun _ _ _ => false }

-- `And()` without sub-clauses is ill-formed
example : filteredApplyS noLike id fr (.and []) (prog.take 1) = .err :=
  filteredApplyS_illformed noLike id fr (.and []) _ false (by decide)

example : sliceS fr 2 1 = .err := (sliceS_err_iff fr 2 1).2 (by decide)
example : sliceS fr 1 4 = .err := (sliceS_err_iff fr 1 4).2 (by decide)
example : sliceS fr (-1) 2 = .err := (sliceS_err_iff fr (-1) 2).2 (by decide)
example : ¬ (sliceS fr 1 3 = .err) := fun h => absurd ((sliceS_err_iff fr 1 3).1 h) (by decide)
example : selectS fr [[120], [113]] = .err := (selectS_err_iff fr _).2 ⟨[113], by decide, by decide⟩
example : dropS fr [[113]] = .err := (dropS_err_iff fr _).2 ⟨[113], by decide, by decide⟩
example : copyS fr [36, 97] [120] = .err := (copyS_err_iff fr _ _).2 (.inr (by decide))
example : copyS fr [97] [113] = .err := (copyS_err_iff fr _ _).2 (.inl (by decide))
example : ¬ (copyS fr [97] [120] = .err) := fun h => absurd ((copyS_err_iff fr _ _).1 h) (by decide)

end Examples

#print axioms firstFailing_le
#print axioms applyS_err_iff
#print axioms applyS_ok_iff
#print axioms applyS_stops_at_first_failing
#print axioms applyS_append_err
#print axioms applyS_append_ok
#print axioms filteredApplyS_err_iff
#print axioms filteredApplyS_err_iff'
#print axioms sliceS_err_iff
#print axioms selectS_err_iff
#print axioms dropS_err_iff
#print axioms copyS_err_iff
#print axioms sortKeys_none_iff
#print axioms isSortedResult_unknown
#print axioms distinctKeys_none_iff
#print axioms isDistinctResult_unknown
#print axioms groupAggS_err_iff
#print axioms applyInstr_no_src1
#print axioms applyInstr_unknown_src1
#print axioms applyInstr_unknown_src2
#print axioms equalsS_shape

end QF.Props.C10Sticky
