import QF.Spec.Filter
import QF.Spec.Ops
/-!
# C10 — error discipline, on the specification

The replay driver relies on these facts about the spec functions of Ops.lean:

* `applyS` stops at the first failing instruction: `applyS_err_iff`, `firstFailing_le`,
  `applyS_stops_at_first_failing`, `applyS_append_err`;
* `filteredApplyS` errs when the clause is ill-formed: `filteredApplyS_err_iff`;
* `sliceS` / `selectS` / `dropS` / `copyS` reject exactly the invalid requests:
  `sliceS_err_iff`, `selectS_err_iff`, `dropS_err_iff`, `copyS_err_iff`.
-/
namespace QF.Props.C10Sticky
open QF

theorem res_ok_ne_err (f : LFrame) : Res.ok f ≠ Res.err := by intro h; cases h

/-! ## `applyS` -/

theorem firstFailing_le (up : UpperOracle) (f : LFrame) (m : Nat → Bool) (is : List Instr) :
    firstFailing up f m is ≤ is.length := by
  induction is generalizing f with
  | nil => simp [firstFailing]
  | cons i t ih =>
    unfold firstFailing
    cases h : applyInstr up f m i with
    | ok f' => have := ih f'; simp only [List.length_cons]; omega
    | err => simp

/-- `applyS` fails exactly when some instruction fails (on the frame built by its predecessors). -/
theorem applyS_err_iff (up : UpperOracle) (f : LFrame) (m : Nat → Bool) (is : List Instr) :
    applyS up f m false is = .err ↔ firstFailing up f m is < is.length := by
  induction is generalizing f with
  | nil => simp [applyS, firstFailing]
  | cons i t ih =>
    unfold applyS firstFailing
    cases h : applyInstr up f m i with
    | ok f' =>
      simp only [List.length_cons]
      rw [ih f']; omega
    | err => simp

theorem applyS_ok_iff (up : UpperOracle) (f : LFrame) (m : Nat → Bool) (is : List Instr) :
    (∃ g, applyS up f m false is = .ok g) ↔ firstFailing up f m is = is.length := by
  have h1 := applyS_err_iff up f m is
  have h2 := firstFailing_le up f m is
  constructor
  · rintro ⟨g, hg⟩
    have : ¬ firstFailing up f m is < is.length := by
      intro h; rw [← h1, hg] at h; cases h
    omega
  · intro h
    cases hg : applyS up f m false is with
    | ok g => exact ⟨g, rfl⟩
    | err => have := h1.1 hg; omega

/-- The instructions before the first failing one are all applied, and the next one fails on the frame
they built: the error is raised by that instruction and nothing after it is looked at. -/
theorem applyS_stops_at_first_failing (up : UpperOracle) (f : LFrame) (m : Nat → Bool) (is : List Instr) :
    ∃ g, applyS up f m false (is.take (firstFailing up f m is)) = .ok g ∧
      ∀ i, is[firstFailing up f m is]? = some i → applyInstr up g m i = .err := by
  induction is generalizing f with
  | nil => exact ⟨f, rfl, fun i h => by simp at h⟩
  | cons i t ih =>
    cases h : applyInstr up f m i with
    | ok f' =>
      have e : firstFailing up f m (i :: t) = firstFailing up f' m t + 1 := by
        conv => lhs; unfold firstFailing
        rw [h]; simp only []; omega
      obtain ⟨g, hg, hfail⟩ := ih f'
      refine ⟨g, ?_, ?_⟩
      · rw [e, List.take_succ_cons]
        unfold applyS
        rw [h]; exact hg
      · intro j hj
        rw [e, List.getElem?_cons_succ] at hj
        exact hfail j hj
    | err =>
      have e : firstFailing up f m (i :: t) = 0 := by
        conv => lhs; unfold firstFailing
        rw [h]
      refine ⟨f, by rw [e]; rfl, ?_⟩
      intro j hj
      rw [e] at hj
      simp only [List.getElem?_cons_zero, Option.some.injEq] at hj
      subst hj; exact h

/-- What comes after a failing list is irrelevant (the error is sticky). -/
theorem applyS_append_err (up : UpperOracle) (f : LFrame) (m : Nat → Bool) (fillAll : Bool)
    (is js : List Instr) (h : applyS up f m fillAll is = .err) :
    applyS up f m fillAll (is ++ js) = .err := by
  induction is generalizing f with
  | nil => cases h
  | cons i t ih =>
    unfold applyS at h
    rw [List.cons_append]
    unfold applyS
    cases hi : applyInstr up f m i fillAll with
    | ok f' => rw [hi] at h; exact ih f' h
    | err => rfl

theorem applyS_append_ok (up : UpperOracle) (f g : LFrame) (m : Nat → Bool) (fillAll : Bool)
    (is js : List Instr) (h : applyS up f m fillAll is = .ok g) :
    applyS up f m fillAll (is ++ js) = applyS up g m fillAll js := by
  induction is generalizing f with
  | nil => cases h; rfl
  | cons i t ih =>
    unfold applyS at h
    rw [List.cons_append]
    conv => lhs; unfold applyS
    cases hi : applyInstr up f m i fillAll with
    | ok f' => rw [hi] at h; exact ih f' h
    | err => rw [hi] at h; cases h

/-! ## `filteredApplyS` -/

theorem filteredApplyS_err_iff (lo : LikeOracle) (up : UpperOracle) (f : LFrame) (c : Clause)
    (is : List Instr) (fillAll : Bool) :
    filteredApplyS lo up f c is fillAll = .err ↔
      c.wellFormed lo f = false ∨ applyS up f (c.sem lo f) fillAll is = .err := by
  unfold filteredApplyS
  cases h : c.wellFormed lo f <;> simp

theorem filteredApplyS_illformed (lo : LikeOracle) (up : UpperOracle) (f : LFrame) (c : Clause)
    (is : List Instr) (fillAll : Bool) (h : c.wellFormed lo f = false) :
    filteredApplyS lo up f c is fillAll = .err :=
  (filteredApplyS_err_iff lo up f c is fillAll).2 (.inl h)

/-- With the default fill mode: ill-formed clause, or some instruction fails on the frame built so far. -/
theorem filteredApplyS_err_iff' (lo : LikeOracle) (up : UpperOracle) (f : LFrame) (c : Clause)
    (is : List Instr) :
    filteredApplyS lo up f c is = .err ↔
      c.wellFormed lo f = false ∨ firstFailing up f (c.sem lo f) is < is.length := by
  rw [filteredApplyS_err_iff, applyS_err_iff]

/-! ## projections -/

theorem sliceS_err_iff (f : LFrame) (a b : Int) :
    sliceS f a b = .err ↔ a < 0 ∨ a > b ∨ b > f.n := by
  unfold sliceS
  split
  · next h => simp only [true_iff]; simpa [or_assoc] using h
  · next h =>
    constructor
    · intro e; cases e
    · intro h'; exact absurd (by simpa [or_assoc] using h') h

theorem not_all_has_iff (f : LFrame) (names : List Bytes) :
    names.all f.has = false ↔ ∃ n ∈ names, f.has n = false := by
  simp

theorem selectS_err_iff (f : LFrame) (names : List Bytes) :
    selectS f names = .err ↔ ∃ n ∈ names, f.has n = false := by
  rw [← not_all_has_iff]
  unfold selectS
  cases h : names.all f.has
  · simp
  · simp only [if_true]
    split <;> simp

theorem dropS_err_iff (f : LFrame) (names : List Bytes) :
    dropS f names = .err ↔ ∃ n ∈ names, f.has n = false := by
  rw [← not_all_has_iff]
  unfold dropS
  cases names with
  | nil => simp
  | cons n t =>
    simp only [List.isEmpty_cons, Bool.false_eq_true, if_false]
    cases h : (n :: t).all f.has
    · simp
    · simp only [Bool.not_true, Bool.false_eq_true, if_false]
      split <;> simp

theorem copyS_err_iff (f : LFrame) (dst src : Bytes) :
    copyS f dst src = .err ↔ f.has src = false ∨ (dst ≠ src ∧ legalName dst = false) := by
  unfold copyS LFrame.has
  cases h : f.find? src with
  | none => simp
  | some c =>
    simp only [Option.isSome_some, Bool.true_eq_false, false_or]
    by_cases hd : dst = src
    · simp [hd]
    · have : (dst == src) = false := beq_false_of_ne hd
      simp only [this, Bool.false_eq_true, if_false]
      cases hl : legalName dst <;> simp [hd]

/-! ## Concrete instances -/

section Examples

private def fr : LFrame :=
  { cols := [{ name := [120], ty := .int, cells := #[.int 1, .int 2, .int 3] }], n := 3 }

/-- `y := 7` succeeds, `z := copy of "nope"` fails, the third instruction is never reached. -/
private def prog : List Instr :=
  [ { dst := [121], src1 := none, src2 := none, fn := .const (.int 7) },
    { dst := [122], src1 := none, src2 := none, fn := .colCopy [110, 111, 112, 101] },
    { dst := [119], src1 := none, src2 := none, fn := .const (.bool true) } ]

example : firstFailing id fr (fun _ => true) prog = 1 := by decide
example : applyS id fr (fun _ => true) false prog = .err :=
  (applyS_err_iff id fr (fun _ => true) prog).2 (by decide)
example : ∃ g, applyS id fr (fun _ => true) false (prog.take 1) = .ok g :=
  (applyS_ok_iff id fr (fun _ => true) (prog.take 1)).2 (by decide)

private def noLike : LikeOracle := { valid := fun _ _ => false, isMatch := fun _ _ _ => false }

-- `And()` without sub-clauses is ill-formed
example : filteredApplyS noLike id fr (.and []) (prog.take 1) = .err :=
  filteredApplyS_illformed noLike id fr (.and []) _ false (by decide)

example : sliceS fr 2 1 = .err := (sliceS_err_iff fr 2 1).2 (by decide)
example : sliceS fr 1 4 = .err := (sliceS_err_iff fr 1 4).2 (by decide)
example : sliceS fr (-1) 2 = .err := (sliceS_err_iff fr (-1) 2).2 (by decide)
example : ¬ (sliceS fr 1 3 = .err) := fun h => absurd ((sliceS_err_iff fr 1 3).1 h) (by decide)
example : selectS fr [[120], [113]] = .err := (selectS_err_iff fr _).2 ⟨[113], by decide, by decide⟩
example : dropS fr [[113]] = .err := (dropS_err_iff fr _).2 ⟨[113], by decide, by decide⟩
example : copyS fr [36, 97] [120] = .err := (copyS_err_iff fr _ _).2 (.inr (by decide))
example : copyS fr [97] [113] = .err := (copyS_err_iff fr _ _).2 (.inl (by decide))
example : ¬ (copyS fr [97] [120] = .err) := fun h => absurd ((copyS_err_iff fr _ _).1 h) (by decide)

end Examples

#print axioms firstFailing_le
#print axioms applyS_err_iff
#print axioms applyS_ok_iff
#print axioms applyS_stops_at_first_failing
#print axioms applyS_append_err
#print axioms applyS_append_ok
#print axioms filteredApplyS_err_iff
#print axioms filteredApplyS_err_iff'
#print axioms sliceS_err_iff
#print axioms selectS_err_iff
#print axioms dropS_err_iff
#print axioms copyS_err_iff

end QF.Props.C10Sticky
