import QF.Props.C04GlueLink
import QF.Props.C04LoopsGen
import QF.Props.C08CtorsGen
/-!
# C04 — `GroupBy(…).Aggregate(…)` and `GroupBy(…).QFrames()` of today's source, end to end (tie T1, composition)

`C04GlueLink.gen_groupby_partition` goes from the regenerated `QFrame.GroupBy` down to the regenerated hash table and
concludes the spec's groups up to order. This file does the same for what is done WITH the groups:

* `Grouper.Aggregate`'s glue (`C04GlueGen.gen_aggregate_glue_semantics`: closed form over `Subset`, `Column.Aggregate`,
  `icolumn.New`) is instantiated with the REGENERATED callees —
  - `Column.Subset`     : `C04LoopsGen.subsetOf` (`Gen.subsetAst`), the string column's on a byte blob behind pointers,
  - `Column.Aggregate`  : `C04LoopsGen.aggregateOf` (`Gen.aggregateAst`) with the built-ins `Gen.aggAst` (`pkgBuiltin`),
  - `icolumn.New`       : `C08CtorsGen.genNumNew .int` (`Gen.numCtors`)
  (`genAPrims`) — and chained through `gen_aggregate_loops_semantics`, `gen_key_columns_semantics(_string)`,
  `gen_subset_semantics` and `C04Aggregations.gen_agg_semantics` down to the spec's `groupAggS` (QF/Spec/Ops.lean).

* `gen_aggregate_structure`  — for every well-formed physical frame, every key list, Null setting and aggregation list
  of the catalogue: there is a list `gsL` of groups of LOGICAL rows, a permutation of the spec's groups, such that the
  regenerated `GroupBy(...).Aggregate(...)` returns exactly `groupAggWith … gsL …` — the spec's function with the groups
  taken in the order `gsL` —: an error where that is an error, else its columns (key columns first, `pos` = position),
  over the ascending index; no callee panics.
* `groupAggWith_perm`        — `groupAggWith` on a permutation of the groups: the same error, or the same column names and
  types and the rows permuted.
* `gen_aggregate_end_to_end` — so: an error exactly where `groupAggS` has one (unknown key column, unknown source column,
  duplicate result name, aggregation not defined for the column type), else a frame with the names, types (enum value
  tables) and number of rows of `groupAggS`'s whose rows are a permutation of `groupAggS`'s rows — for each group the key
  values of its first row, then one value per aggregation computed on exactly that group's cells in frame order.
* `gen_qframes_end_to_end`   — `GroupBy(...).QFrames()`: the error for an unknown column, else one frame per group, sharing
  the frame's columns, whose indices are — up to the order of the frames — the spec's groups (rows in frame order), so
  that each frame shows exactly the rows of its group (`LFrame.pick`).
-/
namespace QF.Props.C04EndToEnd
open QF QF.GG QF.GL QF.Props.C04GlueGen QF.Props.C04GlueLink QF.Props.C04GrouperGen QF.Props.C04Hash
open QF.Props.C04LoopsGen (subsetOf aggregateOf goAggVal pkgBuiltin physGroups blobCells BValid)
open QF.Props.C06LoopsGen (Sees ColOk observe ret2)

/-! ## The frame as the user sees it -/

/-- what a user sees of the physical frame `F`: every column through the index -/
def viewOf (F : Frame) : LFrame := { cols := F.cols.map (logical F.index), n := F.index.length }

/-- the physical column as the loops see it -/
def pcolOf (c : LCol) : PCol := { ty := c.ty, vals := c.vals, cells := c.cells.toList }

theorem arr_get (a : Array Cell) (r : Nat) : a.toList[r]! = a[r]! := by
  rw [getElem!_def, getElem!_def]; simp

theorem sees (ix : List Nat) (c : LCol) : Sees ix (pcolOf c) (logical ix c) where
  ty := rfl
  vals := rfl
  cells := by
    simp only [logical, observe, pcolOf]
    congr 1
    apply List.map_congr_left
    intro r _
    exact (arr_get c.cells r).symm

theorem find_view (F : Frame) (n : Bytes) : (viewOf F).find? n = (F.find? n).map (logical F.index) := by
  unfold viewOf LFrame.find? Frame.find?
  simp only
  induction F.cols with
  | nil => rfl
  | cons c cs ih =>
    simp only [List.map_cons, List.find?_cons]
    have : (logical F.index c).name = c.name := rfl
    rw [this]
    cases c.name == n
    · exact ih
    · rfl

theorem mapM_find_view (F : Frame) (names : List Bytes) :
    names.mapM (viewOf F).find? = (names.mapM F.find?).map (·.map (logical F.index)) := by
  induction names with
  | nil => rfl
  | cons n ns ih =>
    simp only [List.mapM_cons, find_view, ih]
    cases F.find? n with
    | none => rfl
    | some c =>
      cases ns.mapM F.find? with
      | none => rfl
      | some r => rfl

/-! ## The spec with the groups as a parameter -/

/-- `groupAggS` (QF/Spec/Ops.lean) with the list of groups handed in: the key columns hold each group's first row's key,
every aggregation one value per group, computed by `aggApply` on the cells of the group's rows in the group's order. -/
def groupAggWith (f : LFrame) (gs : List (List Nat)) (keyNames : List Bytes) (aggs : List Agg) : Res :=
  match keyNames.mapM f.find? with
  | none => .err
  | some keys =>
    match groupAggS.go f gs (keys.map fun c => { c with cells := (gs.map fun g => c.cells[g.head!]!).toArray }) aggs with
    | none => .err
    | some cols => .ok { cols := cols, n := gs.length }

/-- the groups `groupAggS` forms -/
def specGroupsOf (f : LFrame) (gbNull : Bool) (keyNames : List Bytes) : List (List Nat) :=
  match keyNames.mapM f.find? with
  | none => []
  | some keys => specGroups gbNull keys f.n

/-- `groupAggS` is `groupAggWith` on the spec's groups -/
theorem groupAggS_eq (f : LFrame) (gbNull : Bool) (keyNames : List Bytes) (aggs : List Agg) :
    groupAggS f gbNull keyNames aggs = groupAggWith f (specGroupsOf f gbNull keyNames) keyNames aggs := by
  unfold groupAggS groupAggWith specGroupsOf specGroups
  cases keyNames.mapM f.find? with
  | none => rfl
  | some keys => rfl

/-! ## The order of the groups only permutes the rows -/

/-- a column of the result as a function of the group: name, type, value table, and the cell of a group -/
structure ColFn where
  name : Bytes
  ty : CType
  vals : List Bytes := []
  strict : Bool := false
  h : List Nat → Cell

/-- the column over the groups `gs`: one cell per group, in the order of `gs` -/
def ColFn.on (k : ColFn) (gs : List (List Nat)) : LCol :=
  { name := k.name, ty := k.ty, vals := k.vals, strict := k.strict, cells := (gs.map k.h).toArray }

/-- the key column of `groupAggS` as a function of the group: the key cell of its first row -/
def keyFn (c : LCol) : ColFn := { name := c.name, ty := c.ty, vals := c.vals, strict := c.strict, h := fun g => c.cells[g.head!]! }

/-- the aggregation loop of `groupAggS` without the groups -/
def goFns (f : LFrame) : List ColFn → List Agg → Option (List ColFn)
  | acc, [] => some acc
  | acc, a :: as =>
    match f.find? a.col with
    | none => none
    | some c =>
      if acc.any (·.name == (if a.as.isEmpty then a.col else a.as)) then none else
      match aggApply a.fn c.ty with
      | none => none
      | some (rt, g) =>
        goFns f (acc ++ [{ name := if a.as.isEmpty then a.col else a.as, ty := rt, h := fun grp => g (grp.map fun r => c.cells[r]!) }]) as

theorem go_cons (f : LFrame) (gs : List (List Nat)) (acc : List LCol) (a : Agg) (as : List Agg) :
    groupAggS.go f gs acc (a :: as) =
      match f.find? a.col with
      | none => none
      | some c =>
        if acc.any (·.name == (if a.as.isEmpty then a.col else a.as)) then none else
        match aggApply a.fn c.ty with
        | none => none
        | some (rt, g) =>
          groupAggS.go f gs (acc ++ [{ name := if a.as.isEmpty then a.col else a.as, ty := rt,
                                       cells := (gs.map fun grp => g (grp.map fun r => c.cells[r]!)).toArray }]) as := by
  rw [groupAggS.go]
  cases f.find? a.col with
  | none => rfl
  | some c =>
    simp only
    split
    · rfl
    · cases aggApply a.fn c.ty with
      | none => rfl
      | some p => rfl

theorem go_fns (f : LFrame) (gs : List (List Nat)) : ∀ (aggs : List Agg) (acc : List ColFn),
    groupAggS.go f gs (acc.map (·.on gs)) aggs = (goFns f acc aggs).map (·.map (·.on gs)) := by
  intro aggs
  induction aggs with
  | nil => intro acc; simp [groupAggS.go, goFns]
  | cons a as ih =>
    intro acc
    rw [go_cons, goFns]
    cases f.find? a.col with
    | none => rfl
    | some c =>
      simp only
      have hany : ∀ nm : Bytes, (acc.map (·.on gs)).any (·.name == nm) = acc.any (·.name == nm) := by
        intro nm; rw [List.any_map]; rfl
      rw [hany]
      generalize (if a.as.isEmpty then a.col else a.as) = nm
      cases acc.any (·.name == nm) with
      | true => rfl
      | false =>
        simp only [Bool.false_eq_true, if_false]
        cases aggApply a.fn c.ty with
        | none => rfl
        | some p =>
          obtain ⟨rt, g⟩ := p
          simp only
          rw [← ih]
          simp [ColFn.on]

theorem groupAggWith_fns (f : LFrame) (gs : List (List Nat)) (keyNames : List Bytes) (aggs : List Agg) :
    groupAggWith f gs keyNames aggs =
      match keyNames.mapM f.find? with
      | none => .err
      | some keys =>
        match goFns f (keys.map keyFn) aggs with
        | none => .err
        | some ks => .ok { cols := ks.map (·.on gs), n := gs.length } := by
  unfold groupAggWith
  cases keyNames.mapM f.find? with
  | none => rfl
  | some keys =>
    simp only
    have : (keys.map fun c => ({ c with cells := (gs.map fun g => c.cells[g.head!]!).toArray } : LCol)) = (keys.map keyFn).map (·.on gs) := by
      rw [List.map_map]; rfl
    rw [this, go_fns]
    cases goFns f (keys.map keyFn) aggs <;> rfl

/-- the rows of a frame of such columns: one per group, in the order of the groups -/
theorem rows_on (ks : List ColFn) (gs : List (List Nat)) :
    LFrame.rows { cols := ks.map (·.on gs), n := gs.length } = gs.map (fun grp => ks.map (·.h grp)) := by
  unfold LFrame.rows LFrame.row
  apply List.ext_getElem
  · simp
  · intro i h1 h2
    simp only [List.length_map, List.length_range] at h1
    simp only [List.getElem_map, List.getElem_range, List.map_map]
    apply List.map_congr_left
    intro k _
    simp [ColFn.on, h1]

/-- **The order of the groups only permutes the rows.** `groupAggWith` on a permutation of the groups: the same error, or
the same number of rows, column names, types, value tables, and the rows permuted. -/
theorem groupAggWith_perm (f : LFrame) (gs' gs : List (List Nat)) (hp : gs'.Perm gs) (keyNames : List Bytes) (aggs : List Agg) :
    match groupAggWith f gs' keyNames aggs, groupAggWith f gs keyNames aggs with
    | .err, .err => True
    | .ok a, .ok b => a.n = b.n ∧ a.names = b.names ∧ a.cols.map (·.ty) = b.cols.map (·.ty) ∧
        a.cols.map (·.vals) = b.cols.map (·.vals) ∧ a.cols.map (·.strict) = b.cols.map (·.strict) ∧ a.rows.Perm b.rows
    | _, _ => False := by
  rw [groupAggWith_fns, groupAggWith_fns]
  cases keyNames.mapM f.find? with
  | none => trivial
  | some keys =>
    simp only
    cases goFns f (keys.map keyFn) aggs with
    | none => trivial
    | some ks =>
      simp only
      refine ⟨hp.length_eq, ?_, ?_, ?_, ?_, ?_⟩
      · simp [LFrame.names, ColFn.on]
      · simp [ColFn.on]
      · simp [ColFn.on]
      · simp [ColFn.on]
      · rw [rows_on, rows_on]
        exact hp.map _

/-! ## What `Aggregate` calls, as regenerated -/

def keepsOf : LGSub → List String
  | .cells _ k => k
  | _ => []

/-- the new column of the receiver's package made of `cells`; `keeps`: the fields copied from the receiver -/
def colOfCells (c : LCol) (keeps : List String) (cells : List Cell) : LCol :=
  { name := c.name, ty := c.ty, vals := if keeps.contains "values" then c.vals else [],
    strict := if keeps.contains "strict" then c.strict else false, cells := cells.toArray }

/-- `<column>.Subset(index)` of today's source (`Gen.subsetAst`). A string column is stored as the byte blob `blobOf c`
behind pointers and its `subset` builds a new blob, read back cell by cell. `none`: a panic, or no meaning. -/
def genSubset (blobOf : LCol → BCol) (c : LCol) (ix : List Nat) : Option LCol :=
  match subsetOf c.ty with
  | .blob b =>
    match b.run (blobOf c) ix with
    | .ok B => some (colOfCells c [] (blobCells B))
    | _ => none
  | sub =>
    match sub.run (pcolOf c) (zeroCell c.ty) ix with
    | .ok cells => some (colOfCells c (keepsOf sub) cells)
    | _ => none

/-- `<column>.Aggregate(groups, fn)` of today's source (`Gen.aggregateAst`, the built-ins `Gen.aggAst`), `fn` the Go
value of the aggregation function for a column of this type -/
def aggOut (c : LCol) (groups : List (List Nat)) (afn : AggFn) : LGOut :=
  (aggregateOf c.ty).run { recv := pcolOf c, groups := groups, fn := goAggVal afn c.ty, builtin := pkgBuiltin c.ty }
    (zeroCell (fkind c.ty))

/-- the column `Aggregate` returns: of the receiver's package (`New(data)`) or a string column (`scolumn.New(data)`);
`none`: an error — or a panic / no meaning, which `gen_aggregate_structure` excludes separately -/
def colOfOut (c : LCol) : LGOut → Option LCol
  | .col .ownCol cells => some { name := c.name, ty := c.ty, cells := cells.toArray }
  | .col .strCol cells => some { name := c.name, ty := .string, cells := cells.toArray }
  | _ => none

/-- `icolumn.New(counts)` of today's source (`Gen.numCtors`) -/
def genIntCol (l : List Int) : LCol :=
  { name := [], ty := .int, cells := (((C08CtorsGen.genNumNew .int 0 l).getD []).map Cell.int).toArray }

/-- what `Grouper.Aggregate` calls, as regenerated -/
def genAPrims (blobOf : LCol → BCol) : APrims AggFn :=
  { subset := fun c ix => (genSubset blobOf c ix).getD { c with cells := #[] }
    aggregate := fun c groups afn => colOfOut c (aggOut c groups afn)
    intCol := genIntCol }

def fnNameOf : AggFn → Option String
  | .builtin n => some n
  | .user _ => none

/-- the `Aggregation{Fn, Column, As}` value of an aggregation of the catalogue -/
def reqOf (a : Agg) : AggReq AggFn := { fn := a.fn, fnName := fnNameOf a.fn, col := a.col, as := a.as }

/-- **`GroupBy(cfg…).Aggregate(aggs…)` of today's source**, everything it calls regenerated -/
def genGroupAgg (H : HashFn) (rnd : Bytes → Nat → UInt64) (fuel : Nat) (blobOf : LCol → BCol) (F : Frame) (C : Cfg)
    (aggs : List Agg) : Option ARes :=
  (genGroupBy (genPrims H rnd fuel) F C).bind fun g => genAggregate (genAPrims blobOf) g (aggs.map reqOf)

/-- what the user sees of the result -/
def viewOfRes : ARes → Res
  | .err => .err
  | .ok cols index => .ok (viewOf { cols := cols.map (·.col), index := index })

/-! ## Well-formed frames -/

/-- the columns that are not enums carry no value table -/
def Plain (F : Frame) : Prop := ∀ c ∈ F.cols, c.ty ≠ .enum → c.vals = [] ∧ c.strict = false

/-- `blobOf c` is a representation of every string column `c` of the frame: pointers inside the blob, read back as the
column's cells -/
def BlobsOk (blobOf : LCol → BCol) (F : Frame) : Prop :=
  ∀ c ∈ F.cols, c.ty = .string → BValid (blobOf c).ptrs (blobOf c).data ∧ c.cells.toList = blobCells (blobOf c)

/-! ## Lists -/

theorem perm_map_inv {α β : Type} [DecidableEq α] (φ : α → β) : ∀ (l : List β) (s : List α), l.Perm (s.map φ) →
    ∃ s' : List α, s'.Perm s ∧ s'.map φ = l := by
  intro l
  induction l with
  | nil =>
    intro s h
    have : s.map φ = [] := h.symm.eq_nil
    exact ⟨[], by rw [List.map_eq_nil_iff.mp this], rfl⟩
  | cons a t ih =>
    intro s h
    have ha : a ∈ s.map φ := h.subset (by simp)
    obtain ⟨x, hx, rfl⟩ := List.mem_map.mp ha
    have hs : s.Perm (x :: s.erase x) := List.perm_cons_erase hx
    have h2 : (φ x :: t).Perm (φ x :: (s.erase x).map φ) := h.trans (hs.map φ)
    obtain ⟨s'', h3, h4⟩ := ih (s.erase x) (List.Perm.cons_inv h2)
    exact ⟨x :: s'', (List.Perm.cons x h3).trans hs.symm, by simp [h4]⟩

theorem range_logical (n : Nat) (c : LCol) (h : c.cells.size = n) : logical (List.range n) c = c := by
  unfold logical
  have : ((List.range n).map fun r => c.cells[r]!).toArray = c.cells := by
    apply Array.ext
    · simp [h]
    · intro i h1 h2
      simp only [List.size_toArray, List.length_map, List.length_range] at h1
      simp [h2]
  rw [this]

/-! ## One callee at a time -/

theorem colOk_of_keyOk {L : Nat} {c : LCol} (h : KeyOk L c) : ColOk (pcolOf c) := by
  refine ⟨h.ty, ?_⟩
  intro x hx
  obtain ⟨i, hi, rfl⟩ := List.mem_iff_getElem.mp hx
  have hi' : i < L := by simpa [pcolOf, h.size] using hi
  have := h.typed i hi'
  have e : c.cells[i]! = (pcolOf c).cells[i] := by
    have hi2 : i < c.cells.size := by simpa [pcolOf] using hi
    simp [pcolOf, hi2]
  rw [e] at this
  exact this

theorem firsts_eq (groups : List (List Nat)) (hne : ∀ g ∈ groups, g ≠ []) :
    groups.mapM (fun ix => ix[0]?) = some (groups.map (·.head!)) := by
  induction groups with
  | nil => rfl
  | cons g gs ih =>
    cases g with
    | nil => exact absurd rfl (hne [] (by simp))
    | cons r rs =>
      simp only [List.mapM_cons, List.getElem?_cons_zero, ih (fun g' h' => hne g' (by simp [h'])), List.map_cons]
      rfl

theorem phys_nonempty (ix : List Nat) (gs : List (List Nat)) (hgs : ∀ g ∈ gs, g ≠ [] ∧ ∀ r ∈ g, r < ix.length) :
    ∀ g ∈ physGroups ix gs, g ≠ [] := by
  intro g hg
  simp only [physGroups, List.mem_map] at hg
  obtain ⟨g', hg', rfl⟩ := hg
  have := (hgs g' hg').1
  cases g' with
  | nil => exact absurd rfl this
  | cons a as => simp

section Callees
variable (blobOf : LCol → BCol) (F : Frame) (L : Nat) (gsL : List (List Nat))

/-- **a key column**: `Subset` of the first rows, as regenerated, is the key column of `groupAggS` over the groups `gsL` -/
theorem key_link (wf : WFrame F L) (hp : Plain F) (hb : BlobsOk blobOf F)
    (hgs : ∀ g ∈ gsL, g ≠ [] ∧ ∀ r ∈ g, r < F.index.length) (c : LCol) (hc : c ∈ F.cols) :
    genSubset blobOf c ((physGroups F.index gsL).map (·.head!)) = some ((keyFn (logical F.index c)).on gsL) := by
  have hk := wf.cols c hc
  have h0 : ∀ p ∈ F.index, p < c.cells.size := fun p hp' => by rw [hk.size]; exact wf.inRange p hp'
  have hne := phys_nonempty F.index gsL hgs
  by_cases hstr : c.ty = .string
  · -- a byte blob behind pointers
    obtain ⟨hv, hcells⟩ := hb c hc hstr
    have hlen : (blobOf c).ptrs.length = c.cells.size := by
      have := congrArg List.length hcells
      simpa [blobCells] using this.symm
    have hobs : (logical F.index c).cells = observe F.index (blobCells (blobOf c)) := by
      rw [← hcells]; exact (sees F.index c).cells
    obtain ⟨first, b, B, h1, h2, h3, h4, _, h6⟩ :=
      C04LoopsGen.gen_key_columns_semantics_string F.index (blobOf c) (logical F.index c) gsL hv hobs
        (fun p hp' => by rw [hlen]; exact h0 p hp') hgs
    rw [C04LoopsGen.gen_first_rows _ hne] at h1
    cases h1
    unfold genSubset
    rw [hstr, h2]
    simp only [h3]
    congr 1
    have hcellsB : blobCells B = gsL.map (fun g => (logical F.index c).cells[g.head!]!) := by
      apply List.ext_getElem
      · simp [blobCells, h4]
      · intro k hk1 hk2
        have hk' : k < gsL.length := by simpa using hk2
        have := h6 k hk'
        simp only [blobCells, List.getElem_map, List.getElem_range]
        rw [this]
        simp [hk']
    rw [hcellsB]
    have hpl := hp c hc (by rw [hstr]; decide)
    simp [colOfCells, keyFn, ColFn.on, logical, hpl.1, hpl.2, hstr]
  · -- an array of values
    have htr : C04LoopsGen.subsetTranslated c.ty = true := by
      have := hk.ty
      cases hty : c.ty <;> simp_all [C04LoopsGen.subsetTranslated, C03Compare.tys]
    obtain ⟨_, _, _, first, h1, h2⟩ :=
      C04LoopsGen.gen_key_columns_semantics F.index (pcolOf c) (logical F.index c) gsL (sees F.index c) hk.ty htr
        (fun p hp' => by simpa [pcolOf] using h0 p hp') hgs (zeroCell c.ty)
    rw [C04LoopsGen.gen_first_rows _ hne] at h1
    cases h1
    obtain ⟨s, hs⟩ := (C04LoopsGen.gen_subset_semantics (pcolOf c) hk.ty htr (zeroCell c.ty) [] (by simp)).2
    have hs' : subsetOf c.ty = .cells s (if c.ty = .enum then ["strict", "values"] else []) := hs
    have h2' : (subsetOf c.ty).run (pcolOf c) (zeroCell c.ty) ((physGroups F.index gsL).map (·.head!)) =
        .ok (gsL.map (fun g => (logical F.index c).cells[g.head!]!)) := h2
    unfold genSubset
    rw [hs'] at h2' ⊢
    simp only [h2']
    congr 1
    by_cases hen : c.ty = .enum
    · simp [colOfCells, keepsOf, keyFn, ColFn.on, logical, hen]
    · have hpl := hp c hc hen
      simp [colOfCells, keepsOf, keyFn, ColFn.on, logical, hen, hpl.1, hpl.2]

theorem aggApply_count (ty : CType) : aggApply (.builtin "count") ty = some (.int, fun vs => .int vs.length) := by
  cases ty <;> rfl

/-- the result type of an aggregation other than `"count"` is the column's element type -/
theorem aggApply_rt {afn : AggFn} {ty rt : CType} {g : List Cell → Cell} (h : aggApply afn ty = some (rt, g))
    (hc : afn ≠ .builtin "count") : rt = fkind ty := by
  cases afn with
  | user id => exact C04LoopsGen.aggApply_user_rt h
  | builtin n =>
    have hn : n ≠ "count" := fun e => hc (by rw [e])
    unfold aggApply at h
    split at h <;> first | (simp at h; obtain ⟨rfl, _⟩ := h; simp_all) | (simp at h) | (simp_all)

/-- **an aggregation other than `"count"`**: `Column.Aggregate` as regenerated returns the column `groupAggS` builds, an
error exactly where `aggApply` is undefined, and neither panics nor is without meaning -/
theorem agg_link (wf : WFrame F L) (hgs : ∀ g ∈ gsL, g ≠ [] ∧ ∀ r ∈ g, r < F.index.length) (c : LCol) (hc : c ∈ F.cols)
    (afn : AggFn) (hcount : afn ≠ .builtin "count") (nm : Bytes) :
    (aggOut { c with name := nm } (physGroups F.index gsL) afn ≠ .panic ∧
     aggOut { c with name := nm } (physGroups F.index gsL) afn ≠ .stuck) ∧
    colOfOut { c with name := nm } (aggOut { c with name := nm } (physGroups F.index gsL) afn) =
      match aggApply afn c.ty with
      | some (rt, g) =>
        some { name := nm, ty := rt, cells := (gsL.map fun grp => g (grp.map fun r => (logical F.index c).cells[r]!)).toArray }
      | none => none := by
  have hk := wf.cols c hc
  have h0 : ∀ p ∈ F.index, p < (pcolOf c).cells.length := fun p hp' => by
    simp only [pcolOf, Array.length_toList, hk.size]; exact wf.inRange p hp'
  have hsem := C04LoopsGen.gen_aggregate_loops_semantics F.index (pcolOf c) (logical F.index c) gsL afn (sees F.index c)
    (colOk_of_keyOk hk) h0 hgs (fun n e hn => hcount (by rw [e, hn]))
  have hout : aggOut { c with name := nm } (physGroups F.index gsL) afn =
      match aggApply afn c.ty with
      | some (_, g) => .col (ret2 c.ty) (gsL.map fun grp => g (grp.map fun r => (logical F.index c).cells[r]!))
      | none => .err := hsem
  rw [hout]
  cases hag : aggApply afn c.ty with
  | none => exact ⟨⟨by simp, by simp⟩, rfl⟩
  | some p =>
    obtain ⟨rt, g⟩ := p
    refine ⟨⟨by simp, by simp⟩, ?_⟩
    have hrt := aggApply_rt hag hcount
    by_cases hen : c.ty = .enum
    · simp [colOfOut, ret2, hen, hrt, fkind]
    · have : fkind c.ty = c.ty := by cases hty : c.ty <;> simp_all [fkind]
      simp [colOfOut, ret2, hen, hrt, this]

/-! ## The two loops of `Aggregate` -/

theorem beq_comm_bytes (a b : Bytes) : (a == b) = (b == a) := by
  rw [Bool.eq_iff_iff]; simp only [beq_iff_eq]; exact eq_comm

/-- `Fn == "count"` -/
def isCount : AggFn → Bool
  | .builtin n => n == "count"
  | .user _ => false

theorem isCount_iff (afn : AggFn) : isCount afn = true ↔ afn = .builtin "count" := by
  cases afn with
  | user id => simp [isCount]
  | builtin n => simp [isCount]

theorem fnName_count (afn : AggFn) : (fnNameOf afn == some "count") = isCount afn := by
  cases afn with
  | user id => simp [fnNameOf, isCount]
  | builtin n => simp [fnNameOf, isCount]

theorem intCol_eq (l : List Int) : genIntCol l = { name := [], ty := .int, cells := (l.map Cell.int).toArray } := by
  unfold genIntCol
  rw [(C08CtorsGen.gen_const_semantics .int (Or.inl rfl) 0 0 0 l).2]
  rfl

variable {σ : Type} (g : Grouper σ)

/-- one round of the aggregation loop is one round of `groupAggS.go` -/
theorem round_link (wf : WFrame F L) (hgs : ∀ g ∈ gsL, g ≠ [] ∧ ∀ r ∈ g, r < F.index.length)
    (hcols : g.cols = F.cols) (hidx : g.indices = physGroups F.index gsL) (accN : List NCol) (seen : List Bytes)
    (hseen : ∀ nm, seen.contains nm = (accN.map (·.col)).any (·.name == nm)) (a : Agg) :
    aggRound (genAPrims blobOf) g accN seen (reqOf a) =
      match (viewOf F).find? a.col with
      | none => none
      | some c =>
        if (accN.map (·.col)).any (·.name == (if a.as.isEmpty then a.col else a.as)) then none else
        match aggApply a.fn c.ty with
        | none => none
        | some (rt, gfn) =>
          some ({ col := { name := if a.as.isEmpty then a.col else a.as, ty := rt,
                           cells := (gsL.map fun grp => gfn (grp.map fun r => c.cells[r]!)).toArray }, pos := accN.length },
                if a.as.isEmpty then a.col else a.as) := by
  unfold aggRound
  have hfind : g.cols.find? (·.name == (reqOf a).col) = F.find? a.col := by rw [hcols]; rfl
  rw [hfind, find_view]
  cases hf : F.find? a.col with
  | none => rfl
  | some c =>
    have hc : c ∈ F.cols := List.mem_of_find?_eq_some hf
    have hrn : resultName (reqOf a) = (if a.as.isEmpty then a.col else a.as) := rfl
    simp only [Option.map_some, hrn, hseen]
    generalize (if a.as.isEmpty then a.col else a.as) = nm
    cases (accN.map (·.col)).any (·.name == nm) with
    | true => rfl
    | false =>
      simp only [Bool.false_eq_true, if_false]
      have hfn : (reqOf a).fnName = fnNameOf a.fn := rfl
      have hfn2 : (reqOf a).fn = a.fn := rfl
      rw [hfn, hfn2, fnName_count]
      by_cases hcount : a.fn = .builtin "count"
      · have hty : (logical F.index c).ty = c.ty := rfl
        have hic : isCount (AggFn.builtin "count") = true := rfl
        simp only [hcount, hic, if_true, hty, aggApply_count]
        have : (genAPrims blobOf).intCol = genIntCol := rfl
        rw [this, intCol_eq, hidx]
        simp [physGroups, Function.comp_def]
      · have hic : isCount a.fn = false := by
          cases h : isCount a.fn with
          | false => rfl
          | true => exact absurd ((isCount_iff a.fn).mp h) hcount
        simp only [hic, Bool.false_eq_true, if_false]
        have hagg : (genAPrims blobOf).aggregate { c with name := nm } g.indices a.fn =
            colOfOut { c with name := nm } (aggOut { c with name := nm } g.indices a.fn) := rfl
        rw [hagg, hidx, (agg_link F L gsL wf hgs c hc a.fn hcount nm).2]
        have hty : (logical F.index c).ty = c.ty := rfl
        rw [hty]
        cases aggApply a.fn c.ty with
        | none => rfl
        | some p => rfl

theorem loop_link (wf : WFrame F L) (hgs : ∀ g ∈ gsL, g ≠ [] ∧ ∀ r ∈ g, r < F.index.length)
    (hcols : g.cols = F.cols) (hidx : g.indices = physGroups F.index gsL) :
    ∀ (aggs : List Agg) (accN : List NCol) (seen : List Bytes),
      (∀ nm, seen.contains nm = (accN.map (·.col)).any (·.name == nm)) → (∀ k (h : k < accN.length), accN[k].pos = k) →
      match groupAggS.go (viewOf F) gsL (accN.map (·.col)) aggs with
      | none => specAggs (genAPrims blobOf) g accN seen (aggs.map reqOf) = none
      | some cols => ∃ colsN, specAggs (genAPrims blobOf) g accN seen (aggs.map reqOf) = some colsN ∧
          colsN.map (·.col) = cols ∧ ∀ k (h : k < colsN.length), colsN[k].pos = k := by
  intro aggs
  induction aggs with
  | nil =>
    intro accN seen _ hpos
    simp only [groupAggS.go, List.map_nil, specAggs]
    exact ⟨accN, rfl, rfl, hpos⟩
  | cons a as ih =>
    intro accN seen hseen hpos
    rw [List.map_cons, specAggs_cons, round_link blobOf F L gsL g wf hgs hcols hidx accN seen hseen a, go_cons]
    cases (viewOf F).find? a.col with
    | none => rfl
    | some c =>
      simp only
      generalize hnm : (if a.as.isEmpty then a.col else a.as) = nm
      cases hdup : (accN.map (·.col)).any (·.name == nm) with
      | true => rfl
      | false =>
        simp only [Bool.false_eq_true, if_false]
        cases aggApply a.fn c.ty with
        | none => rfl
        | some p =>
          obtain ⟨rt, gfn⟩ := p
          simp only
          have := ih (accN ++ [{ col := { name := nm, ty := rt, cells := (gsL.map fun grp => gfn (grp.map fun r => c.cells[r]!)).toArray },
                                 pos := accN.length }]) (nm :: seen)
            (by
              intro x
              rw [List.contains_cons, hseen, List.map_append, List.any_append, Bool.or_comm]
              simp [beq_comm_bytes x nm])
            (by
              intro k hk
              simp only [List.length_append, List.length_singleton] at hk
              by_cases hk' : k < accN.length
              · rw [List.getElem_append_left hk']; exact hpos k hk'
              · have : k = accN.length := by omega
                subst this
                simp)
          simpa [List.map_append] using this

/-- the key loop: the key columns of `groupAggS` over the groups `gsL`, at their positions -/
theorem keys_link (wf : WFrame F L) (hp : Plain F) (hb : BlobsOk blobOf F)
    (hgs : ∀ g ∈ gsL, g ≠ [] ∧ ∀ r ∈ g, r < F.index.length) (hcols : g.cols = F.cols) :
    ∀ (names : List Bytes) (keys : List LCol) (i : Nat), names.mapM F.find? = some keys →
      ∃ keysN, specKeys (genAPrims blobOf) g ((physGroups F.index gsL).map (·.head!)) i names = some keysN ∧
        keysN.map (·.col) = keys.map (fun c => (keyFn (logical F.index c)).on gsL) ∧
        ∀ k (h : k < keysN.length), keysN[k].pos = i + k := by
  intro names
  induction names with
  | nil =>
    intro keys i h
    simp at h; subst h
    exact ⟨[], rfl, rfl, fun k h => absurd h (Nat.not_lt_zero _)⟩
  | cons n ns ih =>
    intro keys i h
    simp only [List.mapM_cons, Option.bind_eq_bind] at h
    cases hf : F.find? n with
    | none => rw [hf] at h; simp at h
    | some c =>
      rw [hf] at h
      cases hr : ns.mapM F.find? with
      | none => rw [hr] at h; simp at h
      | some rest =>
        rw [hr] at h
        simp at h
        subst h
        obtain ⟨restN, h1, h2, h3⟩ := ih rest (i + 1) hr
        have hc : c ∈ F.cols := List.mem_of_find?_eq_some hf
        have hfind : g.cols.find? (·.name == n) = some c := by rw [hcols]; exact hf
        have hsub : (genAPrims blobOf).subset c ((physGroups F.index gsL).map (·.head!)) = (keyFn (logical F.index c)).on gsL := by
          show (genSubset blobOf c _).getD _ = _
          rw [key_link blobOf F L gsL wf hp hb hgs c hc]; rfl
        refine ⟨{ col := (keyFn (logical F.index c)).on gsL, pos := i } :: restN, ?_, by simp [h2], ?_⟩
        · simp only [specKeys, hfind, h1, hsub]
        · intro k hk
          cases k with
          | zero => rfl
          | succ j =>
            have := h3 j (by simpa using hk)
            simp only [List.getElem_cons_succ, this]; omega

end Callees

/-! ## `GroupBy(…).Aggregate(…)` -/

theorem specGroups_ok (gbNull : Bool) (keys : List LCol) (n : Nat) :
    ∀ g ∈ specGroups gbNull keys n, g ≠ [] ∧ ∀ r ∈ g, r < n := by
  intro g hg
  unfold specGroups at hg
  by_cases hn : n = 0
  · simp [hn] at hg
  · have hb : (n == 0) = false := by simpa using hn
    simp only [hb, Bool.false_eq_true, if_false] at hg
    cases hk : keys.isEmpty with
    | true =>
      simp only [hk, if_true, List.mem_singleton] at hg
      subst hg
      exact ⟨by intro e; exact hn (by simpa using e), fun r hr => List.mem_range.mp hr⟩
    | false =>
      simp only [hk, Bool.false_eq_true, if_false] at hg
      exact ⟨(C04Spec.groupsS_sorted gbNull keys n g hg).1, C04Spec.groupsS_bound gbNull keys n g hg⟩

theorem mapM_find_names {F : Frame} : ∀ {names : List Bytes} {keys : List LCol}, names.mapM F.find? = some keys →
    keys.map (·.name) = names := by
  intro names
  induction names with
  | nil => intro keys h; simp at h; subst h; rfl
  | cons n ns ih =>
    intro keys h
    simp only [List.mapM_cons, Option.bind_eq_bind] at h
    cases hf : F.find? n with
    | none => rw [hf] at h; simp at h
    | some k =>
      rw [hf] at h
      cases hr : ns.mapM F.find? with
      | none => rw [hr] at h; simp at h
      | some rest =>
        rw [hr] at h
        simp at h
        subst h
        have : (k.name == n) = true :=
          List.find?_some (p := fun x : LCol => x.name == n) (l := F.cols) hf
        simp only [List.map_cons, ih hr]
        rw [eq_of_beq this]

theorem contains_names (keys : List LCol) (f : LCol → LCol) (hf : ∀ c, (f c).name = c.name) (nm : Bytes) :
    (keys.map (·.name)).reverse.contains nm = (keys.map f).any (·.name == nm) := by
  rw [Bool.eq_iff_iff]
  simp only [List.contains_eq_mem, decide_eq_true_eq, List.mem_reverse, List.mem_map, List.any_eq_true, beq_iff_eq]
  constructor
  · rintro ⟨c, hc, rfl⟩
    exact ⟨f c, ⟨c, hc, rfl⟩, hf c⟩
  · rintro ⟨x, ⟨c, hc, rfl⟩, h⟩
    exact ⟨c, hc, (hf c).symm.trans h⟩

theorem mapM_find_none {F : Frame} {names : List Bytes} (h : names.all (fun n => (F.find? n).isSome) = false) :
    names.mapM F.find? = none := by
  cases hm : names.mapM F.find? with
  | none => rfl
  | some keys =>
    exfalso
    rw [List.all_eq_false] at h
    obtain ⟨n, hn, hx⟩ := h
    induction names generalizing keys with
    | nil => simp at hn
    | cons m ms ih =>
      simp only [List.mapM_cons, Option.bind_eq_bind] at hm
      cases hf : F.find? m with
      | none => rw [hf] at hm; simp at hm
      | some k =>
        rw [hf] at hm
        cases hr : ms.mapM F.find? with
        | none => rw [hr] at hm; simp at hm
        | some rest =>
          rcases List.mem_cons.mp hn with rfl | hn'
          · rw [hf] at hx; simp at hx
          · exact ih rest hr hn'

/-- what the regenerated callees do not do on the groups `GroupBy` hands to `Aggregate`: panic, or lack a meaning -/
def NoPanic (blobOf : LCol → BCol) (F : Frame) (C : Cfg) (aggs : List Agg) (groups : List (List Nat)) : Prop :=
  (∀ n ∈ C.columns, ∀ c, F.find? n = some c → (genSubset blobOf c (groups.map (·.head!))).isSome = true) ∧
  (∀ a ∈ aggs, a.fn ≠ .builtin "count" → ∀ c, F.find? a.col = some c → ∀ nm,
    aggOut { c with name := nm } groups a.fn ≠ .panic ∧ aggOut { c with name := nm } groups a.fn ≠ .stuck)

/-- **`GroupBy(…).Aggregate(…)` of today's source is `groupAggS` with the groups in SOME order.** For every
`hash.HashBytes` `H`, whatever `rand.Uint64()` returns, every loop budget ≥ 2^32, every representation `blobOf` of the
string columns as byte blobs behind pointers (`BlobsOk`), every well-formed physical frame `F` (`WFrame`: a
duplicate-free index of at most 2^30 rows into columns of one length, cells of the columns' types; `Plain`: only enum
columns carry a value table) that has not failed, every configuration (key columns, Null setting) and every list of
aggregations of the catalogue: there is a list `gsL` of groups of logical rows — a PERMUTATION of the groups the spec
forms (`specGroupsOf`) — such that `GroupBy(…).Aggregate(…)` as regenerated returns
* an error where `groupAggWith (viewOf F) gsL …` — `groupAggS` with its groups taken in the order `gsL` — is an error
  (a key column or source column the frame does not have, a result name used twice, an aggregation `aggApply` does not
  define for the column type);
* otherwise exactly the columns of `groupAggWith (viewOf F) gsL …`, physically (key columns first: each group's first
  row's key; then one column per aggregation: `aggApply`'s function on the cells of the group's rows in frame order),
  each at the position `pos` it has in the list, over the index `0 … number of groups - 1`;
and no callee panics or is without meaning on the way (`NoPanic`). -/
theorem gen_aggregate_structure (H : HashFn) (rnd : Bytes → Nat → UInt64) (fuel : Nat) (hF : 2 ^ 32 ≤ fuel)
    (blobOf : LCol → BCol) (F : Frame) (L : Nat) (wf : WFrame F L) (hp : Plain F) (hb : BlobsOk blobOf F)
    (he : F.err = false) (C : Cfg) (aggs : List Agg) :
    ∃ gsL : List (List Nat), gsL.Perm (specGroupsOf (viewOf F) C.gbNull C.columns) ∧
      (match groupAggWith (viewOf F) gsL C.columns aggs with
       | .err => genGroupAgg H rnd fuel blobOf F C aggs = some .err
       | .ok out => ∃ colsN, genGroupAgg H rnd fuel blobOf F C aggs = some (.ok colsN (List.range gsL.length)) ∧
           colsN.map (·.col) = out.cols ∧ out.n = gsL.length ∧ ∀ k (h : k < colsN.length), colsN[k].pos = k) ∧
      ∀ g, genGroupBy (genPrims H rnd fuel) F C = some g → g.err = false → NoPanic blobOf F C aggs g.indices := by
  cases hknown : C.columns.all (fun n => (F.find? n).isSome) with
  | false =>
    -- an unknown key column
    have hnone := mapM_find_none hknown
    have hgb : genGroupBy (genPrims H rnd fuel) F C = some { err := true } := by
      rw [← gen_groupby_err_iff]
      right
      rw [List.all_eq_false] at hknown
      obtain ⟨n, hn, hx⟩ := hknown
      exact ⟨n, hn, by cases hf : F.find? n with | none => rfl | some _ => simp [hf] at hx⟩
    refine ⟨[], ?_, ?_, ?_⟩
    · simp [specGroupsOf, mapM_find_view, hnone]
    · simp only [groupAggWith, mapM_find_view, hnone, Option.map_none]
      unfold genGroupAgg
      rw [hgb]
      simp only [Option.bind_some]
      rw [gen_aggregate_glue_semantics]
      rfl
    · intro g hg hge
      rw [hgb] at hg
      cases hg
      cases hge
  | true =>
    obtain ⟨g, keys, hgb, hge, hcols, hgrouped, hkeys, hperm⟩ := gen_groupby_partition H rnd fuel hF F L wf he C hknown
    obtain ⟨gsL, hpermL, hmap⟩ := perm_map_inv (fun grp : List Nat => grp.map fun a => F.index[a]!) _ _ hperm
    have hidx : g.indices = physGroups F.index gsL := hmap.symm
    have hsg : specGroupsOf (viewOf F) C.gbNull C.columns = specGroups C.gbNull (keys.map (logical F.index)) F.index.length := by
      unfold specGroupsOf
      rw [mapM_find_view, hkeys]
      rfl
    have hgs : ∀ grp ∈ gsL, grp ≠ [] ∧ ∀ r ∈ grp, r < F.index.length := fun grp hgrp =>
      specGroups_ok _ _ _ grp (hpermL.subset hgrp)
    have hne := phys_nonempty F.index gsL hgs
    refine ⟨gsL, by rw [hsg]; exact hpermL, ?_, ?_⟩
    · -- the result
      obtain ⟨keysN, hk1, hk2, hk3⟩ := keys_link blobOf F L gsL g wf hp hb hgs hcols C.columns keys 0 hkeys
      have hseen : ∀ nm, g.grouped.reverse.contains nm = (keysN.map (·.col)).any (·.name == nm) := by
        intro nm
        rw [hk2, hgrouped, ← mapM_find_names hkeys]
        exact contains_names keys (fun c => (keyFn (logical F.index c)).on gsL) (fun _ => rfl) nm
      have hloop := loop_link blobOf F L gsL g wf hgs hcols hidx aggs keysN g.grouped.reverse hseen
        (fun k h => by simpa using hk3 k h)
      have hkeysL : (keys.map (logical F.index)).map (fun c => ({ c with cells := (gsL.map fun grp => c.cells[grp.head!]!).toArray } : LCol)) =
          keysN.map (·.col) := by
        rw [hk2, List.map_map]; rfl
      have hrun : genGroupAgg H rnd fuel blobOf F C aggs = specAggregate (genAPrims blobOf) g (aggs.map reqOf) := by
        unfold genGroupAgg
        rw [hgb]
        simp only [Option.bind_some]
        exact gen_aggregate_glue_semantics _ _ _
      have hspec : specAggregate (genAPrims blobOf) g (aggs.map reqOf) =
          match specAggs (genAPrims blobOf) g keysN g.grouped.reverse (aggs.map reqOf) with
          | none => some .err
          | some cols => some (.ok cols (List.range g.indices.length)) := by
        unfold specAggregate
        rw [hidx, firsts_eq _ hne, hgrouped]
        simp only [hge, Bool.false_eq_true, if_false, hk1]
        rfl
      have hlen : g.indices.length = gsL.length := by rw [hidx]; simp [physGroups]
      simp only [groupAggWith, mapM_find_view, hkeys, Option.map_some, hkeysL]
      cases hgo : groupAggS.go (viewOf F) gsL (keysN.map (·.col)) aggs with
      | none =>
        rw [hgo] at hloop
        simp only at hloop ⊢
        rw [hrun, hspec, hloop]
      | some cols =>
        rw [hgo] at hloop
        obtain ⟨colsN, h1, h2, h3⟩ := hloop
        simp only
        exact ⟨colsN, by rw [hrun, hspec, h1, hlen], h2, trivial, h3⟩
    · -- no panic
      intro g' hg' _
      rw [hgb] at hg'
      cases hg'
      rw [hidx]
      refine ⟨?_, ?_⟩
      · intro n _ c hc
        rw [key_link blobOf F L gsL wf hp hb hgs c (List.mem_of_find?_eq_some hc)]
        rfl
      · intro a _ hcount c hc nm
        exact (agg_link F L gsL wf hgs c (List.mem_of_find?_eq_some hc) a.fn hcount nm).1

theorem groupAggWith_view (f : LFrame) (gs : List (List Nat)) (keyNames : List Bytes) (aggs : List Agg) (a : LFrame)
    (h : groupAggWith f gs keyNames aggs = .ok a) : viewOf { cols := a.cols, index := List.range gs.length } = a := by
  rw [groupAggWith_fns] at h
  cases hk : keyNames.mapM f.find? with
  | none => rw [hk] at h; cases h
  | some keys =>
    rw [hk] at h
    simp only at h
    cases hg : goFns f (keys.map keyFn) aggs with
    | none => rw [hg] at h; cases h
    | some ks =>
      rw [hg] at h
      simp only [Res.ok.injEq] at h
      subst h
      simp only [viewOf, List.length_range, List.map_map]
      congr 1
      apply List.map_congr_left
      intro k _
      exact range_logical gs.length (k.on gs) (by simp [ColFn.on])

/-- **`GroupBy(…).Aggregate(…)` of today's source, end to end, against `groupAggS`** (QF/Spec/Ops.lean). Under the
hypotheses of `gen_aggregate_structure` — every hash function and random source, every representation of the string
columns, every well-formed physical frame that has not failed, every key list, Null setting and aggregation list of the
catalogue —: where the spec is an error (unknown key column, unknown source column, duplicate result name, aggregation
not defined for the column type) the regenerated code returns an error; where the spec is the frame `exp`, the code
returns columns at their positions over the index `0 … exp.n - 1` which the user sees as a frame `out` with `exp`'s
number of rows, column names, types, enum value tables and strictness, whose rows are a PERMUTATION of `exp`'s rows
(the order of the groups is not specified): for each group the key values of its first row, then one value per
aggregation computed on exactly that group's cells in frame order. -/
theorem gen_aggregate_end_to_end (H : HashFn) (rnd : Bytes → Nat → UInt64) (fuel : Nat) (hF : 2 ^ 32 ≤ fuel)
    (blobOf : LCol → BCol) (F : Frame) (L : Nat) (wf : WFrame F L) (hp : Plain F) (hb : BlobsOk blobOf F)
    (he : F.err = false) (C : Cfg) (aggs : List Agg) :
    match groupAggS (viewOf F) C.gbNull C.columns aggs with
    | .err => genGroupAgg H rnd fuel blobOf F C aggs = some .err
    | .ok exp => ∃ colsN out, genGroupAgg H rnd fuel blobOf F C aggs = some (.ok colsN (List.range exp.n)) ∧
        (∀ k (h : k < colsN.length), colsN[k].pos = k) ∧
        viewOfRes (.ok colsN (List.range exp.n)) = .ok out ∧
        out.n = exp.n ∧ out.names = exp.names ∧ out.cols.map (·.ty) = exp.cols.map (·.ty) ∧
        out.cols.map (·.vals) = exp.cols.map (·.vals) ∧ out.cols.map (·.strict) = exp.cols.map (·.strict) ∧
        out.rows.Perm exp.rows := by
  obtain ⟨gsL, hperm, hres, _⟩ := gen_aggregate_structure H rnd fuel hF blobOf F L wf hp hb he C aggs
  have hpm := groupAggWith_perm (viewOf F) gsL _ hperm C.columns aggs
  rw [groupAggS_eq]
  cases hA : groupAggWith (viewOf F) gsL C.columns aggs with
  | err =>
    rw [hA] at hpm hres
    cases hB : groupAggWith (viewOf F) (specGroupsOf (viewOf F) C.gbNull C.columns) C.columns aggs with
    | err => exact hres
    | ok b => rw [hB] at hpm; exact hpm.elim
  | ok a =>
    rw [hA] at hpm hres
    cases hB : groupAggWith (viewOf F) (specGroupsOf (viewOf F) C.gbNull C.columns) C.columns aggs with
    | err => rw [hB] at hpm; exact hpm.elim
    | ok b =>
      rw [hB] at hpm
      obtain ⟨colsN, h1, h2, h3, h4⟩ := hres
      obtain ⟨p1, p2, p3, p4, p5, p6⟩ := hpm
      have hn : b.n = gsL.length := by rw [← p1, h3]
      refine ⟨colsN, a, by rw [hn]; exact h1, h4, ?_, p1, p2, p3, p4, p5, p6⟩
      simp only [viewOfRes, h2, hn]
      rw [groupAggWith_view (viewOf F) gsL C.columns aggs a hA]

/-! ## `GroupBy(…).QFrames()` -/

theorem view_group (F : Frame) (grp : List Nat) (h : ∀ r ∈ grp, r < F.index.length) :
    viewOf { cols := F.cols, index := grp.map fun a => F.index[a]! } = (viewOf F).pick grp := by
  simp only [viewOf, LFrame.pick, List.length_map, List.map_map]
  congr 1
  apply List.map_congr_left
  intro c _
  simp only [Function.comp, logical, List.map_map]
  congr 2
  apply List.map_congr_left
  intro r hr
  simp [h r hr]

/-- **`GroupBy(…).QFrames()` of today's source, end to end.** For every well-formed physical frame that has not failed:
with a configured column the frame does not have, `QFrames` returns the error; otherwise it returns one frame per group
without error, each sharing the frame's columns, whose indices are — up to the order of the frames — the spec's groups
(`specGroupsOf`: `groupsS` over the key columns, all rows without key columns, no group without rows) written in physical
rows, so that the user sees in the `k`-th frame exactly the rows of the `k`-th group, in frame order (`LFrame.pick`). -/
theorem gen_qframes_end_to_end (H : HashFn) (rnd : Bytes → Nat → UInt64) (fuel : Nat) (hF : 2 ^ 32 ≤ fuel)
    (F : Frame) (L : Nat) (wf : WFrame F L) (he : F.err = false) (C : Cfg) :
    ∃ g, genGroupBy (genPrims H rnd fuel) F C = some g ∧
      if C.columns.all (fun n => (F.find? n).isSome) then
        ∃ (frames : List Frame) (gsL : List (List Nat)), genQFrames g = some (some frames) ∧ gsL.Perm (specGroupsOf (viewOf F) C.gbNull C.columns) ∧
          frames = gsL.map (fun grp => { cols := F.cols, index := grp.map fun a => F.index[a]!, err := false }) ∧
          frames.map viewOf = gsL.map (viewOf F).pick
      else genQFrames g = some none := by
  cases hknown : C.columns.all (fun n => (F.find? n).isSome) with
  | false =>
    have hgb : genGroupBy (genPrims H rnd fuel) F C = some { err := true } := by
      rw [← gen_groupby_err_iff]
      right
      rw [List.all_eq_false] at hknown
      obtain ⟨n, hn, hx⟩ := hknown
      exact ⟨n, hn, by cases hf : F.find? n with | none => rfl | some _ => simp [hf] at hx⟩
    exact ⟨_, hgb, by simp [gen_qframes_semantics]⟩
  | true =>
    obtain ⟨g, keys, hgb, hge, hcols, _, hkeys, hperm⟩ := gen_groupby_partition H rnd fuel hF F L wf he C hknown
    obtain ⟨gsL, hpermL, hmap⟩ := perm_map_inv (fun grp : List Nat => grp.map fun a => F.index[a]!) _ _ hperm
    have hsg : specGroupsOf (viewOf F) C.gbNull C.columns = specGroups C.gbNull (keys.map (logical F.index)) F.index.length := by
      unfold specGroupsOf
      rw [mapM_find_view, hkeys]
      rfl
    refine ⟨g, hgb, ?_⟩
    simp only [if_true]
    refine ⟨_, gsL, by rw [gen_qframes_semantics, hge]; rfl, by rw [hsg]; exact hpermL, ?_, ?_⟩
    · rw [← hmap, hcols, List.map_map]; rfl
    · rw [← hmap, hcols, List.map_map, List.map_map]
      apply List.map_congr_left
      intro grp hgrp
      exact view_group F grp (specGroups_ok _ _ _ grp (hpermL.subset hgrp)).2

/-! ## A concrete input that meets the hypotheses -/

section Example

/-- five physical rows, of which the frame shows rows 4, 0, 2, 1 in that order (after a filter and a sort, say):
an int key `k`, a string column `s` (with a null and an empty string), an int column `v`, an enum column `e` (with a null) -/
def exF : Frame :=
  { cols := [{ name := [107], ty := .int, cells := #[.int 1, .int 2, .int 1, .int 2, .int 3] },
             { name := [115], ty := .string, cells := #[.str (some [97]), .str none, .str (some [98, 99]), .str (some []), .str (some [100])] },
             { name := [118], ty := .int, cells := #[.int 10, .int 20, .int 30, .int 40, .int 50] },
             { name := [101], ty := .enum, vals := [[108, 111], [104, 105]], strict := true,
               cells := #[.str (some [104, 105]), .str (some [108, 111]), .str none, .str (some [104, 105]), .str (some [108, 111])] }]
    index := [4, 0, 2, 1] }

/-- the string column as stored: "a" | null | "bc" | "" | "d" in the blob "abcd" -/
def exBlob : LCol → BCol := fun _ =>
  { ptrs := [⟨0, 1, false⟩, ⟨1, 0, true⟩, ⟨1, 2, false⟩, ⟨3, 0, false⟩, ⟨3, 1, false⟩], data := [97, 98, 99, 100] }

/-- `sum(v)`, `count(v) as n`, the user's `first(s)` and `first(e)` -/
def exAggs : List Agg :=
  [⟨.builtin "sum", [118], []⟩, ⟨.builtin "count", [118], [110]⟩, ⟨.user "first", [115], []⟩, ⟨.user "first", [101], [102]⟩]

/-- the hypotheses of `gen_aggregate_structure` / `gen_aggregate_end_to_end` / `gen_qframes_end_to_end` hold for it -/
example : WFrame exF 5 ∧ Plain exF ∧ BlobsOk exBlob exF ∧ exF.err = false := by
  refine ⟨⟨by decide, by decide, by decide, ?_⟩, ?_, ?_, rfl⟩
  · intro c hc
    simp only [exF, List.mem_cons, List.not_mem_nil, or_false] at hc
    rcases hc with rfl | rfl | rfl | rfl <;> exact ⟨by decide, rfl, by decide⟩
  · intro c hc hne
    simp only [exF, List.mem_cons, List.not_mem_nil, or_false] at hc
    rcases hc with rfl | rfl | rfl | rfl <;> first | exact ⟨rfl, rfl⟩ | exact absurd rfl hne
  · intro c hc hty
    simp only [exF, List.mem_cons, List.not_mem_nil, or_false] at hc
    rcases hc with rfl | rfl | rfl | rfl <;> first | cases hty | skip
    refine ⟨?_, by decide⟩
    intro p hp _
    simp only [exBlob, List.mem_cons, List.not_mem_nil, or_false] at hp
    rcases hp with rfl | rfl | rfl | rfl | rfl <;> decide

/-- … and the spec is not trivial on it: grouped by `k` the groups are the rows with keys 3, 1, 2 in frame order -/
theorem ex_groups : specGroupsOf (viewOf exF) false [[107]] = [[0], [1, 2], [3]] := by
  have : specGroupsOf (viewOf exF) false [[107]] = groupsS false [logical exF.index exF.cols[0]] 4 := by rfl
  rw [this, C04Spec.groupsS_eq_foldl_stepL]
  decide

example : (match groupAggS (viewOf exF) false [[107]] exAggs with
    | .ok f => some (f.names, f.rows)
    | .err => none) =
    some ([[107], [118], [110], [115], [102]],
      [[.int 3, .int 50, .int 1, .str (some [100]), .str (some [108, 111])],
       [.int 1, .int 40, .int 2, .str (some [97]), .str (some [104, 105])],
       [.int 2, .int 20, .int 1, .str none, .str (some [108, 111])]]) := by
  rw [groupAggS_eq, ex_groups]
  rfl

end Example

end QF.Props.C04EndToEnd

#print axioms QF.Props.C04EndToEnd.groupAggS_eq
#print axioms QF.Props.C04EndToEnd.groupAggWith_perm
#print axioms QF.Props.C04EndToEnd.gen_aggregate_structure
#print axioms QF.Props.C04EndToEnd.gen_aggregate_end_to_end
#print axioms QF.Props.C04EndToEnd.gen_qframes_end_to_end
