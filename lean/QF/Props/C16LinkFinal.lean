import QF.Props.C16Link
import QF.Props.C16Precision
/-!
# C16 — the unconditional statement: the text of the mirror pipeline is the shortest round-trip text

`ryu_text_is_shortest`: `ryu_text_is_shortest_partial` of `C16Link` without its hypothesis.  The general-algorithm branch uses
`C16Core.ryu_shortest` (`C16Precision`: Ryu's precision lemma for the extracted tables, with the two floats for which the
per-float hypothesis of `ryu_shortest_partial` is false — `hypothesis_fails` — treated directly) instead of
`ryu_shortest_partial`; the rest is `shortest_of_spec`, `shortest_of_exactInt`, `isShortest_of_shortest`, `appendF_content`
and `C16Round.parsesTo_unique` as before.
-/
namespace QF.Props.C16Link
open QF.Num QF.Ryu64 QF.Props.C16Round QF.Props.C16Core

/-- the decimal the hook `decimal` returns for the fields of a finite non-zero float64 is `Shortest` for its magnitude: in
the rounding interval, no decimal with fewer digits is, none of that length is closer — no hypotheses
(fast path: `shortest_of_exactInt`; general algorithm: `ryu_shortest` + `shortest_of_spec`) -/
theorem decimal_shortest (b : UInt64) (dy : Num.Dyadic) (hd : decode b = some dy) (h0 : dy.m ≠ 0) :
    Shortest (magBits b) ⟨false, dy.m, dy.e⟩ (decimal (mantOf b) (expOf b)).1 (decimal (mantOf b) (expOf b)).2.1 := by
  have hd0 := decode_magBits b dy hd
  have F := fields_of_decode (magBits b) ⟨false, dy.m, dy.e⟩ hd0 h0
  have hml : mantOf b < 2 ^ 52 := by have := F.mant_lt; rwa [mantOf_magBits] at this
  have hel : expOf b < 2047 := by have := F.exp_lt; rwa [expOf_magBits] at this
  have hnz : mantOf b ≠ 0 ∨ expOf b ≠ 0 := by have := F.nz; rwa [mantOf_magBits, expOf_magBits] at this
  have hdec : decimal (mantOf b) (expOf b) =
      ((if (float64ToDecimalExactInt (mantOf b) (expOf b)).2 = true then (float64ToDecimalExactInt (mantOf b) (expOf b)).1
          else float64ToDecimal (mantOf b) (expOf b)).m,
       (if (float64ToDecimalExactInt (mantOf b) (expOf b)).2 = true then (float64ToDecimalExactInt (mantOf b) (expOf b)).1
          else float64ToDecimal (mantOf b) (expOf b)).e,
       (float64ToDecimalExactInt (mantOf b) (expOf b)).2) := rfl
  rw [hdec]
  generalize hr : float64ToDecimalExactInt (mantOf b) (expOf b) = r
  obtain ⟨d, ok⟩ := r
  cases ok with
  | true =>
    simp only [if_true]
    apply shortest_of_exactInt (magBits b) _ _ hd0 h0
    rw [mantOf_magBits, expOf_magBits]
    exact hr
  | false =>
    simp only [Bool.false_eq_true, if_false]
    obtain ⟨k, hk, hS⟩ := ryu_shortest (mantOf b) (expOf b) hml hel hnz
    rw [hk]
    have := shortest_of_spec (magBits b) ⟨false, dy.m, dy.e⟩ hd0 h0 (float64ToDecimal (mantOf b) (expOf b)).m k
      (by rw [mantOf_magBits, expOf_magBits]; exact hS)
    rw [expOf_magBits] at this
    exact this

/-- **`ryu_text_is_shortest` (C16, unconditional for the mirror pipeline).** For every finite non-zero float64 `b` (either
sign; `decode b = some dy`, `dy.m ≠ 0`) and every state of the output buffer (content, stale spare capacity, whatever a
reallocation leaves behind): the text that `appendF` — sign, `decimalLen64`, the three digit layouts — appends for the decimal
computed by `Ryu64.decimal` (exact-integer fast path, else `float64ToDecimal`)
* passes `Num.isShortestRoundTrip b`: plain positional notation in canonical form, parses back to exactly `b` under correct
  rounding (`Num.ofDecimal`, proved IEEE nearest-even in `C16Round`), no decimal with fewer significant digits does, and none
  of that length in the rounding interval is closer to the float's exact value;
* passes `Num.parsesTo b`, and every finite float64 of the text's sign that is an IEEE nearest-even rounding of the number the
  text denotes — what any correct parser returns — is `b` itself.
No hypothesis about the `mulShift64` products is left (`C16Core.ryu_shortest`). -/
theorem ryu_text_is_shortest (b : UInt64) (dy : Num.Dyadic) (hd : decode b = some dy) (h0 : dy.m ≠ 0)
    (buf : AF.Buf) (extraS extra0 extra : List AF.Byte) :
    ∃ text,
      (appendF buf dy.neg (decimal (mantOf b) (expOf b)).1 (decimal (mantOf b) (expOf b)).2.1 extraS extra0 extra).content
        = buf.content ++ text ∧
      isShortestRoundTrip b text = true ∧ parsesTo b text = true ∧
      ∀ (bits' : UInt64) (dy' : Num.Dyadic) (neg : Bool) (m : Nat) (d : Int),
        parsePositional text = some (neg, m, d) → decode bits' = some dy' → dy'.neg = neg →
        IsNearest (decNum m d) (decDen d) dy'.m dy'.e → bits' = b := by
  have S := decimal_shortest b dy hd h0
  generalize (decimal (mantOf b) (expOf b)).1 = m at S ⊢
  generalize (decimal (mantOf b) (expOf b)).2.1 = e at S ⊢
  have hm0 : m ≠ 0 := by have := S.pos; omega
  obtain ⟨_, hhi⟩ := decimalLen64_spec57 m hm0 S.lt
  obtain ⟨r1, r2⟩ := isShortest_of_shortest b dy hd h0 m e S
  exact ⟨_, appendF_content buf dy.neg m e extraS extra0 extra hhi, r1, r2,
    fun bits' dy' neg m' d' hp hd' hs hn => parsesTo_unique r2 hp hd' hs hn⟩

/-- the text itself: the sign and `positional m e` for `(m, e, _) = decimal (mantOf b) (expOf b)` -/
theorem ryu_text_eq (b : UInt64) (dy : Num.Dyadic) (hd : decode b = some dy) (h0 : dy.m ≠ 0)
    (buf : AF.Buf) (extraS extra0 extra : List AF.Byte) :
    (appendF buf dy.neg (decimal (mantOf b) (expOf b)).1 (decimal (mantOf b) (expOf b)).2.1 extraS extra0 extra).content
      = buf.content ++ ((if dy.neg then [45] else []) ++
          positional (decimal (mantOf b) (expOf b)).1 (decimal (mantOf b) (expOf b)).2.1) := by
  have S := decimal_shortest b dy hd h0
  have hm0 : (decimal (mantOf b) (expOf b)).1 ≠ 0 := by have := S.pos; omega
  exact appendF_content _ _ _ _ _ _ _ (decimalLen64_spec57 _ hm0 S.lt).2

/-- instantiated at 0.1 (general algorithm) and −3.0 (fast path): no side conditions beyond `decode` -/
example (buf : AF.Buf) (x y z : List AF.Byte) :=
  ryu_text_is_shortest 0x3FB999999999999A ⟨false, 7205759403792794, -56⟩ (by decide) (by decide) buf x y z
example (buf : AF.Buf) (x y z : List AF.Byte) :=
  ryu_text_is_shortest 0xC008000000000000 ⟨true, 6755399441055744, -51⟩ (by decide) (by decide) buf x y z

#print axioms decimal_shortest
#print axioms ryu_text_is_shortest
#print axioms ryu_text_eq

end QF.Props.C16Link
