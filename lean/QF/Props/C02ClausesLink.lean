import QF.Props.C02ClausesGen
import QF.Props.C02Mirror
/-!
# C02 — `mirrorFilter_eq_spec_today` speaks about the regenerated clause evaluation

`C02ClausesGen.gen_clause_filter_semantics` (the functions extracted today = the hand mirror `F.Clause.filter`, for every
clause tree and frame) composed with `C02Mirror.mirrorFilter_eq_spec_today` (the hand mirror on the mirror clause of a
spec clause = the spec's `keptRows`).
-/
namespace QF.Props.C02ClausesGen
open QF.CL

variable (O : F.Leaf → LeafCalls)

/-- the extracted code run on the mirror clause of a spec clause, read as the replay driver reads the mirror -/
def genFilter (lo : LikeOracle) (f : LFrame) (c : QF.Clause) : Option (List Nat) :=
  match interp Gen.clauseFns O (Drv.mirrorClause lo f c) { index := List.range f.n } with
  | some r => if r.err then none else some r.index
  | none => none

theorem gen_filter_eq_mirror (hO : ∀ l, (O l).Abstracts l) (lo : LikeOracle) (f : LFrame) (c : QF.Clause) :
    genFilter O lo f c = Drv.mirrorFilter lo f c := by
  simp only [genFilter, gen_clause_filter_semantics O hO, Drv.mirrorFilter]

/-- `mirrorFilter_eq_spec_today` for the extracted code: it fails exactly on the clauses that are not well formed and
otherwise keeps exactly the spec's `keptRows`. -/
theorem gen_filter_eq_spec_today (hO : ∀ l, (O l).Abstracts l) (lo : LikeOracle) (f : LFrame) (c : QF.Clause)
    (hf : C02Mirror.IntColsNonNull f) :
    genFilter O lo f c = if c.wellFormed lo f then some (keptRows lo f c) else none := by
  rw [gen_filter_eq_mirror O hO, C02Mirror.mirrorFilter_eq_spec_today lo f c hf]

end QF.Props.C02ClausesGen
