import QF.Props.C12Read
/-!
# C13 (writer side): what `QFrame.ToCSV` writes is read back

`QFrame.ToCSV` (/repo/qframe.go) hands each row of strings to Go's `encoding/csv.Writer`
(`Writer.Write`, `Writer.fieldNeedsQuotes` of `$GOROOT/src/encoding/csv/writer.go`, go1.23.5), with
`Comma = ','` and `UseCRLF = false`.

* §1  `csvWrite`: byte-exact mirror of `Writer.Write` applied to each record
* §2  `csvWrite_eq_render`: the writer is `renderDoc 44` of C13Render for the quoting choice `needsQuotes`;
      `needsQuotes_admissible`: the choice is admissible (every field that must be quoted is quoted)
* §3  `parse_write` (`rfcParse` inverts the writer), `read_write` (so does qframe's own reader, the mirror
      `Full.readAll`, for every read schedule), the counterexamples that show the hypotheses are needed
* §4  `tocsvRows`: the records `ToCSV` hands to the writer for a logical frame, and the corollaries

## What is modelled of `fieldNeedsQuotes`

`Comma = ','` (44), so the branch `w.Comma < utf8.RuneSelf` is the one taken. `unicode.IsSpace(r1)` for the
first rune `r1 = utf8.DecodeRuneInString(field)` is modelled completely (`firstRuneIsSpace`): the Latin-1
cases `\t \n \v \f \r`, space, U+0085, U+00A0 and the rest of Unicode's `White_Space` (U+1680,
U+2000‥U+200A, U+2028, U+2029, U+202F, U+205F, U+3000), each recognised by its (unique, shortest-form)
UTF-8 encoding at the head of the field. Invalid or truncated UTF-8 decodes to U+FFFD, which is not a space;
no other rune is a space. None of this matters for the round trip: quoting more than necessary is always
admissible (`parse_render` / `read_render'` hold for EVERY admissible quoting choice).
-/
namespace QF.Props.C13Write
open QF.Props.C13 (mustQuote renderField renderFields renderRow renderDoc RowOkCore parse_render_core)
open QF.Props.C12Read (FieldOk' LastNoCR RowOk' read_render' read_render_fuel')

/-! ## §1 the mirror of `encoding/csv.Writer` -/

/-- `unicode.IsSpace(r1)` where `r1, _ := utf8.DecodeRuneInString(field)`. -/
def firstRuneIsSpace (f : Bytes) : Bool :=
  match f with
  | [] => false           -- (not reached: the empty field is handled first)
  | b0 :: t =>
    -- '\t', '\n', '\v', '\f', '\r', ' '
    if b0 == 9 || b0 == 10 || b0 == 11 || b0 == 12 || b0 == 13 || b0 == 32 then true
    else match t with
      | [] => false
      | b1 :: t' =>
        -- U+0085 (NEL) = C2 85, U+00A0 (NBSP) = C2 A0
        if b0 == 0xC2 then b1 == 0x85 || b1 == 0xA0
        else match t' with
          | [] => false
          | b2 :: _ =>
            -- U+1680 = E1 9A 80
            (b0 == 0xE1 && b1 == 0x9A && b2 == 0x80) ||
            -- U+2000‥U+200A = E2 80 80‥8A, U+2028 = E2 80 A8, U+2029 = E2 80 A9, U+202F = E2 80 AF
            (b0 == 0xE2 && b1 == 0x80 &&
              ((decide (0x80 ≤ b2) && decide (b2 ≤ 0x8A)) || b2 == 0xA8 || b2 == 0xA9 || b2 == 0xAF)) ||
            -- U+205F = E2 81 9F
            (b0 == 0xE2 && b1 == 0x81 && b2 == 0x9F) ||
            -- U+3000 = E3 80 80
            (b0 == 0xE3 && b1 == 0x80 && b2 == 0x80)

/-- `Writer.fieldNeedsQuotes` with `Comma = ','`. -/
def needsQuotes (f : Bytes) : Bool :=
  if f = [] then false                      -- if field == "" { return false }
  else if f = [92, 46] then true            -- if field == `\.` { return true }
  else if f.any (fun c => c == 10 || c == 13 || c == 34 || c == 44) then true
  else firstRuneIsSpace f

/-- the bytes `strings.IndexAny(field, "\"\r\n")` looks for -/
def isSpecial (c : UInt8) : Bool := c == 34 || c == 13 || c == 10

/-- The loop `for len(field) > 0 { … }` of `Writer.Write` between the two quotes, `UseCRLF = false`;
one iteration per unit of `fuel` (the loop consumes at least one byte per iteration unless it ends). -/
def quoteLoop : Nat → Bytes → Bytes
  | 0, _ => []
  | fuel + 1, field =>
    if field = [] then [] else
    -- i := strings.IndexAny(field, "\"\r\n"); if i < 0 { i = len(field) }
    let pre := field.takeWhile (fun c => !isSpecial c)     -- field[:i], copied verbatim
    let rest := field.dropWhile (fun c => !isSpecial c)    -- field = field[i:]
    pre ++
      match rest with
      | [] => []
      | c :: rest' =>
        -- switch field[0]
        (if c == 34 then [34, 34]              -- case '"':  `""`
         else if c == 13 then [13]             -- case '\r': if !w.UseCRLF { WriteByte('\r') }
         else if c == 10 then [10]             -- case '\n': WriteByte('\n')
         else []) ++
        quoteLoop fuel rest'                   -- field = field[1:]

/-- one field as `Writer.Write` writes it -/
def writeField (f : Bytes) : Bytes :=
  if !needsQuotes f then f
  else [34] ++ quoteLoop (f.length + 1) f ++ [34]

/-- `for n, field := range record`: a comma before every field but the first -/
def writeFields : Nat → List Bytes → Bytes
  | _, [] => []
  | n, f :: fs => (if n > 0 then [44] else []) ++ writeField f ++ writeFields (n + 1) fs

/-- `Writer.Write(record)`: the fields, then `\n` -/
def writeRecord (r : List Bytes) : Bytes := writeFields 0 r ++ [10]

/-- `Writer.Write` applied to each record in turn (what `WriteAll`, or ToCSV's loop, emits) -/
def csvWrite (rows : List (List Bytes)) : Bytes := rows.flatMap writeRecord

/-! ## §2 the writer is a rendering with an admissible quoting choice -/

/-- the quoting choice of the writer -/
def tag (f : Bytes) : Bool × Bytes := (needsQuotes f, f)

theorem dropWhile_head {α} (p : α → Bool) : ∀ (l : List α) (c : α) (r : List α),
    l.dropWhile p = c :: r → p c = false ∧ r.length < l.length := by
  intro l
  induction l with
  | nil => intro c r h; simp at h
  | cons x xs ih =>
    intro c r h
    by_cases hp : p x = true
    · rw [List.dropWhile_cons_of_pos hp] at h
      have := ih c r h
      exact ⟨this.1, by simp only [List.length_cons]; omega⟩
    · rw [List.dropWhile_cons_of_neg hp] at h
      simp only [List.cons.injEq] at h
      obtain ⟨rfl, rfl⟩ := h
      exact ⟨by simpa using hp, by simp⟩

theorem takeWhile_all {α} (p : α → Bool) (l : List α) : ∀ c ∈ l.takeWhile p, p c = true := by
  induction l with
  | nil => intro c h; simp at h
  | cons x xs ih =>
    intro c h
    by_cases hp : p x = true
    · rw [List.takeWhile_cons_of_pos hp] at h
      simp only [List.mem_cons] at h
      rcases h with rfl | h
      · exact hp
      · exact ih c h
    · rw [List.takeWhile_cons_of_neg hp] at h
      simp at h

/-- escaping leaves bytes other than the quote alone -/
theorem esc_id (l : Bytes) (h : ∀ c ∈ l, c ≠ 34) :
    l.flatMap (fun c => if c == 34 then [34, 34] else [c]) = l := by
  induction l with
  | nil => rfl
  | cons x xs ih =>
    have hx : (x == 34) = false := by simpa using h x (by simp)
    simp only [List.flatMap_cons, hx, Bool.false_eq_true, ↓reduceIte, List.singleton_append, List.cons.injEq, true_and]
    exact ih (fun c hc => h c (by simp [hc]))

/-- The loop of `Writer.Write` doubles every quote and copies everything else (CR and LF included). -/
theorem quoteLoop_eq (fuel : Nat) : ∀ (f : Bytes), f.length < fuel →
    quoteLoop fuel f = f.flatMap (fun c => if c == 34 then [34, 34] else [c]) := by
  induction fuel with
  | zero => intro f h; omega
  | succ n ih =>
    intro f hf
    unfold quoteLoop
    by_cases he : f = []
    · subst he; rfl
    · simp only [he, ↓reduceIte]
      have hsplit := List.takeWhile_append_dropWhile (p := fun c => !isSpecial c) (l := f)
      have hpre : ∀ c ∈ f.takeWhile (fun c => !isSpecial c), c ≠ 34 := by
        intro c hc h34
        have := takeWhile_all (fun c => !isSpecial c) f c hc
        subst h34
        simp [isSpecial] at this
      conv => rhs; rw [← hsplit]
      rw [List.flatMap_append, esc_id _ hpre]
      congr 1
      cases hd : f.dropWhile (fun c => !isSpecial c) with
      | nil => rfl
      | cons c r =>
        obtain ⟨hc, hlen⟩ := dropWhile_head _ f c r hd
        have hr := ih r (by omega)
        simp only [List.flatMap_cons, hr]
        congr 1
        have hsp : isSpecial c = true := by simpa using hc
        simp only [isSpecial, Bool.or_eq_true, beq_iff_eq] at hsp
        rcases hsp with (h | h) | h <;> subst h <;> decide

theorem writeField_eq (f : Bytes) : writeField f = renderField (needsQuotes f) f := by
  unfold writeField renderField
  cases needsQuotes f with
  | false => rfl
  | true =>
    simp only [Bool.not_true, Bool.false_eq_true, ↓reduceIte]
    rw [quoteLoop_eq _ f (by omega)]

/-- fields after the first: each is preceded by a comma -/
theorem writeFields_succ (n : Nat) (fs : List Bytes) :
    writeFields (n + 1) fs = fs.flatMap (fun f => 44 :: writeField f) := by
  induction fs generalizing n with
  | nil => rfl
  | cons f fs ih =>
    simp only [writeFields, Nat.zero_lt_succ, ↓reduceIte, List.flatMap_cons, ih (n + 1)]
    simp

theorem renderFields_cons (delim : UInt8) (p : Bool × Bytes) (rest : List (Bool × Bytes)) :
    renderFields delim (p :: rest) = renderField p.1 p.2 ++ rest.flatMap (fun q => delim :: renderField q.1 q.2) := by
  induction rest generalizing p with
  | nil => simp [renderFields]
  | cons q qs ih =>
    simp only [renderFields, ih q, List.flatMap_cons]
    simp

theorem writeFields_eq (r : List Bytes) : writeFields 0 r = renderFields 44 (r.map tag) := by
  cases r with
  | nil => rfl
  | cons f fs =>
    simp only [writeFields, Nat.lt_irrefl, ↓reduceIte, List.nil_append, List.map_cons, renderFields_cons,
      writeFields_succ, writeField_eq, tag, List.flatMap_map]

theorem writeRecord_eq (r : List Bytes) : writeRecord r = renderRow 44 (r.map tag) := by
  simp only [writeRecord, renderRow, writeFields_eq]

/-- **The writer is a rendering**: `Writer.Write` on each record = `renderDoc` with the quoting choice
`needsQuotes`. -/
theorem csvWrite_eq_render (rows : List (List Bytes)) :
    csvWrite rows = renderDoc 44 (rows.map (·.map (fun f => (needsQuotes f, f)))) := by
  simp only [csvWrite, renderDoc, List.flatMap_map]
  congr 1
  funext r
  exact writeRecord_eq r

/-- **The choice is admissible**: every field that must be quoted (contains the comma, a quote, LF or CR)
is quoted by the writer. -/
theorem needsQuotes_admissible {f : Bytes} : mustQuote 44 f = true → needsQuotes f = true := by
  intro h
  simp only [mustQuote, List.any_eq_true] at h
  obtain ⟨c, hc, hcc⟩ := h
  have hany : f.any (fun c => c == 10 || c == 13 || c == 34 || c == 44) = true := by
    rw [List.any_eq_true]
    refine ⟨c, hc, ?_⟩
    simp only [Bool.or_eq_true] at hcc ⊢
    rcases hcc with ((h | h) | h) | h
    · exact Or.inr h
    · exact Or.inl (Or.inr h)
    · exact Or.inl (Or.inl (Or.inl h))
    · exact Or.inl (Or.inl (Or.inr h))
  unfold needsQuotes
  have hne : f ≠ [] := by intro h; subst h; simp at hc
  simp only [hne, ↓reduceIte, hany]
  split <;> rfl

/-- … and the writer quotes exactly: what must be quoted, the field `\.`, and fields whose first rune is
a space. -/
theorem needsQuotes_iff (f : Bytes) :
    needsQuotes f = (mustQuote 44 f || f == [92, 46] || (f != [] && firstRuneIsSpace f)) := by
  have hany : f.any (fun c => c == 10 || c == 13 || c == 34 || c == 44) = mustQuote 44 f := by
    unfold mustQuote
    congr 1
    funext c
    cases c == 10 <;> cases c == 13 <;> cases c == 34 <;> cases c == 44 <;> rfl
  unfold needsQuotes
  rw [hany]
  by_cases h1 : f = []
  · subst h1; rfl
  · by_cases h2 : f = [92, 46]
    · subst h2; rfl
    · have h2' : (f == [92, 46]) = false := by simpa using h2
      have h1' : (f != []) = true := by simpa using h1
      simp only [h1, h2, ↓reduceIte, h2', h1', Bool.or_false, Bool.true_and]
      cases mustQuote 44 f <;> simp

theorem map_tag_snd (r : List Bytes) : (r.map tag).map (·.2) = r := by
  simp [tag, Function.comp_def]

theorem rows_tag_snd (rows : List (List Bytes)) :
    (rows.map (·.map (fun f => (needsQuotes f, f)))).map (·.map (·.2)) = rows := by
  simp [Function.comp_def]

/-! ## §3 main theorems -/

/-- `Reader.Next` of qframe's reader trims one trailing CR of the last field of a row: the last field of the
record must not end with CR. -/
def LastFieldNoCR (r : List Bytes) : Prop := ∀ f, r.getLast? = some f → f.getLast? ≠ some 13

instance (r : List Bytes) : Decidable (LastFieldNoCR r) :=
  match h : r.getLast? with
  | none => isTrue (fun f hf => by rw [h] at hf; cases hf)
  | some g =>
    if hg : g.getLast? = some 13 then isFalse (fun hh => hh g h hg)
    else isTrue (fun f hf => by rw [h] at hf; cases hf; exact hg)

theorem rowOkCore_tag {r : List Bytes} (h : r ≠ []) : RowOkCore 44 (r.map (fun f => (needsQuotes f, f))) := by
  refine ⟨by simpa using h, ?_⟩
  intro p hp
  simp only [List.mem_map] at hp
  obtain ⟨f, _, rfl⟩ := hp
  exact needsQuotes_admissible

theorem lastNoCR_tag {r : List Bytes} (h : LastFieldNoCR r) : LastNoCR (r.map (fun f => (needsQuotes f, f))) := by
  intro p hp
  rw [List.getLast?_map] at hp
  cases hl : r.getLast? with
  | none => rw [hl] at hp; simp at hp
  | some g =>
    rw [hl] at hp
    simp only [Option.map_some, Option.some.injEq] at hp
    rw [← hp]
    exact h g hl

theorem rowOk'_tag {r : List Bytes} (h : r ≠ []) (hcr : LastFieldNoCR r) :
    RowOk' 44 (r.map (fun f => (needsQuotes f, f))) :=
  ⟨(rowOkCore_tag h).nonempty, (rowOkCore_tag h).quoted, lastNoCR_tag hcr⟩

/-- **ToCSV → RFC 4180.** The RFC 4180 scanner inverts Go's CSV writer on every list of non-empty
records. Nothing else is needed: `RowOk`'s further clauses (`single`, `noLeadQuote`, `noCR`) are not used by
`parse_render_core`; in particular the record `[""]`, which the writer emits as an empty line, denotes the
row of one empty field for `rfcParse`. -/
theorem parse_write (rows : List (List Bytes)) (h : ∀ r ∈ rows, r ≠ []) :
    rfcParse 44 (csvWrite rows) = rows := by
  rw [csvWrite_eq_render, parse_render_core 44 (by decide)]
  · exact rows_tag_snd rows
  · intro r hr
    simp only [List.mem_map] at hr
    obtain ⟨r0, hr0, rfl⟩ := hr
    exact rowOkCore_tag (h r0 hr0)

/-- `read_write` with the bounds spelled out: any `fuel` above the document's size and any `n` above its
size plus the number of records will do. -/
theorem read_write_fuel (rows : List (List Bytes)) (h : ∀ r ∈ rows, r ≠ []) (hcr : ∀ r ∈ rows, LastFieldNoCR r)
    (sched : List Nat) (fuel n : Nat)
    (hfu : (csvWrite rows).length < fuel) (hn : (csvWrite rows).length + rows.length < n) :
    Full.readAll 44 fuel n (Full.initFS (csvWrite rows) sched) [] = some (rows, some .eof) := by
  have hok : ∀ r ∈ rows.map (·.map (fun f => (needsQuotes f, f))), RowOk' 44 r := by
    intro r hr
    simp only [List.mem_map] at hr
    obtain ⟨r0, hr0, rfl⟩ := hr
    exact rowOk'_tag (h r0 hr0) (hcr r0 hr0)
  have := read_render_fuel' 44 (by decide) _ hok sched fuel n
    (by rw [← csvWrite_eq_render]; exact hfu) (by rw [← csvWrite_eq_render]; simpa using hn)
  rw [← csvWrite_eq_render, rows_tag_snd] at this
  exact this

/-- **ToCSV → qframe's reader.** What Go's CSV writer writes for a list of non-empty records whose last
fields do not end with CR is read back by the mirror of qframe's CSV reader field for field, and then
`eof` — for EVERY read schedule (whatever the fragmentation of the input). -/
theorem read_write (rows : List (List Bytes)) (h : ∀ r ∈ rows, r ≠ []) (hcr : ∀ r ∈ rows, LastFieldNoCR r)
    (sched : List Nat) :
    ∃ fuel n, Full.readAll 44 fuel n (Full.initFS (csvWrite rows) sched) [] = some (rows, some .eof) :=
  ⟨(csvWrite rows).length + 1, (csvWrite rows).length + rows.length + 1,
    read_write_fuel rows h hcr sched _ _ (by omega) (by omega)⟩

/-- the reader mirror agrees with the RFC 4180 scanner on everything the writer writes -/
theorem read_write_eq_spec (rows : List (List Bytes)) (h : ∀ r ∈ rows, r ≠ []) (hcr : ∀ r ∈ rows, LastFieldNoCR r)
    (sched : List Nat) :
    ∃ fuel n, Full.readAll 44 fuel n (Full.initFS (csvWrite rows) sched) []
      = some (rfcParse 44 (csvWrite rows), some .eof) := by
  rw [parse_write rows h]
  exact read_write rows h hcr sched

/-! ### The hypotheses are satisfiable, and needed -/

/-- `ab`, `c,"d⏎`, empty │ `""`-less empty single field │ leading space, `\.`, NBSP + `x`, CR inside │ `é` -/
def demo : List (List Bytes) :=
  [ [[97, 98], [99, 44, 34, 100, 10], []],
    [[]],
    [[32, 120], [92, 46], [0xC2, 0xA0, 120], [97, 13, 98]],
    [[0xC3, 0xA9]] ]

/-- What is written: `ab,"c,""d⏎",⏎` `⏎` `" x","\.","␣x","a␍b"⏎` `é⏎`. -/
example : csvWrite demo =
    [97, 98, 44, 34, 99, 44, 34, 34, 100, 10, 34, 44, 10,
     10,
     34, 32, 120, 34, 44, 34, 92, 46, 34, 44, 34, 0xC2, 0xA0, 120, 34, 44, 34, 97, 13, 98, 34, 10,
     0xC3, 0xA9, 10] := by decide

example : rfcParse 44 (csvWrite demo) = demo := parse_write demo (by decide)

example : ∃ fuel n, Full.readAll 44 fuel n (Full.initFS (csvWrite demo) [1, 2, 3, 1, 1, 5]) [] = some (demo, some .eof) :=
  read_write demo (by decide) (by decide) _

/-- Needed (non-empty records): the record without fields is written as an empty line, which denotes the
record of one empty field. -/
example : rfcParse 44 (csvWrite [[]]) = [[[]]] := by decide

/-- NOT needed: a one-column frame with an empty string cell. The record `[""]` is written as an empty line
(Go's writer has no special case for it) and the empty line denotes `[""]` — for `rfcParse` and for the
reader mirror. (It is `ReadCSV`'s option `ignoreEmpty` — `isEmptyLine` in `readCsvS` — that drops it.) -/
example : csvWrite [[[97]], [[]], [[98]]] = [97, 10, 10, 98, 10] := by decide
example : rfcParse 44 (csvWrite [[[97]], [[]], [[98]]]) = [[[97]], [[]], [[98]]] := parse_write _ (by decide)
example : isEmptyLine [[]] = true := by decide

/-- Needed (`LastFieldNoCR`): the record `["a\r"]` is written as `"a␍"⏎`; `rfcParse` gives it back, but
qframe's reader trims the CR of the last field of the row and returns `["a"]` — whatever the read schedule. -/
theorem read_write_cr_counterexample (sched : List Nat) :
    Full.readAll 44 20 8 (Full.initFS (csvWrite [[[97, 13]]]) sched) [] = some ([[[97]]], some .eof) := by
  have hdoc : csvWrite [[[97, 13]]] = renderDoc 44 [[(true, [97, 13])]] := by decide
  obtain ⟨res, hres⟩ := QF.Props.C12Read.readAll_total 44 20 0 8 (Full.initFS (csvWrite [[[97, 13]]]) sched) []
    (Nat.zero_le _) (by rw [hdoc]; exact QF.Props.C12Read.slack_renderDoc 44 (by decide) _ sched)
    (by show ([] : List UInt8).length + (csvWrite [[[97, 13]]]).length - 0 + 0 < 20; decide)
    (by show ([] : List UInt8).length + (csvWrite [[[97, 13]]]).length - 0 < 8; decide)
  have h1 := Full.read_schedule_independent 44 20 8 _ sched res hres
  have h2 : Full.readAll 44 20 8 (Full.loadedFS (csvWrite [[[97, 13]]])) [] = some ([[[97]]], some .eof) := by
    decide
  rw [h1] at h2
  rw [hres, h2]

example : csvWrite [[[97, 13]]] = [34, 97, 13, 34, 10] := by decide
example : rfcParse 44 (csvWrite [[[97, 13]]]) = [[[97, 13]]] := parse_write _ (by decide)
example : ¬ LastFieldNoCR [[97, 13]] := by decide

/-- a CR at the end of a field that is not the last of its record is kept -/
example : ∃ fuel n, Full.readAll 44 fuel n (Full.initFS (csvWrite [[[97, 13], [98]]]) [2, 2, 2]) []
    = some ([[[97, 13], [98]]], some .eof) :=
  read_write _ (by decide) (by decide) _

/-! ## §4 the records `ToCSV` writes for a logical frame -/

/-- `Column.StringAt(i, "")` of /repo/internal/{i,f,b,s,e}column: ints in decimal (`strconv.FormatInt`),
floats by `strconv.FormatFloat(v, 'f', -1, 64)` — the parameter `fmt`, on the bits of the float — with NaN as
the empty string, bools `true` / `false`, strings and enum values as they are, null as the empty string. -/
def cellString (fmt : UInt64 → Bytes) : Cell → Bytes
  | .int v => intStr v
  | .float b => if F64.isNaN b then [] else fmt b
  | .bool b => if b then [116, 114, 117, 101] else [102, 97, 108, 115, 101]
  | .str none => []
  | .str (some s) => s

/-- The records `QFrame.ToCSV` hands to `csv.Writer.Write`: the column names if `hdr` (`csv.Header`), then
one record per row with the cells' strings in column order. -/
def tocsvRows (fmt : UInt64 → Bytes) (hdr : Bool) (f : LFrame) : List (List Bytes) :=
  (if hdr then [f.names] else []) ++ f.rows.map (·.map (cellString fmt))

/-- the bytes `QFrame.ToCSV` writes -/
def tocsv (fmt : UInt64 → Bytes) (hdr : Bool) (f : LFrame) : Bytes := csvWrite (tocsvRows fmt hdr f)

theorem tocsvRows_nonempty (fmt : UInt64 → Bytes) (hdr : Bool) (f : LFrame) (hc : f.cols ≠ []) :
    ∀ r ∈ tocsvRows fmt hdr f, r ≠ [] := by
  intro r hr
  simp only [tocsvRows, List.mem_append, List.mem_map] at hr
  rcases hr with hr | ⟨cs, hcs, rfl⟩
  · cases hdr with
    | false => simp at hr
    | true =>
      simp only [↓reduceIte, List.mem_singleton] at hr
      subst hr
      simpa [LFrame.names] using hc
  · simp only [LFrame.rows, List.mem_map] at hcs
    obtain ⟨i, _, rfl⟩ := hcs
    simpa [LFrame.row] using hc

/-- **ToCSV, RFC 4180 reading.** For a frame with at least one column, the RFC 4180 scanner returns from
the bytes `ToCSV` writes exactly the records handed to the writer. -/
theorem tocsv_rows (fmt : UInt64 → Bytes) (hdr : Bool) (f : LFrame) (hc : f.cols ≠ []) :
    rfcParse 44 (tocsv fmt hdr f) = tocsvRows fmt hdr f :=
  parse_write _ (tocsvRows_nonempty fmt hdr f hc)

/-- **ToCSV, qframe's reader**: for a frame with at least one column, if no record handed to the writer ends
with a field that ends with CR, the reader mirror returns these records, for every read schedule. -/
theorem tocsv_read (fmt : UInt64 → Bytes) (hdr : Bool) (f : LFrame) (hc : f.cols ≠ [])
    (hcr : ∀ r ∈ tocsvRows fmt hdr f, LastFieldNoCR r) (sched : List Nat) :
    ∃ fuel n, Full.readAll 44 fuel n (Full.initFS (tocsv fmt hdr f) sched) []
      = some (tocsvRows fmt hdr f, some .eof) :=
  read_write _ (tocsvRows_nonempty fmt hdr f hc) hcr sched

/-- The hypothesis of `tocsv_read` in terms of the frame: it only concerns the LAST column — its name (when
the header is written) and its cells' strings must not end with CR. -/
theorem tocsvRows_lastNoCR (fmt : UInt64 → Bytes) (hdr : Bool) (f : LFrame)
    (hname : hdr = true → ∀ c, f.cols.getLast? = some c → c.name.getLast? ≠ some 13)
    (hcells : ∀ c, f.cols.getLast? = some c → ∀ i, i < f.n → (cellString fmt (c.cells[i]!)).getLast? ≠ some 13) :
    ∀ r ∈ tocsvRows fmt hdr f, LastFieldNoCR r := by
  intro r hr
  simp only [tocsvRows, List.mem_append, List.mem_map] at hr
  rcases hr with hr | ⟨cs, hcs, rfl⟩
  · cases hdr with
    | false => simp at hr
    | true =>
      simp only [↓reduceIte, List.mem_singleton] at hr
      subst hr
      intro g hg
      simp only [LFrame.names, List.getLast?_map] at hg
      cases hl : f.cols.getLast? with
      | none => rw [hl] at hg; simp at hg
      | some c =>
        rw [hl] at hg
        simp only [Option.map_some, Option.some.injEq] at hg
        rw [← hg]
        exact hname rfl c hl
  · simp only [LFrame.rows, List.mem_map, List.mem_range] at hcs
    obtain ⟨i, hi, rfl⟩ := hcs
    intro g hg
    simp only [LFrame.row, List.map_map, List.getLast?_map] at hg
    cases hl : f.cols.getLast? with
    | none => rw [hl] at hg; simp at hg
    | some c =>
      rw [hl] at hg
      simp only [Option.map_some, Option.some.injEq, Function.comp_apply] at hg
      rw [← hg]
      exact hcells c hl i hi

/-- **ToCSV → ReadCSV's reader, in terms of the frame.** -/
theorem tocsv_read' (fmt : UInt64 → Bytes) (hdr : Bool) (f : LFrame) (hc : f.cols ≠ [])
    (hname : hdr = true → ∀ c, f.cols.getLast? = some c → c.name.getLast? ≠ some 13)
    (hcells : ∀ c, f.cols.getLast? = some c → ∀ i, i < f.n → (cellString fmt (c.cells[i]!)).getLast? ≠ some 13)
    (sched : List Nat) :
    ∃ fuel n, Full.readAll 44 fuel n (Full.initFS (tocsv fmt hdr f) sched) []
      = some (tocsvRows fmt hdr f, some .eof) :=
  tocsv_read fmt hdr f hc (tocsvRows_lastNoCR fmt hdr f hname hcells) sched

/-- bool cells never end with CR -/
theorem cellString_bool_noCR (fmt : UInt64 → Bytes) (b : Bool) : (cellString fmt (.bool b)).getLast? ≠ some 13 := by
  cases b <;> simp [cellString]

/-- null cells (null string / enum, NaN) are written as the empty string -/
theorem cellString_null (fmt : UInt64 → Bytes) (c : Cell) (h : c.isNull = true) : cellString fmt c = [] := by
  cases c with
  | int v => simp [Cell.isNull] at h
  | float b => simp only [Cell.isNull] at h; simp [cellString, h]
  | bool b => simp [Cell.isNull] at h
  | str s =>
    cases s with
    | none => rfl
    | some s => simp [Cell.isNull] at h

/-! ### int and bool cells are written bare and never end with CR

`intStr v = strBytes (toString v)` is `strconv.FormatInt(v, 10)`: an optional `-` and decimal digits. -/

theorem toList_loop (bs : ByteArray) : ∀ (k i : Nat) (r : List UInt8), bs.size - i = k → i ≤ bs.size →
    ByteArray.toList.loop bs i r = r.reverse ++ bs.data.toList.drop i := by
  have hsz : bs.data.toList.length = bs.size := by simp
  intro k
  induction k with
  | zero =>
    intro i r hk hi
    rw [ByteArray.toList.loop.eq_1]
    have : ¬ i < bs.size := by omega
    have hd : bs.data.toList.drop i = [] := by
      apply List.drop_eq_nil_of_le
      omega
    simp [this, hd]
  | succ k ih =>
    intro i r hk hi
    rw [ByteArray.toList.loop.eq_1]
    have hlt : i < bs.size := by omega
    rw [if_pos hlt, ih (i + 1) _ (by omega) (by omega)]
    have hlt' : i < bs.data.toList.length := by omega
    rw [List.drop_eq_getElem_cons hlt']
    have : bs.get! i = bs.data.toList[i] := by
      have hlt2 : i < bs.data.size := by simpa using hlt'
      simp only [ByteArray.get!]
      exact getElem!_pos bs.data i hlt2
    simp [this]

theorem byteArray_toList (bs : ByteArray) : bs.toList = bs.data.toList := by
  unfold ByteArray.toList
  rw [toList_loop bs bs.size 0 [] (by omega) (by omega)]
  simp

theorem strBytes_append (s t : String) : strBytes (s ++ t) = strBytes s ++ strBytes t := by
  simp [strBytes, String.toUTF8, byteArray_toList, String.toByteArray_append]

theorem strBytes_ofList (l : List Char) : strBytes (String.ofList l) = l.flatMap String.utf8EncodeChar := by
  simp [strBytes, String.toUTF8, byteArray_toList, String.toByteArray_ofList, List.utf8Encode]

def isDigitB (c : UInt8) : Prop := 48 ≤ c.toNat ∧ c.toNat ≤ 57

theorem digit_bytes : ∀ (l : List Char), (∀ c ∈ l, c.isDigit = true) →
    ∀ b ∈ l.flatMap String.utf8EncodeChar, isDigitB b := by
  intro l
  induction l with
  | nil => intro _ b hb; simp at hb
  | cons c cs ih =>
    intro h b hb
    have hc := h c (by simp)
    simp only [Char.isDigit, Bool.and_eq_true, decide_eq_true_eq] at hc
    have h0 : ('0' : Char).val.toNat = 48 := by decide
    have h9 : ('9' : Char).val.toNat = 57 := by decide
    have hv : 48 ≤ c.toNat ∧ c.toNat ≤ 57 := by
      show 48 ≤ c.val.toNat ∧ c.val.toNat ≤ 57
      rw [← h0, ← h9]; exact ⟨UInt32.le_iff_toNat_le.1 hc.1, UInt32.le_iff_toNat_le.1 hc.2⟩
    have henc : String.utf8EncodeChar c = [UInt8.ofNat c.toNat] := by
      simp [String.utf8EncodeChar, show c.toNat ≤ 127 by omega]
    simp only [List.flatMap_cons, henc, List.mem_append, List.mem_singleton] at hb
    rcases hb with rfl | hb
    · unfold isDigitB
      simp
      omega
    · exact ih (fun x hx => h x (by simp [hx])) b hb

theorem natStr_digits (k : Nat) : ∀ b ∈ strBytes (toString k), isDigitB b := by
  show ∀ b ∈ strBytes (String.ofList (Nat.toDigits 10 k)), isDigitB b
  rw [strBytes_ofList]
  exact digit_bytes _ (fun c hc => Nat.isDigit_of_mem_toDigits (by decide) (by decide) hc)

/-- `strconv.FormatInt(v, 10)`: an optional minus sign and decimal digits -/
theorem intStr_bytes (v : Int) : ∀ b ∈ intStr v, b = 45 ∨ isDigitB b := by
  intro b hb
  unfold intStr at hb
  cases v with
  | ofNat n => exact Or.inr (natStr_digits n b hb)
  | negSucc n =>
    have : toString (Int.negSucc n) = "-" ++ toString (n + 1) := rfl
    rw [this, strBytes_append] at hb
    have h1 : strBytes "-" = [45] := by decide +kernel
    rw [h1] at hb
    simp only [List.singleton_append, List.mem_cons] at hb
    rcases hb with rfl | hb
    · exact Or.inl rfl
    · exact Or.inr (natStr_digits _ b hb)

/-- a field made of `-` and decimal digits only is written bare -/
theorem needsQuotes_plain (f : Bytes) (h : ∀ b ∈ f, b = 45 ∨ isDigitB b) : needsQuotes f = false := by
  have hr : ∀ b ∈ f, 45 ≤ b.toNat ∧ b.toNat ≤ 57 := by
    intro b hb
    rcases h b hb with rfl | h
    · decide
    · unfold isDigitB at h; omega
  have key : ∀ b ∈ f, ∀ k : UInt8, (k.toNat < 45 ∨ 57 < k.toNat) → (b == k) = false := by
    intro b hb k hk
    have := hr b hb
    simp only [beq_eq_false_iff_ne, ne_eq]
    intro h; subst h; omega
  have hany : f.any (fun c => c == 10 || c == 13 || c == 34 || c == 44) = false := by
    rw [List.any_eq_false]
    intro c hc
    simp [key c hc 10 (by decide), key c hc 13 (by decide), key c hc 34 (by decide), key c hc 44 (by decide)]
  have h2 : f ≠ [92, 46] := by
    intro h; subst h
    have := hr 92 (by simp)
    revert this; decide
  unfold needsQuotes
  simp only [h2, ↓reduceIte, hany, Bool.false_eq_true]
  split
  · rfl
  · cases f with
    | nil => rfl
    | cons b0 t =>
      have k := key b0 (by simp)
      unfold firstRuneIsSpace
      simp only [k 9 (by decide), k 10 (by decide), k 11 (by decide), k 12 (by decide), k 13 (by decide),
        k 32 (by decide), k 0xC2 (by decide), k 0xE1 (by decide), k 0xE2 (by decide), k 0xE3 (by decide),
        Bool.or_self, Bool.false_eq_true, ↓reduceIte, Bool.false_and]
      cases t with
      | nil => rfl
      | cons b1 t' => cases t' <;> rfl

theorem getLast?_plain (f : Bytes) (h : ∀ b ∈ f, b = 45 ∨ isDigitB b) : f.getLast? ≠ some 13 := by
  intro hl
  rcases h 13 (List.mem_of_getLast? hl) with h | h
  · revert h; decide
  · exact absurd h.1 (by decide)

theorem needsQuotes_intStr (v : Int) : needsQuotes (intStr v) = false := needsQuotes_plain _ (intStr_bytes v)
theorem intStr_noCR (v : Int) : (intStr v).getLast? ≠ some 13 := getLast?_plain _ (intStr_bytes v)

/-- int cells are written bare (never quoted) … -/
theorem writeField_int (fmt : UInt64 → Bytes) (v : Int) : writeField (cellString fmt (.int v)) = intStr v := by
  rw [writeField_eq]
  show renderField (needsQuotes (intStr v)) (intStr v) = intStr v
  rw [needsQuotes_intStr]; rfl

/-- … and so are bool cells -/
theorem writeField_bool (fmt : UInt64 → Bytes) (b : Bool) :
    writeField (cellString fmt (.bool b)) = cellString fmt (.bool b) := by
  cases b
  · show writeField [102, 97, 108, 115, 101] = [102, 97, 108, 115, 101]; decide
  · show writeField [116, 114, 117, 101] = [116, 114, 117, 101]; decide

/-- int cells never end with CR -/
theorem cellString_int_noCR (fmt : UInt64 → Bytes) (v : Int) : (cellString fmt (.int v)).getLast? ≠ some 13 :=
  intStr_noCR v

/-- So the CR hypothesis of `tocsv_read'` is void when the last column is an int or bool column: it can
only fail for a string / enum cell (or a header name) ending with CR — the float formatter never writes CR
either, but it is a parameter here. -/
theorem cellString_noCR (fmt : UInt64 → Bytes) (c : Cell)
    (h : match c with
      | .int _ | .bool _ | .str none => True
      | .float b => F64.isNaN b = false → (fmt b).getLast? ≠ some 13
      | .str (some s) => s.getLast? ≠ some 13) :
    (cellString fmt c).getLast? ≠ some 13 := by
  cases c with
  | int v => exact cellString_int_noCR fmt v
  | bool b => exact cellString_bool_noCR fmt b
  | float b =>
    simp only [cellString]
    cases hn : F64.isNaN b with
    | true => simp
    | false => simpa using h hn
  | str s =>
    cases s with
    | none => simp [cellString]
    | some s => exact h

/-! ### A concrete frame -/

/-- a frame with a bool, a float (one NaN) and a string column (a null, a cell with comma, quote and line
break); the float formatter of the example writes `1.5` for every float -/
def demoFrame : LFrame :=
  { cols := [ { name := [98], ty := .bool, cells := #[.bool true, .bool false, .bool true] },
              { name := [120, 44, 121], ty := .float, cells := #[.float 0x3ff8000000000000, .float F64.canonNaN, .float 0] },
              { name := [115], ty := .string, cells := #[.str (some [97, 44, 34, 10, 98]), .str none, .str (some [32])] } ],
    n := 3 }

def demoFmt : UInt64 → Bytes := fun _ => [49, 46, 53]

example : tocsvRows demoFmt true demoFrame =
    [ [[98], [120, 44, 121], [115]],
      [[116, 114, 117, 101], [49, 46, 53], [97, 44, 34, 10, 98]],
      [[102, 97, 108, 115, 101], [], []],
      [[116, 114, 117, 101], [49, 46, 53], [32]] ] := by decide

/-- `b,"x,y",s⏎` `true,1.5,"a,""⏎b"⏎` `false,,⏎` `true,1.5," "⏎` -/
example : tocsv demoFmt true demoFrame =
    [98, 44, 34, 120, 44, 121, 34, 44, 115, 10,
     116, 114, 117, 101, 44, 49, 46, 53, 44, 34, 97, 44, 34, 34, 10, 98, 34, 10,
     102, 97, 108, 115, 101, 44, 44, 10,
     116, 114, 117, 101, 44, 49, 46, 53, 44, 34, 32, 34, 10] := by decide

example : rfcParse 44 (tocsv demoFmt true demoFrame) = tocsvRows demoFmt true demoFrame :=
  tocsv_rows demoFmt true demoFrame (by decide)

example : ∃ fuel n, Full.readAll 44 fuel n (Full.initFS (tocsv demoFmt true demoFrame) [3, 1, 4, 1, 5]) []
    = some (tocsvRows demoFmt true demoFrame, some .eof) :=
  tocsv_read demoFmt true demoFrame (by decide) (by decide) _

/-- a frame whose last column is an int column: no CR condition left on the cells -/
def demoFrame2 : LFrame :=
  { cols := [ { name := [115], ty := .string, cells := #[.str (some [97, 13]), .str (some [13])] },
              { name := [105], ty := .int, cells := #[.int (-12), .int 7] } ],
    n := 2 }

example (sched : List Nat) : ∃ fuel n, Full.readAll 44 fuel n (Full.initFS (tocsv demoFmt true demoFrame2) sched) []
    = some (tocsvRows demoFmt true demoFrame2, some .eof) := by
  apply tocsv_read' demoFmt true demoFrame2 (by decide) (by decide)
  intro c hc i hi
  simp only [demoFrame2, List.getLast?_cons_cons, List.getLast?_singleton, Option.some.injEq] at hc
  subst hc
  have hi : i < 2 := hi
  match i, hi with
  | 0, _ => exact cellString_int_noCR _ _
  | 1, _ => exact cellString_int_noCR _ _

#print axioms csvWrite_eq_render
#print axioms needsQuotes_admissible
#print axioms needsQuotes_iff
#print axioms parse_write
#print axioms read_write_fuel
#print axioms read_write
#print axioms read_write_eq_spec
#print axioms read_write_cr_counterexample
#print axioms tocsv_rows
#print axioms tocsv_read
#print axioms tocsv_read'
#print axioms needsQuotes_intStr
#print axioms intStr_noCR
#print axioms writeField_int
#print axioms cellString_noCR

end QF.Props.C13Write
