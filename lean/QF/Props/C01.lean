import QF.Props.Tie
import QF.Core.Heap
/-!
# C01 — frames are persistent

Model: `H.Prog` (alloc / read / write programs over a store of arrays addressed by
allocation id). Every qframe operation allocates its result arrays and writes only
to those (`OwnWrites`); reading shared arrays is unrestricted.

* `frame_condition`: a program that only writes to arrays it allocated leaves every
  array that existed before untouched, and the store only grows.
* `history_persistent`: for every initial store and every finite history of such
  programs, each run on the store left by its predecessor, every array that existed
  initially keeps its contents forever — hence every observation of every earlier
  frame (which is a function of those arrays) is unchanged.

The tie to the code is the re-observation digest of every earlier family member
after every step of every generated history (harness section `hist`, `D` lines).
-/
namespace QF.Props.C01

theorem frame_condition {α : Type} (p : H.Prog α) (base : Nat) (h : p.OwnWrites base)
    (s : H.Store) (hb : base ≤ List.length s) :
    (∀ id, id < base → List.getD (p.run s).snd.fst id [] = List.getD s id []) ∧
      List.length s ≤ List.length (p.run s).snd.fst :=
  H.frame_condition p base h s hb

theorem history_persistent {α : Type} (ps : List (H.Prog α)) (s : H.Store)
    (h : ∀ p, p ∈ ps → ∀ base, p.OwnWrites base) :
    ∀ id, id < List.length s → List.getD (H.runAll ps s) id [] = List.getD s id [] :=
  H.history_persistent ps s h

/-- T1: the functions this property's mirror model follows have today the source text the model was written against. -/
-- Tie audit (bin/selftest-ties): the following functions are not compared as text any more; every behaviour-changing edit of
-- them makes a `gen_*_canon` theorem of this property's modules fail, renaming their locals or reformatting them changes nothing:
-- `index.Copy`, `QFrame.Slice`, `QFrame.Select`, `QFrame.setColumn`: regenerated as `Gen.indexAst` / `Gen.projectAst` (pxast.go) and `Gen.guardAst` / `Gen.guardAst2` (gast.go),
-- `C08ProjectGen.gen_project_canon` + `gen_project_semantics` / `gen_project_persistent`, `C08Guards.gen_guards_canon` + `gen_guards_semantics`.
-- FilteredApply and the two built-in toUpper functions are regenerated (C06FApplyGen.gen_supper_semantics / gen_eupper_semantics: no element of the source's arrays is written).
-- Aggregate is regenerated: loops in `Gen.aggregateAst` (C04LoopsGen), glue in `Gen.aggregateGlueAst` (C04GlueGen), guards in C10Guards.
-- `QFrame.Sort` is regenerated statement by statement in `Gen.sortAst` (sortgast.go; `withErr` / `withIndex` inlined, `qfsort.New` in `Gen.sorterNewAst`):
-- `C03SortGlueGen.gen_sortglue_canon` + `gen_sort_glue_semantics` (`Sorter.Sort()` runs on a COPY of the index; the receiver's index array holds what it held), next to
-- its guards (`Gen.guardAst2`, C10Guards) and its copy-then-sort tail on the heap (`Gen.projectAst`, C08ProjectGen.gen_sort_semantics / gen_project_persistent).
theorem tie : Tie.sameAll [] = true := by decide

end QF.Props.C01
