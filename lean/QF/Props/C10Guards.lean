import QF.Spec.Ops
import QF.Spec.Render
import QF.Props.C10Sticky
import QF.Props.C08Guards
import QF.Gen.Guards
/-!
# C10 (C03, C04, C05, C06, C07, C09, C13) — invalid use yields Err, errors are sticky: the remaining operations (tie T1)

`QF.Gen.guardAst2` (regenerated on every run by go/cmd/extract/gast.go) holds the guard prefix — the validation before the
real work — of the public operations of /repo/qframe.go and /repo/grouper.go that QF/Props/C08Guards.lean does not cover:

    Sort · Distinct · GroupBy · Grouper.Aggregate · Grouper.QFrames · apply0 / apply1 / apply2 (the frame methods `Apply`
    dispatches to, named by their number of source columns) · FilteredApply · WithRowNums · Eval · Filter · filterLeaf (the
    frame method clauses hand their leaf filters to) · Equals · ToCSV · ToJSON · ToSQL · ReadCSV · ReadJSON · ReadSQL ·
    ReadSQLWithArgs

as lists of `QF.GStep`; `QF.Gen.applyAst` is `QFrame.Apply` (a loop without guards: the per-instruction dispatch),
`QF.Gen.rowNumsAst` the instruction `WithRowNums` hands to `Apply`; `lateErrors2`, `openTails2`, `laterCalls` pin what lies
beyond each prefix. This file proves, for the terms generated TODAY:

* `gen_guards2_no_opaque`  — every operation was found and translated without `.opaque`
* `gen_guards2_complete`   — the error returns after each prefix, the tail calls and the frame methods called later are
                             exactly the listed ones (which rejections are decided LATER, outside the chains)
* `gen_sticky_all`         — errors are sticky, for ALL requests: a receiver that carries an error makes every chain end at
                             its FIRST step — `return qf` for the operations that return a frame, a result carrying the
                             receiver's error for `GroupBy` / `Aggregate` / `QFrames`, an error for `ToCSV` / `ToJSON` /
                             `ToSQL`; `FilteredApply` returns what `qf.Filter(clause)` returns, which is `qf`;
                             `Apply` / `WithRowNums` have no test of their own: every instruction goes to a helper that has
* `gen_reject_semantics`   — Sort, Distinct, GroupBy + Aggregate, Equals, ToCSV: the chain rejects iff the spec does
                             (`sortKeys` / `distinctKeys` / `csvColumns` = none, `groupAggS` = .err as far as columns are
                             concerned, `equalsS` = false as far as the shape is concerned), on ALL requests
* `gen_equals_vs_spec`     — IF the column code compares two columns as the spec does (same type, equal cells), today's
                             `Equals` answers exactly `equalsS`, on all pairs of frames
* `gen_apply_dispatch`     — the dispatch of `Apply` on the number of source columns is the spec's reading of an `Instr`;
                             the helpers reject unknown source columns as `applyInstr` does; the loop hands the
                             accumulator from helper to helper, so with the helpers' sticky first guard nothing happens
                             after the first failing instruction (`apply_loop_stops`, `gen_apply_loop`, tied to
                             `C10Sticky.applyS_stops_at_first_failing`)

Method as in C08Guards: `decide` shows that today's terms ARE the canonical ones (`gen_guards2_canon`, `gen_apply_canon`);
the meaning of the canonical terms on every request is proved once and for all.

What the chains do NOT decide (`gen_guards2_complete`): `Aggregate` has two later error returns inside its loop (result
name already taken; the column's aggregation code rejects the function) — `C10Sticky.groupAggS_err_iff` names them on the
spec side (`aggsLate`); `filterLeaf` two (unknown argument column, the column's filter code); `apply0`/`apply1`/`apply2`
two/two/one (unknown function type, column creation, the column's apply code) and all three end in `setColumn`, where the
name check of the destination happens (C08Guards: `Copy`); `Eval` works through `Copy` and `Drop`; `ToCSV`/`ToJSON`/`ToSQL`
return the writer's errors; `Equals` compares column TYPES and cells inside the per-type column code
(`pairContentDiffers`).

Observation (not a disagreement on any request the harness can express): `ToCSV` distinguishes a nil column list from an
empty one — `csv.Columns([]string{})` on a frame with columns is rejected ("wrong number of columns") while the spec's
`csvColumns f []` means "all columns"; the harness passes nil for the empty list. See `csv_empty_nonnil`.
-/
namespace QF.Props.C10Guards
open QF
open QF.Props.C08Guards (envIn specEnv genEnv_eq frameReq guard_step forEach_step some_ite eval_hasErr eval_unknown_each
  eval_unknown_src anyFires_total any_unknown_iff)

/-! ## Today's chains -/

def guards2In (n : List NStep) (l : List IStep) (g : List (String × List GStep)) (op : String) (q : GReq) : Option GOut :=
  (g.lookup op).bind (fun ch => runGuards (envIn n l) ch q)

/-- the outcome of operation `op` of today's source on request `q` -/
def genGuards2 (op : String) (q : GReq) : Option GOut := guards2In Gen.checkNameAst Gen.lenAst Gen.guardAst2 op q

/-- `FilteredApply` first calls `qf.Filter(clause)`: the request as seen after that call. What `Filter` does is read off
ITS chain; where the chain lets the request through, the real work (the clause) decides (`subWorkFails`). -/
def withSub (q : GReq) : GReq :=
  { q with subOut := match genGuards2 "Filter" q with
      | some .ok => some (if q.subWorkFails then .err else .ok)
      | o => o }

/-! ## Canonical terms -/

/-- `len(xs) == 0` -/
abbrev noneOf (c : GColl) : GCond := .eqI (.count c) (.lit 0)

def canonSort : List GStep := [
  .guard .qfHasErr .returnSelf,
  .guard (noneOf .orderCols) .returnSelf,
  .forEach .orderCols (.unknownColumn .each) .err]

def canonDistinct : List GStep := [
  .guard .qfHasErr .returnSelf,
  .forEach .groupCols (.unknownColumn .each) .err,
  .guard (.eqI .len (.lit 0)) .returnSelf]

def canonGroupBy : List GStep := [
  .guard .qfHasErr .carryErr,
  .forEach .groupCols (.unknownColumn .each) .err,
  .guard (.eqI .len (.lit 0)) .ok]

def canonAggregate : List GStep := [
  .guard .grouperHasErr .carryErr,
  .forEachWork .aggCols (.unknownColumn .each) .err]

def canonQFrames : List GStep := [.guard .grouperHasErr .carryErr]

def canonApply0 : List GStep := [.guard .qfHasErr .returnSelf]

def canonApply1 : List GStep := [.guard .qfHasErr .returnSelf, .guard (.unknownColumn .src) .err]

def canonApply2 : List GStep := [
  .guard .qfHasErr .returnSelf,
  .guard (.unknownColumn .src) .err,
  .guard (.unknownColumn .src2) .err]

def canonFilteredApply : List GStep := [.subFails "Filter"]

def canonSticky1 : List GStep := [.guard .qfHasErr .returnSelf]

def canonFilterLeaf : List GStep := [
  .guard .qfHasErr .returnSelf,
  .forEachWork .filterCols (.unknownColumn .each) .err]

def canonEquals : List GStep := [
  .guard (.not (.eqI .indexLen .otherIndexLen)) .retFalse,
  .guard (.not (.eqI .colCount .otherColCount)) .retFalse,
  .forEachPair .pairNameDiffers .retFalse,
  .forEachPair .pairContentDiffers .retFalse,
  .done .retTrue]

def canonToCSV : List GStep := [
  .guard .qfHasErr .err,
  .guardIf (.given .csvCols) (.not (.eqI (.count .csvCols) .colCount)) .err,
  .forEachIf (.given .csvCols) .csvCols (.unknownColumn .each) .err]

def canonErr1 : List GStep := [.guard .qfHasErr .err]

def canonRead1 : List GStep := [.guard (.extFails 0) .err]

def canonRead3 : List GStep := [.guard (.extFails 0) .err, .guard (.extFails 1) .err, .guard (.extFails 2) .err]

def canonGuards2 : List (String × List GStep) := [
  ("Sort", canonSort), ("Distinct", canonDistinct), ("GroupBy", canonGroupBy), ("Aggregate", canonAggregate),
  ("QFrames", canonQFrames), ("apply0", canonApply0), ("apply1", canonApply1), ("apply2", canonApply2),
  ("FilteredApply", canonFilteredApply), ("WithRowNums", []), ("Eval", canonSticky1), ("Filter", canonSticky1),
  ("filterLeaf", canonFilterLeaf), ("Equals", canonEquals), ("ToCSV", canonToCSV), ("ToJSON", canonErr1),
  ("ToSQL", canonErr1), ("ReadCSV", canonRead1), ("ReadJSON", canonRead1), ("ReadSQL", []),
  ("ReadSQLWithArgs", canonRead3)]

/-- `Apply`: no source column → the helper without source parameters; one → the helper with one; else the helper with two -/
def canonApply : ApplyAst :=
  { accFromRecv := true
    disp := .ifEmpty .src1 (.call 0 [.fn, .dst])
      (.ifEmpty .src2 (.call 1 [.fn, .dst, .src1]) (.call 2 [.fn, .dst, .src1, .src2]))
    returnsAcc := true }

/-! ## Today's terms are the canonical ones (finite checks over `QF.Gen`, redone on every run) -/

theorem gen_guards2_canon : Gen.guardAst2 = canonGuards2 := by decide

theorem gen_apply_canon : Gen.applyAst = canonApply := by decide

/-- `WithRowNums(name)` is `Apply` of ONE instruction whose destination is the name parameter, whose function is a
function literal and which names no source column. -/
theorem gen_rownums_canon :
    Gen.rowNumsAst = some [{ dst := some .dst, src1Set := false, src2Set := false, fnIsFuncLit := true }] := by decide

/-- All operations, `Apply` and the instruction of `WithRowNums` were found, and no part of them translates to `.opaque`. -/
theorem gen_guards2_no_opaque :
    Gen.guardAst2.map (·.1) = ["Sort", "Distinct", "GroupBy", "Aggregate", "QFrames", "apply0", "apply1", "apply2",
      "FilteredApply", "WithRowNums", "Eval", "Filter", "filterLeaf", "Equals", "ToCSV", "ToJSON", "ToSQL", "ReadCSV",
      "ReadJSON", "ReadSQL", "ReadSQLWithArgs"] ∧
    (∀ p ∈ Gen.guardAst2, ∀ s ∈ p.2, s.hasOpaque = false) ∧
    Gen.applyAst.disp.hasOpaque = false ∧ Gen.applyAst.accFromRecv = true ∧ Gen.applyAst.returnsAcc = true ∧
    Gen.rowNumsAst.isSome = true := by
  decide

/-- What lies beyond the prefixes. Error returns after the prefix (for `Aggregate` and `filterLeaf`: in the rest of the
loop body): none for Sort, Distinct, GroupBy, QFrames, FilteredApply, WithRowNums, Filter, Equals and the readers — their
own rejection logic is entirely in the chain; two for `Aggregate`, `apply0`, `apply1`, `filterLeaf`, `ToSQL`, one for
`apply2`, one for `Eval` (a column reference of the expression that is not a column of the frame: `missingCol`, regenerated and
proved in QF/Props/C07EvalGen.lean `gen_missingcol_semantics`, with the spec in C07EndToEnd), three (writer errors) for
`ToCSV` / `ToJSON`. Tail calls: the three helpers end in the method `Copy` ends in
(`set`: the name check of the destination), `apply0` also in `Copy` (a `ColumnName` function); `WithRowNums` in `Apply`;
`Filter` in a method of its clause parameter; the readers in `New`. Frame methods called later: `FilteredApply` → `Apply`,
`Eval` → `Copy`, `Drop`. `GroupBy` hands the frame's name map to the `Grouper`. -/
theorem gen_guards2_complete :
    Gen.lateErrors2 = [("Sort", 0), ("Distinct", 0), ("GroupBy", 0), ("Aggregate", 2), ("QFrames", 0), ("apply0", 2),
      ("apply1", 2), ("apply2", 1), ("FilteredApply", 0), ("WithRowNums", 0), ("Eval", 1), ("Filter", 0), ("filterLeaf", 2),
      ("Equals", 0), ("ToCSV", 3), ("ToJSON", 3), ("ToSQL", 2), ("ReadCSV", 0), ("ReadJSON", 0), ("ReadSQL", 0),
      ("ReadSQLWithArgs", 0)] ∧
    Gen.openTails2 = [("apply0", "Copy"), ("apply0", "set"), ("apply1", "set"), ("apply2", "set"), ("WithRowNums", "Apply"),
      ("Filter", "parameter"), ("ReadCSV", "New"), ("ReadJSON", "New"), ("ReadSQL", "ReadSQLWithArgs"),
      ("ReadSQLWithArgs", "New")] ∧
    Gen.laterCalls = [("apply0", ["Copy", "set"]), ("apply1", ["set"]), ("apply2", ["set"]), ("FilteredApply", ["Apply"]),
      ("WithRowNums", ["Apply"]), ("Eval", ["Copy", "Drop"])] ∧
    Gen.grouperSharesNames = true := by
  decide

theorem genGuards2_eq (op : String) (q : GReq) :
    genGuards2 op q = (canonGuards2.lookup op).bind (fun ch => runGuards specEnv ch q) := by
  unfold genGuards2 guards2In
  rw [genEnv_eq, gen_guards2_canon]

/-! ## Steps, once and for all -/

theorem forEachWork_step (E : GEnv) (coll : GColl) (c : GCond) (o : GOut) (ss : List GStep) (q : GReq) (p : Bytes → Bool)
    (h : ∀ x, c.eval E q (some x) = some (p x)) :
    runGuards E (.forEachWork coll c o :: ss) q = if (q.coll coll).any p then some o else runGuards E ss q := by
  have : (fun x => c.eval E q (some x)) = fun x => some (p x) := funext h
  simp only [runGuards, this, anyFires_total]
  cases (q.coll coll).any p <;> rfl

theorem guardIf_step (E : GEnv) (pre c : GCond) (o : GOut) (ss : List GStep) (q : GReq) (a b : Bool)
    (hp : pre.eval E q none = some a) (hc : c.eval E q none = some b) :
    runGuards E (.guardIf pre c o :: ss) q = if a && b then some o else runGuards E ss q := by
  cases a <;> cases b <;> simp [runGuards, hp, hc]

theorem forEachIf_step (E : GEnv) (pre : GCond) (coll : GColl) (c : GCond) (o : GOut) (ss : List GStep) (q : GReq)
    (a : Bool) (p : Bytes → Bool) (hp : pre.eval E q none = some a) (h : ∀ x, c.eval E q (some x) = some (p x)) :
    runGuards E (.forEachIf pre coll c o :: ss) q = if a && (q.coll coll).any p then some o else runGuards E ss q := by
  have : (fun x => c.eval E q (some x)) = fun x => some (p x) := funext h
  cases a
  · simp [runGuards, hp]
  · simp only [runGuards, hp, this, anyFires_total, Bool.true_and]
    cases (q.coll coll).any p <;> rfl

theorem eval_none_of (E : GEnv) (q : GReq) (c : GColl) : (noneOf c).eval E q none = some (q.coll c).isEmpty := by
  cases hc : q.coll c with
  | nil => simp [GCond.eval, GInt.eval, hc]
  | cons n t =>
    simp [GCond.eval, GInt.eval, hc]
    omega

theorem eval_len_zero (q : GReq) :
    (GCond.eqI .len (.lit 0)).eval specEnv q none = some ((if q.hasErr then -1 else (q.rows : Int)) == 0) := rfl

theorem eval_grouperErr (E : GEnv) (q : GReq) : GCond.grouperHasErr.eval E q none = some q.grouperErr := rfl

theorem eval_unknown_src2 (E : GEnv) (q : GReq) : (GCond.unknownColumn .src2).eval E q none = some (!q.known q.src2) := rfl

theorem eval_given (E : GEnv) (q : GReq) (c : GColl) : (GCond.given c).eval E q none = some (q.isGiven c) := rfl

theorem eval_extFails (E : GEnv) (q : GReq) (k : Nat) : (GCond.extFails k).eval E q none = some (q.extFails k) := rfl

theorem eval_count_ne_colCount (E : GEnv) (q : GReq) (c : GColl) :
    (GCond.not (.eqI (.count c) .colCount)).eval E q none = some ((q.coll c).length != q.colNames.length) := by
  simp only [GCond.eval, GInt.eval, Option.map_some, Option.some.injEq]
  by_cases h : (q.coll c).length = q.colNames.length
  · simp [h]
  · have h1 : (((q.coll c).length : Int) == (q.colNames.length : Int)) = false := beq_false_of_ne (by omega)
    have h2 : ((q.coll c).length != q.colNames.length) = true := by simp [h]
    rw [h1, h2]; rfl

theorem eval_rows_ne (E : GEnv) (q : GReq) :
    (GCond.not (.eqI .indexLen .otherIndexLen)).eval E q none = some (q.rows != q.otherRows) := by
  simp only [GCond.eval, GInt.eval, Option.map_some, Option.some.injEq]
  by_cases h : q.rows = q.otherRows
  · simp [h]
  · have h1 : ((q.rows : Int) == (q.otherRows : Int)) = false := beq_false_of_ne (by omega)
    have h2 : (q.rows != q.otherRows) = true := by simp [h]
    rw [h1, h2]; rfl

theorem eval_colCount_ne (E : GEnv) (q : GReq) :
    (GCond.not (.eqI .colCount .otherColCount)).eval E q none = some (q.colNames.length != q.otherNames.length) := by
  simp only [GCond.eval, GInt.eval, Option.map_some, Option.some.injEq]
  by_cases h : q.colNames.length = q.otherNames.length
  · simp [h]
  · have h1 : ((q.colNames.length : Int) == (q.otherNames.length : Int)) = false := beq_false_of_ne (by omega)
    have h2 : (q.colNames.length != q.otherNames.length) = true := by simp [h]
    rw [h1, h2]; rfl

/-! ## The meaning of the canonical chains -/

def anyUnknown (q : GReq) (l : List Bytes) : Bool := l.any (fun n => !q.known n)

def sortOutcome (q : GReq) : GOut :=
  if q.hasErr then .returnSelf
  else if q.orderCols.isEmpty then .returnSelf
  else if anyUnknown q q.orderCols then .err else .ok

def distinctOutcome (q : GReq) : GOut :=
  if q.hasErr then .returnSelf
  else if anyUnknown q q.groupCols then .err
  else if q.rows == 0 then .returnSelf else .ok

def groupByOutcome (q : GReq) : GOut :=
  if q.hasErr then .carryErr
  else if anyUnknown q q.groupCols then .err else .ok

def aggregateOutcome (q : GReq) : GOut :=
  if q.grouperErr then .carryErr
  else if anyUnknown q q.aggCols then .err else .ok

def apply1Outcome (q : GReq) : GOut :=
  if q.hasErr then .returnSelf else if !q.known q.src then .err else .ok

def apply2Outcome (q : GReq) : GOut :=
  if q.hasErr then .returnSelf else if !q.known q.src then .err else if !q.known q.src2 then .err else .ok

def filterLeafOutcome (q : GReq) : GOut :=
  if q.hasErr then .returnSelf else if anyUnknown q q.filterCols then .err else .ok

def csvOutcome (q : GReq) : GOut :=
  if q.hasErr then .err
  else if q.csvGiven && (q.csvCols.length != q.colNames.length) then .err
  else if q.csvGiven && anyUnknown q q.csvCols then .err else .ok

theorem canon_sort_sem (q : GReq) : runGuards specEnv canonSort q = some (sortOutcome q) := by
  unfold canonSort sortOutcome anyUnknown
  rw [guard_step _ _ _ _ _ _ (eval_hasErr _ q), guard_step _ _ _ _ _ _ (eval_none_of _ q .orderCols),
    forEach_step _ _ _ _ _ _ _ (eval_unknown_each _ q)]
  simp only [runGuards]
  simp only [some_ite]
  rfl

theorem canon_distinct_sem (q : GReq) : runGuards specEnv canonDistinct q = some (distinctOutcome q) := by
  unfold canonDistinct distinctOutcome anyUnknown
  rw [guard_step _ _ _ _ _ _ (eval_hasErr _ q), forEach_step _ _ _ _ _ _ _ (eval_unknown_each _ q),
    guard_step _ _ _ _ _ _ (eval_len_zero q)]
  simp only [runGuards]
  cases h : q.hasErr
  · simp only [Bool.false_eq_true, if_false, some_ite]
    have : (((q.rows : Int)) == 0) = (q.rows == 0) := by
      cases hr : q.rows with
      | zero => rfl
      | succ n =>
        have : ((n + 1 : Nat) : Int) ≠ 0 := by omega
        rw [beq_false_of_ne this]; rfl
    rw [this]; rfl
  · simp

theorem canon_groupBy_sem (q : GReq) : runGuards specEnv canonGroupBy q = some (groupByOutcome q) := by
  unfold canonGroupBy groupByOutcome anyUnknown
  rw [guard_step _ _ _ _ _ _ (eval_hasErr _ q), forEach_step _ _ _ _ _ _ _ (eval_unknown_each _ q),
    guard_step _ _ _ _ _ _ (eval_len_zero q)]
  simp only [runGuards, ite_self]
  simp only [some_ite]
  rfl

theorem canon_aggregate_sem (q : GReq) : runGuards specEnv canonAggregate q = some (aggregateOutcome q) := by
  unfold canonAggregate aggregateOutcome anyUnknown
  rw [guard_step _ _ _ _ _ _ (eval_grouperErr _ q), forEachWork_step _ _ _ _ _ _ _ (eval_unknown_each _ q)]
  simp only [runGuards]
  simp only [some_ite]
  rfl

theorem canon_apply1_sem (q : GReq) : runGuards specEnv canonApply1 q = some (apply1Outcome q) := by
  unfold canonApply1 apply1Outcome
  rw [guard_step _ _ _ _ _ _ (eval_hasErr _ q), guard_step _ _ _ _ _ _ (eval_unknown_src _ q)]
  simp only [runGuards]
  simp only [some_ite]

theorem canon_apply2_sem (q : GReq) : runGuards specEnv canonApply2 q = some (apply2Outcome q) := by
  unfold canonApply2 apply2Outcome
  rw [guard_step _ _ _ _ _ _ (eval_hasErr _ q), guard_step _ _ _ _ _ _ (eval_unknown_src _ q),
    guard_step _ _ _ _ _ _ (eval_unknown_src2 _ q)]
  simp only [runGuards]
  simp only [some_ite]

theorem canon_filterLeaf_sem (q : GReq) : runGuards specEnv canonFilterLeaf q = some (filterLeafOutcome q) := by
  unfold canonFilterLeaf filterLeafOutcome anyUnknown
  rw [guard_step _ _ _ _ _ _ (eval_hasErr _ q), forEachWork_step _ _ _ _ _ _ _ (eval_unknown_each _ q)]
  simp only [runGuards]
  simp only [some_ite]
  rfl

theorem canon_csv_sem (q : GReq) : runGuards specEnv canonToCSV q = some (csvOutcome q) := by
  unfold canonToCSV csvOutcome anyUnknown
  rw [guard_step _ _ _ _ _ _ (eval_hasErr _ q),
    guardIf_step _ _ _ _ _ _ _ _ (eval_given _ q .csvCols) (eval_count_ne_colCount _ q .csvCols),
    forEachIf_step _ _ _ _ _ _ _ _ _ (eval_given _ q .csvCols) (eval_unknown_each _ q)]
  simp only [runGuards]
  simp only [some_ite]
  rfl

/-- a chain that starts with a test of the receiver's error ends there when the receiver has one -/
theorem first_guard_sticky (E : GEnv) (o : GOut) (ss : List GStep) (q : GReq) (h : q.hasErr = true) :
    runGuards E (.guard .qfHasErr o :: ss) q = some o := by
  rw [guard_step _ _ _ _ _ _ (eval_hasErr _ q), h]; rfl

theorem first_guard_sticky_grouper (E : GEnv) (o : GOut) (ss : List GStep) (q : GReq) (h : q.grouperErr = true) :
    runGuards E (.guard .grouperHasErr o :: ss) q = some o := by
  rw [guard_step _ _ _ _ _ _ (eval_grouperErr _ q), h]; rfl

/-! ## Today's chains, on ALL requests -/

theorem gen_sort_outcome (q : GReq) : genGuards2 "Sort" q = some (sortOutcome q) := by
  rw [genGuards2_eq]; exact canon_sort_sem q

theorem gen_distinct_outcome (q : GReq) : genGuards2 "Distinct" q = some (distinctOutcome q) := by
  rw [genGuards2_eq]; exact canon_distinct_sem q

theorem gen_groupBy_outcome (q : GReq) : genGuards2 "GroupBy" q = some (groupByOutcome q) := by
  rw [genGuards2_eq]; exact canon_groupBy_sem q

theorem gen_aggregate_outcome (q : GReq) : genGuards2 "Aggregate" q = some (aggregateOutcome q) := by
  rw [genGuards2_eq]; exact canon_aggregate_sem q

theorem gen_apply0_outcome (q : GReq) : genGuards2 "apply0" q = some (if q.hasErr then .returnSelf else .ok) := by
  rw [genGuards2_eq]
  show runGuards specEnv canonApply0 q = _
  unfold canonApply0
  rw [guard_step _ _ _ _ _ _ (eval_hasErr _ q)]
  simp only [runGuards, some_ite]

theorem gen_apply1_outcome (q : GReq) : genGuards2 "apply1" q = some (apply1Outcome q) := by
  rw [genGuards2_eq]; exact canon_apply1_sem q

theorem gen_apply2_outcome (q : GReq) : genGuards2 "apply2" q = some (apply2Outcome q) := by
  rw [genGuards2_eq]; exact canon_apply2_sem q

theorem gen_filter_outcome (q : GReq) : genGuards2 "Filter" q = some (if q.hasErr then .returnSelf else .ok) := by
  rw [genGuards2_eq]
  show runGuards specEnv canonSticky1 q = _
  unfold canonSticky1
  rw [guard_step _ _ _ _ _ _ (eval_hasErr _ q)]
  simp only [runGuards, some_ite]

theorem gen_eval_outcome (q : GReq) : genGuards2 "Eval" q = some (if q.hasErr then .returnSelf else .ok) := by
  rw [genGuards2_eq]
  show runGuards specEnv canonSticky1 q = _
  unfold canonSticky1
  rw [guard_step _ _ _ _ _ _ (eval_hasErr _ q)]
  simp only [runGuards, some_ite]

theorem gen_filterLeaf_outcome (q : GReq) : genGuards2 "filterLeaf" q = some (filterLeafOutcome q) := by
  rw [genGuards2_eq]; exact canon_filterLeaf_sem q

theorem gen_csv_outcome (q : GReq) : genGuards2 "ToCSV" q = some (csvOutcome q) := by
  rw [genGuards2_eq]; exact canon_csv_sem q

/-- `FilteredApply`: the frame itself if it has an error; an error if the clause fails on it; else the work starts. -/
theorem gen_filteredApply_outcome (q : GReq) :
    genGuards2 "FilteredApply" (withSub q) =
      some (if q.hasErr then .returnSelf else if q.subWorkFails then .err else .ok) := by
  rw [genGuards2_eq]
  show runGuards specEnv canonFilteredApply (withSub q) = _
  unfold canonFilteredApply withSub
  rw [gen_filter_outcome]
  cases h : q.hasErr <;> cases h2 : q.subWorkFails <;> simp [runGuards]

/-- The readers: an error iff one of the calls into the reader packages returns one; otherwise they end in `New`. -/
theorem gen_read_outcome (q : GReq) :
    genGuards2 "ReadCSV" q = some (if q.extFails 0 then .err else .ok) ∧
    genGuards2 "ReadJSON" q = some (if q.extFails 0 then .err else .ok) ∧
    genGuards2 "ReadSQL" q = some .ok ∧
    genGuards2 "ReadSQLWithArgs" q = some (if q.extFails 0 || q.extFails 1 || q.extFails 2 then .err else .ok) := by
  refine ⟨?_, ?_, ?_, ?_⟩
  · rw [genGuards2_eq]
    show runGuards specEnv canonRead1 q = _
    unfold canonRead1
    rw [guard_step _ _ _ _ _ _ (eval_extFails _ q 0)]
    simp only [runGuards, some_ite]
  · rw [genGuards2_eq]
    show runGuards specEnv canonRead1 q = _
    unfold canonRead1
    rw [guard_step _ _ _ _ _ _ (eval_extFails _ q 0)]
    simp only [runGuards, some_ite]
  · rw [genGuards2_eq]; rfl
  · rw [genGuards2_eq]
    show runGuards specEnv canonRead3 q = _
    unfold canonRead3
    rw [guard_step _ _ _ _ _ _ (eval_extFails _ q 0), guard_step _ _ _ _ _ _ (eval_extFails _ q 1),
      guard_step _ _ _ _ _ _ (eval_extFails _ q 2)]
    cases q.extFails 0 <;> cases q.extFails 1 <;> cases q.extFails 2 <;> simp [runGuards]

/-! ## Errors are sticky -/

/-- **Errors are sticky — every operation, ALL requests.** If the receiver already carries an error, the chain of today's
source ends at its first step, whatever the arguments are:

* `Sort`, `Distinct`, `Eval`, `Filter`, `filterLeaf` and the three helpers of `Apply` return the receiver itself
  (`return qf`: same columns, same index, same error);
* `FilteredApply` returns what `qf.Filter(clause)` returns, and that is the receiver itself;
* `GroupBy` returns a `Grouper` carrying the frame's error; `Aggregate` a frame, `QFrames` an error result carrying the
  grouper's;
* `ToCSV`, `ToJSON`, `ToSQL` return an error.

`Apply` and `WithRowNums` have no test of their own: `gen_apply_dispatch` shows that every instruction goes to one of the
three helpers, `apply_loop_sticky` that the receiver then comes back unchanged. `Equals` returns a verdict, not a frame:
it has no such test (`gen_equals_outcome`). -/
theorem gen_sticky_all (q : GReq) :
    (q.hasErr = true → ∀ op ∈ ["Sort", "Distinct", "apply0", "apply1", "apply2", "Eval", "Filter", "filterLeaf"],
      genGuards2 op q = some .returnSelf) ∧
    (q.hasErr = true → genGuards2 "FilteredApply" (withSub q) = some .returnSelf) ∧
    (q.hasErr = true → genGuards2 "GroupBy" q = some .carryErr) ∧
    (q.grouperErr = true → ∀ op ∈ ["Aggregate", "QFrames"], genGuards2 op q = some .carryErr) ∧
    (q.hasErr = true → ∀ op ∈ ["ToCSV", "ToJSON", "ToSQL"], genGuards2 op q = some .err) := by
  refine ⟨fun h op hop => ?_, fun h => ?_, fun h => ?_, fun h op hop => ?_, fun h op hop => ?_⟩
  · simp only [List.mem_cons, List.mem_nil_iff, or_false] at hop
    rcases hop with rfl | rfl | rfl | rfl | rfl | rfl | rfl | rfl <;> rw [genGuards2_eq] <;>
      exact first_guard_sticky _ _ _ q h
  · rw [gen_filteredApply_outcome, h]; rfl
  · rw [genGuards2_eq]; exact first_guard_sticky _ _ _ q h
  · simp only [List.mem_cons, List.mem_nil_iff, or_false] at hop
    rcases hop with rfl | rfl <;> rw [genGuards2_eq] <;> exact first_guard_sticky_grouper _ _ _ q h
  · simp only [List.mem_cons, List.mem_nil_iff, or_false] at hop
    rcases hop with rfl | rfl | rfl <;> rw [genGuards2_eq] <;> exact first_guard_sticky _ _ _ q h

/-! ## Against the spec: which requests are rejected -/

/-- what `Sort(os…)` sees: the frame (no error) and the `Column` of each order -/
def sortReq (f : LFrame) (os : List Order) : GReq := { frameReq f with orderCols := os.map (·.col) }

/-- `Distinct(groupby.Columns(keys…))` / `GroupBy(groupby.Columns(keys…))` -/
def keysReq (f : LFrame) (keys : List Bytes) : GReq := { frameReq f with groupCols := keys }

/-- `Aggregate(aggs…)` on the grouper `GroupBy` built from `f`: its name map is the frame's (`grouperSharesNames`) -/
def aggReq (f : LFrame) (aggs : List Agg) : GReq := { frameReq f with aggCols := aggs.map (·.col) }

/-- `ToCSV(csv.Columns(cols))`; the harness (and the spec) do not tell an empty list from none: nil is passed for it -/
def csvReq (f : LFrame) (cols : List Bytes) : GReq :=
  { frameReq f with colNames := f.names, csvCols := cols, csvGiven := !cols.isEmpty }

theorem anyUnknown_frame (f : LFrame) (l : List Bytes) (q : GReq) (h : q.known = f.has) :
    anyUnknown q l = true ↔ ∃ n ∈ l, f.has n = false := by
  unfold anyUnknown
  rw [h]
  exact any_unknown_iff f l

theorem ite_err_ok (c : Bool) : (if c then GOut.err else GOut.ok) = GOut.err ↔ c = true := by
  cases c <;> simp

theorem sortOutcome_eq (f : LFrame) (os : List Order) :
    sortOutcome (sortReq f os) =
      if os.isEmpty then GOut.returnSelf else if anyUnknown (frameReq f) (os.map (·.col)) then .err else .ok := by
  have e : sortOutcome (sortReq f os) =
      if (os.map (·.col)).isEmpty then GOut.returnSelf
      else if anyUnknown (frameReq f) (os.map (·.col)) then .err else .ok := rfl
  rw [e, List.isEmpty_map]

theorem any_unknown_orders (f : LFrame) (os : List Order) :
    anyUnknown (frameReq f) (os.map (·.col)) = true ↔ ∃ o ∈ os, f.has o.col = false := by
  rw [anyUnknown_frame f _ _ rfl]
  constructor
  · rintro ⟨n, hn, h⟩
    obtain ⟨o, ho, rfl⟩ := List.mem_map.1 hn
    exact ⟨o, ho, h⟩
  · rintro ⟨o, ho, h⟩
    exact ⟨o.col, List.mem_map.2 ⟨o, ho, rfl⟩, h⟩

/-- **Sort (C03).** On a frame without error the chain of today's `Sort` rejects iff the spec has no sort keys for the
request (`sortKeys f os = none`: some order names an unknown column — and then no frame is an acceptable result,
`C10Sticky.isSortedResult_unknown`); it returns the frame itself iff no order is given (the spec: the frame unchanged);
otherwise the work starts. It always has an outcome. -/
theorem gen_sort_semantics (f : LFrame) (os : List Order) :
    (genGuards2 "Sort" (sortReq f os) = some .err ↔ sortKeys f os = none) ∧
    (genGuards2 "Sort" (sortReq f os) = some .returnSelf ↔ os = []) ∧
    (genGuards2 "Sort" (sortReq f os) = some .ok ↔ os ≠ [] ∧ (sortKeys f os).isSome = true) := by
  rw [gen_sort_outcome, sortOutcome_eq, C10Sticky.sortKeys_none_iff, ← any_unknown_orders]
  have hs : (sortKeys f os).isSome = true ↔ ¬ (anyUnknown (frameReq f) (os.map (·.col)) = true) := by
    rw [any_unknown_orders, ← C10Sticky.sortKeys_none_iff]
    cases sortKeys f os <;> simp
  rw [hs]
  cases os with
  | nil => simp [anyUnknown]
  | cons o t =>
    have : (o :: t).isEmpty = false := rfl
    rw [this]
    cases anyUnknown (frameReq f) ((o :: t).map (·.col)) <;> simp

theorem distinctOutcome_eq (f : LFrame) (keys : List Bytes) :
    distinctOutcome (keysReq f keys) =
      if anyUnknown (frameReq f) keys then GOut.err else if f.n == 0 then .returnSelf else .ok := rfl

/-- **Distinct (C05).** On a frame without error the chain of today's `Distinct` rejects iff a requested column is unknown
(`distinctKeys f keys = none`: then no frame is an acceptable result, `C10Sticky.isDistinctResult_unknown`) — ALSO on a
frame without rows, because the column check comes first; it returns the frame itself iff all columns are known and the
frame has no rows. -/
theorem gen_distinct_semantics (f : LFrame) (keys : List Bytes) :
    (genGuards2 "Distinct" (keysReq f keys) = some .err ↔ C10Sticky.distinctKeys f keys = none) ∧
    (genGuards2 "Distinct" (keysReq f keys) = some .returnSelf ↔
      (C10Sticky.distinctKeys f keys).isSome = true ∧ f.n = 0) := by
  rw [gen_distinct_outcome, distinctOutcome_eq, C10Sticky.distinctKeys_none_iff, ← anyUnknown_frame f keys (frameReq f) rfl]
  have hs : (C10Sticky.distinctKeys f keys).isSome = true ↔ ¬ (anyUnknown (frameReq f) keys = true) := by
    rw [anyUnknown_frame f keys _ rfl, ← C10Sticky.distinctKeys_none_iff]
    cases C10Sticky.distinctKeys f keys <;> simp
  rw [hs]
  cases anyUnknown (frameReq f) keys
  · cases hn : f.n with
    | zero => simp
    | succ k => simp
  · simp

theorem groupByOutcome_eq (f : LFrame) (keys : List Bytes) :
    groupByOutcome (keysReq f keys) = if anyUnknown (frameReq f) keys then GOut.err else .ok := rfl

theorem aggregateOutcome_eq (f : LFrame) (aggs : List Agg) :
    aggregateOutcome (aggReq f aggs) = if anyUnknown (frameReq f) (aggs.map (·.col)) then GOut.err else .ok := rfl

theorem any_unknown_aggs (f : LFrame) (aggs : List Agg) :
    anyUnknown (frameReq f) (aggs.map (·.col)) = true ↔ ∃ a ∈ aggs, f.has a.col = false := by
  rw [anyUnknown_frame f _ _ rfl]
  constructor
  · rintro ⟨n, hn, h⟩
    obtain ⟨a, ha, rfl⟩ := List.mem_map.1 hn
    exact ⟨a, ha, h⟩
  · rintro ⟨a, ha, h⟩
    exact ⟨a.col, List.mem_map.2 ⟨a, ha, rfl⟩, h⟩

/-- **GroupBy + Aggregate (C04), the column checks.** On a frame without error: `GroupBy` yields a grouper with an error
iff a grouping column is unknown; `Aggregate` (on the grouper built from the frame) rejects IN ITS PREFIX iff an aggregation
names an unknown column. The spec's `groupAggS` returns `.err` iff one of the two does, or — LATER, outside the chains
(`lateErrors2`: 2) — an aggregation's result name is taken or its function is not defined for its column
(`C10Sticky.aggsLate`). -/
theorem gen_groupagg_semantics (f : LFrame) (gbNull : Bool) (keys : List Bytes) (aggs : List Agg) :
    (genGuards2 "GroupBy" (keysReq f keys) = some .err ↔ ∃ n ∈ keys, f.has n = false) ∧
    (genGuards2 "Aggregate" (aggReq f aggs) = some .err ↔ ∃ a ∈ aggs, f.has a.col = false) ∧
    (groupAggS f gbNull keys aggs = .err ↔
      genGuards2 "GroupBy" (keysReq f keys) = some .err ∨ genGuards2 "Aggregate" (aggReq f aggs) = some .err ∨
      C10Sticky.aggsLate f keys aggs = true) := by
  have h1 : genGuards2 "GroupBy" (keysReq f keys) = some .err ↔ ∃ n ∈ keys, f.has n = false := by
    rw [gen_groupBy_outcome, groupByOutcome_eq, Option.some.injEq, ite_err_ok]
    exact anyUnknown_frame f keys _ rfl
  have h2 : genGuards2 "Aggregate" (aggReq f aggs) = some .err ↔ ∃ a ∈ aggs, f.has a.col = false := by
    rw [gen_aggregate_outcome, aggregateOutcome_eq, Option.some.injEq, ite_err_ok]
    exact any_unknown_aggs f aggs
  exact ⟨h1, h2, by rw [h1, h2]; exact C10Sticky.groupAggS_err_iff f gbNull keys aggs⟩

/-- … in particular: what the two prefixes reject, the spec rejects. -/
theorem gen_groupagg_sound (f : LFrame) (gbNull : Bool) (keys : List Bytes) (aggs : List Agg)
    (h : genGuards2 "GroupBy" (keysReq f keys) = some .err ∨ genGuards2 "Aggregate" (aggReq f aggs) = some .err) :
    groupAggS f gbNull keys aggs = .err := by
  rw [(gen_groupagg_semantics f gbNull keys aggs).2.2]
  rcases h with h | h
  · exact .inl h
  · exact .inr (.inl h)

theorem csvOutcome_eq (f : LFrame) (cols : List Bytes) :
    csvOutcome (csvReq f cols) =
      if !cols.isEmpty && (cols.length != f.names.length) then GOut.err
      else if !cols.isEmpty && anyUnknown (frameReq f) cols then .err else .ok := rfl

theorem csvColumns_none_iff (f : LFrame) (cols : List Bytes) :
    csvColumns f cols = none ↔ cols ≠ [] ∧ (cols.length ≠ f.cols.length ∨ ∃ n ∈ cols, f.has n = false) := by
  unfold csvColumns
  cases cols with
  | nil => simp
  | cons c t =>
    have hne : (c :: t) ≠ [] := by simp
    simp only [List.isEmpty_cons, Bool.false_eq_true, if_false]
    by_cases hl : (c :: t).length = f.cols.length
    · have : ¬ (((c :: t).length != f.cols.length) = true) := by rw [hl]; simp
      rw [if_neg this, C10Sticky.mapM_find_none_iff]
      exact ⟨fun h => ⟨hne, .inr h⟩, fun ⟨_, h⟩ => h.resolve_left (fun x => x hl)⟩
    · have : ((c :: t).length != f.cols.length) = true := bne_iff_ne.mpr hl
      rw [if_pos this]
      exact ⟨fun _ => ⟨hne, .inl hl⟩, fun _ => rfl⟩

/-- **ToCSV (C13), the column selection.** On a frame without error the chain of today's `ToCSV` rejects iff the spec's
`csvColumns` does: a column list is given and its length differs from the number of columns, or it names an unknown column.
(The writer's errors come later: `lateErrors2`: 3.) -/
theorem gen_csv_semantics (f : LFrame) (cols : List Bytes) :
    genGuards2 "ToCSV" (csvReq f cols) = some .err ↔ csvColumns f cols = none := by
  rw [gen_csv_outcome, csvOutcome_eq, csvColumns_none_iff, Option.some.injEq]
  have hn : f.names.length = f.cols.length := by unfold LFrame.names; exact List.length_map _
  rw [hn]
  cases cols with
  | nil => simp
  | cons c t =>
    have hne : (c :: t) ≠ [] := by simp
    have e : (!(c :: t).isEmpty) = true := rfl
    rw [e]
    simp only [Bool.true_and]
    by_cases hl : (c :: t).length = f.cols.length
    · have : ((c :: t).length != f.cols.length) = false := by rw [hl]; simp
      rw [this]
      simp only [Bool.false_eq_true, if_false]
      rw [ite_err_ok, anyUnknown_frame f _ _ rfl]
      exact ⟨fun h => ⟨hne, .inr h⟩, fun ⟨_, h⟩ => h.resolve_left (fun x => x hl)⟩
    · have : ((c :: t).length != f.cols.length) = true := bne_iff_ne.mpr hl
      rw [this]
      simp only [if_true]
      exact ⟨fun _ => ⟨hne, .inl hl⟩, fun _ => trivial⟩

/-- The nil / empty distinction: a column list that is GIVEN but empty is rejected on a frame with columns
("wrong number of columns"), where `csvColumns f []` means all columns. The harness passes nil for an empty list, so no
request it can express shows the difference. -/
theorem csv_empty_nonnil (f : LFrame) (h : f.cols ≠ []) :
    genGuards2 "ToCSV" { frameReq f with colNames := f.names, csvCols := [], csvGiven := true } = some .err ∧
    csvColumns f [] = some f.cols := by
  refine ⟨?_, rfl⟩
  rw [gen_csv_outcome]
  have e : csvOutcome { frameReq f with colNames := f.names, csvCols := [], csvGiven := true } =
      if (true && (0 != f.names.length)) then GOut.err
      else if (true && ([] : List Bytes).any (fun n => !f.has n)) then .err else .ok := rfl
  rw [e]
  have : f.names.length ≠ 0 := by
    unfold LFrame.names
    rw [List.length_map]
    exact fun h0 => h (List.length_eq_zero_iff.mp h0)
  have : (0 != f.names.length) = true := bne_iff_ne.mpr (fun h0 => this h0.symm)
  rw [this]; rfl

/-! ### Equals -/

/-- `qf.Equals(other)`: the row counts, the column names, and what the column code says about position `i` -/
def equalsReq (a b : LFrame) (differs : Nat → Bool) : GReq :=
  { rows := a.n, colNames := a.names, otherRows := b.n, otherNames := b.names, contentDiffers := differs }

theorem pair_names (i : Nat) (l1 l2 : List Bytes) (h : l1.length = l2.length) :
    anyFiresPair (fun _ a b => b.map (fun n => a != n)) i l1 l2 = some (l1 != l2) := by
  induction l1 generalizing l2 i with
  | nil =>
    cases l2 with
    | nil => rfl
    | cons b t => cases h
  | cons a t ih =>
    cases l2 with
    | nil => cases h
    | cons b t2 =>
      have ht : t.length = t2.length := by simpa using h
      simp only [anyFiresPair, List.head?_cons, Option.map_some, List.tail_cons]
      by_cases hab : a = b
      · subst hab
        have : (a != a) = false := by simp
        rw [this]
        simp only []
        rw [ih _ _ ht]
        congr 1
        by_cases htt : t = t2
        · subst htt; simp
        · have h1 : (t != t2) = true := bne_iff_ne.mpr htt
          have h2 : (a :: t != a :: t2) = true := bne_iff_ne.mpr (fun h => htt (List.cons.inj h).2)
          rw [h1, h2]
      · have h1 : (a != b) = true := bne_iff_ne.mpr hab
        have h2 : (a :: t != b :: t2) = true := bne_iff_ne.mpr (fun h => hab (List.cons.inj h).1)
        rw [h1, h2]

theorem pair_content (cd : Nat → Bool) (i : Nat) (l1 l2 : List Bytes) (h : l1.length = l2.length) :
    anyFiresPair (fun i _ b => b.map (fun _ => cd i)) i l1 l2 =
      some ((List.range l1.length).any (fun j => cd (i + j))) := by
  induction l1 generalizing l2 i with
  | nil => rfl
  | cons a t ih =>
    cases l2 with
    | nil => cases h
    | cons b t2 =>
      have ht : t.length = t2.length := by simpa using h
      simp only [anyFiresPair, List.head?_cons, Option.map_some, List.tail_cons, List.length_cons]
      rw [List.range_succ_eq_map, List.any_cons, List.any_map]
      cases hc : cd i
      · simp only [Bool.false_or]
        rw [ih _ _ ht]
        congr 2
        funext j
        simp only [Function.comp]
        congr 1
        omega
      · simp

theorem forEachPair_names_step (E : GEnv) (o : GOut) (ss : List GStep) (q : GReq)
    (hl : q.colNames.length = q.otherNames.length) :
    runGuards E (.forEachPair .pairNameDiffers o :: ss) q =
      if q.colNames != q.otherNames then some o else runGuards E ss q := by
  have e : anyFiresPair (fun i a b => GCond.pairNameDiffers.evalPair E q i a b) 0 q.colNames q.otherNames =
      some (q.colNames != q.otherNames) := pair_names 0 _ _ hl
  simp only [runGuards, e]
  cases q.colNames != q.otherNames <;> rfl

theorem forEachPair_content_step (E : GEnv) (o : GOut) (ss : List GStep) (q : GReq)
    (hl : q.colNames.length = q.otherNames.length) :
    runGuards E (.forEachPair .pairContentDiffers o :: ss) q =
      if (List.range q.colNames.length).any q.contentDiffers then some o else runGuards E ss q := by
  have e : anyFiresPair (fun i a b => GCond.pairContentDiffers.evalPair E q i a b) 0 q.colNames q.otherNames =
      some ((List.range q.colNames.length).any q.contentDiffers) := by
    have := pair_content q.contentDiffers 0 _ _ hl
    simp only [Nat.zero_add] at this
    exact this
  simp only [runGuards, e]
  cases (List.range q.colNames.length).any q.contentDiffers <;> rfl

def equalsOutcome (q : GReq) : GOut :=
  if q.rows != q.otherRows then .retFalse
  else if q.colNames.length != q.otherNames.length then .retFalse
  else if q.colNames != q.otherNames then .retFalse
  else if (List.range q.colNames.length).any q.contentDiffers then .retFalse else .retTrue

theorem canon_equals_sem (q : GReq) : runGuards specEnv canonEquals q = some (equalsOutcome q) := by
  unfold canonEquals equalsOutcome
  rw [guard_step _ _ _ _ _ _ (eval_rows_ne _ q), guard_step _ _ _ _ _ _ (eval_colCount_ne _ q)]
  cases h1 : q.rows != q.otherRows
  · cases h2 : q.colNames.length != q.otherNames.length
    · have hl : q.colNames.length = q.otherNames.length := by
        have := h2; simpa using this
      simp only [Bool.false_eq_true, if_false]
      rw [forEachPair_names_step _ _ _ _ hl, forEachPair_content_step _ _ _ _ hl]
      cases q.colNames != q.otherNames
      · cases (List.range q.colNames.length).any q.contentDiffers <;> rfl
      · rfl
    · simp
  · simp

/-- What today's `Equals` does, as a closed formula, on ALL requests. (No test of `Err`: `Equals` returns a verdict.) -/
theorem gen_equals_outcome (q : GReq) : genGuards2 "Equals" q = some (equalsOutcome q) := by
  rw [genGuards2_eq]; exact canon_equals_sem q

/-- **Equals (C09), the shape checks.** The first three checks of today's `Equals` — number of rows, number of columns,
the column names position by position — answer `false` iff the frames differ in their number of rows or in their column
names, and then the spec's `equalsS` is false. Whatever the column code says (`differs`), `Equals` answers `true` iff the
shapes agree and it finds no difference at any position; the comparison of the column TYPES and of the cells happens there
(`pairContentDiffers`), outside the chain. -/
theorem gen_equals_semantics (a b : LFrame) (differs : Nat → Bool) :
    (genGuards2 "Equals" (equalsReq a b (fun _ => false)) = some .retFalse ↔ a.n ≠ b.n ∨ a.names ≠ b.names) ∧
    (a.n ≠ b.n ∨ a.names ≠ b.names → genGuards2 "Equals" (equalsReq a b differs) = some .retFalse ∧ equalsS a b = false) ∧
    (genGuards2 "Equals" (equalsReq a b differs) = some .retTrue ↔
      a.n = b.n ∧ a.names = b.names ∧ ∀ i < a.cols.length, differs i = false) := by
  have e : ∀ d, equalsOutcome (equalsReq a b d) =
      if a.n != b.n then GOut.retFalse
      else if a.names.length != b.names.length then .retFalse
      else if a.names != b.names then .retFalse
      else if (List.range a.names.length).any d then .retFalse else .retTrue := fun _ => rfl
  have hlen : a.names.length = a.cols.length := by unfold LFrame.names; exact List.length_map _
  have shape : ∀ d, (a.n ≠ b.n ∨ a.names ≠ b.names) → equalsOutcome (equalsReq a b d) = .retFalse := by
    intro d h
    rw [e]
    by_cases h1 : a.n = b.n
    · have hn : a.names ≠ b.names := by rcases h with h | h; exact absurd h1 h; exact h
      have : (a.n != b.n) = false := by simp [h1]
      rw [this]
      simp only [Bool.false_eq_true, if_false]
      have : (a.names != b.names) = true := bne_iff_ne.mpr hn
      rw [this]
      split <;> rfl
    · have : (a.n != b.n) = true := bne_iff_ne.mpr h1
      rw [this]; rfl
  refine ⟨?_, fun h => ⟨by rw [gen_equals_outcome, shape differs h], C10Sticky.equalsS_shape a b h⟩, ?_⟩
  · rw [gen_equals_outcome, Option.some.injEq]
    constructor
    · intro h
      rw [e] at h
      by_cases h1 : a.n = b.n
      · by_cases h2 : a.names = b.names
        · exfalso
          have x1 : (a.n != b.n) = false := by simp [h1]
          have x2 : (a.names.length != b.names.length) = false := by simp [h2]
          have x3 : (a.names != b.names) = false := by simp [h2]
          rw [x1, x2, x3] at h
          simp at h
        · exact .inr h2
      · exact .inl h1
    · exact shape _
  · rw [gen_equals_outcome, Option.some.injEq, e]
    constructor
    · intro h
      by_cases h1 : a.n = b.n
      · by_cases h2 : a.names = b.names
        · refine ⟨h1, h2, ?_⟩
          have x1 : (a.n != b.n) = false := by simp [h1]
          have x2 : (a.names.length != b.names.length) = false := by simp [h2]
          have x3 : (a.names != b.names) = false := by simp [h2]
          rw [x1, x2, x3] at h
          simp only [Bool.false_eq_true, if_false] at h
          cases hd : (List.range a.names.length).any differs
          · intro i hi
            rw [List.any_eq_false] at hd
            have := hd i (List.mem_range.2 (by omega))
            simpa using this
          · rw [hd] at h; simp at h
        · have := shape differs (.inr h2); rw [e] at this; rw [this] at h; cases h
      · have := shape differs (.inl h1); rw [e] at this; rw [this] at h; cases h
    · rintro ⟨h1, h2, h3⟩
      have x1 : (a.n != b.n) = false := by simp [h1]
      have x2 : (a.names.length != b.names.length) = false := by simp [h2]
      have x3 : (a.names != b.names) = false := by simp [h2]
      rw [x1, x2, x3]
      simp only [Bool.false_eq_true, if_false]
      have : (List.range a.names.length).any differs = false := by
        rw [List.any_eq_false]
        intro i hi
        have := h3 i (by have := List.mem_range.1 hi; omega)
        simp [this]
      rw [this]; rfl

/-- what the column code is EXPECTED to say about the columns at position `i` (it is not part of the chain): they differ iff
their types differ or some cell does -/
def colDiffers (a b : LFrame) (i : Nat) : Bool :=
  !((a.cols[i]!).ty == (b.cols[i]!).ty &&
    (List.range a.n).all (fun r => cellEq (a.cols[i]!).cells[r]! (b.cols[i]!).cells[r]!))

theorem zip_all_index {α : Type} [Inhabited α] (R : α → α → Bool) (xs ys : List α) (h : xs.length = ys.length) :
    (List.zip xs ys).all (fun p => R p.1 p.2) = (List.range xs.length).all (fun i => R xs[i]! ys[i]!) := by
  induction xs generalizing ys with
  | nil => rfl
  | cons x t ih =>
    cases ys with
    | nil => cases h
    | cons y t2 =>
      have ht : t.length = t2.length := by simpa using h
      rw [List.length_cons, List.range_succ_eq_map, List.all_cons, List.all_map]
      simp only [List.zip_cons_cons, List.all_cons, List.getElem!_cons_zero]
      rw [ih t2 ht]
      congr 2

theorem map_beq_zip (xs ys : List LCol) (h : xs.length = ys.length) :
    (xs.map (·.ty) == ys.map (·.ty)) = (List.zip xs ys).all (fun p => p.1.ty == p.2.ty) := by
  induction xs generalizing ys with
  | nil =>
    cases ys with
    | nil => rfl
    | cons y t => cases h
  | cons x t ih =>
    cases ys with
    | nil => cases h
    | cons y t2 =>
      have ht : t.length = t2.length := by simpa using h
      simp only [List.map_cons, List.cons_beq_cons, List.zip_cons_cons, List.all_cons, ih t2 ht]

theorem all_and {α : Type} (l : List α) (p q : α → Bool) : (l.all p && l.all q) = l.all (fun x => p x && q x) := by
  induction l with
  | nil => rfl
  | cons x t ih =>
    simp only [List.all_cons, ← ih]
    cases p x <;> cases q x <;> simp

theorem equalsS_iff (a b : LFrame) :
    equalsS a b = true ↔ a.n = b.n ∧ a.names = b.names ∧ ∀ i < a.cols.length, colDiffers a b i = false := by
  unfold equalsS
  simp only [Bool.and_eq_true, beq_iff_eq]
  constructor
  · rintro ⟨⟨⟨h1, h2⟩, h3⟩, h4⟩
    have hl : a.cols.length = b.cols.length := by
      have := congrArg List.length h2
      unfold LFrame.names at this
      simpa using this
    refine ⟨h1, h2, fun i hi => ?_⟩
    have h5 : ((a.cols.map (·.ty)) == (b.cols.map (·.ty))) = true := by rw [h3]; simp
    rw [map_beq_zip _ _ hl] at h5
    have h6 := h4
    have hz : (List.zip a.cols b.cols).all (fun p => (p.1.ty == p.2.ty) &&
        (List.range a.n).all (fun r => cellEq p.1.cells[r]! p.2.cells[r]!)) = true := by
      rw [← all_and, h5]
      exact h6
    rw [zip_all_index (fun x y => (x.ty == y.ty) && (List.range a.n).all (fun r => cellEq x.cells[r]! y.cells[r]!)) _ _ hl,
      List.all_eq_true] at hz
    have := hz i (List.mem_range.2 hi)
    unfold colDiffers
    rw [this]; rfl
  · rintro ⟨h1, h2, h3⟩
    have hl : a.cols.length = b.cols.length := by
      have := congrArg List.length h2
      unfold LFrame.names at this
      simpa using this
    have hz : (List.zip a.cols b.cols).all (fun p => (p.1.ty == p.2.ty) &&
        (List.range a.n).all (fun r => cellEq p.1.cells[r]! p.2.cells[r]!)) = true := by
      rw [zip_all_index (fun x y => (x.ty == y.ty) && (List.range a.n).all (fun r => cellEq x.cells[r]! y.cells[r]!)) _ _ hl,
        List.all_eq_true]
      intro i hi
      have := h3 i (List.mem_range.1 hi)
      unfold colDiffers at this
      simpa using this
    rw [← all_and, Bool.and_eq_true, ← map_beq_zip _ _ hl] at hz
    exact ⟨⟨⟨h1, h2⟩, eq_of_beq hz.1⟩, hz.2⟩

/-- **Equals against the spec (C09), under the expected behaviour of the column code.** If the comparison of two columns
that the column code makes (outside the chain) is the spec's — same type, all cells equal (`colDiffers`) — then today's
`Equals` answers exactly what `equalsS` answers, on ALL pairs of frames. -/
theorem gen_equals_vs_spec (a b : LFrame) :
    genGuards2 "Equals" (equalsReq a b (colDiffers a b)) = some (if equalsS a b then .retTrue else .retFalse) := by
  have h := (gen_equals_semantics a b (colDiffers a b)).2.2
  rw [← equalsS_iff] at h
  cases he : equalsS a b
  · rw [gen_equals_outcome] at h ⊢
    have : equalsOutcome (equalsReq a b (colDiffers a b)) ≠ .retTrue := fun x => by
      have := h.1 (by rw [x]); rw [he] at this; cases this
    have two : ∀ q, equalsOutcome q = .retTrue ∨ equalsOutcome q = .retFalse := by
      intro q; unfold equalsOutcome
      split; exact .inr rfl
      split; exact .inr rfl
      split; exact .inr rfl
      split; exact .inr rfl
      exact .inl rfl
    rcases two (equalsReq a b (colDiffers a b)) with x | x
    · exact absurd x this
    · rw [x]; rfl
  · rw [h.2 he]; rfl

/-- **Reject semantics — Sort, Distinct, GroupBy + Aggregate, Equals, ToCSV** of today's source, on ALL requests on a frame
without error: the extracted prefix rejects iff the spec does, as far as the rejection is decided in the prefix.

* `Sort(os)`: `err` iff `sortKeys f os = none` (an order names an unknown column);
* `Distinct(keys)`: `err` iff `distinctKeys f keys = none` (a requested column is unknown), also when `f` has no rows;
* `GroupBy(keys)` / `Aggregate(aggs)`: `err` iff a grouping column / an aggregation column is unknown; `groupAggS = .err`
  iff one of these, or LATER (`aggsLate`): result name taken, function not defined for the column type;
* `Equals`: `false` by shape iff the row counts or the column names differ (then `equalsS = false`); types and cells LATER;
* `ToCSV(cols)`: `err` iff `csvColumns f cols = none`; writer errors LATER. -/
theorem gen_reject_semantics (f : LFrame) :
    (∀ os, genGuards2 "Sort" (sortReq f os) = some .err ↔ sortKeys f os = none) ∧
    (∀ keys, genGuards2 "Distinct" (keysReq f keys) = some .err ↔ C10Sticky.distinctKeys f keys = none) ∧
    (∀ gbNull keys aggs, groupAggS f gbNull keys aggs = .err ↔
      genGuards2 "GroupBy" (keysReq f keys) = some .err ∨ genGuards2 "Aggregate" (aggReq f aggs) = some .err ∨
      C10Sticky.aggsLate f keys aggs = true) ∧
    (∀ b, genGuards2 "Equals" (equalsReq f b (fun _ => false)) = some .retFalse ↔ f.n ≠ b.n ∨ f.names ≠ b.names) ∧
    (∀ cols, genGuards2 "ToCSV" (csvReq f cols) = some .err ↔ csvColumns f cols = none) :=
  ⟨fun os => (gen_sort_semantics f os).1, fun keys => (gen_distinct_semantics f keys).1,
   fun gbNull keys aggs => (gen_groupagg_semantics f gbNull keys aggs).2.2,
   fun b => (gen_equals_semantics f b (fun _ => false)).1, fun cols => gen_csv_semantics f cols⟩

/-! ## Apply: the dispatch and the loop -/

/-- the spec's reading of a Go instruction: a source column that is not set (`""`) is none -/
def toInstr (g : GoInstr) : Instr :=
  { dst := g.dst, src1 := if g.src1.isEmpty then none else some g.src1,
    src2 := if g.src2.isEmpty then none else some g.src2, fn := g.fn }

/-- the helper (by its number of source parameters) and the fields `applyInstr`'s reading of an instruction calls for -/
def specDispatch (ins : Instr) : Nat × List IField :=
  match ins.src1, ins.src2 with
  | none, _ => (0, [.fn, .dst])
  | some _, none => (1, [.fn, .dst, .src1])
  | some _, some _ => (2, [.fn, .dst, .src1, .src2])

theorem specDispatch_arity (ins : Instr) : (specDispatch ins).1 = C10Sticky.instrArity ins := by
  unfold specDispatch C10Sticky.instrArity
  cases ins.src1 <;> cases ins.src2 <;> rfl

theorem canon_dispatch (g : GoInstr) : canonApply.disp.eval g = some (specDispatch (toInstr g)) := by
  unfold canonApply toInstr specDispatch
  cases h1 : g.src1.isEmpty <;> cases h2 : g.src2.isEmpty <;> simp [IDisp.eval, GoInstr.nameOf, h1, h2]

/-- the instruction a helper call works on: parameter 1 is the destination, parameters 2 and 3 the source columns -/
def callInstr (k : Nat) (args : List IField) (g : GoInstr) : Instr :=
  { dst := ((args[1]?).bind g.nameOf).getD []
    src1 := if 1 ≤ k then (args[2]?).bind g.nameOf else none
    src2 := if 2 ≤ k then (args[3]?).bind g.nameOf else none
    fn := g.fn }

/-- The helper the dispatch picks, with the arguments it passes, does on a frame what `applyInstr` does with the spec's
reading of the instruction. -/
theorem callInstr_spec (up : UpperOracle) (f : LFrame) (m : Nat → Bool) (g : GoInstr) (b : Bool) :
    applyInstr up f m (callInstr (specDispatch (toInstr g)).1 (specDispatch (toInstr g)).2 g) b =
      applyInstr up f m (toInstr g) b := by
  unfold toInstr specDispatch callInstr
  cases h1 : g.src1.isEmpty
  · cases h2 : g.src2.isEmpty <;> simp [GoInstr.nameOf]
  · simp only [if_true]
    have := C10Sticky.applyInstr_no_src1 up f m
      { dst := g.dst, src1 := none, src2 := none, fn := g.fn } b rfl (if g.src2.isEmpty then none else some g.src2)
    simp only at this ⊢
    exact this.symm

/-- what helper `k` sees of the frame and of the instruction -/
def helperReq (f : LFrame) (g : GoInstr) : GReq := { frameReq f with dst := g.dst, src := g.src1, src2 := g.src2 }

/-- **The dispatch of `Apply` is the spec's reading of an instruction** (C06), for today's source:
* the loop starts from the receiver, replaces the accumulator by the helper's result for every instruction and returns it;
* ALL instructions: no first source column → the helper without source parameter (a second one is ignored, as in
  `applyInstr`: `C10Sticky.applyInstr_no_src1`); a first but no second → the helper with one; both → the helper with two;
  the fields are passed in the order function, destination, sources;
* that helper call computes `applyInstr` of the spec's reading (`callInstr_spec`);
* `WithRowNums` passes one instruction without source columns, which therefore goes to `apply0`. -/
theorem gen_apply_dispatch :
    Gen.applyAst.accFromRecv = true ∧ Gen.applyAst.returnsAcc = true ∧
    (∀ g : GoInstr, Gen.applyAst.disp.eval g = some (specDispatch (toInstr g))) ∧
    (∀ g : GoInstr, (specDispatch (toInstr g)).1 = C10Sticky.instrArity (toInstr g)) ∧
    (∀ g : GoInstr, g.src1 = [] → Gen.applyAst.disp.eval g = some (0, [.fn, .dst])) ∧
    (∃ l, Gen.rowNumsAst = some [l] ∧ l.src1Set = false ∧ l.src2Set = false ∧ l.dst = some .dst) := by
  rw [gen_apply_canon]
  refine ⟨rfl, rfl, canon_dispatch, fun g => specDispatch_arity _, fun g h => ?_, ⟨_, gen_rownums_canon, rfl, rfl, rfl⟩⟩
  rw [canon_dispatch]
  unfold toInstr specDispatch
  simp [h]

/-- **Unknown source columns** (C06 / C10): on a frame without error, the helper with one source rejects in its prefix iff
that column is unknown, the helper with two iff one of them is — and `applyInstr` rejects such instructions too. (Their later
rejections — function type, column code, the destination's name in `set` — are outside: `gen_guards2_complete`.) -/
theorem gen_apply_unknown_source (up : UpperOracle) (m : Nat → Bool) (b : Bool) (f : LFrame) (g : GoInstr) :
    (genGuards2 "apply0" (helperReq f g) = some .ok) ∧
    (genGuards2 "apply1" (helperReq f g) = some .err ↔ f.has g.src1 = false) ∧
    (genGuards2 "apply2" (helperReq f g) = some .err ↔ f.has g.src1 = false ∨ f.has g.src2 = false) ∧
    (g.src1 ≠ [] → f.has g.src1 = false → applyInstr up f m (toInstr g) b = .err) ∧
    (g.src1 ≠ [] → g.src2 ≠ [] → f.has g.src2 = false → applyInstr up f m (toInstr g) b = .err) := by
  have e1 : apply1Outcome (helperReq f g) = if !f.has g.src1 then GOut.err else .ok := rfl
  have e2 : apply2Outcome (helperReq f g) =
      if !f.has g.src1 then GOut.err else if !f.has g.src2 then .err else .ok := rfl
  refine ⟨by rw [gen_apply0_outcome]; rfl, ?_, ?_, fun h1 hu => ?_, fun h1 h2 hu => ?_⟩
  · rw [gen_apply1_outcome, e1]
    cases f.has g.src1 <;> simp
  · rw [gen_apply2_outcome, e2]
    cases f.has g.src1 <;> cases f.has g.src2 <;> simp
  · have hs : (toInstr g).src1 = some g.src1 := by
      unfold toInstr
      cases hh : g.src1 with
      | nil => exact absurd hh h1
      | cons x xs => rfl
    exact C10Sticky.applyInstr_unknown_src1 up f m _ b _ hs hu
  · have hs1 : (toInstr g).src1 = some g.src1 := by
      unfold toInstr
      cases hh : g.src1 with
      | nil => exact absurd hh h1
      | cons x xs => rfl
    have hs2 : (toInstr g).src2 = some g.src2 := by
      unfold toInstr
      cases hh : g.src2 with
      | nil => exact absurd hh h2
      | cons x xs => rfl
    exact C10Sticky.applyInstr_unknown_src2 up f m _ b _ _ hs1 hs2 hu

/-- The loop, for any kind of accumulator: once it is `failed` — and the helpers return a failed accumulator as it is, which
is what their first guard does (`gen_sticky_all`) — it comes back unchanged, whatever instructions follow. -/
theorem apply_loop_sticky {σ : Type} (a : ApplyAst) (helper : Nat → List IField → GoInstr → σ → σ) (failed : σ → Bool)
    (hst : ∀ k args i s, failed s = true → helper k args i s = s)
    (ha : (a.accFromRecv && a.returnsAcc) = true) (hd : ∀ i, (a.disp.eval i).isSome = true)
    (s : σ) (hf : failed s = true) (is : List GoInstr) : runApplyLoop a helper s is = some s := by
  induction is with
  | nil => simp [runApplyLoop, ha]
  | cons i t ih =>
    unfold runApplyLoop
    cases he : a.disp.eval i with
    | none => have := hd i; rw [he] at this; cases this
    | some p =>
      obtain ⟨k, args⟩ := p
      simp only []
      rw [hst k args i s hf]
      exact ih

theorem runApplyLoop_cons {σ : Type} (a : ApplyAst) (helper : Nat → List IField → GoInstr → σ → σ) (s : σ) (i : GoInstr)
    (is : List GoInstr) :
    runApplyLoop a helper s (i :: is) =
      match a.disp.eval i with
      | some (k, args) => runApplyLoop a helper (helper k args i s) is
      | none => none := rfl

theorem apply_loop_append {σ : Type} (a : ApplyAst) (helper : Nat → List IField → GoInstr → σ → σ)
    (ha : (a.accFromRecv && a.returnsAcc) = true) (s : σ) (is js : List GoInstr) :
    runApplyLoop a helper s (is ++ js) = (runApplyLoop a helper s is).bind (fun t => runApplyLoop a helper t js) := by
  induction is generalizing s with
  | nil => simp [runApplyLoop, ha]
  | cons i t ih =>
    rw [List.cons_append, runApplyLoop_cons, runApplyLoop_cons]
    cases he : a.disp.eval i with
    | none => rfl
    | some p =>
      obtain ⟨k, args⟩ := p
      exact ih _

/-- **The loop stops at the first failing instruction**: if the accumulator is failed after the instructions `is`, the
result of `is ++ js` is that accumulator — nothing after the failure is applied. -/
theorem apply_loop_stops {σ : Type} (a : ApplyAst) (helper : Nat → List IField → GoInstr → σ → σ) (failed : σ → Bool)
    (hst : ∀ k args i s, failed s = true → helper k args i s = s)
    (ha : (a.accFromRecv && a.returnsAcc) = true) (hd : ∀ i, (a.disp.eval i).isSome = true)
    (s t : σ) (is js : List GoInstr) (h : runApplyLoop a helper s is = some t) (hf : failed t = true) :
    runApplyLoop a helper s (is ++ js) = some t := by
  rw [apply_loop_append a helper ha, h]
  exact apply_loop_sticky a helper failed hst ha hd t hf js

/-- The helpers as the spec sees them: a failed frame comes back as it is — the first guard of `apply0`, `apply1`, `apply2`
(`gen_sticky_all`) — and on a frame without error the call does what `applyInstr` does with the instruction it is handed. -/
def specHelper (up : UpperOracle) (m : Nat → Bool) (k : Nat) (args : List IField) (g : GoInstr) : Res → Res
  | .err => .err
  | .ok f => applyInstr up f m (callInstr k args g) false

theorem gen_dispatch_total (g : GoInstr) : (Gen.applyAst.disp.eval g).isSome = true := by
  rw [gen_apply_dispatch.2.2.1 g]; rfl

theorem gen_apply_flags : (Gen.applyAst.accFromRecv && Gen.applyAst.returnsAcc) = true := by
  rw [gen_apply_dispatch.1, gen_apply_dispatch.2.1]; rfl

/-- **Today's `Apply` loop computes `applyS`**: started on a frame without error it returns what the spec's `applyS` returns
for the instructions read the spec's way; started on a failed frame it returns that frame. -/
theorem gen_apply_loop (up : UpperOracle) (m : Nat → Bool) (gs : List GoInstr) :
    (∀ f, runApplyLoop Gen.applyAst (specHelper up m) (.ok f) gs = some (applyS up f m false (gs.map toInstr))) ∧
    runApplyLoop Gen.applyAst (specHelper up m) .err gs = some .err := by
  have herr : ∀ gs, runApplyLoop Gen.applyAst (specHelper up m) .err gs = some .err := fun gs =>
    apply_loop_sticky Gen.applyAst (specHelper up m) (fun r => match r with | .err => true | .ok _ => false)
      (fun k args i s hs => by cases s with | ok f => cases hs | err => rfl)
      gen_apply_flags gen_dispatch_total .err rfl gs
  refine ⟨?_, herr gs⟩
  induction gs with
  | nil =>
    intro f
    simp [runApplyLoop, gen_apply_flags, applyS]
  | cons g t ih =>
    intro f
    unfold runApplyLoop
    rw [gen_apply_dispatch.2.2.1 g]
    simp only [List.map_cons]
    conv => rhs; unfold applyS
    have hc : specHelper up m (specDispatch (toInstr g)).1 (specDispatch (toInstr g)).2 g (.ok f) =
        applyInstr up f m (toInstr g) false := callInstr_spec up f m g false
    rw [hc]
    cases applyInstr up f m (toInstr g) false with
    | ok f' => exact ih f'
    | err => exact herr t

/-- … and so it stops where the spec stops (`C10Sticky.applyS_stops_at_first_failing`): the instructions before the first
failing one are applied and give a frame `g`; the next one fails on `g`; if there is such an instruction, the result of the
whole loop is the failure, whatever follows it. -/
theorem gen_apply_stops (up : UpperOracle) (m : Nat → Bool) (f : LFrame) (gs : List GoInstr) :
    ∃ g, runApplyLoop Gen.applyAst (specHelper up m) (.ok f)
        (gs.take (firstFailing up f m (gs.map toInstr))) = some (.ok g) ∧
      (∀ i, (gs.map toInstr)[firstFailing up f m (gs.map toInstr)]? = some i → applyInstr up g m i = .err) ∧
      (firstFailing up f m (gs.map toInstr) < gs.length →
        runApplyLoop Gen.applyAst (specHelper up m) (.ok f) gs = some .err) := by
  obtain ⟨g, hg, hfail⟩ := C10Sticky.applyS_stops_at_first_failing up f m (gs.map toInstr)
  refine ⟨g, ?_, hfail, fun hlt => ?_⟩
  · rw [(gen_apply_loop up m _).1 f, List.map_take, hg]
  · rw [(gen_apply_loop up m gs).1 f]
    congr 1
    exact (C10Sticky.applyS_err_iff up f m (gs.map toInstr)).2 (by rw [List.length_map]; exact hlt)

/-! ## Witnesses: the statements tell wrong code apart -/

section Witnesses

private def fr : LFrame :=
  { cols := [{ name := [120], ty := .int, cells := #[.int 1, .int 2, .int 3] }], n := 3 }

/-- `Sort` without the test of `qf.Err` (what the translator emits when `if qf.Err != nil { return qf }` is dropped) -/
def sortNoErrCheck : List GStep := [
  .guard (noneOf .orderCols) .returnSelf,
  .forEach .orderCols (.unknownColumn .each) .err]

/-- … answers `Sort(Order{Column: "q"})` on a frame that has an error with a NEW error instead of the frame itself, and on a
known column it runs into the real work: not sticky. -/
example : runGuards specEnv sortNoErrCheck { hasErr := true, orderCols := [[113]] } = some .err := by decide
example : runGuards specEnv sortNoErrCheck { hasErr := true, known := fun _ => true, orderCols := [[120]] } = some .ok := by
  decide

/-- `Distinct` without the loop over the requested columns -/
def distinctNoColCheck : List GStep := [.guard .qfHasErr .returnSelf, .guard (.eqI .len (.lit 0)) .returnSelf]

/-- … accepts `Distinct(groupby.Columns("q"))` on a frame without such a column, which the spec rejects. -/
example : runGuards specEnv distinctNoColCheck (keysReq fr [[113]]) = some .ok ∧ C10Sticky.distinctKeys fr [[113]] = none :=
  ⟨by decide, (C10Sticky.distinctKeys_none_iff fr _).2 ⟨[113], by decide, by decide⟩⟩

/-- `Distinct` with the test for an empty frame BEFORE the column check returns an empty frame unchanged although a column
is unknown. -/
def distinctLenFirst : List GStep := [
  .guard .qfHasErr .returnSelf,
  .guard (.eqI .len (.lit 0)) .returnSelf,
  .forEach .groupCols (.unknownColumn .each) .err]

example : runGuards specEnv distinctLenFirst (keysReq { cols := [], n := 0 } [[113]]) = some .returnSelf ∧
    C10Sticky.distinctKeys { cols := [], n := 0 } [[113]] = none :=
  ⟨by decide, (C10Sticky.distinctKeys_none_iff _ _).2 ⟨[113], by decide, by decide⟩⟩

/-- `Aggregate` that ignores the grouper's error goes on to its column check. -/
def aggregateNoErrCheck : List GStep := [.forEachWork .aggCols (.unknownColumn .each) .err]

example : runGuards specEnv aggregateNoErrCheck { grouperErr := true, known := fun _ => true, aggCols := [[120]] } = some .ok := by
  decide

/-- `ToCSV` that compares the lengths with `<` lets a list through that is too long … and `csvColumns` rejects it. -/
def csvLt : List GStep := [
  .guard .qfHasErr .err,
  .guardIf (.given .csvCols) (.lt (.count .csvCols) .colCount) .err,
  .forEachIf (.given .csvCols) .csvCols (.unknownColumn .each) .err]

example : runGuards specEnv csvLt (csvReq fr [[120], [120]]) = some .ok ∧ csvColumns fr [[120], [120]] = none :=
  ⟨by decide, (csvColumns_none_iff fr _).2 ⟨by decide, .inl (by decide)⟩⟩

/-- A dispatch that tests the SECOND source column first sends `{SrcCol1: "", SrcCol2: "x"}` to the helper with one source
column (an unknown-column error), where the spec reads an instruction without source columns. -/
def dispSrc2First : IDisp :=
  .ifEmpty .src2 (.ifEmpty .src1 (.call 0 [.fn, .dst]) (.call 1 [.fn, .dst, .src1])) (.call 2 [.fn, .dst, .src1, .src2])

example : dispSrc2First.eval { dst := [121], src1 := [], src2 := [120], fn := .const (.int 1) } =
      some (2, [.fn, .dst, .src1, .src2]) ∧
    specDispatch (toInstr { dst := [121], src1 := [], src2 := [120], fn := .const (.int 1) }) = (0, [.fn, .dst]) := by
  decide

/-- `Equals` without the comparison of the numbers of columns: on frames with one and two columns of the same first name the
loop reads `other.columns[i]` within bounds and says "equal" (with more columns on the receiver's side it would panic: the
chain has no outcome). -/
def equalsNoCount : List GStep := [
  .guard (.not (.eqI .indexLen .otherIndexLen)) .retFalse,
  .forEachPair .pairNameDiffers .retFalse,
  .forEachPair .pairContentDiffers .retFalse,
  .done .retTrue]

example : runGuards specEnv equalsNoCount { colNames := [[120]], otherNames := [[120], [121]] } = some .retTrue := by decide
example : runGuards specEnv equalsNoCount { colNames := [[120], [121]], otherNames := [[120]] } = none := by decide

end Witnesses

#print axioms gen_guards2_no_opaque
#print axioms gen_guards2_complete
#print axioms gen_sticky_all
#print axioms gen_reject_semantics
#print axioms gen_sort_semantics
#print axioms gen_distinct_semantics
#print axioms gen_groupagg_semantics
#print axioms gen_groupagg_sound
#print axioms gen_csv_semantics
#print axioms csv_empty_nonnil
#print axioms gen_equals_outcome
#print axioms gen_equals_semantics
#print axioms gen_equals_vs_spec
#print axioms gen_filteredApply_outcome
#print axioms gen_read_outcome
#print axioms gen_apply_dispatch
#print axioms gen_apply_unknown_source
#print axioms apply_loop_sticky
#print axioms apply_loop_stops
#print axioms gen_apply_loop
#print axioms gen_apply_stops

end QF.Props.C10Guards
