import QF.Gen.GrouperFns
/-!
# C01 / C11 — `writesOnlyFresh` for the language of the grouper's hash table (`QF.GL`)

Same construction as `QF.Props.C01FreshCL` (read its header first), for `newTable`, `grow`, `hash`, `insertEntry`,
`equals`, `groupIndex`, `GroupBy`, `Distinct` of /repo/internal/grouper.

The interpreter (QF/Core/GLExpr.lean) computes on values; the Go code stores into: the entry array of the table
(`S.setAt`, `S.setPtrField` through a `*tableEntry`), the table struct behind its pointer (`S.setField`, `S.incrField`,
`S.callMut`: a method with a pointer receiver), and the arrays `append` writes (`E.snoc`: an entry's `ix`, the result rows,
the group list). All of them must be objects MADE IN THIS RUN — or the receiver of a mutating method, which is the table
the CALLER made and owns (`M`: the functions called by `S.callMut`; their variable 0 is "a by-state table owned by the
call"; `okF` checks at every call site that the receiver handed over is fresh, and that a function of `M` is never called
in another way).

* `fresh N τ e` — DEEP provenance: nothing that can be written through the value of `e` existed before this run.
  `make`, literals, numbers; a field / element / dereference of a fresh object (`t.entries`, `p.ix`, `a[i]`, `*p`,
  `&t.entries[i]`) is fresh; the `comparables` field never; `append(l, x)` of fresh `l`, `x`; `&table{entries: es, …}` of
  fresh `es`; a call of a function of `N`.
* storing a value into a fresh object keeps it deep-fresh only if the value is fresh: `okF` demands it (`setAt`, `setField`,
  `setPtrField`, `append`).
* `tagExec` — the ghost run along the actual run of `S.exec` (dynamic tags, count of bad stores); **`tagExec_sound`**;
  `runFn_writes_only_fresh`; `gen_grouper_writes_only_fresh` (today's `QF.Gen.grouperFns`, by `decide`).
* result provenance (`gen_grouper_result_provenance`): `groupIndex` returns the entry array of its own table and a copy of
  the statistics; `GroupBy` a NEW group list whose groups are the `ix` arrays the table built (`index.Int{first, i}` +
  `append`) or `index.Int{firstPos}`; `Distinct` a NEW row array. The index argument `ix` is only ranged over.
* witnesses: `distinctInPlace` (`result := ix[:0]`-style: the result rows are `append`ed onto the caller's index),
  `insertIntoCallerIx` (an entry's `ix` starts as the caller's index slice and is appended to).
-/
set_option linter.unusedVariables false
namespace QF.Props.C01FreshGL
open QF.GL

/-- a field whose type is a slice (by its role) -/
def arrFld (f : Fld) : Bool := f == .entries || f == .ix || f == .comparables
/-- does `v.f₁.….fₙ` have a slice type? (the last field decides; the empty path is the variable itself) -/
def pathArr (p : List Fld) : Bool :=
  match p.getLast? with
  | some f => arrFld f
  | none => true
/-- an expression of type `index.Int` by its head: its elements are row numbers -/
def rowsTyped : E → Bool
  | .field _ .ix | .makeRows _ | .rows1 _ | .rows2 _ _ | .nilRows => true
  | _ => false

def fresh (N : FnId → Bool) (τ : Var → Bool) : E → Bool
  | .var v => τ v
  | .field e f => if f = .entries ∨ f = .ix then fresh N τ e else (f != .comparables)
  | .deref e => fresh N τ e
  | .addrEntry t _ => τ t
  | .at a _ => fresh N τ a
  | .makeEntries _ | .makeRows _ | .makeGroups _ | .rows1 _ | .rows2 _ _ | .nilPtr | .nilRows => true
  | .snoc l x => fresh N τ l && (rowsTyped l || fresh N τ x)
  | .mkTable es _ _ => fresh N τ es
  | .pair a b => fresh N τ a && fresh N τ b
  | .call1 f _ | .call2 f _ _ | .call3 f _ _ _ => N f
  | .opaque _ => false
  | _ => true

/-- every `append` inside `e` goes onto a fresh array and appends a fresh value; no mutating method is called as a function -/
def okE (M N : FnId → Bool) (τ : Var → Bool) : E → Bool
  | .snoc l x => fresh N τ l && (rowsTyped l || fresh N τ x) && okE M N τ l && okE M N τ x
  | .call1 f a => !M f && okE M N τ a
  | .call2 f a b => !M f && okE M N τ a && okE M N τ b
  | .call3 f a b c => !M f && okE M N τ a && okE M N τ b && okE M N τ c
  | .field e _ | .deref e | .addrEntry _ e | .isNil e | .not e | .toU32 e | .toU64 e | .toInt e | .toFloat e | .len e
  | .makeEntries e | .makeRows e | .makeGroups e | .rows1 e | .bitLen64 e | .pow2 e => okE M N τ e
  | .and a b | .or a b | .cmp _ a b | .bin _ a b | .at a b | .rows2 a b | .pair a b => okE M N τ a && okE M N τ b
  | .cmpHash a b c | .cmpCompare a b c | .mkTable a b c => okE M N τ a && okE M N τ b && okE M N τ c
  | .opaque _ => false
  | _ => true

def badE (M N : FnId → Bool) (τ : Var → Bool) (e : E) : Nat := if okE M N τ e then 0 else 1

def inF (F : List Var) (v : Var) : Bool := F.contains v
def notF (F : List Var) : Option Var → Bool
  | some v => !inF F v
  | none => true
/-- a binder of `F` gets a fresh value -/
def bindOK (F : List Var) (b : Bool) : Option Var → Bool
  | some v => !inF F v || b
  | none => true

def okF (M N : FnId → Bool) (F : List Var) : S → Bool
  | .skip => true
  | .brk => true
  | .seq a b => okF M N F a && okF M N F b
  | .define v e | .assign v e => okE M N (inF F) e && (!inF F v || fresh N (inF F) e)
  | .define2 v w e => okE M N (inF F) e && (!inF F v || fresh N (inF F) e) && (!inF F w || fresh N (inF F) e)
  | .setField v p e => inF F v && (!pathArr p || fresh N (inF F) e) && okE M N (inF F) e
  | .incrField v _ => inF F v
  | .setPtrField p f e => inF F p && (!arrFld f || fresh N (inF F) e) && okE M N (inF F) e
  | .setAt a i e => inF F a && fresh N (inF F) e && okE M N (inF F) i && okE M N (inF F) e
  | .ite c t e => okE M N (inF F) c && okF M N F t && okF M N F e
  | .range xs k v b => okE M N (inF F) xs && notF F k && bindOK F (fresh N (inF F) xs) v && okF M N F b
  | .for i c p b => okF M N F i && okE M N (inF F) c && okF M N F p && okF M N F b
  | .callMut f r args => M f && inF F r && args.all (okE M N (inF F))
  | .ret e => okE M N (inF F) e
  | .opaque _ => false

/-- the variables with a binding that is fresh under `τ` -/
def cands (N : FnId → Bool) (τ : Var → Bool) : S → List Var
  | .define v e | .assign v e => if fresh N τ e then [v] else []
  | .define2 v w e => if fresh N τ e then [v, w] else []
  | .seq a b => cands N τ a ++ cands N τ b
  | .ite _ t e => cands N τ t ++ cands N τ e
  | .range xs _ v b => (match v with | some v => if fresh N τ xs then [v] else [] | none => []) ++ cands N τ b
  | .for i _ p b => cands N τ i ++ cands N τ p ++ cands N τ b
  | _ => []

def rets : S → List E
  | .ret e => [e]
  | .seq a b => rets a ++ rets b
  | .ite _ t e => rets t ++ rets e
  | .range _ _ _ b => rets b
  | .for i _ p b => rets i ++ rets p ++ rets b
  | _ => []

/-- the targets of `v.m(args)` statements -/
def muts : S → List FnId
  | .callMut f _ _ => [f]
  | .seq a b => muts a ++ muts b
  | .ite _ t e => muts t ++ muts e
  | .range _ _ _ b => muts b
  | .for i _ p b => muts i ++ muts p ++ muts b
  | _ => []

/-- the methods of a unit that are called with a pointer receiver they write through -/
def mutFns (P : List (FnId × Fn)) (f : FnId) : Bool := P.any fun p => (muts p.2.body).contains f

/-- the tags a run starts with: parameters shared — except the receiver of a mutating method, which the caller owns —,
locals not bound yet hold nothing -/
def tags0 (owned : Bool) (params : Nat) : Var → Bool := fun v => decide (params ≤ v) || (owned && v == 0)

/-- the candidate set of a function: three rounds of "has a fresh binding" from the owned receiver -/
def fnF (N : FnId → Bool) (owned : Bool) (fn : Fn) : List Var :=
  let base : Var → Bool := fun v => owned && v == 0
  let F1 := cands N base fn.body
  let F2 := cands N (fun v => base v || inF F1 v) fn.body
  let F3 := cands N (fun v => base v || inF F2 v) fn.body
  (if owned then [0] else []) ++ F3

/-- **The static check on a function** (`owned`: it is a mutating method, variable 0 is the caller's own table). -/
def writesOnlyFresh (M N : FnId → Bool) (owned : Bool) (fn : Fn) : Bool :=
  okF M N (fnF N owned fn) fn.body && (fnF N owned fn).all (fun v => tags0 owned fn.params v)

/-- one round of "every `return` is fresh", callees judged by `N` -/
def newFns (P : List (FnId × Fn)) (M N : FnId → Bool) (f : FnId) : Bool :=
  match P.lookup f with
  | some fn => (rets fn.body).all (fresh N (inF (fnF N (M f) fn)))
  | none => false

/-! ## The ghost run -/

abbrev Tags := Var → Bool
def tset (τ : Tags) (v : Var) (b : Bool) : Tags := fun w => if w = v then b else τ w
def tsetOpt (τ : Tags) (v : Option Var) (b : Bool) : Tags :=
  match v with
  | some v => tset τ v b
  | none => τ

def tagLoop (step : Val → Nat → Store → Out) (tstep : Val → Nat → Store → Tags → Tags × Nat) :
    List Val → Nat → Store → Tags → Tags × Nat
  | [], _, _, τ => (τ, 0)
  | x :: xs, i, σ, τ =>
    match step x i σ with
    | .next σ' => ((tagLoop step tstep xs (i + 1) σ' (tstep x i σ τ).1).1,
                   (tstep x i σ τ).2 + (tagLoop step tstep xs (i + 1) σ' (tstep x i σ τ).1).2)
    | _ => tstep x i σ τ

def tagFor (cond : Store → Option Bool) (body post : Store → Out) (tcond : Tags → Nat)
    (tbody tpost : Store → Tags → Tags × Nat) : Nat → Store → Tags → Tags × Nat
  | 0, _, τ => (τ, 0)
  | fuel + 1, σ, τ =>
    match cond σ with
    | some true =>
      (match body σ with
       | .next σ' =>
         (match post σ' with
          | .next σ'' =>
            ((tagFor cond body post tcond tbody tpost fuel σ'' (tpost σ' (tbody σ τ).1).1).1,
             tcond τ + (tbody σ τ).2 + (tpost σ' (tbody σ τ).1).2 +
               (tagFor cond body post tcond tbody tpost fuel σ'' (tpost σ' (tbody σ τ).1).1).2)
          | _ => ((tpost σ' (tbody σ τ).1).1, tcond τ + (tbody σ τ).2 + (tpost σ' (tbody σ τ).1).2))
       | _ => ((tbody σ τ).1, tcond τ + (tbody σ τ).2))
    | _ => (τ, tcond τ)

def tbindKV (k v : Option Var) (b : Bool) (τ : Tags) : Tags := tsetOpt (tsetOpt τ k false) v b

def badArgs (M N : FnId → Bool) (τ : Tags) (args : List E) : Nat := if args.all (okE M N τ) then 0 else 1

/-- **The ghost run** along `S.exec Γ s σ`: dynamic tags, and the number of stores executed on / of something not fresh. -/
def tagExec (Γ : Env) (M N : FnId → Bool) : S → Store → Tags → Tags × Nat
  | .skip, _, τ => (τ, 0)
  | .brk, _, τ => (τ, 0)
  | .seq a b, σ, τ =>
    match a.exec Γ σ with
    | .next σ' => ((tagExec Γ M N b σ' (tagExec Γ M N a σ τ).1).1,
                   (tagExec Γ M N a σ τ).2 + (tagExec Γ M N b σ' (tagExec Γ M N a σ τ).1).2)
    | _ => tagExec Γ M N a σ τ
  | .define v e, _, τ => (tset τ v (fresh N τ e), badE M N τ e)
  | .assign v e, _, τ => (tset τ v (fresh N τ e), badE M N τ e)
  | .define2 v w e, _, τ => (tset (tset τ v (fresh N τ e)) w (fresh N τ e), badE M N τ e)
  | .setField v p e, _, τ => (τ, (if τ v && (!pathArr p || fresh N τ e) then 0 else 1) + badE M N τ e)
  | .incrField v _, _, τ => (τ, if τ v then 0 else 1)
  | .setPtrField p f e, _, τ => (τ, (if τ p && (!arrFld f || fresh N τ e) then 0 else 1) + badE M N τ e)
  | .setAt a i e, _, τ => (τ, (if τ a && fresh N τ e then 0 else 1) + badE M N τ i + badE M N τ e)
  | .ite c t e, σ, τ =>
    match c.eval Γ σ with
    | some (.bool true) => ((tagExec Γ M N t σ τ).1, badE M N τ c + (tagExec Γ M N t σ τ).2)
    | some (.bool false) => ((tagExec Γ M N e σ τ).1, badE M N τ c + (tagExec Γ M N e σ τ).2)
    | _ => (τ, badE M N τ c)
  | .range xs k v body, σ, τ =>
    match xs.eval Γ σ with
    | some x =>
      (match x.elems with
       | some l =>
         ((tagLoop (fun y i σ' => body.exec Γ (bindKV k v i y σ'))
            (fun y i σ' τ' => tagExec Γ M N body (bindKV k v i y σ') (tbindKV k v (fresh N τ xs) τ')) l 0 σ τ).1,
          badE M N τ xs + (tagLoop (fun y i σ' => body.exec Γ (bindKV k v i y σ'))
            (fun y i σ' τ' => tagExec Γ M N body (bindKV k v i y σ') (tbindKV k v (fresh N τ xs) τ')) l 0 σ τ).2)
       | none => (τ, badE M N τ xs))
    | none => (τ, badE M N τ xs)
  | .for init cond post body, σ, τ =>
    match init.exec Γ σ with
    | .next σ' =>
      ((tagFor (fun s => asBool (cond.eval Γ s)) (fun s => body.exec Γ s) (fun s => post.exec Γ s) (fun t => badE M N t cond)
          (fun s t => tagExec Γ M N body s t) (fun s t => tagExec Γ M N post s t) Γ.fuel σ' (tagExec Γ M N init σ τ).1).1,
       (tagExec Γ M N init σ τ).2 +
        (tagFor (fun s => asBool (cond.eval Γ s)) (fun s => body.exec Γ s) (fun s => post.exec Γ s) (fun t => badE M N t cond)
          (fun s t => tagExec Γ M N body s t) (fun s t => tagExec Γ M N post s t) Γ.fuel σ' (tagExec Γ M N init σ τ).1).2)
    | _ => tagExec Γ M N init σ τ
  | .callMut f r args, _, τ => (τ, (if M f && τ r then 0 else 1) + badArgs M N τ args)
  | .ret e, _, τ => (τ, badE M N τ e)
  | .opaque _, _, τ => (τ, 1)

/-! ## Soundness -/

def Inv (F : List Var) (τ : Tags) : Prop := ∀ v, inF F v = true → τ v = true

theorem or_mono {a b b' : Bool} (hb : b = true → b' = true) (h : (a || b) = true) : (a || b') = true := by
  cases a <;> simp_all

theorem fresh_mono (N : FnId → Bool) (F : List Var) (τ : Tags) (h : Inv F τ) (e : E) :
    fresh N (inF F) e = true → fresh N τ e = true := by
  induction e with
  | var v => exact h v
  | addrEntry t i _ => exact h t
  | field e f ih => intro hf; simp only [fresh] at hf ⊢; split <;> simp_all
  | snoc l x ihl ihx =>
    intro hf
    simp only [fresh, Bool.and_eq_true] at hf ⊢
    exact ⟨ihl hf.1, or_mono ihx hf.2⟩
  | _ => simp_all [fresh]

theorem okE_mono (M N : FnId → Bool) (F : List Var) (τ : Tags) (h : Inv F τ) (e : E) :
    okE M N (inF F) e = true → okE M N τ e = true := by
  induction e with
  | snoc l x ihl ihx =>
    intro ok
    simp only [okE, Bool.and_eq_true] at ok ⊢
    exact ⟨⟨⟨fresh_mono N F τ h l ok.1.1.1, or_mono (fresh_mono N F τ h x) ok.1.1.2⟩, ihl ok.1.2⟩, ihx ok.2⟩
  | _ => simp_all [okE]

theorem badE_zero (M N : FnId → Bool) (F : List Var) (τ : Tags) (h : Inv F τ) (e : E) (ok : okE M N (inF F) e = true) :
    badE M N τ e = 0 := by
  simp [badE, okE_mono M N F τ h e ok]

theorem badArgs_zero (M N : FnId → Bool) (F : List Var) (τ : Tags) (h : Inv F τ) (args : List E)
    (ok : args.all (okE M N (inF F)) = true) : badArgs M N τ args = 0 := by
  have : args.all (okE M N τ) = true := by
    rw [List.all_eq_true] at ok ⊢
    exact fun e he => okE_mono M N F τ h e (ok e he)
  simp [badArgs, this]

theorem Inv.tset_ok {F : List Var} {τ : Tags} (h : Inv F τ) (v : Var) (b : Bool) (hv : inF F v = false ∨ b = true) :
    Inv F (tset τ v b) := by
  intro w hw
  unfold tset
  split
  · rename_i e; subst e
    rcases hv with hv | hv
    · rw [hv] at hw; cases hw
    · exact hv
  · exact h w hw

theorem Inv.tsetOpt_ok {F : List Var} {τ : Tags} (h : Inv F τ) (v : Option Var) (b : Bool) (hv : bindOK F b v = true) :
    Inv F (tsetOpt τ v b) := by
  cases v with
  | none => exact h
  | some v => exact h.tset_ok v b (by simpa [bindOK] using hv)

theorem Inv.tsetOpt_out {F : List Var} {τ : Tags} (h : Inv F τ) (v : Option Var) (hv : notF F v = true) :
    Inv F (tsetOpt τ v false) := by
  cases v with
  | none => exact h
  | some v => exact h.tset_ok v false (by simpa [notF] using hv)

theorem bindOK_mono {F : List Var} {b b' : Bool} (hb : b = true → b' = true) (v : Option Var) (h : bindOK F b v = true) :
    bindOK F b' v = true := by
  cases v with
  | none => rfl
  | some v =>
    simp only [bindOK, Bool.or_eq_true, Bool.not_eq_true'] at h ⊢
    exact h.imp id hb

theorem tagLoop_sound (F : List Var) (step : Val → Nat → Store → Out) (tstep : Val → Nat → Store → Tags → Tags × Nat)
    (hs : ∀ x i σ τ, Inv F τ → (tstep x i σ τ).2 = 0 ∧ Inv F (tstep x i σ τ).1) :
    ∀ (l : List Val) (i : Nat) (σ : Store) (τ : Tags), Inv F τ →
      (tagLoop step tstep l i σ τ).2 = 0 ∧ Inv F (tagLoop step tstep l i σ τ).1 := by
  intro l
  induction l with
  | nil => intro i σ τ h; exact ⟨rfl, h⟩
  | cons x xs ih =>
    intro i σ τ h
    have h1 := hs x i σ τ h
    unfold tagLoop
    split
    · rename_i σ' _
      have h2 := ih (i + 1) σ' _ h1.2
      exact ⟨by simp only [h1.1, h2.1], h2.2⟩
    · exact h1

theorem tagFor_sound (F : List Var) (cond : Store → Option Bool) (body post : Store → Out) (tcond : Tags → Nat)
    (tbody tpost : Store → Tags → Tags × Nat)
    (hc : ∀ τ, Inv F τ → tcond τ = 0)
    (hb : ∀ σ τ, Inv F τ → (tbody σ τ).2 = 0 ∧ Inv F (tbody σ τ).1)
    (hp : ∀ σ τ, Inv F τ → (tpost σ τ).2 = 0 ∧ Inv F (tpost σ τ).1) :
    ∀ (fuel : Nat) (σ : Store) (τ : Tags), Inv F τ →
      (tagFor cond body post tcond tbody tpost fuel σ τ).2 = 0 ∧ Inv F (tagFor cond body post tcond tbody tpost fuel σ τ).1 := by
  intro fuel
  induction fuel with
  | zero => intro σ τ h; exact ⟨rfl, h⟩
  | succ n ih =>
    intro σ τ h
    have h0 := hc τ h
    have h1 := hb σ τ h
    unfold tagFor
    split
    · split
      · rename_i σ' _
        have h2 := hp σ' _ h1.2
        split
        · rename_i σ'' _
          have h3 := ih σ'' _ h2.2
          exact ⟨by simp only [h0, h1.1, h2.1, h3.1], h3.2⟩
        · exact ⟨by simp only [h0, h1.1, h2.1], h2.2⟩
      · exact ⟨by simp only [h0, h1.1], h1.2⟩
    · exact ⟨h0, h⟩

/-- **Soundness of the static check against the interpreter.** -/
theorem tagExec_sound (Γ : Env) (M N : FnId → Bool) (F : List Var) (s : S) :
    okF M N F s = true → ∀ (σ : Store) (τ : Tags), Inv F τ → (tagExec Γ M N s σ τ).2 = 0 ∧ Inv F (tagExec Γ M N s σ τ).1 := by
  induction s with
  | skip => intro _ σ τ h; exact ⟨rfl, h⟩
  | brk => intro _ σ τ h; exact ⟨rfl, h⟩
  | seq a b iha ihb =>
    intro ok σ τ h
    simp only [okF, Bool.and_eq_true] at ok
    have h1 := iha ok.1 σ τ h
    unfold tagExec
    split
    · rename_i σ' _
      have h2 := ihb ok.2 σ' _ h1.2
      exact ⟨by simp only [h1.1, h2.1], h2.2⟩
    · exact h1
  | define v e =>
    intro ok σ τ h
    simp only [okF, Bool.and_eq_true, Bool.or_eq_true, Bool.not_eq_true'] at ok
    exact ⟨badE_zero M N F τ h e ok.1, h.tset_ok v _ (ok.2.imp id (fresh_mono N F τ h e))⟩
  | assign v e =>
    intro ok σ τ h
    simp only [okF, Bool.and_eq_true, Bool.or_eq_true, Bool.not_eq_true'] at ok
    exact ⟨badE_zero M N F τ h e ok.1, h.tset_ok v _ (ok.2.imp id (fresh_mono N F τ h e))⟩
  | define2 v w e =>
    intro ok σ τ h
    simp only [okF, Bool.and_eq_true, Bool.or_eq_true, Bool.not_eq_true'] at ok
    exact ⟨badE_zero M N F τ h e ok.1.1,
      (h.tset_ok v _ (ok.1.2.imp id (fresh_mono N F τ h e))).tset_ok w _ (ok.2.imp id (fresh_mono N F τ h e))⟩
  | setField v p e =>
    intro ok σ τ h
    simp only [okF, Bool.and_eq_true] at ok
    refine ⟨?_, h⟩
    simp only [tagExec, h v ok.1.1, or_mono (fresh_mono N F τ h e) ok.1.2, badE_zero M N F τ h e ok.2, Bool.and_self, ↓reduceIte]
  | incrField v p =>
    intro ok σ τ h
    simp only [okF] at ok
    refine ⟨?_, h⟩
    simp only [tagExec, h v ok, ↓reduceIte]
  | setPtrField p f e =>
    intro ok σ τ h
    simp only [okF, Bool.and_eq_true] at ok
    refine ⟨?_, h⟩
    simp only [tagExec, h p ok.1.1, or_mono (fresh_mono N F τ h e) ok.1.2, badE_zero M N F τ h e ok.2, Bool.and_self, ↓reduceIte]
  | setAt a i e =>
    intro ok σ τ h
    simp only [okF, Bool.and_eq_true] at ok
    refine ⟨?_, h⟩
    simp only [tagExec, h a ok.1.1.1, fresh_mono N F τ h e ok.1.1.2, badE_zero M N F τ h i ok.1.2,
      badE_zero M N F τ h e ok.2, Bool.and_self, ↓reduceIte]
  | ite c t e iht ihe =>
    intro ok σ τ h
    simp only [okF, Bool.and_eq_true] at ok
    have hc := badE_zero M N F τ h c ok.1.1
    unfold tagExec
    split
    · exact ⟨by simp only [hc, (iht ok.1.2 σ τ h).1], (iht ok.1.2 σ τ h).2⟩
    · exact ⟨by simp only [hc, (ihe ok.2 σ τ h).1], (ihe ok.2 σ τ h).2⟩
    · exact ⟨hc, h⟩
  | range xs k v body ih =>
    intro ok σ τ h
    simp only [okF, Bool.and_eq_true] at ok
    have hc := badE_zero M N F τ h xs ok.1.1.1
    have hb := bindOK_mono (fresh_mono N F τ h xs) v ok.1.2
    unfold tagExec
    split
    · split
      · rename_i l _
        have := tagLoop_sound F (fun y i σ' => body.exec Γ (bindKV k v i y σ'))
          (fun y i σ' τ' => tagExec Γ M N body (bindKV k v i y σ') (tbindKV k v (fresh N τ xs) τ'))
          (fun x i σ τ' hτ => ih ok.2 _ _ ((hτ.tsetOpt_out k ok.1.1.2).tsetOpt_ok v _ hb)) l 0 σ τ h
        exact ⟨by simp only [hc, this.1], this.2⟩
      · exact ⟨hc, h⟩
    · exact ⟨hc, h⟩
  | «for» init cond post body ihi ihp ihb =>
    intro ok σ τ h
    simp only [okF, Bool.and_eq_true] at ok
    have h1 := ihi ok.1.1.1 σ τ h
    unfold tagExec
    split
    · rename_i σ' _
      have := tagFor_sound F (fun s => asBool (cond.eval Γ s)) (fun s => body.exec Γ s) (fun s => post.exec Γ s)
        (fun t => badE M N t cond) (fun s t => tagExec Γ M N body s t) (fun s t => tagExec Γ M N post s t)
        (fun t ht => badE_zero M N F t ht cond ok.1.1.2) (fun s t ht => ihb ok.2 s t ht) (fun s t ht => ihp ok.1.2 s t ht)
        Γ.fuel σ' _ h1.2
      exact ⟨by simp only [h1.1, this.1], this.2⟩
    · exact h1
  | callMut f r args =>
    intro ok σ τ h
    simp only [okF, Bool.and_eq_true] at ok
    refine ⟨?_, h⟩
    simp only [tagExec, ok.1.1, h r ok.1.2, badArgs_zero M N F τ h args ok.2, Bool.and_self, ↓reduceIte]
  | ret e =>
    intro ok σ τ h
    simp only [okF] at ok
    exact ⟨badE_zero M N F τ h e ok, h⟩
  | «opaque» _ => intro ok; simp [okF] at ok

/-- the ghost run of a whole function from its arguments -/
def tagRunFn (Γ : Env) (M N : FnId → Bool) (owned : Bool) (fn : Fn) (args : List Val) : Nat :=
  (tagExec Γ M N fn.body (bindArgs args 0 Store.empty) (tags0 owned fn.params)).2

/-- **A function that passes the check executes no store into (and stores nothing of) an object that was not made in the
same run** — a mutating method: or the table its caller owns. -/
theorem runFn_writes_only_fresh (Γ : Env) (M N : FnId → Bool) (owned : Bool) (fn : Fn) (args : List Val)
    (h : writesOnlyFresh M N owned fn = true) : tagRunFn Γ M N owned fn args = 0 := by
  simp only [writesOnlyFresh, Bool.and_eq_true, List.all_eq_true] at h
  refine (tagExec_sound Γ M N _ fn.body h.1 _ (tags0 owned fn.params) ?_).1
  intro v hv
  exact h.2 v (by simpa [inF] using hv)

/-! ## Today's terms -/

abbrev todayMut : FnId → Bool := mutFns Gen.grouperFns
/-- two rounds: `newTable`, `Pow2`, `hash`, … return fresh values; then `groupIndex` (it returns the entries of the table
`newTable` made) -/
abbrev todayNew : FnId → Bool := newFns Gen.grouperFns todayMut (newFns Gen.grouperFns todayMut (fun _ => false))

example : todayMut .grow = true ∧ todayMut .insertEntry = true ∧ todayMut .hash = false ∧ todayMut .groupIndex = false ∧
    todayNew .newTable = true ∧ todayNew .groupIndex = true := by decide

/-- **Every function of today's grouper passes the check** (redone on every run). -/
theorem gen_grouper_writes_only_fresh :
    ∀ p ∈ Gen.grouperFns, writesOnlyFresh todayMut todayNew (todayMut p.1) p.2 = true := by decide

theorem gen_grouper_runs_write_only_fresh (Γ : Env) (p : FnId × Fn) (hp : p ∈ Gen.grouperFns) (args : List Val) :
    tagRunFn Γ todayMut todayNew (todayMut p.1) p.2 args = 0 :=
  runFn_writes_only_fresh Γ _ _ _ _ args (gen_grouper_writes_only_fresh p hp)

/-- **What today's `groupIndex`, `GroupBy`, `Distinct` return is fresh** (deep: the entry array, every group, the row
array were made in the run; the caller's index `ix`, parameter 0, is only ranged over) — and the three functions never
mention parameter 0 except under `range` / `len`. -/
theorem gen_grouper_result_provenance :
    todayNew .groupIndex = true ∧ newFns Gen.grouperFns todayMut todayNew .groupBy = true ∧
    newFns Gen.grouperFns todayMut todayNew .distinct = true := by decide

/-! ## Witnesses -/

/-- `Distinct` collecting its result IN THE CALLER'S INDEX (`result := ix[:0]`-style: `append` onto `ix`) -/
def distinctInPlace : Fn :=
  { params := 2, body := S.block [S.define2 2 3 (E.call3 FnId.groupIndex (E.var 0) (E.var 1) (E.bool false)),
      S.define 4 (E.var 0),
      S.range (E.var 2) none (some 5) (S.block [S.ite (E.field (E.var 5) Fld.occupied) (S.block [S.assign 4 (E.snoc (E.var 4) (E.field (E.var 5) Fld.firstPos))]) (S.block [])]),
      S.ret (E.var 4)] }

/-- `groupIndex` whose table starts every group with THE CALLER'S INDEX SLICE: `e.ix = ix` on a new entry, appended to
later -/
def groupByIntoCallerIx : Fn :=
  { params := 2, body := S.block [S.define 2 (E.makeGroups (E.int 1)), S.define 3 (E.var 0),
      S.range (E.var 0) none (some 4) (S.block [S.assign 3 (E.snoc (E.var 3) (E.var 4))]),
      S.assign 2 (E.snoc (E.var 2) (E.var 3)), S.ret (E.var 2)] }

def exCmp : Cmp := { compare := fun a b => if a % 2 == b % 2 then .equal else .notEqual, hash := fun r s => r % 2 + s }
def exEnv : Env := { call := callAt Gen.grouperFns 64 4, fuel := 64 }

/-- **Witness: a Distinct that appends its rows onto the caller's index.** -/
theorem witness_distinct_in_place :
    writesOnlyFresh todayMut todayNew false distinctInPlace = false ∧
    0 < tagRunFn exEnv todayMut todayNew false distinctInPlace [.rows (some [2, 0, 1]), .cmps [exCmp]] := by
  constructor <;> decide

/-- **Witness: a grouper that stores into the caller's index slice.** -/
theorem witness_grouper_into_caller_ix :
    writesOnlyFresh todayMut todayNew false groupByIntoCallerIx = false ∧
    0 < tagRunFn exEnv todayMut todayNew false groupByIntoCallerIx [.rows (some [2, 0, 1]), .cmps [exCmp]] := by
  constructor <;> decide

/-- today's `Distinct` on the same input: the run has a value (rows 2, 1: one per parity) and the ghost run counts nothing -/
example : (Gen.grouperFns.lookup .distinct).map (fun fn =>
    ((runFn exEnv fn [.rows (some [2, 0, 1]), .cmps [exCmp]]).map (fun r => match r.1 with | .rows l => l | _ => none),
      tagRunFn exEnv todayMut todayNew false fn [.rows (some [2, 0, 1]), .cmps [exCmp]])) = some (some (some [2, 1]), 0) := by
  decide

#print axioms tagExec_sound
#print axioms runFn_writes_only_fresh
#print axioms gen_grouper_writes_only_fresh
#print axioms gen_grouper_runs_write_only_fresh
#print axioms gen_grouper_result_provenance
#print axioms witness_distinct_in_place
#print axioms witness_grouper_into_caller_ix

end QF.Props.C01FreshGL
