import QF.Props.Tie
/-! # C10 -/
namespace QF.Props.C10

/-- T1: the functions this property's mirror model follows have today the source text the model was written against. -/
-- Tie audit (bin/selftest-ties): the following functions are not compared as text any more; every behaviour-changing edit of
-- them makes a `gen_*_canon` theorem of this property's modules fail, renaming their locals or reformatting them changes nothing:
-- `QFrame.setColumn`, `QFrame.Slice`: `Gen.guardAst` + `Gen.projectAst`, `C08Guards.gen_guards_canon` + `gen_guards_semantics`, `C08ProjectGen.gen_project_canon` + `gen_project_sticky`.
-- `New`: `Gen.guardAst` + `Gen.newTailAst`, `C08Guards.gen_guards_canon`, `C08Construct.gen_construct_canon` + `gen_new_reject_iff`. `CheckName`: `Gen.checkNameAst`, `C08Guards.gen_checkname_canon`.
-- Aggregate is regenerated: loops in `Gen.aggregateAst` (C04LoopsGen), glue with the unknown-column and duplicate-name errors in `Gen.aggregateGlueAst` (C04GlueGen), guards in C10Guards; nothing of C10 is compared as text any more.
theorem tie : Tie.sameAll [] = true := by decide

end QF.Props.C10
