import QF.Props.Tie
/-! # C10 -/
namespace QF.Props.C10

/-- T1: the functions this property's mirror model follows have today the source text the model was written against. -/
theorem tie : Tie.sameAll ["qframe.setColumn", "qframe.Aggregate", "qframe.New", "qframe.Slice", "strings.CheckName"] = true := by decide

end QF.Props.C10
