import QF.Props.C03SorterGen
import QF.Props.C03Compare
/-!
# C03 — the regenerated `Sorter.Less` is `sorterLess` of C03Compare

`QF.Props.C03Compare.sorterLess` was written by hand from the text of `Sorter.Less`; `sorter_less_eq_rowLess` there proves
that over today's regenerated comparators it is the spec's `rowLess`. Here: the body of `Sorter.Less` regenerated from
today's source (`Gen.sorterFns`, function 6) returns exactly `sorterLess cols data[i] data[j]` — the `range` over
`s.columns`, the two early returns and the final `return false`.
-/
namespace QF.Props.C03SorterGen

theorem lessOf_eq_sorterLess : lessOf = QF.Props.C03Compare.sorterLess := by
  funext cols i j
  induction cols with
  | nil => rfl
  | cons f fs ih =>
    simp only [lessOf, QF.Props.C03Compare.sorterLess]
    cases f i j with
    | none => rfl
    | some r => simp only [ih]

/-- `s.Less(x, y)` of today's source, for indices within the array and comparators that have a meaning on the two rows -/
theorem gen_less_semantics (cols : QF.SL.Cols) (a : QF.SL.Ix) (x y : Int) (hx : 0 ≤ x ∧ x < a.size) (hy : 0 ≤ y ∧ y < a.size)
    (b : Bool) (hb : QF.Props.C03Compare.sorterLess cols a[x.toNat]! a[y.toNat]! = some b) :
    QF.SL.callLim QF.Gen.sorterFns cols fLess [.sorter, .int x, .int y] a = .ok (.bool b, a) := by
  rw [gen_sorter_canon]
  exact call_less cols a x y hx hy b (by rw [lessOf_eq_sorterLess]; exact hb)

end QF.Props.C03SorterGen
