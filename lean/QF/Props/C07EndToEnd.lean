import QF.Props.C07EndToEndSteps
import QF.Props.C07EndToEndNames
import QF.Props.C07EvalGen
import QF.Props.C07Decode
/-!
# C07 — Eval end to end: from the regenerated code to the denotational spec `evalS`

Property C07: "Eval(dst, expr) stores in dst, for every row, the value denoted by the expression tree … no temporary
column survives, all other columns keep name, position, type and values … unknown functions or columns, operand type
mismatches and malformed expressions are reported through Err."  The spec of that sentence is `evalS` / `EArg.den` /
`denExpr` (QF/Spec/Ops.lean).  Before this file the chain ended at the hand mirror: `C07EvalGen.gen_eval_semantics_eval`
(today's regenerated `QFrame.Eval` = the mirror `C07Eval.eval'`), `C07Decode.gen_expr_decode_semantics` (today's decoder =
the spec's reading of a raw tree), `C07Functions.gen_function_semantics` (today's default functions = `evalUnary` /
`evalBinary`).  Here is the missing link mirror → spec and the composition.

## Statements

* `eval'_eq_evalS_partial` — for every spec context `s` and mirror context `ctx` with `CtxOK s ctx gap`, every well-formed
  mirror frame `f` (`WF`, `UniqueNames`, no error, `f.cols.length + need e ≤ 10000`), every destination and every
  expression tree `e` (any shape the decoder can build, and the error node):
  `resL enc (eval' ctx f dst e) = evalS s (absL enc f) (enc dst) (toSpec enc e)` —
  error exactly when the spec says error; otherwise the same columns in the same order with the same types and cells,
  `dst` replaced in place or appended last, everything else untouched, no temporary left.
* `gen_eval_end_to_end_partial` — the composition: for every raw Go value `x`, today's regenerated decoder returns a struct
  `d`, today's regenerated `Eval` on `d` returns a frame `g` (no panic) and `resL enc g = evalS s (absL enc f) (enc dst) (read nm x)`.
  `gen_eval_end_to_end_fold_partial`: the same through `Expr(name, a₀, a₁, …)` of any arity against the spec's n-ary
  `EArg.x name [a₀, a₁, …]` (left fold).
* `genCtx_ok` — `CtxOK "d" (genCtx P mathAbs) gapD`: today's default context (table `Gen.evalCtx` + bodies
  `Gen.functionAst`, from C07Functions) computes the spec's functions and has none where the spec has none, outside the seven
  listed gaps; `specCtx_ok` — the contexts holding exactly the spec's functions (the harness's "m", "o"): `CtxOK s (specCtx s) noGap`.
* bottom-up, each its own lemma: `eval'_col` (column), `leaf_sem` + `valL_const` (constant), `unary_step` (unary),
  `colConst_sem` (column-constant, both orders: `constFirst`), `colcol_step` (column-column), `ex1_sem` / `ex2_sem` (nested),
  `exec_den` (every tree, by structural induction mirroring `EArg.den`), `map_absSet` (`setColumn` = the spec's `setCol`),
  `den_none_of_ref` (a reference to a column the frame does not have makes the spec's value an error, wherever it stands).

## The full statement, and what the proved one excludes (hence `_partial`)

```
theorem eval'_eq_evalS (ok : CtxOK s ctx noGap) (wf : WF f L) (u : UniqueNames f) (he : f.err = none)
    (hL : physLen f = L) (hlt : f.cols.length + need e ≤ 10000) :
    resL strBytes (eval' ctx f dst e) = evalS s (absL strBytes f) (strBytes dst) (toSpec strBytes e)
```

It is not expressible in the frame mirror for enum columns (item 2a).  The proved theorem has these further hypotheses:

1. (gone) `NoCapture f e` — **the finding this file led to, repaired in the library**.  For the code as it was, the
   statement was false: in `Expr("+", Expr("+", a, b), ColumnName("colcol-temp-0"))` on a frame without such a column the
   right operand was satisfied by the temp column of the left operand; `Eval` returned `(a + b) + (a + b)` and no error, the
   spec (unknown column) an error; the theorems had the hypothesis `NoCapture` (no reference to a column that is not in
   the frame under a name `execute` gives to temporaries).  The repaired `Eval` checks every column reference against the
   frame it is called on before it executes anything (`missingCol`; `C07Eval.missing`, `C07EvalGen.gen_missingcol_semantics`):
   a missing reference is an error on both sides (`den_none_of_ref`), and with all references present nothing can be
   captured (`noCapture_of_present`).  The hypothesis is dropped from all theorems of this file; the witness below shows
   the OLD term accepting `witCapture` where the spec and today's term reject it.
2. `InScope enc s gap (absL enc f) e` — every operand of every function application, as the spec evaluates it,
   a. is not an enum column: the frame mirror `Fr.Val.enum` carries ranks without a value table, and its `apply2` types
      enum ⊕ enum as enum where code and spec say string (witness `exEnum` below) — a limitation of the mirror, not of the code;
   b. is not one of the (operand type, operator) pairs `gap` for which the spec deliberately has no function though the
      default context has one (`/`, int→float, float→int, float→string, upper, lower: `C07Functions.specGaps`);
   c. has cells of its type, ints within Go's `int` (`cellOK`).  The spec's `abs` is `wrap64 (if x < 0 then -x else x)`,
      the code's returns `x ≥ 0` as it is: they agree on 64-bit ints only (as `C07Functions.Implements1` says).  For frame
      cells and constants this is the typing of the frame; for intermediate results it holds of every function of the
      contexts but for `len` / `my.s.len` of a string of 2^63 bytes or more.
3. `noEnumConst e` — no constant of the mirror's expression is an enum value (the decoder builds none: `noEnumConst_ofXDec`).
4. `checkName dst = legalName (enc dst)` and `enc` injective: the mirror's `String` names against the spec's byte strings.
   Both are THEOREMS for the UTF-8 encoding `strBytes` (QF/Props/C07EndToEndNames.lean: `strBytes_inj`,
   `checkName_eq_legalName`: `Fr.checkName`, stated on characters, is `legalName`, stated on bytes, for every name), so
   `eval'_eq_evalS_utf8_partial` / `gen_eval_end_to_end_utf8_partial` do not have them as hypotheses.  What remains of the
   gap between `String` and Go's byte strings: names that are not valid UTF-8 have no counterpart in the mirror.
-/
namespace QF.Props.C07EndToEnd
open Fr QF QF.Props.C08 QF.Props.C07Eval

/-! ## the nodes that build on operands -/

theorem colConst_sem {s : String} {ctx : Ctx} {gap : CType → String → Bool} (ok : CtxOK s ctx gap)
    {enc : String → Bytes} {f g1 : Frame} {L : Nat} {tc : String} {e1 : Entry} {F : LFrame}
    (wf : WF f L) (u : UniqueNames f) (P1 : Plus f g1 L tc e1) (hT : IsTemp tc) (hL1 : physLen g1 = L)
    (hlen1 : g1.cols.length < 10000) (op src : String) (v : Fr.Val) (cf : Bool)
    (hsrc : dcol F (enc src) = (absLookup f.abs src).map valL) (hcap : f.byName src = none → ¬ IsTemp src)
    (hn : F.n = f.index.length) (hval : some (valL e1) = dval F (cellOf v))
    (hs1 : opnd gap op (dcol F (enc src)) = true) (hs2 : opnd gap op (dval F (cellOf v)) = true) :
    Sem f L false
      (drop (if cf then execColCol ctx op tc src g1 else execColCol ctx op src tc g1).1 [tc],
       (if cf then execColCol ctx op tc src g1 else execColCol ctx op src tc g1).2)
      (if cf then d2 s F.n op (dval F (cellOf v)) (dcol F (enc src))
       else d2 s F.n op (dcol F (enc src)) (dval F (cellOf v))) := by
  have E1 := P1.toExt
  have hT1 : ∀ m, m ∈ [e1] → IsTemp m.1 := by
    intro m hm; simp only [List.mem_singleton] at hm; subst hm; rw [P1.name]; exact hT
  have ho1 : dcol F (enc src) = (absLookup g1.abs src).map valL := by
    rw [hsrc, lookup_stable wf u E1 hT1 src hcap]
  have ho2 : dval F (cellOf v) = (absLookup g1.abs tc).map valL := by
    rw [P1.abs, absLookup_append_fresh f.abs e1 tc P1.name (P1.fresh_names wf), ← hval]; rfl
  have hD1 : ∀ d, d ∈ [tc] → d ∈ [e1].map (·.1) := by
    intro d hd; simp only [List.mem_singleton] at hd; subst hd; simp [P1.name]
  have hD2 : ∀ m, m ∈ [e1] → m.1 ∈ [tc] := by
    intro m hm; simp only [List.mem_singleton] at hm; subst hm; simp [P1.name]
  have hn1 : F.n = g1.index.length := by rw [hn, P1.index]
  cases cf with
  | true =>
    simp only [if_true]
    exact colcol_step ok wf E1 hL1 hlen1 op tc src [tc] (fun _ _ => hD1) hD2 F.n hn1 _ _ ho2 ho1 hs2 hs1
  | false =>
    simp only [Bool.false_eq_true, if_false]
    exact colcol_step ok wf E1 hL1 hlen1 op src tc [tc] (fun _ _ => hD1) hD2 F.n hn1 _ _ ho1 ho2 hs1 hs2

theorem ex1_sem {s : String} {ctx : Ctx} {gap : CType → String → Bool} (ok : CtxOK s ctx gap)
    {f : Frame} {L : Nat} {R : List String} (wf : WF f L) (hL : physLen f = L) (hb : f.cols.length + 2 ≤ 10000)
    {rt : Frame × String} {o : Option QF.Val} (h : Opd f L R rt o) (op : String) (hs : opnd gap op o = true) :
    Sem f L false (drop (execUnary ctx op rt.2 rt.1).1 (dropList f [rt.2]), (execUnary ctx op rt.2 rt.1).2)
      (d1 s op o) := by
  rcases h with ⟨herr, ho⟩ | ⟨mid, E, hlen, hnm, ho, _⟩
  · subst ho
    show (drop (execUnary ctx op rt.2 rt.1).1 (dropList f [rt.2])).err.isSome = true
    rw [execUnary_err ctx op _ _ herr]
    exact drop_err_isSome _ _ herr
  · have hl : rt.1.cols.length < 10000 := by rw [E.cols_length]; omega
    exact unary_step ok wf E (E.physLen hL) hl op rt.2 (dropList f [rt.2])
      (fun hs => dropList_sub wf E _ (by intro n hn; simp at hn; subst hn; exact hs))
      (dropList_sup E _ (by intro m hm; simp [(hnm m hm).1])) o ho hs

theorem ex2_sem {s : String} {ctx : Ctx} {gap : CType → String → Bool} (ok : CtxOK s ctx gap)
    {f : Frame} {L : Nat} {R1 R2 : List String} (wf : WF f L) (hL : physLen f = L)
    (hb : f.cols.length + 3 ≤ 10000) {x y : Frame × String} {o1 o2 : Option QF.Val}
    (hx : Opd f L R1 x o1) (hy : x.1.err = none → Opd x.1 L R2 y o2) (hyerr : x.1.err.isSome = true → y.1 = x.1)
    (hcap : ∀ n, n ∈ R1 → f.byName n = none → ¬ IsTemp n)
    (op : String) (n : Nat) (hn : n = f.index.length)
    (hs1 : opnd gap op o1 = true) (hs2 : opnd gap op o2 = true) :
    Sem f L false (drop (execColCol ctx op x.2 y.2 y.1).1 (dropList f [x.2, y.2]), (execColCol ctx op x.2 y.2 y.1).2)
      (d2 s n op o1 o2) := by
  rcases hx with ⟨herr, ho⟩ | ⟨m1, E1, hlen1, hnm1, ho1, hr1⟩
  · subst ho
    have hyx := hyerr herr
    have herr' : y.1.err.isSome = true := by rw [hyx]; exact herr
    show (drop (execColCol ctx op x.2 y.2 y.1).1 (dropList f [x.2, y.2])).err.isSome = true
    rw [execColCol_err ctx op _ _ _ herr']
    exact drop_err_isSome _ _ herr'
  · rcases hy E1.err with ⟨herr, ho⟩ | ⟨m2, E2, hlen2, hnm2, ho2, _⟩
    · subst ho
      rw [d2_none_right]
      show (drop (execColCol ctx op x.2 y.2 y.1).1 (dropList f [x.2, y.2])).err.isSome = true
      rw [execColCol_err ctx op _ _ _ herr]
      exact drop_err_isSome _ _ herr
    · have E := E1.trans wf E2
      have hl : y.1.cols.length < 10000 := by rw [E.cols_length, List.length_append]; omega
      have hD1 : (y.1.byName x.2).isSome = true → (y.1.byName y.2).isSome = true →
          ∀ d, d ∈ dropList f [x.2, y.2] → d ∈ (m1 ++ m2).map (·.1) := fun ha hb =>
        dropList_sub wf E _ (by
          intro n hn
          simp only [List.mem_cons, List.not_mem_nil, or_false] at hn
          rcases hn with hn | hn <;> subst hn
          · exact ha
          · exact hb)
      have hD2 : ∀ m, m ∈ m1 ++ m2 → m.1 ∈ dropList f [x.2, y.2] :=
        dropList_sup E _ (by
          intro m hm
          rcases List.mem_append.mp hm with hm | hm
          · simp [(hnm1 m hm).1]
          · simp [(hnm2 m hm).1])
      have hn' : n = y.1.index.length := by rw [hn, E.index]
      cases ho1v : o1 with
      | none =>
        show (drop (execColCol ctx op x.2 y.2 y.1).1 (dropList f [x.2, y.2])).err.isSome = true
        apply isSome_of_not_none
        intro h
        obtain ⟨_, x', _, _, hx', _⟩ := execColCol_ok ctx op x.2 y.2 y.1 (drop_err_none _ _ h)
        have hin : x.2 ∈ y.1.abs.map (·.1) := (contains_iff E2.wf x.2).mp (by simp [hx'])
        rw [ho1v] at ho1
        have hlk : absLookup x.1.abs x.2 = none := by
          cases hq : absLookup x.1.abs x.2 with
          | none => rfl
          | some q => rw [hq] at ho1; cases ho1
        have hnot : x.2 ∉ x.1.abs.map (·.1) := (none_iff E1.wf x.2).mp (byName_none_of_lookup E1.wf E1.uniq hlk)
        rw [E2.names] at hin
        rcases List.mem_append.mp hin with hin | hin
        · exact hnot hin
        · obtain ⟨m, hm, hmn⟩ := List.mem_map.mp hin
          have hT : IsTemp x.2 := hmn ▸ (hnm2 m hm).2
          have hm1 : m1 = [] := by
            cases m1 with
            | nil => rfl
            | cons a l =>
              exfalso
              apply hnot
              rw [E1.names]
              exact List.mem_append_right _ (List.mem_map.mpr ⟨a, by simp, (hnm1 a (by simp)).1⟩)
          have hfn : f.byName x.2 = none := by
            rw [none_iff wf]
            intro hh
            apply hnot
            rw [E1.names]
            exact List.mem_append_left _ hh
          exact hcap x.2 (hr1 hm1) hfn hT
      | some v1 =>
        rw [ho1v] at ho1 hs1
        have ho1' : some v1 = (absLookup y.1.abs x.2).map valL := by
          cases hq : absLookup x.1.abs x.2 with
          | none => rw [hq] at ho1; cases ho1
          | some q =>
            rw [E2.abs, absLookup_append_left _ _ _ _ hq, ho1, hq]
        exact colcol_step ok wf E (E.physLen hL) hl op x.2 y.2 _ hD1 hD2 n hn' _ _ ho1' ho2 hs1 hs2


/-! ## every expression -/

theorem sem_both {f : Frame} {L : Nat} {R : List String} {r : Frame × String} {o : Option QF.Val} {b : Bool}
    (h : Sem f L false r o) : Opd f L R r o ∧ (b = false → Sem f L false r o) := ⟨opd_of_sem h, fun _ => h⟩

theorem sem_of_drop_nil {f : Frame} {L : Nat} {r : Frame × String} {o : Option QF.Val}
    (h : Sem f L false (drop r.1 [], r.2) o) : Sem f L false r o := by
  rw [drop_nil] at h; exact h

/-- **`execute'` against the spec's denotation, for every expression tree.**  `F` is the logical frame the evaluation
started from; `f` is the current mirror frame (the original one, possibly with a temporary of a sibling on top), which
shows `F` under the names the expression refers to. -/
theorem exec_den {s : String} {ctx : Ctx} {gap : CType → String → Bool} (ok : CtxOK s ctx gap)
    (enc : String → Bytes) (F : LFrame) (e : Ex') :
    ∀ (f : Frame) (L : Nat), WF f L → UniqueNames f → f.err = none → physLen f = L →
      f.cols.length + need e ≤ 10000 → noEnumConst e = true → NoCapture f e → Agree enc f F e →
      InScope enc s gap F e = true →
      Opd f L (refs e) (execute' ctx e f) ((toSpec enc e).den s F) ∧
      (isCol e = false → Sem f L false (execute' ctx e f) ((toSpec enc e).den s F)) := by
  induction e with
  | col n =>
    intro f L wf u he _ _ _ _ A _
    refine ⟨.inr ⟨[], Ext.refl wf u he, by simp, by simp, ?_, fun _ => by simp [execute', refs]⟩, by simp [isCol]⟩
    simp only [toSpec, den_col, execute']
    exact dcol_of_agree A (by simp [refs])
  | error =>
    intro f L _ _ he _ _ _ _ _ _
    apply sem_both
    simp only [toSpec, den_bad, execute', he, Option.isSome_none, Bool.false_eq_true, if_false]
    rfl
  | const v =>
    intro f L wf u he hL hlt hc _ A _
    apply sem_both
    simp only [need] at hlt
    have hv : ∀ r, v ≠ .enum r := by intro r h; subst h; simp [noEnumConst] at hc
    simp only [toSpec, den_val, execute']
    rw [execConst_eq v f he, ← valL_const f L wf hL v hv F A.1 (tempColName f "const")]
    apply sem_of_drop_nil
    exact leaf_sem wf (Ext.refl wf u he) (by omega) "const" goodPrefix_const (.inl rfl) _
      (by rw [constCol_length, hL]) [] (by simp) (by simp) _ rfl
  | unary op src =>
    intro f L wf u he hL hlt _ _ A hs
    apply sem_both
    simp only [need] at hlt
    simp only [InScope] at hs
    simp only [toSpec, den_x1, den_col, execute']
    apply sem_of_drop_nil
    exact unary_step ok wf (Ext.refl wf u he) hL (by omega) op src [] (by simp) (by simp) _
      (dcol_of_agree A (by simp [refs])) hs
  | colCol op a b =>
    intro f L wf u he hL hlt _ _ A hs
    apply sem_both
    simp only [need] at hlt
    simp only [InScope, Bool.and_eq_true] at hs
    simp only [toSpec, den_x2, den_col, execute']
    apply sem_of_drop_nil
    exact colcol_step ok wf (Ext.refl wf u he) hL (by omega) op a b [] (by simp) (by simp) F.n A.1 _ _
      (dcol_of_agree A (by simp [refs])) (dcol_of_agree A (by simp [refs])) hs.1 hs.2
  | colConst op src v cf =>
    intro f L wf u he hL hlt hc hcap A hs
    apply sem_both
    simp only [need] at hlt
    simp only [InScope, Bool.and_eq_true] at hs
    have hv : ∀ r, v ≠ .enum r := by intro r h; subst h; simp [noEnumConst] at hc
    have hA := execLeaf_plus f L wf u he (by omega) "const" goodPrefix_const (constCol f v)
      (by rw [constCol_length, hL])
    have P1 := hA.2.1
    have hT := isTemp_tempColName f L wf (by omega) "const" (.inl rfl)
    have hval := valL_const f L wf hL v hv F A.1 (tempColName f "const")
    have hL1 := P1.toExt.physLen hL
    have hlen1 : (execLeaf "const" f (constCol f v)).1.cols.length < 10000 := by rw [P1.cols_length]; omega
    have key := colConst_sem ok wf u P1 hT hL1 hlen1 op src v cf (dcol_of_agree A (by simp [refs]))
      (hcap src (by simp [refs])) A.1 hval hs.1 hs.2
    have hex : execute' ctx (.colConst op src v cf) f =
        (drop (if cf then execColCol ctx op (tempColName f "const") src (execLeaf "const" f (constCol f v)).1
               else execColCol ctx op src (tempColName f "const") (execLeaf "const" f (constCol f v)).1).1
            [tempColName f "const"],
         (if cf then execColCol ctx op (tempColName f "const") src (execLeaf "const" f (constCol f v)).1
               else execColCol ctx op src (tempColName f "const") (execLeaf "const" f (constCol f v)).1).2) := by
      simp only [execute', execColConst, he, Option.isSome_none, Bool.false_eq_true, ↓reduceIte, execConst_eq v f he,
        execLeaf]
    rw [hex]
    cases cf with
    | true => simpa only [toSpec, den_x2, den_col, den_val, if_true] using key
    | false => simpa only [toSpec, den_x2, den_col, den_val, Bool.false_eq_true, if_false] using key
  | ex1 op e ih =>
    intro f L wf u he hL hlt hc hcap A hs
    apply sem_both
    simp only [need] at hlt
    simp only [InScope, Bool.and_eq_true] at hs
    simp only [noEnumConst] at hc
    have h := (ih f L wf u he hL (by omega) hc hcap A hs.1).1
    simp only [toSpec, den_x1, execute']
    exact ex1_sem ok wf hL (by omega) h op hs.2
  | ex2 op l r ihl ihr =>
    intro f L wf u he hL hlt hc hcap A hs
    apply sem_both
    simp only [need] at hlt
    simp only [InScope, Bool.and_eq_true] at hs
    simp only [noEnumConst, Bool.and_eq_true] at hc
    have hsubl : ∀ n, n ∈ refs l → n ∈ refs (.ex2 op l r) := fun n hn => by simp [refs, hn]
    have hsubr : ∀ n, n ∈ refs r → n ∈ refs (.ex2 op l r) := fun n hn => by simp [refs, hn]
    have hx := (ihl f L wf u he hL (by omega) hc.1 (noCapture_mono hsubl hcap) (agree_mono hsubl A) hs.1.1.1).1
    simp only [toSpec, den_x2, execute']
    refine ex2_sem (R2 := refs r) ok wf hL (by omega) hx ?_ (fun h => execute'_of_err ctx r _ h)
      (fun n hn => hcap n (hsubl n hn)) op F.n A.1 hs.1.2 hs.2
    intro hxe
    rcases hx with ⟨herr, _⟩ | ⟨m1, E1, hlen1, hnm1, _, _⟩
    · rw [hxe] at herr; cases herr
    · have hT : ∀ m, m ∈ m1 → IsTemp m.1 := fun m hm => (hnm1 m hm).2
      have hcr := noCapture_mono hsubr hcap
      exact (ihr _ L E1.wf E1.uniq E1.err (E1.physLen hL) (by rw [E1.cols_length]; omega) hc.2
        (noCapture_ext wf E1 hcr) (agree_ext wf u E1 hT hcr (agree_mono hsubr A)) hs.1.1.2).1


/-! ## `Eval`: the epilogue against `setCol` / `copyS` -/

theorem name_beq (enc : String → Bytes) (henc : ∀ a b, enc a = enc b → a = b) (e : Entry) (dst : String) :
    ((entryCol enc e).name == enc dst) = (e.1 == dst) := by
  by_cases h : e.1 = dst
  · simp [entryCol, h]
  · have : enc e.1 ≠ enc dst := fun hh => h (henc _ _ hh)
    show (enc e.1 == enc dst) = (e.1 == dst)
    rw [beq_eq_false_iff_ne.mpr this, beq_eq_false_iff_ne.mpr h]

theorem map_repl_none (enc : String → Bytes) (henc : ∀ a b, enc a = enc b → a = b) (l : List Entry) (dst : String)
    (c : LCol) (h : dst ∉ l.map (·.1)) :
    (l.map (entryCol enc)).map (fun o => if o.name == enc dst then c else o) = l.map (entryCol enc) := by
  induction l with
  | nil => rfl
  | cons a l ih =>
    simp only [List.map_cons, List.mem_cons, not_or] at h ⊢
    have ha : (a.1 == dst) = false := by simpa using Ne.symm h.1
    rw [name_beq enc henc a dst, ha, ih h.2]
    rfl

theorem has_absL (enc : String → Bytes) (henc : ∀ a b, enc a = enc b → a = b) (l : List Entry) (k : Nat)
    (dst : String) :
    ({ cols := l.map (entryCol enc), n := k } : LFrame).has (enc dst) = (l.findIdx? (·.1 == dst)).isSome := by
  unfold LFrame.has LFrame.find?
  simp only
  rw [find_map_entryCol enc henc l dst]
  unfold absLookup
  rw [Option.isSome_map, List.findIdx?_isSome, Bool.eq_iff_iff]
  simp

/-- `setColumn`'s logical effect is the spec's `setCol` -/
theorem map_absSet (enc : String → Bytes) (henc : ∀ a b, enc a = enc b → a = b) (l : List Entry)
    (hnd : (l.map (·.1)).Nodup) (k : Nat) (dst : String) (x : Ty × List (Option Fr.Val)) :
    ({ cols := (absSet l (l.findIdx? (·.1 == dst)) (dst, x)).map (entryCol enc), n := k } : LFrame) =
      setCol { cols := l.map (entryCol enc), n := k } (entryCol enc (dst, x)) := by
  unfold setCol
  have hname : (entryCol enc (dst, x)).name = enc dst := rfl
  rw [hname, has_absL enc henc l k dst]
  induction l with
  | nil => rfl
  | cons a l ih =>
    simp only [List.map_cons, List.nodup_cons] at hnd
    rw [List.findIdx?_cons]
    cases ha : (a.1 == dst) with
    | true =>
      have had : a.1 = dst := by simpa using ha
      simp only [absSet, Option.isSome_some, if_true, List.set_cons_zero, List.map_cons]
      rw [name_beq enc henc a dst, ha, map_repl_none enc henc l dst _ (had ▸ hnd.1)]
      rfl
    | false =>
      have ih' := ih hnd.2
      cases hp : l.findIdx? (fun e => e.1 == dst) with
      | none =>
        simp only [absSet, Option.map_none, Option.isSome_none, Bool.false_eq_true, if_false, List.map_append,
          List.map_cons, List.map_nil, List.cons_append]
      | some p =>
        rw [hp] at ih'
        simp only [absSet, Option.isSome_some, if_true, LFrame.mk.injEq, and_true] at ih'
        simp only [absSet, Bool.false_eq_true, if_false, Option.map_some, Option.isSome_some, if_true,
          List.set_cons_succ, List.map_cons, LFrame.mk.injEq, and_true]
        rw [name_beq enc henc a dst, ha, ih']
        rfl

theorem evalEpilogue_err (f g : Frame) (dst c : String) (h : g.err.isSome = true) : evalEpilogue f dst g c = g := by
  unfold evalEpilogue
  simp only [copy_of_err g dst c h, drop_of_err g _ h, ite_self]

theorem evalS_noncol (enc : String → Bytes) (s : String) (F : LFrame) (d : Bytes) (e : Ex') (h : isCol e = false) :
    evalS s F d (toSpec enc e) =
      match (toSpec enc e).den s F with
      | none => .err
      | some v => if legalName d then
          .ok (setCol F { name := d, ty := v.ty, vals := v.vals, strict := v.strict, cells := v.cells }) else .err := by
  cases e with
  | col n => simp [isCol] at h
  | colConst op src v cf =>
    cases cf <;> (unfold evalS; simp only [toSpec]; generalize EArg.den s F _ = o; cases o <;> rfl)
  | _ => (unfold evalS; simp only [toSpec]; generalize EArg.den s F _ = o; cases o <;> rfl)


theorem checkName_isTemp {t : String} (h : IsTemp t) : checkName t = true := by
  obtain ⟨pre, hp, k, rfl⟩ := h
  rcases hp with rfl | rfl | rfl
  · exact checkName_tempName _ goodPrefix_const k
  · exact checkName_tempName _ goodPrefix_unary k
  · exact checkName_tempName _ goodPrefix_colcol k

theorem resL_ok {enc : String → Bytes} {f : Frame} (h : f.err = none) : resL enc f = .ok (absL enc f) := by
  simp [resL, h]

theorem resL_err {enc : String → Bytes} {f : Frame} (h : f.err.isSome = true) : resL enc f = .err := by
  simp [resL, h]

theorem evalS_col (s : String) (F : LFrame) (d n : Bytes) : evalS s F d (.col n) = copyS F d n := by
  unfold evalS
  rw [den_col]
  unfold dcol copyS
  cases h : F.find? n with
  | none => rfl
  | some c => simp [h]

theorem absL_of_abs {enc : String → Bytes} {f g : Frame} {l : List Entry} (ha : g.abs = l) (hi : g.index = f.index) :
    absL enc g = { cols := l.map (entryCol enc), n := f.index.length } := by
  unfold absL; rw [ha, hi]

theorem unique_abs {f : Frame} (u : UniqueNames f) : (f.abs.map (·.1)).Nodup := by
  rw [abs_names]; exact u

/-- `Eval(dst, Val(column))` -/
theorem eval'_col (enc : String → Bytes) (henc : ∀ a b, enc a = enc b → a = b) (s : String)
    (f : Frame) (L : Nat) (wf : WF f L) (u : UniqueNames f) (he : f.err = none) (dst : String)
    (hdst : checkName dst = legalName (enc dst)) (n : String) :
    resL enc (evalEpilogue f dst f n) = evalS s (absL enc f) (enc dst) (toSpec enc (.col n)) := by
  simp only [toSpec, evalS_col]
  unfold copyS
  rw [find_absL enc henc f n, absLookup_byName wf u]
  cases hb : f.byName n with
  | none =>
    have : evalEpilogue f dst f n = withErr f .unknownCol := by
      have h1 : copy f dst n = withErr f .unknownCol := by simp [copy, he, hb]
      unfold evalEpilogue
      simp only [h1, drop_of_err (withErr f .unknownCol) _ rfl, ite_self]
    rw [this]
    exact resL_err rfl
  | some c =>
    have hcs : (f.byName n).isSome = true := by simp [hb]
    have hev2 : evalEpilogue f dst f n = copy f dst n := by simp [evalEpilogue, contains, hb]
    rw [hev2]
    simp only [Option.map_some]
    by_cases hd : dst = n
    · subst hd
      rw [copy_self f dst hcs, resL_ok he]
      simp
    · have hne : (enc dst == enc n) = false := beq_eq_false_iff_ne.mpr fun hh => hd (henc _ _ hh)
      simp only [hne, Bool.false_eq_true, if_false]
      cases hck : checkName dst with
      | false =>
        rw [resL_err (by rw [(copy_badName f dst n c he hb hd hck).1]; rfl), ← hdst, hck]
        rfl
      | true =>
        obtain ⟨_, hi, herr⟩ := copy_abs f L wf dst n c he hb hd hck
        have ha := copy_abs_pure f L wf u dst n he hcs hd hck
        have hl : absLookup f.abs n = some (entry f.index c) := by rw [absLookup_byName wf u, hb]; rfl
        simp only [absCopy, hl] at ha
        rw [resL_ok herr, absL_of_abs ha hi, map_absSet enc henc f.abs (unique_abs u), ← hdst, hck]
        rfl

/-- **The link from the mirror to the denotational spec** (partial: see the header of this file for what the
hypotheses exclude and why). -/
theorem eval'_eq_evalS_partial {s : String} {ctx : Ctx} {gap : CType → String → Bool} (ok : CtxOK s ctx gap)
    (enc : String → Bytes) (henc : ∀ a b, enc a = enc b → a = b)
    (f : Frame) (L : Nat) (wf : WF f L) (u : UniqueNames f) (he : f.err = none) (hL : physLen f = L)
    (dst : String) (hdst : checkName dst = legalName (enc dst))
    (e : Ex') (hlt : f.cols.length + need e ≤ 10000) (hc : noEnumConst e = true)
    (hs : InScope enc s gap (absL enc f) e = true) :
    resL enc (eval' ctx f dst e) = evalS s (absL enc f) (enc dst) (toSpec enc e) := by
  cases hm : missing e f with
  | some c =>
    -- a column reference that is not a column of the frame: an error on both sides, nothing is executed
    have hev : eval' ctx f dst e = withErr f .other := by simp [eval', he, hm]
    rw [hev, resL_err rfl]
    rw [missing_eq_find] at hm
    have hmem := List.mem_of_find?_eq_some hm
    have hnot := List.find?_some hm
    have hb : f.byName c = none := by
      cases hb : f.byName c with
      | none => rfl
      | some x => simp [contains, hb] at hnot
    have hfind : (absL enc f).find? (enc c) = none := by
      rw [find_absL enc henc f c, absLookup_byName wf u, hb]; rfl
    have hden := den_none_of_ref enc s (absL enc f) e ⟨c, hmem, hfind⟩
    unfold evalS
    rw [hden]
  | none =>
  have hcap : NoCapture f e := noCapture_of_present ((missing_none_iff e f).mp hm)
  have hev : eval' ctx f dst e = evalEpilogue f dst (execute' ctx e f).1 (execute' ctx e f).2 := by
    simp [eval', he, hm]
  cases hcol : isCol e with
  | true =>
    cases e <;> simp [isCol] at hcol
    rw [hev]
    exact eval'_col enc henc s f L wf u he dst hdst _
  | false =>
    have hsem := (exec_den ok enc (absL enc f) e f L wf u he hL hlt hc hcap (agree_self enc henc f e) hs).2 hcol
    rw [hev, evalS_noncol enc s _ _ e hcol]
    cases hden : (toSpec enc e).den s (absL enc f) with
    | none =>
      rw [hden] at hsem
      rw [evalEpilogue_err f _ dst _ hsem]
      exact resL_err hsem
    | some v =>
      rw [hden] at hsem
      obtain ⟨mid, ent, E, hlen, hnm, hlk, hv⟩ := hsem
      simp only [Bool.false_eq_true, if_false] at hlen
      match mid, E, hlen, hnm with
      | [m], E, _, hnm =>
        obtain ⟨hname, hT⟩ := hnm m (by simp)
        have P : Plus f (execute' ctx e f).1 L (execute' ctx e f).2 m := by
          have := E.toPlus; rw [hname] at this; exact this
        have hm : ent = m := by
          rw [P.abs, absLookup_append_fresh f.abs m _ hname (P.fresh_names wf)] at hlk
          exact (Option.some.inj hlk).symm
        subst hm
        subst hv
        simp only
        cases hck : checkName dst with
        | true =>
          obtain ⟨ha, hi, herr, _, _⟩ := evalEpilogue_plus f _ L wf _ ent P dst (fun _ => hck)
          rw [resL_ok herr, absL_of_abs ha hi, map_absSet enc henc f.abs (unique_abs u), ← hdst, hck]
          rfl
        | false =>
          rw [← hdst, hck]
          have hne : dst ≠ (execute' ctx e f).2 := by
            intro hh
            have hd : ent.1 = dst := hname.trans hh.symm
            rw [hd] at hT
            rw [checkName_isTemp hT] at hck; cases hck
          cases hb : (execute' ctx e f).1.byName (execute' ctx e f).2 with
          | none => have := P.has_t; rw [hb] at this; cases this
          | some c =>
            have h1 : copy (execute' ctx e f).1 dst (execute' ctx e f).2 = withErr (execute' ctx e f).1 .badName := by
              simp [copy, P.err, hb, hne, setColumn_badName _ dst c.col hck]
            have : (evalEpilogue f dst (execute' ctx e f).1 (execute' ctx e f).2).err.isSome = true := by
              unfold evalEpilogue
              simp only [h1, drop_of_err (withErr _ .badName) _ rfl, ite_self]
              rfl
            rw [resL_err this]
            rfl


/-! ## evaluation contexts -/

def tyOfC : CType → Ty
  | .int => .int | .float => .float | .bool => .bool | .string => .str | .enum => .enum | .undef => .str

def valOf : Cell → Fr.Val
  | .int v => .int v | .float b => .float b | .bool b => .bool b | .str s => .str s

theorem cellOf_valOf (c : Cell) : cellOf (valOf c) = c := by cases c <;> rfl

theorem tyC_tyOfC {t : CType} (h : t ≠ .undef) : tyC (tyOfC t) = t := by
  cases t <;> first | rfl | exact absurd rfl h

theorem fn1_rt (id : String) (src dst : CType) (g : Cell → Cell) (h : fn1 id = some (src, dst, g)) : dst ≠ .undef := by
  unfold fn1 at h
  split at h <;> first | (simp only [Option.some.injEq, Prod.mk.injEq] at h; obtain ⟨_, rfl, _⟩ := h; decide) | (cases h)

theorem evalUnaryBase_rt (s op : String) (t rt : CType) (g : Cell → Cell) (h : evalUnaryBase s op t = some (rt, g)) :
    rt ≠ .undef := by
  unfold evalUnaryBase at h
  split at h
  · cases h
  · split at h <;> first | (simp only [Option.some.injEq, Prod.mk.injEq] at h; obtain ⟨rfl, _⟩ := h; decide) | (cases h)

/-- the spec's functions never return a column of undefined type -/
theorem evalUnary_rt (s op : String) (t rt : CType) (g : Cell → Cell) (h : evalUnary s op t = some (rt, g)) :
    rt ≠ .undef := by
  unfold evalUnary at h
  split at h
  · split at h
    · rename_i src dst g' hf
      split at h
      · simp only [Option.some.injEq, Prod.mk.injEq] at h
        obtain ⟨rfl, _⟩ := h
        exact fn1_rt _ _ _ _ hf
      · cases h
    · cases h
  · exact evalUnaryBase_rt s op t rt g h

/-- The frame mirror's context that holds exactly the spec's functions of the context named `s` ("d": default, "m": default
plus the harness's user functions, "o": "m" with int `+` overridden) — the contexts the harness registers, as values. -/
def specCtx (s : String) : Ctx :=
  { fn1 := fun t op => (evalUnary s op (tyC t)).map fun p => (tyOfC p.1, fun v => valOf (p.2 (cellOf v))),
    fn2 := fun t op => (evalBinary s op (tyC t)).map fun g => fun u v => valOf (g (cellOf u) (cellOf v)) }

def noGap : CType → String → Bool := fun _ _ => false

theorem specCtx_ok (s : String) : CtxOK s (specCtx s) noGap := by
  constructor
  · intro t op _ _
    refine ⟨fun h => by simp [specCtx, h], ?_⟩
    intro rt g h
    refine ⟨tyOfC rt, fun v => valOf (g (cellOf v)), by simp [specCtx, h], tyC_tyOfC (evalUnary_rt s op _ rt g h), ?_⟩
    intro v _
    exact cellOf_valOf _
  · intro t op _ _
    refine ⟨fun h => by simp [specCtx, h], ?_⟩
    intro g h
    refine ⟨fun u v => valOf (g (cellOf u) (cellOf v)), by simp [specCtx, h], ?_⟩
    intro u v _ _
    exact cellOf_valOf _

/-- the harness's user contexts -/
example : CtxOK "m" (specCtx "m") noGap := specCtx_ok "m"
example : CtxOK "o" (specCtx "o") noGap := specCtx_ok "o"

/-! ### the default context, from the regenerated table and function bodies (C07Functions) -/

open C07Functions in
/-- the (operand type, operator) pairs of today's default context the spec deliberately has no function for
(`C07Functions.specGaps`: `/`, int→float, float→int, float→string, upper, lower) -/
def gapD (t : CType) (op : String) : Bool :=
  specGaps.any fun g => g.1 == ctxTyK (fkind t) && g.2.2 == op

open C07Functions in
/-- the static result type of a one-argument function: the type of its value at the zero cell (the terms are untyped;
`Implements1` says the type is the same at every cell) -/
def resTy1 (P : FParams) (e : FE) (t : CType) : CType :=
  match e.eval P (zeroCell (fkind t)) (zeroCell (fkind t)) with
  | some c => cellType c
  | none => .undef

open C07Functions in
/-- **Today's default evaluation context as a context of the frame mirror**: the table `Gen.evalCtx` (operand type, arity,
operator ↦ function name) and the bodies `Gen.functionAst` with their Go meaning `FE.eval`.  `math.Abs` (the one entry that
is not in package `function`) is the parameter `mathAbs` on bit patterns. -/
def genCtx (P : FParams) (mathAbs : UInt64 → UInt64) : Fr.Ctx :=
  { fn1 := fun t op =>
      match ctxFn (ctxTyK (fkind (tyC t))) "singleArgs" op with
      | none => none
      | some F =>
        if F = "math.Abs" then some (.float, fun v => match v with | .float b => .float (mathAbs b) | x => x)
        else match fnTerm F with
          | none => none
          | some e => some (tyOfC (resTy1 P e (tyC t)),
              fun v => valOf ((e.eval P (cellOf v) (cellOf v)).getD (cellOf v))),
    fn2 := fun t op =>
      match genTerm (ctxTyK (fkind (tyC t))) "doubleArgs" op with
      | none => none
      | some e => some fun u v => valOf ((e.eval P (cellOf u) (cellOf v)).getD (cellOf u)) }

open C07Functions in
/-- finite check over today's table: an entry for a kind of operand is an entry the spec has a function for, or a gap -/
def ctxEntryOK (e : String × String × String × String) : Bool :=
  [CType.int, .float, .bool, .string].all fun t =>
    ctxTyK t != e.1 ||
      (if e.2.1 == "singleArgs" then (evalUnary "d" e.2.2.1 t).isSome || gapD t e.2.2.1
       else if e.2.1 == "doubleArgs" then (evalBinary "d" e.2.2.1 t).isSome || gapD t e.2.2.1
       else true)

theorem gen_ctx_entries_ok : Gen.evalCtx.all ctxEntryOK = true := by decide +kernel


section GenCtx
open C07Functions

theorem tyC_mem4 {t : Ty} (h : t ≠ .enum) : tyC t ∈ [CType.int, .float, .bool, .string] := by
  cases t <;> simp [tyC] at h ⊢

theorem fkind_tyC {t : Ty} (h : t ≠ .enum) : fkind (tyC t) = tyC t := by
  cases t <;> first | rfl | exact absurd rfl h

theorem ctxFn_entry {ty ar op F : String} (h : ctxFn ty ar op = some F) :
    ∃ e, e ∈ Gen.evalCtx ∧ e.1 = ty ∧ e.2.1 = ar ∧ e.2.2.1 = op := by
  unfold ctxFn ctxFnIn at h
  cases hf : Gen.evalCtx.find? (fun e => e.1 == ty && e.2.1 == ar && e.2.2.1 == op) with
  | none => rw [hf] at h; cases h
  | some e =>
    have h1 := List.find?_some hf
    simp only [Bool.and_eq_true, beq_iff_eq] at h1
    exact ⟨e, List.mem_of_find?_eq_some hf, h1.1.1, h1.1.2, h1.2⟩

theorem entryOK_at {e : String × String × String × String} (he : e ∈ Gen.evalCtx) {t : Ty} (ht : t ≠ .enum)
    (h1 : e.1 = ctxTyK (tyC t)) :
    (e.2.1 = "singleArgs" → ((evalUnary "d" e.2.2.1 (tyC t)).isSome || gapD (tyC t) e.2.2.1) = true) ∧
    (e.2.1 = "doubleArgs" → ((evalBinary "d" e.2.2.1 (tyC t)).isSome || gapD (tyC t) e.2.2.1) = true) := by
  have hall := List.all_eq_true.mp gen_ctx_entries_ok e he
  unfold ctxEntryOK at hall
  have := List.all_eq_true.mp hall (tyC t) (tyC_mem4 ht)
  rw [h1] at this
  simp only [bne_self_eq_false, Bool.false_or] at this
  constructor
  · intro h; rw [h] at this; simpa using this
  · intro h; rw [h] at this; simpa using this

/-- the table has no entry where the spec has no function, gaps aside -/
theorem ctxFn_none_un {t : Ty} {op : String} (ht : t ≠ .enum) (hg : gapD (tyC t) op = false)
    (h : evalUnary "d" op (tyC t) = none) : ctxFn (ctxTyK (fkind (tyC t))) "singleArgs" op = none := by
  rw [fkind_tyC ht]
  cases hc : ctxFn (ctxTyK (tyC t)) "singleArgs" op with
  | none => rfl
  | some F =>
    obtain ⟨e, he, h1, h2, h3⟩ := ctxFn_entry hc
    have := (entryOK_at he ht h1).1 h2
    rw [h3, h, hg] at this
    cases this

theorem ctxFn_none_bin {t : Ty} {op : String} (ht : t ≠ .enum) (hg : gapD (tyC t) op = false)
    (h : evalBinary "d" op (tyC t) = none) : ctxFn (ctxTyK (fkind (tyC t))) "doubleArgs" op = none := by
  rw [fkind_tyC ht]
  cases hc : ctxFn (ctxTyK (tyC t)) "doubleArgs" op with
  | none => rfl
  | some F =>
    obtain ⟨e, he, h1, h2, h3⟩ := ctxFn_entry hc
    have := (entryOK_at he ht h1).2 h2
    rw [h3, h, hg] at this
    cases this

theorem cellOK_cellInK {t : Ty} (_ht : t ≠ .enum) {c : Cell} (h : cellOK (tyC t) c = true) :
    cellInK (fkind (tyC t)) c := cellOK_cellIn h

theorem zero_cellInK (k : CType) (hk : k ∈ [CType.int, .float, .bool, .string]) : cellInK k (zeroCell k) := by
  simp only [List.mem_cons, List.not_mem_nil, or_false] at hk
  rcases hk with rfl | rfl | rfl | rfl <;> simp [zeroCell, cellInK, int64]

theorem fnTerm_mathAbs : fnTerm "math.Abs" = none := by decide

theorem specAbsF : evalUnary "d" "abs" .float =
    some (.float, fun c => match c with | .float b => .float (b &&& 0x7fffffffffffffff) | y => y) := by
  simp [evalUnary, evalUnaryBase, noUser, fkind]
  rfl

/-- **The default context of today's source computes the spec's functions** (`C07Functions.gen_function_semantics`), and has
no function where the spec has none — the seven gaps aside.  `math.Abs` clears the sign bit (assumption on the standard
library, as in `gen_function_semantics_unary`). -/
theorem genCtx_ok (P : FParams) (mathAbs : UInt64 → UInt64)
    (habs : ∀ b, mathAbs b = b &&& 0x7fffffffffffffff) : CtxOK "d" (genCtx P mathAbs) gapD := by
  constructor
  · intro t op ht hg
    constructor
    · intro h
      simp only [genCtx, ctxFn_none_un ht hg h]
    · intro rt g h
      rcases gen_function_semantics_unary (tyC t) op rt g h with ⟨hk, hop, hF⟩ | ⟨e, hk, hs⟩
      · -- float abs: math.Abs
        rw [fkind_tyC ht] at hk
        subst hop
        rw [hk, specAbsF] at h
        simp only [Option.some.injEq, Prod.mk.injEq] at h
        obtain ⟨rfl, rfl⟩ := h
        refine ⟨.float, fun v => match v with | .float b => .float (mathAbs b) | x => x, ?_, rfl, ?_⟩
        · simp only [genCtx, hF, if_true]
        · intro v hv
          rw [hk] at hv
          cases v <;> simp [cellOf, cellOK, fkind] at hv ⊢
          exact habs _
      · rw [genTerm_eq] at hk
        cases hF : ctxFn (ctxTyK (fkind (tyC t))) "singleArgs" op with
        | none => rw [hF] at hk; cases hk
        | some F =>
          rw [hF] at hk
          have hk' : fnTerm F = some e := hk
          have hne : F ≠ "math.Abs" := by
            intro hh; rw [hh, fnTerm_mathAbs] at hk'; cases hk'
          have hz := hs P _ (zeroCell (fkind (tyC t))) (zero_cellInK _ (by rw [fkind_tyC ht]; exact tyC_mem4 ht))
          have hrt : resTy1 P e (tyC t) = rt := by
            unfold resTy1; rw [hz.1]; exact hz.2
          refine ⟨tyOfC rt, fun v => valOf ((e.eval P (cellOf v) (cellOf v)).getD (cellOf v)), ?_,
            tyC_tyOfC (evalUnary_rt _ _ _ _ _ h), ?_⟩
          · simp only [genCtx, hF, hne, if_false, hk', hrt]
          · intro v hv
            dsimp only
            rw [(hs P _ (cellOf v) (cellOK_cellInK ht hv)).1]
            exact cellOf_valOf _
  · intro t op ht hg
    constructor
    · intro h
      have : genTerm (ctxTyK (fkind (tyC t))) "doubleArgs" op = none := by
        rw [genTerm_eq, ctxFn_none_bin ht hg h]; rfl
      simp only [genCtx, this]
    · intro g h
      obtain ⟨e, hk, hs⟩ := gen_function_semantics_binary (tyC t) op g h
      refine ⟨fun u v => valOf ((e.eval P (cellOf u) (cellOf v)).getD (cellOf u)), ?_, ?_⟩
      · simp only [genCtx, hk]
      · intro u v hu hv
        dsimp only
        rw [(hs P _ _ (cellOK_cellInK ht hu) (cellOK_cellInK ht hv)).1]
        exact cellOf_valOf _

end GenCtx


/-! ## the regenerated code, end to end -/

section EndToEnd
open C07EvalGen C07Decode

/-- column names a decoded expression refers to -/
def colNames : XDec → List Bytes
  | .col n => [n]
  | .const _ => []
  | .unary _ s => [s]
  | .colConst _ s _ _ => [s]
  | .colCol _ a b => [a, b]
  | .ex1 _ e => colNames e
  | .ex2 _ l r => colNames l ++ colNames r
  | .error => []

theorem cellOf_cellVal (c : Cell) : cellOf (cellVal c) = c := by cases c <;> rfl

/-- the mirror's expression for a decoded struct stands for the expression the struct stands for -/
theorem toSpec_ofXDec (enc : String → Bytes) (nm : Bytes → String) (d : XDec)
    (h : ∀ n, n ∈ colNames d → enc (nm n) = n) : toSpec enc (ofXDec nm d) = d.toEArg nm := by
  induction d with
  | col n => simp [ofXDec, toSpec, XDec.toEArg, h n (by simp [colNames])]
  | const c => simp [ofXDec, toSpec, XDec.toEArg, cellOf_cellVal]
  | unary op s => simp [ofXDec, toSpec, XDec.toEArg, h s (by simp [colNames])]
  | colConst op s c cf =>
    cases cf <;> simp [ofXDec, toSpec, XDec.toEArg, cellOf_cellVal, h s (by simp [colNames])]
  | colCol op a b => simp [ofXDec, toSpec, XDec.toEArg, h a (by simp [colNames]), h b (by simp [colNames])]
  | ex1 op e ih => simp [ofXDec, toSpec, XDec.toEArg, ih (fun n hn => h n (by simpa [colNames] using hn))]
  | ex2 op l r ihl ihr =>
    simp [ofXDec, toSpec, XDec.toEArg, ihl (fun n hn => h n (by simp [colNames, hn])),
      ihr (fun n hn => h n (by simp [colNames, hn]))]
  | error => rfl

theorem noEnumConst_ofXDec (nm : Bytes → String) (d : XDec) : noEnumConst (ofXDec nm d) = true := by
  induction d with
  | const c => cases c <;> rfl
  | colConst op s c cf => cases c <;> rfl
  | ex1 op e ih => simpa [ofXDec, noEnumConst] using ih
  | ex2 op l r ihl ihr => simp [ofXDec, noEnumConst, ihl, ihr]
  | _ => rfl

theorem evalS_den_none (s : String) (F : LFrame) (d : Bytes) (e : EArg) (h : e.den s F = none) :
    evalS s F d e = .err := by
  unfold evalS; rw [h]

/-- `Eval` sees a malformed tree and the error struct alike -/
theorem evalS_decoded (nm : Bytes → String) (x : RawExpr) (d : XDec) (he : d.isErr = hasBad (read nm x))
    (ht : d.isErr = false → d.toEArg nm = read nm x) (s : String) (F : LFrame) (dd : Bytes) :
    evalS s F dd (d.toEArg nm) = evalS s F dd (read nm x) := by
  cases hd : d.isErr with
  | false => rw [ht hd]
  | true =>
    rw [hd] at he
    rw [evalS_den_none s F dd _ (den_hasBad s F _ he.symm)]
    cases d <;> simp [XDec.isErr] at hd
    exact evalS_den_none s F dd _ (den_bad s F)

/-- **`gen_eval_end_to_end` (partial: hypotheses as for `eval'_eq_evalS_partial`).**  For every raw Go value `x` handed
to `Val` / `Expr` / `Eval`: today's regenerated decoder returns a struct `d`; today's regenerated `QFrame.Eval`, `execute`
methods, `getFunc` and `tempColName`, run on `d`, return a frame (no panic); and that frame stands for exactly the outcome
the denotational spec `evalS` assigns to the spec's reading `read x` of the raw tree — error for error, and on success the
same columns in the same order with the same cells. -/
theorem gen_eval_end_to_end_partial {s : String} {ctx : Fr.Ctx} {gap : CType → String → Bool} (ok : CtxOK s ctx gap)
    (enc : String → Bytes) (henc : ∀ a b, enc a = enc b → a = b) (nm : Bytes → String)
    (x : RawExpr) (hx : C07Decode.wf x = true) :
    ∃ d, Gen.newExprAst.decode x = some d ∧
      ∀ (f : Frame) (L : Nat), WF f L → UniqueNames f → f.err = none → physLen f = L →
        ∀ (dst : String), checkName dst = legalName (enc dst) →
        (∀ n, n ∈ colNames d → enc (nm n) = n) →
        f.cols.length + need (ofXDec nm d) ≤ 10000 →
        InScope enc s gap (absL enc f) (ofXDec nm d) = true →
        ∃ g, genEval ctx f dst (ofXDec nm d) = some g ∧
          resL enc g = evalS s (absL enc f) (enc dst) (read nm x) := by
  obtain ⟨d, hd, he, ht, _⟩ := gen_expr_decode_semantics nm x hx
  refine ⟨d, hd, ?_⟩
  intro f L wf u hfe hL dst hdst hnames hlt hs
  refine ⟨eval' ctx f dst (ofXDec nm d), gen_eval_semantics_eval ctx f dst _, ?_⟩
  rw [eval'_eq_evalS_partial ok enc henc f L wf u hfe hL dst hdst _ hlt (noEnumConst_ofXDec nm d) hs,
    toSpec_ofXDec enc nm d hnames]
  exact evalS_decoded nm x d he ht s _ _

theorem foldl_notCol (op : String) : ∀ (rest : List EArg) (E : EArg), (∀ n, E ≠ .col n) →
    ∀ n, rest.foldl (fun acc c => EArg.x op [acc, c]) E ≠ .col n
  | [], _, h => h
  | c :: r, E, _ => by
    rw [List.foldl_cons]
    exact foldl_notCol op r _ (fun n hh => by cases hh)

theorem foldE_notCol (op : String) (args : List EArg) : ∀ n, foldE op args ≠ .col n := by
  match args with
  | [] => intro n h; cases h
  | [a] => intro n h; cases h
  | a :: b :: rest => exact foldl_notCol op rest _ (fun n hh => by cases hh)

theorem evalS_notCol (s : String) (F : LFrame) (d : Bytes) (e : EArg) (h : ∀ n, e ≠ .col n) :
    evalS s F d e =
      match e.den s F with
      | none => .err
      | some v => if legalName d then
          .ok (setCol F { name := d, ty := v.ty, vals := v.vals, strict := v.strict, cells := v.cells }) else .err := by
  unfold evalS
  cases e with
  | col n => exact absurd rfl (h n)
  | _ => rfl

/-- the same for `Expr(name, a₀, a₁, …)` with any number of arguments: the regenerated fold, then the regenerated `Eval`,
against the spec's n-ary `EArg.x name [a₀, a₁, …]` -/
theorem gen_eval_end_to_end_fold_partial {s : String} {ctx : Fr.Ctx} {gap : CType → String → Bool} (ok : CtxOK s ctx gap)
    (enc : String → Bytes) (henc : ∀ a b, enc a = enc b → a = b) (nm : Bytes → String)
    (name : Bytes) (args : List RawExpr) (hx : wfL args = true) :
    ∃ d, Gen.exprFoldAst.run Gen.newExprAst name (args.length + 1) args = some (d, args) ∧
      ∀ (f : Frame) (L : Nat), WF f L → UniqueNames f → f.err = none → physLen f = L →
        ∀ (dst : String), checkName dst = legalName (enc dst) →
        (∀ n, n ∈ colNames d → enc (nm n) = n) →
        f.cols.length + need (ofXDec nm d) ≤ 10000 →
        InScope enc s gap (absL enc f) (ofXDec nm d) = true →
        ∃ g, genEval ctx f dst (ofXDec nm d) = some g ∧
          resL enc g = evalS s (absL enc f) (enc dst) (EArg.x (nm name) (readL nm args)) := by
  obtain ⟨d, hd, _, he, ht⟩ := gen_expr_fold nm name args hx
  refine ⟨d, hd, ?_⟩
  intro f L wf u hfe hL dst hdst hnames hlt hs
  refine ⟨eval' ctx f dst (ofXDec nm d), gen_eval_semantics_eval ctx f dst _, ?_⟩
  rw [eval'_eq_evalS_partial ok enc henc f L wf u hfe hL dst hdst _ hlt (noEnumConst_ofXDec nm d) hs,
    toSpec_ofXDec enc nm d hnames]
  have hfold : evalS s (absL enc f) (enc dst) (foldE (nm name) (readL nm args)) =
      evalS s (absL enc f) (enc dst) (EArg.x (nm name) (readL nm args)) := by
    rw [evalS_notCol _ _ _ _ (foldE_notCol _ _), evalS_notCol _ _ _ _ (fun n hh => by cases hh), den_foldE]
  rw [← hfold]
  cases hde : d.isErr with
  | false => rw [ht hde]
  | true =>
    rw [hde] at he
    rw [evalS_den_none _ _ _ _ (den_hasBad s _ _ he.symm)]
    cases d <;> simp [XDec.isErr] at hde
    exact evalS_den_none _ _ _ _ (den_bad s _)

end EndToEnd


/-! ## with the UTF-8 encoding of names (`strBytes`, QF/Props/C07EndToEndNames.lean) -/

/-- `eval'_eq_evalS_partial` with names as their UTF-8 bytes: injectivity and the agreement of the two name checks are
theorems (`strBytes_inj`, `checkName_eq_legalName`), so only the hypotheses 1–3 of the header remain. -/
theorem eval'_eq_evalS_utf8_partial {s : String} {ctx : Ctx} {gap : CType → String → Bool} (ok : CtxOK s ctx gap)
    (f : Frame) (L : Nat) (wf : WF f L) (u : UniqueNames f) (he : f.err = none) (hL : physLen f = L)
    (dst : String) (e : Ex') (hlt : f.cols.length + need e ≤ 10000) (hc : noEnumConst e = true)
    (hs : InScope strBytes s gap (absL strBytes f) e = true) :
    resL strBytes (eval' ctx f dst e) = evalS s (absL strBytes f) (strBytes dst) (toSpec strBytes e) :=
  eval'_eq_evalS_partial ok strBytes strBytes_inj f L wf u he hL dst (checkName_eq_legalName dst) e hlt hc hs

/-- `gen_eval_end_to_end_partial` with names as their UTF-8 bytes; `nm` reads the byte strings of the raw tree as the
mirror's `String`s (the column names of the tree are valid UTF-8: `strBytes (nm n) = n`) -/
theorem gen_eval_end_to_end_utf8_partial {s : String} {ctx : Fr.Ctx} {gap : CType → String → Bool} (ok : CtxOK s ctx gap)
    (nm : Bytes → String) (x : RawExpr) (hx : C07Decode.wf x = true) :
    ∃ d, Gen.newExprAst.decode x = some d ∧
      ∀ (f : Frame) (L : Nat), WF f L → UniqueNames f → f.err = none → physLen f = L →
        ∀ (dst : String), (∀ n, n ∈ colNames d → strBytes (nm n) = n) →
        f.cols.length + need (C07EvalGen.ofXDec nm d) ≤ 10000 →
        InScope strBytes s gap (absL strBytes f) (C07EvalGen.ofXDec nm d) = true →
        ∃ g, C07EvalGen.genEval ctx f dst (C07EvalGen.ofXDec nm d) = some g ∧
          resL strBytes g = evalS s (absL strBytes f) (strBytes dst) (C07Decode.read nm x) := by
  obtain ⟨d, hd, h⟩ := gen_eval_end_to_end_partial ok strBytes strBytes_inj nm x hx
  exact ⟨d, hd, fun f L wf u he hL dst hn hlt hs =>
    h f L wf u he hL dst (checkName_eq_legalName dst) hn hlt hs⟩

/-! ## a concrete instance: the hypotheses are satisfiable, the statement is about something

`C08.exF`: columns `a` (int 10, 11, 12) and `b` (bool), physical length 3, rows in the order 2, 0, 1. -/

section Examples
open C07EvalGen

/-- `math.Abs` on bit patterns -/
def absBits (b : UInt64) : UInt64 := b &&& 0x7fffffffffffffff

/-- today's default context -/
def dCtx : Fr.Ctx := genCtx {} absBits

theorem dCtx_ok : CtxOK "d" dCtx gapD := genCtx_ok {} absBits (fun _ => rfl)

/-- `abs((10 - a) + a * a)`: constant first, column-column, nested binary, nested unary -/
def exT : Ex' := .ex1 "abs" (.ex2 "+" (.colConst "-" "a" (.int 10) true) (.colCol "*" "a" "a"))

/-- what a logical outcome shows: names, types, cells -/
def showRes : Res → Option (List (Bytes × CType × List Cell))
  | .err => none
  | .ok F => some (F.cols.map fun c => (c.name, c.ty, c.cells.toList))

theorem exF_physLen : physLen exF = 3 := by decide +kernel

/-- all hypotheses of `eval'_eq_evalS_partial` hold of `Eval("y", abs((10 - a) + a * a))` on `exF` in the default context -/
example : WF exF 3 ∧ UniqueNames exF ∧ exF.err = none ∧ physLen exF = 3 ∧
    checkName "y" = legalName (strBytes "y") ∧ exF.cols.length + need exT ≤ 10000 ∧ noEnumConst exT = true ∧
    InScope strBytes "d" gapD (absL strBytes exF) exT = true :=
  ⟨exF_wf, exF_unique, rfl, exF_physLen, by decide +kernel, by decide +kernel, by decide +kernel, by decide +kernel⟩

/-- so the mirror's result stands for the spec's … -/
example : resL strBytes (eval' dCtx exF "y" exT) =
    evalS "d" (absL strBytes exF) (strBytes "y") (toSpec strBytes exT) :=
  eval'_eq_evalS_utf8_partial dCtx_ok exF 3 exF_wf exF_unique rfl exF_physLen "y"
    exT (by decide +kernel) (by decide +kernel) (by decide +kernel)

/-- … which is: `a`, `b` untouched, `y` appended last with `|(10 - a) + a·a|` per row (rows 2, 0, 1: 142, 100, 120) -/
example : showRes (evalS "d" (absL strBytes exF) (strBytes "y") (toSpec strBytes exT)) =
    some [(strBytes "a", .int, [.int 12, .int 10, .int 11]),
          (strBytes "b", .bool, [.bool true, .bool true, .bool false]),
          (strBytes "y", .int, [.int 142, .int 100, .int 120])] := by decide +kernel

/-- the same through today's regenerated code and decoder: `Eval("y", Expr("abs", Expr("+", Expr("-", 10, a), Expr("*", a, a))))` -/
def rawT : RawExpr :=
  .list [.str (strBytes "abs"), .list [.str (strBytes "+"),
    .list [.str (strBytes "-"), .int 10, .col (strBytes "a")],
    .list [.str (strBytes "*"), .col (strBytes "a"), .col (strBytes "a")]]]

example : Gen.newExprAst.decode rawT =
    some (.ex1 (strBytes "abs") (.ex2 (strBytes "+") (.colConst (strBytes "-") (strBytes "a") (.int 10) true)
      (.colCol (strBytes "*") (strBytes "a") (strBytes "a")))) := by decide +kernel

/-- the struct today's decoder returns for `rawT` -/
def decT : XDec :=
  .ex1 (strBytes "abs") (.ex2 (strBytes "+") (.colConst (strBytes "-") (strBytes "a") (.int 10) true)
    (.colCol (strBytes "*") (strBytes "a") (strBytes "a")))

theorem decode_rawT : Gen.newExprAst.decode rawT = some decT := by decide +kernel

/-- all hypotheses of `gen_eval_end_to_end_utf8_partial` hold of `rawT` on `exF` (names read by `C07Decode.nmU`), so
today's regenerated decoder and `Eval` produce a frame that stands for the spec's outcome of the raw tree -/
example : ∃ g, genEval dCtx exF "y" (ofXDec C07Decode.nmU decT) = some g ∧
    resL strBytes g = evalS "d" (absL strBytes exF) (strBytes "y") (C07Decode.read C07Decode.nmU rawT) := by
  obtain ⟨d, hd, h⟩ := gen_eval_end_to_end_utf8_partial dCtx_ok C07Decode.nmU rawT (by decide +kernel)
  have hdT : d = decT := by rw [decode_rawT] at hd; exact (Option.some.inj hd).symm
  subst hdT
  exact h exF 3 exF_wf exF_unique rfl exF_physLen "y" (by decide +kernel) (by decide +kernel) (by decide +kernel)

example : (genEval dCtx exF "y" exT).map (fun g => showRes (resL strBytes g)) =
    some (showRes (evalS "d" (absL strBytes exF) (strBytes "y") (toSpec strBytes exT))) := by decide +kernel

/-- the destination replaced in place; the user contexts -/
example : showRes (resL strBytes (eval' (specCtx "o") exF "a" (.colCol "+" "a" "a"))) =
    some [(strBytes "a", .int, [.int 1024, .int 1020, .int 1022]),
          (strBytes "b", .bool, [.bool true, .bool true, .bool false])] := by decide +kernel
example : InScope strBytes "o" noGap (absL strBytes exF) (.colCol "+" "a" "a") = true := by decide +kernel

/-! ### what the hypotheses exclude is real -/

/-- **The finding this file led to (temp-name capture), and its repair.**  `C07EvalGen.witCapture` is
`(a + a) + Col("colcol-temp-0")`, evaluated on a frame WITHOUT a column `colcol-temp-0`.  Before the repair the right operand
was satisfied by the temporary of the left one: the code returned `(a + a) + (a + a)` and no error, where the spec — for
which `colcol-temp-0` is an unknown column — answers with an error (confirmed on the real code:
`Eval("y", Expr("+", Expr("+", a, b), types.ColumnName("colcol-temp-0")))` on `{a: 1 2 3, b: 10 20 30}` gave
`y = 22 44 66` with `Err == nil`).  The repair resolves every column reference against the frame `Eval` is called on before
anything is executed (`missingCol`, `C07EvalGen.gen_missingcol_semantics`); with it the former hypothesis `NoCapture` of the
theorems above is gone.  The OLD term of `Eval` (`C07EvalGen.mutNoCheck`: no check) accepts the expression … -/
example : (EV.interpEval prims mutNoCheck Gen.tempColNameAst.name Gen.missingColAst.run dCtx exF "y" (toNode witCapture)).map
      (fun g => showRes (resL strBytes g)) =
    some (some [(strBytes "a", .int, [.int 12, .int 10, .int 11]),
                (strBytes "b", .bool, [.bool true, .bool true, .bool false]),
                (strBytes "y", .int, [.int 48, .int 40, .int 44])]) := by decide +kernel
/-- … the spec rejects it … -/
example : showRes (evalS "d" (absL strBytes exF) (strBytes "y") (toSpec strBytes witCapture)) = none := by
  decide +kernel
/-- … and so does today's term, -/
example : (genEval dCtx exF "y" witCapture).map (fun g => showRes (resL strBytes g)) = some none := by decide +kernel
/-- as the theorem says: its hypotheses hold of this input too -/
example : resL strBytes (eval' dCtx exF "y" witCapture) =
    evalS "d" (absL strBytes exF) (strBytes "y") (toSpec strBytes witCapture) :=
  eval'_eq_evalS_utf8_partial dCtx_ok exF 3 exF_wf exF_unique rfl exF_physLen "y" witCapture (by decide +kernel)
    (by decide +kernel) (by decide +kernel)
/-- (the capture is what `NoCapture` excludes inside `exec_den`; under `eval'` it cannot occur any more) -/
example : ¬ NoCapture exF witCapture := by
  intro h
  exact h "colcol-temp-0" (by simp [witCapture, refs]) (by decide +kernel) ⟨"colcol", .inr (.inr rfl), 0, by decide +kernel⟩

/-- a gap of the spec: the default context has int `/`, the spec has no function for it (`InScope` fails) -/
example : (eval' dCtx exF "y" (.colCol "/" "a" "a")).err = none ∧
    showRes (evalS "d" (absL strBytes exF) (strBytes "y") (toSpec strBytes (.colCol "/" "a" "a"))) = none ∧
    InScope strBytes "d" gapD (absL strBytes exF) (.colCol "/" "a" "a") = false := by
  refine ⟨by decide +kernel, by decide +kernel, by decide +kernel⟩

end Examples


section EnumWitness
/-- a frame with an enum column in the mirror: ranks 0, 1 without a value table -/
def exEnumCol : NCol := ⟨"e", 0, ⟨.enum, [.enum (some 0), .enum (some 1)]⟩⟩
def exEnum : Frame := { cols := [exEnumCol], byName := fun n => if n = "e" then some exEnumCol else none, index := [0, 1] }
/-- the mirror types `e + e` as enum; the code (`ecolumn.Apply2`: "String column returned here, not enum") and the spec
(`fkind`) as string: enum operands are outside the frame mirror (`opnd`) -/
example : ((eval' (specCtx "d") exEnum "y" (.colCol "+" "e" "e")).abs.map fun x => (x.1, x.2.1)) =
    [("e", .enum), ("y", .enum)] := by decide +kernel
example : InScope strBytes "d" noGap (absL strBytes exEnum) (.colCol "+" "e" "e") = false := by decide +kernel
end EnumWitness

#print axioms exec_den
#print axioms eval'_col
#print axioms eval'_eq_evalS_partial
#print axioms specCtx_ok
#print axioms genCtx_ok
#print axioms gen_ctx_entries_ok
#print axioms gen_eval_end_to_end_partial
#print axioms gen_eval_end_to_end_fold_partial
#print axioms eval'_eq_evalS_utf8_partial
#print axioms gen_eval_end_to_end_utf8_partial
#print axioms map_absSet

end QF.Props.C07EndToEnd
