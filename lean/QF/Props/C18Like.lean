import QF.Drv.Like
/-!
# C18 — like / ilike with % wildcards (patterns without regular-expression metacharacters)

Go: `internal/strings/match.go` (`NewMatcher`, `trimPercent`, Exact/Prefix/Suffix/Contains matchers and their CI
variants). Executable rule replayed by the driver: `QF.Drv.likeRule` (`QF/Drv/Like.lean`).

* `Matches pat s` — declarative meaning: `s = pre ++ core pat ++ suf`, `pre`/`suf` empty unless the pattern has a
  leading / trailing `%` (byte 37); `core = trimPercent`.
* `matcherKind`, `matchString`, `runMatcher` — mirror of NewMatcher's choice and of the four `Matches` methods.
* `like_correct` — `runMatcher (matcherKind pat) (trimPercent pat) s = true ↔ Matches pat s`, every `pat`, `s`;
  it rests on `isInfix_iff` about the driver's own fuel-based `isInfix`.
* `likeRule_like`, `likeRule_ilike` — the driver's rule IS the mirror (kind string and match function), cs and CI.
* `matcherKind_upper`, `ilike_correct`, `likeRule_ilike_correct` — the CI matcher (kind from the original pattern,
  `trimPercent` of the upper-cased pattern, cell upper-cased by the custom ToUpper with any buffer size) answers
  `Matches (upper pat) (upper s)`; this needs `PctStable up` (the case mapping fixes '%' and maps nothing else to
  '%'), because Go takes the flags from the original pattern and trims the upper-cased one; `notStable_counterexample`
  shows the statement is false without it.
-/
namespace QF.Props.C18Like
open QF QF.Drv

/-! ## 1. declarative meaning, 2. mirror of NewMatcher -/

/-- the pattern without its leading and trailing % (Go: TrimPrefix then TrimSuffix) -/
def core (pat : Bytes) : Bytes :=
  let p1 := if pat.head? = some 37 then pat.tail else pat
  if p1.getLast? = some 37 then p1.dropLast else p1

theorem trimPercent_eq (pat : Bytes) : trimPercent pat =
    (let p1 := if pat.head? = some 37 then pat.tail else pat
     if p1.getLast? = some 37 then p1.dropLast else p1) := by
  unfold trimPercent
  split
  · simp
  · rename_i r h
    have : ¬ pat.head? = some 37 := by
      intro e
      cases pat with
      | nil => simp at e
      | cons b t => simp at e; subst e; exact h t rfl
    simp [this]

theorem core_eq_trimPercent (pat : Bytes) : core pat = trimPercent pat := by
  rw [trimPercent_eq]; rfl

def Matches (pat s : Bytes) : Prop :=
  let fs := pat.head? = some 37
  let fe := pat.getLast? = some 37
  ∃ pre suf, s = pre ++ core pat ++ suf ∧ (¬fs → pre = []) ∧ (¬fe → suf = [])

inductive Kind | exact | «prefix» | suffix | contains
  deriving DecidableEq, Repr

def matcherKind (pat : Bytes) : Kind :=
  let fuzzyStart := pat.head? == some 37
  let fuzzyEnd := pat.getLast? == some 37
  if fuzzyStart && fuzzyEnd then .contains
  else if fuzzyStart then .suffix
  else if fuzzyEnd then .prefix
  else .exact

def runMatcher : Kind → Bytes → Bytes → Bool
  | .exact, m, s => s == m
  | .prefix, m, s => m.isPrefixOf s
  | .suffix, m, s => m.isSuffixOf s
  | .contains, m, s => isInfix m s

/-! ## 3. the matchers decide the declarative meaning -/

theorem isInfix_go_iff (p : Bytes) : ∀ (fuel : Nat) (s : Bytes), s.length < fuel →
    (isInfix.go p fuel s = true ↔ ∃ pre suf, s = pre ++ p ++ suf) := by
  intro fuel
  induction fuel with
  | zero => intro s h; omega
  | succ n ih =>
    intro s h
    unfold isInfix.go
    rw [Bool.or_eq_true, List.isPrefixOf_iff_prefix]
    constructor
    · rintro (⟨t, ht⟩ | h2)
      · exact ⟨[], t, by simp [ht]⟩
      · cases s with
        | nil => simp at h2
        | cons a t =>
          simp only at h2
          obtain ⟨pre, suf, e⟩ := (ih t (by simp at h; omega)).mp h2
          exact ⟨a :: pre, suf, by simp [e]⟩
    · rintro ⟨pre, suf, e⟩
      cases pre with
      | nil => left; exact ⟨suf, by simp [e]⟩
      | cons a pre =>
        right
        subst e
        simp only [List.cons_append]
        exact (ih _ (by simp at h ⊢; omega)).mpr ⟨pre, suf, by simp⟩

theorem isInfix_iff (p s : Bytes) : isInfix p s = true ↔ ∃ pre suf, s = pre ++ p ++ suf :=
  isInfix_go_iff p _ s (Nat.lt_succ_self _)

theorem isPrefixOf_iff (p s : Bytes) : p.isPrefixOf s = true ↔ ∃ suf, s = p ++ suf := by
  rw [List.isPrefixOf_iff_prefix]; constructor <;> rintro ⟨t, h⟩ <;> exact ⟨t, h.symm⟩

theorem isSuffixOf_iff (p s : Bytes) : p.isSuffixOf s = true ↔ ∃ pre, s = pre ++ p := by
  rw [List.isSuffixOf_iff_suffix]; constructor <;> rintro ⟨t, h⟩ <;> exact ⟨t, h.symm⟩

theorem isSuffixOf_eq_rev (p s : Bytes) : p.isSuffixOf s = p.reverse.isPrefixOf s.reverse := rfl

theorem matcherKind_tt {pat : Bytes} (hs : pat.head? = some 37) (he : pat.getLast? = some 37) :
    matcherKind pat = .contains := by simp [matcherKind, hs, he]
theorem matcherKind_tf {pat : Bytes} (hs : pat.head? = some 37) (he : ¬ pat.getLast? = some 37) :
    matcherKind pat = .suffix := by simp [matcherKind, hs, he]
theorem matcherKind_ft {pat : Bytes} (hs : ¬ pat.head? = some 37) (he : pat.getLast? = some 37) :
    matcherKind pat = .prefix := by simp [matcherKind, hs, he]
theorem matcherKind_ff {pat : Bytes} (hs : ¬ pat.head? = some 37) (he : ¬ pat.getLast? = some 37) :
    matcherKind pat = .exact := by simp [matcherKind, hs, he]

theorem like_correct (pat s : Bytes) :
    runMatcher (matcherKind pat) (trimPercent pat) s = true ↔ Matches pat s := by
  rw [← core_eq_trimPercent]
  unfold Matches
  by_cases hs : pat.head? = some 37 <;> by_cases he : pat.getLast? = some 37
  · rw [matcherKind_tt hs he]
    simp only [hs, he, runMatcher, not_true, false_implies, and_true]
    exact isInfix_iff _ _
  · rw [matcherKind_tf hs he]
    simp only [hs, he, runMatcher, not_true, not_false_eq_true, false_implies, true_implies, true_and]
    rw [isSuffixOf_iff]; constructor
    · rintro ⟨pre, h⟩; exact ⟨pre, [], by simp [h], rfl⟩
    · rintro ⟨pre, suf, h, rfl⟩; exact ⟨pre, by simpa using h⟩
  · rw [matcherKind_ft hs he]
    simp only [hs, he, runMatcher, not_true, not_false_eq_true, false_implies, true_implies, and_true]
    rw [isPrefixOf_iff]; constructor
    · rintro ⟨suf, h⟩; exact ⟨[], suf, by simp [h], rfl⟩
    · rintro ⟨pre, suf, h, rfl⟩; exact ⟨suf, by simpa using h⟩
  · rw [matcherKind_ff hs he]
    simp only [hs, he, runMatcher, not_false_eq_true, true_implies, beq_iff_eq]
    constructor
    · rintro h; exact ⟨[], [], by simp [h], rfl, rfl⟩
    · rintro ⟨pre, suf, h, rfl, rfl⟩; simpa using h

/-! ## 4. the driver's rule is this mirror -/

def upOf (st : LState) : Char → Char := fun c =>
  match st.upper.find? (·.1 == c.toNat) with
  | some (_, u) => Char.ofNat u
  | none => c

def upperSpec (st : LState) (s : Bytes) : Bytes := U.spec (upOf st) (decodeAll s)

def hasMeta (pat : Bytes) : Bool := pat.any (fun c => metaChars.contains c)

def kindName : Kind → String
  | .exact => "Exact" | .prefix => "Prefix" | .suffix => "Suffix" | .contains => "Contains"

/-- Go: `matchString` is `trimPercent(comparatee)` for the three fuzzy matchers and `comparatee` itself for Exact. -/
def matchString (k : Kind) (p : Bytes) : Bytes := match k with | .exact => p | _ => trimPercent p

theorem trimPercent_of_exact {pat : Bytes} (h : matcherKind pat = .exact) : trimPercent pat = pat := by
  by_cases hs : pat.head? = some 37 <;> by_cases he : pat.getLast? = some 37
  · rw [matcherKind_tt hs he] at h; cases h
  · rw [matcherKind_tf hs he] at h; cases h
  · rw [matcherKind_ft hs he] at h; cases h
  · rw [trimPercent_eq]; simp [hs, he]

theorem matchString_eq (pat : Bytes) : matchString (matcherKind pat) pat = trimPercent pat := by
  unfold matchString
  split
  · rename_i h; exact (trimPercent_of_exact h).symm
  · rfl


theorem likeRule_cs (st : LState) (pat : Bytes) (hm : hasMeta pat = false) :
    likeRule st pat true =
      (kindName (matcherKind pat), fun c => some (runMatcher (matcherKind pat) (matchString (matcherKind pat) pat) c)) := by
  unfold hasMeta at hm
  unfold likeRule
  simp only [hm]
  by_cases hs : pat.head? = some 37 <;> by_cases he : pat.getLast? = some 37
  · rw [matcherKind_tt hs he]
    simp [hs, he, runMatcher, matchString, kindName]
  · rw [matcherKind_tf hs he]
    simp [hs, he, runMatcher, matchString, kindName]
    rfl
  · rw [matcherKind_ft hs he]
    simp [hs, he, runMatcher, matchString, kindName]
  · rw [matcherKind_ff hs he]
    simp [hs, he, runMatcher, matchString, kindName]

theorem likeRule_ci (st : LState) (pat : Bytes) (hm : hasMeta pat = false) :
    likeRule st pat false =
      ("CI" ++ kindName (matcherKind pat), fun c => some (runMatcher (matcherKind pat)
          (matchString (matcherKind pat) (upperSpec st pat)) (upperSpec st c))) := by
  unfold hasMeta at hm
  unfold likeRule
  simp only [hm]
  by_cases hs : pat.head? = some 37 <;> by_cases he : pat.getLast? = some 37
  · rw [matcherKind_tt hs he]
    simp [hs, he, runMatcher, matchString, kindName]
    rfl
  · rw [matcherKind_tf hs he]
    simp [hs, he, runMatcher, matchString, kindName]
    rfl
  · rw [matcherKind_ft hs he]
    simp [hs, he, runMatcher, matchString, kindName]
    rfl
  · rw [matcherKind_ff hs he]
    simp [hs, he, runMatcher, matchString, kindName]
    rfl

/-! ## UTF-8 facts about byte 37 ('%') -/

theorem char_eq_pct (c : Char) : c = '%' ↔ c.toNat = 37 := by
  constructor
  · rintro rfl; rfl
  · intro h
    apply Char.ext
    apply UInt32.toNat_inj.mp
    exact h

theorem toNat_ofNat_of_valid (n : Nat) (h : n.isValidChar) : (Char.ofNat n).toNat = n := by
  unfold Char.ofNat
  simp only [h, dite_true]
  simp [Char.ofNatAux, Char.toNat]

theorem ofNat_eq_pct (n : Nat) : Char.ofNat n = '%' ↔ n = 37 := by
  constructor
  · intro h
    by_cases hv : n.isValidChar
    · have := toNat_ofNat_of_valid n hv
      rw [h] at this; exact this.symm
    · unfold Char.ofNat at h
      simp only [hv, dite_false] at h
      exact absurd h (by decide)
  · rintro rfl; rfl

theorem enc_ne_nil (c : Char) : U.enc c ≠ [] := by
  unfold U.enc String.utf8EncodeChar
  simp only
  split
  · simp
  · split
    · simp
    · split <;> simp

theorem u8_ofNat_eq37 (n : Nat) : UInt8.ofNat n = 37 ↔ n % 256 = 37 := by
  rw [← UInt8.toNat_inj]; simp

theorem enc_head (c : Char) : (U.enc c).head? = some 37 ↔ c = '%' := by
  rw [char_eq_pct]
  show (String.utf8EncodeChar c).head? = some 37 ↔ c.val.toNat = 37
  unfold String.utf8EncodeChar
  simp only
  generalize c.val.toNat = v
  split
  · simp only [List.head?_cons, Option.some.injEq, u8_ofNat_eq37]; omega
  · split
    · simp only [List.head?_cons, Option.some.injEq, u8_ofNat_eq37]; omega
    · split <;> (simp only [List.head?_cons, Option.some.injEq, u8_ofNat_eq37]; omega)

theorem enc_last (c : Char) : (U.enc c).getLast? = some 37 ↔ c = '%' := by
  rw [char_eq_pct]
  show (String.utf8EncodeChar c).getLast? = some 37 ↔ c.val.toNat = 37
  unfold String.utf8EncodeChar
  simp only
  generalize c.val.toNat = v
  split
  · simp only [List.getLast?_singleton, Option.some.injEq, u8_ofNat_eq37]; omega
  · split
    · simp only [List.getLast?_cons_cons, List.getLast?_singleton, Option.some.injEq, u8_ofNat_eq37]; omega
    · split <;> (simp only [List.getLast?_cons_cons, List.getLast?_singleton, Option.some.injEq, u8_ofNat_eq37]; omega)

theorem decodeRune_cons (b : UInt8) (rest : Bytes) :
    ∃ r mid tl, rest = mid ++ tl ∧ Json.decodeRune (b :: rest) = (r, mid.length + 1) ∧
      (r = 37 ↔ b = 37) ∧ (∀ x ∈ mid, x ≠ 37) ∧ (mid ≠ [] → b ≠ 37) := by
  have e37 : ∀ x : UInt8, x = 37 ↔ x.toNat = 37 := by
    intro x; rw [← UInt8.toNat_inj]; rfl
  unfold Json.decodeRune
  simp only
  split
  · rename_i h
    refine ⟨_, [], rest, rfl, rfl, ?_, by simp, by simp⟩
    rw [e37]
  · rename_i h
    have hb : b ≠ 37 := by
      rw [Ne, e37]; rw [UInt8.lt_iff_toNat_lt] at h; simp at h; omega
    have inv : ∃ r mid tl, rest = mid ++ tl ∧ ((0xFFFD, 1) : Nat × Nat) = (r, mid.length + 1) ∧
      (r = 37 ↔ b = 37) ∧ (∀ x ∈ mid, x ≠ 37) ∧ (mid ≠ [] → b ≠ 37) :=
      ⟨_, [], rest, rfl, rfl, by simp [hb], by simp, by simp⟩
    rw [Ne, e37] at hb
    have hb' : b ≠ 37 := by rw [Ne, e37]; exact hb
    rw [UInt8.lt_iff_toNat_lt] at h
    repeat' split
    all_goals first
      | exact inv
      | clear inv
    any_goals (refine ⟨_, [_], _, rfl, rfl, ?_, ?_, fun _ => hb'⟩ <;> simp_all [UInt8.le_iff_toNat_le] <;> omega)
    any_goals (refine ⟨_, [_, _], _, rfl, rfl, ?_, ?_, fun _ => hb'⟩ <;> simp_all [UInt8.le_iff_toNat_le] <;> omega)
    any_goals (refine ⟨_, [_, _, _], _, rfl, rfl, ?_, ?_, fun _ => hb'⟩ <;> simp_all [UInt8.le_iff_toNat_le] <;> omega)
    · rename_i h224 _ _
      have : b.toNat ≠ 224 := fun e => h224 (by rw [beq_iff_eq, ← UInt8.toNat_inj]; exact e)
      refine ⟨_, [_, _], _, rfl, rfl, ?_, ?_, fun _ => hb'⟩ <;> simp_all [UInt8.le_iff_toNat_le] <;> omega
    · rename_i h240 _ _
      have : b.toNat ≠ 240 := fun e => h240 (by rw [beq_iff_eq, ← UInt8.toNat_inj]; exact e)
      refine ⟨_, [_, _, _], _, rfl, rfl, ?_, ?_, fun _ => hb'⟩ <;> simp_all [UInt8.le_iff_toNat_le] <;> omega

theorem go_step (b : UInt8) (rest : Bytes) :
    ∃ c mid tl, rest = mid ++ tl ∧
      (∀ fuel acc, decodeAll.go (fuel + 1) (b :: rest) acc = decodeAll.go fuel tl (c :: acc)) ∧
      (c = '%' ↔ b = 37) ∧ (∀ x ∈ mid, x ≠ 37) ∧ (mid ≠ [] → b ≠ 37) := by
  obtain ⟨r, mid, tl, e, hd, h1, h2, h3⟩ := decodeRune_cons b rest
  refine ⟨Char.ofNat r, mid, tl, e, ?_, by rw [ofNat_eq_pct]; exact h1, h2, h3⟩
  intro fuel acc
  have : max (mid.length + 1) 1 = mid.length + 1 := by omega
  rw [decodeAll.go]
  · simp only [hd]
    rw [this, e]
    simp
  · simp

theorem go_acc : ∀ (fuel : Nat) (s : Bytes) (acc : List Char),
    decodeAll.go fuel s acc = acc.reverse ++ decodeAll.go fuel s [] := by
  intro fuel
  induction fuel with
  | zero => intro s acc; simp [decodeAll.go]
  | succ n ih =>
    intro s acc
    cases s with
    | nil => simp [decodeAll.go]
    | cons b rest =>
      obtain ⟨c, mid, tl, e, hs, -⟩ := go_step b rest
      rw [hs, hs, ih tl (c :: acc), ih tl [c]]
      simp

theorem go_cons (b : UInt8) (rest : Bytes) :
    ∃ c mid tl, rest = mid ++ tl ∧
      (∀ fuel, decodeAll.go (fuel + 1) (b :: rest) [] = c :: decodeAll.go fuel tl []) ∧
      (c = '%' ↔ b = 37) ∧ (∀ x ∈ mid, x ≠ 37) ∧ (mid ≠ [] → b ≠ 37) := by
  obtain ⟨c, mid, tl, e, hs, h⟩ := go_step b rest
  refine ⟨c, mid, tl, e, ?_, h⟩
  intro fuel; rw [hs, go_acc]; rfl

theorem getLast?_cons_ne {α} (a : α) {l : List α} (h : l ≠ []) : (a :: l).getLast? = l.getLast? := by
  cases l with
  | nil => exact absurd rfl h
  | cons b t => exact List.getLast?_cons_cons

theorem getLast?_append_ne {α} (l : List α) {l' : List α} (h : l' ≠ []) : (l ++ l').getLast? = l'.getLast? := by
  rw [List.getLast?_append, List.getLast?_eq_some_getLast h]; rfl

theorem getLast?_ne_of_forall {l : Bytes} (h : ∀ x ∈ l, x ≠ 37) : l.getLast? ≠ some 37 := by
  intro e
  exact h 37 (List.mem_of_mem_getLast? (by rw [e]; exact rfl)) rfl

theorem go_props : ∀ (fuel : Nat) (s : Bytes), s.length < fuel →
    ((decodeAll.go fuel s [] = [] ↔ s = []) ∧
     ((decodeAll.go fuel s []).head? = some '%' ↔ s.head? = some 37) ∧
     ((decodeAll.go fuel s []).getLast? = some '%' ↔ s.getLast? = some 37)) := by
  intro fuel
  induction fuel with
  | zero => intro s h; omega
  | succ n ih =>
    intro s hlen
    cases s with
    | nil => simp [decodeAll.go]
    | cons b rest =>
      obtain ⟨c, mid, tl, e, hs, hc, hmid, hb⟩ := go_cons b rest
      rw [hs]
      subst e
      have hl : tl.length < n := by simp at hlen; omega
      obtain ⟨i1, -, i3⟩ := ih tl hl
      refine ⟨by simp, by simp [hc], ?_⟩
      by_cases htl : tl = []
      · subst htl
        have : decodeAll.go n [] [] = [] := i1.mpr rfl
        rw [this]
        by_cases hm : mid = []
        · subst hm; simp [hc]
        · have hcn : c ≠ '%' := fun h => hb hm (hc.mp h)
          simp only [List.getLast?_singleton, Option.some.injEq, hcn, false_iff, List.append_nil]
          rw [getLast?_cons_ne b hm]
          exact getLast?_ne_of_forall hmid
      · have hne : decodeAll.go n tl [] ≠ [] := fun h => htl (i1.mp h)
        rw [getLast?_cons_ne c hne, getLast?_cons_ne b (by simp [htl]), getLast?_append_ne mid htl]
        exact i3

/-! ## upper-casing and the % flags -/

theorem decodeAll_nil_iff (s : Bytes) : decodeAll s = [] ↔ s = [] :=
  (go_props _ s (Nat.lt_succ_self _)).1

theorem decodeAll_head (s : Bytes) : (decodeAll s).head? = some '%' ↔ s.head? = some 37 :=
  (go_props _ s (Nat.lt_succ_self _)).2.1

theorem decodeAll_last (s : Bytes) : (decodeAll s).getLast? = some '%' ↔ s.getLast? = some 37 :=
  (go_props _ s (Nat.lt_succ_self _)).2.2

theorem head?_flatMap_enc (l : List Char) :
    (l.flatMap U.enc).head? = l.head?.bind (fun c => (U.enc c).head?) := by
  cases l with
  | nil => rfl
  | cons a t =>
    rw [List.flatMap_cons, List.head?_append]
    cases h : U.enc a with
    | nil => exact absurd h (enc_ne_nil a)
    | cons x y => simp [h]

theorem flatMap_enc_ne_nil {l : List Char} (h : l ≠ []) : l.flatMap U.enc ≠ [] := by
  cases l with
  | nil => exact absurd rfl h
  | cons a t =>
    rw [List.flatMap_cons]
    intro e
    exact enc_ne_nil a (List.append_eq_nil_iff.mp e).1

theorem getLast?_flatMap_enc (l : List Char) :
    (l.flatMap U.enc).getLast? = l.getLast?.bind (fun c => (U.enc c).getLast?) := by
  induction l with
  | nil => rfl
  | cons a t ih =>
    by_cases ht : t = []
    · subst ht; simp
    · rw [List.flatMap_cons, getLast?_append_ne _ (flatMap_enc_ne_nil ht), getLast?_cons_ne a ht, ih]

/-- The case mapping fixes '%' and maps nothing else to '%'. Needed to move the test "pattern starts / ends with %"
    across upper-casing: Go computes `fuzzyStart/fuzzyEnd` on the ORIGINAL pattern but trims the UPPER-CASED one.
    (Unicode's ToUpper satisfies it; the driver's table `st.upper` is an arbitrary oracle, hence the hypothesis.) -/
def PctStable (up : Char → Char) : Prop := ∀ c, up c = '%' ↔ c = '%'

def upper (up : Char → Char) (s : Bytes) : Bytes := U.spec up (decodeAll s)

theorem upperSpec_eq (st : LState) (s : Bytes) : upperSpec st s = upper (upOf st) s := rfl

theorem upper_head {up : Char → Char} (hup : PctStable up) (s : Bytes) :
    (upper up s).head? = some 37 ↔ s.head? = some 37 := by
  unfold upper U.spec
  rw [head?_flatMap_enc, List.head?_map, ← decodeAll_head]
  cases (decodeAll s).head? with
  | none => simp
  | some c => simp [enc_head, hup c]

theorem upper_last {up : Char → Char} (hup : PctStable up) (s : Bytes) :
    (upper up s).getLast? = some 37 ↔ s.getLast? = some 37 := by
  unfold upper U.spec
  rw [getLast?_flatMap_enc, List.getLast?_map, ← decodeAll_last]
  cases (decodeAll s).getLast? with
  | none => simp
  | some c => simp [enc_last, hup c]

theorem matcherKind_congr {p q : Bytes} (h1 : p.head? = some 37 ↔ q.head? = some 37)
    (h2 : p.getLast? = some 37 ↔ q.getLast? = some 37) : matcherKind p = matcherKind q := by
  by_cases hs : q.head? = some 37 <;> by_cases he : q.getLast? = some 37
  · rw [matcherKind_tt hs he, matcherKind_tt (h1.mpr hs) (h2.mpr he)]
  · rw [matcherKind_tf hs he, matcherKind_tf (h1.mpr hs) (fun h => he (h2.mp h))]
  · rw [matcherKind_ft hs he, matcherKind_ft (fun h => hs (h1.mp h)) (h2.mpr he)]
  · rw [matcherKind_ff hs he, matcherKind_ff (fun h => hs (h1.mp h)) (fun h => he (h2.mp h))]

theorem matcherKind_upper {up : Char → Char} (hup : PctStable up) (pat : Bytes) :
    matcherKind (upper up pat) = matcherKind pat :=
  matcherKind_congr (upper_head hup pat) (upper_last hup pat)

/-- Mirror of the case-insensitive Go matcher: kind chosen on the original pattern, `matchString` computed from the
    upper-cased pattern (strings.ToUpper = the specification), the cell upper-cased by the custom `ToUpper`
    (`U.toUpper`, buffer of `bufLen` bytes). -/
def ciMatch (up : Char → Char) (bufLen : Nat) (pat c : Bytes) : Bool :=
  runMatcher (matcherKind pat) (matchString (matcherKind pat) (upper up pat)) (U.toUpper up bufLen (decodeAll c))

theorem ciMatch_eq {up : Char → Char} (hup : PctStable up) (bufLen : Nat) (pat c : Bytes) :
    ciMatch up bufLen pat c = runMatcher (matcherKind (upper up pat)) (trimPercent (upper up pat)) (upper up c) := by
  unfold ciMatch
  rw [U.toUpper_spec', ← matcherKind_upper hup pat, matchString_eq]
  rfl

/-- 5. the CI matcher answers `Matches (upper pat) (upper s)` -/
theorem ilike_correct {up : Char → Char} (hup : PctStable up) (bufLen : Nat) (pat s : Bytes) :
    ciMatch up bufLen pat s = true ↔ Matches (upper up pat) (upper up s) := by
  rw [ciMatch_eq hup, like_correct]

/-- 4 (cs = true): the driver's rule is the mirror, and by 3 the declarative meaning. -/
theorem likeRule_like (st : LState) (pat c : Bytes) (hm : hasMeta pat = false) :
    (likeRule st pat true).1 = kindName (matcherKind pat) ∧
    (likeRule st pat true).2 c = some (runMatcher (matcherKind pat) (trimPercent pat) c) := by
  rw [likeRule_cs st pat hm, matchString_eq]
  exact ⟨rfl, rfl⟩

theorem likeRule_like_correct (st : LState) (pat c : Bytes) (hm : hasMeta pat = false) :
    (likeRule st pat true).2 c = some true ↔ Matches pat c := by
  rw [(likeRule_like st pat c hm).2, ← like_correct]
  simp

/-- 4 (cs = false): the driver's rule is the CI mirror (for every buffer size of the custom ToUpper). -/
theorem likeRule_ilike (st : LState) (bufLen : Nat) (pat c : Bytes) (hm : hasMeta pat = false) :
    (likeRule st pat false).1 = "CI" ++ kindName (matcherKind pat) ∧
    (likeRule st pat false).2 c = some (ciMatch (upOf st) bufLen pat c) := by
  rw [likeRule_ci st pat hm]
  refine ⟨rfl, ?_⟩
  unfold ciMatch
  rw [U.toUpper_spec']
  rfl

theorem likeRule_ilike_trim (st : LState) (pat c : Bytes) (hm : hasMeta pat = false) (hup : PctStable (upOf st)) :
    (likeRule st pat false).2 c =
      some (runMatcher (matcherKind (upperSpec st pat)) (trimPercent (upperSpec st pat)) (upperSpec st c)) := by
  rw [(likeRule_ilike st 10 pat c hm).2, ciMatch_eq hup]
  rfl

theorem likeRule_ilike_correct (st : LState) (pat c : Bytes) (hm : hasMeta pat = false) (hup : PctStable (upOf st)) :
    (likeRule st pat false).2 c = some true ↔ Matches (upperSpec st pat) (upperSpec st c) := by
  rw [likeRule_ilike_trim st pat c hm hup, ← like_correct]
  simp

/-! ## examples -/

/-- "%" matches everything -/
example (s : Bytes) : Matches [37] s := ⟨s, [], by simp [core], by simp, by simp⟩
example (s : Bytes) : runMatcher (matcherKind [37]) (trimPercent [37]) s = true := (like_correct _ _).mpr ⟨s, [], by simp [core], by simp, by simp⟩
/-- "%%" also matches everything (core "") -/
example (s : Bytes) : Matches [37, 37] s := ⟨s, [], by simp [core], by simp, by simp⟩
/-- "" matches only "" -/
example (s : Bytes) : Matches [] s ↔ s = [] := by simp [Matches, core]
/-- "a%b": the inner % is literal, the match is equality with the three bytes -/
example (s : Bytes) : Matches [97, 37, 98] s ↔ s = [97, 37, 98] := by simp [Matches, core]
example : matcherKind [97, 37, 98] = .exact ∧ trimPercent [97, 37, 98] = [97, 37, 98] := by decide

-- "%ab" (suffix), "ab%" (prefix), "%ab%" (contains) on a few strings; x = 120
example : matcherKind [37, 97, 98] = .suffix ∧ trimPercent [37, 97, 98] = [97, 98] := by decide
example : runMatcher (matcherKind [37, 97, 98]) (trimPercent [37, 97, 98]) [120, 97, 98] = true := by decide
example : runMatcher (matcherKind [37, 97, 98]) (trimPercent [37, 97, 98]) [97, 98] = true := by decide
example : runMatcher (matcherKind [37, 97, 98]) (trimPercent [37, 97, 98]) [97, 98, 120] = false := by decide
example : runMatcher (matcherKind [37, 97, 98]) (trimPercent [37, 97, 98]) [120, 65, 98] = false := by decide
example : matcherKind [97, 98, 37] = .prefix ∧ trimPercent [97, 98, 37] = [97, 98] := by decide
example : runMatcher (matcherKind [97, 98, 37]) (trimPercent [97, 98, 37]) [97, 98, 120] = true := by decide
example : runMatcher (matcherKind [97, 98, 37]) (trimPercent [97, 98, 37]) [120, 97, 98] = false := by decide
example : runMatcher (matcherKind [97, 98, 37]) (trimPercent [97, 98, 37]) [97] = false := by decide
example : matcherKind [37, 97, 98, 37] = .contains ∧ trimPercent [37, 97, 98, 37] = [97, 98] := by decide
example : runMatcher (matcherKind [37, 97, 98, 37]) (trimPercent [37, 97, 98, 37]) [120, 97, 98, 120] = true := by decide
example : runMatcher (matcherKind [37, 97, 98, 37]) (trimPercent [37, 97, 98, 37]) [97, 98] = true := by decide
example : runMatcher (matcherKind [37, 97, 98, 37]) (trimPercent [37, 97, 98, 37]) [97, 120, 98] = false := by decide
example : runMatcher (matcherKind [37, 97, 98, 37]) (trimPercent [37, 97, 98, 37]) [] = false := by decide
/-- hence, by `like_correct`, the declarative statement -/
example : Matches [37, 97, 98, 37] [120, 97, 98, 120] := (like_correct _ _).mp (by decide)
example : ¬ Matches [37, 97, 98] [97, 98, 120] := fun h => absurd ((like_correct _ _).mpr h) (by decide)

/-- The hypotheses are satisfiable: an ASCII upper-casing table a→A, b→B is `PctStable`, the pattern "%ab" has no
    metacharacters, and the driver's rule for ilike accepts the cell "xAb". -/
def stAB : LState := { upper := [(97, 65), (98, 66)] }

example : hasMeta [37, 97, 98] = false := by decide +kernel

theorem stAB_stable : PctStable (upOf stAB) := by
  intro c
  rw [char_eq_pct, char_eq_pct]
  unfold upOf stAB
  simp only [List.find?]
  by_cases h1 : c.toNat = 97
  · simp [h1]
  · by_cases h2 : c.toNat = 98
    · simp [h2]
    · have e1 : (97 == c.toNat) = false := by simp; omega
      have e2 : (98 == c.toNat) = false := by simp; omega
      simp [e1, e2]

example : (likeRule stAB [37, 97, 98] false).2 [120, 65, 98] = some true := by decide +kernel
example : Matches (upperSpec stAB [37, 97, 98]) (upperSpec stAB [120, 65, 98]) :=
  (likeRule_ilike_correct stAB _ _ (by decide +kernel) stAB_stable).mp (by decide +kernel)


/-- Without `PctStable` the CI statement is false: if the case mapping sends 'x' to '%', the pattern "xab" gets the
    Exact matcher with matchString "%ab" and rejects "zab", whereas `Matches "%ab" "zab"` holds. -/
def upBad : Char → Char := fun c => if c = 'x' then '%' else c

theorem notStable_counterexample :
    ¬ (ciMatch upBad 10 [120, 97, 98] [122, 97, 98] = true ↔
        Matches (upper upBad [120, 97, 98]) (upper upBad [122, 97, 98])) := by
  rw [← like_correct]
  decide +kernel

#print axioms like_correct
#print axioms isInfix_iff
#print axioms likeRule_like
#print axioms likeRule_like_correct
#print axioms likeRule_ilike
#print axioms likeRule_ilike_trim
#print axioms likeRule_ilike_correct
#print axioms ilike_correct
#print axioms matcherKind_upper
#print axioms notStable_counterexample
#print axioms stAB_stable

end QF.Props.C18Like
