import QF.Props.C07Eval
import QF.Props.C07Functions
/-!
# C07 — from the frame mirror to the denotational spec: definitions and the per-node steps

Support for QF/Props/C07EndToEnd.lean (the statements are there).  Contents:

1. the abstraction of a mirror frame `Fr.Frame` to a logical frame `QF.LFrame` (`absL`), of a mirror value to a cell
   (`cellOf`), of the mirror's expression type `Ex'` to the spec's `EArg` (`toSpec`);
2. the spec's denotation written node by node (`d1`, `d2`, `den_x1`, `den_x2`);
3. what the three computed columns hold (`constCol_cells`, `applyFn1_cells`, `col2_cells`);
4. `Sem`: what one `execute` step leaves behind, and the two generic steps `unary_step`, `colcol_step`
   (an operand column looked up in the current frame, the function looked up in the context, the temp column
   appended, the intermediate temporaries dropped).
-/
namespace QF.Props.C07EndToEnd
open Fr QF QF.Props.C08 QF.Props.C07Eval

/-! ## 1. abstraction -/

def tyC : Ty → CType
  | .int => .int | .float => .float | .bool => .bool | .str => .string | .enum => .enum

/-- a value of the frame mirror as the spec's cell (the mirror's enum cells carry no value table: see `opnd`) -/
def cellOf : Fr.Val → Cell
  | .int v => .int v | .float b => .float b | .bool b => .bool b | .str s => .str s | .enum _ => .str none

/-- a cell read through the row index (`none` does not occur in a well-formed frame) -/
def ocell : Option Fr.Val → Cell
  | some v => cellOf v
  | none => .str none

/-- one entry of `Frame.abs` as a logical column; `enc`: the mirror's names as the spec's byte strings -/
def entryCol (enc : String → Bytes) (e : Entry) : LCol :=
  { name := enc e.1, ty := tyC e.2.1, cells := (e.2.2.map ocell).toArray }

/-- … and as a computed column of the spec -/
def valL (e : Entry) : QF.Val := { ty := tyC e.2.1, cells := (e.2.2.map ocell).toArray }

/-- the logical frame a mirror frame stands for -/
def absL (enc : String → Bytes) (f : Frame) : LFrame := { cols := f.abs.map (entryCol enc), n := f.index.length }

/-- the outcome a mirror frame stands for -/
def resL (enc : String → Bytes) (f : Frame) : Res := if f.err.isSome then .err else .ok (absL enc f)

/-- the mirror's expression as the spec's -/
def toSpec (enc : String → Bytes) : Ex' → EArg
  | .col n => .col (enc n)
  | .const v => .val (cellOf v)
  | .unary op s => .x op [.col (enc s)]
  | .colConst op s v false => .x op [.col (enc s), .val (cellOf v)]
  | .colConst op s v true => .x op [.val (cellOf v), .col (enc s)]
  | .colCol op a b => .x op [.col (enc a), .col (enc b)]
  | .ex1 op e => .x op [toSpec enc e]
  | .ex2 op l r => .x op [toSpec enc l, toSpec enc r]
  | .error => .bad

/-- no constant of the expression is an enum value of the mirror (the decoder builds none) -/
def noEnumConst : Ex' → Bool
  | .const (.enum _) => false
  | .colConst _ _ (.enum _) _ => false
  | .ex1 _ e => noEnumConst e
  | .ex2 _ l r => noEnumConst l && noEnumConst r
  | _ => true

def isCol : Ex' → Bool
  | .col _ => true
  | _ => false

/-- a name `tempColName` can return -/
def IsTemp (t : String) : Prop := ∃ pre, (pre = "const" ∨ pre = "unary" ∨ pre = "colcol") ∧ ∃ k, t = tempName pre k

/-- The expression does not refer to a column that is not in the frame under a name `execute` may give to a temporary.
(Such a reference could be satisfied by the temporary of a sibling sub-expression — the finding of C07EndToEnd.lean. Since the
repair `Eval` rejects every reference that is not a column of the frame before it executes anything, so this holds whenever
`execute'` runs under `eval'`: `noCapture_of_present`.) -/
def NoCapture (f : Frame) (e : Ex') : Prop := ∀ n, n ∈ refs e → f.byName n = none → ¬ IsTemp n

/-- `F` is what the mirror frame `f` shows under the names the expression refers to -/
def Agree (enc : String → Bytes) (f : Frame) (F : LFrame) (e : Ex') : Prop :=
  F.n = f.index.length ∧ ∀ n, n ∈ refs e → F.find? (enc n) = (absLookup f.abs n).map (entryCol enc)

theorem noCapture_of_present {f : Frame} {e : Ex'} (h : ∀ n, n ∈ refs e → (f.byName n).isSome = true) :
    NoCapture f e := by
  intro n hn hb
  have := h n hn
  rw [hb] at this
  cases this

theorem tyC_inj {a b : Ty} (h : tyC a = tyC b) : a = b := by
  cases a <;> cases b <;> simp [tyC] at h <;> rfl

theorem find_map_entryCol (enc : String → Bytes) (henc : ∀ a b, enc a = enc b → a = b) (l : List Entry) (n : String) :
    (l.map (entryCol enc)).find? (fun c => c.name == enc n) = (absLookup l n).map (entryCol enc) := by
  unfold absLookup
  induction l with
  | nil => rfl
  | cons e l ih =>
    simp only [List.map_cons, List.find?_cons]
    by_cases h : e.1 = n
    · have h1 : (e.1 == n) = true := by simpa using h
      have h2 : ((entryCol enc e).name == enc n) = true := by simp [entryCol, h]
      rw [h1, h2]; rfl
    · have h1 : (e.1 == n) = false := by simpa using h
      have h2 : ((entryCol enc e).name == enc n) = false := by
        have : enc e.1 ≠ enc n := fun hh => h (henc _ _ hh)
        simpa [entryCol] using this
      rw [h1, h2]; exact ih

theorem find_absL (enc : String → Bytes) (henc : ∀ a b, enc a = enc b → a = b) (f : Frame) (n : String) :
    (absL enc f).find? (enc n) = (absLookup f.abs n).map (entryCol enc) := by
  unfold absL LFrame.find?
  exact find_map_entryCol enc henc f.abs n

theorem agree_self (enc : String → Bytes) (henc : ∀ a b, enc a = enc b → a = b) (f : Frame) (e : Ex') :
    Agree enc f (absL enc f) e := ⟨rfl, fun n _ => find_absL enc henc f n⟩

/-! ## 2. the spec's denotation, node by node -/

def dcol (F : LFrame) (n : Bytes) : Option QF.Val :=
  (F.find? n).map (fun c => { ty := c.ty, vals := c.vals, strict := c.strict, cells := c.cells })

def dval (F : LFrame) (c : Cell) : Option QF.Val := some { ty := cellType c, cells := (List.replicate F.n c).toArray }

def d1 (s : String) (op : String) : Option QF.Val → Option QF.Val
  | none => none
  | some v => match evalUnary s op v.ty with
    | none => none
    | some (rt, g) => some { ty := rt, cells := v.cells.map g }

def d2 (s : String) (n : Nat) (op : String) : Option QF.Val → Option QF.Val → Option QF.Val
  | none, _ => none
  | some _, none => none
  | some v, some w =>
    if v.ty != w.ty then none else
    match evalBinary s op v.ty with
    | none => none
    | some g => some { ty := fkind v.ty, cells := ((List.range n).map (fun r => g v.cells[r]! w.cells[r]!)).toArray }

theorem den_col (s : String) (F : LFrame) (n : Bytes) : (EArg.col n).den s F = dcol F n := by
  rw [EArg.den]; rfl

theorem den_val (s : String) (F : LFrame) (c : Cell) : (EArg.val c).den s F = dval F c := by
  rw [EArg.den]; rfl

theorem den_bad (s : String) (F : LFrame) : EArg.bad.den s F = none := by
  rw [EArg.den]

theorem den_x1 (s : String) (F : LFrame) (op : String) (a : EArg) :
    (EArg.x op [a]).den s F = d1 s op (a.den s F) := by
  rw [EArg.den, denExpr]
  cases a.den s F with
  | none => rfl
  | some v =>
    simp only [d1]
    cases evalUnary s op v.ty with
    | none => rfl
    | some p => rfl

theorem den_x2 (s : String) (F : LFrame) (op : String) (a b : EArg) :
    (EArg.x op [a, b]).den s F = d2 s F.n op (a.den s F) (b.den s F) := by
  rw [EArg.den]
  simp only [denExpr]
  cases a.den s F with
  | none => rfl
  | some v =>
    simp only []
    rw [denFold]
    cases b.den s F with
    | none => rfl
    | some w =>
      simp only [d2]
      split
      · rfl
      · cases evalBinary s op v.ty with
        | none => rfl
        | some g => simp only [denFold]

theorem d2_none_right (s : String) (n : Nat) (op : String) (o : Option QF.Val) : d2 s n op o none = none := by
  cases o <;> rfl

theorem dcol_none {F : LFrame} {n : Bytes} (h : F.find? n = none) : dcol F n = none := by
  unfold dcol; rw [h]; rfl

/-- a column reference that the logical frame does not have makes the spec's value an error, wherever it stands -/
theorem den_none_of_ref (enc : String → Bytes) (s : String) (F : LFrame) (e : Ex') :
    (∃ n, n ∈ refs e ∧ F.find? (enc n) = none) → (toSpec enc e).den s F = none := by
  induction e with
  | col n =>
    rintro ⟨m, hm, h⟩
    simp only [refs, List.mem_singleton] at hm; subst hm
    simp only [toSpec, den_col, dcol_none h]
  | const v => rintro ⟨m, hm, _⟩; simp [refs] at hm
  | error => rintro ⟨m, hm, _⟩; simp [refs] at hm
  | unary op c =>
    rintro ⟨m, hm, h⟩
    simp only [refs, List.mem_singleton] at hm; subst hm
    simp only [toSpec, den_x1, den_col, dcol_none h]; rfl
  | colConst op c v cf =>
    rintro ⟨m, hm, h⟩
    simp only [refs, List.mem_singleton] at hm; subst hm
    cases cf
    · simp only [toSpec, den_x2, den_col, dcol_none h]; rfl
    · simp only [toSpec, den_x2, den_col, dcol_none h, d2_none_right]
  | colCol op a b =>
    rintro ⟨m, hm, h⟩
    simp only [refs, List.mem_cons, List.not_mem_nil, or_false] at hm
    rcases hm with rfl | rfl
    · simp only [toSpec, den_x2, den_col, dcol_none h]; rfl
    · simp only [toSpec, den_x2, den_col, dcol_none h, d2_none_right]
  | ex1 op e ih =>
    rintro ⟨m, hm, h⟩
    simp only [toSpec, den_x1, ih ⟨m, hm, h⟩]; rfl
  | ex2 op l r ihl ihr =>
    rintro ⟨m, hm, h⟩
    simp only [refs, List.mem_append] at hm
    rcases hm with hm | hm
    · simp only [toSpec, den_x2, ihl ⟨m, hm, h⟩]; rfl
    · simp only [toSpec, den_x2, ihr ⟨m, hm, h⟩, d2_none_right]

/-- the column entry of the frame as the spec's computed column -/
theorem dcol_of_agree {enc : String → Bytes} {f : Frame} {F : LFrame} {e : Ex'} (A : Agree enc f F e)
    {n : String} (hn : n ∈ refs e) : dcol F (enc n) = (absLookup f.abs n).map valL := by
  unfold dcol
  rw [A.2 n hn]
  cases absLookup f.abs n <;> rfl

/-! ## cells in range -/

/-- a cell of a column of type `t` as the functions of a context expect it: of the type's kind, an int a Go `int` -/
def cellOK (t : CType) (c : Cell) : Bool :=
  match fkind t, c with
  | .int, .int v => decide (C07Functions.int64 v)
  | .float, .float _ => true
  | .bool, .bool _ => true
  | .string, .str _ => true
  | _, _ => false

theorem cellOK_cellIn {t : CType} {c : Cell} (h : cellOK t c = true) : C07Functions.cellIn t c := by
  unfold C07Functions.cellIn
  unfold cellOK at h
  cases hk : fkind t <;> cases c <;> simp [hk, C07Functions.cellInK] at h ⊢
  exact h

theorem cellIn_cellOK {t : CType} {c : Cell} (h : C07Functions.cellIn t c) : cellOK t c = true := by
  unfold C07Functions.cellIn at h
  unfold cellOK
  cases hk : fkind t <;> cases c <;> simp [hk, C07Functions.cellInK] at h ⊢
  exact h

/-- An operand of a function application is in the scope of the statement: not an enum column (the frame mirror has no
value tables), not one of the (operand type, operator) pairs `gap` for which the spec deliberately has no function, and
its cells are cells of its type (ints in the range of Go's `int`). -/
def opnd (gap : CType → String → Bool) (op : String) : Option QF.Val → Bool
  | none => true
  | some v => v.ty != .enum && !gap v.ty op && v.cells.all (cellOK v.ty)

/-- every operand of every function application of the expression is in scope (`opnd`), evaluated by the spec on `F` -/
def InScope (enc : String → Bytes) (s : String) (gap : CType → String → Bool) (F : LFrame) : Ex' → Bool
  | .col _ => true
  | .const _ => true
  | .error => true
  | .unary op c => opnd gap op (dcol F (enc c))
  | .colCol op a b => opnd gap op (dcol F (enc a)) && opnd gap op (dcol F (enc b))
  | .colConst op c v _ => opnd gap op (dcol F (enc c)) && opnd gap op (dval F (cellOf v))
  | .ex1 op e => InScope enc s gap F e && opnd gap op ((toSpec enc e).den s F)
  | .ex2 op l r => InScope enc s gap F l && InScope enc s gap F r &&
      opnd gap op ((toSpec enc l).den s F) && opnd gap op ((toSpec enc r).den s F)

theorem opnd_some {gap : CType → String → Bool} {op : String} {v : QF.Val} (h : opnd gap op (some v) = true) :
    v.ty ≠ .enum ∧ gap v.ty op = false ∧ ∀ c, c ∈ v.cells.toList → cellOK v.ty c = true := by
  simp only [opnd, Bool.and_eq_true, bne_iff_ne, ne_eq, Bool.not_eq_true', Array.all_eq_true] at h
  refine ⟨h.1.1, h.1.2, ?_⟩
  intro c hc
  obtain ⟨i, hi, rfl⟩ := List.getElem_of_mem hc
  simpa using h.2 i (by simpa using hi)

/-! ## the evaluation context -/

/-- Every function the mirror's context finds computes the spec's (`evalUnary` / `evalBinary` of the spec's context `s`),
and it finds one exactly when the spec has one — for all operand types and operators outside `gap`, enum columns aside. -/
structure CtxOK (s : String) (ctx : Ctx) (gap : CType → String → Bool) : Prop where
  un : ∀ (t : Ty) (op : String), t ≠ .enum → gap (tyC t) op = false →
    (evalUnary s op (tyC t) = none → ctx.fn1 t op = none) ∧
    (∀ rt g, evalUnary s op (tyC t) = some (rt, g) →
      ∃ rty fn, ctx.fn1 t op = some (rty, fn) ∧ tyC rty = rt ∧
        ∀ v, cellOK (tyC t) (cellOf v) = true → cellOf (fn v) = g (cellOf v))
  bin : ∀ (t : Ty) (op : String), t ≠ .enum → gap (tyC t) op = false →
    (evalBinary s op (tyC t) = none → ctx.fn2 t op = none) ∧
    (∀ g, evalBinary s op (tyC t) = some g →
      ∃ fn, ctx.fn2 t op = some fn ∧
        ∀ u v, cellOK (tyC t) (cellOf u) = true → cellOK (tyC t) (cellOf v) = true →
          cellOf (fn u v) = g (cellOf u) (cellOf v))

/-! ## 3. what the computed columns hold -/

theorem data_some {c : Col} {L p : Nat} (h : c.data.length = L) (hp : p < L) : ∃ u, c.data[p]? = some u :=
  ⟨c.data[p], List.getElem?_eq_getElem (by omega)⟩

theorem constCol_cells (f : Frame) (L : Nat) (wf : WF f L) (hL : physLen f = L) (v : Fr.Val) :
    (f.index.map fun p => (constCol f v).data[p]?).map ocell = List.replicate f.index.length (cellOf v) := by
  rw [List.map_map]
  rw [List.eq_replicate_iff]
  refine ⟨by simp, ?_⟩
  intro b hb
  obtain ⟨p, hp, rfl⟩ := List.mem_map.mp hb
  have := wf.ixLt p hp
  simp [constCol, hL, List.getElem?_replicate, this, ocell]

theorem applyFn1_cells (f : Frame) (L : Nat) (wf : WF f L) (fn : Fr.Val → Fr.Val) (rty : Ty) (src : Col)
    (hs : src.data.length = L) (g : Cell → Cell)
    (hg : ∀ p, p ∈ f.index → ∀ u, src.data[p]? = some u → cellOf (fn u) = g (cellOf u)) :
    (f.index.map fun p => (applyFn1 f L fn rty src).data[p]?).map ocell =
      ((f.index.map fun p => src.data[p]?).map ocell).map g := by
  rw [applyFn1_rowwise f L wf fn rty src hs]
  simp only [List.map_map]
  apply List.map_congr_left
  intro p hp
  obtain ⟨u, hu⟩ := data_some hs (wf.ixLt p hp)
  simp [hu, ocell, hg p hp u hu]

theorem col2_cells (f : Frame) (L : Nat) (wf : WF f L) (hL : physLen f = L) (x y : NCol)
    (hx : x.col.data.length = L) (hy : y.col.data.length = L) (fn : Fr.Val → Fr.Val → Fr.Val) (g : Cell → Cell → Cell)
    (hg : ∀ p, p ∈ f.index → ∀ u v, x.col.data[p]? = some u → y.col.data[p]? = some v →
      cellOf (fn u v) = g (cellOf u) (cellOf v)) :
    (f.index.map fun p => (col2 f x y fn).data[p]?).map ocell =
      (List.range f.index.length).map (fun r =>
        g ((f.index.map fun p => x.col.data[p]?).map ocell).toArray[r]!
          ((f.index.map fun p => y.col.data[p]?).map ocell).toArray[r]!) := by
  apply List.ext_getElem
  · simp
  · intro r h1 h2
    have hr : r < f.index.length := by simpa using h1
    have hp : f.index[r] ∈ f.index := List.getElem_mem hr
    have hlt := wf.ixLt _ hp
    obtain ⟨u, hu⟩ := data_some hx hlt
    obtain ⟨v, hv⟩ := data_some hy hlt
    simp [col2, hL, hlt, hp, hu, hv, hr, ocell, hg _ hp u v hu hv]

/-! ## 4. one `execute` step against the spec's value -/

/-- What `execute` leaves behind, against the spec's value `o` of the expression.  `none`: the frame carries an error.
`some v`: no error; the frame is the original one plus at most one column (none for a column expression, one otherwise),
that column is the one `execute` names, its name is a temp name, and the column `execute` names holds `v`. -/
def Sem (f : Frame) (L : Nat) (col : Bool) (r : Frame × String) : Option QF.Val → Prop
  | none => r.1.err.isSome = true
  | some v => ∃ mid ent, Ext f r.1 L mid ∧ mid.length = (if col then 0 else 1) ∧
      (∀ m, m ∈ mid → m.1 = r.2 ∧ IsTemp m.1) ∧ absLookup r.1.abs r.2 = some ent ∧ valL ent = v

theorem sem_some (f : Frame) (L : Nat) (col : Bool) (g : Frame) (c : String) (v : QF.Val) :
    Sem f L col (g, c) (some v) ↔ ∃ mid ent, Ext f g L mid ∧ mid.length = (if col then 0 else 1) ∧
      (∀ m, m ∈ mid → m.1 = c ∧ IsTemp m.1) ∧ absLookup g.abs c = some ent ∧ valL ent = v := Iff.rfl

theorem sem_none (f : Frame) (L : Nat) (col : Bool) (g : Frame) (c : String) :
    Sem f L col (g, c) none ↔ g.err.isSome = true := Iff.rfl

theorem isSome_of_not_none {α : Type} {o : Option α} (h : o = none → False) : o.isSome = true := by
  cases o with
  | none => exact absurd rfl h
  | some _ => rfl

theorem drop_err_isSome (g : Frame) (D : List String) (h : g.err.isSome = true) : (drop g D).err.isSome = true := by
  rw [drop_of_err g D h]; exact h

theorem absLookup_append_fresh (l : List Entry) (e : Entry) (t : String) (ht : e.1 = t) (h : t ∉ l.map (·.1)) :
    absLookup (l ++ [e]) t = some e := by
  subst ht
  unfold absLookup
  rw [List.find?_append]
  have : l.find? (fun x => x.1 == e.1) = none := by
    rw [List.find?_eq_none]
    intro x hx hxe
    exact h (List.mem_map.mpr ⟨x, hx, by simpa using hxe⟩)
  rw [this]; simp

theorem absLookup_append_left (l m : List Entry) (n : String) (e : Entry) (h : absLookup l n = some e) :
    absLookup (l ++ m) n = some e := by
  unfold absLookup at h ⊢
  rw [List.find?_append, h]; rfl

theorem absLookup_byName {g : Frame} {L : Nat} (wf : WF g L) (u : UniqueNames g) (n : String) :
    absLookup g.abs n = (g.byName n).map (entry g.index) := by
  rw [← lookup_eq_absLookup g L wf u n]; rfl

theorem isTemp_tempColName (g : Frame) (L : Nat) (wf : WF g L) (hlen : g.cols.length < 10000) (pre : String)
    (hpre : pre = "const" ∨ pre = "unary" ∨ pre = "colcol") : IsTemp (tempColName g pre) := by
  obtain ⟨k, _, _, hk, _⟩ := tempColName_fresh g L wf pre hlen
  exact ⟨pre, hpre, k, hk⟩

/-- the common last step: the computed column `c` stored under a fresh temp name on `g2`, the intermediate
temporaries `D` dropped -/
theorem leaf_sem {f g2 : Frame} {L : Nat} {mid : List Entry} (wf : WF f L) (E : Ext f g2 L mid)
    (hlen : g2.cols.length < 10000) (pre : String) (hp : GoodPrefix pre)
    (hpre : pre = "const" ∨ pre = "unary" ∨ pre = "colcol") (c : Col) (hc : c.data.length = L)
    (D : List String) (hD1 : ∀ d, d ∈ D → d ∈ mid.map (·.1)) (hD2 : ∀ m, m ∈ mid → m.1 ∈ D) (v : QF.Val)
    (hv : valL (colEntry g2.index (tempColName g2 pre) c) = v) :
    Sem f L false (drop (execLeaf pre g2 c).1 D, (execLeaf pre g2 c).2) (some v) := by
  have A := execLeaf_plus g2 L E.wf E.uniq E.err hlen pre hp c hc
  have P := ext_finish wf E A.2.1 D hD1 hD2
  rw [sem_some]
  refine ⟨[colEntry g2.index (tempColName g2 pre) c], colEntry g2.index (tempColName g2 pre) c, P.toExt, rfl,
    ?_, ?_, hv⟩
  · intro m hm
    simp only [List.mem_singleton] at hm
    subst hm
    rw [A.1]
    exact ⟨P.name, by rw [P.name]; exact isTemp_tempColName g2 L E.wf hlen pre hpre⟩
  · rw [P.abs, A.1]
    exact absLookup_append_fresh f.abs _ _ P.name (P.fresh_names wf)

theorem mem_cells_valL (ix : List Nat) (c : NCol) (p : Nat) (hp : p ∈ ix) (u : Fr.Val) (hu : c.col.data[p]? = some u) :
    cellOf u ∈ (valL (entry ix c)).cells.toList := by
  simp only [valL, entry, List.map_map]
  exact List.mem_map.mpr ⟨p, hp, by simp [hu, ocell]⟩

/-- **A unary function applied to a column of the current frame.** `g` is the original frame `f` plus the
temporaries `mid`; `c` names the operand; the spec's value of the operand is what `g` holds under `c`. -/
theorem unary_step {s : String} {ctx : Ctx} {gap : CType → String → Bool} (ok : CtxOK s ctx gap)
    {f g : Frame} {L : Nat} {mid : List Entry} (wf : WF f L) (E : Ext f g L mid) (hL : physLen g = L)
    (hlen : g.cols.length < 10000) (op c : String) (D : List String)
    (hD1 : (g.byName c).isSome = true → ∀ d, d ∈ D → d ∈ mid.map (·.1)) (hD2 : ∀ m, m ∈ mid → m.1 ∈ D)
    (o : Option QF.Val) (ho : o = (absLookup g.abs c).map valL) (hs : opnd gap op o = true) :
    Sem f L false (drop (execUnary ctx op c g).1 D, (execUnary ctx op c g).2) (d1 s op o) := by
  rw [absLookup_byName E.wf E.uniq] at ho
  cases hb : g.byName c with
  | none =>
    rw [hb] at ho; subst ho
    exact drop_err_isSome _ _ (isSome_of_not_none fun h => by
      obtain ⟨_, x, _, _, hx, _⟩ := execUnary_ok ctx op c g h
      rw [hb] at hx; cases hx)
  | some sc =>
    rw [hb] at ho
    simp only [Option.map_some] at ho
    subst ho
    obtain ⟨hne, hgap, hcells⟩ := opnd_some hs
    have hty : (valL (entry g.index sc)).ty = tyC sc.col.ty := rfl
    rw [hty] at hne hgap hcells
    have hne' : sc.col.ty ≠ .enum := fun h => hne (by rw [h]; rfl)
    obtain ⟨hnone, hsome⟩ := ok.un sc.col.ty op hne' hgap
    cases hev : evalUnary s op (tyC sc.col.ty) with
    | none =>
      have hd : d1 s op (some (valL (entry g.index sc))) = none := by simp [d1, hty, hev]
      rw [hd]
      exact drop_err_isSome _ _ (isSome_of_not_none fun h => by
        obtain ⟨_, x, rty, fn, hx, hf⟩ := execUnary_ok ctx op c g h
        rw [hb] at hx; cases hx
        rw [hnone hev] at hf; cases hf)
    | some p =>
      obtain ⟨rt, g'⟩ := p
      obtain ⟨rty, fn, hf, hrt, hag⟩ := hsome rt g' hev
      have hd : d1 s op (some (valL (entry g.index sc))) =
          some { ty := rt, cells := (valL (entry g.index sc)).cells.map g' } := by simp [d1, hty, hev]
      rw [hd, execUnary_eq ctx op c g E.err sc hb rty fn hf]
      have hsc : sc.col.data.length = L := E.wf.len sc (byName_mem E.wf hb)
      refine leaf_sem wf E hlen "unary" goodPrefix_unary (.inr (.inl rfl)) _ (by rw [applyFn1_length, hL]) D
        (hD1 (by simp [hb])) hD2 _ ?_
      simp only [valL, colEntry, entry]
      rw [hL, applyFn1_cells g L E.wf fn rty sc.col hsc g' (fun p hp u hu =>
        hag u (hcells _ (mem_cells_valL g.index sc p hp u hu)))]
      simp [applyFn1, hrt]


theorem tyC_ne {a b : Ty} (h : a ≠ b) : (tyC a != tyC b) = true := by
  simpa using fun hh => h (tyC_inj hh)

/-- **A binary function applied to two columns of the current frame.** -/
theorem colcol_step {s : String} {ctx : Ctx} {gap : CType → String → Bool} (ok : CtxOK s ctx gap)
    {f g : Frame} {L : Nat} {mid : List Entry} (wf : WF f L) (E : Ext f g L mid) (hL : physLen g = L)
    (hlen : g.cols.length < 10000) (op a b : String) (D : List String)
    (hD1 : (g.byName a).isSome = true → (g.byName b).isSome = true → ∀ d, d ∈ D → d ∈ mid.map (·.1))
    (hD2 : ∀ m, m ∈ mid → m.1 ∈ D) (n : Nat) (hn : n = g.index.length)
    (o1 o2 : Option QF.Val) (ho1 : o1 = (absLookup g.abs a).map valL) (ho2 : o2 = (absLookup g.abs b).map valL)
    (hs1 : opnd gap op o1 = true) (hs2 : opnd gap op o2 = true) :
    Sem f L false (drop (execColCol ctx op a b g).1 D, (execColCol ctx op a b g).2) (d2 s n op o1 o2) := by
  rw [absLookup_byName E.wf E.uniq] at ho1 ho2
  cases ha : g.byName a with
  | none =>
    rw [ha] at ho1; subst ho1
    exact drop_err_isSome _ _ (isSome_of_not_none fun h => by
      obtain ⟨_, x, _, _, hx, _⟩ := execColCol_ok ctx op a b g h
      rw [ha] at hx; cases hx)
  | some x =>
    cases hb : g.byName b with
    | none =>
      rw [hb] at ho2
      simp only [Option.map_none] at ho2
      subst ho2
      rw [d2_none_right]
      exact drop_err_isSome _ _ (isSome_of_not_none fun h => by
        obtain ⟨_, _, y, _, _, hy, _⟩ := execColCol_ok ctx op a b g h
        rw [hb] at hy; cases hy)
    | some y =>
      rw [ha] at ho1; rw [hb] at ho2
      simp only [Option.map_some] at ho1 ho2
      subst ho1; subst ho2
      have htx : (valL (entry g.index x)).ty = tyC x.col.ty := rfl
      have hty' : (valL (entry g.index y)).ty = tyC y.col.ty := rfl
      by_cases hty : x.col.ty = y.col.ty
      · obtain ⟨hne, hgap, hcx⟩ := opnd_some hs1
        obtain ⟨_, _, hcy⟩ := opnd_some hs2
        rw [htx] at hne hgap hcx
        rw [hty', ← hty] at hcy
        have hne' : x.col.ty ≠ .enum := fun h => hne (by rw [h]; rfl)
        obtain ⟨hnone, hsome⟩ := ok.bin x.col.ty op hne' hgap
        have hfk : fkind (tyC x.col.ty) = tyC x.col.ty := by
          cases h : x.col.ty <;> simp [tyC, fkind] ; exact absurd h hne'
        cases hev : evalBinary s op (tyC x.col.ty) with
        | none =>
          have hev' : evalBinary s op (tyC y.col.ty) = none := hty ▸ hev
          have hd : d2 s n op (some (valL (entry g.index x))) (some (valL (entry g.index y))) = none := by
            simp [d2, htx, hty', hty, hev']
          rw [hd]
          exact drop_err_isSome _ _ (isSome_of_not_none fun h => by
            obtain ⟨_, x', _, fn, hx, _, _, hf⟩ := execColCol_ok ctx op a b g h
            rw [ha] at hx; cases hx
            rw [hnone hev] at hf; cases hf)
        | some g' =>
          obtain ⟨fn, hf, hag⟩ := hsome g' hev
          have hd : d2 s n op (some (valL (entry g.index x))) (some (valL (entry g.index y))) =
              some { ty := tyC x.col.ty,
                     cells := ((List.range n).map (fun r => g' (valL (entry g.index x)).cells[r]!
                        (valL (entry g.index y)).cells[r]!)).toArray } := by
            have hev' : evalBinary s op (tyC y.col.ty) = some g' := hty ▸ hev
            have hfk' : fkind (tyC y.col.ty) = tyC y.col.ty := hty ▸ hfk
            simp [d2, htx, hty', hty, hev', hfk']
          rw [hd, execColCol_eq ctx op a b g E.err x y ha hb hty fn hf]
          have hx : x.col.data.length = L := E.wf.len x (byName_mem E.wf ha)
          have hy : y.col.data.length = L := E.wf.len y (byName_mem E.wf hb)
          refine leaf_sem wf E hlen "colcol" goodPrefix_colcol (.inr (.inr rfl)) _ (by rw [col2_length, hL]) D
            (hD1 (by simp [ha]) (by simp [hb])) hD2 _ ?_
          simp only [valL, colEntry, entry]
          rw [col2_cells g L E.wf hL x y hx hy fn g' (fun p hp u v hu hv =>
            hag u v (hcx _ (mem_cells_valL g.index x p hp u hu)) (hcy _ (mem_cells_valL g.index y p hp v hv))), hn]
          simp [col2]
      · have hd : d2 s n op (some (valL (entry g.index x))) (some (valL (entry g.index y))) = none := by
          simp only [d2, htx, hty', tyC_ne hty, if_true]
        rw [hd]
        exact drop_err_isSome _ _ (isSome_of_not_none fun h => by
          obtain ⟨_, x', y', _, hx, hy, hxy, _⟩ := execColCol_ok ctx op a b g h
          rw [ha] at hx; cases hx
          rw [hb] at hy; cases hy
          exact hty hxy)


/-! ## 5. an operand, as the enclosing expression sees it -/

/-- The result `r` of executing an operand whose spec value is `o`: either the frame carries an error and the spec has
no value, or the frame is the original one plus at most one temp column, and `o` is what the frame holds under the
name returned (no value if there is no such column: a column expression naming an unknown column, one of `R`). -/
def Opd (f : Frame) (L : Nat) (R : List String) (r : Frame × String) (o : Option QF.Val) : Prop :=
  (r.1.err.isSome = true ∧ o = none) ∨
  ∃ mid, Ext f r.1 L mid ∧ mid.length ≤ 1 ∧ (∀ m, m ∈ mid → m.1 = r.2 ∧ IsTemp m.1) ∧
    o = (absLookup r.1.abs r.2).map valL ∧ (mid = [] → r.2 ∈ R)

theorem opd_of_sem {f : Frame} {L : Nat} {R : List String} {r : Frame × String} {o : Option QF.Val}
    (h : Sem f L false r o) : Opd f L R r o := by
  cases o with
  | none => exact .inl ⟨h, rfl⟩
  | some v =>
    obtain ⟨mid, ent, E, hl, hm, hlk, hv⟩ := h
    refine .inr ⟨mid, E, by simp at hl; omega, hm, by rw [hlk, ← hv]; rfl, ?_⟩
    intro h0; rw [h0] at hl; simp at hl

theorem byName_none_of_lookup {g : Frame} {L : Nat} (wf : WF g L) (u : UniqueNames g) {n : String}
    (h : absLookup g.abs n = none) : g.byName n = none := by
  rw [absLookup_byName wf u] at h
  cases hb : g.byName n with
  | none => rfl
  | some c => rw [hb] at h; cases h

/-- looking a name up in a frame extended by temporaries: the same as before, unless the name is a temp name that was
free before -/
theorem lookup_stable {f g : Frame} {L : Nat} {mid : List Entry} (wf : WF f L) (u : UniqueNames f) (E : Ext f g L mid)
    (hT : ∀ m, m ∈ mid → IsTemp m.1) (n : String) (hn : f.byName n = none → ¬ IsTemp n) :
    absLookup g.abs n = absLookup f.abs n := by
  rw [E.abs]
  cases h : absLookup f.abs n with
  | some e => exact absLookup_append_left _ _ _ _ h
  | none =>
    have hb := byName_none_of_lookup wf u h
    unfold absLookup at h ⊢
    rw [List.find?_append, h]
    simp only [Option.none_or]
    rw [List.find?_eq_none]
    intro m hm hmn
    have : m.1 = n := by simpa using hmn
    exact hn hb (this ▸ hT m hm)

theorem noCapture_ext {f g : Frame} {L : Nat} {mid : List Entry} (wf : WF f L) (E : Ext f g L mid) {e : Ex'}
    (h : NoCapture f e) : NoCapture g e := by
  intro n hn hg
  apply h n hn
  rw [none_iff wf]
  rw [none_iff E.wf, E.names] at hg
  exact fun hh => hg (List.mem_append_left _ hh)

theorem agree_ext {enc : String → Bytes} {f g : Frame} {L : Nat} {mid : List Entry} {F : LFrame} {e : Ex'}
    (wf : WF f L) (u : UniqueNames f) (E : Ext f g L mid) (hT : ∀ m, m ∈ mid → IsTemp m.1)
    (hc : NoCapture f e) (A : Agree enc f F e) : Agree enc g F e := by
  refine ⟨by rw [A.1, E.index], ?_⟩
  intro n hn
  rw [A.2 n hn, lookup_stable wf u E hT n (hc n hn)]

theorem noCapture_mono {f : Frame} {e e' : Ex'} (hsub : ∀ n, n ∈ refs e' → n ∈ refs e) (h : NoCapture f e) :
    NoCapture f e' := fun n hn => h n (hsub n hn)

theorem agree_mono {enc : String → Bytes} {f : Frame} {F : LFrame} {e e' : Ex'}
    (hsub : ∀ n, n ∈ refs e' → n ∈ refs e) (h : Agree enc f F e) : Agree enc f F e' :=
  ⟨h.1, fun n hn => h.2 n (hsub n hn)⟩

theorem execUnary_err (ctx : Ctx) (op src : String) (g : Frame) (h : g.err.isSome = true) :
    (execUnary ctx op src g).1 = g := by simp [execUnary, h]

theorem execColCol_err (ctx : Ctx) (op a b : String) (g : Frame) (h : g.err.isSome = true) :
    (execColCol ctx op a b g).1 = g := by simp [execColCol, h]

theorem tyOf_cellType {v : Fr.Val} (h : ∀ r, v ≠ .enum r) : tyC (tyOf v) = cellType (cellOf v) := by
  cases v <;> first | rfl | exact absurd rfl (h _)

/-- the constant's temp column holds the spec's value of the constant -/
theorem valL_const (g : Frame) (L : Nat) (wf : WF g L) (hL : physLen g = L) (v : Fr.Val) (hv : ∀ r, v ≠ .enum r)
    (F : LFrame) (hn : F.n = g.index.length) (t : String) :
    some (valL (colEntry g.index t (constCol g v))) = dval F (cellOf v) := by
  simp only [valL, colEntry, dval]
  rw [constCol_cells g L wf hL v, hn]
  simp only [constCol]
  rw [tyOf_cellType hv]

end QF.Props.C07EndToEnd
