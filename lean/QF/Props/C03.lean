import QF.Props.Tie
import QF.Core.Compare
/-!
# C03 — Sort returns a sorted permutation

Mirror: `Sorter.sort` follows internal/sort/sorter.go line by line (insertion sort,
shell pass, median of three / ninther, duplicate-protection pass, quicksort with depth
limit, heapsort fallback), `swap` being the only mutation. `Cmp.mkTbl`/`Cmp.compare`
follow `Comparable(reverse, equalNull, nullLast)` and `Compare` of the column packages,
`Cmp.lessKeys` the lexicographic `Sorter.Less`.

* `sort_perm`: for every comparison function and every index the result is a permutation
  of the input — every row exactly once, for every size and regime.
* `sort_sorted`: for every strict weak order the result has no descent.
* `compare_spec`: the result table orders a nullable key exactly as the property says
  (null least, greatest with NullLast, Reverse inverting the whole order incl. nulls).
* `sort_by_orders`: end to end for any list of `Order`s.
* `QF.Props.C03SorterGen.gen_sorter_semantics` (C03SorterGen.lean): the sorter regenerated from today's source, interpreted,
  returns exactly `Sorter.sort`.
-/
namespace QF.Props.C03

theorem sort_perm (less : Nat → Nat → Bool) (ix : Sorter.Ix) : Array.Perm (Sorter.sort less ix) ix :=
  Sorter.sort_perm less ix

theorem sort_sorted (less : Nat → Nat → Bool) (h : Sorter.SWO less) (ix : Sorter.Ix) :
    Sorter.Sorted less (Sorter.sort less ix) 0 (Array.size ix) :=
  Sorter.sort_sorted_full less h ix

theorem compare_spec (reverse nullLast : Bool) (k : Cmp.Key) (i j : Nat) :
    (Cmp.compare (Cmp.mkTbl reverse false nullLast) k i j == Cmp.Res.lt) = Cmp.specLt reverse nullLast k i j :=
  Cmp.compare_spec reverse nullLast k i j

theorem lessKeys_swo (ks : List (Bool × Bool × Cmp.Key)) : Sorter.SWO (Cmp.lessKeys (Cmp.mkKeys ks)) :=
  Cmp.lessKeys_swo ks

theorem sort_by_orders (ks : List (Bool × Bool × Cmp.Key)) (ix : Sorter.Ix) :
    Sorter.Sorted (Cmp.lessKeys (Cmp.mkKeys ks)) (Sorter.sort (Cmp.lessKeys (Cmp.mkKeys ks)) ix) 0 (Array.size ix) ∧
      Array.Perm (Sorter.sort (Cmp.lessKeys (Cmp.mkKeys ks)) ix) ix :=
  Cmp.sort_by_orders ks ix

/-- T1: the functions this property's mirror model follows have today the source text the model was written against. -/
-- The comparators (`Comparable.Compare`, `Column.Comparable` of the five column packages) are not compared as text any
-- more: their meaning is regenerated on every run (`Gen.compareAst`, `Gen.comparableFields`) and proved equal to the
-- spec's `keyCmp` / key equality in `QF.Props.C03Compare` (`gen_compare_semantics`, `sorter_less_eq_rowLess`).
-- The functions of internal/sort (`Less`, `Sort`, `quickSort`, `doPivot`, `heapSort`, `siftDown`, `insertionSort`,
-- `medianOfThree`, `maxDepth`, `Swap`, `Len`) are not compared as text any more either: they are regenerated statement by
-- statement on every run (`Gen.sorterFns`, go/cmd/extract/sortast.go), interpreted, and proved equal to the mirror
-- `Sorter.sort` for every index and comparison function in `QF.Props.C03SorterGen` (`gen_sorter_canon`,
-- `gen_sorter_semantics`); a rename raises no alarm, a changed operator, bound or statement does.
-- `QFrame.Sort` itself is not compared as text any more: it is regenerated statement by statement in `Gen.sortAst` (go/cmd/extract/sortgast.go; the loop over the
-- orders, the unknown-column return, `s.Comparable(o.Reverse, false, o.NullLast)`, `qf.index.Copy()`, `qfsort.New` — `Gen.sorterNewAst` —, `sorter.Sort()`):
-- `C03SortGlueGen.gen_sortglue_canon` + `gen_sort_glue_semantics` / `gen_sort_cmps_semantics`, and `C03EndToEnd.gen_sort_end_to_end` goes from these pieces, the
-- regenerated sorter and the regenerated comparators to the spec's `isSortedResult`. Tie audit (bin/selftest-ties): every behaviour-changing edit of `Sort` and of
-- `qfsort.New` makes `gen_sortglue_canon` fail, renaming their locals or reformatting them changes nothing.
theorem tie : Tie.sameAll [] = true := by decide

end QF.Props.C03
