import QF.Gen.Facts
import QF.Gen.Functions
/-!
# C07 — the functions of the default evaluation context in today's source mean what the spec says (tie T1, by semantics)

`QFrame.Eval` (and built-in `Apply`) take the function for an operator from `eval.NewDefaultCtx()`. The extractor
regenerates on every run

* `QF.Gen.evalCtx`     — the table operand type × arity × operator name ↦ function (go/cmd/extract/gen.go), and
* `QF.Gen.functionAst` — the body of every function of package `function` as a term of `QF.FE`
                         (go/cmd/extract/fast.go; `FE.eval`, QF/Core/FExpr.lean, is the Go meaning of such a term).

The spec of Eval, `denExpr` (QF/Spec/Ops.lean), applies `evalUnary "d" op t` / `evalBinary "d" op t` to the cells
("d" = the default context). This file proves, over the data generated TODAY:

* `gen_ctx_functions_known` — every function of package `function` the context names has a term; `gen_ctx_external`
                              lists the entries of the context that are not in package `function` (they stay parameters)
* `gen_ctx_no_opaque`       — those terms were translated completely
* `gen_function_semantics`  — for every operand type `t` and operator `op` for which the spec has a function `g`
                              (`evalUnary "d" op t = some (rt, g)` / `evalBinary "d" op t = some g`): the context maps
                              (t, op) to a function F, `functionAst` has a term for F, and on ALL cells of the operand type
                              the term evaluates to `g` — and the result is a cell of the result type (`Implements1/2`).
                              The one exception is stated in the theorem: float `abs` is `math.Abs`, not in package function.
* `gen_ctx_covered`, `spec_gaps` — every entry of the context is one of the above or one of the seven entries for which the
                              spec deliberately has no function (`specGaps`: division, int→float, float→int, float→string,
                              upper, lower); for those nothing is proved against the spec, `gap_terms_meaning` records what
                              the extracted terms mean under `FE.eval`.

Method as in C02Kernels: `decide` shows that each generated term IS the expected term (`gen_*_canon`: finite, re-checked
whenever the source changes); the meaning of those terms on every cell is proved once and for all (`*_sem`).

"Cells of the operand type" (`cellIn`): an int cell holding a Go `int` (64 bit: `int64 v`), a float, a bool, a nullable
string for string and enum columns (enum columns take the string functions: `fkind`). The range matters: the spec
writes `wrap64 (if x < 0 then -x else x)` for abs where the code returns `x` itself for `x ≥ 0`.

No disagreement between the spec and today's terms was found: 64-bit wrap-around of `+ - *`, `abs MinInt64 = MinInt64`,
nil handling of `ConcatS` (nil is the neutral element: `nil + y = y`, `x + nil = x`, so `nil + nil = nil`) all agree.
-/
namespace QF.Props.C07Functions
open QF

/-! ## Looking a function up through the context -/

abbrev Ctx := List (String × String × String × String)
abbrev FList := List (String × FE)

/-- the context's name of the operand kind (`types.FunctionType…`); enum columns are `FunctionTypeString` -/
def ctxTyK : CType → String
  | .int => "Int" | .float => "Float" | .bool => "Bool" | .string => "String" | .enum => "String" | .undef => "Undefined"

/-- the function a context maps (operand type, arity, operator) to -/
def ctxFnIn (ctx : Ctx) (ty arity op : String) : Option String :=
  (ctx.find? (fun e => e.1 == ty && e.2.1 == arity && e.2.2.1 == op)).map (·.2.2.2)
/-- the term of a function in a list of translated functions -/
def termIn (l : FList) (F : String) : Option FE := l.lookup F
def genTermIn (ctx : Ctx) (l : FList) (ty arity op : String) : Option FE := (ctxFnIn ctx ty arity op).bind (termIn l)

/-- today's context and terms -/
def ctxFn (ty arity op : String) : Option String := ctxFnIn Gen.evalCtx ty arity op
def fnTerm (F : String) : Option FE := termIn Gen.functionAst F
def genTerm (ty arity op : String) : Option FE := genTermIn Gen.evalCtx Gen.functionAst ty arity op

theorem genTerm_eq (ty arity op : String) : genTerm ty arity op = (ctxFn ty arity op).bind fnTerm := rfl

def pkgChars : List Char → List Char
  | [] => []
  | c :: cs => if c = '.' then [] else c :: pkgChars cs
/-- the package of a qualified name `pkg.Name` -/
def pkgOfFn (F : String) : String := String.ofList (pkgChars F.toList)

/-! ## The context's functions are known -/

/-- Every function of package `function` named in today's default context has a term in `Gen.functionAst`. -/
theorem gen_ctx_functions_known :
    ∀ e ∈ Gen.evalCtx, pkgOfFn e.2.2.2 = "function" → (fnTerm e.2.2.2).isSome = true := by
  decide

/-- The entries of the context that are NOT in package `function`: float `abs` is `math.Abs`. It stays a parameter of
the model (the spec's float `abs` clears the sign bit). `strings.ToUpper` / `strings.ToLower` occur inside the terms of
`function.UpperS` / `function.LowerS` (`FE.ext`, parameter `FParams.strFn`). -/
theorem gen_ctx_external :
    Gen.evalCtx.filter (fun e => pkgOfFn e.2.2.2 != "function") = [("Float", "singleArgs", "abs", "math.Abs")] := by
  decide

/-- None of the context's functions translates to (a term containing) `.opaque`. -/
theorem gen_ctx_no_opaque :
    ∀ e ∈ Gen.evalCtx, pkgOfFn e.2.2.2 = "function" → (fnTerm e.2.2.2).any (fun t => !t.hasOpaque) = true := by
  decide

/-- Arity: the terms of the one-argument functions do not mention the second parameter. -/
theorem gen_ctx_arity :
    ∀ e ∈ Gen.evalCtx, e.2.1 = "singleArgs" → (fnTerm e.2.2.2).all (fun t => !t.usesY) = true := by
  decide

/-! ## Today's terms are the expected ones (finite checks over `QF.Gen`, redone on every run) -/

theorem gen_int_canon :
    genTerm "Int" "singleArgs" "abs" = some (.ite (.cmp "<" .x (.intLit 0)) (.neg .x) .x) ∧
    genTerm "Int" "singleArgs" "str" = some (.addr (.itoa .x)) ∧
    genTerm "Int" "singleArgs" "bool" = some (.cmp "!=" .x (.intLit 0)) ∧
    genTerm "Int" "doubleArgs" "+" = some (.add .x .y) ∧
    genTerm "Int" "doubleArgs" "-" = some (.sub .x .y) ∧
    genTerm "Int" "doubleArgs" "*" = some (.mul .x .y) := by
  decide

theorem gen_float_canon :
    ctxFn "Float" "singleArgs" "abs" = some "math.Abs" ∧
    genTerm "Float" "doubleArgs" "+" = some (.add .x .y) ∧
    genTerm "Float" "doubleArgs" "-" = some (.sub .x .y) ∧
    genTerm "Float" "doubleArgs" "*" = some (.mul .x .y) := by
  decide

theorem gen_bool_canon :
    genTerm "Bool" "singleArgs" "!" = some (.not .x) ∧
    genTerm "Bool" "singleArgs" "str" = some (.addr (.formatBool .x)) ∧
    genTerm "Bool" "singleArgs" "int" = some (.ite .x (.intLit 1) (.intLit 0)) ∧
    genTerm "Bool" "doubleArgs" "&" = some (.and .x .y) ∧
    genTerm "Bool" "doubleArgs" "|" = some (.or .x .y) ∧
    genTerm "Bool" "doubleArgs" "!=" = some (.or (.and .x (.not .y)) (.and (.not .x) .y)) ∧
    genTerm "Bool" "doubleArgs" "nand" = some (.not (.and .x .y)) := by
  decide

theorem gen_string_canon :
    genTerm "String" "singleArgs" "str" = some .x ∧
    genTerm "String" "singleArgs" "len" = some (.ite (.cmp "==" .x .nil) (.intLit 0) (.strLen (.deref .x))) ∧
    genTerm "String" "doubleArgs" "+" =
      some (.ite (.cmp "==" .x .nil) .y (.ite (.cmp "==" .y .nil) .x (.addr (.add (.deref .x) (.deref .y))))) := by
  decide

/-- the entries of the context for which the spec has no function -/
theorem gen_gap_canon :
    genTerm "Int" "doubleArgs" "/" = some (.div .x .y) ∧
    genTerm "Int" "singleArgs" "float" = some (.toFloat .x) ∧
    genTerm "Float" "doubleArgs" "/" = some (.div .x .y) ∧
    genTerm "Float" "singleArgs" "int" = some (.toInt .x) ∧
    genTerm "Float" "singleArgs" "str" = some (.addr (.sprintf "%f" .x)) ∧
    genTerm "String" "singleArgs" "upper" = some (.ite (.cmp "==" .x .nil) .nil (.addr (.ext "strings.ToUpper" (.deref .x)))) ∧
    genTerm "String" "singleArgs" "lower" = some (.ite (.cmp "==" .x .nil) .nil (.addr (.ext "strings.ToLower" (.deref .x)))) := by
  decide

/-! ## Cells of the operand type -/

/-- Go's `int` -/
def int64 (v : Int) : Prop := -9223372036854775808 ≤ v ∧ v < 9223372036854775808
instance (v : Int) : Decidable (int64 v) := by unfold int64; infer_instance

/-- cells of an operand kind -/
def cellInK : CType → Cell → Prop
  | .int, .int v => int64 v
  | .float, .float _ => True
  | .bool, .bool _ => True
  | .string, .str _ => True
  | _, _ => False

/-- cells of a column type, as a function of the context sees them -/
def cellIn (t : CType) (x : Cell) : Prop := cellInK (fkind t) x

theorem wrap64_int64 (v : Int) : int64 (wrap64 v) := by
  simp only [wrap64, int64]; split <;> omega

theorem wrap64_id {v : Int} (h : int64 v) : wrap64 v = v := by
  simp only [wrap64, int64] at *; split <;> omega

/-- The term `k` is there and computes the one-argument function `g` on every cell of kind `t`, with results of type `rt`. -/
def Implements1 (k : Option FE) (t rt : CType) (g : Cell → Cell) : Prop :=
  ∃ e, k = some e ∧ ∀ (P : FParams) (x y : Cell), cellInK t x → e.eval P x y = some (g x) ∧ cellType (g x) = rt

/-- The term `k` is there and computes the two-argument function `g` on every pair of cells of kind `t`, with results
of the same type. -/
def Implements2 (k : Option FE) (t : CType) (g : Cell → Cell → Cell) : Prop :=
  ∃ e, k = some e ∧ ∀ (P : FParams) (x y : Cell), cellInK t x → cellInK t y → e.eval P x y = some (g x y) ∧ cellType (g x y) = t

/-! ## The meaning of the expected terms, once and for all -/

section Sem
variable (P : FParams)

/-- `AbsI`: `-x` wraps, so `abs MinInt64 = MinInt64`; for `x ≥ 0` the code returns `x` unchanged. -/
theorem absI_sem (v : Int) (hv : int64 v) (y : Cell) :
    (FE.ite (.cmp "<" .x (.intLit 0)) (.neg .x) .x).eval P (.int v) y = some (.int (wrap64 (if v < 0 then -v else v))) := by
  by_cases h : v < 0
  · simp [FE.eval, FE.evalV, FV.ofCell, FV.toCell, fcmpV, fcmpInt, h]
  · have hw : wrap64 v = v := wrap64_id hv
    simp [FE.eval, FE.evalV, FV.ofCell, FV.toCell, fcmpV, fcmpInt, h, hw]

theorem strI_sem (v : Int) (y : Cell) : (FE.addr (.itoa .x)).eval P (.int v) y = some (.str (some (intStr v))) := by
  simp [FE.eval, FE.evalV, FV.ofCell, FV.toCell]

theorem boolI_sem (v : Int) (y : Cell) : (FE.cmp "!=" .x (.intLit 0)).eval P (.int v) y = some (.bool (v != 0)) := by
  simp [FE.eval, FE.evalV, FV.ofCell, FV.toCell, fcmpV, fcmpInt, bne, BEq.beq]

theorem plusI_sem (a b : Int) : (FE.add .x .y).eval P (.int a) (.int b) = some (.int (wrap64 (a + b))) := by
  simp [FE.eval, FE.evalV, FV.ofCell, FV.toCell]
theorem minusI_sem (a b : Int) : (FE.sub .x .y).eval P (.int a) (.int b) = some (.int (wrap64 (a - b))) := by
  simp [FE.eval, FE.evalV, FV.ofCell, FV.toCell]
theorem mulI_sem (a b : Int) : (FE.mul .x .y).eval P (.int a) (.int b) = some (.int (wrap64 (a * b))) := by
  simp [FE.eval, FE.evalV, FV.ofCell, FV.toCell]

theorem plusF_sem (a b : UInt64) : (FE.add .x .y).eval P (.float a) (.float b) = some (.float (fAdd a b)) := by
  simp [FE.eval, FE.evalV, FV.ofCell, FV.toCell]
theorem minusF_sem (a b : UInt64) : (FE.sub .x .y).eval P (.float a) (.float b) = some (.float (fSub a b)) := by
  simp [FE.eval, FE.evalV, FV.ofCell, FV.toCell]
theorem mulF_sem (a b : UInt64) : (FE.mul .x .y).eval P (.float a) (.float b) = some (.float (fMul a b)) := by
  simp [FE.eval, FE.evalV, FV.ofCell, FV.toCell]

theorem notB_sem (a : Bool) (y : Cell) : (FE.not .x).eval P (.bool a) y = some (.bool (!a)) := by
  simp [FE.eval, FE.evalV, FV.ofCell, FV.toCell]
theorem strB_sem (a : Bool) (y : Cell) :
    (FE.addr (.formatBool .x)).eval P (.bool a) y = some (.str (some (strBytes (if a then "true" else "false")))) := by
  simp [FE.eval, FE.evalV, FV.ofCell, FV.toCell]
theorem intB_sem (a : Bool) (y : Cell) :
    (FE.ite .x (.intLit 1) (.intLit 0)).eval P (.bool a) y = some (.int (if a then 1 else 0)) := by
  cases a <;> simp [FE.eval, FE.evalV, FV.ofCell, FV.toCell]
theorem andB_sem (a b : Bool) : (FE.and .x .y).eval P (.bool a) (.bool b) = some (.bool (a && b)) := by
  cases a <;> cases b <;> simp [FE.eval, FE.evalV, FV.ofCell, FV.toCell]
theorem orB_sem (a b : Bool) : (FE.or .x .y).eval P (.bool a) (.bool b) = some (.bool (a || b)) := by
  cases a <;> cases b <;> simp [FE.eval, FE.evalV, FV.ofCell, FV.toCell]
/-- `XorB`: `(x && !y) || (!x && y)` is `x != y` -/
theorem xorB_sem (a b : Bool) :
    (FE.or (.and .x (.not .y)) (.and (.not .x) .y)).eval P (.bool a) (.bool b) = some (.bool (a != b)) := by
  cases a <;> cases b <;> simp [FE.eval, FE.evalV, FV.ofCell, FV.toCell]
/-- `NandB`: `!AndB(x, y)` with `AndB`'s body for the call -/
theorem nandB_sem (a b : Bool) : (FE.not (.and .x .y)).eval P (.bool a) (.bool b) = some (.bool (!(a && b))) := by
  cases a <;> cases b <;> simp [FE.eval, FE.evalV, FV.ofCell, FV.toCell]

theorem strS_sem (s : Option Bytes) (y : Cell) : FE.x.eval P (.str s) y = some (.str s) := by
  simp [FE.eval, FE.evalV, FV.ofCell, FV.toCell]
/-- `LenS`: 0 for nil, the number of bytes otherwise -/
theorem lenS_sem (s : Option Bytes) (y : Cell) :
    (FE.ite (.cmp "==" .x .nil) (.intLit 0) (.strLen (.deref .x))).eval P (.str s) y
      = some (match s with | some u => .int u.length | none => .int 0) := by
  cases s <;> simp [FE.eval, FE.evalV, FV.ofCell, FV.toCell, fcmpV, fcmpPtr]
/-- `ConcatS`: nil is neutral on both sides (so nil + nil = nil), otherwise the bytes are concatenated -/
theorem concatS_sem (s t : Option Bytes) :
    (FE.ite (.cmp "==" .x .nil) .y (.ite (.cmp "==" .y .nil) .x (.addr (.add (.deref .x) (.deref .y))))).eval P (.str s) (.str t)
      = some (match s, t with | none, _ => .str t | _, none => .str s | some u, some v => .str (some (u ++ v))) := by
  cases s <;> cases t <;> simp [FE.eval, FE.evalV, FV.ofCell, FV.toCell, fcmpV, fcmpPtr]

end Sem

theorem impl1 {k : Option FE} {e : FE} {t rt : CType} {g : Cell → Cell} (hk : k = some e)
    (h : ∀ (P : FParams) (x y : Cell), cellInK t x → e.eval P x y = some (g x) ∧ cellType (g x) = rt) : Implements1 k t rt g :=
  ⟨e, hk, h⟩

theorem impl2 {k : Option FE} {e : FE} {t : CType} {g : Cell → Cell → Cell} (hk : k = some e)
    (h : ∀ (P : FParams) (x y : Cell), cellInK t x → cellInK t y → e.eval P x y = some (g x y) ∧ cellType (g x y) = t) :
    Implements2 k t g :=
  ⟨e, hk, h⟩

/-! ## The theorem -/

theorem noUser : ctxHasUser "d" = false := by decide

/-- One-argument operators: wherever the spec of Eval has a function for (operand type, operator) in the default context,
the context's function — found through today's `Gen.evalCtx`, with the body extracted from today's source — computes it
on all cells of the type. Exception: float `abs`, which the context maps to `math.Abs` (not in package `function`). -/
theorem gen_function_semantics_unary (t : CType) (op : String) (rt : CType) (g : Cell → Cell)
    (h : evalUnary "d" op t = some (rt, g)) :
    (fkind t = .float ∧ op = "abs" ∧ ctxFn (ctxTyK (fkind t)) "singleArgs" op = some "math.Abs") ∨
    Implements1 (genTerm (ctxTyK (fkind t)) "singleArgs" op) (fkind t) rt g := by
  unfold evalUnary at h
  simp only [noUser, Bool.false_and, Bool.false_eq_true, ↓reduceIte] at h
  unfold evalUnaryBase at h
  split at h
  · simp at h
  · split at h <;> (try (simp_all [noUser]; done)) <;>
      simp only [Option.some.injEq, Prod.mk.injEq] at h <;> obtain ⟨rfl, rfl⟩ := h
    · -- int abs
      have hk : fkind t = .int := by assumption
      rw [hk]
      refine .inr (impl1 gen_int_canon.1 fun P x y hx => ?_)
      cases x <;> simp only [cellInK] at hx
      exact ⟨absI_sem P _ hx y, rfl⟩
    · -- int str
      have hk : fkind t = .int := by assumption
      rw [hk]
      refine .inr (impl1 gen_int_canon.2.1 fun P x y hx => ?_)
      cases x <;> simp only [cellInK] at hx
      exact ⟨strI_sem P _ y, rfl⟩
    · -- int bool
      have hk : fkind t = .int := by assumption
      rw [hk]
      refine .inr (impl1 gen_int_canon.2.2.1 fun P x y hx => ?_)
      cases x <;> simp only [cellInK] at hx
      exact ⟨boolI_sem P _ y, rfl⟩
    · -- float abs
      have hk : fkind t = .float := by assumption
      rw [hk]
      exact .inl ⟨rfl, rfl, gen_float_canon.1⟩
    · -- bool !
      have hk : fkind t = .bool := by assumption
      rw [hk]
      refine .inr (impl1 gen_bool_canon.1 fun P x y hx => ?_)
      cases x <;> simp only [cellInK] at hx
      exact ⟨notB_sem P _ y, rfl⟩
    · -- bool str
      have hk : fkind t = .bool := by assumption
      rw [hk]
      refine .inr (impl1 gen_bool_canon.2.1 fun P x y hx => ?_)
      cases x <;> simp only [cellInK] at hx
      exact ⟨strB_sem P _ y, rfl⟩
    · -- bool int
      have hk : fkind t = .bool := by assumption
      rw [hk]
      refine .inr (impl1 gen_bool_canon.2.2.1 fun P x y hx => ?_)
      cases x <;> simp only [cellInK] at hx
      rename_i b
      exact ⟨intB_sem P _ y, rfl⟩
    · -- string str
      have hk : fkind t = .string := by assumption
      rw [hk]
      refine .inr (impl1 gen_string_canon.1 fun P x y hx => ?_)
      cases x <;> simp only [cellInK] at hx
      exact ⟨strS_sem P _ y, rfl⟩
    · -- string len
      have hk : fkind t = .string := by assumption
      rw [hk]
      refine .inr (impl1 gen_string_canon.2.1 fun P x y hx => ?_)
      cases x <;> simp only [cellInK] at hx
      rename_i s
      exact ⟨by rw [lenS_sem]; cases s <;> rfl, by cases s <;> rfl⟩

/-- Two-argument operators: wherever the spec of Eval has a function for (operand type, operator) in the default context,
the context's function computes it on all pairs of cells of the type — with 64-bit wrap-around for int `+ - *`, on the
bit patterns for float `+ - *`, and with nil as the neutral element of string `+`. -/
theorem gen_function_semantics_binary (t : CType) (op : String) (g : Cell → Cell → Cell)
    (h : evalBinary "d" op t = some g) :
    Implements2 (genTerm (ctxTyK (fkind t)) "doubleArgs" op) (fkind t) g := by
  unfold evalBinary at h
  simp only [noUser, Bool.false_and, Bool.false_eq_true, ↓reduceIte] at h
  unfold evalBinaryBase at h
  split at h
  · simp at h
  split at h
  · rename_i h2; simp at h2
  split at h <;> (try (simp_all [noUser]; done)) <;>
    simp only [Option.some.injEq] at h <;> subst h
  · -- int +
    have hk : fkind t = .int := by assumption
    rw [hk]
    refine impl2 gen_int_canon.2.2.2.1 fun P x y hx hy => ?_
    cases x <;> simp only [cellInK] at hx
    cases y <;> simp only [cellInK] at hy
    exact ⟨plusI_sem P _ _, rfl⟩
  · -- int -
    have hk : fkind t = .int := by assumption
    rw [hk]
    refine impl2 gen_int_canon.2.2.2.2.1 fun P x y hx hy => ?_
    cases x <;> simp only [cellInK] at hx
    cases y <;> simp only [cellInK] at hy
    exact ⟨minusI_sem P _ _, rfl⟩
  · -- int *
    have hk : fkind t = .int := by assumption
    rw [hk]
    refine impl2 gen_int_canon.2.2.2.2.2 fun P x y hx hy => ?_
    cases x <;> simp only [cellInK] at hx
    cases y <;> simp only [cellInK] at hy
    exact ⟨mulI_sem P _ _, rfl⟩
  · -- float +
    have hk : fkind t = .float := by assumption
    rw [hk]
    refine impl2 gen_float_canon.2.1 fun P x y hx hy => ?_
    cases x <;> simp only [cellInK] at hx
    cases y <;> simp only [cellInK] at hy
    exact ⟨plusF_sem P _ _, rfl⟩
  · -- float -
    have hk : fkind t = .float := by assumption
    rw [hk]
    refine impl2 gen_float_canon.2.2.1 fun P x y hx hy => ?_
    cases x <;> simp only [cellInK] at hx
    cases y <;> simp only [cellInK] at hy
    exact ⟨minusF_sem P _ _, rfl⟩
  · -- float *
    have hk : fkind t = .float := by assumption
    rw [hk]
    refine impl2 gen_float_canon.2.2.2 fun P x y hx hy => ?_
    cases x <;> simp only [cellInK] at hx
    cases y <;> simp only [cellInK] at hy
    exact ⟨mulF_sem P _ _, rfl⟩
  · -- bool &
    have hk : fkind t = .bool := by assumption
    rw [hk]
    refine impl2 gen_bool_canon.2.2.2.1 fun P x y hx hy => ?_
    cases x <;> simp only [cellInK] at hx
    cases y <;> simp only [cellInK] at hy
    exact ⟨andB_sem P _ _, rfl⟩
  · -- bool |
    have hk : fkind t = .bool := by assumption
    rw [hk]
    refine impl2 gen_bool_canon.2.2.2.2.1 fun P x y hx hy => ?_
    cases x <;> simp only [cellInK] at hx
    cases y <;> simp only [cellInK] at hy
    exact ⟨orB_sem P _ _, rfl⟩
  · -- bool !=
    have hk : fkind t = .bool := by assumption
    rw [hk]
    refine impl2 gen_bool_canon.2.2.2.2.2.1 fun P x y hx hy => ?_
    cases x <;> simp only [cellInK] at hx
    cases y <;> simp only [cellInK] at hy
    exact ⟨xorB_sem P _ _, rfl⟩
  · -- bool nand
    have hk : fkind t = .bool := by assumption
    rw [hk]
    refine impl2 gen_bool_canon.2.2.2.2.2.2 fun P x y hx hy => ?_
    cases x <;> simp only [cellInK] at hx
    cases y <;> simp only [cellInK] at hy
    exact ⟨nandB_sem P _ _, rfl⟩
  · -- string +
    have hk : fkind t = .string := by assumption
    rw [hk]
    refine impl2 gen_string_canon.2.2 fun P x y hx hy => ?_
    cases x <;> simp only [cellInK] at hx
    cases y <;> simp only [cellInK] at hy
    rename_i s u
    exact ⟨by rw [concatS_sem]; cases s <;> cases u <;> rfl, by cases s <;> cases u <;> rfl⟩

/-- **The functions of today's default context compute the spec's functions.** For every operand type `t` and operator
`op` for which the spec of Eval has an entry in the default context — `evalUnary "d" op t = some (rt, g)`, resp.
`evalBinary "d" op t = some g` — the context extracted from today's source maps (t, op) to a function whose body, extracted
from today's source, evaluates to `g` on ALL cells of the operand type (`Implements1`, `Implements2`; int cells hold a
64-bit Go `int`). Float `abs` is the one entry that is not a function of package `function` (`math.Abs`). -/
theorem gen_function_semantics :
    (∀ (t : CType) (op : String) (rt : CType) (g : Cell → Cell), evalUnary "d" op t = some (rt, g) →
      (fkind t = .float ∧ op = "abs" ∧ ctxFn (ctxTyK (fkind t)) "singleArgs" op = some "math.Abs") ∨
      Implements1 (genTerm (ctxTyK (fkind t)) "singleArgs" op) (fkind t) rt g) ∧
    (∀ (t : CType) (op : String) (g : Cell → Cell → Cell), evalBinary "d" op t = some g →
      Implements2 (genTerm (ctxTyK (fkind t)) "doubleArgs" op) (fkind t) g) :=
  ⟨gen_function_semantics_unary, gen_function_semantics_binary⟩

/-- The same, unfolded: the named function exists in the context and in the term list, and its term agrees with the spec
on every cell of the operand type. -/
theorem gen_function_semantics_binary' (t : CType) (op : String) (g : Cell → Cell → Cell) (h : evalBinary "d" op t = some g) :
    ∃ F e, ctxFn (ctxTyK (fkind t)) "doubleArgs" op = some F ∧ fnTerm F = some e ∧
      ∀ (P : FParams) (x y : Cell), cellIn t x → cellIn t y → e.eval P x y = some (g x y) := by
  obtain ⟨e, hk, hs⟩ := gen_function_semantics_binary t op g h
  rw [genTerm_eq] at hk
  cases hF : ctxFn (ctxTyK (fkind t)) "doubleArgs" op with
  | none => rw [hF] at hk; simp at hk
  | some F => rw [hF] at hk; exact ⟨F, e, rfl, hk, fun P x y hx hy => (hs P x y hx hy).1⟩

theorem gen_function_semantics_unary' (t : CType) (op : String) (rt : CType) (g : Cell → Cell)
    (h : evalUnary "d" op t = some (rt, g)) (hne : ¬ (fkind t = .float ∧ op = "abs")) :
    ∃ F e, ctxFn (ctxTyK (fkind t)) "singleArgs" op = some F ∧ fnTerm F = some e ∧
      ∀ (P : FParams) (x y : Cell), cellIn t x → e.eval P x y = some (g x) := by
  rcases gen_function_semantics_unary t op rt g h with ⟨h1, h2, _⟩ | ⟨e, hk, hs⟩
  · exact absurd ⟨h1, h2⟩ hne
  rw [genTerm_eq] at hk
  cases hF : ctxFn (ctxTyK (fkind t)) "singleArgs" op with
  | none => rw [hF] at hk; simp at hk
  | some F => rw [hF] at hk; exact ⟨F, e, rfl, hk, fun P x y hx => (hs P x y hx).1⟩

/-- Integer results stay in Go's `int`: what the terms of `+ - *` and `abs` return is again a cell of the type. -/
theorem int_ops_in_range (P : FParams) (a b : Int) (y : Cell) :
    (∃ v, (FE.add .x .y).eval P (.int a) (.int b) = some (.int v) ∧ int64 v) ∧
    (∃ v, (FE.sub .x .y).eval P (.int a) (.int b) = some (.int v) ∧ int64 v) ∧
    (∃ v, (FE.mul .x .y).eval P (.int a) (.int b) = some (.int v) ∧ int64 v) ∧
    (int64 a → ∃ v, (FE.ite (.cmp "<" .x (.intLit 0)) (.neg .x) .x).eval P (.int a) y = some (.int v) ∧ int64 v) :=
  ⟨⟨_, plusI_sem P a b, wrap64_int64 _⟩, ⟨_, minusI_sem P a b, wrap64_int64 _⟩, ⟨_, mulI_sem P a b, wrap64_int64 _⟩,
   fun h => ⟨_, absI_sem P a h y, wrap64_int64 _⟩⟩

/-- `abs` of MinInt64 is MinInt64 — in the term (`-x` wraps) and in the spec alike. -/
theorem abs_minInt64 (P : FParams) (y : Cell) :
    (FE.ite (.cmp "<" .x (.intLit 0)) (.neg .x) .x).eval P (.int (-9223372036854775808)) y = some (.int (-9223372036854775808)) := by
  rw [absI_sem P _ (by decide) y]; decide

/-! ## Where the spec is silent

The context has seven entries for which `evalUnary` / `evalBinary` deliberately have no function in the default context
(the replay driver treats an expression using them as outside the spec). Nothing is proved about them against the
spec; `gen_ctx_covered` makes sure that there are no others, `gap_terms_meaning` records what today's terms mean. -/

/-- (operand type, arity, operator) of the context's entries the spec has no function for -/
def specGaps : List (String × String × String) :=
  [("Int", "doubleArgs", "/"), ("Int", "singleArgs", "float"),
   ("Float", "doubleArgs", "/"), ("Float", "singleArgs", "int"), ("Float", "singleArgs", "str"),
   ("String", "singleArgs", "upper"), ("String", "singleArgs", "lower")]

/-- (operand type, arity, operator) of the entries treated by `gen_function_semantics` -/
def specEntries : List (String × String × String) :=
  [("Int", "singleArgs", "abs"), ("Int", "singleArgs", "str"), ("Int", "singleArgs", "bool"),
   ("Int", "doubleArgs", "+"), ("Int", "doubleArgs", "-"), ("Int", "doubleArgs", "*"),
   ("Float", "singleArgs", "abs"), ("Float", "doubleArgs", "+"), ("Float", "doubleArgs", "-"), ("Float", "doubleArgs", "*"),
   ("Bool", "singleArgs", "!"), ("Bool", "singleArgs", "str"), ("Bool", "singleArgs", "int"),
   ("Bool", "doubleArgs", "&"), ("Bool", "doubleArgs", "|"), ("Bool", "doubleArgs", "!="), ("Bool", "doubleArgs", "nand"),
   ("String", "singleArgs", "str"), ("String", "singleArgs", "len"), ("String", "doubleArgs", "+")]

/-- Every entry of today's context is treated by `gen_function_semantics` or is one of the seven listed gaps: an entry
added to the context without a spec is noticed. -/
theorem gen_ctx_covered : ∀ e ∈ Gen.evalCtx, (e.1, e.2.1, e.2.2.1) ∈ specEntries ++ specGaps := by
  decide

/-- The spec has no function for the gaps. -/
theorem spec_gaps :
    evalBinary "d" "/" .int = none ∧ evalUnary "d" "float" .int = none ∧
    evalBinary "d" "/" .float = none ∧ evalUnary "d" "int" .float = none ∧ evalUnary "d" "str" .float = none ∧
    evalUnary "d" "upper" .string = none ∧ evalUnary "d" "lower" .string = none := by
  refine ⟨?_, ?_, ?_, ?_, ?_, ?_, ?_⟩ <;> simp [evalBinary, evalUnary, evalBinaryBase, evalUnaryBase, noUser, fkind]

/-- What today's terms of the gap entries mean under `FE.eval`: int `/` panics (no value) on a zero divisor and
truncates otherwise (MinInt64 / -1 wraps); `float` is the conversion `fOfInt`; float `/` is `fDiv`; float→int and
float→string are the parameters `f2i`, `sprintf "%f"`; upper / lower keep null and apply the external function. -/
theorem gap_terms_meaning (P : FParams) (a b : Int) (u v : UInt64) (s : Option Bytes) (y : Cell) :
    (FE.div .x .y).eval P (.int a) (.int b) = (if b = 0 then none else some (.int (wrap64 (Int.tdiv a b)))) ∧
    (FE.toFloat .x).eval P (.int a) y = some (.float (fOfInt a)) ∧
    (FE.div .x .y).eval P (.float u) (.float v) = some (.float (fDiv u v)) ∧
    (FE.toInt .x).eval P (.float u) y = some (.int (P.f2i u)) ∧
    (FE.addr (.sprintf "%f" .x)).eval P (.float u) y = some (.str (some (P.sprintf "%f" u))) ∧
    (FE.ite (.cmp "==" .x .nil) .nil (.addr (.ext "strings.ToUpper" (.deref .x)))).eval P (.str s) y
      = some (.str (s.map (P.strFn "strings.ToUpper"))) := by
  refine ⟨?_, ?_, ?_, ?_, ?_, ?_⟩
  · by_cases hb : b = 0 <;> simp [FE.eval, FE.evalV, FV.ofCell, FV.toCell, goDivInt, hb]
  · simp [FE.eval, FE.evalV, FV.ofCell, FV.toCell]
  · simp [FE.eval, FE.evalV, FV.ofCell, FV.toCell]
  · simp [FE.eval, FE.evalV, FV.ofCell, FV.toCell]
  · simp [FE.eval, FE.evalV, FV.ofCell, FV.toCell]
  · cases s <;> simp [FE.eval, FE.evalV, FV.ofCell, FV.toCell, fcmpV, fcmpPtr]

/-! ## The statement is not vacuous -/

section Examples

/-- the spec's int `+`, `-` (what `evalBinary "d"` returns, see `spec_int_plus_minus`) -/
def specPlusI : Cell → Cell → Cell := fun a b => match a, b with | .int x, .int y => .int (wrap64 (x + y)) | x, _ => x
def specMinusI : Cell → Cell → Cell := fun a b => match a, b with | .int x, .int y => .int (wrap64 (x - y)) | x, _ => x

theorem spec_int_plus_minus : evalBinary "d" "+" .int = some specPlusI ∧ evalBinary "d" "-" .int = some specMinusI := by
  constructor <;> simp [evalBinary, noUser, fkind] <;> rfl

/-- today's list with `x + y` replaced by `x - y` in `PlusI` (what the extractor produces for that change) -/
def mutatedPlus : FList :=
  Gen.functionAst.map (fun k => if k.1 = "function.PlusI" then (k.1, FE.sub .x .y) else k)
/-- today's list with the operands of `-` swapped in `MinusI` (`return y - x`) -/
def mutatedMinus : FList :=
  Gen.functionAst.map (fun k => if k.1 = "function.MinusI" then (k.1, FE.sub .y .x) else k)

/-- the finite checks fail on the mutated lists … -/
example : genTermIn Gen.evalCtx mutatedPlus "Int" "doubleArgs" "+" ≠ some (.add .x .y) := by decide
example : genTermIn Gen.evalCtx mutatedMinus "Int" "doubleArgs" "-" ≠ some (.sub .x .y) := by decide

/-- … and so does the statement itself: `1 + 1` is 2, the mutated `PlusI` returns 0. -/
example : ¬ Implements2 (genTermIn Gen.evalCtx mutatedPlus "Int" "doubleArgs" "+") .int specPlusI := by
  rintro ⟨e, hk, hs⟩
  have hm : genTermIn Gen.evalCtx mutatedPlus "Int" "doubleArgs" "+" = some (.sub .x .y) := by decide
  rw [hm] at hk
  cases hk
  have := (hs {} (.int 1) (.int 1) (by simp [cellInK, int64]) (by simp [cellInK, int64])).1
  rw [minusI_sem] at this
  exact absurd this (by decide)

/-- swapped operands of `-`: `3 - 1` is 2, `MinusI` with `y - x` returns -2. -/
example : ¬ Implements2 (genTermIn Gen.evalCtx mutatedMinus "Int" "doubleArgs" "-") .int specMinusI := by
  rintro ⟨e, hk, hs⟩
  have hm : genTermIn Gen.evalCtx mutatedMinus "Int" "doubleArgs" "-" = some (.sub .y .x) := by decide
  rw [hm] at hk
  cases hk
  have := (hs {} (.int 3) (.int 1) (by simp [cellInK, int64]) (by simp [cellInK, int64])).1
  have he : (FE.sub .y .x).eval {} (.int 3) (.int 1) = some (.int (wrap64 (1 - 3))) := by
    simp [FE.eval, FE.evalV, FV.ofCell, FV.toCell]
  rw [he] at this
  exact absurd this (by decide)

/-- wrap-around matters: a `PlusI` that did not wrap (unbounded `x + y`) would differ from the spec at MaxInt64 + 1 -/
example : specPlusI (.int 9223372036854775807) (.int 1) = .int (-9223372036854775808) := by decide

/-- `abs` without the wrap of `-x` (unbounded negation) would differ at MinInt64 -/
example : (FE.ite (.cmp "<" .x (.intLit 0)) (.neg .x) .x).eval {} (.int (-9223372036854775808)) (.int 0)
    ≠ some (.int 9223372036854775808) := by
  rw [abs_minInt64]; decide

/-- a `ConcatS` that returned nil as soon as one side is nil (SQL style) is not the spec's: "a" + nil = "a" -/
example : (FE.ite (.or (.cmp "==" .x .nil) (.cmp "==" .y .nil)) .nil (.addr (.add (.deref .x) (.deref .y)))).eval {}
      (.str (some [97])) (.str none) = some (.str none) := by
  simp [FE.eval, FE.evalV, FV.ofCell, FV.toCell, fcmpV, fcmpPtr]

/-- an untranslated body has no meaning: nothing is implemented -/
example : ¬ Implements2 (some (FE.opaque "{ return f(x, y) }")) .int specPlusI := by
  rintro ⟨e, hk, hs⟩
  cases hk
  have := (hs {} (.int 0) (.int 0) (by simp [cellInK, int64]) (by simp [cellInK, int64])).1
  simp [FE.eval, FE.evalV] at this

end Examples

end QF.Props.C07Functions
