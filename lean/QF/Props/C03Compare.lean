import QF.Spec.Ops
import QF.Gen.Compare
/-!
# C03 (C04, C05) — the row comparators of today's source order and identify cells as the spec says (tie T1, by semantics)

`QF.Gen.compareAst` and `QF.Gen.comparableFields` (regenerated on every run by go/cmd/extract/cast.go) hold, for each of
the five column packages, `Comparable.Compare` as a decision tree `QF.CE` and `Column.Comparable(reverse, equalNull,
nullLast)` as a list of guarded assignments to the five result fields; `CE.eval` / `runFields` (QF/Core/CExpr.lean) are
their Go meaning. This file proves, for the terms generated TODAY:

* `gen_compare_no_opaque`  — both functions of every package were translated completely
* `gen_compare_semantics`  — for every column type, every (reverse, equalNull, nullLast) and ALL cells `x`, `y` of the type:
                             `Compare` with the fields `Comparable` assigns returns
                               `LessThan`    iff `keyCmp c {reverse, nullLast} x y = .lt`
                               `GreaterThan` iff `keyCmp … = .gt`
                               `Equal`       iff `keyCmp … = .eq` and not (both cells null and ¬equalNull)
                               `NotEqual`    iff both cells null and ¬equalNull
                             (`gen_compare_eq_spec`: it returns `specRes`, the function these four lines describe)
* `sorter_less_eq_rowLess` — `Sorter.Less` (first comparator that says LessThan / GreaterThan decides, Equal and NotEqual
                             fall through) over today's comparators of the sort keys is the spec's `rowLess`
* `gen_compare_keyEq`, `grouper_equals_eq_rowKeyEq` — `Compare … == Equal` with `Comparable(false, gbNull, false)` (what
                             GroupBy / Distinct use, qframe.go) is the spec's `keyEq`; grouper.go's `equals` over
                             today's comparators is the spec's `rowKeyEq`

Method (as in C02Kernels): `decide` shows that each generated tree IS the canonical tree of its type (`gen_compare_canon`)
and that the generated assignments produce the canonical fields for each of the 8 flag settings (`gen_fields_canon`);
lemmas proved once and for all (`canon_sem_*`) give the meaning of the canonical trees on every pair of cells.

"Cells of the type" (`wtCell`): an int / float / bool cell for such a column, a nullable string for a string column,
and for an enum column null or a member of the value table with rank < 255.
-/
namespace QF.Props.C03Compare
open QF

def pkgOf : CType → String
  | .int => "icolumn" | .float => "fcolumn" | .bool => "bcolumn" | .string => "scolumn" | .enum => "ecolumn" | .undef => ""

def tys : List CType := [.int, .float, .bool, .string, .enum]

/-! ## Today's comparator of a column type -/

/-- `Comparable(fl).Compare(i, j)` for the given translations, on the cells `x`, `y` at `i`, `j` -/
def compareIn (asts : List (String × CE)) (progs : List (String × List FStmt)) (ty : CType) (vals : List Bytes)
    (fl : CFlags) (x y : Cell) : Option CRes :=
  match asts.lookup (pkgOf ty), (progs.lookup (pkgOf ty)).bind (fun p => runFields p fl) with
  | some ast, some F => ast.eval ty vals F x y
  | _, _ => none

/-- … for today's source -/
def genCompare (ty : CType) (vals : List Bytes) (fl : CFlags) (x y : Cell) : Option CRes :=
  compareIn Gen.compareAst Gen.comparableFields ty vals fl x y

/-! ## Canonical terms -/

/-- one side is null: the non-null one decides -/
def nullChain (xN yN : CCond) : CE :=
  .ite (.not xN) (.ret (.field .nullGt)) (.ite (.not yN) (.ret (.field .nullLt)) (.ret (.field .equalNull)))

def ordChain (tail : CE) : CE :=
  .ite .xLtY (.ret (.field .lt)) (.ite .xGtY (.ret (.field .gt)) tail)

def canonCompare : CType → CE
  | .int => ordChain (.ret (.const .equal))
  | .float => ordChain (.ite (.or .xNaN .yNaN) (nullChain .xNaN .yNaN) (.ret (.const .equal)))
  | .bool => .ite .xEqY (.ret (.const .equal)) (.ite .xTrue (.ret (.field .gt)) (.ret (.field .lt)))
  | .string => .ite (.or .xNull .yNull) (nullChain .xNull .yNull) (ordChain (.ret (.const .equal)))
  | .enum => .ite (.or .xNull .yNull) (nullChain .xNull .yNull) (ordChain (.ret (.const .equal)))
  | .undef => .opaque ""

/-- the fields of `Comparable(reverse, equalNull, nullLast)` -/
def canonFields (fl : CFlags) : CFields where
  lt := if fl.reverse then .greaterThan else .lessThan
  gt := if fl.reverse then .lessThan else .greaterThan
  nullLt := if fl.reverse != fl.nullLast then .greaterThan else .lessThan
  nullGt := if fl.reverse != fl.nullLast then .lessThan else .greaterThan
  equalNull := if fl.equalNull then .equal else .notEqual

/-! ## Today's terms are the canonical ones (finite checks over `QF.Gen`, redone on every run) -/

theorem gen_compare_canon : ∀ ty ∈ tys, Gen.compareAst.lookup (pkgOf ty) = some (canonCompare ty) := by
  decide

theorem gen_fields_canon : ∀ ty ∈ tys, ∀ r ∈ [false, true], ∀ e ∈ [false, true], ∀ n ∈ [false, true],
    (Gen.comparableFields.lookup (pkgOf ty)).bind (fun p => runFields p ⟨r, e, n⟩) = some (canonFields ⟨r, e, n⟩) := by
  decide

/-- `Compare` and `Comparable` of each of the five packages were found and neither translates to (a term containing)
`.opaque`. -/
theorem gen_compare_no_opaque :
    Gen.compareAst.map (·.1) = tys.map pkgOf ∧ Gen.comparableFields.map (·.1) = tys.map pkgOf ∧
    (∀ p ∈ Gen.compareAst, p.2.hasOpaque = false) ∧ (∀ p ∈ Gen.comparableFields, ∀ s ∈ p.2, s.isOpaque = false) := by
  decide

/-- The constants of `column.CompareResult` are the four of `CRes`, `LessThan` first: the zero value of a result field
that `Comparable` does not set is `LessThan` (`CFields.zero`). -/
theorem gen_compare_consts : Gen.compareResultConsts = ["LessThan", "GreaterThan", "Equal", "NotEqual"] := by
  decide

theorem genCompare_eq_canon {ty : CType} (hty : ty ∈ tys) (vals : List Bytes) (fl : CFlags) (x y : Cell) :
    genCompare ty vals fl x y = (canonCompare ty).eval ty vals (canonFields fl) x y := by
  have hb : ∀ b : Bool, b ∈ [false, true] := by intro b; cases b <;> simp
  have h1 := gen_compare_canon ty hty
  have h2 := gen_fields_canon ty hty fl.reverse (hb _) fl.equalNull (hb _) fl.nullLast (hb _)
  unfold genCompare compareIn
  rw [h1, h2]

/-! ## What the spec says a comparator returns -/

/-- The result of `Compare` according to the spec: the order of `keyCmp`; two nulls are `Equal` only with `equalNull`. -/
def specRes (c : LCol) (o : Order) (equalNull : Bool) (x y : Cell) : CRes :=
  match keyCmp c o x y with
  | .lt => .lessThan
  | .gt => .greaterThan
  | .eq => if x.isNull && y.isNull && !equalNull then .notEqual else .equal

/-! ## The meaning of the canonical terms, once and for all -/

theorem int_cmp (a b : Int) :
    (a < b ∧ ¬ b < a ∧ compare a b = .lt) ∨ (¬ a < b ∧ ¬ b < a ∧ compare a b = .eq) ∨ (¬ a < b ∧ b < a ∧ compare a b = .gt) := by
  rcases Int.lt_trichotomy a b with h | h | h
  · left; exact ⟨h, by omega, by simp [compare, compareOfLessAndEq, h]⟩
  · right; left; exact ⟨by omega, by omega, by simp [compare, compareOfLessAndEq, h]⟩
  · right; right; refine ⟨by omega, h, ?_⟩
    have h1 : ¬ a < b := by omega
    have h2 : ¬ a = b := by omega
    simp [compare, compareOfLessAndEq, h1, h2]

theorem nat_cmp (a b : Nat) :
    (a < b ∧ ¬ b < a ∧ compare a b = .lt) ∨ (¬ a < b ∧ ¬ b < a ∧ compare a b = .eq) ∨ (¬ a < b ∧ b < a ∧ compare a b = .gt) := by
  rcases Nat.lt_trichotomy a b with h | h | h
  · left; exact ⟨h, by omega, by simp [compare, compareOfLessAndEq, h]⟩
  · right; left; exact ⟨by omega, by omega, by simp [compare, compareOfLessAndEq, h]⟩
  · right; right; refine ⟨by omega, h, ?_⟩
    have h1 : ¬ a < b := by omega
    have h2 : ¬ a = b := by omega
    simp [compare, compareOfLessAndEq, h1, h2]

theorem enum_ok {vals : List Bytes} {s : Bytes} (h : wtCell .enum vals (.str (some s)) = true) :
    ∃ i, enumRank vals s = some i ∧ i < 255 := by
  simp only [wtCell, cellVal] at h
  split at h
  · rename_i i hi
    split at h
    · rename_i hl; exact ⟨i, hi, hl⟩
    · simp at h
  · simp at h

theorem canon_sem_int (c : LCol) (o : Order) (e : Bool) (a b : Int) :
    (canonCompare .int).eval .int c.vals (canonFields ⟨o.reverse, e, o.nullLast⟩) (.int a) (.int b) =
      some (specRes c o e (.int a) (.int b)) := by
  rcases int_cmp a b with ⟨h, h', hc⟩ | ⟨h, h', hc⟩ | ⟨h, h', hc⟩ <;>
  cases hr : o.reverse <;> cases hn : o.nullLast <;>
  simp [canonCompare, ordChain, CE.eval, CCond.eval, cmpCells, cellVal, cmpV, cmpInt, CRet.val, CFields.get, canonFields,
    specRes, keyCmp, Cell.isNull, cellCmp, Ordering.swap, hc, hr, h, h']

theorem canon_sem_float (c : LCol) (o : Order) (e : Bool) (a b : UInt64) :
    (canonCompare .float).eval .float c.vals (canonFields ⟨o.reverse, e, o.nullLast⟩) (.float a) (.float b) =
      some (specRes c o e (.float a) (.float b)) := by
  cases hx : F64.isNaN a <;> cases hy : F64.isNaN b <;>
  rcases int_cmp (F64.key a) (F64.key b) with ⟨h, h', hc⟩ | ⟨h, h', hc⟩ | ⟨h, h', hc⟩ <;>
  cases hr : o.reverse <;> cases hn : o.nullLast <;> cases e <;>
  simp [canonCompare, ordChain, nullChain, CE.eval, CCond.eval, cmpCells, nanOf, cellVal, cmpV, cmpFlt, F64.lt, CRet.val,
    CFields.get, canonFields, specRes, keyCmp, Cell.isNull, cellCmp, Ordering.swap, hx, hy, hc, hr, hn, h, h']

theorem canon_sem_bool (c : LCol) (o : Order) (e : Bool) (a b : Bool) :
    (canonCompare .bool).eval .bool c.vals (canonFields ⟨o.reverse, e, o.nullLast⟩) (.bool a) (.bool b) =
      some (specRes c o e (.bool a) (.bool b)) := by
  cases a <;> cases b <;> cases hr : o.reverse <;>
  simp [canonCompare, CE.eval, CCond.eval, cmpCells, trueOf, cellVal, cmpV, cmpBool, CRet.val, CFields.get, canonFields,
    specRes, keyCmp, Cell.isNull, cellCmp, Ordering.swap, compare, compareOfLessAndEq, hr]

theorem canon_sem_string (c : LCol) (hty : c.ty = .string) (o : Order) (e : Bool) (s t : Option Bytes) :
    (canonCompare .string).eval .string c.vals (canonFields ⟨o.reverse, e, o.nullLast⟩) (.str s) (.str t) =
      some (specRes c o e (.str s) (.str t)) := by
  rcases s with _ | u <;> rcases t with _ | v
  · cases hr : o.reverse <;> cases e <;>
    simp [canonCompare, nullChain, CE.eval, CCond.eval, nullOf, CRet.val, CFields.get, canonFields, specRes, keyCmp,
      Cell.isNull, Ordering.swap, hr]
  · cases hr : o.reverse <;> cases hn : o.nullLast <;>
    simp [canonCompare, nullChain, CE.eval, CCond.eval, nullOf, CRet.val, CFields.get, canonFields, specRes, keyCmp,
      Cell.isNull, Ordering.swap, hr, hn]
  · cases hr : o.reverse <;> cases hn : o.nullLast <;>
    simp [canonCompare, nullChain, CE.eval, CCond.eval, nullOf, CRet.val, CFields.get, canonFields, specRes, keyCmp,
      Cell.isNull, Ordering.swap, hr, hn]
  · cases hc : bytesCmp u v <;> cases hr : o.reverse <;>
    simp [canonCompare, ordChain, CE.eval, CCond.eval, nullOf, cmpCells, cellVal, cmpV, cmpStr, CRet.val, CFields.get,
      canonFields, specRes, keyCmp, Cell.isNull, cellCmp, Ordering.swap, hty, hc, hr]

theorem canon_sem_enum (c : LCol) (hty : c.ty = .enum) (o : Order) (e : Bool) (s t : Option Bytes)
    (hx : wtCell .enum c.vals (.str s) = true) (hy : wtCell .enum c.vals (.str t) = true) :
    (canonCompare .enum).eval .enum c.vals (canonFields ⟨o.reverse, e, o.nullLast⟩) (.str s) (.str t) =
      some (specRes c o e (.str s) (.str t)) := by
  rcases s with _ | u <;> rcases t with _ | v
  · cases hr : o.reverse <;> cases e <;>
    simp [canonCompare, nullChain, CE.eval, CCond.eval, nullOf, cellVal, enumNull, CRet.val, CFields.get, canonFields,
      specRes, keyCmp, Cell.isNull, Ordering.swap, hr]
  · obtain ⟨j, hj, hjl⟩ := enum_ok hy
    have hjn : (j == 255) = false := by simp; omega
    cases hr : o.reverse <;> cases hn : o.nullLast <;>
    simp [canonCompare, nullChain, CE.eval, CCond.eval, nullOf, cellVal, enumNull, CRet.val, CFields.get, canonFields,
      specRes, keyCmp, Cell.isNull, Ordering.swap, hr, hn, hj, hjl, hjn]
  · obtain ⟨i, hi, hil⟩ := enum_ok hx
    have hin : (i == 255) = false := by simp; omega
    cases hr : o.reverse <;> cases hn : o.nullLast <;>
    simp [canonCompare, nullChain, CE.eval, CCond.eval, nullOf, cellVal, enumNull, CRet.val, CFields.get, canonFields,
      specRes, keyCmp, Cell.isNull, Ordering.swap, hr, hn, hi, hil, hin]
  · obtain ⟨i, hi, hil⟩ := enum_ok hx
    obtain ⟨j, hj, hjl⟩ := enum_ok hy
    have hin : (i == 255) = false := by simp; omega
    have hjn : (j == 255) = false := by simp; omega
    rcases nat_cmp i j with ⟨h, h', hc⟩ | ⟨h, h', hc⟩ | ⟨h, h', hc⟩ <;>
    cases hr : o.reverse <;> cases hn : o.nullLast <;>
    simp [canonCompare, ordChain, CE.eval, CCond.eval, nullOf, cmpCells, cellVal, cmpV, cmpNat, enumNull, CRet.val,
      CFields.get, canonFields, specRes, keyCmp, Cell.isNull, cellCmp, Ordering.swap, hty, hi, hj, hil, hjl, hin, hjn, hc,
      hr, h, h']

/-- The canonical comparator of a type with the canonical fields returns what the spec says, on every pair of cells. -/
theorem canon_sem (c : LCol) (hty : c.ty ∈ tys) (o : Order) (e : Bool) (x y : Cell)
    (hx : wtCell c.ty c.vals x = true) (hy : wtCell c.ty c.vals y = true) :
    (canonCompare c.ty).eval c.ty c.vals (canonFields ⟨o.reverse, e, o.nullLast⟩) x y = some (specRes c o e x y) := by
  cases h : c.ty <;> rw [h] at hx hy hty
  · cases x <;> simp [wtCell, cellVal] at hx
    cases y <;> simp [wtCell, cellVal] at hy
    exact canon_sem_int c o e _ _
  · cases x <;> simp [wtCell, cellVal] at hx
    cases y <;> simp [wtCell, cellVal] at hy
    exact canon_sem_float c o e _ _
  · cases x <;> simp [wtCell, cellVal] at hx
    cases y <;> simp [wtCell, cellVal] at hy
    exact canon_sem_bool c o e _ _
  · cases x <;> simp [wtCell, cellVal] at hx
    cases y <;> simp [wtCell, cellVal] at hy
    exact canon_sem_string c h o e _ _
  · rcases x with _ | _ | _ | s
    · simp [wtCell, cellVal] at hx
    · simp [wtCell, cellVal] at hx
    · simp [wtCell, cellVal] at hx
    rcases y with _ | _ | _ | t
    · simp [wtCell, cellVal] at hy
    · simp [wtCell, cellVal] at hy
    · simp [wtCell, cellVal] at hy
    exact canon_sem_enum c h o e s t hx hy
  · simp [tys] at hty

/-! ## Today's comparators return what the spec says -/

/-- Today's `Compare` with the fields today's `Comparable(o.reverse, equalNull, o.nullLast)` assigns returns `specRes`:
every column type, every flag setting, ALL cells of the type. -/
theorem gen_compare_eq_spec (c : LCol) (hty : c.ty ∈ tys) (o : Order) (equalNull : Bool) (x y : Cell)
    (hx : wtCell c.ty c.vals x = true) (hy : wtCell c.ty c.vals y = true) :
    genCompare c.ty c.vals ⟨o.reverse, equalNull, o.nullLast⟩ x y = some (specRes c o equalNull x y) := by
  rw [genCompare_eq_canon hty]
  exact canon_sem c hty o equalNull x y hx hy

theorem specRes_lt (c : LCol) (o : Order) (e : Bool) (x y : Cell) : specRes c o e x y = .lessThan ↔ keyCmp c o x y = .lt := by
  unfold specRes; cases keyCmp c o x y <;> simp <;> split <;> simp

theorem specRes_gt (c : LCol) (o : Order) (e : Bool) (x y : Cell) : specRes c o e x y = .greaterThan ↔ keyCmp c o x y = .gt := by
  unfold specRes; cases keyCmp c o x y <;> simp <;> split <;> simp

theorem specRes_eq (c : LCol) (o : Order) (e : Bool) (x y : Cell) :
    specRes c o e x y = .equal ↔ (keyCmp c o x y = .eq ∧ ¬ (x.isNull = true ∧ y.isNull = true ∧ e = false)) := by
  unfold specRes; cases keyCmp c o x y <;> cases x.isNull <;> cases y.isNull <;> cases e <;> simp

/-- two nulls never compare `.lt` / `.gt` -/
theorem keyCmp_null (c : LCol) (o : Order) (x y : Cell) (hx : x.isNull = true) (hy : y.isNull = true) : keyCmp c o x y = .eq := by
  unfold keyCmp; cases o.reverse <;> simp [hx, hy, Ordering.swap]

theorem specRes_ne (c : LCol) (o : Order) (e : Bool) (x y : Cell) :
    specRes c o e x y = .notEqual ↔ (x.isNull = true ∧ y.isNull = true ∧ e = false) := by
  constructor
  · unfold specRes; cases keyCmp c o x y <;> cases x.isNull <;> cases y.isNull <;> cases e <;> simp
  · rintro ⟨hx, hy, he⟩
    simp [specRes, keyCmp_null c o x y hx hy, hx, hy, he]

/-- **The comparators of today's source order and identify cells as the spec says.** For every column type, every setting
of (reverse, equalNull, nullLast) and all cells `x`, `y` of the type, `Comparable(reverse, equalNull, nullLast).Compare`
on (`x`, `y`) returns a result `r` with: `LessThan` iff `keyCmp = .lt`; `GreaterThan` iff `keyCmp = .gt`; `Equal` iff
`keyCmp = .eq` and not (both null and ¬equalNull); `NotEqual` iff both null and ¬equalNull. -/
theorem gen_compare_semantics (c : LCol) (hty : c.ty ∈ tys) (o : Order) (equalNull : Bool) (x y : Cell)
    (hx : wtCell c.ty c.vals x = true) (hy : wtCell c.ty c.vals y = true) :
    ∃ r, genCompare c.ty c.vals ⟨o.reverse, equalNull, o.nullLast⟩ x y = some r ∧
      (r = .lessThan ↔ keyCmp c o x y = .lt) ∧
      (r = .greaterThan ↔ keyCmp c o x y = .gt) ∧
      (r = .equal ↔ (keyCmp c o x y = .eq ∧ ¬ (x.isNull = true ∧ y.isNull = true ∧ equalNull = false))) ∧
      (r = .notEqual ↔ (x.isNull = true ∧ y.isNull = true ∧ equalNull = false)) :=
  ⟨_, gen_compare_eq_spec c hty o equalNull x y hx hy, specRes_lt .., specRes_gt .., specRes_eq .., specRes_ne ..⟩

/-! ## Sort: `Sorter.Less` over today's comparators is `rowLess` -/

/-- internal/sort/sorter.go, `Sorter.Less` (`di`, `dj` are the rows `s.index[i]`, `s.index[j]`):

    for _, s := range s.columns { r := s.Compare(di, dj)
      if r == column.LessThan { return true }; if r == column.GreaterThan { return false } }
    return false                                                                                   -/
def sorterLess : List (Nat → Nat → Option CRes) → Nat → Nat → Option Bool
  | [], _, _ => some false
  | s :: ss, di, dj =>
    match s di dj with
    | none => none
    | some r => if r = .lessThan then some true else if r = .greaterThan then some false else sorterLess ss di dj

/-- The comparator `QFrame.Sort` builds for a key (qframe.go: `s.Comparable(o.Reverse, false, o.NullLast)`; stated for
any `equalNull`, which `Less` cannot observe), on row numbers. -/
def sortComparator (equalNull : Bool) (k : LCol × Order) : Nat → Nat → Option CRes :=
  fun i j => genCompare k.1.ty k.1.vals ⟨k.2.reverse, equalNull, k.2.nullLast⟩ k.1.cells[i]! k.1.cells[j]!

/-- the two rows hold cells of the column's type -/
def rowsOk (c : LCol) (r1 r2 : Nat) : Prop :=
  c.ty ∈ tys ∧ wtCell c.ty c.vals c.cells[r1]! = true ∧ wtCell c.ty c.vals c.cells[r2]! = true

/-- `Sorter.Less` over today's comparators of the keys is the spec's `rowLess` on the keys. -/
theorem sorter_less_eq_rowLess (f : LFrame) (keys : List (LCol × Order)) (equalNull : Bool) (r1 r2 : Nat)
    (hk : ∀ k ∈ keys, rowsOk k.1 r1 r2) :
    sorterLess (keys.map (sortComparator equalNull)) r1 r2 = some (rowLess f keys r1 r2) := by
  induction keys with
  | nil => simp [sorterLess, rowLess]
  | cons k ks ih =>
    obtain ⟨c, o⟩ := k
    have hc := hk (c, o) (by simp)
    have hs := gen_compare_eq_spec c hc.1 o equalNull _ _ hc.2.1 hc.2.2
    have ih' := ih (fun k hk' => hk k (by simp [hk']))
    simp only [List.map_cons, sorterLess, sortComparator, hs, rowLess]
    unfold specRes
    cases hkc : keyCmp c o c.cells[r1]! c.cells[r2]!
    · simp
    · simp only
      split <;> simpa using ih'
    · simp

/-! ## GroupBy / Distinct: `Compare == Equal` is the spec's key equality -/

theorem cellCmp_isSome (c : LCol) (hty : c.ty ∈ tys) (x y : Cell) (hx : wtCell c.ty c.vals x = true)
    (hy : wtCell c.ty c.vals y = true) (hxn : x.isNull = false) (hyn : y.isNull = false) : (cellCmp c x y).isSome = true := by
  cases h : c.ty <;> rw [h] at hx hy hty
  · cases x <;> simp [wtCell, cellVal] at hx
    cases y <;> simp [wtCell, cellVal] at hy
    simp [cellCmp]
  · cases x <;> simp [wtCell, cellVal] at hx
    cases y <;> simp [wtCell, cellVal] at hy
    simp only [Cell.isNull] at hxn hyn
    simp [cellCmp, hxn, hyn]
  · cases x <;> simp [wtCell, cellVal] at hx
    cases y <;> simp [wtCell, cellVal] at hy
    simp [cellCmp]
  · rcases x with _ | _ | _ | (_ | u) <;> simp [wtCell, cellVal, Cell.isNull] at hx hxn
    rcases y with _ | _ | _ | (_ | v) <;> simp [wtCell, cellVal, Cell.isNull] at hy hyn
    simp [cellCmp, h]
  · rcases x with _ | _ | _ | (_ | u)
    · simp [wtCell, cellVal] at hx
    · simp [wtCell, cellVal] at hx
    · simp [wtCell, cellVal] at hx
    · simp [Cell.isNull] at hxn
    rcases y with _ | _ | _ | (_ | v)
    · simp [wtCell, cellVal] at hy
    · simp [wtCell, cellVal] at hy
    · simp [wtCell, cellVal] at hy
    · simp [Cell.isNull] at hyn
    obtain ⟨i, hi, _⟩ := enum_ok hx
    obtain ⟨j, hj, _⟩ := enum_ok hy
    simp [cellCmp, h, hi, hj]
  · simp [tys] at hty

/-- the `Order` of a grouping key: `Comparable(false, gbNull, false)` -/
def groupOrder : Order := ⟨[], false, false⟩

theorem specRes_keyEq (c : LCol) (hty : c.ty ∈ tys) (gbNull : Bool) (x y : Cell) (hx : wtCell c.ty c.vals x = true)
    (hy : wtCell c.ty c.vals y = true) : (specRes c groupOrder gbNull x y = .equal) ↔ keyEq gbNull c x y = true := by
  have hs := cellCmp_isSome c hty x y hx hy
  unfold specRes keyCmp keyEq groupOrder
  cases hxn : x.isNull <;> cases hyn : y.isNull
  · have := hs hxn hyn
    cases hc : cellCmp c x y with
    | none => simp [hc] at this
    | some r => cases r <;> simp <;> decide
  · simp
  · simp
  · cases gbNull <;> simp

/-- `Compare(i, j) == column.Equal` with the comparator GroupBy and Distinct build (qframe.go:
`Comparable(false, groupByNull, false)`) is the spec's key equality `keyEq`: every column type, both settings of
`groupByNull`, ALL cells of the type. -/
theorem gen_compare_keyEq (c : LCol) (hty : c.ty ∈ tys) (gbNull : Bool) (x y : Cell)
    (hx : wtCell c.ty c.vals x = true) (hy : wtCell c.ty c.vals y = true) :
    ∃ r, genCompare c.ty c.vals ⟨false, gbNull, false⟩ x y = some r ∧ (r = .equal ↔ keyEq gbNull c x y = true) :=
  ⟨_, gen_compare_eq_spec c hty groupOrder gbNull x y hx hy, specRes_keyEq c hty gbNull x y hx hy⟩

/-- internal/grouper/grouper.go, `equals`:

    for _, c := range comparables { if c.Compare(i, j) != column.Equal { return false } }
    return true                                                                            -/
def grouperEquals : List (Nat → Nat → Option CRes) → Nat → Nat → Option Bool
  | [], _, _ => some true
  | c :: cs, i, j =>
    match c i j with
    | none => none
    | some r => if r ≠ .equal then some false else grouperEquals cs i j

def groupComparator (gbNull : Bool) (c : LCol) : Nat → Nat → Option CRes :=
  fun i j => genCompare c.ty c.vals ⟨false, gbNull, false⟩ c.cells[i]! c.cells[j]!

/-- grouper.go's `equals` over today's comparators of the key columns is the spec's `rowKeyEq` (which `groupsS` and
`isDistinctResult` are built on). -/
theorem grouper_equals_eq_rowKeyEq (gbNull : Bool) (keys : List LCol) (r1 r2 : Nat) (hk : ∀ c ∈ keys, rowsOk c r1 r2) :
    grouperEquals (keys.map (groupComparator gbNull)) r1 r2 = some (rowKeyEq gbNull keys r1 r2) := by
  induction keys with
  | nil => simp [grouperEquals, rowKeyEq]
  | cons c cs ih =>
    have hc := hk c (by simp)
    have hs := gen_compare_eq_spec c hc.1 groupOrder gbNull _ _ hc.2.1 hc.2.2
    have he := specRes_keyEq c hc.1 gbNull _ _ hc.2.1 hc.2.2
    have ih' := ih (fun k hk' => hk k (by simp [hk']))
    simp only [groupOrder] at hs
    simp only [List.map_cons, grouperEquals, groupComparator, hs]
    simp only [rowKeyEq, List.all_cons] at ih' ⊢
    by_cases h : specRes c groupOrder gbNull c.cells[r1]! c.cells[r2]! = .equal
    · have := he.1 h
      simp only [groupOrder] at h
      simp [h, this, ih']
    · have : keyEq gbNull c c.cells[r1]! c.cells[r2]! = false := by
        cases hq : keyEq gbNull c c.cells[r1]! c.cells[r2]!
        · rfl
        · exact absurd (he.2 hq) h
      simp only [groupOrder] at h
      simp [h, this]

/-! ## Witnesses: the statement tells wrong comparators apart -/

def inf : UInt64 := 0x7ff0000000000000

/-- What the translator emits for `fcolumn`'s `Compare` rewritten to order by the sign of `d := x - y` (+Inf − +Inf is
NaN, so such a comparator reports two equal infinities as unordered or null): arithmetic on the cells has no term in
`CE`, the tests on `d` become `.opaque`, … -/
def bySubtraction : CE :=
  .ite (.opaque "d < 0") (.ret (.field .lt)) (.ite (.opaque "d > 0") (.ret (.field .gt))
    (.ite (.or .xNaN .yNaN) (nullChain .xNaN .yNaN) (.ret (.const .equal))))

/-- … the term is reported by the `hasOpaque` check, has no value, and so does not satisfy `gen_compare_semantics`. -/
example : bySubtraction.hasOpaque = true ∧
    bySubtraction.eval .float [] (canonFields ⟨false, false, false⟩) (.float inf) (.float inf) = none := by
  decide

/-- `Comparable` with the `nullLast` swap applied before (and so undone by) the `reverse` exchange of the pairs: -/
def swappedFields : List FStmt := [
  .assign [] [.lt, .gt, .nullLt, .nullGt, .equalNull] [.const .lessThan, .const .greaterThan, .const .lessThan, .const .greaterThan, .const .notEqual],
  .assign [(.reverse, true)] [.lt, .nullLt, .gt, .nullGt] [.field .gt, .field .nullGt, .field .lt, .field .nullLt],
  .assign [(.nullLast, true), (.reverse, false)] [.nullLt, .nullGt] [.field .nullGt, .field .nullLt],
  .assign [(.equalNull, true)] [.equalNull] [.const .equal]]

/-- under Reverse + NullLast it leaves `nullLtValue` / `nullGtValue` exchanged: a null string against "a" compares
`GreaterThan` although the spec (`keyCmp`: NullLast puts null last, Reverse inverts that) orders it first. -/
example :
    let c : LCol := { name := [], ty := .string, cells := #[] }
    let o : Order := ⟨[], true, true⟩
    (runFields swappedFields ⟨true, false, true⟩).bind (fun F => (canonCompare .string).eval .string [] F (.str none) (.str (some [97])))
      = some .greaterThan ∧ keyCmp c o (.str none) (.str (some [97])) = .lt := by
  decide

end QF.Props.C03Compare
