import QF.Props.C04GrouperGen
import QF.Props.C05Distinct
/-!
# C05 — the regenerated `Distinct` keeps the first row of every key class

`Distinct` runs the table with `collectIx = false` (`G.distinct`), the specification `C05.distinct_spec` speaks about
the first rows of the groups of `G.groupBy` (`collectIx = true`). This file closes the gap on the mirror —

* `groupIndex_strip` : the table built without collecting rows is the table built with collecting rows, with the rows of
  every entry dropped (same slots, same hashes, same first rows, same statistics): nothing in the probe, the growth
  check or the relocation reads `ix`;
* `HeadInv` : the rows of an entry, once there are any, start with its first row;
* `distinct_eq_distinctOf` : `G.distinct = (G.groupBy).map C05.distinctOf` — for every hash function and key relation,

and states `C05.distinct_spec` for the programs extracted from today's source (`gen_distinct_spec`).
-/
namespace QF.Props.C04GrouperGen
open QF QF.GL G
set_option linter.unusedSimpArgs false
set_option linter.unusedVariables false

/-! ## dropping the collected rows -/

def stripE (e : G.Entry) : G.Entry := { e with ix := [] }
def stripO (x : Option G.Entry) : Option G.Entry := x.map stripE
def stripS (a : Array (Option G.Entry)) : Array (Option G.Entry) := a.map stripO
def stripT (t : G.Tbl) : G.Tbl := { t with slots := stripS t.slots }

@[simp] theorem stripS_size (a : Array (Option G.Entry)) : (stripS a).size = a.size := by simp [stripS]
theorem stripS_get (a : Array (Option G.Entry)) (p : Nat) : (stripS a)[p]? = (a[p]?).map stripO := by simp [stripS]
@[simp] theorem stripE_hash (e : G.Entry) : (stripE e).hash = e.hash := rfl
@[simp] theorem stripE_firstPos (e : G.Entry) : (stripE e).firstPos = e.firstPos := rfl

theorem stripS_set (a : Array (Option G.Entry)) (p : Nat) (x : Option G.Entry) :
    stripS (a.setIfInBounds p x) = (stripS a).setIfInBounds p (stripO x) := by
  apply Array.ext_getElem?
  intro i
  simp only [stripS_get, Array.getElem?_setIfInBounds, stripS_size]
  by_cases h : p = i
  · subst h; by_cases hp : p < a.size <;> simp [hp]
  · simp [h]

/-- replacing an entry by one that differs only in its rows is invisible after stripping -/
theorem stripS_set_same (a : Array (Option G.Entry)) (p : Nat) (e e' : G.Entry) (h : a[p]? = some (some e)) (he : stripE e' = stripE e) :
    stripS (a.setIfInBounds p (some e')) = stripS a := by
  apply Array.ext_getElem?
  intro i
  rw [stripS_set]
  simp only [Array.getElem?_setIfInBounds, stripS_size]
  by_cases hi : p = i
  · subst hi
    have hp : p < a.size := by
      rcases Nat.lt_or_ge p a.size with h' | h'
      · exact h'
      · rw [Array.getElem?_eq_none h'] at h; cases h
    rw [if_pos rfl, if_pos hp, stripS_get, h]
    simp [stripO, he]
  · simp [hi]

theorem stripS_replicate (N : Nat) : stripS (Array.replicate N none) = Array.replicate N none := by
  apply Array.ext_getElem?
  intro i
  rw [stripS_get]
  simp only [Array.getElem?_replicate]
  split <;> rfl

variable (hash : Nat → Nat) (eqv : Nat → Nat → Bool)

theorem probe_strip (slots : Array (Option G.Entry)) (i h : Nat) : ∀ (f pos c : Nat),
    probe eqv (stripS slots) i h f pos c = probe eqv slots i h f pos c := by
  intro f
  induction f with
  | zero => intro pos c; rfl
  | succ f ih =>
    intro pos c
    unfold probe
    rw [stripS_get, stripS_size]
    cases hv : slots[pos]? with
    | none => rfl
    | some o =>
      cases o with
      | none => rfl
      | some e => simp [stripO, ih]

theorem placeFrom_strip (e : G.Entry) : ∀ (f : Nat) (ns : Array (Option G.Entry)) (pos c : Nat),
    placeFrom (stripS ns) (stripE e) f pos c = (placeFrom ns e f pos c).map fun r => (stripS r.1, r.2) := by
  intro f
  induction f with
  | zero => intro ns pos c; rfl
  | succ f ih =>
    intro ns pos c
    unfold placeFrom
    rw [stripS_get, stripS_size]
    cases hv : ns[pos]? with
    | none => rfl
    | some o =>
      cases o with
      | none => simp [stripO, stripS_set]
      | some e' => simp [stripO, ih]

theorem skipFrom_strip : ∀ (f : Nat) (ns : Array (Option G.Entry)) (pos c : Nat),
    skipFrom (stripS ns) f pos c = skipFrom ns f pos c := by
  intro f
  induction f with
  | zero => intro ns pos c; rfl
  | succ f ih =>
    intro ns pos c
    unfold skipFrom
    rw [stripS_get, stripS_size]
    cases hv : ns[pos]? with
    | none => rfl
    | some o =>
      cases o with
      | none => rfl
      | some e' => simp [stripO, ih]

def stripR (r : Option (Array (Option G.Entry) × Nat)) : Option (Array (Option G.Entry) × Nat) := r.map fun p => (stripS p.1, p.2)

theorem growStep_strip (N : Nat) (acc : Option (Array (Option G.Entry) × Nat)) (x : Option G.Entry) :
    growStep N (stripR acc) (stripO x) = stripR (growStep N acc x) := by
  cases acc with
  | none => cases x <;> rfl
  | some r =>
    obtain ⟨ns, c⟩ := r
    cases x with
    | none =>
      simp only [stripR, stripO, Option.map_some, Option.map_none, growStep]
      rw [skipFrom_strip]
      cases skipFrom ns (N + 1) (0 % N) c <;> rfl
    | some e =>
      simp only [stripR, stripO, Option.map_some, growStep]
      rw [placeFrom_strip, stripE_hash]

theorem growFold_strip (N : Nat) : ∀ (l : List (Option G.Entry)) (acc : Option (Array (Option G.Entry) × Nat)),
    (l.map stripO).foldl (growStep N) (stripR acc) = stripR (l.foldl (growStep N) acc) := by
  intro l
  induction l with
  | nil => intro acc; rfl
  | cons x l ih => intro acc; simp only [List.map_cons, List.foldl_cons, growStep_strip, ih]

theorem grow_strip (t : G.Tbl) : grow {} (stripT t) = (grow {} t).map stripT := by
  have key : ∀ (t : G.Tbl), grow {} t =
      (t.slots.toList.foldl (growStep (2 * t.slots.size)) (some (Array.replicate (2 * t.slots.size) none, t.relocCollisions))).map
        (fun (p : Array (Option G.Entry) × Nat) => ({ t with slots := p.1, relocCollisions := p.2, relocCount := t.relocCount + 1, lfDen := t.lfDen * 2 } : G.Tbl)) := by
    intro t; unfold grow; simp only []; rw [← Array.foldl_toList]; rfl
  rw [key, key]
  have hl : (stripT t).slots.toList = t.slots.toList.map stripO := by simp [stripT, stripS]
  have hs : (stripT t).slots.size = t.slots.size := by simp [stripT]
  have hinit : (some (Array.replicate (2 * t.slots.size) none, (stripT t).relocCollisions) : Option (Array (Option G.Entry) × Nat)) =
      stripR (some (Array.replicate (2 * t.slots.size) none, t.relocCollisions)) := by
    simp [stripR, stripS_replicate, stripT]
  rw [hl, hs, hinit, growFold_strip]
  cases List.foldl (growStep (2 * t.slots.size)) (some (Array.replicate (2 * t.slots.size) none, t.relocCollisions)) t.slots.toList with
  | none => rfl
  | some r => rfl

theorem growIfNeeded_strip (t : G.Tbl) : growIfNeeded {} (stripT t) = (growIfNeeded {} t).map stripT := by
  unfold growIfNeeded
  have h1 : (stripT t).lfNum = t.lfNum := rfl
  have h2 : (stripT t).lfDen = t.lfDen := rfl
  rw [h1, h2]
  split
  · exact grow_strip t
  · rfl

/-- an insertion without collecting rows into the stripped table is the insertion with collecting rows, stripped -/
theorem insertNoGrow_strip (t : G.Tbl) (i : Nat) :
    insertNoGrow hash eqv (stripT t) i false = (insertNoGrow hash eqv t i true).map stripT := by
  unfold insertNoGrow
  have hs : (stripT t).slots = stripS t.slots := rfl
  rw [hs, probe_strip, stripS_size]
  cases hpr : probe eqv t.slots i (hash i % 2 ^ 32) (t.slots.size + 1) (hash i % 2 ^ 32 % t.slots.size) 0 with
  | none => rfl
  | some r =>
    obtain ⟨p, c⟩ := r
    simp only [stripS_get]
    cases hv : t.slots[p]? with
    | none => rfl
    | some o =>
      cases o with
      | none =>
        simp only [Option.map_some, stripO, Option.map_none]
        simp only [stripT, stripS_size, stripS_set, stripO, Option.map_some, stripE]
      | some e =>
        simp only [Option.map_some, stripO, Bool.false_eq_true, ↓reduceIte]
        have : stripS (t.slots.setIfInBounds p (some (if e.ix.isEmpty then { e with ix := [e.firstPos, i] } else { e with ix := e.ix ++ [i] }))) = stripS t.slots := by
          apply stripS_set_same _ _ e _ hv
          split <;> rfl
        simp only [stripT, this]

theorem insertEntry_strip (t : G.Tbl) (i : Nat) :
    insertEntry {} hash eqv (stripT t) i false = (insertEntry {} hash eqv t i true).map stripT := by
  unfold insertEntry
  rw [growIfNeeded_strip]
  cases growIfNeeded {} t with
  | none => rfl
  | some t1 => simp only [Option.map_some, Option.bind_some]; exact insertNoGrow_strip hash eqv t1 i

theorem foldlM_strip : ∀ (ix : List Nat) (t : G.Tbl),
    ix.foldlM (fun t i => insertEntry {} hash eqv t i false) (stripT t) = (ix.foldlM (fun t i => insertEntry {} hash eqv t i true) t).map stripT := by
  intro ix
  induction ix with
  | nil => intro t; rfl
  | cons i ix ih =>
    intro t
    simp only [List.foldlM_cons, Option.bind_eq_bind]
    rw [insertEntry_strip]
    cases insertEntry {} hash eqv t i true with
    | none => rfl
    | some t1 => simp only [Option.map_some, Option.bind_some]; exact ih t1

/-- the table of `Distinct` is the table of `GroupBy` without the collected rows -/
theorem groupIndex_strip (ix : List Nat) : groupIndex {} hash eqv ix false = (groupIndex {} hash eqv ix true).map stripT := by
  unfold groupIndex
  have h0 : ({ slots := Array.replicate (2 ^ initialSizeExp ix.length) none } : G.Tbl) =
      stripT { slots := Array.replicate (2 ^ initialSizeExp ix.length) none } := by
    simp [stripT, stripS_replicate]
  rw [h0, foldlM_strip]
  rw [← h0]

/-! ## the rows of an entry start with its first row -/

def HeadOk (e : G.Entry) : Prop := e.ix = [] ∨ e.ix.head? = some e.firstPos

def HeadInv (a : Array (Option G.Entry)) : Prop := ∀ (s : Nat) (e : G.Entry), a[s]? = some (some e) → HeadOk e

theorem HeadInv_set (a : Array (Option G.Entry)) (p : Nat) (e : G.Entry) (h : HeadInv a) (he : HeadOk e) :
    HeadInv (a.setIfInBounds p (some e)) := by
  intro s e' hs
  rw [Array.getElem?_setIfInBounds] at hs
  by_cases hp : p = s
  · subst hp
    by_cases hlt : p < a.size
    · simp [hlt] at hs; subst hs; exact he
    · simp [hlt] at hs
  · simp only [hp, ↓reduceIte] at hs; exact h s e' hs

theorem placeFrom_head (e : G.Entry) (he : HeadOk e) : ∀ (f : Nat) (ns : Array (Option G.Entry)) (pos c : Nat) (ns' : Array (Option G.Entry)) (c' : Nat),
    HeadInv ns → placeFrom ns e f pos c = some (ns', c') → HeadInv ns' := by
  intro f
  induction f with
  | zero => intro ns pos c ns' c' _ h; simp [placeFrom] at h
  | succ f ih =>
    intro ns pos c ns' c' hinv h
    unfold placeFrom at h
    cases hv : ns[pos]? with
    | none => rw [hv] at h; cases h
    | some o =>
      rw [hv] at h
      cases o with
      | none => simp at h; rw [← h.1]; exact HeadInv_set ns pos e hinv he
      | some e' => exact ih ns _ _ ns' c' hinv h

theorem growFold_head (N : Nat) : ∀ (l : List (Option G.Entry)) (ns : Array (Option G.Entry)) (c : Nat) (ns' : Array (Option G.Entry)) (c' : Nat),
    (∀ e, some e ∈ l → HeadOk e) → HeadInv ns → l.foldl (growStep N) (some (ns, c)) = some (ns', c') → HeadInv ns' := by
  intro l
  induction l with
  | nil => intro ns c ns' c' _ hinv h; simp at h; rw [← h.1]; exact hinv
  | cons x l ih =>
    intro ns c ns' c' hl hinv h
    rw [List.foldl_cons] at h
    cases hstep : growStep N (some (ns, c)) x with
    | none => rw [hstep, growStep_none] at h; cases h
    | some r =>
      obtain ⟨ns1, c1⟩ := r
      rw [hstep] at h
      refine ih ns1 c1 ns' c' (fun e he => hl e (List.mem_cons_of_mem _ he)) ?_ h
      cases x with
      | none =>
        simp only [growStep] at hstep
        cases hsk : skipFrom ns (N + 1) (0 % N) c with
        | none => rw [hsk] at hstep; cases hstep
        | some c2 => rw [hsk] at hstep; simp at hstep; rw [← hstep.1]; exact hinv
      | some e =>
        simp only [growStep] at hstep
        exact placeFrom_head e (hl e (by simp)) _ ns _ _ ns1 c1 hinv hstep

theorem grow_head (t t' : G.Tbl) (hinv : HeadInv t.slots) (hg : grow {} t = some t') : HeadInv t'.slots := by
  have hg' : (t.slots.toList.foldl (growStep (2 * t.slots.size)) (some (Array.replicate (2 * t.slots.size) none, t.relocCollisions))).map
      (fun (p : Array (Option G.Entry) × Nat) => ({ t with slots := p.1, relocCollisions := p.2, relocCount := t.relocCount + 1, lfDen := t.lfDen * 2 } : G.Tbl)) = some t' := by
    rw [← hg]; unfold grow; simp only []; rw [← Array.foldl_toList]; rfl
  cases hfold : t.slots.toList.foldl (growStep (2 * t.slots.size)) (some (Array.replicate (2 * t.slots.size) none, t.relocCollisions)) with
  | none => rw [hfold] at hg'; cases hg'
  | some r =>
    obtain ⟨ns', c'⟩ := r
    rw [hfold] at hg'
    simp at hg'
    rw [← hg']
    refine growFold_head _ _ _ _ ns' c' ?_ ?_ hfold
    · intro e he
      obtain ⟨s, hs, hse⟩ := List.getElem_of_mem he
      refine hinv s e ?_
      have : t.slots.toList[s]? = some (some e) := by rw [List.getElem?_eq_getElem hs, hse]
      simpa using this
    · intro s e h
      rw [Array.getElem?_replicate] at h
      split at h <;> simp at h

theorem insertEntry_head (t t' : G.Tbl) (i : Nat) (hinv : HeadInv t.slots) (h : insertEntry {} hash eqv t i true = some t') :
    HeadInv t'.slots := by
  unfold insertEntry at h
  cases hgr : growIfNeeded {} t with
  | none => rw [hgr] at h; cases h
  | some t1 =>
    rw [hgr] at h
    simp only [Option.bind_some] at h
    have hinv1 : HeadInv t1.slots := by
      unfold growIfNeeded at hgr
      split at hgr
      · exact grow_head t t1 hinv hgr
      · cases hgr; exact hinv
    unfold insertNoGrow at h
    cases hpr : probe eqv t1.slots i (hash i % 2 ^ 32) (t1.slots.size + 1) (hash i % 2 ^ 32 % t1.slots.size) 0 with
    | none => rw [hpr] at h; cases h
    | some r =>
      obtain ⟨p, c⟩ := r
      rw [hpr] at h
      simp only at h
      cases hv : t1.slots[p]? with
      | none => rw [hv] at h; cases h
      | some o =>
        rw [hv] at h
        cases o with
        | none =>
          simp only at h
          rw [← Option.some.inj h]
          exact HeadInv_set _ _ _ hinv1 (Or.inl rfl)
        | some e =>
          simp only [↓reduceIte] at h
          rw [← Option.some.inj h]
          refine HeadInv_set _ _ _ hinv1 ?_
          have hok := hinv1 p e hv
          cases he : e.ix.isEmpty
          · simp only [he, Bool.false_eq_true, ↓reduceIte]
            have hne : e.ix ≠ [] := by intro h0; simp [h0] at he
            rcases hok with h0 | h0
            · exact absurd h0 hne
            · refine Or.inr ?_
              show (e.ix ++ [i]).head? = some e.firstPos
              cases hix : e.ix with
              | nil => exact absurd hix hne
              | cons a l => rw [hix] at h0; simpa using h0
          · simp only [↓reduceIte]
            exact Or.inr rfl

theorem foldlM_head : ∀ (ix : List Nat) (t t' : G.Tbl), HeadInv t.slots →
    ix.foldlM (fun t i => insertEntry {} hash eqv t i true) t = some t' → HeadInv t'.slots := by
  intro ix
  induction ix with
  | nil => intro t t' hinv h; simp at h; rw [← h]; exact hinv
  | cons i ix ih =>
    intro t t' hinv h
    simp only [List.foldlM_cons, Option.bind_eq_bind] at h
    cases h1 : insertEntry {} hash eqv t i true with
    | none => rw [h1] at h; cases h
    | some t1 =>
      rw [h1] at h
      exact ih t1 t' (insertEntry_head hash eqv t t1 i hinv h1) h

/-! ## `G.distinct` is the list of first rows of `G.groupBy` -/

theorem firstsOf_strip (l : List (Option G.Entry)) : firstsOf (l.map stripO) = firstsOf l := by
  induction l with
  | nil => rfl
  | cons x l ih =>
    cases x with
    | none => simpa [firstsOf, stripO] using ih
    | some e => simpa [firstsOf, stripO] using ih

theorem distinctOf_groupsOf (l : List (Option G.Entry)) (h : ∀ e, some e ∈ l → HeadOk e) :
    C05.distinctOf (groupsOf l) = firstsOf l := by
  induction l with
  | nil => rfl
  | cons x l ih =>
    have ih' := ih (fun e he => h e (List.mem_cons_of_mem _ he))
    cases x with
    | none => simpa [groupsOf, firstsOf, C05.distinctOf] using ih'
    | some e =>
      have hok := h e (by simp)
      simp only [groupsOf, firstsOf, C05.distinctOf, List.filterMap_cons, Option.map_some] at ih' ⊢
      cases he : e.ix.isEmpty
      · have hne : e.ix ≠ [] := by intro h0; simp [h0] at he
        rcases hok with h0 | h0
        · exact absurd h0 hne
        · simp only [Bool.false_eq_true, ↓reduceIte, h0]; rw [ih']
      · simp only [↓reduceIte, List.head?_cons]; rw [ih']

/-- For every hash function and key relation: `Distinct`'s table gives the first rows of `GroupBy`'s groups, in the same
(slot) order. -/
theorem distinct_eq_distinctOf (ix : List Nat) :
    G.distinct {} hash eqv ix = (G.groupBy {} hash eqv ix).map C05.distinctOf := by
  unfold G.distinct G.groupBy
  rw [groupIndex_strip]
  cases hg : groupIndex {} hash eqv ix true with
  | none => rfl
  | some t =>
    simp only [Option.map_some]
    have hinv : HeadInv t.slots := by
      unfold groupIndex at hg
      refine foldlM_head hash eqv ix _ t ?_ hg
      intro s e h
      rw [Array.getElem?_replicate] at h
      split at h <;> simp at h
    have h1 : (stripT t).slots.toList = t.slots.toList.map stripO := by simp [stripT, stripS]
    have h2 := distinctOf_groupsOf t.slots.toList (by
      intro e he
      obtain ⟨s, hs, hse⟩ := List.getElem_of_mem he
      refine hinv s e ?_
      have : t.slots.toList[s]? = some (some e) := by rw [List.getElem?_eq_getElem hs, hse]
      simpa using this)
    have h3 := firstsOf_strip t.slots.toList
    rw [h1]
    change some (firstsOf (t.slots.toList.map stripO)) = some (C05.distinctOf (groupsOf t.slots.toList))
    rw [h3, h2]

/-- **C05 for the regenerated code**: for a key relation that is an equivalence respected by the hash, reflexive on the rows
of a duplicate-free index of at most 2^30 rows, the `Distinct` extracted from today's source returns each key's FIRST row
exactly once. -/
theorem gen_distinct_spec (hash : Nat → Nat) (eqv : Nat → Nat → Bool) (kr : G.KeyRel hash eqv) (ix : List Nat) (hnd : ix.Nodup)
    (hrefl : ∀ a ∈ ix, eqv a a = true) (hlen : ix.length ≤ 2 ^ 30) (F : Nat) (hF : 2 ^ 32 ≤ F) :
    ∃ d, interpDistinct Gen.grouperFns F [cmpOf hash eqv] ix = some d ∧
      d.Nodup ∧ (∀ r ∈ d, r ∈ ix) ∧ (∀ j ∈ ix, ∃ r ∈ d, eqv r j = true) ∧
      (∀ r1 ∈ d, ∀ r2 ∈ d, r1 ≠ r2 → eqv r1 r2 = false) ∧
      (∀ r ∈ d, ∀ j ∈ ix, eqv r j = true → ix.idxOf r ≤ ix.idxOf j) := by
  obtain ⟨gs, hgs, h1, h2, h3, h4, h5⟩ := C05.distinct_spec hash eqv kr ix hnd hrefl
  have hd := (gen_grouper_semantics_abs hash eqv ix hlen F hF).2.2.2
  rw [distinct_eq_distinctOf, hgs] at hd
  exact ⟨C05.distinctOf gs, hd, h1, h2, h3, h4, h5⟩

end QF.Props.C04GrouperGen
