import QF.Props.C02Kernels
import QF.Gen.Dispatch
import QF.Props.C17Enum
/-!
# C02 / C17 — the filter DISPATCH of today's source decides what the spec decides (tie T1, by semantics)

`QF.Gen.dispatchAst` (regenerated on every run by go/cmd/extract/dast.go) holds, for each of the five column packages,
the body of `func (c Column) filterBuiltIn(index, comparator string, comparatee interface{}, bIndex) error` as a term of
`QF.DE` (QF/Core/DExpr.lean): the decision on the dynamic type of the comparatee, the table look-ups with their "unknown
operator" errors, the "invalid comparison type" error, the NaN test, and for enums the search of the constant in the
value table, the `strict` error, the non-strict shortcut and `equalTypes`; `Gen.entryAst` holds `Column.Filter`,
`filterCustom1`, `filterCustom2`; `Gen.equalTypesAst` ecolumn's `equalTypes`. `DE.run` is the Go meaning of such a term,
given the comparator tables (`Gen.tables`) and the kernel terms (`Gen.kernelAst`, C02Kernels). Proved here, over the
data generated TODAY:

* `gen_dispatch_no_opaque`     — every dispatcher, every entry point and `equalTypes` were translated completely
* `gen_dispatch_canon`         — each dispatcher IS the canonical tree of its package (`canon`; finite `decide`, modulo
                                 the error messages), `gen_entries_canon` the same for the entry points
* `gen_equalTypes_sem`         — `equalTypes` = same value table and same number of cells
* `gen_leaf_semantics_partial` — for every frame, every column type, every comparator STRING (known or not), every kind
                                 of argument and ALL cells / constants: the extracted dispatcher followed by the extracted
                                 kernel reports an error iff `leafPred` (QF/Spec/Filter.lean) is `none` for the leaf, and
                                 otherwise turns a mask entry `b` of row `r` into `b || p r`, `p` the predicate of `leafPred`.
                                 Excluded: a `float64` constant for an int column —
* `float_const_on_int_column_is_truncated` — there the code does NOT fail (it truncates the constant), the spec does
* `gen_enum_undeclared`, `gen_enum_undeclared_spec`, `gen_enum_declared`, `gen_enum_sets_no_error`,
  `gen_enum_col_needs_equal_types` — the rules of C17 read off the extracted dispatcher: strict + undeclared constant is an
                                 error for the six comparison operators, non-strict selects every row for `!=` and none
                                 otherwise; like / ilike / in are never errors; column against column needs equal tables
* `gen_filter_builtin`, `gen_leaf_semantics_filter_partial`, `gen_custom1_semantics`, `gen_custom2_semantics_partial` — `Column.Filter` adds no decision for a
                                 comparator string; custom predicates: error iff the parameter type is not the column's
                                 (iff the comparatee of a two-argument predicate is not a column of that type)

Method as in C02Kernels: `decide` shows that each generated term is the canonical one, `canon`'s meaning is computed once
and for all and connected to `leafPred` with `C02Kernels.gen_*_canon` / `gen_kernel_semantics_*`.

`prep` is a hand-written model of the preamble of `QFrame.filter` (look-up of the argument column, promotion of an int
column compared with a float column); its source text is tied by hash (`Gen.hashes` "qframe.filter").
-/
namespace QF.Props.C02Dispatch
open QF QF.Props.C02Kernels

theorem pkgOf_eq : DE.pkgOf = pkgOf := by funext t; cases t <;> rfl

def dispatchOf (ty : CType) : DE := (Gen.dispatchAst.lookup (DE.pkgOf ty)).getD (.opaque "missing")

theorem gen_dispatch_no_opaque :
    (∀ d ∈ Gen.dispatchAst, d.2.hasOpaque = false) ∧ (∀ d ∈ Gen.entryAst, d.2.2.hasOpaque = false) ∧
    (∀ s ∈ Gen.equalTypesAst, s.hasOpaque = false) := by decide

def E0 : DE := .err ""
def look (tab : String) (role : DRole) (ret : Bool) : DE := .lookup tab (.callKernel role ret) E0

/-- ecolumn, string constant: the six comparators search the constant in the value table; found: the kernel with the
position; not found: error if strict, else every row for `!=`, no row otherwise. like / ilike build a bitset. -/
def onStrEnum : DE :=
  .lookup "filterFuncs1"
    (.enumSearch (.callKernel .const false) (.ifStrict E0 (.ifOpIs "!=" .fillAllTrue .nothing)))
    (.lookup "multiFilterFuncs" (.callBitset "Column.filterWithBitset" .const true) E0)

/-- ecolumn's dispatcher with `d` for a string constant -/
def canonEnumWith (d : DE) : DE :=
  .typeSwitch E0 E0 E0 d E0 (.lookup "multiInputFilterFuncs" (.callBitset "Column.filterWithBitset" .set false) E0)
    (.ifEqualTypes (look "filterFuncs2" .col2 false) E0) (look "filterFuncs0" .none false) E0

def canon : CType → DE
  | .int => .typeSwitch (look "filterFuncs" .const false) (.lookup "filterFuncs" (.convert .floatToInt (.callKernel .const false)) E0)
      E0 E0 (look "multiInputFilterFuncs" .set false) E0 (look "filterFuncs2" .col2 false) (look "filterFuncs0" .none false) E0
  | .float => .typeSwitch E0 (.ifNaN E0 (look "filterFuncs1" .const false)) E0 E0 E0 E0 (look "filterFuncs2" .col2 false)
      (look "filterFuncs0" .none false) E0
  | .bool => .typeSwitch E0 E0 (look "filterFuncs" .const false) E0 E0 E0 (look "filterFuncs2" .col2 false) E0 E0
  | .string => .typeSwitch E0 E0 E0 (look "filterFuncs1" .const true) E0 (look "multiInputFilterFuncs" .set true)
      (look "filterFuncs2" .col2 true) (look "filterFuncs0" .none true) E0
  | .enum => canonEnumWith onStrEnum
  | .undef => .opaque "missing"

theorem gen_dispatch_canon : ∀ ty ∈ tys, (dispatchOf ty).untag = canon ty := by decide

theorem run_untag (E : DEnv) (sub : String → DSt → DRes) (d : DE) : ∀ σ, d.untag.run E sub σ = d.run E sub σ := by
  induction d with
  | typeSwitch a b c d e f g h i iha ihb ihc ihd ihe ihf ihg ihh ihi =>
    intro σ; simp only [DE.untag, DE.run]; split <;> simp [*]
  | lookup t a b iha ihb => intro σ; simp only [DE.untag, DE.run, iha, ihb]
  | ifNaN a b iha ihb => intro σ; simp only [DE.untag, DE.run, iha, ihb]
  | enumSearch a b iha ihb => intro σ; simp only [DE.untag, DE.run, iha, ihb]
  | ifStrict a b iha ihb => intro σ; simp only [DE.untag, DE.run, iha, ihb]
  | ifOpIs o a b iha ihb => intro σ; simp only [DE.untag, DE.run, iha, ihb]
  | ifEqualTypes a b iha ihb => intro σ; simp only [DE.untag, DE.run, iha, ihb]
  | cmpSwitch a b c d iha ihb ihc ihd => intro σ; simp only [DE.untag, DE.run, iha, ihb, ihc, ihd]
  | convert c k ih => intro σ; simp only [DE.untag, DE.run, ih]
  | err t => intro σ; simp only [DE.untag, DE.run]
  | _ => intro σ; rfl

def allOps : List String := ["<", "<=", ">", ">=", "=", "!=", "isnull", "isnotnull", "in", "like", "ilike", "any_bits", "all_bits"]

/-- the environment of a call on today's source -/
def today (lo : LikeOracle) (f2i : UInt64 → Int) (i2f : Int → UInt64) (P : KParams) (c : LCol) (cmp : DCmp) (arg : DArg) : DEnv :=
  { tables := Gen.tables, kernels := Gen.kernelAst, entries := Gen.entryAst, eqTypes := Gen.equalTypesAst, lo := lo, f2i := f2i, i2f := i2f,
    P := { P with lo := lo }, ty := c.ty, vals := c.vals, strict := c.strict, n := c.cells.size, cmp := cmp, arg := arg }

theorem tableFn_today {lo f2i i2f P c cmp arg} (tab op : String) :
    (today lo f2i i2f P c cmp arg).tableFn tab op = tableFn (pkgOf c.ty) tab op := by
  simp only [DEnv.tableFn, today, pkgOf_eq]; rfl

theorem kernel_today {lo f2i i2f P c cmp arg} (fn : String) :
    (today lo f2i i2f P c cmp arg).kernel fn = kernelOf (pkgOf c.ty) fn := by
  simp only [DEnv.kernel, today, pkgOf_eq]; rfl

theorem tableFn_none {pkg tab op : String} (h : op ∉ tableOps pkg tab) : tableFn pkg tab op = none := by
  unfold tableFn tableOps at *
  cases hf : Gen.tables.find? (fun t => t.1 == pkg && t.2.1 == tab) with
  | none => rfl
  | some t =>
    simp only [hf, Option.map_some, Option.getD_some, List.mem_map, not_exists, not_and] at h
    simp only [Option.bind_some, List.lookup_eq_none_iff]
    intro p hp
    simp only [bne_iff_ne, ne_eq]
    exact fun e => h p hp e.symm


/-- What `QFrame.filter` hands to `Column.Filter` for the argument of a leaf on column `c`: the receiver (an int column
compared with a float column is replaced by its float image), the comparatee as a Go value, and the column whose cells
the kernel sees as second operand. `none`: `QFrame.filter` itself rejects the leaf (unknown argument column). -/
def prep (f : LFrame) (c : LCol) : Arg → Option (LCol × DArg × LCol)
  | .col an =>
    match f.find? an with
    | none => none
    | some ac =>
      let c' := if c.ty == .int && ac.ty == .float then promote c else c
      let ac' := if c.ty == .float && ac.ty == .int then promote ac else ac
      some (c', .col ac'.ty ac'.vals ac'.cells.size, ac')
  | .cell (.int v) => some (c, .int v, c)
  | .cell (.float b) => some (c, .float b, c)
  | .cell (.bool b) => some (c, .bool b, c)
  | .cell (.str (some s)) => some (c, .str s, c)
  | .cell (.str none) => some (c, .other, c)
  | .nil => some (c, .nil, c)
  | .ints l => some (c, .ints l, c)
  | .strs l => some (c, .strs l, c)
  | .bad => some (c, .other, c)

def Agrees (r : DRes) (c' ac' : LCol) (p? : Option (Nat → Bool)) : Prop :=
  match r, p? with
  | .err, none => True
  | .upd u, some p => ∀ (r : Nat) (b : Bool), cellOk c'.ty c'.vals c'.cells[r]! = true → cellOk ac'.ty ac'.vals ac'.cells[r]! = true →
      u c'.cells[r]! ac'.cells[r]! b = some (b || p r)
  | _, _ => False


section
variable {lo : LikeOracle} {f2i : UInt64 → Int} {i2f : Int → UInt64} {P : KParams} {c : LCol} {cmp : DCmp} {arg : DArg}
@[simp] theorem today_ty : (today lo f2i i2f P c cmp arg).ty = c.ty := rfl
@[simp] theorem today_vals : (today lo f2i i2f P c cmp arg).vals = c.vals := rfl
@[simp] theorem today_strict : (today lo f2i i2f P c cmp arg).strict = c.strict := rfl
@[simp] theorem today_n : (today lo f2i i2f P c cmp arg).n = c.cells.size := rfl
@[simp] theorem today_cmp : (today lo f2i i2f P c cmp arg).cmp = cmp := rfl
@[simp] theorem today_arg : (today lo f2i i2f P c cmp arg).arg = arg := rfl
@[simp] theorem today_lo : (today lo f2i i2f P c cmp arg).lo = lo := rfl
@[simp] theorem today_P : (today lo f2i i2f P c cmp arg).P = { P with lo := lo } := rfl
@[simp] theorem today_f2i : (today lo f2i i2f P c cmp arg).f2i = f2i := rfl
@[simp] theorem today_eq : (today lo f2i i2f P c cmp arg).eqTypes = Gen.equalTypesAst := rfl
@[simp] theorem today_op {op : String} : (today lo f2i i2f P c (.str op) arg).op = some op := rfl
@[simp] theorem today_start : (today lo f2i i2f P c cmp arg).start = { const := arg.const } := rfl
end

/-- today's kernel behind a table entry, as the environment sees it -/
theorem hit_today {lo f2i i2f P c cmp arg} (tab op : String) :
    ((today lo f2i i2f P c cmp arg).tableFn tab op).bind (today lo f2i i2f P c cmp arg).kernel = genKernel (pkgOf c.ty) tab op := by
  rw [tableFn_today]
  have : (today lo f2i i2f P c cmp arg).kernel = kernelOf (pkgOf c.ty) := funext kernel_today
  rw [this]; rfl

theorem run_look_miss {E : DEnv} {sub σ tab role ret op} (hop : E.op = some op) (hn : E.tableFn tab op = none) :
    (look tab role ret).run E sub σ = .err := by
  simp [look, DE.run, hop, hn, E0]

theorem run_look_hit {E : DEnv} {sub} {σ : DSt} {tab role ret op sh ke P k} (hop : E.op = some op)
    (hg : (E.tableFn tab op).bind E.kernel = some (sh, ke))
    (hr : ∀ fn, roleArgs E { σ with fn := fn } true role = some (P, k))
    (hpre : preOk E.lo sh ke k = some true) :
    (look tab role ret).run E sub σ = .upd (fun x y b => kstep sh (ke.eval E.ty E.vals P x y k) b) := by
  obtain ⟨fn, hfn, hk⟩ := Option.bind_eq_some_iff.1 hg
  simp [look, DE.run, hop, hfn, hk, hr, hpre]

theorem agrees_err {c' ac' : LCol} : Agrees .err c' ac' none := trivial

theorem agrees_upd {c' ac' : LCol} {sh : String} {ke : KE} {P : KParams} {k : Cell} {p : Nat → Bool}
    (h : ∀ r : Nat, cellOk c'.ty c'.vals c'.cells[r]! = true → cellOk ac'.ty ac'.vals ac'.cells[r]! = true →
      Computes (some (sh, ke)) c'.ty c'.vals P c'.cells[r]! ac'.cells[r]! k (p r)) :
    Agrees (.upd (fun x y b => kstep sh (ke.eval c'.ty c'.vals P x y k) b)) c' ac' (some p) := by
  intro r b hx hy
  obtain ⟨sh', ke', he, hb⟩ := h r hx hy
  simp only [Option.some.injEq, Prod.mk.injEq] at he
  obtain ⟨rfl, rfl⟩ := he
  exact hb b

theorem preOk_guarded (lo : LikeOracle) (ke : KE) (k : Cell) : preOk lo "guarded" ke k = some true := by
  simp [preOk, hasPre]

theorem not_mem_allOps {op : String} (h : op ∉ allOps) :
    isOrd6 op = false ∧ op ≠ "isnull" ∧ op ≠ "isnotnull" ∧ op ≠ "in" ∧ op ≠ "like" ∧ op ≠ "ilike" ∧ op ≠ "any_bits" ∧ op ≠ "all_bits" := by
  simp only [allOps, List.mem_cons, List.not_mem_nil, or_false, not_or] at h
  simp [isOrd6, h]

theorem tableOps_sub : ∀ t ∈ Gen.tables, ∀ e ∈ t.2.2, e.1 ∈ allOps := by decide


theorem agrees_look_hit {lo f2i i2f P} {c ac : LCol} {op arg sub} {σ : DSt} {tab role ret sh ke P' k} {p : Nat → Bool}
    (hcanon : genKernel (pkgOf c.ty) tab op = some (sh, ke))
    (hr : ∀ fn, roleArgs (today lo f2i i2f P c (.str op) arg) { σ with fn := fn } true role = some (P', k))
    (hpre : preOk lo sh ke k = some true)
    (hsem : ∀ r : Nat, cellOk c.ty c.vals c.cells[r]! = true → cellOk ac.ty ac.vals ac.cells[r]! = true →
      Computes (genKernel (pkgOf c.ty) tab op) c.ty c.vals P' c.cells[r]! ac.cells[r]! k (p r)) :
    Agrees ((look tab role ret).run (today lo f2i i2f P c (.str op) arg) sub σ) c ac (some p) := by
  rw [run_look_hit (sh := sh) (ke := ke) (P := P') (k := k) today_op (by rw [hit_today]; exact hcanon) hr (by simpa using hpre)]
  simp only [today_ty, today_vals]
  apply agrees_upd
  intro r hx hy
  have := hsem r hx hy
  rw [hcanon] at this
  exact this

theorem agrees_look_miss {lo f2i i2f P} {c ac : LCol} {op arg sub} {σ : DSt} {tab role ret}
    (h : op ∉ tableOps (pkgOf c.ty) tab) :
    Agrees ((look tab role ret).run (today lo f2i i2f P c (.str op) arg) sub σ) c ac none := by
  rw [run_look_miss today_op (by rw [tableFn_today]; exact tableFn_none h)]
  exact agrees_err

/-- the cell-constant cases on an int column -/
theorem leaf_cell_int (lo f2i i2f P) (f : LFrame) (l : Leaf) (c : LCol) (op : String) (v : Int)
    (hc : f.find? l.col = some c) (hcmp : l.cmp = .builtin op) (harg : l.arg = .cell (.int v)) (hty : c.ty = .int) (hv : int64 v) :
    Agrees ((today lo f2i i2f P c (.str op) (.int v)).runBuiltIn (canon c.ty)) c c (leafPred lo f l) := by
  unfold leafPred
  simp only [hc, hcmp, harg, hty]
  have hrun : (today lo f2i i2f P c (.str op) (.int v)).runBuiltIn (canon .int) =
      (look "filterFuncs" .const false).run (today lo f2i i2f P c (.str op) (.int v)) (fun _ _ => .stuck) { const := some (.int v) } := by
    simp [DEnv.runBuiltIn, canon, DE.run, DArg.const]
  rw [hrun]
  have hr : ∀ fn, roleArgs (today lo f2i i2f P c (.str op) (.int v)) { const := some (.int v), fn := fn } true .const = some ({ P with lo := lo }, .int v) := by
    intro fn; simp [roleArgs, hty]
  by_cases h6 : isOrd6 op = true
  · have hm := isOrd6_mem h6
    simp only [h6, if_true]
    refine agrees_look_hit (by rw [hty]; exact gen_cmp1_canon .int (by decide) op hm) hr (preOk_guarded _ _ _) ?_
    intro r hx _
    have := gen_kernel_semantics_cmp1 c op (by rw [hty]; exact hm) c.cells[r]! (.int v) hx (by simp [hty, constOk, constVal]) { P with lo := lo } c.cells[r]!
    rw [hty] at this ⊢
    exact this
  · simp only [h6, Bool.false_eq_true, if_false]
    by_cases ha : op = "any_bits"
    · subst ha
      simp only [beq_self_eq_true, if_true]
      refine agrees_look_hit (by rw [hty]; exact gen_bits_canon.1) hr (preOk_guarded _ _ _) ?_
      intro r hx _
      rw [hty] at hx ⊢
      cases hcell : c.cells[r]! <;> rw [hcell] at hx <;> simp [cellOk, cellVal] at hx
      exact gen_kernel_semantics_bits c.vals "any_bits" _ v (Or.inl rfl) _ _
    · by_cases hb : op = "all_bits"
      · subst hb
        simp only [beq_iff_eq, String.reduceEq, if_false, if_true]
        refine agrees_look_hit (by rw [hty]; exact gen_bits_canon.2) hr (preOk_guarded _ _ _) ?_
        intro r hx _
        rw [hty] at hx ⊢
        cases hcell : c.cells[r]! <;> rw [hcell] at hx <;> simp [cellOk, cellVal] at hx
        exact gen_kernel_semantics_bits c.vals "all_bits" _ v (Or.inr ⟨rfl, hv⟩) _ _
      · simp only [beq_iff_eq, ha, hb, if_false]
        refine agrees_look_miss ?_
        rw [hty]
        have : tableOps "icolumn" "filterFuncs" = ["!=", "<", "<=", "=", ">", ">=", "all_bits", "any_bits"] := by decide
        simp only [pkgOf, this, List.mem_cons, List.not_mem_nil, or_false, not_or]
        simp only [isOrd6, List.mem_cons, List.not_mem_nil, or_false, decide_eq_true_eq, not_or] at h6
        exact ⟨h6.2.2.2.2.2, h6.1, h6.2.1, h6.2.2.2.2.1, h6.2.2.1, h6.2.2.2.1, hb, ha⟩


theorem isOrd6_false {op : String} (h : ¬ isOrd6 op = true) :
    op ≠ "<" ∧ op ≠ "<=" ∧ op ≠ ">" ∧ op ≠ ">=" ∧ op ≠ "=" ∧ op ≠ "!=" := by
  simpa [isOrd6] using h

theorem not_mem_ops6 {op : String} (h : ¬ isOrd6 op = true) : op ∉ ["!=", "<", "<=", "=", ">", ">="] := by
  have := isOrd6_false h
  simp only [List.mem_cons, List.not_mem_nil, or_false, not_or]
  exact ⟨this.2.2.2.2.2, this.1, this.2.1, this.2.2.2.2.1, this.2.2.1, this.2.2.2.1⟩

/-- float constant on a float column -/
theorem leaf_cell_float (lo f2i i2f P) (f : LFrame) (l : Leaf) (c : LCol) (op : String) (v : UInt64)
    (hc : f.find? l.col = some c) (hcmp : l.cmp = .builtin op) (harg : l.arg = .cell (.float v)) (hty : c.ty = .float) :
    Agrees ((today lo f2i i2f P c (.str op) (.float v)).runBuiltIn (canon c.ty)) c c (leafPred lo f l) := by
  unfold leafPred
  simp only [hc, hcmp, harg, hty]
  by_cases hn : F64.isNaN v = true
  · simp [DEnv.runBuiltIn, canon, DE.run, DArg.const, hn, E0, Agrees]
  · have hrun : (today lo f2i i2f P c (.str op) (.float v)).runBuiltIn (canon .float) =
        (look "filterFuncs1" .const false).run (today lo f2i i2f P c (.str op) (.float v)) (fun _ _ => .stuck) { const := some (.float v) } := by
      simp [DEnv.runBuiltIn, canon, DE.run, DArg.const, hn]
    rw [hrun]
    simp only [hn, Bool.false_eq_true, if_false]
    by_cases h6 : isOrd6 op = true
    · have hm := isOrd6_mem h6
      simp only [h6, if_true]
      refine agrees_look_hit (P' := { P with lo := lo }) (k := .float v) (by rw [hty]; exact gen_cmp1_canon .float (by decide) op hm)
        (by intro fn; simp [roleArgs, hty]) (preOk_guarded _ _ _) ?_
      intro r hx _
      have := gen_kernel_semantics_cmp1 c op (by rw [hty]; exact hm) c.cells[r]! (.float v) hx (by simp [hty, constOk, constVal]) { P with lo := lo } c.cells[r]!
      rw [hty] at this ⊢
      exact this
    · simp only [h6, Bool.false_eq_true, if_false]
      refine agrees_look_miss ?_
      rw [hty]
      have : tableOps "fcolumn" "filterFuncs1" = ["!=", "<", "<=", "=", ">", ">="] := by decide
      rw [pkgOf, this]; exact not_mem_ops6 h6

/-- bool constant on a bool column -/
theorem leaf_cell_bool (lo f2i i2f P) (f : LFrame) (l : Leaf) (c : LCol) (op : String) (v : Bool)
    (hc : f.find? l.col = some c) (hcmp : l.cmp = .builtin op) (harg : l.arg = .cell (.bool v)) (hty : c.ty = .bool) :
    Agrees ((today lo f2i i2f P c (.str op) (.bool v)).runBuiltIn (canon c.ty)) c c (leafPred lo f l) := by
  unfold leafPred
  simp only [hc, hcmp, harg, hty]
  have hrun : (today lo f2i i2f P c (.str op) (.bool v)).runBuiltIn (canon .bool) =
      (look "filterFuncs" .const false).run (today lo f2i i2f P c (.str op) (.bool v)) (fun _ _ => .stuck) { const := some (.bool v) } := by
    simp [DEnv.runBuiltIn, canon, DE.run, DArg.const]
  rw [hrun]
  by_cases h2 : op ∈ ["=", "!="]
  · have : (op == "=" || op == "!=") = true := by simpa using h2
    simp only [this, if_true]
    refine agrees_look_hit (P' := { P with lo := lo }) (k := .bool v) (by rw [hty]; exact gen_cmp1_canon .bool (by decide) op h2)
      (by intro fn; simp [roleArgs, hty]) (preOk_guarded _ _ _) ?_
    intro r hx _
    have := gen_kernel_semantics_cmp1 c op (by rw [hty]; exact h2) c.cells[r]! (.bool v) hx (by simp [hty, constOk, constVal]) { P with lo := lo } c.cells[r]!
    rw [hty] at this ⊢
    exact this
  · have : (op == "=" || op == "!=") = false := by simpa using h2
    simp only [this, Bool.false_eq_true, if_false]
    refine agrees_look_miss ?_
    rw [hty]
    have ht : tableOps "bcolumn" "filterFuncs" = ["!=", "="] := by decide
    rw [pkgOf, ht]; simp only [List.mem_cons, List.not_mem_nil, or_false, not_or] at h2 ⊢; exact ⟨h2.2, h2.1⟩


theorem run_look_pre_fail {E : DEnv} {sub} {σ : DSt} {tab role op sh ke P k} (hop : E.op = some op)
    (hg : (E.tableFn tab op).bind E.kernel = some (sh, ke))
    (hr : ∀ fn, roleArgs E { σ with fn := fn } true role = some (P, k))
    (hpre : preOk E.lo sh ke k = some false) :
    (look tab role true).run E sub σ = .err := by
  obtain ⟨fn, hfn, hk⟩ := Option.bind_eq_some_iff.1 hg
  simp [look, DE.run, hop, hfn, hk, hr, hpre]

/-- string constant on a string column -/
theorem leaf_cell_string (lo f2i i2f P) (f : LFrame) (l : Leaf) (c : LCol) (op : String) (v : Bytes)
    (hc : f.find? l.col = some c) (hcmp : l.cmp = .builtin op) (harg : l.arg = .cell (.str (some v))) (hty : c.ty = .string) :
    Agrees ((today lo f2i i2f P c (.str op) (.str v)).runBuiltIn (canon c.ty)) c c (leafPred lo f l) := by
  unfold leafPred
  simp only [hc, hcmp, harg, hty]
  have hrun : (today lo f2i i2f P c (.str op) (.str v)).runBuiltIn (canon .string) =
      (look "filterFuncs1" .const true).run (today lo f2i i2f P c (.str op) (.str v)) (fun _ _ => .stuck) { const := some (.str (some v)) } := by
    simp [DEnv.runBuiltIn, canon, DE.run, DArg.const]
  rw [hrun]
  have hr : ∀ fn, roleArgs (today lo f2i i2f P c (.str op) (.str v)) { const := some (.str (some v)), fn := fn } true .const =
      some ({ P with lo := lo }, .str (some v)) := by
    intro fn; simp [roleArgs, hty]
  by_cases h6 : isOrd6 op = true
  · have hm := isOrd6_mem h6
    simp only [h6, if_true]
    refine agrees_look_hit (by rw [hty]; exact gen_cmp1_canon .string (by decide) op hm) hr (preOk_guarded _ _ _) ?_
    intro r hx _
    have := gen_kernel_semantics_cmp1 c op (by rw [hty]; exact hm) c.cells[r]! (.str (some v)) hx (by simp [hty, constOk, constVal]) { P with lo := lo } c.cells[r]!
    rw [hty] at this ⊢
    exact this
  · simp only [h6, Bool.false_eq_true, if_false]
    by_cases hl : op = "like" ∨ op = "ilike"
    · have hlb : (op == "like" || op == "ilike") = true := by simpa using hl
      simp only [hlb, if_true]
      -- the kernel of like / ilike: `m, err := NewMatcher(comp, caseSensitive)` in front of the loop
      have hcan : ∃ cs, genKernel "scolumn" "filterFuncs1" op = some ("guarded+pre", .and (.not .isNull) (.matches .const (.lit cs) .cell)) ∧
          (!cs) = (op == "ilike") := by
        rcases hl with rfl | rfl
        · exact ⟨true, gen_like_canon.1, by decide⟩
        · exact ⟨false, gen_like_canon.2.1, by decide⟩
      obtain ⟨cs, hcan, hcs⟩ := hcan
      have hpre : preOk lo "guarded+pre" (.and (.not .isNull) (.matches .const (.lit cs) .cell)) (.str (some v)) = some (lo.valid v (op == "ilike")) := by
        simp [preOk, hasPre, KE.matcher, hcs]
      by_cases hv : lo.valid v (op == "ilike") = true
      · simp only [hv, if_true]
        refine agrees_look_hit (by rw [hty]; exact hcan) hr (by rw [hpre, hv]) ?_
        intro r hx _
        rw [hty] at hx ⊢
        rcases hcell : c.cells[r]! with _ | _ | _ | s <;> rw [hcell] at hx <;> simp [cellOk, cellVal] at hx
        have := gen_kernel_semantics_like_string c.vals op (by simpa using hl) s v { P with lo := lo } (.str s)
        exact this
      · simp only [hv, Bool.false_eq_true, if_false]
        rw [run_look_pre_fail today_op (by rw [hit_today, hty]; exact hcan) hr (by rw [today_lo, hpre]; simpa using hv)]
        exact agrees_err
    · have hlb : (op == "like" || op == "ilike") = false := by simpa using hl
      simp only [hlb, Bool.false_eq_true, if_false]
      refine agrees_look_miss ?_
      rw [hty]
      have ht : tableOps "scolumn" "filterFuncs1" = ["!=", "<", "<=", "=", ">", ">=", "ilike", "like"] := by decide
      rw [pkgOf, ht]
      have h6' := not_mem_ops6 h6
      simp only [List.mem_cons, List.not_mem_nil, or_false, not_or] at h6' hl ⊢
      exact ⟨h6'.1, h6'.2.1, h6'.2.2.1, h6'.2.2.2.1, h6'.2.2.2.2.1, h6'.2.2.2.2.2, hl.2, hl.1⟩


theorem bsetOf_eq : @DE.bsetOf = @bsetOf := rfl

/-- string constant on an enum column: the search in the value table, the strict flag, the `!=` shortcut (C17) -/
theorem leaf_cell_enum (lo f2i i2f P) (f : LFrame) (l : Leaf) (c : LCol) (op : String) (v : Bytes)
    (hc : f.find? l.col = some c) (hcmp : l.cmp = .builtin op) (harg : l.arg = .cell (.str (some v))) (hty : c.ty = .enum)
    (hlen : c.vals.length ≤ 255) :
    Agrees ((today lo f2i i2f P c (.str op) (.str v)).runBuiltIn (canon c.ty)) c c (leafPred lo f l) := by
  unfold leafPred
  simp only [hc, hcmp, harg, hty]
  by_cases h6 : isOrd6 op = true
  · have hm := isOrd6_mem h6
    have hcan := gen_cmp1_canon .enum (by decide) op hm
    obtain ⟨fn, hfn, hk⟩ := Option.bind_eq_some_iff.1 hcan
    have hfn' : (today lo f2i i2f P c (.str op) (.str v)).tableFn "filterFuncs1" op = some fn := by rw [tableFn_today, hty]; exact hfn
    have hk' : (today lo f2i i2f P c (.str op) (.str v)).kernel fn = some ("guarded", canon1 .enum op) := by rw [kernel_today, hty]; exact hk
    simp only [h6, if_true]
    cases hr : enumRank c.vals v with
    | some i =>
      have hrun : (today lo f2i i2f P c (.str op) (.str v)).runBuiltIn (canon .enum) =
          .upd (fun x y b => kstep "guarded" ((canon1 .enum op).eval .enum c.vals { P with lo := lo } x y (.str (some v))) b) := by
        simp [DEnv.runBuiltIn, canon, canonEnumWith, onStrEnum, DE.run, DArg.const, hfn', hk', hty, hr, roleArgs, preOk, hasPre]
      rw [hrun]
      simp only [Option.isSome_some, if_true]
      have := agrees_upd (c' := c) (ac' := c) (sh := "guarded") (ke := canon1 .enum op) (P := { P with lo := lo }) (k := .str (some v))
        (p := fun r => cmp6 c op c.cells[r]! (.str (some v))) (by
          intro r hx _
          have hil : i < 255 := by
            obtain ⟨hlt, _⟩ := enumRank_eq_some_iff.1 hr
            omega
          have := gen_kernel_semantics_cmp1 c op (by rw [hty]; exact hm) c.cells[r]! (.str (some v)) hx
            (by simp [hty, constOk, constVal, hr, enumNull, hil]) { P with lo := lo } c.cells[r]!
          rw [hty] at this ⊢
          rw [hcan] at this
          exact this)
      rw [hty] at this
      exact this
    | none =>
      simp only [Option.isSome_none, Bool.false_eq_true, if_false]
      by_cases hs : c.strict = true
      · simp [DEnv.runBuiltIn, canon, canonEnumWith, onStrEnum, DE.run, DArg.const, hfn', hty, hr, hs, E0, Agrees]
      · simp only [hs, Bool.false_eq_true, if_false]
        by_cases hne : op = "!="
        · subst hne
          simp [DEnv.runBuiltIn, canon, canonEnumWith, onStrEnum, DE.run, DArg.const, hfn', hty, hr, hs, Agrees]
        · simp [DEnv.runBuiltIn, canon, canonEnumWith, onStrEnum, DE.run, DArg.const, hfn', hty, hr, hs, hne, Agrees]
  · simp only [h6, Bool.false_eq_true, if_false]
    have hmiss : (today lo f2i i2f P c (.str op) (.str v)).tableFn "filterFuncs1" op = none := by
      rw [tableFn_today, hty]
      refine tableFn_none ?_
      have ht : tableOps "ecolumn" "filterFuncs1" = ["!=", "<", "<=", "=", ">", ">="] := by decide
      rw [pkgOf, ht]; exact not_mem_ops6 h6
    by_cases hl : op = "like" ∨ op = "ilike"
    · have hlb : (op == "like" || op == "ilike") = true := by simpa using hl
      simp only [hlb, if_true]
      have hcan : ∃ cs, genKernel "ecolumn" "multiFilterFuncs" op = some ("bitset+pre", .matches .const (.lit cs) .cell) ∧
          (!cs) = (op == "ilike") := by
        rcases hl with rfl | rfl
        · exact ⟨true, gen_like_canon.2.2.1, by decide⟩
        · exact ⟨false, gen_like_canon.2.2.2, by decide⟩
      obtain ⟨cs, hcan, hcs⟩ := hcan
      obtain ⟨fn, hfn, hk⟩ := Option.bind_eq_some_iff.1 hcan
      have hfn' : (today lo f2i i2f P c (.str op) (.str v)).tableFn "multiFilterFuncs" op = some fn := by rw [tableFn_today, hty]; exact hfn
      have hk' : (today lo f2i i2f P c (.str op) (.str v)).kernel fn = some ("bitset+pre", .matches .const (.lit cs) .cell) := by
        rw [kernel_today, hty]; exact hk
      have hrd : (today lo f2i i2f P c (.str op) (.str v)).kernel "Column.filterWithBitset" = some ("guarded", .bitset .cell) := by
        rw [kernel_today, hty]; exact gen_in_canon.2.2.2
      have hpre : preOk lo "bitset+pre" (.matches .const (.lit cs) .cell) (.str (some v)) = some (lo.valid v (op == "ilike")) := by
        simp [preOk, hasPre, KE.matcher, hcs]
      by_cases hv : lo.valid v (op == "ilike") = true
      · simp only [hv, if_true]
        have hrun : (today lo f2i i2f P c (.str op) (.str v)).runBuiltIn (canon .enum) =
            .upd (fun x y b => kstep "guarded" ((KE.bitset .cell).eval .enum c.vals
              { ({ P with lo := lo } : KParams) with bset := bsetOf c.vals { P with lo := lo } (.str (some v)) (.matches .const (.lit cs) .cell) }
              x y (.str (some v))) b) := by
          simp [DEnv.runBuiltIn, canon, canonEnumWith, onStrEnum, DE.run, DArg.const, hmiss, hfn', hk', hrd, hty, roleArgs, hpre, hv, bsetOf_eq]
        rw [hrun]
        have := agrees_upd (c' := c) (ac' := c) (sh := "guarded") (ke := .bitset .cell)
          (P := { ({ P with lo := lo } : KParams) with bset := bsetOf c.vals { P with lo := lo } (.str (some v)) (.matches .const (.lit cs) .cell) })
          (k := .str (some v))
          (p := fun r => match c.cells[r]! with | .str (some x) => lo.isMatch v (op == "ilike") x | _ => false) (by
            intro r hx _
            rw [hty] at hx ⊢
            rcases hcell : c.cells[r]! with _ | _ | _ | s <;> rw [hcell] at hx
            · simp [cellOk, cellVal] at hx
            · simp [cellOk, cellVal] at hx
            · simp [cellOk, cellVal] at hx
            obtain ⟨B, hB, hcomp⟩ := gen_kernel_semantics_like_enum c.vals hlen op (by simpa using hl) s hx v { P with lo := lo } (.str s)
            rw [hcan] at hB
            simp only [Option.some.injEq, Prod.mk.injEq, true_and] at hB
            subst hB
            rw [gen_in_canon.2.2.2] at hcomp
            exact hcomp)
        rw [hty] at this
        exact this
      · simp only [hv, Bool.false_eq_true, if_false]
        have : (today lo f2i i2f P c (.str op) (.str v)).runBuiltIn (canon .enum) = .err := by
          simp [DEnv.runBuiltIn, canon, canonEnumWith, onStrEnum, DE.run, DArg.const, hmiss, hfn', hk', hrd, hty, roleArgs, hpre, hv]
        rw [this]; exact agrees_err
    · have hlb : (op == "like" || op == "ilike") = false := by simpa using hl
      simp only [hlb, Bool.false_eq_true, if_false]
      have hmiss2 : (today lo f2i i2f P c (.str op) (.str v)).tableFn "multiFilterFuncs" op = none := by
        rw [tableFn_today, hty]
        refine tableFn_none ?_
        have ht : tableOps "ecolumn" "multiFilterFuncs" = ["ilike", "like"] := by decide
        rw [pkgOf, ht]
        simp only [List.mem_cons, List.not_mem_nil, or_false, not_or] at hl ⊢
        exact ⟨hl.2, hl.1⟩
      have : (today lo f2i i2f P c (.str op) (.str v)).runBuiltIn (canon .enum) = .err := by
        simp [DEnv.runBuiltIn, canon, canonEnumWith, onStrEnum, DE.run, DArg.const, hmiss, hmiss2, E0]
      rw [this]; exact agrees_err


/-- nil argument: isnull / isnotnull -/
theorem leaf_nil (lo f2i i2f P) (f : LFrame) (l : Leaf) (c : LCol) (op : String)
    (hc : f.find? l.col = some c) (hcmp : l.cmp = .builtin op) (harg : l.arg = .nil) (hty : c.ty ∈ nullTys) :
    Agrees ((today lo f2i i2f P c (.str op) .nil).runBuiltIn (canon c.ty)) c c (leafPred lo f l) := by
  unfold leafPred
  simp only [hc, hcmp, harg]
  have hnb : (c.ty == .bool) = false := by
    cases h : c.ty <;> simp [h, nullTys] at hty ⊢
  have hrun : (today lo f2i i2f P c (.str op) .nil).runBuiltIn (canon c.ty) =
      (look "filterFuncs0" .none (c.ty == .string)).run (today lo f2i i2f P c (.str op) .nil) (fun _ _ => .stuck) { const := none } := by
    cases h : c.ty <;> simp [h, nullTys] at hty ⊢ <;> (simp [DEnv.runBuiltIn, canon, DE.run, DArg.const]; try rfl)
  rw [hrun]
  simp only [hnb, Bool.false_eq_true, if_false]
  by_cases hn : op ∈ nullOps
  · have hcan := gen_null_canon c.ty hty op hn
    have hpre : preOk lo (canon0 c.ty op).1 (canon0 c.ty op).2 (.int 0) = some true := by
      simp only [nullOps, List.mem_cons, List.not_mem_nil, or_false] at hn
      cases h : c.ty <;> simp [h, nullTys] at hty <;> rcases hn with rfl | rfl <;> simp [canon0, preOk, hasPre]
    have hsem := fun (r : Nat) (hx : cellOk c.ty c.vals c.cells[r]! = true) =>
      gen_kernel_semantics_null c hty op hn c.cells[r]! hx { P with lo := lo } c.cells[r]! (.int 0)
    simp only [nullOps, List.mem_cons, List.not_mem_nil, or_false] at hn
    rcases hn with rfl | rfl
    · simp only [beq_self_eq_true, if_true]
      refine agrees_look_hit (sh := (canon0 c.ty "isnull").1) (ke := (canon0 c.ty "isnull").2) (P' := { P with lo := lo }) (k := .int 0) hcan (by intro fn; simp [roleArgs]) hpre ?_
      intro r hx _
      simpa [specNull, tab0] using hsem r hx
    · simp only [beq_iff_eq, String.reduceEq, if_false, if_true]
      refine agrees_look_hit (sh := (canon0 c.ty "isnotnull").1) (ke := (canon0 c.ty "isnotnull").2) (P' := { P with lo := lo }) (k := .int 0) hcan (by intro fn; simp [roleArgs]) hpre ?_
      intro r hx _
      simpa [specNull, tab0] using hsem r hx
  · simp only [nullOps, List.mem_cons, List.not_mem_nil, or_false, not_or] at hn
    simp only [beq_iff_eq, hn.1, hn.2, if_false]
    refine agrees_look_miss ?_
    have ht : ∀ ty ∈ nullTys, tableOps (pkgOf ty) "filterFuncs0" = ["isnotnull", "isnull"] := by decide
    rw [ht _ hty]
    simp only [List.mem_cons, List.not_mem_nil, or_false, not_or]
    exact ⟨hn.2, hn.1⟩


/-- `in` with a list of ints on an int column -/
theorem leaf_ints (lo f2i i2f P) (f : LFrame) (l : Leaf) (c : LCol) (op : String) (vs : List Int)
    (hc : f.find? l.col = some c) (hcmp : l.cmp = .builtin op) (harg : l.arg = .ints vs) (hty : c.ty = .int) :
    Agrees ((today lo f2i i2f P c (.str op) (.ints vs)).runBuiltIn (canon c.ty)) c c (leafPred lo f l) := by
  unfold leafPred
  simp only [hc, hcmp, harg, hty]
  have hrun : (today lo f2i i2f P c (.str op) (.ints vs)).runBuiltIn (canon .int) =
      (look "multiInputFilterFuncs" .set false).run (today lo f2i i2f P c (.str op) (.ints vs)) (fun _ _ => .stuck) { const := none } := by
    simp [DEnv.runBuiltIn, canon, DE.run, DArg.const]
  rw [hrun]
  by_cases hin : op = "in"
  · subst hin
    simp only [beq_self_eq_true, Bool.and_self, if_true]
    refine agrees_look_hit (P' := { ({ P with lo := lo } : KParams) with ints := vs }) (k := .int 0)
      (by rw [hty]; exact gen_in_canon.1) (by intro fn; simp [roleArgs]) (preOk_guarded _ _ _) ?_
    intro r hx _
    rw [hty] at hx ⊢
    cases hcell : c.cells[r]! <;> rw [hcell] at hx <;> simp [cellOk, cellVal] at hx
    exact gen_kernel_semantics_in_int c.vals _ _ _ _
  · have : (CType.int == CType.int && op == "in") = false := by simpa using hin
    simp only [this, Bool.false_eq_true, if_false]
    refine agrees_look_miss ?_
    rw [hty]
    have ht : tableOps "icolumn" "multiInputFilterFuncs" = ["in"] := by decide
    rw [pkgOf, ht]; simpa using hin

/-- `in` with a list of strings on a string column -/
theorem leaf_strs_string (lo f2i i2f P) (f : LFrame) (l : Leaf) (c : LCol) (op : String) (vs : List Bytes)
    (hc : f.find? l.col = some c) (hcmp : l.cmp = .builtin op) (harg : l.arg = .strs vs) (hty : c.ty = .string) :
    Agrees ((today lo f2i i2f P c (.str op) (.strs vs)).runBuiltIn (canon c.ty)) c c (leafPred lo f l) := by
  unfold leafPred
  simp only [hc, hcmp, harg, hty]
  have hrun : (today lo f2i i2f P c (.str op) (.strs vs)).runBuiltIn (canon .string) =
      (look "multiInputFilterFuncs" .set true).run (today lo f2i i2f P c (.str op) (.strs vs)) (fun _ _ => .stuck) { const := none } := by
    simp [DEnv.runBuiltIn, canon, DE.run, DArg.const]
  rw [hrun]
  by_cases hin : op = "in"
  · subst hin
    simp only [beq_self_eq_true]
    refine agrees_look_hit (P' := { ({ P with lo := lo } : KParams) with strs := vs }) (k := .int 0)
      (by rw [hty]; exact gen_in_canon.2.1) (by intro fn; simp [roleArgs]) (preOk_guarded _ _ _) ?_
    intro r hx _
    rw [hty] at hx ⊢
    rcases hcell : c.cells[r]! with _ | _ | _ | s <;> rw [hcell] at hx <;> simp [cellOk, cellVal] at hx
    have := gen_kernel_semantics_in_string c.vals s { ({ P with lo := lo } : KParams) with strs := vs } (.str s) (.int 0)
    cases s <;> exact this
  · have : ((CType.string == CType.string || CType.string == CType.enum) && op == "in") = false := by simpa using hin
    simp only [this, Bool.false_eq_true, if_false]
    refine agrees_look_miss ?_
    rw [hty]
    have ht : tableOps "scolumn" "multiInputFilterFuncs" = ["in"] := by decide
    rw [pkgOf, ht]; simpa using hin

/-- `in` with a list of strings on an enum column -/
theorem leaf_strs_enum (lo f2i i2f P) (f : LFrame) (l : Leaf) (c : LCol) (op : String) (vs : List Bytes)
    (hc : f.find? l.col = some c) (hcmp : l.cmp = .builtin op) (harg : l.arg = .strs vs) (hty : c.ty = .enum)
    (hlen : c.vals.length ≤ 255) :
    Agrees ((today lo f2i i2f P c (.str op) (.strs vs)).runBuiltIn (canon c.ty)) c c (leafPred lo f l) := by
  unfold leafPred
  simp only [hc, hcmp, harg, hty]
  by_cases hin : op = "in"
  · subst hin
    simp only [beq_self_eq_true, Bool.or_true, Bool.and_self, if_true]
    obtain ⟨B, hB, _⟩ := gen_kernel_semantics_in_enum c.vals hlen none (by simp [cellOk, cellVal]) { ({ P with lo := lo } : KParams) with strs := vs } (.int 0) (.int 0)
    obtain ⟨fn, hfn, hk⟩ := Option.bind_eq_some_iff.1 (show (tableFn "ecolumn" tabIn "in").bind (kernelIn Gen.kernelAst "ecolumn") = some ("bitset", B) from hB)
    have hfn' : (today lo f2i i2f P c (.str "in") (.strs vs)).tableFn "multiInputFilterFuncs" "in" = some fn := by rw [tableFn_today, hty]; exact hfn
    have hk' : (today lo f2i i2f P c (.str "in") (.strs vs)).kernel fn = some ("bitset", B) := by rw [kernel_today, hty]; exact hk
    have hrd : (today lo f2i i2f P c (.str "in") (.strs vs)).kernel "Column.filterWithBitset" = some ("guarded", .bitset .cell) := by
      rw [kernel_today, hty]; exact gen_in_canon.2.2.2
    have hrun : (today lo f2i i2f P c (.str "in") (.strs vs)).runBuiltIn (canon .enum) =
        .upd (fun x y b => kstep "guarded" ((KE.bitset .cell).eval .enum c.vals
          { ({ ({ P with lo := lo } : KParams) with strs := vs } : KParams) with
            bset := bsetOf c.vals { ({ P with lo := lo } : KParams) with strs := vs } (.int 0) B } x y (.int 0)) b) := by
      simp [DEnv.runBuiltIn, canon, canonEnumWith, onStrEnum, DE.run, DArg.const, hfn', hk', hrd, hty, roleArgs, preOk, hasPre, bsetOf_eq]
    rw [hrun]
    have := agrees_upd (c' := c) (ac' := c) (sh := "guarded") (ke := .bitset .cell)
      (P := { ({ ({ P with lo := lo } : KParams) with strs := vs } : KParams) with
            bset := bsetOf c.vals { ({ P with lo := lo } : KParams) with strs := vs } (.int 0) B })
      (k := .int 0)
      (p := fun r => match c.cells[r]! with | .str (some x) => vs.contains x | _ => false) (by
        intro r hx _
        rw [hty] at hx ⊢
        rcases hcell : c.cells[r]! with _ | _ | _ | s <;> rw [hcell] at hx
        · simp [cellOk, cellVal] at hx
        · simp [cellOk, cellVal] at hx
        · simp [cellOk, cellVal] at hx
        obtain ⟨B', hB', hcomp⟩ := gen_kernel_semantics_in_enum c.vals hlen s hx { ({ P with lo := lo } : KParams) with strs := vs } (.str s) (.int 0)
        rw [hB] at hB'
        simp only [Option.some.injEq, Prod.mk.injEq, true_and] at hB'
        subst hB'
        rw [gen_in_canon.2.2.2] at hcomp
        cases s <;> exact hcomp)
    rw [hty] at this
    exact this
  · have : ((CType.enum == CType.string || CType.enum == CType.enum) && op == "in") = false := by simpa using hin
    simp only [this, Bool.false_eq_true, if_false]
    have hmiss : (today lo f2i i2f P c (.str op) (.strs vs)).tableFn "multiInputFilterFuncs" op = none := by
      rw [tableFn_today, hty]
      refine tableFn_none ?_
      have ht : tableOps "ecolumn" "multiInputFilterFuncs" = ["in"] := by decide
      rw [pkgOf, ht]; simpa using hin
    have : (today lo f2i i2f P c (.str op) (.strs vs)).runBuiltIn (canon .enum) = .err := by
      simp [DEnv.runBuiltIn, canon, canonEnumWith, onStrEnum, DE.run, DArg.const, hmiss, E0]
    rw [this]; exact agrees_err


/-! ### column against column -/

theorem gen_equalTypes_canon :
    Gen.equalTypesAst = [.rejectIf (.or .lenValuesNe .lenDataNe), .rejectIfValueDiffers, .accept] := by decide

/-- `equalTypes` of today's source: same value table and same number of cells. -/
theorem gen_equalTypes_sem (v1 v2 : List Bytes) (n1 n2 : Nat) :
    runEqualTypes v1 n1 v2 n2 Gen.equalTypesAst = some (decide (v1 = v2 ∧ n1 = n2)) := by
  rw [gen_equalTypes_canon]
  simp only [runEqualTypes, QCond.eval]
  by_cases hl : v1.length = v2.length
  · by_cases hn : n1 = n2
    · subst hn
      simp only [hl, bne_self_eq_false, Bool.or_self, Nat.lt_irrefl, if_false, and_true]
      by_cases he : v1 = v2
      · subst he
        simp
      · have : (List.range v2.length).any (fun i => v1[i]! != v2[i]!) = true := by
          rw [List.any_eq_true]
          apply Classical.byContradiction
          intro hne
          apply he
          apply List.ext_getElem hl
          intro i h1 h2
          apply Classical.byContradiction
          intro hd
          apply hne
          refine ⟨i, by simpa using h2, ?_⟩
          simp [h1, h2, hd]
        simp only [this, if_true]
        simp [he]
    · have : (n1 != n2) = true := by simpa using hn
      simp [this, hn]
  · have : (v1.length != v2.length) = true := by simpa using hl
    have hne : ¬ v1 = v2 := fun h => hl (by rw [h])
    simp [this, hne]

theorem leaf_col_core (lo f2i i2f P) (c ac : LCol) (op : String) (hdef : c.ty ∈ tys) (hn : c.cells.size = ac.cells.size) :
    Agrees ((today lo f2i i2f P c (.str op) (.col ac.ty ac.vals ac.cells.size)).runBuiltIn (canon c.ty)) c ac
      (if c.ty != ac.ty then none else if c.ty == .enum && (c.vals != ac.vals) then none else
        if (if c.ty == .bool then op == "=" || op == "!=" else isOrd6 op) then some (fun r => cmp6 c op c.cells[r]! ac.cells[r]!) else none) := by
  by_cases hty : c.ty = ac.ty
  · have hne : (c.ty != ac.ty) = false := by simpa using hty
    simp only [hne, Bool.false_eq_true, if_false]
    -- the look-up shared by all types
    have hlook : ∀ (ret : Bool), (c.ty = .enum → c.vals = ac.vals) →
        Agrees ((look "filterFuncs2" .col2 ret).run (today lo f2i i2f P c (.str op) (.col ac.ty ac.vals ac.cells.size)) (fun _ _ => .stuck) { const := none }) c ac
          (if (if c.ty == .bool then op == "=" || op == "!=" else isOrd6 op) then some (fun r => cmp6 c op c.cells[r]! ac.cells[r]!) else none) := by
      intro ret hvals
      by_cases hop : op ∈ cmpOps c.ty
      · have hok : (if c.ty == .bool then op == "=" || op == "!=" else isOrd6 op) = true := by
          cases h : c.ty <;> rw [h] at hop hdef <;> simp [tys] at hdef <;> simpa [cmpOps, ops6, isOrd6] using hop
        simp only [hok, if_true]
        refine agrees_look_hit (P' := { P with lo := lo }) (k := .int 0) (gen_cmp2_canon c.ty hdef op hop)
          (by intro fn; simp [roleArgs, hty]) (preOk_guarded _ _ _) ?_
        intro r hx hy
        refine gen_kernel_semantics_cmp2 c op hop _ _ hx ?_ _ _
        rw [← hty] at hy
        by_cases he : c.ty = .enum
        · rw [hvals he]; exact hy
        · rw [cellOk_vals he c.vals ac.vals]; exact hy
      · have hok : (if c.ty == .bool then op == "=" || op == "!=" else isOrd6 op) = false := by
          cases h : c.ty <;> rw [h] at hop hdef <;> simp [tys] at hdef <;> simpa [cmpOps, ops6, isOrd6] using hop
        simp only [hok, Bool.false_eq_true, if_false]
        refine agrees_look_miss ?_
        have ht : ∀ ty ∈ tys, tableOps (pkgOf ty) "filterFuncs2" = if ty = .bool then ["!=", "="] else ["!=", "<", "<=", "=", ">", ">="] := by decide
        rw [ht _ hdef]
        cases h : c.ty <;> simp [h, cmpOps, tys, ops6] at hop hdef ⊢ <;> simp [hop]
    cases h : c.ty <;> simp [h, tys] at hdef
    · have := hlook false (by simp [h])
      rw [h] at this
      simpa [DEnv.runBuiltIn, canon, DE.run, DArg.const, ← hty, h] using this
    · have := hlook false (by simp [h])
      rw [h] at this
      simpa [DEnv.runBuiltIn, canon, DE.run, DArg.const, ← hty, h] using this
    · have := hlook false (by simp [h])
      rw [h] at this
      simpa [DEnv.runBuiltIn, canon, DE.run, DArg.const, ← hty, h] using this
    · have := hlook true (by simp [h])
      rw [h] at this
      simpa [DEnv.runBuiltIn, canon, DE.run, DArg.const, ← hty, h] using this
    · -- enum: equalTypes first
      by_cases hv : c.vals = ac.vals
      · have := hlook false (fun _ => hv)
        rw [h] at this
        simpa [DEnv.runBuiltIn, canon, canonEnumWith, DE.run, DArg.const, ← hty, h, gen_equalTypes_sem, hv, hn] using this
      · have hvb : (c.vals != ac.vals) = true := by simpa using hv
        simp [DEnv.runBuiltIn, canon, canonEnumWith, DE.run, DArg.const, ← hty, h, gen_equalTypes_sem, hv, hvb, E0, Agrees]
  · have hne : (c.ty != ac.ty) = true := by simpa using hty
    simp only [hne, if_true]
    have : (today lo f2i i2f P c (.str op) (.col ac.ty ac.vals ac.cells.size)).runBuiltIn (canon c.ty) = .err := by
      have hty' : ¬ ac.ty = c.ty := fun h => hty h.symm
      cases h : c.ty <;> simp [h, tys] at hdef <;> simp [DEnv.runBuiltIn, canon, canonEnumWith, DE.run, h, E0] <;> rw [h] at hty' <;> simp [hty']
    rw [this]; exact agrees_err


/-! ## The statement -/

theorem run_dispatchOf (E : DEnv) {ty : CType} (h : ty ∈ tys) : E.runBuiltIn (dispatchOf ty) = E.runBuiltIn (canon ty) := by
  unfold DEnv.runBuiltIn
  rw [← run_untag, gen_dispatch_canon ty h]

/-- The outcome of `QFrame.filter` for one leaf with the built-in comparator `op` on column `c` of frame `f`: the
result of the extracted dispatcher of the receiver's package (run with the extracted tables and kernels), the receiver
and the column that supplies the second operand. -/
def goLeaf (lo : LikeOracle) (f2i : UInt64 → Int) (i2f : Int → UInt64) (P : KParams) (f : LFrame) (c : LCol) (op : String) (a : Arg) :
    DRes × LCol × LCol :=
  match prep f c a with
  | none => (.err, c, c)
  | some (c', arg, ac') => ((today lo f2i i2f P c' (.str op) arg).runBuiltIn (dispatchOf c'.ty), c', ac')

/-- Well-typedness of the request: the column has one of the five types, an enum column has at most 255 values (the
representation invariant of `ecolumn.Column`, C17 `mkEnum_rank_lt_255`), an int constant is a Go `int`, and the columns
of the frame have the same number of cells. -/
structure LeafWT (f : LFrame) (l : Leaf) (c : LCol) : Prop where
  ty : c.ty ∈ tys
  enumLen : c.ty = .enum → c.vals.length ≤ 255
  goInt : ∀ v, l.arg = .cell (.int v) → int64 v
  sameLen : ∀ an ac, l.arg = .col an → f.find? an = some ac → ac.cells.size = c.cells.size

theorem promote_size (c : LCol) : (promote c).cells.size = c.cells.size := by
  unfold promote; split <;> simp

local macro "reject" : tactic =>
  `(tactic| (unfold leafPred; simp only [*]; simp [DEnv.runBuiltIn, canon, canonEnumWith, DE.run, E0, Agrees]))

/-- **The dispatch of today's source decides what the spec decides.** For every frame, every leaf with a built-in
comparator STRING `op` (known or not) on a column of any of the five types and every kind of argument — a constant of any
type, nil, a list of ints or strings, a column name, anything else — the extracted `filterBuiltIn` of the receiver's
package, run with the extracted comparator tables and the extracted kernels, returns an error exactly when `leafPred`
rejects the leaf, and otherwise leaves `b || p r` in the mask entry of every row `r` that held `b`, `p` being the row
predicate of `leafPred`.

Excluded (hence `_partial`): a `float64` constant for an int column, where code and spec disagree — see
`float_const_on_int_column_is_truncated`. -/
theorem gen_leaf_semantics_partial (lo : LikeOracle) (f2i : UInt64 → Int) (i2f : Int → UInt64) (P : KParams)
    (f : LFrame) (l : Leaf) (c : LCol) (op : String)
    (hc : f.find? l.col = some c) (hcmp : l.cmp = .builtin op) (hwt : LeafWT f l c)
    (hex : ¬ (c.ty = .int ∧ ∃ b, l.arg = .cell (.float b))) :
    Agrees (goLeaf lo f2i i2f P f c op l.arg).1 (goLeaf lo f2i i2f P f c op l.arg).2.1 (goLeaf lo f2i i2f P f c op l.arg).2.2
      (leafPred lo f l) := by
  have hdef := hwt.ty
  cases harg : l.arg with
  | cell k =>
    rcases k with v | b | b | (_ | s)
    · simp only [goLeaf, prep, run_dispatchOf _ hdef]
      cases hty : c.ty <;> simp [hty, tys] at hdef
      · rw [← hty]; exact leaf_cell_int lo f2i i2f P f l c op v hc hcmp harg hty (hwt.goInt v harg)
      all_goals reject
    · simp only [goLeaf, prep, run_dispatchOf _ hdef]
      cases hty : c.ty <;> simp [hty, tys] at hdef
      · exact absurd ⟨hty, b, harg⟩ hex
      · rw [← hty]; exact leaf_cell_float lo f2i i2f P f l c op b hc hcmp harg hty
      all_goals reject
    · simp only [goLeaf, prep, run_dispatchOf _ hdef]
      cases hty : c.ty <;> simp [hty, tys] at hdef
      · reject
      · reject
      · rw [← hty]; exact leaf_cell_bool lo f2i i2f P f l c op b hc hcmp harg hty
      all_goals reject
    · simp only [goLeaf, prep, run_dispatchOf _ hdef]
      cases hty : c.ty <;> simp [hty, tys] at hdef
      all_goals reject
    · simp only [goLeaf, prep, run_dispatchOf _ hdef]
      cases hty : c.ty <;> simp [hty, tys] at hdef
      · reject
      · reject
      · reject
      · rw [← hty]; exact leaf_cell_string lo f2i i2f P f l c op s hc hcmp harg hty
      · rw [← hty]; exact leaf_cell_enum lo f2i i2f P f l c op s hc hcmp harg hty (hwt.enumLen hty)
  | nil =>
    simp only [goLeaf, prep, run_dispatchOf _ hdef]
    by_cases hb : c.ty = .bool
    · reject
    · exact leaf_nil lo f2i i2f P f l c op hc hcmp harg (by
        cases hty : c.ty <;> simp [hty, tys, nullTys] at hdef hb ⊢)
  | ints vs =>
    simp only [goLeaf, prep, run_dispatchOf _ hdef]
    cases hty : c.ty <;> simp [hty, tys] at hdef
    · rw [← hty]; exact leaf_ints lo f2i i2f P f l c op vs hc hcmp harg hty
    all_goals reject
  | strs vs =>
    simp only [goLeaf, prep, run_dispatchOf _ hdef]
    cases hty : c.ty <;> simp [hty, tys] at hdef
    · reject
    · reject
    · reject
    · rw [← hty]; exact leaf_strs_string lo f2i i2f P f l c op vs hc hcmp harg hty
    · rw [← hty]; exact leaf_strs_enum lo f2i i2f P f l c op vs hc hcmp harg hty (hwt.enumLen hty)
  | bad =>
    simp only [goLeaf, prep, run_dispatchOf _ hdef]
    cases hty : c.ty <;> simp [hty, tys] at hdef
    all_goals reject
  | col an =>
    cases hac : f.find? an with
    | none =>
      unfold leafPred
      simp [goLeaf, prep, hc, hcmp, harg, hac, Agrees]
    | some ac =>
      have hsz := hwt.sameLen an ac harg hac
      by_cases hA : (c.ty == .int && ac.ty == .float) = true
      · have h1 : c.ty = .int := by simp at hA; exact hA.1
        have h2 : ac.ty = .float := by simp at hA; exact hA.2
        have hB : (c.ty == .float && ac.ty == .int) = false := by simp [h1]
        have hpt : (promote c).ty = .float := by simp [promote, h1]
        have := leaf_col_core lo f2i i2f P (promote c) ac op (by rw [hpt]; decide) (by rw [promote_size]; exact hsz.symm)
        unfold leafPred
        simp only [goLeaf, prep, hc, hcmp, harg, hac, hA, hB, if_true, Bool.false_eq_true, if_false]
        rw [run_dispatchOf _ (by rw [hpt]; decide)]
        exact this
      · by_cases hB : (c.ty == .float && ac.ty == .int) = true
        · have h1 : c.ty = .float := by simp at hB; exact hB.1
          have := leaf_col_core lo f2i i2f P c (promote ac) op hdef (by rw [promote_size]; exact hsz.symm)
          unfold leafPred
          simp only [goLeaf, prep, hc, hcmp, harg, hac, hA, hB, if_true, Bool.false_eq_true, if_false]
          rw [run_dispatchOf _ hdef]
          exact this
        · have := leaf_col_core lo f2i i2f P c ac op hdef hsz.symm
          unfold leafPred
          simp only [goLeaf, prep, hc, hcmp, harg, hac, hA, hB, Bool.false_eq_true, if_false]
          rw [run_dispatchOf _ hdef]
          exact this


/-! ## Finding: a `float64` constant for an int column

`intComp` accepts a `float64` comparatee for an int column and truncates it (`int(compFloat)`), for every comparator of
`filterFuncs`; the spec rejects such a leaf (`leafPred` has no case `.int, .float`). -/

theorem run_float_on_int (lo : LikeOracle) (f2i : UInt64 → Int) (i2f : Int → UInt64) (P : KParams) (c : LCol) (op : String) (b : UInt64)
    (hty : c.ty = .int) :
    (today lo f2i i2f P c (.str op) (.float b)).runBuiltIn (canon c.ty) =
      (today lo f2i i2f P c (.str op) (.int (f2i b))).runBuiltIn (canon c.ty) := by
  rw [hty]
  simp only [DEnv.runBuiltIn, canon, look, DE.run, today_arg, today_op, today_start, DArg.const]
  have h1 : (today lo f2i i2f P c (.str op) (.float b)).tableFn "filterFuncs" op = (today lo f2i i2f P c (.str op) (.int (f2i b))).tableFn "filterFuncs" op := rfl
  have h2 : (today lo f2i i2f P c (.str op) (.float b)).kernel = (today lo f2i i2f P c (.str op) (.int (f2i b))).kernel := rfl
  rw [h1, h2]
  cases (today lo f2i i2f P c (.str op) (.int (f2i b))).tableFn "filterFuncs" op with
  | none => rfl
  | some fn => simp [DConv.apply, roleArgs, hty]

/-- **Finding.** Input: an int column `c`, a leaf `c op x` with a `float64` constant `x` (bit pattern `b`), `op` any
comparator. The spec rejects the leaf (`leafPred = none`: `Filter` must return an error); today's code treats it exactly
like the leaf with the int constant `int(x)`: for `op` one of `< <= > >= = != any_bits all_bits` it returns no error and
selects the rows `c op int(x)` (e.g. `c = 1.5` selects the rows with `c = 1`; observed on the real code:
`Filter{x < 1e30}` on x = [0,1,2,3] returns no rows, `int(1e30)` being the smallest `int`). -/
theorem float_const_on_int_column_is_truncated (lo : LikeOracle) (f2i : UInt64 → Int) (i2f : Int → UInt64) (P : KParams)
    (f : LFrame) (l : Leaf) (c : LCol) (op : String) (b : UInt64)
    (hc : f.find? l.col = some c) (hcmp : l.cmp = .builtin op) (harg : l.arg = .cell (.float b)) (hty : c.ty = .int)
    (hi : int64 (f2i b)) :
    leafPred lo f l = none ∧
    Agrees (goLeaf lo f2i i2f P f c op l.arg).1 c c (leafPred lo f { l with arg := .cell (.int (f2i b)) }) := by
  constructor
  · unfold leafPred; simp [hc, hcmp, harg, hty]
  · simp only [goLeaf, harg, prep, run_dispatchOf _ (show c.ty ∈ tys by rw [hty]; decide)]
    rw [run_float_on_int lo f2i i2f P c op b hty]
    exact leaf_cell_int lo f2i i2f P f { l with arg := .cell (.int (f2i b)) } c op (f2i b) hc hcmp rfl hty hi


/-! ## The enum rules of C17, on the extracted dispatcher -/

theorem agrees_none {r : DRes} {c ac : LCol} (h : Agrees r c ac none) : r = .err := by
  cases r <;> simp [Agrees] at h ⊢

theorem agrees_some {r : DRes} {c ac : LCol} {p : Nat → Bool} (h : Agrees r c ac (some p)) :
    ∃ u, r = .upd u ∧ ∀ (r : Nat) (b : Bool), cellOk c.ty c.vals c.cells[r]! = true → cellOk ac.ty ac.vals ac.cells[r]! = true →
      u c.cells[r]! ac.cells[r]! b = some (b || p r) := by
  cases r with
  | upd u => exact ⟨u, rfl, h⟩
  | err => simp [Agrees] at h
  | stuck => simp [Agrees] at h

/-- C17 on today's `ecolumn.filterBuiltIn`: a constant that is not in the value table, under one of the six comparison
operators — an error if the column is strict; otherwise every row for `!=` and no row for the others (whatever the
cells are). -/
theorem gen_enum_undeclared (lo : LikeOracle) (f2i : UInt64 → Int) (i2f : Int → UInt64) (P : KParams) (c : LCol) (op : String) (v : Bytes)
    (hty : c.ty = .enum) (hop : isOrd6 op = true) (hv : v ∉ c.vals) :
    (today lo f2i i2f P c (.str op) (.str v)).runBuiltIn (dispatchOf c.ty) =
      if c.strict then .err else .upd (fun _ _ b => some (b || (op == "!="))) := by
  rw [run_dispatchOf _ (by rw [hty]; decide)]
  have hr : enumRank c.vals v = none := C17Enum.enumRank_eq_none_iff.2 hv
  obtain ⟨fn, hfn, _⟩ := Option.bind_eq_some_iff.1 (gen_cmp1_canon .enum (by decide) op (isOrd6_mem hop))
  have hfn' : (today lo f2i i2f P c (.str op) (.str v)).tableFn "filterFuncs1" op = some fn := by rw [tableFn_today, hty]; exact hfn
  by_cases hs : c.strict = true
  · simp [DEnv.runBuiltIn, canon, canonEnumWith, onStrEnum, DE.run, DArg.const, hfn', hty, hr, hs, E0]
  · by_cases hne : op = "!="
    · subst hne
      simp [DEnv.runBuiltIn, canon, canonEnumWith, onStrEnum, DE.run, DArg.const, hfn', hty, hr, hs]
    · have : (op == "!=") = false := by simpa using hne
      simp [DEnv.runBuiltIn, canon, canonEnumWith, onStrEnum, DE.run, DArg.const, hfn', hty, hr, hs, hne, this]

/-- … and this is what C17's `enum_filter_undeclared` says the spec does. -/
theorem gen_enum_undeclared_spec (lo : LikeOracle) (f2i : UInt64 → Int) (i2f : Int → UInt64) (P : KParams)
    (f : LFrame) (l : Leaf) (c : LCol) (op : String) (v : Bytes)
    (hc : f.find? l.col = some c) (hcmp : l.cmp = .builtin op) (harg : l.arg = .cell (.str (some v))) (hty : c.ty = .enum)
    (hlen : c.vals.length ≤ 255) (hop : isOrd6 op = true) (hv : v ∉ c.vals) :
    Agrees ((today lo f2i i2f P c (.str op) (.str v)).runBuiltIn (dispatchOf c.ty)) c c
      (if c.strict then none else some (fun _ => op == "!=")) := by
  rw [← C17Enum.enum_filter_undeclared lo f l c op v hc hty hcmp harg hop hv, run_dispatchOf _ (by rw [hty]; decide)]
  exact leaf_cell_enum lo f2i i2f P f l c op v hc hcmp harg hty hlen

/-- A declared constant is compared row by row (C17 `enum_filter_declared`), strict or not. -/
theorem gen_enum_declared (lo : LikeOracle) (f2i : UInt64 → Int) (i2f : Int → UInt64) (P : KParams)
    (f : LFrame) (l : Leaf) (c : LCol) (op : String) (v : Bytes)
    (hc : f.find? l.col = some c) (hcmp : l.cmp = .builtin op) (harg : l.arg = .cell (.str (some v))) (hty : c.ty = .enum)
    (hlen : c.vals.length ≤ 255) (hop : isOrd6 op = true) (hv : v ∈ c.vals) :
    Agrees ((today lo f2i i2f P c (.str op) (.str v)).runBuiltIn (dispatchOf c.ty)) c c
      (some (fun r => cmp6 c op c.cells[r]! (.str (some v)))) := by
  rw [← C17Enum.enum_filter_declared lo f l c op v hc hty hcmp harg hop hv, run_dispatchOf _ (by rw [hty]; decide)]
  exact leaf_cell_enum lo f2i i2f P f l c op v hc hcmp harg hty hlen

/-- like / ilike with a valid pattern and `in` are never errors on an enum column, whether or not the values are
declared, strict or not. -/
theorem gen_enum_sets_no_error (lo : LikeOracle) (f2i : UInt64 → Int) (i2f : Int → UInt64) (P : KParams)
    (f : LFrame) (l : Leaf) (c : LCol) (hc : f.find? l.col = some c) (hty : c.ty = .enum) (hlen : c.vals.length ≤ 255) :
    (∀ op v, l.cmp = .builtin op → l.arg = .cell (.str (some v)) → (op = "like" ∨ op = "ilike") → lo.valid v (op == "ilike") = true →
      ∃ u, (today lo f2i i2f P c (.str op) (.str v)).runBuiltIn (dispatchOf c.ty) = .upd u) ∧
    (∀ vs, l.cmp = .builtin "in" → l.arg = .strs vs →
      ∃ u, (today lo f2i i2f P c (.str "in") (.strs vs)).runBuiltIn (dispatchOf c.ty) = .upd u) := by
  have hdef : c.ty ∈ tys := by rw [hty]; decide
  constructor
  · intro op v hcmp harg hl hv
    have h := leaf_cell_enum lo f2i i2f P f l c op v hc hcmp harg hty hlen
    have hp : ∃ p, leafPred lo f l = some p := by
      unfold leafPred
      rcases hl with rfl | rfl <;> simp [hc, hcmp, harg, hty, isOrd6] at hv ⊢ <;> simp [hv]
    obtain ⟨p, hp⟩ := hp
    rw [hp] at h
    obtain ⟨u, hu, _⟩ := agrees_some h
    exact ⟨u, by rw [run_dispatchOf _ hdef]; exact hu⟩
  · intro vs hcmp harg
    have h := leaf_strs_enum lo f2i i2f P f l c "in" vs hc hcmp harg hty hlen
    have hp : ∃ p, leafPred lo f l = some p := by
      unfold leafPred
      simp [hc, hcmp, harg, hty]
    obtain ⟨p, hp⟩ := hp
    rw [hp] at h
    obtain ⟨u, hu, _⟩ := agrees_some h
    exact ⟨u, by rw [run_dispatchOf _ hdef]; exact hu⟩

/-- Column against column on enums needs equal value tables (`equalTypes`), for every comparator. -/
theorem gen_enum_col_needs_equal_types (lo : LikeOracle) (f2i : UInt64 → Int) (i2f : Int → UInt64) (P : KParams) (c ac : LCol) (op : String)
    (hty : c.ty = .enum) (hty2 : ac.ty = .enum) (hv : c.vals ≠ ac.vals) :
    (today lo f2i i2f P c (.str op) (.col ac.ty ac.vals ac.cells.size)).runBuiltIn (dispatchOf c.ty) = .err := by
  rw [run_dispatchOf _ (by rw [hty]; decide)]
  simp [DEnv.runBuiltIn, canon, canonEnumWith, onStrEnum, DE.run, hty, hty2, gen_equalTypes_sem, hv, E0]


/-! ## `Column.Filter`, `filterCustom1`, `filterCustom2` -/

def entryOf (ty : CType) (role : String) : Option DE :=
  (Gen.entryAst.find? (fun k => k.1 == DE.pkgOf ty && k.2.1 == role)).map (fun k => k.2.2)

/-- `Column.Filter`: a string goes to `filterBuiltIn`, a predicate on the package's element type to `filterCustom1` /
`filterCustom2`, anything else is an error; errors of the callees are returned. -/
def canonFilter : DE := .cmpSwitch (.callEntry "builtIn" true) (.callEntry "custom1" false) (.callEntry "custom2" true) E0
def canonCustom1 : DE := .ownLoop "Column.filterCustom1" .none
/-- `filterCustom2`: the comparatee must be a column of the package -/
def canonCustom2 : DE := .typeSwitch E0 E0 E0 E0 E0 E0 (.ownLoop "Column.filterCustom2" .col2) E0 E0

theorem gen_entries_canon : ∀ ty ∈ tys,
    (entryOf ty "filter").map DE.untag = some canonFilter ∧ entryOf ty "builtIn" = some (dispatchOf ty) ∧
    (entryOf ty "custom1").map DE.untag = some canonCustom1 ∧ (entryOf ty "custom2").map DE.untag = some canonCustom2 := by
  decide

theorem entry_today {lo f2i i2f P c cmp arg} (role : String) : (today lo f2i i2f P c cmp arg).entry role = entryOf c.ty role := rfl

/-- `Column.Filter` adds no decision for a comparator string: it is `filterBuiltIn`. -/
theorem gen_filter_builtin (lo : LikeOracle) (f2i : UInt64 → Int) (i2f : Int → UInt64) (P : KParams) (c : LCol) (op : String) (arg : DArg)
    (hdef : c.ty ∈ tys) :
    (today lo f2i i2f P c (.str op) arg).runFilter = (today lo f2i i2f P c (.str op) arg).runBuiltIn (dispatchOf c.ty) := by
  obtain ⟨h1, h2, _, _⟩ := gen_entries_canon c.ty hdef
  unfold DEnv.runFilter DEnv.runBuiltIn
  rw [entry_today]
  cases hf : entryOf c.ty "filter" with
  | none => rw [hf] at h1; simp at h1
  | some d =>
    rw [hf] at h1
    simp only [Option.map_some, Option.some.injEq] at h1
    simp only []
    rw [← run_untag, h1]
    simp only [canonFilter, DE.run, today]
    simp only [DEnv.entry]
    have : (Gen.entryAst.find? (fun k => k.1 == DE.pkgOf c.ty && k.2.1 == "builtIn")).map (fun k => k.2.2) = some (dispatchOf c.ty) := h2
    rw [this]
    simp only []
    split <;> simp_all


theorem ownLoop_not_err (E : DEnv) (sub : String → DSt → DRes) (σ : DSt) (fn : String) (role : DRole) :
    (DE.ownLoop fn role).run E sub σ ≠ .err := by
  simp only [DE.run]
  split
  · simp
  · split
    · split <;> simp
    · simp

/-- what `Column.Filter` does with a predicate (`k = 1`: `func(T) bool`, `k = 2`: `func(T, T) bool`) whose parameter type
is that of the package of column type `tyF` -/
theorem runFilter_fn {lo f2i i2f P} {c : LCol} {arg : DArg} (hdef : c.ty ∈ tys) (tyF : CType) (two : Bool) :
    (today lo f2i i2f P c (if two then .fn2 tyF else .fn1 tyF) arg).runFilter =
      if tyF = fnTy c.ty then
        (if two then canonCustom2 else canonCustom1).run (today lo f2i i2f P c (if two then .fn2 tyF else .fn1 tyF) arg) (fun _ _ => .stuck)
          { const := arg.const }
      else .err := by
  obtain ⟨h1, _, h3, h4⟩ := gen_entries_canon c.ty hdef
  unfold DEnv.runFilter
  rw [entry_today]
  cases hf : entryOf c.ty "filter" with
  | none => rw [hf] at h1; simp at h1
  | some d =>
    rw [hf] at h1
    simp only [Option.map_some, Option.some.injEq] at h1
    simp only []
    rw [← run_untag, h1]
    cases two
    · cases h1e : entryOf c.ty "custom1" with
      | none => rw [h1e] at h3; simp at h3
      | some d1 =>
        rw [h1e] at h3
        simp only [Option.map_some, Option.some.injEq] at h3
        by_cases ht : tyF = fnTy c.ty
        · simp only [canonFilter, DE.run, today_cmp, today_ty, Bool.false_eq_true, if_false, ht, if_true, entry_today, h1e, today_start]
          rw [← run_untag, h3]
          have hne := ownLoop_not_err (today lo f2i i2f P c (.fn1 (fnTy c.ty)) arg) (fun _ _ => .stuck) { const := arg.const } "Column.filterCustom1" .none
          simp only [canonCustom1] at hne ⊢
        · simp [canonFilter, DE.run, ht, E0]
    · cases h2e : entryOf c.ty "custom2" with
      | none => rw [h2e] at h4; simp at h4
      | some d2 =>
        rw [h2e] at h4
        simp only [Option.map_some, Option.some.injEq] at h4
        by_cases ht : tyF = fnTy c.ty
        · simp only [canonFilter, DE.run, today_cmp, today_ty, if_true, ht, entry_today, h2e, today_start]
          rw [← run_untag, h4]
          split <;> simp_all
        · simp [canonFilter, DE.run, ht, E0]


/-- the parameter type of the harness's one-argument predicates (QF/Spec/Filter.lean `userP1`): `*string` is `.string` -/
def p1Ty : String → Option CType
  | "odd" => some .int | "neg" => some .float | "id" => some .bool | "isnil" => some .string | "len2" => some .string | _ => none

def c1ke : CType → KE
  | .string => .custom1 (.ptr .cell .isNull) | .enum => .custom1 .cellPtr | _ => .custom1 .cell
def c2ke : CType → KE
  | .string => .custom2 (.ptr .cell .isNull) (.ptr .cell2 .isNull2) | .enum => .custom2 .cellPtr .cellPtr2 | _ => .custom2 .cell .cell2
theorem custom_kernels : ∀ ty ∈ tys,
    kernelOf (pkgOf ty) "Column.filterCustom1" = some ("guarded", c1ke ty) ∧ (c1ke ty).matcher = none ∧
    kernelOf (pkgOf ty) "Column.filterCustom2" = some ("guarded+pre", c2ke ty) ∧ (c2ke ty).matcher = none := by decide

theorem spec_p1 (lo : LikeOracle) (f : LFrame) (l : Leaf) (c : LCol) (id : String) (tyF : CType)
    (hc : f.find? l.col = some c) (hcmp : l.cmp = .p1 id) (hdef : c.ty ∈ tys) (hid : p1Ty id = some tyF) :
    leafPred lo f l = if tyF = fnTy c.ty then some (fun r => (userP1 id c.cells[r]!).getD false) else none := by
  unfold leafPred
  simp only [hc, hcmp]
  unfold p1Ty at hid
  split at hid <;> simp at hid <;> subst hid <;> cases h : c.ty <;> simp [h, fnTy, tys] at hdef ⊢

/-- **Custom one-argument predicates.** `Column.Filter` with a `func(T) bool`: an error exactly when `T` is not the
element type of the column (`leafPred`'s `okTy`), otherwise `filterCustom1`'s loop applies the predicate to every cell;
the comparatee is ignored. -/
theorem gen_custom1_semantics (lo : LikeOracle) (f2i : UInt64 → Int) (i2f : Int → UInt64) (f : LFrame) (l : Leaf) (c : LCol)
    (id : String) (tyF : CType) (arg : DArg)
    (hc : f.find? l.col = some c) (hcmp : l.cmp = .p1 id) (hdef : c.ty ∈ tys) (hid : p1Ty id = some tyF) :
    Agrees ((today lo f2i i2f { fn1 := fun x => (userP1 id x).getD false } c (.fn1 tyF) arg).runFilter) c c (leafPred lo f l) := by
  rw [spec_p1 lo f l c id tyF hc hcmp hdef hid]
  have hrun := runFilter_fn (lo := lo) (f2i := f2i) (i2f := i2f) (P := { fn1 := fun x => (userP1 id x).getD false }) (c := c) (arg := arg) hdef tyF false
  simp only [Bool.false_eq_true, if_false] at hrun
  rw [hrun]
  obtain ⟨hk, hm, _, _⟩ := custom_kernels c.ty hdef
  by_cases ht : tyF = fnTy c.ty
  · simp only [ht, if_true]
    have : (canonCustom1).run (today lo f2i i2f { fn1 := fun x => (userP1 id x).getD false } c (.fn1 (fnTy c.ty)) arg) (fun _ _ => .stuck) { const := arg.const } =
        .upd (fun x y b => kstep "guarded" ((c1ke c.ty).eval c.ty c.vals { fn1 := fun x => (userP1 id x).getD false, lo := lo } x y (.int 0)) b) := by
      simp [canonCustom1, DE.run, kernel_today, hk, hm, roleArgs]
    rw [this]
    apply agrees_upd
    intro r hx _
    have := gen_kernel_semantics_custom1 c.ty hdef c.vals c.cells[r]! hx { fn1 := fun x => (userP1 id x).getD false, lo := lo } c.cells[r]! (.int 0)
    rw [hk] at this
    exact this
  · simp only [ht, if_false]
    exact agrees_err


/-- `filterCustom2` for a receiver `c` (after the promotion of `QFrame.filter`) and a comparatee column `ac`, the
predicate having the parameter type of the column type `tyO` the leaf's column had before the promotion. -/
theorem custom2_core (lo : LikeOracle) (f2i : UInt64 → Int) (i2f : Int → UInt64) (c ac : LCol) (tyO : CType) (hdef : c.ty ∈ tys)
    (hO : tyO = c.ty ∨ (tyO = .int ∧ c.ty = .float))
    (henum : c.ty = .enum → ac.ty = .enum → ac.vals = c.vals) :
    Agrees ((today lo f2i i2f { fn2 := fun x y => (userP2 x y).getD false } c (.fn2 (fnTy tyO)) (.col ac.ty ac.vals ac.cells.size)).runFilter) c ac
      (if (c.ty == ac.ty && tyO == c.ty) = true then some (fun r => (userP2 c.cells[r]! ac.cells[r]!).getD false) else none) := by
  have hrun := runFilter_fn (lo := lo) (f2i := f2i) (i2f := i2f) (P := { fn2 := fun x y => (userP2 x y).getD false }) (c := c)
    (arg := .col ac.ty ac.vals ac.cells.size) hdef (fnTy tyO) true
  simp only [if_true] at hrun
  rw [hrun]
  obtain ⟨_, _, hk, hm⟩ := custom_kernels c.ty hdef
  rcases hO with rfl | ⟨rfl, hf⟩
  · simp only [beq_self_eq_true, Bool.and_true, if_true]
    by_cases hty : c.ty = ac.ty
    · have hb : (c.ty == ac.ty) = true := by simpa using hty
      simp only [hb, if_true]
      have : (canonCustom2).run (today lo f2i i2f { fn2 := fun x y => (userP2 x y).getD false } c (.fn2 (fnTy c.ty)) (.col ac.ty ac.vals ac.cells.size))
            (fun _ _ => .stuck) { const := none } =
          .upd (fun x y b => kstep "guarded+pre" ((c2ke c.ty).eval c.ty c.vals { fn2 := fun x y => (userP2 x y).getD false, lo := lo } x y (.int 0)) b) := by
        simp [canonCustom2, DE.run, kernel_today, hk, hm, roleArgs, ← hty]
      simp only [DArg.const]
      rw [this]
      apply agrees_upd
      intro r hx hy
      have hy' : cellOk c.ty c.vals ac.cells[r]! = true := by
        rw [← hty] at hy
        by_cases he : c.ty = .enum
        · rw [← henum he (by rw [← hty]; exact he)]; exact hy
        · rw [cellOk_vals he c.vals ac.vals]; exact hy
      have := gen_kernel_semantics_custom2 c.ty hdef c.vals c.cells[r]! ac.cells[r]! hx hy' { fn2 := fun x y => (userP2 x y).getD false, lo := lo } (.int 0)
      rw [hk] at this
      exact this
    · have hb : (c.ty == ac.ty) = false := by simpa using hty
      have hty' : ¬ ac.ty = c.ty := fun h => hty h.symm
      simp only [hb, Bool.false_eq_true, if_false]
      have : (canonCustom2).run (today lo f2i i2f { fn2 := fun x y => (userP2 x y).getD false } c (.fn2 (fnTy c.ty)) (.col ac.ty ac.vals ac.cells.size))
            (fun _ _ => .stuck) { const := (DArg.col ac.ty ac.vals ac.cells.size).const } = .err := by
        simp [canonCustom2, DE.run, hty', E0]
      rw [this]; exact agrees_err
  · have h1 : ¬ fnTy CType.int = fnTy c.ty := by rw [hf]; decide
    have h2 : (CType.int == c.ty) = false := by rw [hf]; decide
    simp only [h1, if_false, h2, Bool.and_false, Bool.false_eq_true]
    exact agrees_err

/-- the Go call for a leaf with a custom two-argument predicate: the harness passes the predicate for the type of the
leaf's column -/
def goCustom2 (lo : LikeOracle) (f2i : UInt64 → Int) (i2f : Int → UInt64) (f : LFrame) (c : LCol) (a : Arg) : DRes × LCol × LCol :=
  match prep f c a with
  | none => (.err, c, c)
  | some (c', arg, ac') =>
    ((today lo f2i i2f { fn2 := fun x y => (userP2 x y).getD false } c' (.fn2 (fnTy c.ty)) arg).runFilter, c', ac')

/-- **Custom two-argument predicates.** `Column.Filter` with a `func(T, T) bool` for the column's element type: an
error unless the argument names a column of the same type (after `QFrame.filter`'s promotion: int receiver against float
column is an error, float receiver against int column is not), otherwise `filterCustom2`'s loop applies the predicate to
the two cells of every row.

Excluded (hence `_partial`): two enum columns with different value tables — `KE` evaluates both `stringPtrAt` against
the receiver's table; this is a limit of the kernel model, not a disagreement. -/
theorem gen_custom2_semantics_partial (lo : LikeOracle) (f2i : UInt64 → Int) (i2f : Int → UInt64) (f : LFrame) (l : Leaf) (c : LCol)
    (hc : f.find? l.col = some c) (hcmp : l.cmp = .p2) (hdef : c.ty ∈ tys)
    (henum : ∀ an ac, l.arg = .col an → f.find? an = some ac → c.ty = .enum → ac.ty = .enum → ac.vals = c.vals) :
    Agrees (goCustom2 lo f2i i2f f c l.arg).1 (goCustom2 lo f2i i2f f c l.arg).2.1 (goCustom2 lo f2i i2f f c l.arg).2.2 (leafPred lo f l) := by
  have hnoncol : ∀ (d : DArg), (∀ t v n, d ≠ .col t v n) →
      (today lo f2i i2f { fn2 := fun x y => (userP2 x y).getD false } c (.fn2 (fnTy c.ty)) d).runFilter = .err := by
    intro d hd
    have hrun := runFilter_fn (lo := lo) (f2i := f2i) (i2f := i2f) (P := { fn2 := fun x y => (userP2 x y).getD false }) (c := c) (arg := d) hdef (fnTy c.ty) true
    simp only [if_true] at hrun
    rw [hrun]
    cases d <;> simp [canonCustom2, DE.run, E0] at hd ⊢
  cases harg : l.arg with
  | col an =>
    cases hac : f.find? an with
    | none => unfold leafPred; simp [goCustom2, prep, hc, hcmp, harg, hac, Agrees]
    | some ac =>
      have he := henum an ac harg hac
      by_cases hA : (c.ty == .int && ac.ty == .float) = true
      · have h1 : c.ty = .int := by simp at hA; exact hA.1
        have hB : (c.ty == .float && ac.ty == .int) = false := by simp [h1]
        have hpt : (promote c).ty = .float := by simp [promote, h1]
        have := custom2_core lo f2i i2f (promote c) ac c.ty (by rw [hpt]; decide) (Or.inr ⟨h1, hpt⟩) (by rw [hpt]; intro h; cases h)
        unfold leafPred
        simp only [goCustom2, prep, hc, hcmp, harg, hac, hA, hB, if_true, Bool.false_eq_true, if_false]
        exact this
      · by_cases hB : (c.ty == .float && ac.ty == .int) = true
        · have h1 : c.ty = .float := by simp at hB; exact hB.1
          have hpv : (promote ac).ty = .float := by simp at hB; simp [promote, hB.2]
          have := custom2_core lo f2i i2f c (promote ac) c.ty hdef (Or.inl rfl) (by rw [h1]; intro h; cases h)
          unfold leafPred
          simp only [goCustom2, prep, hc, hcmp, harg, hac, hA, hB, if_true, Bool.false_eq_true, if_false]
          exact this
        · have := custom2_core lo f2i i2f c ac c.ty hdef (Or.inl rfl) he
          unfold leafPred
          simp only [goCustom2, prep, hc, hcmp, harg, hac, hA, hB, Bool.false_eq_true, if_false]
          exact this
  | cell k =>
    rcases k with v | b | b | (_ | s) <;> unfold leafPred <;>
    simp only [goCustom2, prep, hc, hcmp, harg] <;> rw [hnoncol _ (by intro t v n h; cases h)] <;> exact agrees_err
  | nil => unfold leafPred; simp only [goCustom2, prep, hc, hcmp, harg]; rw [hnoncol _ (by intro t v n h; cases h)]; exact agrees_err
  | ints vs => unfold leafPred; simp only [goCustom2, prep, hc, hcmp, harg]; rw [hnoncol _ (by intro t v n h; cases h)]; exact agrees_err
  | strs vs => unfold leafPred; simp only [goCustom2, prep, hc, hcmp, harg]; rw [hnoncol _ (by intro t v n h; cases h)]; exact agrees_err
  | bad => unfold leafPred; simp only [goCustom2, prep, hc, hcmp, harg]; rw [hnoncol _ (by intro t v n h; cases h)]; exact agrees_err





/-- the same call through the entry point `Column.Filter` (what `QFrame.filter` really calls) -/
def goLeafFilter (lo : LikeOracle) (f2i : UInt64 → Int) (i2f : Int → UInt64) (P : KParams) (f : LFrame) (c : LCol) (op : String) (a : Arg) :
    DRes × LCol × LCol :=
  match prep f c a with
  | none => (.err, c, c)
  | some (c', arg, ac') => ((today lo f2i i2f P c' (.str op) arg).runFilter, c', ac')

theorem prep_ty {f : LFrame} {c c' ac' : LCol} {a : Arg} {d : DArg} (h : prep f c a = some (c', d, ac')) (hdef : c.ty ∈ tys) : c'.ty ∈ tys := by
  cases a with
  | col an =>
    simp only [prep] at h
    cases hac : f.find? an with
    | none => simp [hac] at h
    | some ac =>
      simp only [hac, Option.some.injEq, Prod.mk.injEq] at h
      obtain ⟨rfl, _, _⟩ := h
      split
      · rename_i hA
        have h1 : c.ty = .int := by simp at hA; exact hA.1
        simp [promote, h1, tys]
      · exact hdef
  | cell k =>
    rcases k with v | b | b | (_ | s) <;> simp only [prep, Option.some.injEq, Prod.mk.injEq] at h <;> obtain ⟨rfl, _, _⟩ := h <;> exact hdef
  | nil => simp only [prep, Option.some.injEq, Prod.mk.injEq] at h; obtain ⟨rfl, _, _⟩ := h; exact hdef
  | ints l => simp only [prep, Option.some.injEq, Prod.mk.injEq] at h; obtain ⟨rfl, _, _⟩ := h; exact hdef
  | strs l => simp only [prep, Option.some.injEq, Prod.mk.injEq] at h; obtain ⟨rfl, _, _⟩ := h; exact hdef
  | bad => simp only [prep, Option.some.injEq, Prod.mk.injEq] at h; obtain ⟨rfl, _, _⟩ := h; exact hdef

theorem goLeafFilter_eq (lo : LikeOracle) (f2i : UInt64 → Int) (i2f : Int → UInt64) (P : KParams) (f : LFrame) (c : LCol) (op : String) (a : Arg)
    (hdef : c.ty ∈ tys) : goLeafFilter lo f2i i2f P f c op a = goLeaf lo f2i i2f P f c op a := by
  unfold goLeafFilter goLeaf
  cases h : prep f c a with
  | none => rfl
  | some x =>
    obtain ⟨c', d, ac'⟩ := x
    simp only [gen_filter_builtin lo f2i i2f P c' op d (prep_ty h hdef)]

/-- `gen_leaf_semantics_partial` for the call `QFrame.filter` makes: `Column.Filter` with the comparator string. -/
theorem gen_leaf_semantics_filter_partial (lo : LikeOracle) (f2i : UInt64 → Int) (i2f : Int → UInt64) (P : KParams)
    (f : LFrame) (l : Leaf) (c : LCol) (op : String)
    (hc : f.find? l.col = some c) (hcmp : l.cmp = .builtin op) (hwt : LeafWT f l c)
    (hex : ¬ (c.ty = .int ∧ ∃ b, l.arg = .cell (.float b))) :
    Agrees (goLeafFilter lo f2i i2f P f c op l.arg).1 (goLeafFilter lo f2i i2f P f c op l.arg).2.1
      (goLeafFilter lo f2i i2f P f c op l.arg).2.2 (leafPred lo f l) := by
  rw [goLeafFilter_eq lo f2i i2f P f c op l.arg hwt.ty]
  exact gen_leaf_semantics_partial lo f2i i2f P f l c op hc hcmp hwt hex

/-! ## The statement is not vacuous, and it notices the changes it should notice -/

section Witnesses

def lo0 : LikeOracle := ⟨fun _ _ => true, fun _ _ _ => false⟩
/-- a strict enum column with the value table [a] -/
def colS : LCol := { name := [120], ty := .enum, vals := [[97]], strict := true, cells := #[.str (some [97]), .str none] }
def frS : LFrame := { cols := [colS], n := 2 }
/-- x != "c" -/
def leafNeqC : Leaf := { inv := false, col := [120], cmp := .builtin "!=", arg := .cell (.str (some [99])) }
def envS (c : LCol) (op : String) (arg : DArg) : DEnv := today lo0 (fun _ => 0) (fun _ => 0) {} c (.str op) arg

example : LeafWT frS leafNeqC colS :=
  { ty := (by decide), enumLen := (fun _ => by decide), goInt := (fun _ h => by cases h), sameLen := (fun _ _ h _ => by cases h) }
example : leafPred lo0 frS leafNeqC = none :=
  C17Enum.enum_filter_undeclared lo0 frS leafNeqC colS "!=" [99] rfl rfl rfl rfl (by decide) (by decide)

/-- today's dispatcher rejects `x != "c"` on the strict column … -/
example : ((envS colS "!=" (.str [99])).runBuiltIn (dispatchOf .enum)).isErr = true := by decide
/-- … selects every row on the non-strict one, and none for `=` -/
example : ∃ u, (envS { colS with strict := false } "!=" (.str [99])).runBuiltIn (dispatchOf .enum) = .upd u ∧
    u (.str (some [97])) (.int 0) false = some true :=
  ⟨_, gen_enum_undeclared lo0 _ _ {} { colS with strict := false } "!=" [99] rfl (by decide) (by decide), by decide⟩
example : ∃ u, (envS { colS with strict := false } "=" (.str [99])).runBuiltIn (dispatchOf .enum) = .upd u ∧
    u (.str (some [97])) (.int 0) false = some false :=
  ⟨_, gen_enum_undeclared lo0 _ _ {} { colS with strict := false } "=" [99] rfl (by decide) (by decide), by decide⟩
/-- the declared constant reaches the kernel: row "a" is selected by `x = "a"`, the null row is not -/
example : ∃ u, (envS colS "=" (.str [97])).runBuiltIn (dispatchOf .enum) = .upd u ∧
    u (.str (some [97])) (.int 0) false = some true ∧ u (.str none) (.int 0) false = some false := by
  refine ⟨fun x y b => kstep "guarded" ((canon1 .enum "=").eval .enum [[97]] {} x y (.str (some [97]))) b, ?_, by decide, by decide⟩
  rw [run_dispatchOf _ (by decide)]
  rfl

/-- Witness 1: the `strict` test dropped (`if c.strict { return … }` removed). -/
def onStrNoStrict : DE :=
  .lookup "filterFuncs1" (.enumSearch (.callKernel .const false) (.ifOpIs "!=" .fillAllTrue .nothing))
    (.lookup "multiFilterFuncs" (.callBitset "Column.filterWithBitset" .const true) E0)

/-- Witness 2: the `!=` shortcut moved in front of the `strict` test (the term the extractor produces for that change,
see the self-test in the report). -/
def onStrNeqFirst : DE :=
  .lookup "filterFuncs1" (.enumSearch (.callKernel .const false) (.ifOpIs "!=" .fillAllTrue (.ifStrict E0 .nothing)))
    (.lookup "multiFilterFuncs" (.callBitset "Column.filterWithBitset" .const true) E0)

/-- neither is today's term … -/
example : (dispatchOf .enum).untag ≠ canonEnumWith onStrNoStrict ∧ (dispatchOf .enum).untag ≠ canonEnumWith onStrNeqFirst := by decide

/-- … and neither satisfies the statement: on the strict column, `x != "c"` is accepted (and selects every row). -/
example : ¬ Agrees ((envS colS "!=" (.str [99])).runBuiltIn (canonEnumWith onStrNoStrict)) colS colS (leafPred lo0 frS leafNeqC) := by
  rw [C17Enum.enum_filter_undeclared lo0 frS leafNeqC colS "!=" [99] rfl rfl rfl rfl (by decide) (by decide)]
  intro h
  have := congrArg DRes.isErr (agrees_none h)
  revert this; decide
example : ¬ Agrees ((envS colS "!=" (.str [99])).runBuiltIn (canonEnumWith onStrNeqFirst)) colS colS (leafPred lo0 frS leafNeqC) := by
  rw [C17Enum.enum_filter_undeclared lo0 frS leafNeqC colS "!=" [99] rfl rfl rfl rfl (by decide) (by decide)]
  intro h
  have := congrArg DRes.isErr (agrees_none h)
  revert this; decide
/-- without the `strict` test `x < "c"` is accepted as well (it selects nothing) -/
example : ((envS colS "<" (.str [99])).runBuiltIn (canonEnumWith onStrNoStrict)).isErr = false := by decide

/-- a kernel called without the search (the raw string handed to an `enumVal` kernel) has no meaning -/
example : (match (envS colS "=" (.str [97])).runBuiltIn (canonEnumWith (look "filterFuncs1" .const false)) with
    | .stuck => true | _ => false) = true := by decide

/-- an untranslated branch has no meaning either -/
example : (match (envS colS "=" (.str [97])).runBuiltIn (canonEnumWith (.opaque "…")) with | .stuck => true | _ => false) = true := by decide

/-- dropping the error of a failing like kernel (`filterFn(…)` instead of `return filterFn(…)` in scolumn) is noticed:
with an oracle that rejects the pattern the call must fail -/
example : ((today ⟨fun _ _ => false, fun _ _ _ => false⟩ (fun _ => 0) (fun _ => 0) {} { colS with ty := .string } (.str "like") (.str [37])).runBuiltIn
      (dispatchOf .string)).isErr = true ∧
    ((today ⟨fun _ _ => false, fun _ _ _ => false⟩ (fun _ => 0) (fun _ => 0) {} { colS with ty := .string } (.str "like") (.str [37])).runBuiltIn
      (.typeSwitch E0 E0 E0 (look "filterFuncs1" .const false) E0 E0 E0 E0 E0)).isErr = false := by decide

end Witnesses

#print axioms gen_dispatch_no_opaque
#print axioms gen_dispatch_canon
#print axioms gen_equalTypes_sem
#print axioms gen_leaf_semantics_partial
#print axioms float_const_on_int_column_is_truncated
#print axioms gen_enum_undeclared
#print axioms gen_enum_undeclared_spec
#print axioms gen_enum_declared
#print axioms gen_enum_sets_no_error
#print axioms gen_enum_col_needs_equal_types
#print axioms gen_filter_builtin
#print axioms gen_leaf_semantics_filter_partial
#print axioms gen_custom1_semantics
#print axioms gen_custom2_semantics_partial










end QF.Props.C02Dispatch
