import QF.Props.C08Guards
import QF.Gen.Construct
/-!
# C08 / C10 / C17 — `New` of today's source builds exactly the frame `newS` specifies (tie T1, by semantics)

`QF.Gen.createColumnAst` and `QF.Gen.newTailAst` (regenerated on every run by go/cmd/extract/nast.go) hold
`createColumn` of /repo/qframe.go — executed for every kind of data value — and the statements of `New` after its guard
prefix as terms of `QF.CK` / `QF.NS` / `QF.LS` (QF/Core/Construct.lean: their Go meaning, with the per-type column
constructors as parameters `Ctors`). The guard prefix itself is `QF.Gen.guardAst "New"` (QF/Props/C08Guards.lean). This
file proves, for the terms generated TODAY:

* `gen_construct_no_opaque`     — everything was found and translated completely
* `gen_construct_canon`         — the terms are the canonical ones; the default column order is sorted
* `gen_create_semantics`        — `createColumn` on one column against the spec's per-column step: the same rejections
                                  (negative count, unsupported data, enum construction fails), the same column (type, enum or not, value
                                  table, strictness, cells), and the declaration is consumed exactly when an enum was made
* `gen_new_semantics_partial`   — for every list of columns (name, kind of data, length, cells), every explicit or default
                                  order and every enum declaration list: prefix and tail of today's `New` together return
                                  exactly `newS cols order enums` — `Err` iff the spec says `.err` (illegal name, order of
                                  the wrong length, unknown name in the order, unsupported data, an enum that cannot be
                                  built, different lengths — compared with the FIRST column of the order —, a declaration
                                  for a column that is missing or is not a string column), and otherwise the same columns in
                                  the same order with the same types, enum tables, strictness, cells and row count;
                                  a constant with a negative count is rejected on both sides.
                                  Hypotheses: the constructors implement the spec's cell lists (`Ctors.Spec`; for the
                                  enum constructors that is `C17Factory.gen_factory_is_ctor`), the columns are
                                  well-formed Go values (`WF`: any count below 2^32, negative ones included), and the
                                  column order has no duplicates.
* `gen_new_reject_iff`          — … read as "rejects iff"

Hypotheses of `gen_new_semantics_partial`, and why they are there:
1. `(specOrder cols order).Nodup` — OBSERVATION (outside the property's quantifier, which ranges over orders without
   repetition): a column order that names a declared-enum string column TWICE (`New({e, x}, ColumnOrder("e","e"),
   Enums{e: …})`, which the guard prefix accepts: right length, only known names) makes the code consume the declaration at
   the first occurrence and build the second occurrence as a plain string column (types `[enum, string]`), while `newS`
   builds `[enum, enum]` — `dup_order_witness`. For the default order the hypothesis follows from the keys of a Go map
   being distinct (`specOrder_nodup`).
2. `count < 2^32` in `NewCol.WF`: the index is made with `uint32(currentLen)`, which wraps for 2^32 or more rows.
A constant with a NEGATIVE `Count` is covered (no hypothesis): since the repair "New rejects constant columns with a
negative count" `createColumn` tests the count first (`CK.ifCountNeg`, the helper that fetches it executed per kind), and
`newS` answers `.err` as well (`neg_count_witness`).

Method: as in C08Guards / C02Dispatch.
-/
namespace QF.Props.C08Construct
open QF QF.Props.C08Guards

/-! ## Canonical terms -/

/-- a string column: an enum if there is a declaration under its name (then consumed), else a string column -/
def enumOr (e : ECtor) (c : Ctor) : CK := .lookupEnum (.makeEnum e .retErr (.consume .retCol)) (.make c .retCol)

def canonCreate : List (DKind × CK) := [
  (.ints, .make (.cells .int) .retCol),
  (.floats, .make (.cells .float) .retCol),
  (.bools, .make (.cells .bool) .retCol),
  (.strs, .strsToPtrs (enumOr .cells (.cells .string))),
  (.ptrs, enumOr .cells (.cells .string)),
  (.constInt, .ifCountNeg .retErr (.make (.const .int) .retCol)),
  (.constFloat, .ifCountNeg .retErr (.make (.const .float) .retCol)),
  (.constBool, .ifCountNeg .retErr (.make (.const .bool) .retCol)),
  (.constStr, .ifCountNeg .retErr (enumOr .const (.const .string))),
  (.ecol, .make .given .retCol),
  (.blob, .make .blob .retCol),
  (.col, .make .given .retCol),
  (.other, .retErr)]

def canonBody : List LS :=
  [.create, .store, .setCurrent, .ifThen (.eq .i (.lit 0)) .setFirst, .rejectIf (.ne .first .current)]

def canonTail : List NS := [.alloc, .initLens 0 0, .loop canonBody, .rejectIfEnumsLeft, .retFrame (.u32 .current)]

theorem gen_construct_canon :
    Gen.createColumnAst = canonCreate ∧ Gen.newTailAst = canonTail ∧ Gen.newOrderSorted = true := by decide

theorem gen_construct_no_opaque :
    Gen.createColumnAst.map (·.1) = [.ints, .floats, .bools, .strs, .ptrs, .constInt, .constFloat, .constBool, .constStr,
      .ecol, .blob, .col, .other] ∧
    (∀ p ∈ Gen.createColumnAst, p.2.hasOpaque = false) ∧ (∀ s ∈ Gen.newTailAst, s.hasOpaque = false) := by decide

/-! ## Well-formed data -/

def goType (ty : CType) : Prop := ty = .int ∨ ty = .float ∨ ty = .bool ∨ ty = .string

/-- A `NewCol` that stands for a Go value: the cell type is one Go data can have; a slice has as many cells as its
length says; a constant has one value (its count is ANY int, negative ones included); lengths fit the 32-bit index. -/
structure WF (c : NewCol) : Prop where
  small : c.count < 4294967296
  kind : match c.kind with
    | .cells ty => goType ty ∧ c.count = c.cells.length
    | .const ty => goType ty ∧ ∃ v, c.cells = [v]
    | .unsupported => True

/-! ## The spec's per-column step -/

/-- the enum declarations that are left when the columns `used` have consumed theirs -/
def rem (enums : List (Bytes × List Bytes)) (used : List Bytes) : List (Bytes × List Bytes) :=
  enums.filter (fun e => !used.contains e.1)

/-- what `newS.build` makes of one column (the text of its body) -/
def specCol (enums : List (Bytes × List Bytes)) (used : List Bytes) (c : NewCol) : Option (LCol × List Bytes) :=
  let cells : Option (CType × List Cell) := match c.kind with
    | .cells ty => some (ty, c.cells)
    | .const ty => some (ty, List.replicate c.count.toNat (c.cells.head!))
    | .unsupported => none
  match cells with
  | none => none
  | some (ty, cl) =>
    if ty == .string then
      match enums.find? (·.1 == c.name) with
      | some (_, decl) =>
        let src := match c.kind with | .const _ => c.cells ++ cl | _ => cl
        (mkEnum decl src).map (fun (vals, strict) =>
          ({ name := c.name, ty := .enum, vals := vals, strict := strict, cells := cl.toArray }, c.name :: used))
      | none => some ({ name := c.name, ty := .string, cells := cl.toArray }, used)
    else some ({ name := c.name, ty := ty, cells := cl.toArray }, used)

theorem build_nil (enums : List (Bytes × List Bytes)) (len : Int) (used : List Bytes) :
    newS.build enums len used [] = some ([], used) := by
  rw [newS.build]

theorem build_cons (enums : List (Bytes × List Bytes)) (len : Int) (used : List Bytes) (c : NewCol) (cs : List NewCol) :
    newS.build enums len used (c :: cs) =
      if c.count < 0 then none else
      match specCol enums used c with
      | none => none
      | some (col, used') =>
        if c.count != len then none else
        match newS.build enums len used' cs with
        | none => none
        | some (rest, u) => some (col :: rest, u) := by
  rw [newS.build]
  by_cases h : c.count < 0
  · simp only [h, if_true]
  · simp only [h, if_false, specCol]
    cases c.kind <;> rfl

/-! ## The declarations that are left -/

theorem find_rem (enums : List (Bytes × List Bytes)) (used : List Bytes) (n : Bytes) (h : n ∉ used) :
    (rem enums used).find? (·.1 == n) = enums.find? (·.1 == n) := by
  unfold rem
  induction enums with
  | nil => rfl
  | cons e es ih =>
    by_cases he : e.1 = n
    · have hu : e.1 ∉ used := by rw [he]; exact h
      simp [he, h]
    · have hb : (e.1 == n) = false := beq_false_of_ne he
      by_cases hu : e.1 ∈ used
      · simp only [List.filter_cons, List.contains_iff_mem.2 hu, Bool.not_true, Bool.false_eq_true, if_false,
          List.find?_cons, hb]
        exact ih
      · have hc : used.contains e.1 = false := by simpa using hu
        simp only [List.filter_cons, hc, Bool.not_false, if_true, List.find?_cons, hb]
        exact ih

theorem rem_consume (enums : List (Bytes × List Bytes)) (used : List Bytes) (n : Bytes) :
    (rem enums used).filter (fun e => !(e.1 == n)) = rem enums (n :: used) := by
  unfold rem
  rw [List.filter_filter]
  congr 1
  funext e
  simp only [List.contains_cons, Bool.not_or]

theorem rem_nil (enums : List (Bytes × List Bytes)) : rem enums [] = enums := by
  unfold rem
  simp

theorem rem_isEmpty (enums : List (Bytes × List Bytes)) (used : List Bytes) :
    (rem enums used).isEmpty = enums.all (fun e => used.contains e.1) := by
  unfold rem
  induction enums with
  | nil => rfl
  | cons e es ih =>
    cases hu : used.contains e.1
    · simp only [List.filter_cons, hu, Bool.not_false, if_true, List.all_cons, Bool.false_and]
      rfl
    · simp only [List.filter_cons, hu, Bool.not_true, Bool.false_eq_true, if_false, List.all_cons, Bool.true_and]
      exact ih

/-! ## `createColumn` -/

theorem runCreate_eq (K : Ctors) (plain : Bool) (c : NewCol) (E : List (Bytes × List Bytes)) (dk : DKind) (t : CK)
    (h1 : dkindOf plain c.kind = some dk) (h2 : canonCreate.lookup dk = some t) :
    runCreate K canonCreate plain c E = t.run K c { enums := E } := by
  simp only [runCreate, h1, h2]

theorem goType_cases {ty : CType} (h : goType ty) {P : CType → Prop} (hi : P .int) (hf : P .float) (hb : P .bool)
    (hs : P .string) : P ty := by
  rcases h with rfl | rfl | rfl | rfl <;> assumption

theorem toNat_cast (c : Int) (h : 0 ≤ c) : ((c.toNat : Nat) : Int) = c := Int.toNat_of_nonneg h

/-- **`createColumn` of today's source against the spec's per-column step**, for a well-formed column whose name has not
been used yet, starting from the declarations that are left: an error iff the spec has no column (unsupported data; the
enum cannot be built); otherwise the spec's column — type, enum or not, value table, strictness, cells —, as many cells
as the length says, and the declaration of the column is consumed iff the spec records the name as used. -/
theorem create_sim (K : Ctors) (hK : K.Spec) (plain : Bool) (enums : List (Bytes × List Bytes)) (used : List Bytes)
    (c : NewCol) (hwf : WF c) (hn : c.name ∉ used) (h0 : 0 ≤ c.count) :
    (specCol enums used c = none → runCreate K canonCreate plain c (rem enums used) = .err) ∧
    (∀ col used', specCol enums used c = some (col, used') →
      runCreate K canonCreate plain c (rem enums used) = .ok col (rem enums used') ∧
      (col.cells.size : Int) = c.count ∧ (used' = used ∨ used' = c.name :: used)) := by
  obtain ⟨_, hkind⟩ := hwf
  have hnn : ¬ c.count < 0 := by omega
  have hfind := find_rem enums used c.name hn
  cases hk : c.kind with
  | unsupported =>
    refine ⟨fun _ => ?_, fun col used' h => ?_⟩
    · rw [runCreate_eq K plain c _ .other .retErr (by rw [hk]; rfl) (by decide)]
      rfl
    · simp [specCol, hk] at h
  | cells ty =>
    rw [hk] at hkind
    obtain ⟨hty, hcnt⟩ := hkind
    have hsize : ((c.cells.toArray.size : Nat) : Int) = c.count := by simp [hcnt]
    -- the three column types without declarations
    have plainTy : ∀ (ty : CType) (dk : DKind), ty ≠ .string → c.kind = .cells ty →
        canonCreate.lookup dk = some (.make (.cells ty) .retCol) → dkindOf plain (.cells ty) = some dk →
        (specCol enums used c = none → runCreate K canonCreate plain c (rem enums used) = .err) ∧
        (∀ col used', specCol enums used c = some (col, used') →
          runCreate K canonCreate plain c (rem enums used) = .ok col (rem enums used') ∧
          (col.cells.size : Int) = c.count ∧ (used' = used ∨ used' = c.name :: used)) := by
      intro ty dk hne hk hl hd
      have hb : (ty == CType.string) = false := beq_false_of_ne hne
      have hs : specCol enums used c = some ({ name := c.name, ty := ty, cells := c.cells.toArray }, used) := by
        simp [specCol, hk, hb]
      rw [hs]
      refine ⟨(fun h => by cases h), fun col used' h => ?_⟩
      simp only [Option.some.injEq, Prod.mk.injEq] at h
      obtain ⟨rfl, rfl⟩ := h
      refine ⟨?_, hsize, .inl rfl⟩
      rw [runCreate_eq K plain c _ dk _ (by rw [hk]; exact hd) hl]
      simp [CK.run, hk, hK.cells]
    refine goType_cases hty (P := fun ty => c.kind = .cells ty → _) ?_ ?_ ?_ ?_ hk
    · intro hk; exact plainTy .int .ints (by decide) hk (by decide) rfl
    · intro hk; exact plainTy .float .floats (by decide) hk (by decide) rfl
    · intro hk; exact plainTy .bool .bools (by decide) hk (by decide) rfl
    · -- a string column: `[]string` or `[]*string`
      intro hk
      have hrun : runCreate K canonCreate plain c (rem enums used) =
          (enumOr .cells (.cells .string)).run K c { enums := rem enums used } := by
        cases plain
        · exact runCreate_eq K false c _ .ptrs _ (by rw [hk]; rfl) (by decide)
        · rw [runCreate_eq K true c _ .strs (.strsToPtrs (enumOr .cells (.cells .string))) (by rw [hk]; rfl) (by decide)]; rfl
      rw [hrun]
      cases hf : enums.find? (·.1 == c.name) with
      | none =>
        have hs : specCol enums used c = some ({ name := c.name, ty := .string, cells := c.cells.toArray }, used) := by
          simp [specCol, hk, hf]
        rw [hs]
        refine ⟨(fun h => by cases h), fun col used' h => ?_⟩
        simp only [Option.some.injEq, Prod.mk.injEq] at h
        obtain ⟨rfl, rfl⟩ := h
        refine ⟨?_, hsize, .inl rfl⟩
        simp [enumOr, CK.run, hfind, hf, hk, hK.cells]
      | some p =>
        obtain ⟨k, decl⟩ := p
        have hs : specCol enums used c = (mkEnum decl c.cells).map (fun (vals, strict) =>
            ({ name := c.name, ty := .enum, vals := vals, strict := strict, cells := c.cells.toArray }, c.name :: used)) := by
          simp [specCol, hk, hf]
        rw [hs]
        cases hm : mkEnum decl c.cells with
        | none =>
          refine ⟨fun _ => ?_, fun col used' h => by simp at h⟩
          simp [enumOr, CK.run, hfind, hf, hk, hK.enumCells, hm]
        | some q =>
          obtain ⟨vals, strict⟩ := q
          refine ⟨(fun h => by simp at h), fun col used' h => ?_⟩
          simp only [Option.map_some, Option.some.injEq, Prod.mk.injEq] at h
          obtain ⟨rfl, rfl⟩ := h
          refine ⟨?_, hsize, .inr rfl⟩
          simp [enumOr, CK.run, hfind, hf, hk, hK.enumCells, hm, rem_consume]
  | const ty =>
    rw [hk] at hkind
    obtain ⟨hty, v, hv⟩ := hkind
    have hhead : c.cells.head! = v := by rw [hv]; rfl
    have hsize : (((List.replicate c.count.toNat v).toArray.size : Nat) : Int) = c.count := by
      simp [toNat_cast c.count h0]
    have plainTy : ∀ (ty : CType) (dk : DKind), ty ≠ .string → c.kind = .const ty →
        canonCreate.lookup dk = some (.ifCountNeg .retErr (.make (.const ty) .retCol)) → dkindOf plain (.const ty) = some dk →
        (specCol enums used c = none → runCreate K canonCreate plain c (rem enums used) = .err) ∧
        (∀ col used', specCol enums used c = some (col, used') →
          runCreate K canonCreate plain c (rem enums used) = .ok col (rem enums used') ∧
          (col.cells.size : Int) = c.count ∧ (used' = used ∨ used' = c.name :: used)) := by
      intro ty dk hne hk hl hd
      have hb : (ty == CType.string) = false := beq_false_of_ne hne
      have hs : specCol enums used c =
          some ({ name := c.name, ty := ty, cells := (List.replicate c.count.toNat v).toArray }, used) := by
        simp [specCol, hk, hb, hhead]
      rw [hs]
      refine ⟨(fun h => by cases h), fun col used' h => ?_⟩
      simp only [Option.some.injEq, Prod.mk.injEq] at h
      obtain ⟨rfl, rfl⟩ := h
      refine ⟨?_, hsize, .inl rfl⟩
      rw [runCreate_eq K plain c _ dk _ (by rw [hk]; exact hd) hl]
      simp [CK.run, hk, hK.const, hv, hnn]
    refine goType_cases hty (P := fun ty => c.kind = .const ty → _) ?_ ?_ ?_ ?_ hk
    · intro hk; exact plainTy .int .constInt (by decide) hk (by decide) rfl
    · intro hk; exact plainTy .float .constFloat (by decide) hk (by decide) rfl
    · intro hk; exact plainTy .bool .constBool (by decide) hk (by decide) rfl
    · intro hk
      have hrun : runCreate K canonCreate plain c (rem enums used) =
          (enumOr .const (.const .string)).run K c { enums := rem enums used } := by
        rw [runCreate_eq K plain c _ .constStr (.ifCountNeg .retErr (enumOr .const (.const .string))) (by rw [hk]; rfl)
          (by decide)]
        simp only [CK.run, hk, hnn, if_false]
      rw [hrun]
      cases hf : enums.find? (·.1 == c.name) with
      | none =>
        have hs : specCol enums used c =
            some ({ name := c.name, ty := .string, cells := (List.replicate c.count.toNat v).toArray }, used) := by
          simp [specCol, hk, hf, hhead]
        rw [hs]
        refine ⟨(fun h => by cases h), fun col used' h => ?_⟩
        simp only [Option.some.injEq, Prod.mk.injEq] at h
        obtain ⟨rfl, rfl⟩ := h
        refine ⟨?_, hsize, .inl rfl⟩
        simp [enumOr, CK.run, hfind, hf, hk, hK.const, hv]
      | some p =>
        obtain ⟨k, decl⟩ := p
        have hs : specCol enums used c = (mkEnum decl (v :: List.replicate c.count.toNat v)).map (fun (vals, strict) =>
            ({ name := c.name, ty := .enum, vals := vals, strict := strict,
               cells := (List.replicate c.count.toNat v).toArray }, c.name :: used)) := by
          have hh : ([v] : List Cell).head! = v := rfl
          simp [specCol, hk, hf, hv, hh]
        rw [hs]
        cases hm : mkEnum decl (v :: List.replicate c.count.toNat v) with
        | none =>
          refine ⟨fun _ => ?_, fun col used' h => by simp at h⟩
          simp [enumOr, CK.run, hfind, hf, hk, hK.enumConst, hm, hv]
        | some q =>
          obtain ⟨vals, strict⟩ := q
          refine ⟨(fun h => by simp at h), fun col used' h => ?_⟩
          simp only [Option.map_some, Option.some.injEq, Prod.mk.injEq] at h
          obtain ⟨rfl, rfl⟩ := h
          refine ⟨?_, hsize, .inr rfl⟩
          simp [enumOr, CK.run, hfind, hf, hk, hK.enumConst, hm, hv, rem_consume]

/-- a negative length: only a constant can have one, and `createColumn` rejects it before anything else -/
theorem create_neg (K : Ctors) (plain : Bool) (E : List (Bytes × List Bytes)) (c : NewCol) (hwf : WF c)
    (hneg : c.count < 0) : runCreate K canonCreate plain c E = .err := by
  obtain ⟨_, hkind⟩ := hwf
  cases hk : c.kind with
  | unsupported =>
    rw [runCreate_eq K plain c _ .other .retErr (by rw [hk]; rfl) (by decide)]
    rfl
  | cells ty =>
    rw [hk] at hkind
    have := hkind.2
    omega
  | const ty =>
    rw [hk] at hkind
    have neg : ∀ (dk : DKind) (k : CK), dkindOf plain c.kind = some dk →
        canonCreate.lookup dk = some (.ifCountNeg .retErr k) → runCreate K canonCreate plain c E = .err := by
      intro dk k hd hl
      rw [runCreate_eq K plain c _ dk _ hd hl]
      simp only [CK.run, hk, hneg, if_true]
    refine goType_cases hkind.1 (P := fun ty => c.kind = .const ty → _) ?_ ?_ ?_ ?_ hk
    · intro hk; exact neg .constInt (.make (.const .int) .retCol) (by rw [hk]; rfl) (by decide)
    · intro hk; exact neg .constFloat (.make (.const .float) .retCol) (by rw [hk]; rfl) (by decide)
    · intro hk; exact neg .constBool (.make (.const .bool) .retCol) (by rw [hk]; rfl) (by decide)
    · intro hk; exact neg .constStr (enumOr .const (.const .string)) (by rw [hk]; rfl) (by decide)

/-- `createColumn` of today's source -/
def genCreate (K : Ctors) (plain : Bool) (c : NewCol) (enums : List (Bytes × List Bytes)) : COut :=
  runCreate K Gen.createColumnAst plain c enums

/-- **`createColumn` of today's source** (`create_neg`, `create_sim` for the generated terms): a negative count (a constant
with `Count < 0`) is an error, as in `newS.build`; otherwise the column is the one the spec's per-column step makes. -/
theorem gen_create_semantics (K : Ctors) (hK : K.Spec) (plain : Bool) (enums : List (Bytes × List Bytes))
    (used : List Bytes) (c : NewCol) (hwf : WF c) (hn : c.name ∉ used) :
    (c.count < 0 → genCreate K plain c (rem enums used) = .err) ∧
    (0 ≤ c.count →
      (specCol enums used c = none → genCreate K plain c (rem enums used) = .err) ∧
      (∀ col used', specCol enums used c = some (col, used') →
        genCreate K plain c (rem enums used) = .ok col (rem enums used') ∧
        (col.cells.size : Int) = c.count ∧ (used' = used ∨ used' = c.name :: used))) := by
  unfold genCreate
  rw [gen_construct_canon.1]
  exact ⟨create_neg K plain _ c hwf, create_sim K hK plain enums used c hwf hn⟩

/-! ## One round of the loop -/

theorem body_run (create : Bytes → List (Bytes × List Bytes) → COut) (i : Nat) (name : Bytes) (σ : LSt) :
    runBody create i name canonBody { σ with created := none } =
      match create name σ.enums with
      | .err => .err
      | .stuck => .stuck
      | .ok c e =>
        if σ.cols.length = i then
          if (if i = 0 then (c.cells.size : Int) else σ.first) != (c.cells.size : Int) then .err
          else .next { enums := e, first := if i = 0 then (c.cells.size : Int) else σ.first,
                       current := (c.cells.size : Int), cols := σ.cols ++ [c], created := some c }
        else .stuck := by
  simp only [canonBody, runBody, LS.run]
  cases create name σ.enums with
  | err => rfl
  | stuck => rfl
  | ok c e =>
    simp only
    by_cases hl : σ.cols.length = i
    · simp only [hl, if_true, LCond.eval, LInt.eval]
      by_cases hi : i = 0
      · subst hi; simp
      · have : ((i : Int) == 0) = false := by
          apply beq_false_of_ne; omega
        simp only [this, hi, if_false, Bool.false_eq_true]
        by_cases hne : σ.first = (c.cells.size : Int)
        · simp [hne]
        · have hb : (σ.first != (c.cells.size : Int)) = true := by simpa using hne
          simp [hb]
    · simp [hl]

/-! ## The loop against `newS.build` -/

theorem find_name {cols : List NewCol} {n : Bytes} {c : NewCol} (h : cols.find? (·.name == n) = some c) :
    c.name = n ∧ c ∈ cols := by
  have h1 := List.find?_some h
  exact ⟨by simpa using h1, List.mem_of_find?_eq_some h⟩

/-- **The loop of today's `New` is `newS.build`.** From round `i` on, for the names that are left: the loop returns an
error iff `build` has no result; otherwise it appends exactly the columns `build` makes, leaves exactly the declarations
`build` has not recorded as used, and `currentLen` is the common length. -/
theorem loop_sim (K : Ctors) (hK : K.Spec) (plain : Bytes → Bool) (cols : List NewCol) (enums : List (Bytes × List Bytes))
    (len : Int) (hwf : ∀ c ∈ cols, WF c) :
    ∀ (ns : List Bytes) (i : Nat) (σ : LSt) (used : List Bytes),
      (∀ n ∈ ns, ∃ c, cols.find? (·.name == n) = some c) → ns.Nodup → (∀ n ∈ ns, n ∉ used) →
      σ.enums = rem enums used → σ.cols.length = i → (i ≠ 0 → σ.first = len) →
      (i = 0 → ∀ n rest c, ns = n :: rest → cols.find? (·.name == n) = some c → c.count = len) →
      (newS.build enums len used (ns.filterMap (fun n => cols.find? (·.name == n))) = none →
        runLoop (createIn K canonCreate plain cols) canonBody i ns σ = .err) ∧
      (∀ rest u, newS.build enums len used (ns.filterMap (fun n => cols.find? (·.name == n))) = some (rest, u) →
        ∃ σ', runLoop (createIn K canonCreate plain cols) canonBody i ns σ = .next σ' ∧ σ'.cols = σ.cols ++ rest ∧
          σ'.enums = rem enums u ∧ (ns ≠ [] → σ'.current = len) ∧ (ns = [] → σ'.current = σ.current)) := by
  intro ns
  induction ns with
  | nil =>
    intro i σ used _ _ _ he _ _ _
    simp only [List.filterMap_nil, build_nil, runLoop]
    refine ⟨(fun h => by cases h), fun rest u h => ?_⟩
    simp only [Option.some.injEq, Prod.mk.injEq] at h
    obtain ⟨rfl, rfl⟩ := h
    exact ⟨σ, rfl, by simp, he, fun h => absurd rfl h, fun _ => rfl⟩
  | cons n ns ih =>
    intro i σ used hfound hnd hfresh he hlen hfirst hzero
    obtain ⟨c, hc⟩ := hfound n (by simp)
    obtain ⟨hcn, hcm⟩ := find_name hc
    have hw := hwf c hcm
    have hfm : (n :: ns).filterMap (fun n => cols.find? (·.name == n)) =
        c :: ns.filterMap (fun n => cols.find? (·.name == n)) := by
      simp [hc]
    have hcreate : createIn K canonCreate plain cols n σ.enums = runCreate K canonCreate (plain n) c (rem enums used) := by
      simp only [createIn, hc, he]
    have hloop : runLoop (createIn K canonCreate plain cols) canonBody i (n :: ns) σ =
        match runBody (createIn K canonCreate plain cols) i n canonBody { σ with created := none } with
        | .next σ' => runLoop (createIn K canonCreate plain cols) canonBody (i + 1) ns σ'
        | r => r := rfl
    rw [hfm, build_cons, hloop, body_run, hcreate]
    by_cases hneg : c.count < 0
    · -- a constant with a negative count: rejected on both sides
      rw [if_pos hneg, create_neg K (plain n) _ c hw hneg]
      exact ⟨fun _ => rfl, fun rest u h => by cases h⟩
    rw [if_neg hneg]
    have hnu : c.name ∉ used := by rw [hcn]; exact hfresh n (by simp)
    obtain ⟨cs1, cs2⟩ := create_sim K hK (plain n) enums used c hw hnu (by omega)
    cases hsc : specCol enums used c with
    | none =>
      rw [cs1 hsc]
      exact ⟨fun _ => rfl, fun rest u h => by cases h⟩
    | some p =>
      obtain ⟨col, used'⟩ := p
      obtain ⟨hrun, hsize, hused⟩ := cs2 col used' hsc
      rw [hrun]
      simp only [hlen, if_true, hsize]
      -- the length test
      have hfirstval : (if i = 0 then c.count else σ.first) = len := by
        by_cases hi : i = 0
        · simp only [hi, if_true]; exact hzero hi n ns c rfl hc
        · simp only [hi, if_false]; exact hfirst hi
      rw [hfirstval]
      by_cases hcl : c.count = len
      · have hb : (len != c.count) = false := by simp [hcl]
        have hb' : (c.count != len) = false := by simp [hcl]
        simp only [hb, hb', Bool.false_eq_true, if_false]
        -- the rest of the loop
        let σ1 : LSt := { enums := rem enums used', first := len, current := c.count, cols := σ.cols ++ [col], created := some col }
        have hfresh' : ∀ m ∈ ns, m ∉ used' := by
          intro m hm
          have hmu : m ∉ used := hfresh m (List.mem_cons_of_mem _ hm)
          rcases hused with rfl | rfl
          · exact hmu
          · intro h
            rcases List.mem_cons.1 h with h | h
            · rw [hcn] at h; subst h; exact (List.nodup_cons.1 hnd).1 hm
            · exact hmu h
        obtain ⟨i1, i2⟩ := ih (i + 1) σ1 used' (fun m hm => hfound m (List.mem_cons_of_mem _ hm)) (List.nodup_cons.1 hnd).2
          hfresh' rfl (by simp [σ1, hlen]) (fun _ => rfl) (fun h => by omega)
        cases hb2 : newS.build enums len used' (ns.filterMap (fun n => cols.find? (·.name == n))) with
        | none =>
          refine ⟨fun _ => i1 hb2, fun rest u h => by cases h⟩
        | some q =>
          obtain ⟨rest', u'⟩ := q
          refine ⟨(fun h => by cases h), fun rest u h => ?_⟩
          simp only [Option.some.injEq, Prod.mk.injEq] at h
          obtain ⟨rfl, rfl⟩ := h
          obtain ⟨σ', r1, r2, r3, r4, r5⟩ := i2 rest' u' hb2
          refine ⟨σ', r1, ?_, r3, (fun _ => ?_), (fun h => by cases h)⟩
          · rw [r2]; simp [σ1]
          · by_cases hns : ns = []
            · rw [r5 hns]; exact hcl
            · exact r4 hns
      · have hb : (len != c.count) = true := by simpa using fun h => hcl h.symm
        have hb' : (c.count != len) = true := by simpa using hcl
        simp only [hb, hb', if_true]
        simp

/-! ## `New` -/

theorem any_find {cols : List NewCol} {n : Bytes} (h : cols.any (·.name == n) = true) :
    ∃ c, cols.find? (·.name == n) = some c := by
  induction cols with
  | nil => simp at h
  | cons c cs ih =>
    by_cases hc : (c.name == n) = true
    · exact ⟨c, by simp [hc]⟩
    · have hc' : (c.name == n) = false := by simpa using hc
      simp only [List.any_cons, hc', Bool.false_or] at h
      obtain ⟨c', h'⟩ := ih h
      exact ⟨c', by simp [hc', h']⟩

/-- `newS` once its first three checks have passed -/
theorem newS_after_prefix (cols : List NewCol) (order : List Bytes) (enums : List (Bytes × List Bytes))
    (h : ¬ newPrefixRejects cols order) :
    newS cols order enums =
      match newS.build enums
        (match (specOrder cols order).filterMap (fun n => cols.find? (·.name == n)) with | c :: _ => c.count | [] => 0) []
        ((specOrder cols order).filterMap (fun n => cols.find? (·.name == n))) with
      | none => .err
      | some (lcols, used) =>
        if enums.all (fun e => used.contains e.1) then
          .ok { cols := lcols,
                n := (match (specOrder cols order).filterMap (fun n => cols.find? (·.name == n)) with
                  | c :: _ => c.count | [] => 0 : Int).toNat }
        else .err := by
  unfold newPrefixRejects at h
  have h1 : cols.all (fun c => legalName c.name) = true := by
    cases hh : cols.all (fun c => legalName c.name)
    · exact absurd (.inl hh) h
    · rfl
  have h2 : (specOrder cols order).length = cols.length := by
    apply Classical.byContradiction; intro hh; exact h (.inr (.inl hh))
  have h3 : (specOrder cols order).all (fun n => cols.any (·.name == n)) = true := by
    cases hh : (specOrder cols order).all (fun n => cols.any (·.name == n))
    · exact absurd (.inr (.inr hh)) h
    · rfl
  unfold specOrder at h2 h3 ⊢
  unfold newS
  simp only [h1, Bool.not_true, Bool.false_eq_true, if_false, h2, bne_self_eq_false, h3]
  rfl

/-- `New` of today's source: the guard prefix, then — for the column order the prefix leaves: the requested one, or the
sorted names (`Gen.newOrderSorted`) — the construction. `none`: no meaning. -/
def genNew (K : Ctors) (plain : Bytes → Bool) (cols : List NewCol) (order : List Bytes)
    (enums : List (Bytes × List Bytes)) : Option Res :=
  match genGuards "New" (newReq cols order) with
  | some .err => some .err
  | some .ok => constructIn K Gen.createColumnAst Gen.newTailAst plain cols (specOrder cols order) enums
  | _ => none

theorem newOutcome_cases (q : GReq) : newOutcome q = .err ∨ newOutcome q = .ok := by
  unfold newOutcome
  split
  · exact .inl rfl
  · split
    · exact .inl rfl
    · split
      · exact .inl rfl
      · exact .inr rfl

theorem u32_id (c : Int) (h0 : 0 ≤ c) (h1 : c < 4294967296) : c % 4294967296 = c := Int.emod_eq_of_lt h0 h1

/-- the canonical tail against `newS` once the prefix has passed -/
theorem canon_tail_sem (K : Ctors) (hK : K.Spec) (plain : Bytes → Bool) (cols : List NewCol) (order : List Bytes)
    (enums : List (Bytes × List Bytes)) (hwf : ∀ c ∈ cols, WF c) (hnd : (specOrder cols order).Nodup)
    (hp : ¬ newPrefixRejects cols order) :
    constructIn K canonCreate canonTail plain cols (specOrder cols order) enums = some (newS cols order enums) := by
  rw [newS_after_prefix cols order enums hp]
  have h3 : (specOrder cols order).all (fun n => cols.any (·.name == n)) = true := by
    unfold newPrefixRejects at hp
    cases hh : (specOrder cols order).all (fun n => cols.any (·.name == n))
    · exact absurd (.inr (.inr hh)) hp
    · rfl
  have hfound : ∀ n ∈ specOrder cols order, ∃ c, cols.find? (·.name == n) = some c := by
    intro n hn
    exact any_find (List.all_eq_true.1 h3 n hn)
  generalize hord : specOrder cols order = ord at hnd hfound ⊢
  generalize hlen : (match ord.filterMap (fun n => cols.find? (·.name == n)) with | c :: _ => c.count | [] => 0 : Int) = len
  have hzero : ∀ n rest c, ord = n :: rest → cols.find? (·.name == n) = some c → c.count = len := by
    intro n rest c ho hc
    rw [← hlen, ho]
    simp [hc]
  let σ0 : LSt := { enums := enums, first := 0, current := 0 }
  obtain ⟨l1, l2⟩ := loop_sim K hK plain cols enums len hwf ord 0 σ0 [] hfound hnd (fun _ _ h => by simp at h)
    (rem_nil enums).symm rfl (fun h => absurd rfl h) (fun _ => hzero)
  have hrun : constructIn K canonCreate canonTail plain cols ord enums =
      match runLoop (createIn K canonCreate plain cols) canonBody 0 ord σ0 with
      | .err => some .err
      | .stuck => none
      | .next σ' =>
        if σ'.enums.isEmpty then some (.ok { cols := σ'.cols, n := (σ'.current % 4294967296).toNat }) else some .err := by
    simp only [constructIn, canonTail, runTail, σ0]
    rfl
  rw [hrun]
  cases hb : newS.build enums len [] (ord.filterMap (fun n => cols.find? (·.name == n))) with
  | none => rw [l1 hb]
  | some q =>
    obtain ⟨rest, u⟩ := q
    obtain ⟨σ', r1, r2, r3, r4, r5⟩ := l2 rest u hb
    rw [r1]
    simp only [r3, rem_isEmpty, r2, σ0, List.nil_append]
    cases hall : enums.all (fun e => u.contains e.1)
    · rfl
    · simp only [if_true]
      -- the number of rows
      have hn : (σ'.current % 4294967296).toNat = len.toNat := by
        cases hord' : ord with
        | nil =>
          have : σ'.current = 0 := by rw [r5 hord']
          have hl0 : len = 0 := by rw [← hlen, hord']; rfl
          rw [this, hl0]; rfl
        | cons n ns =>
          have hcur : σ'.current = len := r4 (by rw [hord']; simp)
          obtain ⟨c, hc⟩ := hfound n (by rw [hord']; simp)
          have hcl := hzero n ns c hord' hc
          have hw := hwf c (find_name hc).2
          have h0 : 0 ≤ c.count := by
            have hfm : ord.filterMap (fun n => cols.find? (·.name == n)) =
                c :: ns.filterMap (fun n => cols.find? (·.name == n)) := by rw [hord']; simp [hc]
            rw [hfm, build_cons] at hb
            by_cases hneg : c.count < 0
            · rw [if_pos hneg] at hb; cases hb
            · omega
          rw [hcur, ← hcl, u32_id c.count h0 hw.small]
      rw [hn]

/-- **`New` of today's source returns exactly what `newS` specifies** (PARTIAL only in the sense of the head of the file:
orders with repetitions and columns of 2^32 or more rows are outside the statement). For every list of columns `cols` (name,
kind of data, length, cells — each a well-formed Go value), every requested order (empty: the default) without duplicates
and every list of enum declarations, with column constructors that implement the spec's cell lists: the guard prefix
extracted from `New` followed by the construction logic extracted from `New` and `createColumn` has an outcome, and it is
`newS cols order enums` — `Err` exactly when the spec rejects, else the same frame: the columns in the requested order
(default: sorted by name), each with the spec's type (`enum` iff it is a string column with a declaration under its name),
value table, strictness (`mkEnum`) and cells, and the common number of rows (0 without columns). `plain` says which
string columns are passed as `[]string` instead of `[]*string`; it makes no difference. -/
theorem gen_new_semantics_partial (K : Ctors) (hK : K.Spec) (plain : Bytes → Bool) (cols : List NewCol)
    (order : List Bytes) (enums : List (Bytes × List Bytes))
    (hwf : ∀ c ∈ cols, WF c) (hnd : (specOrder cols order).Nodup) :
    genNew K plain cols order enums = some (newS cols order enums) := by
  unfold genNew
  rw [gen_new_outcome, gen_construct_canon.1, gen_construct_canon.2.1]
  by_cases hp : newPrefixRejects cols order
  · rw [(newOutcome_err_iff cols order).2 hp, newS_prefix cols order enums hp]
  · have hne : newOutcome (newReq cols order) ≠ .err := fun h => hp ((newOutcome_err_iff cols order).1 h)
    rcases newOutcome_cases (newReq cols order) with h | h
    · exact absurd h hne
    · rw [h]
      exact canon_tail_sem K hK plain cols order enums hwf hnd hp

/-- … as "rejects iff": today's `New` returns `Err` iff `newS` returns `.err`, and a frame `f` iff `newS` returns `.ok f`. -/
theorem gen_new_reject_iff (K : Ctors) (hK : K.Spec) (plain : Bytes → Bool) (cols : List NewCol)
    (order : List Bytes) (enums : List (Bytes × List Bytes))
    (hwf : ∀ c ∈ cols, WF c) (hnd : (specOrder cols order).Nodup) :
    (genNew K plain cols order enums = some .err ↔ newS cols order enums = .err) ∧
    (∀ f, genNew K plain cols order enums = some (.ok f) ↔ newS cols order enums = .ok f) := by
  rw [gen_new_semantics_partial K hK plain cols order enums hwf hnd]
  constructor
  · constructor
    · intro h; exact Option.some.inj h
    · intro h; rw [h]
  · intro f
    constructor
    · intro h; exact Option.some.inj h
    · intro h; rw [h]

/-! ## The default order has no duplicates -/

theorem insertSorted_nodup (x : Bytes) (l : List Bytes) (hx : x ∉ l) (h : l.Nodup) : (insertSorted x l).Nodup := by
  induction l with
  | nil => simp [insertSorted]
  | cons y ys ih =>
    unfold insertSorted
    split
    · exact List.nodup_cons.2 ⟨hx, h⟩
    · have hy := List.nodup_cons.1 h
      refine List.nodup_cons.2 ⟨?_, ih (fun hm => hx (List.mem_cons_of_mem _ hm)) hy.2⟩
      intro hm
      rcases (insertSorted_mem x y ys).1 hm with e | e
      · exact hx (by rw [e]; simp)
      · exact hy.1 e

theorem sortNames_nodup (l : List Bytes) (h : l.Nodup) : (sortNames l).Nodup := by
  induction l with
  | nil => simp [sortNames]
  | cons x xs ih =>
    have hx := List.nodup_cons.1 h
    have : sortNames (x :: xs) = insertSorted x (sortNames xs) := rfl
    rw [this]
    exact insertSorted_nodup x _ (fun hm => hx.1 ((sortNames_mem x xs).1 hm)) (ih hx.2)

/-- The hypothesis on the order holds for the default order (the keys of a Go map are distinct) and for every requested
order without duplicates. -/
theorem specOrder_nodup (cols : List NewCol) (order : List Bytes) (hnames : (cols.map (·.name)).Nodup)
    (horder : order.Nodup) : (specOrder cols order).Nodup := by
  unfold specOrder
  split
  · exact sortNames_nodup _ hnames
  · exact horder

/-! ## Witnesses: the statement tells wrong constructions apart -/

section Witnesses

/-- constructors that are the spec's -/
def specCtors : Ctors where
  cells := fun _ l => l.toArray
  const := fun _ v n => (List.replicate n v).toArray
  enumCells := fun d l => (mkEnum d l).map (fun p => (p.1, p.2, l.toArray))
  enumConst := fun d v n => (mkEnum d (v :: List.replicate n v)).map (fun p => (p.1, p.2, (List.replicate n v).toArray))

theorem specCtors_spec : specCtors.Spec := ⟨fun _ _ => rfl, fun _ _ _ => rfl, fun _ _ => rfl, fun _ _ _ => rfl⟩

private def a : Bytes := [97]
private def b : Bytes := [98]
private def e : Bytes := [101]
private def colA (n : Nat) : NewCol := { name := a, kind := .cells .int, count := n, cells := List.replicate n (.int 1) }
private def colB (n : Nat) : NewCol := { name := b, kind := .cells .int, count := n, cells := List.replicate n (.int 2) }
private def colE : NewCol := { name := e, kind := .cells .string, count := 1, cells := [.str (some a)] }

private def isErr : Option Res → Bool
  | some .err => true
  | _ => false
private def types : Option Res → List CType
  | some (.ok f) => f.cols.map (·.ty)
  | _ => []

/-- the length check comparing with `firstLen == 0` instead of `i == 0` (the defect that was repaired) -/
def bodyFirstLen : List LS :=
  [.create, .store, .setCurrent, .ifThen (.eq .first (.lit 0)) .setFirst, .rejectIf (.ne .first .current)]

def tailWith (body : List LS) : List NS := [.alloc, .initLens 0 0, .loop body, .rejectIfEnumsLeft, .retFrame (.u32 .current)]

/-- … accepts `{a: [], b: [2, 2, 2]}`, which the spec rejects: -/
example : isErr (constructIn specCtors canonCreate (tailWith bodyFirstLen) (fun _ => false) [colA 0, colB 3] [a, b] []) = false ∧
    isErr (some (newS [colA 0, colB 3] [] [])) = true ∧
    isErr (constructIn specCtors canonCreate canonTail (fun _ => false) [colA 0, colB 3] [a, b] []) = true := by decide

/-- the enum bookkeeping in front of the type switch: the declaration is consumed for every kind of data -/
def createConsumeFirst : List (DKind × CK) :=
  canonCreate.map (fun p => (p.1, match p.1 with
    | .ints | .floats | .bools | .constInt | .constFloat | .constBool => CK.lookupEnum (.consume p.2) (.consume p.2)
    | _ => p.2))

/-- … accepts a declaration for the int column `a`, which the spec rejects ("unknown enum columns"): -/
example : isErr (constructIn specCtors createConsumeFirst canonTail (fun _ => false) [colA 2] [a] [(a, [])]) = false ∧
    isErr (some (newS [colA 2] [] [(a, [])])) = true ∧
    isErr (constructIn specCtors canonCreate canonTail (fun _ => false) [colA 2] [a] [(a, [])]) = true := by decide

/-- OBSERVATION (outside the property's quantifier): the order `[e, e]` over the data `{e, a}` with a declaration for `e` passes the prefix; today's construction
makes the second `e` a plain string column, `newS` an enum again. -/
theorem dup_order_witness :
    newPrefixRejects [colE, colA 1] [e, e] = False ∧
    types (constructIn specCtors canonCreate canonTail (fun _ => false) [colE, colA 1] [e, e] [(e, [])]) = [.enum, .string] ∧
    types (some (newS [colE, colA 1] [e, e] [(e, [])])) = [.enum, .enum] := by
  refine ⟨?_, by decide, by decide⟩
  simp only [eq_iff_iff, iff_false]
  unfold newPrefixRejects
  decide

private def colNeg : NewCol := { name := a, kind := .const .int, count := -1, cells := [.int 7] }

/-- `ConstInt{Val: 7, Count: -1}`: rejected by the spec and by today's construction (before the repair the constructor's
`make([]int, -1)` panicked). The term without the sign test has no error return on this path. -/
theorem neg_count_witness :
    isErr (some (newS [colNeg] [] [])) = true ∧
    isErr (constructIn specCtors canonCreate canonTail (fun _ => false) [colNeg] [a] []) = true ∧
    isErr (constructIn specCtors [(.constInt, .make (.const .int) .retCol)] canonTail (fun _ => false) [colNeg] [a] []) = false := by
  decide

end Witnesses

#print axioms gen_construct_canon
#print axioms gen_construct_no_opaque
#print axioms gen_create_semantics
#print axioms gen_new_semantics_partial
#print axioms gen_new_reject_iff
#print axioms specOrder_nodup
#print axioms dup_order_witness
#print axioms neg_count_witness

end QF.Props.C08Construct
