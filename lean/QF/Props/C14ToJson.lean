import QF.Spec.Json
import QF.Spec.Num
import QF.Props.C14Quote
/-!
# C14: `QFrame.ToJSON` writes a JSON text that denotes the frame

`toJSON` is a byte-level mirror of `QFrame.ToJSON` (/repo/qframe.go) with the per-column
`AppendByteStringAt` writers (icolumn: `strconv.AppendInt`, bcolumn: `strconv.AppendBool`, fcolumn: `null` for NaN
else the float formatter, scolumn/ecolumn: `null` or `AppendQuotedString`).  The float formatter is the parameter
`fmt`.  `tojson_parses` shows that the RFC 8259 parser `Json.parse` accepts the whole output and returns the
array of records one expects; `tojson_denotes` adds that every value denotes (`Json.denotes`) its cell.

The only assumption on `fmt` is `NumTok (fmt b)`: the text is a JSON number token (`parseNum` consumes exactly
it when the next byte cannot continue a number).  `numTok_positional` proves this for every text of the shape
`[-]d+[.d+]` without superfluous leading zeros, `intText_numTok` for the decimal text of any `Int`.
The hypothesis is needed for the floats that actually occur in the frame only (`tojson_parses_local`); this
matters because Go's formatter writes `+Inf`/`-Inf` for the infinities, which is not a JSON number:
`inf_not_json` is the witness that such a frame is written as an invalid JSON text.

No well-formedness hypothesis on the frame is needed: both sides read cells with `cells[r]!`, and a frame with
rows but no columns is written as `[{},{},…]`, which parses to empty records.
-/
namespace QF.Props.C14ToJson
open QF QF.Json QF.Props.C14

/-! ## 1. The mirror -/

/-- `strconv.AppendInt(buf, x, 10)`: the decimal text of an integer (the text `Json.denotes` compares with). -/
def intText (x : Int) : List UInt8 := (toString x).toUTF8.toList

/-- `col.AppendByteStringAt(buf, ix)` for the cell as the user sees it. -/
def cellBytes (fmt : UInt64 → List UInt8) : Cell → List UInt8
  | .int x => intText x
  | .float b => if F64.isNaN b then [110, 117, 108, 108] else fmt b
  | .bool true => [116, 114, 117, 101]
  | .bool false => [102, 97, 108, 115, 101]
  | .str none => [110, 117, 108, 108]
  | .str (some s) => appendQuoted s

/-- One iteration of the inner loop: `name`, `:`, cell, `,`. -/
def memberBytes (fmt : UInt64 → List UInt8) (r : Nat) (c : LCol) : List UInt8 :=
  appendQuoted c.name ++ [58] ++ cellBytes fmt c.cells[r]! ++ [44]

/-- `if jsonBuf[len(jsonBuf)-1] == ',' { jsonBuf = jsonBuf[:len(jsonBuf)-1] }` -/
def dropTrailingComma (buf : List UInt8) : List UInt8 :=
  if buf.getLast? = some 44 then buf.dropLast else buf

/-- The buffer written for row number `i` (logical row `i`; the index indirection is not observable). -/
def rowBytes (fmt : UInt64 → List UInt8) (f : LFrame) (i : Nat) : List UInt8 :=
  let buf : List UInt8 := if i > 0 then [44] else []
  let buf := buf ++ [123]
  let buf := f.cols.foldl (fun buf c => buf ++ memberBytes fmt i c) buf
  let buf := dropTrailingComma buf
  buf ++ [125]

/-- Everything `ToJSON` writes to the writer. -/
def toJSON (fmt : UInt64 → List UInt8) (f : LFrame) : List UInt8 :=
  [91] ++ (List.range f.n).flatMap (rowBytes fmt f) ++ [93]

/-! ## 2. What the text should denote -/

def cellVal (fmt : UInt64 → List UInt8) : Cell → JVal
  | .int x => .num (intText x)
  | .float b => if F64.isNaN b then .null else .num (fmt b)
  | .bool b => .bool b
  | .str none => .null
  | .str (some s) => .str (sanitize s)

def kv (fmt : UInt64 → List UInt8) (r : Nat) (c : LCol) : List UInt8 × JVal :=
  (sanitize c.name, cellVal fmt c.cells[r]!)

def rowVal (fmt : UInt64 → List UInt8) (f : LFrame) (r : Nat) : JVal := .obj (f.cols.map (kv fmt r))

def expected (fmt : UInt64 → List UInt8) (f : LFrame) : JVal := .arr ((List.range f.n).map (rowVal fmt f))

/-- The byte after a number token: anything that cannot continue the number. -/
def numEnd (tl : List UInt8) : Bool :=
  match tl with
  | [] => true
  | c :: _ => !(isDigit c || c == 46 || c == 101 || c == 69 || c == 43 || c == 45)

/-- `t` is a JSON number token: followed by a byte that cannot continue a number, `parseNum` consumes exactly `t`. -/
def NumTok (t : List UInt8) : Prop :=
  ∀ tl, numEnd tl = true → parseNum (t ++ tl) = some (t, tl)

/-- The float in this cell (if it is a non-NaN float) is written as a number token. -/
def CellOK (fmt : UInt64 → List UInt8) (c : Cell) : Prop :=
  ∀ b, c = .float b → F64.isNaN b = false → NumTok (fmt b)

def FrameOK (fmt : UInt64 → List UInt8) (f : LFrame) : Prop :=
  ∀ c ∈ f.cols, ∀ r, r < f.n → CellOK fmt c.cells[r]!

/-- The float in this cell (if it is a non-NaN float) is written as a decimal that rounds back to the same bits. -/
def CellRound (fmt : UInt64 → List UInt8) (c : Cell) : Prop :=
  ∀ b, c = .float b → F64.isNaN b = false →
    ∃ neg m d, Num.parseNumber (fmt b) = some (neg, m, d) ∧ Num.ofDecimal neg m d = b

/-! ## 3. `ByteArray.toList` and the decimal text of an integer -/

theorem ba_len (bs : ByteArray) : bs.data.toList.length = bs.size := by
  rw [Array.length_toList]; rfl

theorem ba_loop (bs : ByteArray) : ∀ (k i : Nat) (r : List UInt8), bs.size - i = k →
    ByteArray.toList.loop bs i r = r.reverse ++ bs.data.toList.drop i := by
  intro k
  induction k with
  | zero =>
    intro i r h
    rw [ByteArray.toList.loop]
    have : ¬ i < bs.size := by omega
    rw [if_neg this]
    have : bs.data.toList.drop i = [] := by
      apply List.drop_eq_nil_of_le; rw [ba_len]; omega
    simp [this]
  | succ k ih =>
    intro i r h
    rw [ByteArray.toList.loop]
    have hi : i < bs.size := by omega
    rw [if_pos hi, ih (i+1) _ (by omega)]
    have hi' : i < bs.data.toList.length := by rw [ba_len]; exact hi
    rw [List.drop_eq_getElem_cons hi']
    simp [ByteArray.get!, getElem!_pos, hi]

theorem ba_toList (bs : ByteArray) : bs.toList = bs.data.toList := by
  simp [ByteArray.toList, ba_loop bs _ 0 [] rfl]

theorem str_bytes (cs : List Char) :
    (String.ofList cs).toUTF8.toList = cs.flatMap String.utf8EncodeChar := by
  rw [ba_toList]
  simp [String.toUTF8, String.toByteArray_ofList, List.utf8Encode]

def digitByte (d : Nat) : UInt8 := UInt8.ofNat (48 + d)

/-- Decimal digits of a natural number as bytes, most significant first. -/
def natDigits (n : Nat) : List UInt8 := (Nat.toDigits 10 n).flatMap String.utf8EncodeChar

theorem enc_digit : ∀ d, d < 10 → String.utf8EncodeChar (Nat.digitChar d) = [digitByte d] := by decide

theorem natDigits_lt (n : Nat) (h : n < 10) : natDigits n = [digitByte n] := by
  simp [natDigits, Nat.toDigits_of_lt_base h, enc_digit n h]

theorem natDigits_ge (n : Nat) (h : 10 ≤ n) :
    natDigits n = natDigits (n / 10) ++ [digitByte (n % 10)] := by
  simp [natDigits, Nat.toDigits_of_base_le (by omega : 1 < 10) h, enc_digit (n % 10) (by omega)]

theorem intText_eq (x : Int) :
    intText x = if 0 ≤ x then natDigits x.toNat else 45 :: natDigits (-x).toNat := by
  unfold intText
  rw [Int.toString_eq_repr, Int.repr_eq_if]
  split
  · rw [Nat.repr_eq_ofList_toDigits, str_bytes]; rfl
  · rw [Nat.repr_eq_ofList_toDigits]
    have e : "-" = String.ofList ['-'] := rfl
    have e2 : String.utf8EncodeChar '-' = [45] := by decide
    rw [e, ← String.ofList_append, str_bytes]
    simp [natDigits, e2]

theorem digitByte_isDigit : ∀ d, d < 10 → isDigit (digitByte d) = true := by decide
theorem digitByte_ne48 : ∀ d, d < 10 → d ≠ 0 → digitByte d ≠ 48 := by decide

theorem natDigits_spec (n : Nat) : natDigits n ≠ [] ∧ (natDigits n).all isDigit = true ∧
    (0 < n → (natDigits n).head? ≠ some 48) := by
  induction n using Nat.strongRecOn with
  | _ n ih =>
    by_cases h : n < 10
    · rw [natDigits_lt n h]
      refine ⟨by simp, by simp [digitByte_isDigit n h], ?_⟩
      intro hn; simp; exact digitByte_ne48 n h (by omega)
    · have h10 : 10 ≤ n := by omega
      obtain ⟨a, b, c⟩ := ih (n / 10) (by omega)
      rw [natDigits_ge n h10]
      refine ⟨by simp, ?_, ?_⟩
      · simp [List.all_append, b, digitByte_isDigit (n % 10) (by omega)]
      · intro _
        have c' := c (by omega)
        obtain ⟨d, ds, e⟩ := List.exists_cons_of_ne_nil a
        rw [e] at c' ⊢
        simpa using c'

theorem natDigits_no_leading_zero (n : Nat) :
    (natDigits n).length > 1 → (natDigits n).head? ≠ some 48 := by
  intro h
  by_cases hn : n = 0
  · subst hn; rw [natDigits_lt 0 (by omega)] at h; simp at h
  · exact (natDigits_spec n).2.2 (by omega)

/-! ## 4. `parseNum` on positional decimal texts -/

theorem numEnd_false_digit (c : UInt8) (t : List UInt8) (h : numEnd (c :: t) = true) :
    isDigit c = false ∧ c ≠ 46 ∧ (c == 101) = false ∧ (c == 69) = false := by
  simp only [numEnd, Bool.not_eq_true', Bool.or_eq_false_iff] at h
  obtain ⟨⟨⟨⟨⟨h1, h46⟩, h101⟩, h69⟩, _⟩, _⟩ := h
  exact ⟨h1, by simpa using h46, h101, h69⟩

theorem takeWhile_digits (ds tl : List UInt8) (hd : ds.all isDigit = true)
    (hend : tl = [] ∨ ∃ c t, tl = c :: t ∧ isDigit c = false) :
    (ds ++ tl).takeWhile isDigit = ds ∧ (ds ++ tl).dropWhile isDigit = tl := by
  induction ds with
  | nil =>
    rcases hend with rfl | ⟨c, t, rfl, h⟩
    · simp
    · simp [h]
  | cons d ds ih =>
    simp only [List.all_cons, Bool.and_eq_true] at hd
    obtain ⟨a, b⟩ := ih hd.2
    simp [hd.1, a, b]

theorem numEnd_nondigit (tl : List UInt8) (h : numEnd tl = true) :
    tl = [] ∨ ∃ c t, tl = c :: t ∧ isDigit c = false := by
  cases tl with
  | nil => exact Or.inl rfl
  | cons c t => exact Or.inr ⟨c, t, rfl, (numEnd_false_digit c t h).1⟩

/-- `parseNum` after the sign and the integer part have been split off (same text as in `Json.parseNum`). -/
def numTail (sign ip r1 : List UInt8) : Option (List UInt8 × List UInt8) :=
  if ip.isEmpty || (ip.length > 1 && ip.head? == some 48) then none else
  let (fp, r2) : List UInt8 × List UInt8 := match r1 with
    | 46 :: t => let d := t.takeWhile isDigit; (46 :: d, t.dropWhile isDigit)
    | _ => ([], r1)
  if fp == [46] then none else
  let (ep, r3) : List UInt8 × List UInt8 := match r2 with
    | e :: t =>
      if e == 101 || e == 69 then
        let (sg, t2) : List UInt8 × List UInt8 := match t with | 43 :: u => ([43], u) | 45 :: u => ([45], u) | u => ([], u)
        let d := t2.takeWhile isDigit
        (e :: sg ++ d, t2.dropWhile isDigit)
      else ([], r2)
    | _ => ([], r2)
  if !ep.isEmpty && !(ep.getLast?.map isDigit).getD false then none else
  some (sign ++ ip ++ fp ++ ep, r3)

theorem parseNum_neg (r : List UInt8) :
    parseNum (45 :: r) = numTail [45] (r.takeWhile isDigit) (r.dropWhile isDigit) := rfl

theorem parseNum_pos (c : UInt8) (r : List UInt8) (h : c ≠ 45) :
    parseNum (c :: r) = numTail [] ((c :: r).takeWhile isDigit) ((c :: r).dropWhile isDigit) := by
  unfold parseNum
  split
  rename_i heq
  split at heq
  · rename_i h2; simp at h2; exact absurd h2.1 h
  · cases heq; rfl

theorem parseNum_nil : parseNum [] = none := by decide

theorem numTail_ip_ok (ip : List UInt8) (hne : ip ≠ [])
    (hz : ip.length > 1 → ip.head? ≠ some 48) :
    (ip.isEmpty || (decide (ip.length > 1) && ip.head? == some 48)) = false := by
  cases ip with
  | nil => exact absurd rfl hne
  | cons a l =>
    simp
    intro hl h48
    apply hz
    · simp; omega
    · simp [h48]

/-- Integer part only. -/
theorem numTail_int (sign ip tl : List UInt8) (hne : ip ≠ [])
    (hz : ip.length > 1 → ip.head? ≠ some 48) (hend : numEnd tl = true) :
    numTail sign ip tl = some (sign ++ ip, tl) := by
  unfold numTail
  rw [numTail_ip_ok ip hne hz]
  cases tl with
  | nil => simp
  | cons c t =>
    obtain ⟨_, h46, h101, h69⟩ := numEnd_false_digit c t hend
    simp [h101, h69, h46]

/-- Integer part and fraction. -/
theorem numTail_frac (sign ip fp tl : List UInt8) (hne : ip ≠ [])
    (hz : ip.length > 1 → ip.head? ≠ some 48) (hfp : fp ≠ []) (hfd : fp.all isDigit = true)
    (hend : numEnd tl = true) :
    numTail sign ip (46 :: (fp ++ tl)) = some (sign ++ ip ++ 46 :: fp, tl) := by
  unfold numTail
  rw [numTail_ip_ok ip hne hz]
  obtain ⟨a, b⟩ := takeWhile_digits fp tl hfd (numEnd_nondigit tl hend)
  simp only [a, b]
  cases tl with
  | nil => simp [hfp]
  | cons c t =>
    obtain ⟨_, h46, h101, h69⟩ := numEnd_false_digit c t hend
    simp [h101, h69, hfp]

theorem isDigit_ne45 (c : UInt8) (h : isDigit c = true) : c ≠ 45 := by
  intro e; subst e; revert h; decide

theorem isDigit_ne46 (c : UInt8) (h : isDigit c = true) : c ≠ 46 := by
  intro e; subst e; revert h; decide

/-- `[-]d+` without superfluous leading zeros is a number token. -/
theorem numTok_digits (ds : List UInt8) (hne : ds ≠ []) (hd : ds.all isDigit = true)
    (hz : ds.length > 1 → ds.head? ≠ some 48) : NumTok ds ∧ NumTok (45 :: ds) := by
  constructor
  · intro tl hend
    obtain ⟨a, b⟩ := takeWhile_digits ds tl hd (numEnd_nondigit tl hend)
    obtain ⟨d, ds', rfl⟩ := List.exists_cons_of_ne_nil hne
    have hd45 : d ≠ 45 := isDigit_ne45 d (by simp at hd; exact hd.1)
    rw [List.cons_append, parseNum_pos d _ hd45, ← List.cons_append, a, b]
    simpa using numTail_int [] (d :: ds') tl hne hz hend
  · intro tl hend
    obtain ⟨a, b⟩ := takeWhile_digits ds tl hd (numEnd_nondigit tl hend)
    rw [List.cons_append, parseNum_neg, a, b]
    simpa using numTail_int [45] ds tl hne hz hend

/-- `[-]d+.d+` without superfluous leading zeros is a number token (the shape of Go's `'f'` format). -/
theorem numTok_frac (ip fp : List UInt8) (hne : ip ≠ []) (hd : ip.all isDigit = true)
    (hz : ip.length > 1 → ip.head? ≠ some 48) (hfp : fp ≠ []) (hfd : fp.all isDigit = true) :
    NumTok (ip ++ 46 :: fp) ∧ NumTok (45 :: (ip ++ 46 :: fp)) := by
  have hdot : ∀ tl : List UInt8, (46 :: (fp ++ tl) = [] ∨ ∃ c t, 46 :: (fp ++ tl) = c :: t ∧ isDigit c = false) :=
    fun tl => Or.inr ⟨46, fp ++ tl, rfl, by decide⟩
  constructor
  · intro tl hend
    obtain ⟨a, b⟩ := takeWhile_digits ip (46 :: (fp ++ tl)) hd (hdot tl)
    obtain ⟨d, ds', rfl⟩ := List.exists_cons_of_ne_nil hne
    have hd45 : d ≠ 45 := isDigit_ne45 d (by simp at hd; exact hd.1)
    have e : (d :: ds' ++ 46 :: fp) ++ tl = d :: (ds' ++ 46 :: (fp ++ tl)) := by simp
    rw [e, parseNum_pos d _ hd45, ← List.cons_append, a, b]
    simpa using numTail_frac [] (d :: ds') fp tl hne hz hfp hfd hend
  · intro tl hend
    obtain ⟨a, b⟩ := takeWhile_digits ip (46 :: (fp ++ tl)) hd (hdot tl)
    have e : (45 :: (ip ++ 46 :: fp)) ++ tl = 45 :: (ip ++ 46 :: (fp ++ tl)) := by simp
    rw [e, parseNum_neg, a, b]
    simpa using numTail_frac [45] ip fp tl hne hz hfp hfd hend

/-- The decimal text of any integer is a number token. -/
theorem intText_numTok (x : Int) : NumTok (intText x) := by
  rw [intText_eq]
  split
  · obtain ⟨a, b, _⟩ := natDigits_spec x.toNat
    exact (numTok_digits _ a b (natDigits_no_leading_zero _)).1
  · obtain ⟨a, b, _⟩ := natDigits_spec (-x).toNat
    exact (numTok_digits _ a b (natDigits_no_leading_zero _)).2

theorem parseNum_head (s t r : List UInt8) (h : parseNum s = some (t, r)) :
    ∃ c rest, s = c :: rest ∧ (c = 45 ∨ isDigit c = true) := by
  cases s with
  | nil => rw [parseNum_nil] at h; cases h
  | cons c rest =>
    refine ⟨c, rest, rfl, ?_⟩
    by_cases h45 : c = 45
    · exact Or.inl h45
    · right
      rw [parseNum_pos c rest h45] at h
      cases hd : isDigit c with
      | true => rfl
      | false => simp [numTail, hd] at h

/-! ## 5. One step of each parser loop -/

theorem val_null (fuel : Nat) (r : List UInt8) :
    parseVal (fuel + 1) (110 :: 117 :: 108 :: 108 :: r) = some (.null, r) := by
  simp [parseVal, skipWs, isWs]
theorem val_true (fuel : Nat) (r : List UInt8) :
    parseVal (fuel + 1) (116 :: 114 :: 117 :: 101 :: r) = some (.bool true, r) := by
  simp [parseVal, skipWs, isWs]
theorem val_false (fuel : Nat) (r : List UInt8) :
    parseVal (fuel + 1) (102 :: 97 :: 108 :: 115 :: 101 :: r) = some (.bool false, r) := by
  simp [parseVal, skipWs, isWs]
theorem val_str (fuel : Nat) (r : List UInt8) :
    parseVal (fuel + 1) (34 :: r)
      = (parseStr (r.length + 1) r []).map (fun (b, rest) => (.str b, rest)) := by
  simp [parseVal, skipWs, isWs]
theorem val_obj_empty (fuel : Nat) (r : List UInt8) :
    parseVal (fuel + 1) (123 :: 125 :: r) = some (.obj [], r) := by
  simp [parseVal, skipWs, isWs]
theorem val_obj (fuel : Nat) (r : List UInt8) :
    parseVal (fuel + 1) (123 :: 34 :: r) = parseMembers fuel (34 :: r) [] := by
  simp [parseVal, skipWs, isWs]
theorem val_arr_empty (fuel : Nat) (r : List UInt8) :
    parseVal (fuel + 1) (91 :: 93 :: r) = some (.arr [], r) := by
  simp [parseVal, skipWs, isWs]
theorem val_arr (fuel : Nat) (r : List UInt8) :
    parseVal (fuel + 1) (91 :: 123 :: r) = parseElems fuel (123 :: r) [] := by
  simp [parseVal, skipWs, isWs]

theorem digit_not_ws (c : UInt8) (h : isDigit c = true) : isWs c = false := by
  have n1 : c ≠ 32 := by rintro rfl; revert h; decide
  have n2 : c ≠ 9 := by rintro rfl; revert h; decide
  have n3 : c ≠ 10 := by rintro rfl; revert h; decide
  have n4 : c ≠ 13 := by rintro rfl; revert h; decide
  simp [isWs, n1, n2, n3, n4]

theorem skipWs_num (c : UInt8) (r : List UInt8) (h : c = 45 ∨ isDigit c = true) :
    skipWs (c :: r) = c :: r := by
  have : isWs c = false := by
    rcases h with h | h
    · subst h; decide
    · exact digit_not_ws c h
  simp [skipWs, this]

theorem val_num (fuel : Nat) (c : UInt8) (r : List UInt8) (h : c = 45 ∨ isDigit c = true) :
    parseVal (fuel + 1) (c :: r) = (parseNum (c :: r)).map (fun (t, rest) => (.num t, rest)) := by
  have n1 : c ≠ 110 := by rintro rfl; revert h; decide
  have n2 : c ≠ 116 := by rintro rfl; revert h; decide
  have n3 : c ≠ 102 := by rintro rfl; revert h; decide
  have n4 : c ≠ 34 := by rintro rfl; revert h; decide
  have n5 : c ≠ 91 := by rintro rfl; revert h; decide
  have n6 : c ≠ 123 := by rintro rfl; revert h; decide
  rw [parseVal, skipWs_num c r h]
  split <;> simp_all
  intro a b
  rcases h with h | h
  · exact absurd h a
  · rw [h] at b; cases b

theorem elems_comma (fuel : Nat) (s r2 : List UInt8) (v : JVal) (acc : List JVal)
    (h : parseVal fuel s = some (v, 44 :: r2)) :
    parseElems (fuel + 1) s acc = parseElems fuel r2 (v :: acc) := by
  simp [parseElems, h, skipWs, isWs]
theorem elems_close (fuel : Nat) (s r2 : List UInt8) (v : JVal) (acc : List JVal)
    (h : parseVal fuel s = some (v, 93 :: r2)) :
    parseElems (fuel + 1) s acc = some (.arr (v :: acc).reverse, r2) := by
  simp [parseElems, h, skipWs, isWs]

theorem members_comma (fuel : Nat) (r k r2 r4 : List UInt8) (v : JVal)
    (acc : List (List UInt8 × JVal))
    (h1 : parseStr (r.length + 1) r [] = some (k, 58 :: r2))
    (h2 : parseVal fuel r2 = some (v, 44 :: r4)) :
    parseMembers (fuel + 1) (34 :: r) acc = parseMembers fuel r4 ((k, v) :: acc) := by
  simp [parseMembers, h1, h2, skipWs, isWs]
theorem members_close (fuel : Nat) (r k r2 r4 : List UInt8) (v : JVal)
    (acc : List (List UInt8 × JVal))
    (h1 : parseStr (r.length + 1) r [] = some (k, 58 :: r2))
    (h2 : parseVal fuel r2 = some (v, 125 :: r4)) :
    parseMembers (fuel + 1) (34 :: r) acc = some (.obj ((k, v) :: acc).reverse, r4) := by
  simp [parseMembers, h1, h2, skipWs, isWs]

/-! ## 6. Cells -/

theorem parseVal_numtok (fuel : Nat) (t tl : List UInt8) (ht : NumTok t) (hend : numEnd tl = true) :
    parseVal (fuel + 1) (t ++ tl) = some (.num t, tl) := by
  have h := ht tl hend
  obtain ⟨c, rest, e, hc⟩ := parseNum_head _ _ _ h
  rw [e] at h ⊢
  rw [val_num fuel c rest hc, h]; rfl

theorem appendQuoted_cons (s : List UInt8) : appendQuoted s = 34 :: (appendQuoted s).drop 1 := rfl

/-- Per-cell theorem: the text written for a cell, followed by anything that cannot continue a number, is parsed
as one JSON value, namely `cellVal`. One unit of fuel suffices (cells are not nested). -/
theorem parseVal_cell (fmt : UInt64 → List UInt8) (fuel : Nat) (c : Cell) (tl : List UInt8)
    (hok : CellOK fmt c) (hend : numEnd tl = true) :
    parseVal (fuel + 1) (cellBytes fmt c ++ tl) = some (cellVal fmt c, tl) := by
  match c with
  | .int x => exact parseVal_numtok fuel _ tl (intText_numTok x) hend
  | .float b =>
    cases hn : F64.isNaN b with
    | true => simp only [cellBytes, cellVal, hn, if_true]; exact val_null fuel tl
    | false =>
      simp only [cellBytes, cellVal, hn, Bool.false_eq_true, if_false]
      exact parseVal_numtok fuel _ tl (hok b rfl hn) hend
  | .bool true => exact val_true fuel tl
  | .bool false => exact val_false fuel tl
  | .str none => exact val_null fuel tl
  | .str (some s) =>
    simp only [cellBytes, cellVal]
    rw [appendQuoted_cons, List.cons_append, val_str, quoted_parses_tail]
    rfl

/-! ## 7. Records -/

def memberBody (fmt : UInt64 → List UInt8) (r : Nat) (c : LCol) : List UInt8 :=
  appendQuoted c.name ++ 58 :: cellBytes fmt c.cells[r]!

/-- The members of a record separated by commas, then `}`. -/
def membersText (fmt : UInt64 → List UInt8) (r : Nat) : List LCol → List UInt8
  | [] => [125]
  | [c] => memberBody fmt r c ++ [125]
  | c :: c' :: cs => memberBody fmt r c ++ 44 :: membersText fmt r (c' :: cs)

def rowObj (fmt : UInt64 → List UInt8) (f : LFrame) (r : Nat) : List UInt8 :=
  123 :: membersText fmt r f.cols

theorem foldl_append_eq {α : Type} (g : α → List UInt8) :
    ∀ (cs : List α) (buf : List UInt8), cs.foldl (fun buf c => buf ++ g c) buf = buf ++ cs.flatMap g := by
  intro cs
  induction cs with
  | nil => intro buf; simp
  | cons c cs ih => intro buf; simp [ih]

theorem members_shape (fmt : UInt64 → List UInt8) (r : Nat) : ∀ (cs : List LCol) (c : LCol),
    ∃ X, (c :: cs).flatMap (memberBytes fmt r) = X ++ [44] ∧ membersText fmt r (c :: cs) = X ++ [125] := by
  intro cs
  induction cs with
  | nil => intro c; exact ⟨memberBody fmt r c, by simp [memberBytes, memberBody], by simp [membersText]⟩
  | cons c' cs ih =>
    intro c
    obtain ⟨X, h1, h2⟩ := ih c'
    refine ⟨memberBody fmt r c ++ 44 :: X, ?_, ?_⟩
    · rw [List.flatMap_cons, h1]; simp [memberBytes, memberBody]
    · rw [membersText, h2]; simp

/-- The buffer of row `i` in normal form. -/
theorem rowBytes_eq (fmt : UInt64 → List UInt8) (f : LFrame) (i : Nat) :
    rowBytes fmt f i = (if i > 0 then [44] else []) ++ rowObj fmt f i := by
  unfold rowBytes rowObj
  simp only [foldl_append_eq]
  cases hc : f.cols with
  | nil =>
    have : dropTrailingComma ((if i > 0 then [44] else []) ++ [123]) = (if i > 0 then [44] else []) ++ [123] := by
      unfold dropTrailingComma
      rw [if_neg]; simp
    simp [this, membersText]
  | cons c cs =>
    obtain ⟨X, h1, h2⟩ := members_shape fmt i cs c
    rw [h1, h2]
    have : dropTrailingComma ((if i > 0 then [44] else []) ++ [123] ++ (X ++ [44]))
        = (if i > 0 then [44] else []) ++ [123] ++ X := by
      unfold dropTrailingComma
      rw [← List.append_assoc, if_pos List.getLast?_concat, List.dropLast_concat]
    rw [this]; simp

theorem memberBody_append (fmt : UInt64 → List UInt8) (r : Nat) (c : LCol) (X : List UInt8) :
    memberBody fmt r c ++ X
      = 34 :: ((appendQuoted c.name).drop 1 ++ 58 :: (cellBytes fmt c.cells[r]! ++ X)) := by
  simp [memberBody, appendQuoted]

theorem numEnd_comma (t : List UInt8) : numEnd (44 :: t) = true := by simp [numEnd]; decide
theorem numEnd_brace (t : List UInt8) : numEnd (125 :: t) = true := by simp [numEnd]; decide

theorem parseMembers_text (fmt : UInt64 → List UInt8) (r : Nat) :
    ∀ (cs : List LCol) (c : LCol) (fuel : Nat) (acc : List (List UInt8 × JVal)) (tl : List UInt8),
      (∀ c' ∈ c :: cs, CellOK fmt c'.cells[r]!) → cs.length + 2 ≤ fuel →
      parseMembers fuel (membersText fmt r (c :: cs) ++ tl) acc
        = some (.obj (acc.reverse ++ (c :: cs).map (kv fmt r)), tl) := by
  intro cs
  induction cs with
  | nil =>
    intro c fuel acc tl hok hf
    obtain ⟨f', rfl⟩ : ∃ k, fuel = k + 1 + 1 := ⟨fuel - 2, by simp at hf; omega⟩
    rw [membersText, List.append_assoc, memberBody_append]
    simp only [List.cons_append, List.nil_append]
    rw [members_close (f' + 1) _ (sanitize c.name) _ tl (cellVal fmt c.cells[r]!) acc
      (quoted_parses_tail c.name _)
      (parseVal_cell fmt f' _ _ (hok c (by simp)) (numEnd_brace tl))]
    simp [kv]
  | cons c' cs ih =>
    intro c fuel acc tl hok hf
    obtain ⟨f', rfl⟩ : ∃ k, fuel = k + 1 + 1 := ⟨fuel - 2, by simp at hf; omega⟩
    rw [membersText, List.append_assoc, memberBody_append]
    rw [List.cons_append]
    rw [members_comma (f' + 1) _ (sanitize c.name) _ (membersText fmt r (c' :: cs) ++ tl)
      (cellVal fmt c.cells[r]!) acc
      (quoted_parses_tail c.name _)
      (parseVal_cell fmt f' _ _ (hok c (by simp)) (numEnd_comma _))]
    rw [ih c' (f' + 1) _ tl (fun x hx => hok x (List.mem_cons_of_mem _ hx)) (by simp at hf ⊢; omega)]
    simp [kv]

theorem membersText_head (fmt : UInt64 → List UInt8) (r : Nat) (c : LCol) (cs : List LCol) (tl : List UInt8) :
    ∃ Y, membersText fmt r (c :: cs) ++ tl = 34 :: Y := by
  cases cs with
  | nil => exact ⟨_, by rw [membersText, List.append_assoc, memberBody_append]⟩
  | cons c' cs => exact ⟨_, by rw [membersText, List.append_assoc, memberBody_append]⟩

/-- Per-record theorem: the text of one row is parsed as the object of (sanitized name, cell value) pairs. -/
theorem parseVal_row (fmt : UInt64 → List UInt8) (f : LFrame) (r : Nat) (fuel : Nat) (tl : List UInt8)
    (hok : ∀ c ∈ f.cols, CellOK fmt c.cells[r]!) (hf : f.cols.length + 2 ≤ fuel) :
    parseVal fuel (rowObj fmt f r ++ tl) = some (rowVal fmt f r, tl) := by
  obtain ⟨f', rfl⟩ : ∃ k, fuel = k + 1 := ⟨fuel - 1, by omega⟩
  unfold rowObj rowVal
  cases hc : f.cols with
  | nil => simp only [membersText, List.cons_append, List.nil_append, List.map_nil]; exact val_obj_empty f' tl
  | cons c cs =>
    rw [hc] at hok hf
    obtain ⟨Y, e⟩ := membersText_head fmt r c cs tl
    rw [List.cons_append, e, val_obj, ← e,
      parseMembers_text fmt r cs c f' [] tl hok (by simp at hf ⊢; omega)]
    simp

/-! ## 8. The array of records -/

def rowsRest (fmt : UInt64 → List UInt8) (f : LFrame) (rs : List Nat) : List UInt8 :=
  rs.flatMap (fun i => 44 :: rowObj fmt f i)

theorem parseElems_rows (fmt : UInt64 → List UInt8) (f : LFrame) :
    ∀ (rs : List Nat) (r0 : Nat) (fuel : Nat) (acc : List JVal) (tl : List UInt8),
      (∀ i ∈ r0 :: rs, ∀ c ∈ f.cols, CellOK fmt c.cells[i]!) →
      rs.length + f.cols.length + 3 ≤ fuel →
      parseElems fuel (rowObj fmt f r0 ++ (rowsRest fmt f rs ++ 93 :: tl)) acc
        = some (.arr (acc.reverse ++ (r0 :: rs).map (rowVal fmt f)), tl) := by
  intro rs
  induction rs with
  | nil =>
    intro r0 fuel acc tl hok hf
    obtain ⟨f', rfl⟩ : ∃ k, fuel = k + 1 := ⟨fuel - 1, by omega⟩
    simp only [rowsRest, List.flatMap_nil, List.nil_append]
    rw [elems_close f' _ tl (rowVal fmt f r0) acc
      (parseVal_row fmt f r0 f' _ (hok r0 (by simp)) (by simp at hf; omega))]
    simp
  | cons r1 rs ih =>
    intro r0 fuel acc tl hok hf
    obtain ⟨f', rfl⟩ : ∃ k, fuel = k + 1 := ⟨fuel - 1, by omega⟩
    have e : rowsRest fmt f (r1 :: rs) ++ 93 :: tl
        = 44 :: (rowObj fmt f r1 ++ (rowsRest fmt f rs ++ 93 :: tl)) := by
      simp [rowsRest]
    rw [e, elems_comma f' _ _ (rowVal fmt f r0) acc
      (parseVal_row fmt f r0 f' _ (hok r0 (by simp)) (by simp at hf; omega))]
    rw [ih r1 f' _ tl (fun i hi => hok i (List.mem_cons_of_mem _ hi)) (by simp at hf ⊢; omega)]
    simp

theorem rows_flatMap (fmt : UInt64 → List UInt8) (f : LFrame) :
    ∀ rs : List Nat, (∀ i ∈ rs, 0 < i) → rs.flatMap (rowBytes fmt f) = rowsRest fmt f rs := by
  intro rs
  induction rs with
  | nil => intro _; rfl
  | cons i rs ih =>
    intro h
    have hi : i > 0 := h i (by simp)
    rw [List.flatMap_cons, ih (fun j hj => h j (List.mem_cons_of_mem _ hj)), rowBytes_eq, if_pos hi]
    simp [rowsRest]

/-- The whole text for a frame with at least one row. -/
theorem toJSON_succ (fmt : UInt64 → List UInt8) (f : LFrame) (m : Nat) (h : f.n = m + 1) :
    toJSON fmt f
      = 91 :: (rowObj fmt f 0 ++ (rowsRest fmt f ((List.range m).map (· + 1)) ++ 93 :: [])) := by
  unfold toJSON
  rw [h, List.range_succ_eq_map, List.flatMap_cons, rowBytes_eq,
    rows_flatMap fmt f _ (by intro i hi; simp at hi; obtain ⟨a, _, rfl⟩ := hi; omega)]
  simp

theorem membersText_length (fmt : UInt64 → List UInt8) (r : Nat) :
    ∀ cs : List LCol, cs.length + 1 ≤ (membersText fmt r cs).length := by
  intro cs
  induction cs with
  | nil => simp [membersText]
  | cons c cs ih =>
    cases cs with
    | nil => simp [membersText, memberBody]; omega
    | cons c' cs =>
      rw [membersText]
      simp only [List.length_append, List.length_cons] at ih ⊢
      omega

theorem rowsRest_length (fmt : UInt64 → List UInt8) (f : LFrame) :
    ∀ rs : List Nat, rs.length ≤ (rowsRest fmt f rs).length := by
  intro rs
  induction rs with
  | nil => simp
  | cons i rs ih =>
    simp only [rowsRest, List.flatMap_cons, List.length_append, List.length_cons] at ih ⊢
    omega

theorem parse_of_parseVal (s : List UInt8) (v : JVal)
    (h : parseVal (s.length + 2) s = some (v, [])) : parse s = some v := by
  simp [parse, h, skipWs]

/-! ## 9. Main theorems -/

/-- **Whole document, hypotheses local to the frame.**  If every non-NaN float that occurs in the frame is
written as a JSON number token, the text written by `ToJSON` is a valid JSON text and denotes the array of the
frame's records. -/
theorem tojson_parses_local (fmt : UInt64 → List UInt8) (f : LFrame) (hok : FrameOK fmt f) :
    Json.parse (toJSON fmt f) = some (expected fmt f) := by
  cases hn : f.n with
  | zero =>
    have e : toJSON fmt f = [91, 93] := by simp [toJSON, hn]
    have e2 : expected fmt f = .arr [] := by simp [expected, hn]
    rw [e, e2]
    exact parse_of_parseVal _ _ (val_arr_empty 3 [])
  | succ m =>
    apply parse_of_parseVal
    have hlen : m + f.cols.length + 3 ≤ (toJSON fmt f).length + 1 := by
      rw [toJSON_succ fmt f m hn]
      have h1 := membersText_length fmt 0 f.cols
      have h2 := rowsRest_length fmt f ((List.range m).map (· + 1))
      simp only [rowObj, List.length_cons, List.length_append, List.length_map, List.length_range,
        List.length_nil] at h2 ⊢
      omega
    rw [toJSON_succ fmt f m hn] at hlen ⊢
    have e : rowObj fmt f 0 = 123 :: membersText fmt 0 f.cols := rfl
    rw [e, List.cons_append, val_arr, ← List.cons_append, ← e]
    rw [parseElems_rows fmt f _ 0 _ [] [] ?_ (by simpa using hlen)]
    · simp [expected, hn, List.range_succ_eq_map]
    · intro i hi c hc
      apply hok c hc i
      rw [hn]
      simp at hi
      rcases hi with rfl | ⟨a, ha, rfl⟩ <;> omega

/-- **Whole document**, as specified: the formatter writes a number token for every non-NaN float. -/
theorem tojson_parses (fmt : UInt64 → List UInt8)
    (hfmt : ∀ b, F64.isNaN b = false → ∀ tl, numEnd tl = true → Json.parseNum (fmt b ++ tl) = some (fmt b, tl))
    (f : LFrame) :
    Json.parse (toJSON fmt f)
      = some (.arr ((List.range f.n).map (fun r =>
          .obj (f.cols.map (fun c => (sanitize c.name, cellVal fmt c.cells[r]!)))))) :=
  tojson_parses_local fmt f (fun _ _ _ _ b _ hb => hfmt b hb)

/-- The same value, in terms of `LFrame.rows`. -/
theorem expected_eq_rows (fmt : UInt64 → List UInt8) (f : LFrame) :
    expected fmt f = .arr (f.rows.map (fun row =>
      .obj (List.zipWith (fun c cell => (sanitize c.name, cellVal fmt cell)) f.cols row))) := by
  simp only [expected, LFrame.rows, List.map_map]
  congr 1
  apply List.map_congr_left
  intro r _
  simp only [Function.comp, rowVal, LFrame.row]
  congr 1
  generalize f.cols = cs
  induction cs with
  | nil => rfl
  | cons c cs ih => simp [kv, ih]

/-- Per-cell denotation. -/
theorem cellVal_denotes (fmt : UInt64 → List UInt8) (c : Cell) (h : CellRound fmt c) :
    Json.denotes (cellVal fmt c) c = true := by
  match c with
  | .int x => simp [cellVal, denotes, intText]
  | .float b =>
    cases hn : F64.isNaN b with
    | true => simp [cellVal, denotes, hn]
    | false =>
      obtain ⟨neg, m, d, h1, h2⟩ := h b rfl hn
      simp [cellVal, denotes, hn, h1, h2]
  | .bool b => simp [cellVal, denotes]
  | .str none => simp [cellVal, denotes]
  | .str (some s) => simp [cellVal, denotes]

/-- **Corollary (local form)**: the document parses to the records, and every value denotes its cell. -/
theorem tojson_denotes_local (fmt : UInt64 → List UInt8) (f : LFrame) (hok : FrameOK fmt f)
    (hround : ∀ c ∈ f.cols, ∀ r, r < f.n → CellRound fmt c.cells[r]!) :
    Json.parse (toJSON fmt f)
      = some (.arr ((List.range f.n).map (fun r =>
          .obj (f.cols.map (fun c => (sanitize c.name, cellVal fmt c.cells[r]!)))))) ∧
    ∀ c ∈ f.cols, ∀ r, r < f.n → Json.denotes (cellVal fmt c.cells[r]!) c.cells[r]! = true :=
  ⟨tojson_parses_local fmt f hok, fun c hc r hr => cellVal_denotes fmt _ (hround c hc r hr)⟩

/-- **Corollary**, as specified: with a formatter that writes number tokens which round back to the float. -/
theorem tojson_denotes (fmt : UInt64 → List UInt8)
    (hfmt : ∀ b, F64.isNaN b = false → ∀ tl, numEnd tl = true → Json.parseNum (fmt b ++ tl) = some (fmt b, tl))
    (hround : ∀ b, F64.isNaN b = false →
      ∃ neg m d, Num.parseNumber (fmt b) = some (neg, m, d) ∧ Num.ofDecimal neg m d = b)
    (f : LFrame) :
    Json.parse (toJSON fmt f)
      = some (.arr ((List.range f.n).map (fun r =>
          .obj (f.cols.map (fun c => (sanitize c.name, cellVal fmt c.cells[r]!)))))) ∧
    ∀ c ∈ f.cols, ∀ r, r < f.n → Json.denotes (cellVal fmt c.cells[r]!) c.cells[r]! = true :=
  tojson_denotes_local fmt f (fun _ _ _ _ b _ hb => hfmt b hb) (fun _ _ _ _ b _ hb => hround b hb)

/-! ## 10. Examples, and the infinities -/

example : intText (-12) = [45, 49, 50] := by rw [intText_eq]; decide
example : intText 0 = [48] := by rw [intText_eq]; decide
example : intText 9223372036854775807 = "9223372036854775807".toUTF8.toList := rfl

/-- A toy formatter: `1.5` for the float 1.5, `0` otherwise.  It writes a number token for every float. -/
def exFmt (b : UInt64) : List UInt8 := if b == 0x3FF8000000000000 then [49, 46, 53] else [48]

theorem exFmt_numTok (b : UInt64) : NumTok (exFmt b) := by
  unfold exFmt
  split
  · exact (numTok_frac [49] [53] (by simp) (by decide) (by simp) (by simp) (by decide)).1
  · exact (numTok_digits [48] (by simp) (by decide) (by simp)).1

/-- Four columns of all kinds, two rows; a column name with a quote, one that is invalid UTF-8. -/
def exFrame : LFrame :=
  { cols := [
      { name := [105], ty := .int, cells := #[.int (-12), .int 0] },
      { name := [120, 34], ty := .float, cells := #[.float 0x3FF8000000000000, .float F64.canonNaN] },
      { name := [98], ty := .bool, cells := #[.bool true, .bool false] },
      { name := [0xFF], ty := .string, cells := #[.str (some [97, 10]), .str none] }],
    n := 2 }

/-- The hypotheses of `tojson_parses` are satisfiable (non-trivial frame, all cell kinds). -/
example : Json.parse (toJSON exFmt exFrame)
    = some (.arr ((List.range exFrame.n).map (fun r =>
        .obj (exFrame.cols.map (fun c => (sanitize c.name, cellVal exFmt c.cells[r]!)))))) :=
  tojson_parses exFmt (fun b _ => exFmt_numTok b) exFrame

/-- The text written for `exFrame`:
`[{"i":-12,"x\"":1.5,"b":true,"�":"a\n"},{"i":0,"x\"":null,"b":false,"�":null}]`. -/
example : toJSON exFmt exFrame =
    [91, 123, 34, 105, 34, 58, 45, 49, 50, 44, 34, 120, 92, 34, 34, 58, 49, 46, 53, 44, 34, 98, 34, 58, 116, 114,
     117, 101, 44, 34, 92, 117, 102, 102, 102, 100, 34, 58, 34, 97, 92, 110, 34, 125, 44, 123, 34, 105, 34, 58, 48, 44,
     34, 120, 92, 34, 34, 58, 110, 117, 108, 108, 44, 34, 98, 34, 58, 102, 97, 108, 115, 101, 44, 34, 92, 117, 102, 102,
     102, 100, 34, 58, 110, 117, 108, 108, 125, 93] := by
  have a : intText (-12) = [45, 49, 50] := by rw [intText_eq]; decide
  have b : intText 0 = [48] := by rw [intText_eq]; decide
  have r : List.range 2 = [0, 1] := rfl
  simp only [toJSON, exFrame, r, List.flatMap_cons, List.flatMap_nil, rowBytes, List.foldl, memberBytes]
  simp [cellBytes, a, b]
  decide

/-- Rows but no columns: `[{},{}]` (covered by the theorems, no hypothesis needed). -/
example : toJSON exFmt { cols := [], n := 2 } = [91, 123, 125, 44, 123, 125, 93] := by decide

theorem exFrame_round : ∀ c ∈ exFrame.cols, ∀ r, r < exFrame.n → CellRound exFmt c.cells[r]! := by
  intro c hc r hr b hb hn
  have hr' : r = 0 ∨ r = 1 := by simp [exFrame] at hr; omega
  simp [exFrame] at hc
  rcases hc with rfl | rfl | rfl | rfl <;> rcases hr' with rfl | rfl <;> simp at hb
  · subst hb
    exact ⟨false, 15, -1, by decide, by decide⟩
  · subst hb
    exact absurd hn (by decide)

/-- The hypotheses of `tojson_denotes_local` are satisfiable on the same frame. -/
example : ∀ c ∈ exFrame.cols, ∀ r, r < exFrame.n →
    Json.denotes (cellVal exFmt c.cells[r]!) c.cells[r]! = true :=
  (tojson_denotes_local exFmt exFrame (fun _ _ _ _ b _ _ => exFmt_numTok b) exFrame_round).2

/-- Go's formatter on the infinities: `+Inf` / `-Inf` (internal/ryu/ryu.go). -/
def infFmt (b : UInt64) : List UInt8 :=
  if b == 0x7FF0000000000000 then [43, 73, 110, 102]
  else if b == 0xFFF0000000000000 then [45, 73, 110, 102] else [48]

def infFrame : LFrame :=
  { cols := [{ name := [120], ty := .float, cells := #[.float 0x7FF0000000000000] }], n := 1 }

/-- **Finding.** `+Inf` is not NaN, so `ToJSON` writes the formatter's text; the result `[{"x":+Inf}]` is not a
JSON text.  This is why `tojson_parses_local` asks for `NumTok` on the floats of the frame only. -/
theorem inf_not_json :
    F64.isNaN 0x7FF0000000000000 = false ∧
    toJSON infFmt infFrame = [91, 123, 34, 120, 34, 58, 43, 73, 110, 102, 125, 93] ∧
    (Json.parse (toJSON infFmt infFrame)).isNone = true := by
  refine ⟨by decide, by decide, by decide⟩

end QF.Props.C14ToJson

#print axioms QF.Props.C14ToJson.intText_numTok
#print axioms QF.Props.C14ToJson.numTok_frac
#print axioms QF.Props.C14ToJson.parseVal_cell
#print axioms QF.Props.C14ToJson.parseVal_row
#print axioms QF.Props.C14ToJson.tojson_parses_local
#print axioms QF.Props.C14ToJson.tojson_parses
#print axioms QF.Props.C14ToJson.expected_eq_rows
#print axioms QF.Props.C14ToJson.cellVal_denotes
#print axioms QF.Props.C14ToJson.tojson_denotes_local
#print axioms QF.Props.C14ToJson.tojson_denotes
#print axioms QF.Props.C14ToJson.inf_not_json
