import QF.Props.C06FApplyGen
import QF.Props.C03SortGlueGen
import QF.Props.C06GlueLink
import QF.Props.C10Sticky
/-!
# C06 end to end — `Apply`, `FilteredApply`, `WithRowNums` as regenerated = the spec on the logical frame

Composition of the T1 pieces of C06 into one statement per public operation, on PHYSICAL frames (`C06FApplyGen.PFr`: the
stored columns — every column with the cells of ALL physical rows —, the index, the error flag). The logical frame of the
spec is the stored columns read through the index (`viewFr X.index X.cols`).

* `gen_apply_end_to_end`  — for every well-formed physical frame (`PhysOK`) and every list of instructions in scope,
    `Apply` as regenerated (`applyX`: the loop and dispatch of `Gen.applyAst`, C10Guards.gen_apply_dispatch /
    gen_apply_loop; the helper loops `Gen.apply0Ast` / `apply1Ast` / `apply2Ast`, C06LoopsGen.gen_apply_loops_physical; `Copy`
    and `setColumn` at list level, C06FApplyGen.gen_copy_shares_column / C08ProjectGen; the built-in `ToUpper` tables) returns
    a frame that, read through the receiver's index, IS `applyS` of the logical frame (mask = all rows, `fillAll` plays no
    role: `applyS_all_fillAll`); the index is untouched; a result without error is again well-formed; a receiver with an
    error comes back as it is.
* what `applyS` says, as the property's text has it (spec-level lemmas, so that the statement can be read without the
  definition): `applyInstr_shape` + `setCol_*` — an instruction that succeeds leaves the frame as it is (a copy onto
  itself) or sets ONE column named `dst`: replaced IN ITS POSITION if the name exists, APPENDED LAST otherwise, every other
  column (and the number of rows) untouched; `applyInstr_f1_rowwise` / `_f2_rowwise` / `_const_rowwise` — the new cells are
  the function of the cells OF THE SAME ROW; `gen_apply_stops_at_first_failing` — the first failing instruction ends the call:
  the instructions before it are applied (regenerated `Apply` on that prefix succeeds), the failing one fails on the frame
  they built, and the whole call returns a frame with an error.
* `gen_fapply_end_to_end`, `gen_rownums_end_to_end` — the same packaging of C06FApplyGen.gen_fapply_semantics /
    gen_rownums_semantics with `PhysOK`.
* `gen_apply_glue` — `apply1` / `apply2` regenerated statement by statement (C03SortGlueGen.gen_apply12_semantics) for every
    meaning of the callees: which column receives `Apply1` / `Apply2`, the index argument, the destination of `setColumn`.
* `gen_apply_step_glue` (C06GlueLink.helperX_eq_genApply12) — COMPOSED: the helper calls `apply1` / `apply2` inside `applyX`
    (`helperFr` → `helperX`, which reads `findX cols src` … `placeX cols dst` by hand) ARE the regenerated glue: on a frame
    without error, whenever the helper call has a meaning, `genApply1` / `genApply2` of today's qframe.go — run with the
    callees `C06GlueLink.prims` (today's `Column.Apply1` / `Apply2` loop terms, the built-in table, `setX`) — return the very
    frame `helperFr` returns (columns, receiver's index, error flag). So `gen_apply_end_to_end` rests on regenerated terms
    at every level: loop + dispatch (`Gen.applyAst`), the frame methods (`Gen.sortGlue…`), the column loops (`Gen.apply?Ast`).

Scope (as in C06FApplyGen): instructions of the catalogue `GoInstr`, minus a Go `string` function value WITHOUT a source
column (`InScope`); `fillAll := true` in `gen_fapply_end_to_end` is the recorded open finding KF-C06-fapply-fill.
-/
set_option linter.unusedVariables false
set_option linter.unusedSimpArgs false
namespace QF.Props.C06EndToEnd
open QF QF.Props.C06FApplyGen QF.Props.C10Guards QF.Props.C06LoopsGen

/-! ## Well-formed physical frames -/

/-- a well-formed physical frame: all columns of one physical length, cells of the column's type, enum tables of at most
255 values (`ColsOK`), a duplicate-free index inside the columns — what `New` and every operation produce -/
structure PhysOK (X : PFr) : Prop where
  cols : ColsOK X.cols
  inRange : ∀ p ∈ X.index, p < firstLen X.cols
  nodup : X.index.Nodup

/-- the logical frame of a physical frame -/
def logical (X : PFr) : LFrame := viewFr X.index X.cols

/-- all rows -/
def allRows : Nat → Bool := fun _ => true

/-! ## With all rows selected `fillAll` plays no role -/

theorem applyInstr_all_fillAll (up : UpperOracle) (f : LFrame) (ins : Instr) :
    applyInstr up f allRows ins true = applyInstr up f allRows ins false := by
  obtain ⟨dst, s1, s2, fn⟩ := ins
  cases fn <;> simp [applyInstr, allRows]

theorem applyS_all_fillAll (up : UpperOracle) (f : LFrame) (is : List Instr) :
    applyS up f allRows true is = applyS up f allRows false is := by
  induction is generalizing f with
  | nil => rfl
  | cons i t ih =>
    unfold applyS
    rw [applyInstr_all_fillAll]
    cases applyInstr up f allRows i false with
    | ok f' => exact ih f'
    | err => rfl

/-! ## `Apply` -/

/-- **`Apply` of today's source, end to end.** For every well-formed physical frame `X` without error, every stored
representation of its string / enum columns and every list of instructions in scope, the regenerated `Apply` returns a
frame `X'` with the receiver's index which, read through that index, is exactly `applyS` of the logical frame: every
instruction in turn, each on the frame its predecessors built, all rows; `.err` as soon as one fails. A result without
error is well-formed again (so the next operation meets its hypotheses). -/
theorem gen_apply_end_to_end (R : Reps) (hR : R.OK) (up : UpperOracle) (gs : List GoInstr) (hs : ∀ g ∈ gs, InScope g)
    (X : PFr) (hX : PhysOK X) :
    ∃ X', applyX R up X (gs.map XInstr.of) = some X' ∧
      (X.err = true → X' = X) ∧
      (X.err = false →
        X'.index = X.index ∧
        resFr X.index X' = applyS up (logical X) allRows false (gs.map toInstr) ∧
        (X'.err = false → PhysOK X')) := by
  cases he : X.err with
  | true => exact ⟨X, applyX_err R up X he gs, fun _ => rfl, fun h => by cases h⟩
  | false =>
    have hf : X.index.filter allRows = X.index := List.filter_eq_self.mpr (fun _ _ => rfl)
    obtain ⟨X', a, b, d, e⟩ := applyX_spec R hR up X.index allRows allRows hX.nodup (fun _ _ => rfl) gs X he hf.symm
      hX.cols hX.inRange hs
    refine ⟨X', a, (fun h => by cases h), fun _ => ⟨b, ?_, fun h => ?_⟩⟩
    · rw [d, applyS_all_fillAll]; rfl
    · obtain ⟨h1, h2⟩ := e h
      exact ⟨h1, by rw [b, h2]; exact hX.inRange, by rw [b]; exact hX.nodup⟩

/-! ## What `applyS` says: one column set, in position or last; everything else untouched; row-wise values -/

theorem setCol_n (f : LFrame) (c : LCol) : (setCol f c).n = f.n := by
  unfold setCol; split <;> rfl

/-- an unknown destination is appended LAST -/
theorem setCol_append (f : LFrame) (c : LCol) (h : f.has c.name = false) : (setCol f c).cols = f.cols ++ [c] := by
  simp [setCol, h]

/-- a known destination is replaced IN ITS POSITION; the number of columns stays -/
theorem setCol_replace (f : LFrame) (c : LCol) (h : f.has c.name = true) (i : Nat) (o : LCol) (ho : f.cols[i]? = some o)
    (hn : o.name = c.name) : (setCol f c).cols[i]? = some c ∧ (setCol f c).cols.length = f.cols.length := by
  simp [setCol, h, ho, hn]

/-- every column with another name stays where it is, as it is -/
theorem setCol_others (f : LFrame) (c : LCol) (i : Nat) (o : LCol) (ho : f.cols[i]? = some o) (hn : o.name ≠ c.name) :
    (setCol f c).cols[i]? = some o := by
  have hb : (o.name == c.name) = false := by simpa using hn
  unfold setCol
  split
  · simp [ho, hb, hn]
  · have hi : i < f.cols.length := (List.getElem?_eq_some_iff.1 ho).1
    simp [List.getElem?_append_left hi, ho]

/-- **An instruction that succeeds changes one column**: the result is the frame itself (a `ColumnName` copy onto itself)
or `setCol f c` for ONE column `c` named by the destination. -/
theorem applyInstr_shape (up : UpperOracle) (f f' : LFrame) (m : Nat → Bool) (ins : Instr) (b : Bool)
    (h : applyInstr up f m ins b = .ok f') : f' = f ∨ ∃ c : LCol, c.name = ins.dst ∧ f' = setCol f c := by
  unfold applyInstr at h
  simp only at h
  repeat' split at h
  all_goals first
    | (cases h; done)
    | (cases h; exact .inl rfl)
    | (cases h; exact .inr ⟨_, rfl, rfl⟩)

/-- a one-source function: cell `r` of the destination is the function of cell `r` of the source -/
theorem applyInstr_f1_rowwise (up : UpperOracle) (f : LFrame) (dst s1 : Bytes) (id : String) (c : LCol) (src rt : CType)
    (g : Cell → Cell) (hc : f.find? s1 = some c) (hf : fn1 id = some (src, rt, g)) (hk : fkind c.ty = src)
    (hl : legalName dst = true) :
    applyInstr up f allRows ⟨dst, some s1, none, .f1 id⟩ =
      .ok (setCol f { name := dst, ty := rt, cells := ((List.range f.n).map (fun r => g c.cells[r]!)).toArray }) := by
  simp [applyInstr, hc, hf, hk, hl, allRows]

/-- a two-source function: cell `r` of the destination is the function of the cells `r` of the two sources -/
theorem applyInstr_f2_rowwise (up : UpperOracle) (f : LFrame) (dst s1 s2 : Bytes) (id : String) (c1 c2 : LCol) (src : CType)
    (g : Cell → Cell → Cell) (h1 : f.find? s1 = some c1) (h2 : f.find? s2 = some c2) (hf : fn2 id = some (src, g))
    (ht : c1.ty = c2.ty) (hk : fkind c1.ty = src) (hl : legalName dst = true) :
    applyInstr up f allRows ⟨dst, some s1, some s2, .f2 id⟩ =
      .ok (setCol f { name := dst, ty := src,
                      cells := ((List.range f.n).map (fun r => g c1.cells[r]! c2.cells[r]!)).toArray }) := by
  have hk2 : fkind c2.ty = src := ht ▸ hk
  simp [applyInstr, h1, h2, hf, ht, hk, hk2, hl, allRows]

/-- a constant: every row holds it -/
theorem applyInstr_const_rowwise (up : UpperOracle) (f : LFrame) (dst : Bytes) (k : Cell) (hl : legalName dst = true) :
    applyInstr up f allRows ⟨dst, none, none, .const k⟩ =
      .ok (setCol f { name := dst, ty := cellType k, cells := ((List.range f.n).map (fun _ => k)).toArray }) := by
  simp [applyInstr, hl, allRows]

/-! ## The first failing instruction ends the call -/

theorem map_take {α β : Type} (g : α → β) (l : List α) (k : Nat) : (l.take k).map g = (l.map g).take k := by
  simp [List.map_take]

/-- **The first failing instruction ends the call.** With `k` the position of the first instruction that fails (on the
frame its predecessors built; the length of the list if none fails): the regenerated `Apply` on the first `k` instructions
succeeds with a well-formed frame `Xk`; instruction `k`, if there is one, fails on the logical frame of `Xk`; and the
regenerated `Apply` on the WHOLE list then returns a frame with an error (whatever comes after `k`). -/
theorem gen_apply_stops_at_first_failing (R : Reps) (hR : R.OK) (up : UpperOracle) (gs : List GoInstr)
    (hs : ∀ g ∈ gs, InScope g) (X : PFr) (hX : PhysOK X) (he : X.err = false) :
    let k := firstFailing up (logical X) allRows (gs.map toInstr)
    ∃ Xk, applyX R up X ((gs.take k).map XInstr.of) = some Xk ∧ Xk.err = false ∧ Xk.index = X.index ∧ PhysOK Xk ∧
      (∀ g, gs[k]? = some g → applyInstr up (logical Xk) allRows (toInstr g) = .err) ∧
      (k < gs.length → ∃ X', applyX R up X (gs.map XInstr.of) = some X' ∧ X'.err = true) := by
  intro k
  obtain ⟨g0, hg0, hfail⟩ := C10Sticky.applyS_stops_at_first_failing up (logical X) allRows (gs.map toInstr)
  obtain ⟨Xk, a, _, b⟩ := gen_apply_end_to_end R hR up (gs.take k) (fun g hg => hs g (List.mem_of_mem_take hg)) X hX
  obtain ⟨hix, hres, hok⟩ := b he
  rw [map_take, hg0] at hres
  have hek : Xk.err = false := by
    cases h : Xk.err with
    | false => rfl
    | true => simp [resFr, h] at hres
  have hlog : logical Xk = g0 := by
    simp only [resFr, hek, Bool.false_eq_true, if_false, Res.ok.injEq] at hres
    rw [logical, hix]; exact hres
  refine ⟨Xk, a, hek, hix, hok hek, ?_, ?_⟩
  · intro g hg
    rw [hlog]
    apply hfail
    show (gs.map toInstr)[k]? = some (toInstr g)
    rw [List.getElem?_map, hg]; rfl
  · intro hk
    obtain ⟨X', a', _, b'⟩ := gen_apply_end_to_end R hR up gs hs X hX
    obtain ⟨_, hres', _⟩ := b' he
    have herr : applyS up (logical X) allRows false (gs.map toInstr) = .err :=
      (C10Sticky.applyS_err_iff up (logical X) allRows (gs.map toInstr)).2 (by simpa using hk)
    rw [herr] at hres'
    refine ⟨X', a', ?_⟩
    cases h : X'.err with
    | true => rfl
    | false => simp [resFr, h] at hres'

/-! ## `FilteredApply`, `WithRowNums` -/

/-- **`FilteredApply` of today's source, end to end**: the regenerated body (`Gen.fapplyAst`: Filter, the copy of the frame
value, the index swap, `Apply`, the index restored) over the regenerated `Apply`, for every well-formed physical frame,
clause and list of instructions in scope, with `Filter` as proved elsewhere (`FilterOK`; `hypotheses_satisfiable`): the
result read through the receiver's ORIGINAL index is `filteredApplyS … (fillAll := true)` of the logical frame, and carries
the original index; a receiver with an error comes back as it is. (`fillAll := true`: the open finding KF-C06-fapply-fill,
C06FApplyGen.gen_fapply_copy_fills_all.) -/
theorem gen_fapply_end_to_end (R : Reps) (hR : R.OK) (lo : LikeOracle) (up : UpperOracle) (c : Clause) (gs : List GoInstr)
    (hs : ∀ g ∈ gs, InScope g) (X : PFr) (filt : PFr → Option PFr) (hF : FilterOK lo c filt X) (hX : PhysOK X) :
    ∃ Y, runFA (physEnv R up X [] filt gs) Gen.fapplyAst [] = some Y ∧
      (X.err = true → Y = X) ∧
      (X.err = false →
        resFr X.index Y = filteredApplyS lo up (logical X) c (gs.map toInstr) true ∧
        (Y.err = false → Y.index = X.index)) :=
  gen_fapply_semantics R hR lo up c gs hs X filt hF hX.cols hX.inRange hX.nodup

/-- **`WithRowNums` of today's source, end to end**: the column `0 … n-1` in INDEX order under the given name, set like any
destination of `Apply` (`rowNumsS`); an illegal name gives an error; a receiver with an error comes back as it is. -/
theorem gen_rownums_end_to_end (R : Reps) (up : UpperOracle) (X : PFr) (name : Bytes) (hX : PhysOK X) :
    ∃ Y, runFA (physEnv R up X name (fun _ => none) []) Gen.rowNumsFnAst [] = some Y ∧
      (X.err = true → Y = X) ∧
      (X.err = false → Y.index = X.index ∧ resFr X.index Y = rowNumsS (logical X) name) :=
  gen_rownums_semantics R up X name hX.cols hX.inRange hX.nodup

/-- the glue `apply1` / `apply2` of today's source, for every meaning of the callees -/
theorem gen_apply_glue {φ : Type} (P : SG.APrims φ) (F : GG.Frame) (fn : φ) (dst src1 src2 : Bytes) :
    C03SortGlueGen.genApply1 P F fn dst src1 = some (C03SortGlueGen.specApply1 P F fn dst src1) ∧
    C03SortGlueGen.genApply2 P F fn dst src1 src2 = some (C03SortGlueGen.specApply2 P F fn dst src1 src2) :=
  C03SortGlueGen.gen_apply12_semantics P F fn dst src1 src2

/-- a physical frame value as a frame of the glue -/
def glueFr (X : PFr) : GG.Frame := { cols := X.cols.map C06GlueLink.toL, index := X.index, err := X.err }

/-- **the helper calls of `Apply` are the regenerated `apply1` / `apply2`** (the instantiation of `gen_apply_glue`): a step of
`applyX` — instruction `g`, dispatched by today's `Apply` to helper `k ∈ {1, 2}` with the argument fields `args` — on a frame
`X` without error that has a meaning `Y` (`helperFr … = some Y`): the regenerated frame method, given the destination and
source names the dispatch passes, the function value of the instruction and the callees `C06GlueLink.prims`, returns `Y`
(as a frame of the glue: same columns, the receiver's index, same error flag). -/
theorem gen_apply_step_glue (R : Reps) (up : UpperOracle) (X : PFr) (hX : X.err = false) (g : XInstr) (k : Nat)
    (args : List IField) (hk : k = 1 ∨ k = 2) (Y : PFr) (h : helperFr R up k args g X = some Y) :
    (if k = 1 then
       C03SortGlueGen.genApply1 (C06GlueLink.prims R up) (glueFr X) (g.fn, g.s0)
         (((args[1]?).map g.field).getD []) (((args[2]?).map g.field).getD [])
     else
       C03SortGlueGen.genApply2 (C06GlueLink.prims R up) (glueFr X) (g.fn, g.s0)
         (((args[1]?).map g.field).getD []) (((args[2]?).map g.field).getD []) (((args[3]?).map g.field).getD [])) =
      some (glueFr Y) ∧ Y.index = X.index := by
  unfold helperFr at h
  rw [hX] at h
  simp only [Bool.false_eq_true, if_false, Option.map_eq_some_iff] at h
  obtain ⟨r, hr, hY⟩ := h
  have hg : glueFr X = C06GlueLink.frameOf X.cols X.index := by simp [glueFr, C06GlueLink.frameOf, hX]
  have hres : glueFr Y = C06GlueLink.frameRes X.cols X.index r ∧ Y.index = X.index := by
    subst hY
    cases r <;> simp [glueFr, C06GlueLink.frameRes, hX]
  rw [hg, hres.1]
  exact ⟨C06GlueLink.helperFr_glue R up X hX _ _ _ g.fn g.s0 k hk r hr, hres.2⟩

/-! ## Example: a derived frame and a list with a replaced, an appended and a failing destination -/

/-- physical rows 0..3, the frame shows rows 3, 1 (filtered and reordered) -/
def exX : PFr :=
  { cols := [{ name := [97], col := { ty := .int, cells := [.int 10, .int 20, .int 30, .int 40] } },
             { name := [98], col := { ty := .int, cells := [.int 1, .int 2, .int 3, .int 4] } }],
    index := [3, 1], err := false }

theorem exX_ok : PhysOK exX := by
  refine ⟨⟨?_, ?_, ?_⟩, by decide, by decide⟩
  · intro c hc
    simp only [exX, List.mem_cons, List.not_mem_nil, or_false] at hc
    rcases hc with rfl | rfl <;> rfl
  · intro c hc
    simp only [exX, List.mem_cons, List.not_mem_nil, or_false] at hc
    rcases hc with rfl | rfl <;> exact ⟨by decide, by decide⟩
  · intro c hc hty
    simp only [exX, List.mem_cons, List.not_mem_nil, or_false] at hc
    rcases hc with rfl | rfl <;> cases hty

/-- constant 7 into the existing column `a` (replaced in position), a copy of `b` under the new name `c` (appended last),
then a copy of a column that does not exist (fails; the fourth instruction is never looked at) -/
def exGs : List GoInstr :=
  [{ dst := [97], fn := .const (.int 7) }, { dst := [99], fn := .colCopy [98] }, { dst := [100], fn := .colCopy [122] },
   { dst := [101], fn := .const (.int 1) }]

theorem exGs_scope : ∀ g ∈ exGs, InScope g := by
  intro g hg
  simp only [exGs, List.mem_cons, List.not_mem_nil, or_false] at hg
  rcases hg with rfl | rfl | rfl | rfl <;> intro _ n h <;> cases h

/-- the spec on the example: the first two instructions give a, b, c = [7, 7], [4, 2], [4, 2]; the third fails -/
example : firstFailing (fun b => b) (logical exX) allRows (exGs.map toInstr) = 2 ∧
    (match applyS (fun b => b) (logical exX) allRows false ((exGs.take 2).map toInstr) with
     | .ok f => f.cols.map (fun c => (c.name, c.cells.toList))
     | .err => []) = [([97], [.int 7, .int 7]), ([98], [.int 4, .int 2]), ([99], [.int 4, .int 2])] := by
  constructor <;> decide +kernel

example (R : Reps) (hR : R.OK) :=
  gen_apply_stops_at_first_failing R hR (fun b => b) exGs exGs_scope exX exX_ok rfl

#print axioms gen_apply_end_to_end
#print axioms gen_apply_stops_at_first_failing
#print axioms gen_fapply_end_to_end
#print axioms gen_rownums_end_to_end
#print axioms applyInstr_shape
#print axioms gen_apply_glue
#print axioms gen_apply_step_glue

end QF.Props.C06EndToEnd
