import QF.Core.Eval
import QF.Props.C08Project
/-!
# C07 — Eval bookkeeping: temp columns, leaf `execute`s, column/constant, the Copy-then-Drop epilogue

Bookkeeping part of the property "Eval stores the value in `dst` and leaves no trace of temporaries; all
other columns keep name, position, type and values", on the frame mirror `Fr.Frame` (QF/Core/Frame.lean), the
expression mirror QF/Core/Eval.lean and the faithful `Drop`/`Copy` mirrors of QF/Props/C08Project.lean.

**Relation to Eval.lean.**  Eval.lean still mirrors the Go code *before* the repair: (1) its `Ex.colConst` has no
`constFirst` and `execute` always passes (column, constant); (2) its `eval` drops the temp column whenever
`!contains f c` (without `&& c != dst`); (3) its `dropCols` has no `checkColumns`.  Eval.lean is not edited.
Corrected variants, following the current /repo/expression.go and `QFrame.Eval`, are defined here: `Ex'`,
`newExpr'`, `execColConst`, `execute'`, `evalEpilogue`, `missing`, `eval'`; they use `C08.drop` / `C08.copy`.  `eval'` has the
guard of the repaired `QFrame.Eval`: `missingCol(expr, qf)` — a column reference that is not a column of the frame `Eval` is
called on is an error before anything is executed (`missing`, `missing_eq_find`).  The leaf
functions `execConst`, `execUnary`, `execColCol` and `tempColName` of Eval.lean agree with the current Go code
and are used as they are.

**Contents.**
1. `tempColName_fresh` — the name is `prefix-temp-k` for the first free `k < 10000`, it is not a column, and with
   fewer than 10000 columns the failure value ("PANIC") does not occur.  (`natStr_inj`, `checkName_tempName`.)
2. Leaf forms.  `execLeaf pre f c` = "pick temp name, `setColumn` the computed column `c`" is the common shape;
   `execLeaf_plus` is the generic statement with the computed column as a parameter; `execConst_eq`,
   `execUnary_eq`, `execColCol_eq` show Eval.lean's leaves are instances and `execConst_plus`, `execUnary_plus`,
   `execColCol_plus` are the instantiated statements.  `Plus f g L t e` says: `g` is well-formed with unique names
   and no error, has the row index of `f`, and `g.abs = f.abs ++ [e]` with `e.1 = t`, `t` not a name of `f`.
3. Column/constant: `colConst_plus` (columns as parameters), `execColConst_plus` (Eval.lean functions, both
   operand orders, stated for a successful run).
4. Eval epilogue: `evalEpilogue_plus` (`execute` returned `f` plus temp `t`), `evalEpilogue_same` (`execute`
   returned `f` itself), as the equation `abs = absSet f.abs (position of dst in f) (dst, cells)`;
   `absSet_old/new/names/other/dst/no_trace` spell out what that equation says.
5.–7. Beyond the four items: `execute'_shape` proves by induction on the expression (nested `exprExpr1/2` with
   their Drop rules included) that a successful `execute'` yields `f` or `f` plus exactly the returned column, and
   `eval'_bookkeeping` is the resulting statement for `Eval` on every expression.

`UniqueNames f` (C08) is a hypothesis throughout: `Drop` re-fetches the remaining columns through the name map,
so on a frame with duplicate names (`Select("a","a")`) the old columns do *not* all survive; `WF` does not
exclude such frames.  `physLen f = L` says the length Go reads off the first column is the common length (it
follows from `WF` when there is a column, `physLen_eq`; for a frame without columns it forces `L = 0`).
Which function is applied to which cells is not the subject here (see C06); computed columns enter either as
parameters or as the concrete `constCol`, `applyFn1`, `col2`.
-/
namespace QF.Props.C07Eval
open Fr
open QF.Props.C08

/-! ## 1. `tempColName` -/

theorem natStr_inj (i j : Nat) (h : natStr i = natStr j) : i = j := by
  unfold natStr at h
  rw [Nat.toString_eq_repr, Nat.toString_eq_repr] at h
  have := congrArg String.toList h
  rw [Nat.toList_repr, Nat.toList_repr] at this
  have h2 := congrArg (fun l => Nat.ofDigitChars 10 l 0) this
  simpa [Nat.ofDigitChars_ten_toDigits] using h2

theorem checkName_of_head (s : String) (c : Char) (r : List Char) (h : s.toList = c :: r)
    (h1 : c ≠ '$') (h2 : c ≠ '\'') (h3 : c ≠ '"') : checkName s = true := by
  have e : s.isEmpty = false := by
    rw [String.isEmpty_eq_false_iff]; intro h0; subst h0; simp at h
  have a : s.startsWith "$" = false := by
    rw [String.startsWith_string_eq_false_iff, h]; simp [Ne.symm h1]
  have b : s.startsWith "'" = false := by
    rw [String.startsWith_string_eq_false_iff, h]; simp [Ne.symm h2]
  have d : s.startsWith "\"" = false := by
    rw [String.startsWith_string_eq_false_iff, h]; simp [Ne.symm h3]
  simp [checkName, e, a, b, d]

def GoodPrefix (pre : String) : Prop :=
  ∃ c r, pre.toList = c :: r ∧ c ≠ '$' ∧ c ≠ '\'' ∧ c ≠ '"'

def tempName (pre : String) (k : Nat) : String := pre ++ "-temp-" ++ natStr k

theorem tempName_inj (pre : String) (i j : Nat) (h : tempName pre i = tempName pre j) : i = j := by
  unfold tempName at h
  exact natStr_inj i j ((String.append_right_inj _).mp h)

theorem checkName_tempName (pre : String) (hp : GoodPrefix pre) (k : Nat) : checkName (tempName pre k) = true := by
  obtain ⟨c, r, h, h1, h2, h3⟩ := hp
  apply checkName_of_head _ c (r ++ "-temp-".toList ++ (natStr k).toList) _ h1 h2 h3
  simp [tempName, String.toList_append, h]

theorem goodPrefix_const : GoodPrefix "const" := ⟨'c', "onst".toList, by decide, by decide, by decide, by decide⟩
theorem goodPrefix_unary : GoodPrefix "unary" := ⟨'u', "nary".toList, by decide, by decide, by decide, by decide⟩
theorem goodPrefix_colcol : GoodPrefix "colcol" := ⟨'c', "olcol".toList, by decide, by decide, by decide, by decide⟩

/-- pigeonhole -/
theorem exists_free (f : Frame) (L : Nat) (wf : WF f L) (pre : String) (n : Nat) (hlt : f.cols.length < n) :
    ∃ k, k < n ∧ f.byName (tempName pre k) = none := by
  apply Classical.byContradiction
  intro hno
  have hall : ∀ k, k < n → ∃ c, f.byName (tempName pre k) = some c := by
    intro k hk
    cases hb : f.byName (tempName pre k) with
    | none => exact absurd ⟨k, hk, hb⟩ hno
    | some c => exact ⟨c, rfl⟩
  -- positions of the n names
  let posOf : Nat → Nat := fun k => match f.byName (tempName pre k) with | some c => c.pos | none => 0
  have hinj : ∀ i j, i < n → j < n → posOf i = posOf j → i = j := by
    intro i j hi hj hij
    obtain ⟨ci, hci⟩ := hall i hi
    obtain ⟨cj, hcj⟩ := hall j hj
    simp only [posOf, hci, hcj] at hij
    obtain ⟨a1, a2⟩ := wf.mapOk _ _ hci
    obtain ⟨b1, b2⟩ := wf.mapOk _ _ hcj
    rw [hij, b1] at a1
    have : cj = ci := Option.some.inj a1
    subst this
    exact tempName_inj pre i j (a2.symm.trans b2)
  have hnd : ((List.range n).map posOf).Nodup := by
    rw [List.Nodup, List.pairwise_map]
    refine List.Pairwise.imp_of_mem ?_ (List.nodup_range (n := n))
    intro i j hi hj hne h
    exact hne (hinj i j (List.mem_range.mp hi) (List.mem_range.mp hj) h)
  have hsub : (List.range n).map posOf ⊆ List.range f.cols.length := by
    intro p hp
    obtain ⟨k, hk, rfl⟩ := List.mem_map.mp hp
    obtain ⟨c, hc⟩ := hall k (List.mem_range.mp hk)
    simp only [posOf, hc, List.mem_range]
    obtain ⟨a1, _⟩ := wf.mapOk _ _ hc
    rcases Nat.lt_or_ge c.pos f.cols.length with h | h
    · exact h
    · rw [List.getElem?_eq_none h] at a1; cases a1
  have := hnd.length_le_of_subset hsub
  simp at this
  omega

theorem tempColName_of_find (f : Frame) (pre : String) (k : Nat)
    (h : (List.range 10000).find? (fun i => (f.byName (tempName pre i)).isNone) = some k) :
    tempColName f pre = tempName pre k := by
  unfold tempName at h
  unfold tempColName tempName
  rw [h]

theorem find_fresh (f : Frame) (L : Nat) (wf : WF f L) (pre : String) (n : Nat) (hlt : f.cols.length < n) :
    ∃ k, k < n ∧
      (List.range n).find? (fun i => (f.byName (tempName pre i)).isNone) = some k ∧
      f.byName (tempName pre k) = none ∧
      (∀ j, j < k → (f.byName (tempName pre j)).isSome = true) := by
  cases hf : (List.range n).find? (fun i => (f.byName (tempName pre i)).isNone) with
  | none =>
    exfalso
    rw [List.find?_range_eq_none] at hf
    obtain ⟨k, hk, hb⟩ := exists_free f L wf pre n hlt
    have := hf k hk
    simp [hb] at this
  | some k =>
    have hk := hf
    rw [List.find?_range_eq_some] at hk
    obtain ⟨h1, h2, h3⟩ := hk
    have hn : f.byName (tempName pre k) = none := by simpa using h1
    refine ⟨k, List.mem_range.mp h2, rfl, hn, ?_⟩
    intro j hj
    have := h3 j hj
    simpa using this

theorem tempColName_fresh (f : Frame) (L : Nat) (wf : WF f L) (pre : String) (hlt : f.cols.length < 10000) :
    ∃ k, k < 10000 ∧
      (List.range 10000).find? (fun i => (f.byName (tempName pre i)).isNone) = some k ∧
      tempColName f pre = tempName pre k ∧
      f.byName (tempColName f pre) = none ∧
      (∀ j, j < k → (f.byName (tempName pre j)).isSome = true) ∧
      tempColName f pre ∉ f.cols.map (·.name) := by
  obtain ⟨k, hk, hf, hn, hj⟩ := find_fresh f L wf pre 10000 hlt
  have he : tempColName f pre = tempName pre k := tempColName_of_find f pre k hf
  refine ⟨k, hk, hf, he, by rw [he]; exact hn, hj, ?_⟩
  rw [he]
  intro hm
  obtain ⟨c, hc, hcn⟩ := List.mem_map.mp hm
  have := wf.mapTotal c hc
  rw [hcn, hn] at this
  cases this

/-! ## 2. leaf forms -/

/-- the `abs` entry of a stored column `c` under name `n`, read through the row index `ix` -/
def colEntry (ix : List Nat) (n : String) (c : Col) : Entry := (n, c.ty, ix.map fun p => c.data[p]?)

theorem abs_names (f : Frame) : f.abs.map (·.1) = f.cols.map (·.name) := by
  simp [Frame.abs]

theorem not_mem_names_of_byName_none {f : Frame} {L : Nat} (wf : WF f L) {t : String} (h : f.byName t = none) :
    t ∉ f.cols.map (·.name) := by
  intro hm
  obtain ⟨c, hc, hcn⟩ := List.mem_map.mp hm
  have := wf.mapTotal c hc
  rw [hcn, h] at this
  cases this

/-- `g` is `f` plus exactly one new column, named `t` (not a name of `f`), appended last, holding entry `e`;
    everything else — names, order, types, cells, row index — is as in `f`; no error. -/
structure Plus (f g : Frame) (L : Nat) (t : String) (e : Entry) : Prop where
  wf : WF g L
  uniq : UniqueNames g
  err : g.err = none
  index : g.index = f.index
  abs : g.abs = f.abs ++ [e]
  name : e.1 = t
  fresh : f.byName t = none

/-- the common shape of the three leaf `execute`s: pick the temp name on the incoming frame, then `Apply`
    (= compute a column `c`, then `setColumn`). -/
def execLeaf (pre : String) (f : Frame) (c : Col) : Frame × String :=
  (setColumn f (tempColName f pre) c, tempColName f pre)

theorem execLeaf_fst (pre : String) (f : Frame) (c : Col) :
    (execLeaf pre f c).1 = setColumn f (tempColName f pre) c := by simp only [execLeaf]
theorem execLeaf_snd (pre : String) (f : Frame) (c : Col) :
    (execLeaf pre f c).2 = tempColName f pre := by simp only [execLeaf]

theorem setColumn_fresh_cols (f : Frame) (t : String) (c : Col) (hn : checkName t = true) (hb : f.byName t = none) :
    (setColumn f t c).cols = f.cols ++ [⟨t, f.cols.length, c⟩] ∧
    (setColumn f t c).byName = (fun k => if k = t then some ⟨t, f.cols.length, c⟩ else f.byName k) := by
  simp [setColumn, hn, hb]

theorem setColumn_fresh_plus (f : Frame) (L : Nat) (wf : WF f L) (u : UniqueNames f) (he : f.err = none)
    (t : String) (c : Col) (hc : c.data.length = L) (hn : checkName t = true) (hb : f.byName t = none) :
    Plus f (setColumn f t c) L t (colEntry f.index t c) := by
  obtain ⟨h1, h2, h3⟩ := setColumn_abs f L wf t c hn
  refine ⟨setColumn_wf f L wf t c hc hn, setColumn_unique f L wf u t c, h3.trans he, h2, ?_, rfl, hb⟩
  rw [h1, hb]; rfl

/-- **Leaf forms.** -/
theorem execLeaf_plus (f : Frame) (L : Nat) (wf : WF f L) (u : UniqueNames f) (he : f.err = none)
    (hlt : f.cols.length < 10000) (pre : String) (hp : GoodPrefix pre) (c : Col) (hc : c.data.length = L) :
    (execLeaf pre f c).2 = tempColName f pre ∧
    Plus f (execLeaf pre f c).1 L (tempColName f pre) (colEntry f.index (tempColName f pre) c) ∧
    (execLeaf pre f c).1.cols = f.cols ++ [⟨tempColName f pre, f.cols.length, c⟩] := by
  have ⟨k, hh⟩ := tempColName_fresh f L wf pre hlt
  have hk := hh.2.2.1
  have hb := hh.2.2.2.1
  have hn : checkName (tempColName f pre) = true := by rw [hk]; exact checkName_tempName pre hp k
  rw [execLeaf_fst, execLeaf_snd]
  exact ⟨rfl, setColumn_fresh_plus f L wf u he _ c hc hn hb, (setColumn_fresh_cols f _ c hn hb).1⟩

/-- `Contains(k)` ⇔ `k` is one of the column names -/
theorem contains_iff {f : Frame} {L : Nat} (wf : WF f L) (k : String) :
    (f.byName k).isSome = true ↔ k ∈ f.abs.map (·.1) := by
  rw [abs_names]
  constructor
  · intro h
    cases hb : f.byName k with
    | none => rw [hb] at h; cases h
    | some c =>
      have := byName_mem wf hb
      exact List.mem_map.mpr ⟨c, this, (wf.mapOk k c hb).2⟩
  · intro hm
    obtain ⟨c, hc, hcn⟩ := List.mem_map.mp hm
    have := wf.mapTotal c hc
    rw [hcn] at this; exact this

theorem none_iff {f : Frame} {L : Nat} (wf : WF f L) (k : String) :
    f.byName k = none ↔ k ∉ f.abs.map (·.1) := by
  rw [← contains_iff wf k]
  cases f.byName k <;> simp

theorem Plus.names {f g : Frame} {L : Nat} {t : String} {e : Entry} (P : Plus f g L t e) :
    g.abs.map (·.1) = f.abs.map (·.1) ++ [t] := by
  rw [P.abs, List.map_append, List.map_cons, P.name]; rfl

theorem Plus.fresh_names {f g : Frame} {L : Nat} {t : String} {e : Entry} (wf : WF f L) (P : Plus f g L t e) :
    t ∉ f.abs.map (·.1) := (none_iff wf t).mp P.fresh

theorem Plus.has_t {f g : Frame} {L : Nat} {t : String} {e : Entry} (P : Plus f g L t e) :
    (g.byName t).isSome = true := by
  rw [contains_iff P.wf, P.names]; simp

theorem Plus.cols_length {f g : Frame} {L : Nat} {t : String} {e : Entry} (P : Plus f g L t e) :
    g.cols.length = f.cols.length + 1 := by
  have := congrArg List.length P.abs
  simpa [Frame.abs] using this

/-! ## column/constant form -/

/-- two temporaries stacked on `f`, the first one dropped again -/
theorem plus_drop_first {f g1 g2 : Frame} {L : Nat} {tc t2 : String} {e1 e2 : Entry} (wf : WF f L)
    (P1 : Plus f g1 L tc e1) (P2 : Plus g1 g2 L t2 e2) : Plus f (drop g2 [tc]) L t2 e2 := by
  have hn2 : t2 ∉ g1.abs.map (·.1) := P2.fresh_names P1.wf
  rw [P1.names] at hn2
  have hne : t2 ≠ tc := fun h => hn2 (by simp [h])
  have hf2 : t2 ∉ f.abs.map (·.1) := fun h => hn2 (List.mem_append_left _ h)
  have hftc : tc ∉ f.abs.map (·.1) := P1.fresh_names wf
  have hc : checkColumns g2 [tc] = true := by
    rw [checkColumns_iff]
    intro n hn
    simp only [List.mem_singleton] at hn
    subst hn
    rw [contains_iff P2.wf, P2.names, P1.names]; simp
  obtain ⟨d1, d2, d3⟩ := drop_abs g2 L P2.wf P2.uniq [tc] P2.err hc
  have habs : absDrop g2.abs [tc] = f.abs ++ [e2] := by
    rw [P2.abs, P1.abs]
    unfold absDrop
    rw [List.filter_append, List.filter_append]
    have h1 : f.abs.filter (fun e => ![tc].contains e.1) = f.abs := by
      rw [List.filter_eq_self]
      intro e hm
      have : e.1 ≠ tc := fun h => hftc (List.mem_map.mpr ⟨e, hm, h⟩)
      simp [this]
    rw [h1]
    simp [P1.name, P2.name, hne]
  refine ⟨drop_wf g2 L P2.wf [tc], drop_unique g2 L P2.wf P2.uniq [tc], d3, ?_, by rw [d1, habs], P2.name,
    (none_iff wf t2).mpr hf2⟩
  rw [d2, habs, P2.index, P1.index]; simp

theorem colConst_plus (f : Frame) (L : Nat) (wf : WF f L) (u : UniqueNames f) (he : f.err = none)
    (hlt : f.cols.length + 1 < 10000) (c1 c2 : Col) (h1 : c1.data.length = L) (h2 : c2.data.length = L) :
    Plus f (drop (execLeaf "colcol" (execLeaf "const" f c1).1 c2).1 [(execLeaf "const" f c1).2]) L
      (execLeaf "colcol" (execLeaf "const" f c1).1 c2).2
      (colEntry f.index (execLeaf "colcol" (execLeaf "const" f c1).1 c2).2 c2) := by
  have A := execLeaf_plus f L wf u he (by omega) "const" goodPrefix_const c1 h1
  have P1 := A.2.1
  have hl1 : (execLeaf "const" f c1).1.cols.length < 10000 := by rw [P1.cols_length]; exact hlt
  have B := execLeaf_plus _ L P1.wf P1.uniq P1.err hl1 "colcol" goodPrefix_colcol c2 h2
  have P2 := B.2.1
  rw [← B.1, P1.index] at P2
  have := plus_drop_first wf P1 P2
  rw [← A.1] at this
  exact this

/-! ## 4. Eval epilogue -/

theorem filter_fresh (l : List Entry) (t : String) (ht : t ∉ l.map (·.1)) :
    absDrop l [t] = l := by
  unfold absDrop
  rw [List.filter_eq_self]
  intro e he
  have : e.1 ≠ t := fun h => ht (List.mem_map.mpr ⟨e, he, h⟩)
  simp [this]

/-- pure list form of the Eval epilogue, `dst ≠ t`: Copy(dst, t) then Drop(t) on `l ++ [(t, x)]` -/
theorem epilogue_list (l : List Entry) (t dst : String) (x : Ty × List (Option Val))
    (ht : t ∉ l.map (·.1)) (hne : dst ≠ t) :
    absDrop (absCopy (l ++ [(t, x)]) dst t) [t] = absSet l (l.findIdx? (·.1 == dst)) (dst, x) := by
  have hl : absLookup (l ++ [(t, x)]) t = some (t, x) := by
    unfold absLookup
    rw [List.find?_append]
    have : l.find? (fun e => e.1 == t) = none := by
      rw [List.find?_eq_none]
      intro e he h
      exact ht (List.mem_map.mpr ⟨e, he, by simpa using h⟩)
    rw [this]; simp
  unfold absCopy
  rw [hl]
  simp only
  rw [List.findIdx?_append]
  have hlast : ([(t, x)] : List Entry).findIdx? (fun e => e.1 == dst) = none := by
    simp [List.findIdx?_cons, Ne.symm hne]
  rw [hlast]
  cases hp : l.findIdx? (fun e => e.1 == dst) with
  | some p =>
    have hpl : p < l.length := by
      rw [List.findIdx?_eq_some_iff_getElem] at hp
      exact hp.1
    simp only [Option.map_none, Option.or_none, absSet]
    rw [List.set_append_left _ _ hpl]
    unfold absDrop
    rw [List.filter_append]
    have h1 := filter_fresh (l.set p (dst, x)) t (by
      intro hm
      obtain ⟨e, he, hen⟩ := List.mem_map.mp hm
      rcases List.mem_or_eq_of_mem_set he with h | h
      · exact ht (List.mem_map.mpr ⟨e, h, hen⟩)
      · subst h; exact hne hen)
    unfold absDrop at h1
    rw [h1]
    simp
  | none =>
    simp only [Option.map_none, Option.or_none, absSet]
    unfold absDrop
    rw [List.filter_append, List.filter_append]
    have h1 := filter_fresh l t ht
    unfold absDrop at h1
    rw [h1]
    simp [hne]

/-- qframe.go `Eval`, after `expr.execute`: `result.Copy(dstCol, colName)`, then
    `if !qf.Contains(colName) && colName != dstCol { result = result.Drop(colName) }` (current Go code) -/
def evalEpilogue (f : Frame) (dst : String) (r : Frame) (c : String) : Frame :=
  let r' := copy r dst c
  if !contains f c && c != dst then drop r' [c] else r'

theorem setColumn_keeps {f : Frame} (n : String) (c : Col) (k : String) (h : (f.byName k).isSome = true) :
    ((setColumn f n c).byName k).isSome = true := by
  unfold setColumn
  split
  · exact h
  · split <;> (simp only; split <;> simp [h])

theorem absSet_nonempty (l : List Entry) (q : Entry → Bool) (v : Entry) :
    (absSet l (l.findIdx? q) v).isEmpty = false := by
  cases hp : l.findIdx? q with
  | none => simp [absSet]
  | some p =>
    have hpl : p < l.length := by
      rw [List.findIdx?_eq_some_iff_getElem] at hp
      exact hp.1
    simp only [absSet]
    cases l with
    | nil => simp at hpl
    | cons a l => cases p <;> simp

theorem evalEpilogue_plus (f g : Frame) (L : Nat) (wf : WF f L) (t : String) (e : Entry)
    (P : Plus f g L t e) (dst : String) (hn : dst ≠ t → checkName dst = true) :
    (evalEpilogue f dst g t).abs = absSet f.abs (f.abs.findIdx? (·.1 == dst)) (dst, e.2) ∧
    (evalEpilogue f dst g t).index = f.index ∧
    (evalEpilogue f dst g t).err = none ∧
    WF (evalEpilogue f dst g t) L ∧ UniqueNames (evalEpilogue f dst g t) := by
  have hft : t ∉ f.abs.map (·.1) := P.fresh_names wf
  have hcf : contains f t = false := by simp [contains, P.fresh]
  have he : e = (t, e.2) := by rw [← P.name]
  by_cases hd : dst = t
  · subst hd
    have : evalEpilogue f dst g dst = g := by
      simp [evalEpilogue, copy_self g dst P.has_t]
    rw [this]
    refine ⟨?_, P.index, P.err, P.wf, P.uniq⟩
    have : f.abs.findIdx? (fun x => x.1 == dst) = none := by
      rw [List.findIdx?_eq_none_iff]
      intro x hx
      have : x.1 ≠ dst := fun h => hft (List.mem_map.mpr ⟨x, hx, h⟩)
      simpa using this
    rw [this, P.abs]
    simp only [absSet]
    rw [he]
  · have hne : (t != dst) = true := by simpa using Ne.symm hd
    have hev : evalEpilogue f dst g t = drop (copy g dst t) [t] := by
      simp [evalEpilogue, hcf, hne]
    rw [hev]
    have hck := hn hd
    cases hb : g.byName t with
    | none => have := P.has_t; rw [hb] at this; cases this
    | some c =>
      obtain ⟨_, ci, ce⟩ := copy_abs g L P.wf dst t c P.err hb hd hck
      have ca := copy_abs_pure g L P.wf P.uniq dst t P.err P.has_t hd hck
      have cwf := copy_wf g L P.wf dst t
      have cu := copy_unique g L P.wf P.uniq dst t
      have hc : checkColumns (copy g dst t) [t] = true := by
        rw [checkColumns_iff]
        intro n hn
        simp only [List.mem_singleton] at hn
        subst hn
        have : copy g dst n = setColumn g dst c.col := by simp [copy, P.err, hb, hd]
        rw [this]
        exact setColumn_keeps dst c.col n P.has_t
      obtain ⟨d1, d2, d3⟩ := drop_abs (copy g dst t) L cwf cu [t] ce hc
      have habs : absDrop (copy g dst t).abs [t] = absSet f.abs (f.abs.findIdx? (·.1 == dst)) (dst, e.2) := by
        rw [ca, P.abs, he]
        exact epilogue_list f.abs t dst e.2 hft hd
      refine ⟨by rw [d1, habs], ?_, d3, drop_wf _ L cwf [t], drop_unique _ L cwf cu [t]⟩
      rw [d2, habs, absSet_nonempty, ci, P.index]; simp

/-! ## concrete instances (Eval.lean mirror) -/

theorem physLen_eq {f : Frame} {L : Nat} (wf : WF f L) (h : f.cols ≠ []) : physLen f = L := by
  unfold physLen
  cases hc : f.cols with
  | nil => exact absurd hc h
  | cons c cs => exact wf.len c (by rw [hc]; exact List.mem_cons_self)

/-- the column `apply0` builds for a constant (Go: `ConstInt{Val, Count: colLen}` etc.) -/
def constCol (f : Frame) (v : Val) : Col := { ty := tyOf v, data := List.replicate (physLen f) v }

/-- the column `apply2` builds (Eval.lean `apply2`) -/
def col2 (f : Frame) (x y : NCol) (fn : Val → Val → Val) : Col :=
  { ty := x.col.ty, data := (List.range (physLen f)).map fun p =>
      if p ∈ f.index then (match x.col.data[p]?, y.col.data[p]? with | some u, some v => fn u v | _, _ => x.col.ty.zero)
      else x.col.ty.zero }

theorem constCol_length (f : Frame) (v : Val) : (constCol f v).data.length = physLen f := by simp [constCol]
theorem applyFn1_length (f : Frame) (L : Nat) (fn : Val → Val) (rty : Ty) (src : Col) :
    (applyFn1 f L fn rty src).data.length = L := by simp [applyFn1]
theorem col2_length (f : Frame) (x y : NCol) (fn : Val → Val → Val) : (col2 f x y fn).data.length = physLen f := by
  simp [col2]

theorem execConst_eq (v : Val) (f : Frame) (he : f.err = none) :
    execConst v f = execLeaf "const" f (constCol f v) := by
  simp only [execConst, he, Option.isSome_none, Bool.false_eq_true, ↓reduceIte, applyConst, execLeaf, constCol]

theorem execUnary_eq (ctx : Ctx) (op src : String) (f : Frame) (he : f.err = none) (s : NCol)
    (hs : f.byName src = some s) (rty : Ty) (fn : Val → Val) (hf : ctx.fn1 s.col.ty op = some (rty, fn)) :
    execUnary ctx op src f = execLeaf "unary" f (applyFn1 f (physLen f) fn rty s.col) := by
  simp only [execUnary, he, Option.isSome_none, Bool.false_eq_true, ↓reduceIte, hs, hf, apply1, execLeaf]

theorem execColCol_eq (ctx : Ctx) (op a b : String) (f : Frame) (he : f.err = none) (x y : NCol)
    (ha : f.byName a = some x) (hb : f.byName b = some y) (hty : x.col.ty = y.col.ty)
    (fn : Val → Val → Val) (hf : ctx.fn2 x.col.ty op = some fn) :
    execColCol ctx op a b f = execLeaf "colcol" f (col2 f x y fn) := by
  have hf' := hf
  rw [hty] at hf'
  simp only [execColCol, he, Option.isSome_none, Bool.false_eq_true, ↓reduceIte, ha, hb, hf', apply2, execLeaf,
    col2, hty, bne_self_eq_false]
  congr 3

/-- **Leaf: constant** (`constExpr.execute`, Eval.lean `execConst`) -/
theorem execConst_plus (v : Val) (f : Frame) (L : Nat) (wf : WF f L) (u : UniqueNames f) (he : f.err = none)
    (hL : physLen f = L) (hlt : f.cols.length < 10000) :
    (execConst v f).2 = tempColName f "const" ∧
    Plus f (execConst v f).1 L (tempColName f "const") (colEntry f.index (tempColName f "const") (constCol f v)) ∧
    (execConst v f).1.cols = f.cols ++ [⟨tempColName f "const", f.cols.length, constCol f v⟩] := by
  rw [execConst_eq v f he]
  exact execLeaf_plus f L wf u he hlt "const" goodPrefix_const _ (by rw [constCol_length, hL])

/-- **Leaf: unary function on a column** (`unaryExpr.execute`, Eval.lean `execUnary`); `s`, `rty`, `fn` are what
    `getFunc` found -/
theorem execUnary_plus (ctx : Ctx) (op src : String) (f : Frame) (L : Nat) (wf : WF f L) (u : UniqueNames f)
    (he : f.err = none) (hL : physLen f = L) (hlt : f.cols.length < 10000) (s : NCol)
    (hs : f.byName src = some s) (rty : Ty) (fn : Val → Val) (hf : ctx.fn1 s.col.ty op = some (rty, fn)) :
    (execUnary ctx op src f).2 = tempColName f "unary" ∧
    Plus f (execUnary ctx op src f).1 L (tempColName f "unary")
      (colEntry f.index (tempColName f "unary") (applyFn1 f (physLen f) fn rty s.col)) ∧
    (execUnary ctx op src f).1.cols =
      f.cols ++ [⟨tempColName f "unary", f.cols.length, applyFn1 f (physLen f) fn rty s.col⟩] := by
  rw [execUnary_eq ctx op src f he s hs rty fn hf]
  exact execLeaf_plus f L wf u he hlt "unary" goodPrefix_unary _ (by rw [applyFn1_length, hL])

/-- **Leaf: column-column function** (`colColExpr.execute`, Eval.lean `execColCol`) -/
theorem execColCol_plus (ctx : Ctx) (op a b : String) (f : Frame) (L : Nat) (wf : WF f L) (u : UniqueNames f)
    (he : f.err = none) (hL : physLen f = L) (hlt : f.cols.length < 10000) (x y : NCol)
    (ha : f.byName a = some x) (hb : f.byName b = some y) (hty : x.col.ty = y.col.ty)
    (fn : Val → Val → Val) (hf : ctx.fn2 x.col.ty op = some fn) :
    (execColCol ctx op a b f).2 = tempColName f "colcol" ∧
    Plus f (execColCol ctx op a b f).1 L (tempColName f "colcol")
      (colEntry f.index (tempColName f "colcol") (col2 f x y fn)) ∧
    (execColCol ctx op a b f).1.cols = f.cols ++ [⟨tempColName f "colcol", f.cols.length, col2 f x y fn⟩] := by
  rw [execColCol_eq ctx op a b f he x y ha hb hty fn hf]
  exact execLeaf_plus f L wf u he hlt "colcol" goodPrefix_colcol _ (by rw [col2_length, hL])


/-! ## 5. corrected mirror of expression.go / `QFrame.Eval` (current Go code) -/

/-- `Ex` with the repaired `colConstExpr`: the node remembers whether the constant was the left operand -/
inductive Ex'
  | col (n : String)
  | const (v : Val)
  | unary (op : String) (src : String)
  | colConst (op : String) (src : String) (v : Val) (constFirst : Bool)
  | colCol (op : String) (a b : String)
  | ex1 (op : String) (e : Ex')
  | ex2 (op : String) (l r : Ex')
  | error

/-- `newExpr` with the repaired `newColConstExpr` (`constFirst := true` exactly when the flipped order matched) -/
def newExpr' (fuel : Nat) (d : Dyn) : Ex' :=
  match fuel with
  | 0 => .error
  | fuel + 1 =>
  match colOf d with
  | some n => .col n
  | none =>
  match constOf d with
  | some v => .const v
  | none =>
  match d with
  | .list [o, a] =>
    (match opOf o, colOf a with
     | some op, some c => .unary op c
     | some op, none => (match newExpr' fuel a with | .error => .error | e => .ex1 op e)
     | none, _ => .error)
  | .list [o, a, b] =>
    match opOf o with
    | none => .error
    | some op =>
      match colOf a, constOf b, colOf b, constOf a with
      | some c, some v, _, _ => .colConst op c v false
      | _, _, some c, some v => .colConst op c v true
      | some c1, _, some c2, _ => .colCol op c1 c2
      | _, _, _, _ =>
        match newExpr' fuel a, newExpr' fuel b with
        | .error, _ => .error
        | _, .error => .error
        | l, r => .ex2 op l r
  | _ => .error

/-- `colConstExpr.execute` (current Go code): operands in the order written; `Drop` is the faithful
    `C08.drop` (with `checkColumns`) -/
def execColConst (ctx : Ctx) (op src : String) (v : Val) (constFirst : Bool) (f : Frame) : Frame × String :=
  if f.err.isSome then (f, "") else
  let rc := execConst v f
  let rn := if constFirst then execColCol ctx op rc.2 src rc.1 else execColCol ctx op src rc.2 rc.1
  (drop rn.1 [rc.2], rn.2)

/-- the list handed to `Drop` by `exprExpr1/2.execute`: the intermediate names not present in the original frame -/
def dropList (f : Frame) (names : List String) : List String := names.filter fun s => !contains f s

/-- the one-name case is Go's `if !qf.Contains(tempColName) { result = result.Drop(tempColName) }` -/
theorem drop_dropList_single (f g : Frame) (c : String) :
    drop g (dropList f [c]) = if !contains f c then drop g [c] else g := by
  cases h : contains f c <;> simp [dropList, h, drop_nil]

def execute' (ctx : Ctx) : Ex' → Frame → Frame × String
  | .col n, f => (f, n)
  | .const v, f => execConst v f
  | .unary op src, f => execUnary ctx op src f
  | .colCol op a b, f => execColCol ctx op a b f
  | .colConst op src v cf, f => execColConst ctx op src v cf f
  | .ex1 op e, f =>
      let rt := execute' ctx e f
      let rn := execUnary ctx op rt.2 rt.1
      -- Go: `if !qf.Contains(tempColName) { result = result.Drop(tempColName) }`; `Drop()` of nothing is the identity
      (drop rn.1 (dropList f [rt.2]), rn.2)
  | .ex2 op l r, f =>
      let x := execute' ctx l f
      let y := execute' ctx r x.1
      let z := execColCol ctx op x.2 y.2 y.1
      (drop z.1 (dropList f [x.2, y.2]), z.2)
  | .error, f => if f.err.isSome then (f, "") else ({ f with err := some .other }, "")

/-- column names an expression refers to, left to right -/
def refs : Ex' → List String
  | .col n => [n]
  | .const _ => []
  | .unary _ s => [s]
  | .colConst _ s _ _ => [s]
  | .colCol _ a b => [a, b]
  | .ex1 _ e => refs e
  | .ex2 _ l r => refs l ++ refs r
  | .error => []

/-- expression.go `missingCol` (current Go code): the column fields of the struct are collected and the first one that is
    not a column of the frame is returned; nested expressions are searched operand by operand, left before right;
    constants and the error expression refer to no column -/
def missing : Ex' → Frame → Option String
  | .col n, f => [n].find? fun c => !contains f c
  | .const _, _ => none
  | .unary _ s, f => [s].find? fun c => !contains f c
  | .colConst _ s _ _, f => [s].find? fun c => !contains f c
  | .colCol _ a b, f => [a, b].find? fun c => !contains f c
  | .ex1 _ e, f => missing e f
  | .ex2 _ l r, f => match missing l f with
    | some c => some c
    | none => missing r f
  | .error, _ => none

/-- `missingCol` returns the first reference, in left-to-right order, that is not a column of the frame -/
theorem missing_eq_find (e : Ex') (f : Frame) : missing e f = (refs e).find? fun c => !contains f c := by
  induction e with
  | ex1 op e ih => simpa [missing, refs] using ih
  | ex2 op l r ihl ihr =>
    simp only [missing, refs, List.find?_append, ihl, ihr]
    cases (refs l).find? fun c => !contains f c <;> rfl
  | _ => rfl

theorem missing_none_iff (e : Ex') (f : Frame) : missing e f = none ↔ ∀ n, n ∈ refs e → (f.byName n).isSome = true := by
  rw [missing_eq_find, List.find?_eq_none]
  constructor
  · intro h n hn
    have := h n hn
    cases hb : f.byName n with
    | none => simp [contains, hb] at this
    | some c => rfl
  · intro h n hn
    simp [contains, h n hn]

/-- `QFrame.Eval` (current Go code): a frame with an error is returned as it is; a column reference that is not a column of
    the frame is an error before anything is executed -/
def eval' (ctx : Ctx) (f : Frame) (dst : String) (e : Ex') : Frame :=
  if f.err.isSome then f else
  if (missing e f).isSome then withErr f .other else
  evalEpilogue f dst (execute' ctx e f).1 (execute' ctx e f).2

/-! ## 6. every expression: `execute'` leaves `f` plus at most one temporary -/

/-- `g` is `f` followed by the columns `mid`, whose names are not names of `f` -/
structure Ext (f g : Frame) (L : Nat) (mid : List Entry) : Prop where
  wf : WF g L
  uniq : UniqueNames g
  err : g.err = none
  index : g.index = f.index
  abs : g.abs = f.abs ++ mid
  fresh : ∀ m, m ∈ mid → f.byName m.1 = none

theorem Ext.refl {f : Frame} {L : Nat} (wf : WF f L) (u : UniqueNames f) (he : f.err = none) : Ext f f L [] :=
  ⟨wf, u, he, rfl, by simp, by simp⟩

theorem Plus.toExt {f g : Frame} {L : Nat} {t : String} {e : Entry} (P : Plus f g L t e) : Ext f g L [e] :=
  ⟨P.wf, P.uniq, P.err, P.index, P.abs, by intro m hm; simp at hm; subst hm; rw [P.name]; exact P.fresh⟩

theorem Ext.toPlus {f g : Frame} {L : Nat} {e : Entry} (E : Ext f g L [e]) : Plus f g L e.1 e :=
  ⟨E.wf, E.uniq, E.err, E.index, E.abs, rfl, E.fresh e (by simp)⟩

theorem Ext.names {f g : Frame} {L : Nat} {mid : List Entry} (E : Ext f g L mid) :
    g.abs.map (·.1) = f.abs.map (·.1) ++ mid.map (·.1) := by
  rw [E.abs, List.map_append]

theorem Ext.cols_length {f g : Frame} {L : Nat} {mid : List Entry} (E : Ext f g L mid) :
    g.cols.length = f.cols.length + mid.length := by
  have := congrArg List.length E.abs
  simpa [Frame.abs] using this

theorem Ext.trans {f g h : Frame} {L : Nat} {m1 m2 : List Entry} (wf : WF f L)
    (E1 : Ext f g L m1) (E2 : Ext g h L m2) : Ext f h L (m1 ++ m2) := by
  refine ⟨E2.wf, E2.uniq, E2.err, E2.index.trans E1.index, by rw [E2.abs, E1.abs, List.append_assoc], ?_⟩
  intro m hm
  rcases List.mem_append.mp hm with h1 | h2
  · exact E1.fresh m h1
  · have := (none_iff E1.wf m.1).mp (E2.fresh m h2)
    rw [E1.names] at this
    exact (none_iff wf m.1).mpr fun hh => this (List.mem_append_left _ hh)

theorem Ext.physLen {f g : Frame} {L : Nat} {mid : List Entry} (E : Ext f g L mid) (hL : physLen f = L) :
    physLen g = L := by
  by_cases hg : g.cols = []
  · have hlen := E.cols_length
    rw [hg] at hlen
    have hf : f.cols = [] := by
      cases hc : f.cols with
      | nil => rfl
      | cons a l => rw [hc] at hlen; simp at hlen; omega
    rw [← hL]
    simp [Fr.physLen, hg, hf]
  · exact physLen_eq E.wf hg

/-- the general Drop step: after one more temporary `t3` on top of `f ++ mid`, dropping exactly the names of `mid` -/
theorem ext_finish {f g2 g3 : Frame} {L : Nat} {mid : List Entry} {t3 : String} {e3 : Entry} (wf : WF f L)
    (E : Ext f g2 L mid) (P3 : Plus g2 g3 L t3 e3) (D : List String)
    (hD1 : ∀ d, d ∈ D → d ∈ mid.map (·.1)) (hD2 : ∀ m, m ∈ mid → m.1 ∈ D) :
    Plus f (drop g3 D) L t3 e3 := by
  have hn3 : t3 ∉ g2.abs.map (·.1) := P3.fresh_names E.wf
  rw [E.names] at hn3
  have h3D : t3 ∉ D := fun h => hn3 (List.mem_append_right _ (hD1 t3 h))
  have hf3 : t3 ∉ f.abs.map (·.1) := fun h => hn3 (List.mem_append_left _ h)
  have hc : checkColumns g3 D = true := by
    rw [checkColumns_iff]
    intro n hn
    rw [contains_iff P3.wf, P3.names, E.names]
    exact List.mem_append_left _ (List.mem_append_right _ (hD1 n hn))
  obtain ⟨d1, d2, d3⟩ := drop_abs g3 L P3.wf P3.uniq D P3.err hc
  have habs : absDrop g3.abs D = f.abs ++ [e3] := by
    rw [P3.abs, E.abs]
    unfold absDrop
    rw [List.filter_append, List.filter_append]
    have h1 : f.abs.filter (fun e => !D.contains e.1) = f.abs := by
      rw [List.filter_eq_self]
      intro e hm
      have : e.1 ∉ D := by
        intro hd
        obtain ⟨m, hm1, hm2⟩ := List.mem_map.mp (hD1 _ hd)
        have := (none_iff wf m.1).mp (E.fresh m hm1)
        rw [hm2] at this
        exact this (List.mem_map.mpr ⟨e, hm, rfl⟩)
      simpa using this
    have h2 : mid.filter (fun e => !D.contains e.1) = [] := by
      rw [List.filter_eq_nil_iff]
      intro m hm
      simpa using hD2 m hm
    rw [h1, h2]
    simp [P3.name, h3D]
  refine ⟨drop_wf g3 L P3.wf D, drop_unique g3 L P3.wf P3.uniq D, d3, ?_, by rw [d1, habs], P3.name,
    (none_iff wf t3).mpr hf3⟩
  rw [d2, habs, P3.index, E.index]; simp

/-! ### success of an `execute` step determines its shape -/

theorem execUnary_ok (ctx : Ctx) (op src : String) (g : Frame) (h : (execUnary ctx op src g).1.err = none) :
    g.err = none ∧ ∃ s rty fn, g.byName src = some s ∧ ctx.fn1 s.col.ty op = some (rty, fn) := by
  cases he : g.err with
  | some x => simp [execUnary, he] at h
  | none =>
    cases hs : g.byName src with
    | none => simp [execUnary, he, hs] at h
    | some s =>
      cases hf : ctx.fn1 s.col.ty op with
      | none => simp [execUnary, he, hs, hf] at h
      | some p => exact ⟨rfl, s, p.1, p.2, rfl, hf⟩

theorem execColCol_ok (ctx : Ctx) (op a b : String) (g : Frame) (h : (execColCol ctx op a b g).1.err = none) :
    g.err = none ∧ ∃ x y fn, g.byName a = some x ∧ g.byName b = some y ∧ x.col.ty = y.col.ty ∧
      ctx.fn2 x.col.ty op = some fn := by
  cases he : g.err with
  | some x => simp [execColCol, he] at h
  | none =>
    cases ha : g.byName a with
    | none => simp [execColCol, he, ha] at h
    | some x =>
      cases hf : ctx.fn2 x.col.ty op with
      | none => simp [execColCol, he, ha, hf] at h
      | some fn =>
        cases hb : g.byName b with
        | none => simp [execColCol, he, ha, hf, apply2, hb] at h
        | some y =>
          by_cases hty : x.col.ty = y.col.ty
          · exact ⟨rfl, x, y, fn, rfl, rfl, hty, hf⟩
          · simp [execColCol, he, ha, hf, apply2, hb, hty] at h

theorem drop_err_none (g : Frame) (D : List String) (h : (drop g D).err = none) : g.err = none := by
  cases he : g.err with
  | none => rfl
  | some x =>
    rw [drop_of_err g D (by simp [he]), he] at h
    cases h

theorem execute'_of_err (ctx : Ctx) (e : Ex') (f : Frame) (h : f.err.isSome = true) : (execute' ctx e f).1 = f := by
  induction e generalizing f with
  | col n => rfl
  | const v => simp [execute', execConst, h]
  | unary op src => simp [execute', execUnary, h]
  | colConst op src v cf => simp [execute', execColConst, h]
  | colCol op a b => simp [execute', execColCol, h]
  | ex1 op e ih =>
    simp only [execute']
    rw [ih f h]
    have : (execUnary ctx op (execute' ctx e f).2 f).1 = f := by simp [execUnary, h]
    rw [this, drop_of_err f _ h]
  | ex2 op l r ihl ihr =>
    simp only [execute']
    rw [ihl f h, ihr f h]
    have : (execColCol ctx op (execute' ctx l f).2 (execute' ctx r f).2 f).1 = f := by simp [execColCol, h]
    rw [this, drop_of_err f _ h]
  | error => simp [execute', h]

theorem dropList_sub {f g : Frame} {L : Nat} {mid : List Entry} (wf : WF f L) (E : Ext f g L mid)
    (names : List String) (hall : ∀ n, n ∈ names → (g.byName n).isSome = true) :
    ∀ d, d ∈ dropList f names → d ∈ mid.map (·.1) := by
  intro d hd
  obtain ⟨h1, h2⟩ := List.mem_filter.mp hd
  have hg := (contains_iff E.wf d).mp (hall d h1)
  rw [E.names] at hg
  rcases List.mem_append.mp hg with h | h
  · have := (contains_iff wf d).mpr h
    simp [contains, this] at h2
  · exact h

theorem dropList_sup {f g : Frame} {L : Nat} {mid : List Entry} (E : Ext f g L mid)
    (names : List String) (hm : ∀ m, m ∈ mid → m.1 ∈ names) :
    ∀ m, m ∈ mid → m.1 ∈ dropList f names := by
  intro m h
  refine List.mem_filter.mpr ⟨hm m h, ?_⟩
  simp [contains, E.fresh m h]

theorem step_unary {f g2 : Frame} {L : Nat} {mid : List Entry} (wf : WF f L) (E : Ext f g2 L mid)
    (hL : physLen g2 = L) (hlen : g2.cols.length < 10000) (ctx : Ctx) (op src : String) (D : List String)
    (hD1 : (g2.byName src).isSome = true → ∀ d, d ∈ D → d ∈ mid.map (·.1)) (hD2 : ∀ m, m ∈ mid → m.1 ∈ D)
    (h : (drop (execUnary ctx op src g2).1 D).err = none) :
    ∃ e3, Plus f (drop (execUnary ctx op src g2).1 D) L (execUnary ctx op src g2).2 e3 := by
  obtain ⟨he, s, rty, fn, hs, hf⟩ := execUnary_ok ctx op src g2 (drop_err_none _ _ h)
  rw [execUnary_eq ctx op src g2 he s hs rty fn hf]
  have A := execLeaf_plus g2 L E.wf E.uniq E.err hlen "unary" goodPrefix_unary
    (applyFn1 g2 (physLen g2) fn rty s.col) (by rw [applyFn1_length, hL])
  have P3 := A.2.1
  rw [← A.1] at P3
  exact ⟨_, ext_finish wf E P3 D (hD1 (by simp [hs])) hD2⟩

theorem step_colcol {f g2 : Frame} {L : Nat} {mid : List Entry} (wf : WF f L) (E : Ext f g2 L mid)
    (hL : physLen g2 = L) (hlen : g2.cols.length < 10000) (ctx : Ctx) (op a b : String) (D : List String)
    (hD1 : (g2.byName a).isSome = true → (g2.byName b).isSome = true → ∀ d, d ∈ D → d ∈ mid.map (·.1))
    (hD2 : ∀ m, m ∈ mid → m.1 ∈ D)
    (h : (drop (execColCol ctx op a b g2).1 D).err = none) :
    ∃ e3, Plus f (drop (execColCol ctx op a b g2).1 D) L (execColCol ctx op a b g2).2 e3 := by
  obtain ⟨he, x, y, fn, ha, hb, hty, hf⟩ := execColCol_ok ctx op a b g2 (drop_err_none _ _ h)
  rw [execColCol_eq ctx op a b g2 he x y ha hb hty fn hf]
  have A := execLeaf_plus g2 L E.wf E.uniq E.err hlen "colcol" goodPrefix_colcol
    (col2 g2 x y fn) (by rw [col2_length, hL])
  have P3 := A.2.1
  rw [← A.1] at P3
  exact ⟨_, ext_finish wf E P3 D (hD1 (by simp [ha]) (by simp [hb])) hD2⟩

theorem single_D1 (ix : List Nat) (t : String) (c : Col) :
    ∀ d, d ∈ [t] → d ∈ [colEntry ix t c].map (·.1) := by
  intro d hd; simp at hd; subst hd; simp [colEntry]

theorem single_D2 (ix : List Nat) (t : String) (c : Col) :
    ∀ m, m ∈ [colEntry ix t c] → m.1 ∈ [t] := by
  intro m hm; simp at hm; subst hm; simp [colEntry]

/-- **Column/constant form** (`colConstExpr.execute`, current Go code, either operand order): on success the
    constant's temp column is gone again; the result is `f` plus exactly the one result column. -/
theorem execColConst_plus (ctx : Ctx) (op src : String) (v : Val) (cf : Bool) (f : Frame) (L : Nat) (wf : WF f L)
    (u : UniqueNames f) (he : f.err = none) (hL : physLen f = L) (hlt : f.cols.length + 2 ≤ 10000)
    (h : (execColConst ctx op src v cf f).1.err = none) :
    ∃ e3, Plus f (execColConst ctx op src v cf f).1 L (execColConst ctx op src v cf f).2 e3 := by
    have hex : execColConst ctx op src v cf f =
        (drop (if cf then execColCol ctx op (execLeaf "const" f (constCol f v)).2 src (execLeaf "const" f (constCol f v)).1
               else execColCol ctx op src (execLeaf "const" f (constCol f v)).2 (execLeaf "const" f (constCol f v)).1).1
            [(execLeaf "const" f (constCol f v)).2],
         (if cf then execColCol ctx op (execLeaf "const" f (constCol f v)).2 src (execLeaf "const" f (constCol f v)).1
               else execColCol ctx op src (execLeaf "const" f (constCol f v)).2 (execLeaf "const" f (constCol f v)).1).2) := by
      simp only [execColConst, he, Option.isSome_none, Bool.false_eq_true, ↓reduceIte, execConst_eq v f he]
    rw [hex] at h ⊢
    have A := execLeaf_plus f L wf u he (by omega) "const" goodPrefix_const (constCol f v)
      (by rw [constCol_length, hL])
    have P1 := A.2.1
    rw [← A.1] at P1
    have hL1 := P1.toExt.physLen hL
    have hlen1 : (execLeaf "const" f (constCol f v)).1.cols.length < 10000 := by rw [P1.cols_length]; omega
    have hD2 := single_D2 f.index (execLeaf "const" f (constCol f v)).2 (constCol f v)
    have hD1 := single_D1 f.index (execLeaf "const" f (constCol f v)).2 (constCol f v)
    cases cf with
    | true =>
      simp only [↓reduceIte] at h ⊢
      obtain ⟨e3, P⟩ := step_colcol wf P1.toExt hL1 hlen1 ctx op _ src _ (fun _ _ => hD1) hD2 h
      exact ⟨e3, P⟩
    | false =>
      simp only [Bool.false_eq_true, ↓reduceIte] at h ⊢
      obtain ⟨e3, P⟩ := step_colcol wf P1.toExt hL1 hlen1 ctx op src _ _ (fun _ _ => hD1) hD2 h
      exact ⟨e3, P⟩

/-- how many free column slots below Go's 10000-name limit the evaluation of `e` asks for -/
def need : Ex' → Nat
  | .col _ => 0
  | .const _ => 1
  | .unary _ _ => 1
  | .colCol _ _ _ => 1
  | .colConst _ _ _ _ => 2
  | .ex1 _ e => max (need e) 2
  | .ex2 _ l r => max (need l) (max (need r + 1) 3)
  | .error => 0

/-- **Every expression.** A successful `execute'` returns `f` itself (column expressions) or `f` plus exactly
    one column — the one it names — appended last; all intermediate temporaries are gone. -/
theorem execute'_shape (ctx : Ctx) (e : Ex') :
    ∀ (f : Frame) (L : Nat), WF f L → UniqueNames f → f.err = none → physLen f = L →
      f.cols.length + need e ≤ 10000 → (execute' ctx e f).1.err = none →
      ∃ mid, Ext f (execute' ctx e f).1 L mid ∧ mid.length ≤ 1 ∧ ∀ m, m ∈ mid → m.1 = (execute' ctx e f).2 := by
  induction e with
  | col n =>
    intro f L wf u he _ _ _
    exact ⟨[], Ext.refl wf u he, by simp, by simp⟩
  | error =>
    intro f L wf u he _ _ h
    simp [execute', he] at h
  | const v =>
    intro f L wf u he hL hlt _
    simp only [need] at hlt
    simp only [execute']
    rw [execConst_eq v f he]
    have A := execLeaf_plus f L wf u he (by omega) "const" goodPrefix_const (constCol f v)
      (by rw [constCol_length, hL])
    have P := A.2.1
    rw [← A.1] at P
    exact ⟨[_], P.toExt, by simp, by intro m hm; simp at hm; subst hm; exact P.name⟩
  | unary op src =>
    intro f L wf u he hL hlt h
    simp only [need] at hlt
    simp only [execute'] at h ⊢
    rw [← drop_nil (execUnary ctx op src f).1] at h ⊢
    obtain ⟨e3, P⟩ := step_unary wf (Ext.refl wf u he) hL (by omega) ctx op src [] (by simp) (by simp) h
    exact ⟨[e3], P.toExt, by simp, by intro m hm; simp at hm; subst hm; exact P.name⟩
  | colCol op a b =>
    intro f L wf u he hL hlt h
    simp only [need] at hlt
    simp only [execute'] at h ⊢
    rw [← drop_nil (execColCol ctx op a b f).1] at h ⊢
    obtain ⟨e3, P⟩ := step_colcol wf (Ext.refl wf u he) hL (by omega) ctx op a b [] (by simp) (by simp) h
    exact ⟨[e3], P.toExt, by simp, by intro m hm; simp at hm; subst hm; exact P.name⟩
  | colConst op src v cf =>
    intro f L wf u he hL hlt h
    simp only [need] at hlt
    obtain ⟨e3, P⟩ := execColConst_plus ctx op src v cf f L wf u he hL hlt h
    exact ⟨[e3], P.toExt, by simp, by intro m hm; simp at hm; subst hm; exact P.name⟩
  | ex1 op e ih =>
    intro f L wf u he hL hlt h
    simp only [need] at hlt
    simp only [execute'] at h ⊢
    have h1 := (execUnary_ok ctx op _ _ (drop_err_none _ _ h)).1
    obtain ⟨mid, E, hlen, hnm⟩ := ih f L wf u he hL (by omega) h1
    have hl : (execute' ctx e f).1.cols.length < 10000 := by rw [E.cols_length]; omega
    obtain ⟨e3, P⟩ := step_unary wf E (E.physLen hL) hl ctx op (execute' ctx e f).2 (dropList f [(execute' ctx e f).2])
      (fun hs => dropList_sub wf E _ (by intro n hn; simp at hn; subst hn; exact hs))
      (dropList_sup E _ (by intro m hm; simp [hnm m hm])) h
    exact ⟨[e3], P.toExt, by simp, by intro m hm; simp at hm; subst hm; exact P.name⟩
  | ex2 op l r ihl ihr =>
    intro f L wf u he hL hlt h
    simp only [need] at hlt
    simp only [execute'] at h ⊢
    have h2 := (execColCol_ok ctx op _ _ _ (drop_err_none _ _ h)).1
    have h1 : (execute' ctx l f).1.err = none := by
      cases hx : (execute' ctx l f).1.err with
      | none => rfl
      | some x =>
        rw [execute'_of_err ctx r _ (by simp [hx]), hx] at h2
        cases h2
    obtain ⟨m1, E1, hlen1, hnm1⟩ := ihl f L wf u he hL (by omega) h1
    obtain ⟨m2, E2, hlen2, hnm2⟩ := ihr (execute' ctx l f).1 L E1.wf E1.uniq E1.err (E1.physLen hL)
      (by rw [E1.cols_length]; omega) h2
    have E := E1.trans wf E2
    have hl : (execute' ctx r (execute' ctx l f).1).1.cols.length < 10000 := by
      rw [E.cols_length, List.length_append]; omega
    obtain ⟨e3, P⟩ := step_colcol wf E (E.physLen hL) hl ctx op (execute' ctx l f).2
      (execute' ctx r (execute' ctx l f).1).2 (dropList f [(execute' ctx l f).2, (execute' ctx r (execute' ctx l f).1).2])
      (fun ha hb => dropList_sub wf E _ (by
        intro n hn
        simp only [List.mem_cons, List.not_mem_nil, or_false] at hn
        rcases hn with hn | hn <;> subst hn
        · exact ha
        · exact hb))
      (dropList_sup E _ (by
        intro m hm
        rcases List.mem_append.mp hm with hm | hm
        · simp [hnm1 m hm]
        · simp [hnm2 m hm])) h
    exact ⟨[e3], P.toExt, by simp, by intro m hm; simp at hm; subst hm; exact P.name⟩

/-! ## 7. `Eval` on every expression, and what the `abs` equation says -/

theorem evalEpilogue_err_none (f g : Frame) (dst c : String) (h : (evalEpilogue f dst g c).err = none) :
    g.err = none := by
  cases he : g.err with
  | none => rfl
  | some x =>
    have hs : g.err.isSome = true := by simp [he]
    have : evalEpilogue f dst g c = g := by
      unfold evalEpilogue
      simp only [copy_of_err g dst c hs, drop_of_err g _ hs, ite_self]
    rw [this, he] at h
    cases h

/-- the epilogue when `execute` returned the frame unchanged and names one of its columns (`colExpr`) -/
theorem evalEpilogue_same (f g : Frame) (L : Nat) (wf : WF f L) (E : Ext f g L []) (c dst : String)
    (hn : checkName dst = true) (h : (evalEpilogue f dst g c).err = none) :
    ∃ x, (evalEpilogue f dst g c).abs = absSet f.abs (f.abs.findIdx? (·.1 == dst)) (dst, x) ∧
      (evalEpilogue f dst g c).index = f.index ∧
      WF (evalEpilogue f dst g c) L ∧ UniqueNames (evalEpilogue f dst g c) := by
  have hga : g.abs = f.abs := by rw [E.abs]; simp
  cases hb : g.byName c with
  | none =>
    exfalso
    have h1 : copy g dst c = withErr g .unknownCol := by simp [copy, E.err, hb]
    have hs : (withErr g Err.unknownCol).err.isSome = true := rfl
    have : evalEpilogue f dst g c = withErr g .unknownCol := by
      unfold evalEpilogue
      simp only [h1, drop_of_err _ _ hs, ite_self]
    rw [this] at h
    cases h
  | some cc =>
    have hcs : (g.byName c).isSome = true := by simp [hb]
    have hcf : contains f c = true := by
      unfold contains
      rw [contains_iff wf, ← hga, ← contains_iff E.wf]
      exact hcs
    have hev : evalEpilogue f dst g c = copy g dst c := by simp [evalEpilogue, hcf]
    rw [hev]
    refine ⟨(entry g.index cc).2, ?_, ?_, copy_wf g L E.wf dst c, copy_unique g L E.wf E.uniq dst c⟩
    · by_cases hd : dst = c
      · subst hd
        rw [copy_self g dst hcs, ← hga, ← pos_eq_findIdx g L E.wf E.uniq dst, hb]
        simp only [Option.map_some, absSet]
        obtain ⟨m1, m2⟩ := E.wf.mapOk dst cc hb
        symm
        apply set_self
        rw [abs_eq, List.getElem?_map, m1]
        simp [entry, m2]
      · rw [copy_abs_pure g L E.wf E.uniq dst c E.err hcs hd hn, hga]
        have hl : absLookup f.abs c = some (entry g.index cc) := by
          rw [← hga, ← lookup_eq_absLookup g L E.wf E.uniq c]
          simp [lookup, hb]
        simp only [absCopy, hl]
    · by_cases hd : dst = c
      · subst hd
        rw [copy_self g dst hcs]; exact E.index
      · rw [(copy_abs g L E.wf dst c cc E.err hb hd hn).2.1]; exact E.index

/-- **Eval, every expression** (corrected mirror `eval'`).  If `Eval(dst, e)` succeeds, its logical content is
    that of `f` with one entry named `dst` written at `dst`'s old position, or appended last when `dst` is new;
    the row index is unchanged; the result is well-formed with unique names. -/
theorem eval'_bookkeeping (ctx : Ctx) (f : Frame) (L : Nat) (wf : WF f L) (u : UniqueNames f) (hL : physLen f = L)
    (dst : String) (e : Ex') (hlt : f.cols.length + need e ≤ 10000) (hn : checkName dst = true)
    (h : (eval' ctx f dst e).err = none) :
    ∃ x, (eval' ctx f dst e).abs = absSet f.abs (f.abs.findIdx? (·.1 == dst)) (dst, x) ∧
      (eval' ctx f dst e).index = f.index ∧
      WF (eval' ctx f dst e) L ∧ UniqueNames (eval' ctx f dst e) := by
  cases he : f.err with
  | some x =>
    exfalso
    have : eval' ctx f dst e = f := by simp [eval', he]
    rw [this, he] at h
    cases h
  | none =>
    have hm : (missing e f).isSome = false := by
      cases hm : (missing e f).isSome with
      | false => rfl
      | true =>
        exfalso
        have : eval' ctx f dst e = withErr f .other := by simp [eval', he, hm]
        rw [this] at h
        cases h
    have hev : eval' ctx f dst e = evalEpilogue f dst (execute' ctx e f).1 (execute' ctx e f).2 := by
      simp [eval', he, hm]
    rw [hev] at h ⊢
    obtain ⟨mid, E, hlen, hnm⟩ := execute'_shape ctx e f L wf u he hL hlt (evalEpilogue_err_none _ _ _ _ h)
    match mid, E, hlen, hnm with
    | [], E, _, _ => exact evalEpilogue_same f _ L wf E _ dst hn h
    | [e1], E, _, hnm =>
      have P := E.toPlus
      rw [hnm e1 (by simp)] at P
      obtain ⟨a, b, _, c, d⟩ := evalEpilogue_plus f _ L wf _ e1 P dst (fun _ => hn)
      exact ⟨e1.2, a, b, c, d⟩
    | _ :: _ :: _, _, hlen, _ => simp at hlen

/-! ### reading the `abs` equation -/

theorem absSet_old (l : List Entry) (dst : String) (x : Ty × List (Option Val)) (p : Nat)
    (h : l.findIdx? (·.1 == dst) = some p) :
    absSet l (l.findIdx? (·.1 == dst)) (dst, x) = l.set p (dst, x) ∧ p < l.length ∧
      (l.map (·.1))[p]? = some dst := by
  rw [h]
  rw [List.findIdx?_eq_some_iff_getElem] at h
  obtain ⟨hp, h1, _⟩ := h
  refine ⟨rfl, hp, ?_⟩
  rw [List.getElem?_map, List.getElem?_eq_getElem hp]
  simpa using h1

theorem absSet_new (l : List Entry) (dst : String) (x : Ty × List (Option Val))
    (h : l.findIdx? (·.1 == dst) = none) :
    absSet l (l.findIdx? (·.1 == dst)) (dst, x) = l ++ [(dst, x)] ∧ dst ∉ l.map (·.1) := by
  rw [h]
  refine ⟨rfl, ?_⟩
  rw [List.findIdx?_eq_none_iff] at h
  intro hm
  obtain ⟨y, hy, hyn⟩ := List.mem_map.mp hm
  have := h y hy
  simp [hyn] at this

/-- the column names afterwards: the old ones in the old order, plus `dst` last if it is new -/
theorem absSet_names (l : List Entry) (dst : String) (x : Ty × List (Option Val)) :
    (absSet l (l.findIdx? (·.1 == dst)) (dst, x)).map (·.1) =
      if dst ∈ l.map (·.1) then l.map (·.1) else l.map (·.1) ++ [dst] := by
  cases hp : l.findIdx? (·.1 == dst) with
  | some p =>
    obtain ⟨_, h2, h3⟩ := absSet_old l dst x p hp
    have hm : dst ∈ l.map (·.1) := List.mem_of_getElem? h3
    simp only [absSet, hm, ↓reduceIte, List.map_set]
    exact set_self _ _ _ h3
  | none =>
    obtain ⟨_, h2⟩ := absSet_new l dst x hp
    simp [absSet, h2]

/-- every column other than `dst` keeps its position, name, type and cells -/
theorem absSet_other (l : List Entry) (dst : String) (x : Ty × List (Option Val)) (i : Nat) (y : Entry)
    (hy : l[i]? = some y) (hne : y.1 ≠ dst) :
    (absSet l (l.findIdx? (·.1 == dst)) (dst, x))[i]? = some y := by
  cases hp : l.findIdx? (·.1 == dst) with
  | some p =>
    obtain ⟨_, h2, h3⟩ := absSet_old l dst x p hp
    simp only [absSet]
    rw [List.getElem?_set]
    have : p ≠ i := by
      intro hpi
      subst hpi
      rw [List.getElem?_map, hy] at h3
      simp at h3
      exact hne h3
    simp [this, hy]
  | none =>
    simp only [absSet]
    have hi : i < l.length := by
      rcases Nat.lt_or_ge i l.length with h | h
      · exact h
      · rw [List.getElem?_eq_none h] at hy; cases hy
    rw [List.getElem?_append_left hi]; exact hy

/-- `dst` holds the new entry -/
theorem absSet_dst (l : List Entry) (dst : String) (x : Ty × List (Option Val)) :
    absLookup (absSet l (l.findIdx? (·.1 == dst)) (dst, x)) dst = some (dst, x) := by
  unfold absLookup
  cases hp : l.findIdx? (·.1 == dst) with
  | none =>
    obtain ⟨_, h2⟩ := absSet_new l dst x hp
    simp only [absSet]
    rw [List.find?_append]
    have : l.find? (fun e => e.1 == dst) = none := by
      rw [List.find?_eq_none]
      intro e he h
      exact h2 (List.mem_map.mpr ⟨e, he, by simpa using h⟩)
    rw [this]; simp
  | some p =>
    simp only [absSet]
    rw [List.findIdx?_eq_some_iff_getElem] at hp
    obtain ⟨hpl, _, hlt⟩ := hp
    rw [List.find?_eq_some_iff_getElem]
    refine ⟨by simp, p, by simpa using hpl, by simp, ?_⟩
    intro j hj
    have := hlt j hj
    rw [List.getElem_set_ne (by omega)]
    simpa using this

/-- no trace of a temporary: a name that was not a column of `f` can only be `dst` -/
theorem absSet_no_trace (l : List Entry) (dst t : String) (x : Ty × List (Option Val)) (ht : t ∉ l.map (·.1))
    (hm : t ∈ (absSet l (l.findIdx? (·.1 == dst)) (dst, x)).map (·.1)) : t = dst := by
  rw [absSet_names] at hm
  split at hm
  · exact absurd hm ht
  · rcases List.mem_append.mp hm with h | h
    · exact absurd h ht
    · simpa using h

/-! ## 8. concrete instance: the hypotheses are satisfiable, the mirror computes

`C08.exF`: columns `a` (int 10,11,12) and `b` (bool), physical length 3, rows in the order 2,0,1. -/

/-- `10 - a`: constant first (the repaired `constFirst` path) -/
def exE : Ex' := newExpr' 10 (.list [.str "-", .const (.int 10), .col "a"])
/-- `(a + 10) + (a - a)`: nested, two intermediate temporaries -/
def exN : Ex' := newExpr' 10 (.list [.str "+", .list [.str "+", .col "a", .const (.int 10)],
  .list [.str "-", .col "a", .col "a"]])
def exC : Col := { ty := .int, data := [.int 7, .int 8, .int 9] }

example : exE = .colConst "-" "a" (.int 10) true := rfl

#eval showF (eval' intCtx exF "y" exE)                 -- y = 10 - a  (Go, repaired)
#eval showF (eval' intCtx exF "a" exE)                 -- dst existing: stays in place
#eval showF (eval' intCtx exF "colcol-temp-0" (.colCol "+" "a" "a"))   -- dst = temp name: kept (repaired)
#eval showF (eval' intCtx exF "y" exN)

/-- hypotheses of `tempColName_fresh` -/
example : WF exF 3 ∧ exF.cols.length < 10000 := ⟨exF_wf, by decide⟩
example : tempColName exF "const" = "const-temp-0" := by decide +kernel
/-- hypotheses of `execLeaf_plus` / `colConst_plus` -/
example : WF exF 3 ∧ UniqueNames exF ∧ exF.err = none ∧ exF.cols.length + 1 < 10000 ∧ GoodPrefix "const" ∧
    exC.data.length = 3 := ⟨exF_wf, exF_unique, rfl, by decide, goodPrefix_const, rfl⟩
example : (execLeaf "const" exF exC).1.abs.map (·.1) = ["a", "b", "const-temp-0"] := by decide +kernel
example : (drop (execLeaf "colcol" (execLeaf "const" exF exC).1 exC).1 [(execLeaf "const" exF exC).2]).abs.map (·.1) =
    ["a", "b", "colcol-temp-0"] := by decide +kernel
/-- hypotheses of `execConst_plus`, `execUnary_plus` (with a context that knows `neg`), `execColCol_plus` -/
example : physLen exF = 3 := by decide +kernel
def negFn : Val → Val
  | .int x => .int (-x)
  | _ => .int 0
def negCtx : Ctx :=
  { fn1 := fun t op => if t == .int && op == "neg" then some (.int, negFn) else none, fn2 := fun _ _ => none }
example : exF.byName "a" = some exA ∧ negCtx.fn1 exA.col.ty "neg" = some (.int, negFn) :=
  ⟨by decide +kernel, by simp [negCtx, exA]⟩
example : (execUnary negCtx "neg" "a" exF).1.abs.map (·.1) = ["a", "b", "unary-temp-0"] := by decide +kernel
example : exF.byName "a" = some exA ∧ exA.col.ty = exA.col.ty ∧ (intCtx.fn2 exA.col.ty "+").isSome = true :=
  ⟨by decide +kernel, rfl, by decide +kernel⟩
/-- hypotheses of `execColConst_plus` -/
example : exF.cols.length + 2 ≤ 10000 ∧ (execColConst intCtx "-" "a" (.int 10) true exF).1.err = none :=
  ⟨by decide, by decide +kernel⟩
/-- hypotheses of `evalEpilogue_plus`: a `Plus` instance comes from `execLeaf_plus`; `dst` legal -/
example : Plus exF (execLeaf "const" exF exC).1 3 (tempColName exF "const")
    (colEntry exF.index (tempColName exF "const") exC) ∧ checkName "y" = true :=
  ⟨(execLeaf_plus exF 3 exF_wf exF_unique rfl (by decide) "const" goodPrefix_const exC rfl).2.1, by decide +kernel⟩
/-- hypotheses of `execute'_shape` / `eval'_bookkeeping` -/
example : exF.cols.length + need exN ≤ 10000 ∧ (execute' intCtx exN exF).1.err = none ∧
    (eval' intCtx exF "y" exN).err = none := ⟨by decide +kernel, by decide +kernel, by decide +kernel⟩
example : exF.cols.length + need exE ≤ 10000 ∧ (eval' intCtx exF "y" exE).err = none :=
  ⟨by decide +kernel, by decide +kernel⟩
/-- and the mirror computes what the theorems say: new `dst` appended, existing `dst` in place, no temporaries -/
example : (eval' intCtx exF "y" exE).abs =
    [("a", .int, [some (.int 12), some (.int 10), some (.int 11)]),
     ("b", .bool, [some (.bool true), some (.bool true), some (.bool false)]),
     ("y", .int, [some (.int (-2)), some (.int 0), some (.int (-1))])] := by decide +kernel
example : (eval' intCtx exF "a" exE).abs =
    [("a", .int, [some (.int (-2)), some (.int 0), some (.int (-1))]),
     ("b", .bool, [some (.bool true), some (.bool true), some (.bool false)])] := by decide +kernel
example : (eval' intCtx exF "y" exN).abs.map (·.1) = ["a", "b", "y"] := by decide +kernel
example : (eval' intCtx exF "colcol-temp-0" (.colCol "+" "a" "a")).abs.map (·.1) = ["a", "b", "colcol-temp-0"] := by
  decide +kernel

#print axioms tempColName_fresh
#print axioms execLeaf_plus
#print axioms execConst_plus
#print axioms execUnary_plus
#print axioms execColCol_plus
#print axioms colConst_plus
#print axioms execColConst_plus
#print axioms evalEpilogue_plus
#print axioms evalEpilogue_same
#print axioms execute'_shape
#print axioms eval'_bookkeeping
#print axioms absSet_names
#print axioms absSet_other
#print axioms absSet_dst
#print axioms absSet_no_trace

end QF.Props.C07Eval
