import QF.Gen.SorterFns
import QF.Core.SLExpr
/-!
# C03 — the sorter in today's source: canonical terms (tie T1)

`QF.Gen.sorterFns` (regenerated on every run by go/cmd/extract/sortast.go) holds the bodies of `Sorter.Sort` and of every
function it reaches (`Len`, `quickSort`, `maxDepth`, `heapSort`, `doPivot`, `Less`, `Swap`, `insertionSort`, `siftDown`,
`medianOfThree`) as terms of the imperative language `QF.SL` (QF/Core/SLExpr.lean). This file fixes the canonical terms
(`canonFns`: today's translation; variables numbered by declaration order, functions by the order in which the walk from
`Sort` meets them; the loops have names so that the lemmas about them can be stated) and proves by finite `decide` that
today's extraction is complete (`gen_sorter_no_opaque`) and equal to them (`gen_sorter_canon`). The meaning of the
canonical terms is computed in C03SorterFns / C03SorterPivot / C03SorterGen.
-/
namespace QF.Props.C03SorterGen
open QF QF.SL

/-! ## the numbers of the functions -/
abbrev fSort : Nat := 0
abbrev fLen : Nat := 1
abbrev fQuickSort : Nat := 2
abbrev fMaxDepth : Nat := 3
abbrev fHeapSort : Nat := 4
abbrev fDoPivot : Nat := 5
abbrev fLess : Nat := 6
abbrev fSwap : Nat := 7
abbrev fInsertionSort : Nat := 8
abbrev fSiftDown : Nat := 9
abbrev fMedianOfThree : Nat := 10

/-! ## shorthands (all reducible: the terms below ARE terms of `SL.E` / `SL.S`) -/
abbrev v (n : Nat) : E := E.var n
abbrev lit (n : Int) : E := E.int n
abbrev add (x y : E) : E := E.bin BOp.add x y
abbrev sub (x y : E) : E := E.bin BOp.sub x y
abbrev mul (x y : E) : E := E.bin BOp.mul x y
abbrev quo (x y : E) : E := E.bin BOp.div x y
abbrev lt (x y : E) : E := E.bin (BOp.cmp COp.lt) x y
abbrev gt (x y : E) : E := E.bin (BOp.cmp COp.gt) x y
abbrev ge (x y : E) : E := E.bin (BOp.cmp COp.ge) x y
abbrev not' (x : E) : E := E.un UOp.not x
/-- `data.Less(i, j)` -/
abbrev less (i j : E) : E := E.call3 fLess (v 0) i j
/-- `data.Swap(i, j)` -/
abbrev swap (i j : E) : S := S.expr (E.call3 fSwap (v 0) i j)
/-- `medianOfThree(data, m1, m0, m2)` -/
abbrev median (m1 m0 m2 : E) : S := S.expr (E.call4 fMedianOfThree (v 0) m1 m0 m2)
abbrev nop : S := S.block []

/-! ## `Sort`, `Len`, `Swap`, `Less`, `maxDepth` -/

/-- `n := s.Len(); quickSort(s, 0, n, maxDepth(n))` -/
def fnSort : Fn := { params := 1, vars := 2, body := S.block [
  S.define 1 (E.call1 fLen (v 0)),
  S.expr (E.call4 fQuickSort (v 0) (lit 0) (v 1) (E.call1 fMaxDepth (v 1)))] }

def fnLen : Fn := { params := 1, vars := 1, body := S.block [S.ret (E.un UOp.lenIx (v 0))] }

/-- `s.index[i], s.index[j] = s.index[j], s.index[i]` -/
def fnSwap : Fn := { params := 3, vars := 3, body := S.block [
  S.setIx2 (v 0) (v 1) (v 2) (E.bin BOp.ixAt (v 0) (v 2)) (E.bin BOp.ixAt (v 0) (v 1))] }

/-- `r := s.Compare(di, dj); if r == column.LessThan { return true }; if r == column.GreaterThan { return false }` -/
def lessBody : S := S.block [
  S.define 6 (E.compare (v 5) (v 3) (v 4)),
  S.ite (E.un (UOp.resIs CRes.lessThan) (v 6)) (S.block [S.ret (E.bool true)]) nop,
  S.ite (E.un (UOp.resIs CRes.greaterThan) (v 6)) (S.block [S.ret (E.bool false)]) nop]

def fnLess : Fn := { params := 3, vars := 7, body := S.block [
  S.define 3 (E.bin BOp.ixAt (v 0) (v 1)),
  S.define 4 (E.bin BOp.ixAt (v 0) (v 2)),
  S.rangeCols (v 0) 5 lessBody,
  S.ret (E.bool false)] }

/-- `for i := n; i > 0; i >>= 1 { depth++ }` -/
def mdLoop : S := S.loop (gt (v 2) (lit 0)) (S.block [S.assign 2 (E.bin BOp.shr (v 2) (lit 1))]) (S.block [S.incr 1])

def fnMaxDepth : Fn := { params := 1, vars := 3, body := S.block [
  S.define 1 (lit 0),
  S.define 2 (v 0),
  mdLoop,
  S.ret (mul (v 1) (lit 2))] }

/-! ## `insertionSort`, `siftDown`, `heapSort`, `medianOfThree` -/

/-- `for j := i; j > a && data.Less(j, j-1); j-- { data.Swap(j, j-1) }` (after `j := i`) -/
def insInnerLoop : S :=
  S.loop (E.and (gt (v 4) (v 1)) (less (v 4) (sub (v 4) (lit 1)))) (S.block [S.decr 4]) (S.block [swap (v 4) (sub (v 4) (lit 1))])

/-- `for i := a + 1; i < b; i++ { … }` (after `i := a + 1`) -/
def insOuterLoop : S := S.loop (lt (v 3) (v 2)) (S.block [S.incr 3]) (S.block [S.define 4 (v 3), insInnerLoop])

def fnInsertionSort : Fn := { params := 3, vars := 5, body := S.block [S.define 3 (add (v 1) (lit 1)), insOuterLoop] }

/-- the body of the `for { … }` of `siftDown` -/
def siftBody : S := S.block [
  S.define 5 (add (mul (lit 2) (v 4)) (lit 1)),
  S.ite (ge (v 5) (v 2)) (S.block [S.brk]) nop,
  S.ite (E.and (lt (add (v 5) (lit 1)) (v 2)) (less (add (v 3) (v 5)) (add (add (v 3) (v 5)) (lit 1)))) (S.block [S.incr 5]) nop,
  S.ite (not' (less (add (v 3) (v 4)) (add (v 3) (v 5)))) (S.block [S.ret0]) nop,
  swap (add (v 3) (v 4)) (add (v 3) (v 5)),
  S.assign 4 (v 5)]

def siftLoop : S := S.loop (E.bool true) nop siftBody

def fnSiftDown : Fn := { params := 4, vars := 6, body := S.block [S.define 4 (v 1), siftLoop] }

/-- `for i := (hi - 1) / 2; i >= 0; i-- { siftDown(data, i, hi, first) }` -/
def hsBuildLoop : S :=
  S.loop (ge (v 6) (lit 0)) (S.block [S.decr 6]) (S.block [S.expr (E.call4 fSiftDown (v 0) (v 6) (v 5) (v 3))])

/-- `for i := hi - 1; i >= 0; i-- { data.Swap(first, first+i); siftDown(data, lo, i, first) }` -/
def hsPopLoop : S :=
  S.loop (ge (v 7) (lit 0)) (S.block [S.decr 7])
    (S.block [swap (v 3) (add (v 3) (v 7)), S.expr (E.call4 fSiftDown (v 0) (v 4) (v 7) (v 3))])

def fnHeapSort : Fn := { params := 3, vars := 8, body := S.block [
  S.define 3 (v 1),
  S.define 4 (lit 0),
  S.define 5 (sub (v 2) (v 1)),
  S.define 6 (quo (sub (v 5) (lit 1)) (lit 2)),
  hsBuildLoop,
  S.define 7 (sub (v 5) (lit 1)),
  hsPopLoop] }

def fnMedianOfThree : Fn := { params := 4, vars := 4, body := S.block [
  S.ite (less (v 1) (v 2)) (S.block [swap (v 1) (v 2)]) nop,
  S.ite (less (v 3) (v 1))
    (S.block [swap (v 3) (v 1), S.ite (less (v 1) (v 2)) (S.block [swap (v 1) (v 2)]) nop])
    nop] }

/-! ## `doPivot`

variables: 0 data, 1 lo, 2 hi, 3 m, 4 s, 5 pivot, 6 a, 7 c, 8 b, 9 protect, 10 dups -/

/-- Tukey's ninther -/
def dpNinther : S := S.ite (gt (sub (v 2) (v 1)) (lit 40))
  (S.block [
    S.define 4 (quo (sub (v 2) (v 1)) (lit 8)),
    median (v 1) (add (v 1) (v 4)) (add (v 1) (mul (lit 2) (v 4))),
    median (v 3) (sub (v 3) (v 4)) (add (v 3) (v 4)),
    median (sub (v 2) (lit 1)) (sub (sub (v 2) (lit 1)) (v 4)) (sub (sub (v 2) (lit 1)) (mul (lit 2) (v 4)))])
  nop

/-- `for ; a < c && data.Less(a, pivot); a++ {}` -/
def dpScanA : S := S.loop (E.and (lt (v 6) (v 7)) (less (v 6) (v 5))) (S.block [S.incr 6]) nop
/-- `for ; b < c && !data.Less(pivot, b); b++ {}` -/
def dpScanB : S := S.loop (E.and (lt (v 8) (v 7)) (not' (less (v 5) (v 8)))) (S.block [S.incr 8]) nop
/-- `for ; b < c && data.Less(pivot, c-1); c-- {}` -/
def dpScanC : S := S.loop (E.and (lt (v 8) (v 7)) (less (v 5) (sub (v 7) (lit 1)))) (S.block [S.decr 7]) nop

/-- the partition loop -/
def dpPartLoop : S := S.loop (E.bool true) nop (S.block [
  dpScanB,
  dpScanC,
  S.ite (ge (v 8) (v 7)) (S.block [S.brk]) nop,
  swap (v 8) (sub (v 7) (lit 1)),
  S.incr 8,
  S.decr 7])

/-- "Lets test some points for equality to pivot" -/
def dpDups : S := S.ite (E.and (not' (v 9)) (lt (sub (v 2) (v 7)) (quo (sub (v 2) (v 1)) (lit 4))))
  (S.block [
    S.define 10 (lit 0),
    S.ite (not' (less (v 5) (sub (v 2) (lit 1)))) (S.block [swap (v 7) (sub (v 2) (lit 1)), S.incr 7, S.incr 10]) nop,
    S.ite (not' (less (sub (v 8) (lit 1)) (v 5))) (S.block [S.decr 8, S.incr 10]) nop,
    S.ite (not' (less (v 3) (v 5))) (S.block [swap (v 3) (sub (v 8) (lit 1)), S.decr 8, S.incr 10]) nop,
    S.assign 9 (gt (v 10) (lit 1))])
  nop

/-- `for ; a < b && !data.Less(b-1, pivot); b-- {}` -/
def dpScanB2 : S := S.loop (E.and (lt (v 6) (v 8)) (not' (less (sub (v 8) (lit 1)) (v 5)))) (S.block [S.decr 8]) nop
/-- `for ; a < b && data.Less(a, pivot); a++ {}` -/
def dpScanA2 : S := S.loop (E.and (lt (v 6) (v 8)) (less (v 6) (v 5))) (S.block [S.incr 6]) nop

/-- "Protect against a lot of duplicates" -/
def dpProtLoop : S := S.loop (E.bool true) nop (S.block [
  dpScanB2,
  dpScanA2,
  S.ite (ge (v 6) (v 8)) (S.block [S.brk]) nop,
  swap (v 6) (sub (v 8) (lit 1)),
  S.incr 6,
  S.decr 8])

def fnDoPivot : Fn := { params := 3, vars := 11, body := S.block [
  S.define 3 (E.un UOp.toInt (E.bin BOp.shr (E.un UOp.toUint (add (v 1) (v 2))) (lit 1))),
  dpNinther,
  median (v 1) (v 3) (sub (v 2) (lit 1)),
  S.define 5 (v 1),
  S.define 6 (add (v 1) (lit 1)),
  S.define 7 (sub (v 2) (lit 1)),
  dpScanA,
  S.define 8 (v 6),
  dpPartLoop,
  S.define 9 (lt (sub (v 2) (v 7)) (lit 5)),
  dpDups,
  S.ite (v 9) (S.block [dpProtLoop]) nop,
  swap (v 5) (sub (v 8) (lit 1)),
  S.ret2 (sub (v 8) (lit 1)) (v 7)] }

/-! ## `quickSort`

variables: 0 data, 1 a, 2 b, 3 maxDepth, 4 mlo, 5 mhi, 6 i -/

def qsLoopBody : S := S.block [
  S.ite (E.bin (BOp.cmp COp.eq) (v 3) (lit 0)) (S.block [S.expr (E.call3 fHeapSort (v 0) (v 1) (v 2)), S.ret0]) nop,
  S.decr 3,
  S.define2 4 5 (E.call3 fDoPivot (v 0) (v 1) (v 2)),
  S.ite (lt (sub (v 4) (v 1)) (sub (v 2) (v 5)))
    (S.block [S.expr (E.call4 fQuickSort (v 0) (v 1) (v 4) (v 3)), S.assign 1 (v 5)])
    (S.block [S.expr (E.call4 fQuickSort (v 0) (v 5) (v 2) (v 3)), S.assign 2 (v 4)])]

/-- `for b-a > 12 { … }` -/
def qsLoop : S := S.loop (gt (sub (v 2) (v 1)) (lit 12)) nop qsLoopBody

/-- `for i := a + 6; i < b; i++ { if data.Less(i, i-6) { data.Swap(i, i-6) } }` (after `i := a + 6`) -/
def qsShellLoop : S := S.loop (lt (v 6) (v 2)) (S.block [S.incr 6])
  (S.block [S.ite (less (v 6) (sub (v 6) (lit 6))) (S.block [swap (v 6) (sub (v 6) (lit 6))]) nop])

def qsTail : S := S.ite (gt (sub (v 2) (v 1)) (lit 1))
  (S.block [S.define 6 (add (v 1) (lit 6)), qsShellLoop, S.expr (E.call3 fInsertionSort (v 0) (v 1) (v 2))])
  nop

def fnQuickSort : Fn := { params := 4, vars := 7, body := S.block [qsLoop, qsTail] }

/-- today's sorter, by function number -/
def canonFns : Prog :=
  [fnSort, fnLen, fnQuickSort, fnMaxDepth, fnHeapSort, fnDoPivot, fnLess, fnSwap, fnInsertionSort, fnSiftDown, fnMedianOfThree]

/-- Nothing in today's sorter is outside the language. -/
theorem gen_sorter_no_opaque : Gen.sorterFns.all (fun fn => !fn.body.hasOpaque) = true := by decide

/-- Today's extraction IS the canonical program. -/
theorem gen_sorter_canon : Gen.sorterFns = canonFns := by decide

end QF.Props.C03SorterGen
