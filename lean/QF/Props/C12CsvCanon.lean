import QF.Gen.CsvFns
import QF.Core.CRExpr
/-!
# C12 / C15 — the CSV reader in today's source: canonical terms (tie T1)

`QF.Gen.csvFns` (regenerated on every run by go/cmd/extract/csvast.go) holds the bodies of `bufferedReader.more`,
`bufferedReader.reset`, `fields.reset`, `fields.nextUnquotedField`, `nextQuotedField`, `fields.next`, `Reader.Next`,
`Reader.Err`, `Reader.Read`, `eofReaderWrapper.Read` and `NewReader` of /repo/internal/fastcsv/csv.go as terms of the
imperative language `QF.CR` (QF/Core/CRExpr.lean). This file fixes the canonical terms (`canonFns`: today's translation,
variables numbered by declaration order; the loop bodies have names so that the lemmas about them can be stated) and
proves by finite `decide` that today's extraction is complete (`gen_csv_no_opaque`) and equal to them (`gen_csv_canon`).
The meaning of the canonical terms is computed in C12CsvFns / C12CsvGen.
-/
namespace QF.Props.C12CsvGen
open QF QF.CR

/-! ## `bufferedReader` -/

/-- `if len(b.data) == cap(b.data) { temp := make([]byte, len(b.data), 2*len(b.data)+1); copy(temp, b.data); b.data = temp }` -/
def growPart : S :=
  S.ite (E.cmp COp.eq (E.len (E.fld Fld.data)) (E.cap (E.fld Fld.data)))
    (S.block [
      S.assign (L.var 0) (E.make (E.len (E.fld Fld.data)) (E.add (E.mul (E.int 2) (E.len (E.fld Fld.data))) (E.int 1))),
      S.copyVar 0 (E.fld Fld.data),
      S.assign (L.fld Fld.data) (E.var 0)])
    (S.block [])

/-- `more`: grow, `n, err := b.r.Read(b.data[len(b.data):cap(b.data)])`, `b.data = b.data[:len(b.data)+n]`, `return err` -/
def fnMore : Fn := { params := 0, body := S.block [
  growPart,
  S.call [L.var 1, L.var 2] FnId.wrapRead [E.slice (E.fld Fld.data) (E.len (E.fld Fld.data)) (E.cap (E.fld Fld.data))],
  S.assign (L.fld Fld.data) (E.sliceTo (E.fld Fld.data) (E.add (E.len (E.fld Fld.data)) (E.var 1))),
  S.ret [E.var 2]] }

/-- `reset`: `copy(b.data, b.data[b.cursor:])`, `b.data = b.data[:len(b.data)-b.cursor]`, `b.cursor = 0` -/
def fnBufReset : Fn := { params := 0, body := S.block [
  S.copy (E.fld Fld.data) (E.sliceFrom (E.fld Fld.data) (E.fld Fld.cursor)),
  S.assign (L.fld Fld.data) (E.sliceTo (E.fld Fld.data) (E.sub (E.len (E.fld Fld.data)) (E.fld Fld.cursor))),
  S.assign (L.fld Fld.cursor) (E.int 0)] }

/-- `eofReaderWrapper.Read` -/
def fnWrapRead : Fn := { params := 1, body := S.block [
  S.ite (E.fld Fld.isEof) (S.block [S.ret [E.int 0, E.eof]]) (S.block []),
  S.rawRead (L.var 1) (L.var 2) (E.var 0),
  S.ite (E.and (E.cmp COp.eq (E.var 2) E.eof) (E.cmp COp.gt (E.var 1) (E.int 0)))
    (S.block [S.assign (L.var 2) E.nilErr, S.assign (L.fld Fld.isEof) (E.bool true)]) (S.block []),
  S.ret [E.var 1, E.var 2]] }

/-! ## `fields` -/

def fnFsReset : Fn := { params := 0, body := S.block [
  S.call [] FnId.bufReset [],
  S.assign (L.fld Fld.field) E.nilBytes,
  S.assign (L.fld Fld.fieldStart) (E.int 0),
  S.assign (L.fld Fld.hitEOL) (E.bool false)] }

/-- `if err := fs.buffer.more(); err != nil { if err == io.EOF { <the rest of the input is the field> return true }; fs.err = err; return false }` -/
def unqMore : S :=
  S.block [
    S.call [L.var 1] FnId.more [],
    S.ite (E.cmp COp.ne (E.var 1) E.nilErr)
      (S.block [
        S.ite (E.cmp COp.eq (E.var 1) E.eof)
          (S.block [
            S.assign (L.var 2) (E.fld Fld.fieldStart),
            S.assign (L.fld Fld.field) (E.slice (E.fld Fld.data) (E.var 2) (E.var 0)),
            S.assign (L.fld Fld.hitEOL) (E.bool true),
            S.assign (L.fld Fld.err) (E.var 1),
            S.ret [E.bool true]])
          (S.block []),
        S.assign (L.fld Fld.err) (E.var 1),
        S.ret [E.bool false]])
      (S.block [])]

/-- `switch ch { case fs.delimiter: …; case '\n': …; default: continue }` -/
def unqSwitch : S :=
  S.ite (E.cmp COp.eq (E.var 3) (E.fld Fld.delim))
    (S.block [
      S.assign (L.fld Fld.field) (E.slice (E.fld Fld.data) (E.fld Fld.fieldStart) (E.sub (E.var 0) (E.int 1))),
      S.assign (L.fld Fld.fieldStart) (E.var 0),
      S.ret [E.bool true]])
    (S.ite (E.cmp COp.eq (E.var 3) (E.byte 10))
      (S.block [
        S.assign (L.fld Fld.field) (E.slice (E.fld Fld.data) (E.fld Fld.fieldStart) (E.sub (E.var 0) (E.int 1))),
        S.assign (L.fld Fld.hitEOL) (E.bool true),
        S.ret [E.bool true]])
      (S.block [S.cont]))

/-- `ch := fs.buffer.data[cursor]; cursor++; fs.buffer.cursor = cursor; switch ch { … }` -/
def unqTail : List S := [
  S.assign (L.var 3) (E.at (E.fld Fld.data) (E.var 0)),
  S.incr (L.var 0),
  S.assign (L.fld Fld.cursor) (E.var 0),
  unqSwitch]

/-- the body of the loop of `nextUnquotedField` -/
abbrev unqBody : S := S.block (S.ite (E.cmp COp.ge (E.var 0) (E.len (E.fld Fld.data))) unqMore (S.block []) :: unqTail)

def fnUnquoted : Fn := { params := 0, body := S.block [
  S.assign (L.var 0) (E.fld Fld.cursor),
  S.loop unqBody] }

/-- `quoteCount%2 != 0` -/
def qcOdd : E := E.cmp COp.ne (E.rem (E.var 3) (E.int 2)) (E.int 0)

/-- `buffer.data[start:writeCursor]` -/
def qField : E := E.slice (E.fld Fld.data) (E.var 1) (E.var 2)

/-- `err == io.EOF && quoteCount%2 != 0 && buffer.cursor < len(buffer.data) && buffer.data[buffer.cursor] == delimiter` -/
def eofDelim : E :=
  E.and (E.and (E.and (E.cmp COp.eq (E.var 4) E.eof) qcOdd) (E.cmp COp.lt (E.fld Fld.cursor) (E.len (E.fld Fld.data))))
    (E.cmp COp.eq (E.at (E.fld Fld.data) (E.fld Fld.cursor)) (E.var 0))

/-- the body of the look-ahead loop `for buffer.cursor+1 >= len(buffer.data) { if err := buffer.more(); err != nil { … } }` -/
abbrev aheadBody : S := S.block [
  S.ite (E.cmp COp.ge (E.add (E.fld Fld.cursor) (E.int 1)) (E.len (E.fld Fld.data))) S.skip S.brk,
  S.call [L.var 4] FnId.more [],
  S.ite (E.cmp COp.ne (E.var 4) E.nilErr)
    (S.block [
      S.ite eofDelim
        (S.block [S.incr (L.fld Fld.cursor), S.ret [qField, E.bool false, E.nilErr]])
        (S.block []),
      S.ret [qField, E.bool true, E.var 4]])
    (S.block [])]

/-- `switch ch { case delimiter: …; case '\n': …; case '\r': …; case '"': … }` -/
def qSwitch : S :=
  S.ite (E.cmp COp.eq (E.var 5) (E.var 0))
    (S.block [S.ite qcOdd (S.block [S.ret [qField, E.bool false, E.nilErr]]) (S.block [])])
    (S.ite (E.cmp COp.eq (E.var 5) (E.byte 10))
      (S.block [S.ite qcOdd (S.block [S.ret [qField, E.bool true, E.nilErr]]) (S.block [])])
      (S.ite (E.cmp COp.eq (E.var 5) (E.byte 13))
        (S.block [S.ite qcOdd (S.block [S.cont]) (S.block [])])
        (S.ite (E.cmp COp.eq (E.var 5) (E.byte 34))
          (S.block [S.incr (L.var 3), S.ite (E.cmp COp.eq (E.rem (E.var 3) (E.int 2)) (E.int 1)) (S.block [S.cont]) (S.block [])])
          (S.block []))))

/-- `quoteCount = 0; writeCursor++; if writeCursor != buffer.cursor { copy(data[writeCursor:writeCursor+1], data[cursor:cursor+1]) }` -/
def qKeep : List S := [
  S.assign (L.var 3) (E.int 0),
  S.incr (L.var 2),
  S.ite (E.cmp COp.ne (E.var 2) (E.fld Fld.cursor))
    (S.block [S.copy (E.slice (E.fld Fld.data) (E.var 2) (E.add (E.var 2) (E.int 1)))
                     (E.slice (E.fld Fld.data) (E.fld Fld.cursor) (E.add (E.fld Fld.cursor) (E.int 1)))])
    (S.block [])]

/-- what follows the look-ahead in a round of the loop of `nextQuotedField` -/
abbrev qRest : S := S.block ([
  S.assign (L.var 5) (E.at (E.fld Fld.data) (E.fld Fld.cursor)),
  S.incr (L.fld Fld.cursor),
  qSwitch] ++ qKeep)

/-- the body of the loop of `nextQuotedField` -/
abbrev qBody : S := S.seq (S.loop aheadBody) qRest

def fnQuoted : Fn := { params := 1, body := S.block [
  S.incr (L.fld Fld.cursor),
  S.assign (L.var 1) (E.fld Fld.cursor),
  S.assign (L.var 2) (E.fld Fld.cursor),
  S.assign (L.var 3) (E.int 0),
  S.loop qBody] }

/-- `if fs.buffer.cursor >= len(fs.buffer.data) { if err := fs.buffer.more(); err != nil { … } }` of `fields.next` -/
def nextMore : S :=
  S.ite (E.cmp COp.ge (E.fld Fld.cursor) (E.len (E.fld Fld.data)))
    (S.block [
      S.call [L.var 0] FnId.more [],
      S.ite (E.cmp COp.ne (E.var 0) E.nilErr)
        (S.block [
          S.assign (L.fld Fld.err) (E.var 0),
          S.ite (E.and (E.cmp COp.eq (E.var 0) E.eof) (E.cmp COp.gt (E.fld Fld.fieldStart) (E.int 0)))
            (S.block [
              S.assign (L.fld Fld.field) (E.slice (E.fld Fld.data) (E.fld Fld.fieldStart) (E.fld Fld.fieldStart)),
              S.assign (L.fld Fld.hitEOL) (E.bool true),
              S.ret [E.bool true]])
            (S.block []),
          S.ret [E.bool false]])
        (S.block [])])
    (S.block [])

/-- `if first := fs.buffer.data[fs.buffer.cursor]; first == '"' { <quoted field> }; return fs.nextUnquotedField()` -/
def nextGoPart : List S := [
  S.assign (L.var 1) (E.at (E.fld Fld.data) (E.fld Fld.cursor)),
  S.ite (E.cmp COp.eq (E.var 1) (E.byte 34))
    (S.block [
      S.call [L.fld Fld.field, L.fld Fld.hitEOL, L.fld Fld.err] FnId.quoted [E.fld Fld.delim],
      S.assign (L.fld Fld.fieldStart) (E.fld Fld.cursor),
      S.ret [E.or (E.cmp COp.eq (E.fld Fld.err) E.nilErr) (E.cmp COp.eq (E.fld Fld.err) E.eof)]])
    (S.block []),
  S.retCall FnId.unquoted []]

def fnFsNext : Fn := { params := 0, body := S.block (
  S.ite (E.fld Fld.hitEOL) (S.block [S.ret [E.bool false]]) (S.block []) ::
  nextMore ::
  nextGoPart) }

/-! ## `Reader` -/

/-- the body of `for r.fields.next() { r.fieldsBuffer = append(r.fieldsBuffer, r.fields.field) }` -/
abbrev rowBody : S := S.block [
  S.call [L.var 0] FnId.fsNext [],
  S.ite (E.var 0) S.skip S.brk,
  S.assign (L.fld Fld.row) (E.snoc (E.fld Fld.row) (E.fld Fld.field))]

/-- the CRLF rule: a `\r` at the end of the last field is dropped -/
def trimPart : S :=
  S.ite (E.cmp COp.gt (E.len (E.fld Fld.row)) (E.int 0))
    (S.block [
      S.assign (L.var 1) (E.at (E.fld Fld.row) (E.sub (E.len (E.fld Fld.row)) (E.int 1))),
      S.ite (E.and (E.cmp COp.gt (E.len (E.var 1)) (E.int 0)) (E.cmp COp.eq (E.at (E.var 1) (E.sub (E.len (E.var 1)) (E.int 1))) (E.byte 13)))
        (S.block [
          S.assign (L.var 1) (E.sliceTo (E.var 1) (E.sub (E.len (E.var 1)) (E.int 1))),
          S.setRowAt (E.sub (E.len (E.fld Fld.row)) (E.int 1)) (E.var 1)])
        (S.block [])])
    (S.block [])

/-- `if len(r.fieldsBuffer) == 0 { if r.fields.err == nil { r.fields.err = io.EOF }; return false }` -/
def blankPart : S :=
  S.ite (E.cmp COp.eq (E.len (E.fld Fld.row)) (E.int 0))
    (S.block [
      S.ite (E.cmp COp.eq (E.fld Fld.err) E.nilErr) (S.block [S.assign (L.fld Fld.err) E.eof]) (S.block []),
      S.ret [E.bool false]])
    (S.block [])

/-- what follows the row loop in `Reader.Next` -/
def rdTail : List S := [trimPart, blankPart, S.ret [E.bool true]]

def fnRdNext : Fn := { params := 0, body := S.block (
  S.ite (E.cmp COp.ne (E.fld Fld.err) E.nilErr) (S.block [S.ret [E.bool false]]) (S.block []) ::
  S.call [] FnId.fsReset [] ::
  S.assign (L.fld Fld.row) (E.sliceTo (E.fld Fld.row) (E.int 0)) ::
  S.loop rowBody ::
  rdTail) }

def fnRdErr : Fn := { params := 0, body := S.block [
  S.ite (E.cmp COp.ne (E.fld Fld.err) E.eof) (S.block [S.ret [E.fld Fld.err]]) (S.block []),
  S.ret [E.nilErr]] }

def fnRdRead : Fn := { params := 0, body := S.block [
  S.call [L.var 0] FnId.rdNext [],
  S.ite (E.var 0) (S.block [S.ret [E.fld Fld.row, E.nilErr]]) (S.block []),
  S.ret [E.nilRows, E.fld Fld.err]] }

def fnNewReader : Fn := { params := 2, body := S.block [
  S.assign (L.var 0) (E.wrap (E.var 0)),
  S.ret [E.mkReader (E.var 0) (E.make (E.int 0) (E.int 1024)) (E.var 1) (E.makeRows (E.int 0) (E.int 16))]] }

def canonFns : List (FnId × Fn) := [
  (FnId.more, fnMore),
  (FnId.bufReset, fnBufReset),
  (FnId.fsReset, fnFsReset),
  (FnId.unquoted, fnUnquoted),
  (FnId.quoted, fnQuoted),
  (FnId.fsNext, fnFsNext),
  (FnId.rdNext, fnRdNext),
  (FnId.rdErr, fnRdErr),
  (FnId.rdRead, fnRdRead),
  (FnId.wrapRead, fnWrapRead),
  (FnId.newReader, fnNewReader)]

theorem gen_csv_no_opaque : ∀ p ∈ Gen.csvFns, p.2.body.hasOpaque = false := by decide

theorem gen_csv_canon : Gen.csvFns = canonFns := by decide

end QF.Props.C12CsvGen
