import QF.Gen.StringsFns
import QF.Core.STExec
import QF.Core.Upper
import QF.Spec.Json
/-!
# C18 — the custom `ToUpper` of today's source (tie T1)

`QF.Gen.stringsFns` (regenerated on every run by go/cmd/extract/strast.go) holds the body of `ToUpper` of
/repo/internal/strings/convert.go as a term of the language `QF.ST` (QF/Core/STExpr.lean): the first `range` loop up to the
first rune that changes (buffer choice `len(*bP) >= len(s)+utf8.UTFMax`, `copy` of the unchanged prefix, the one-byte
shortcut `r < utf8.RuneSelf`, `utf8.EncodeRune`, the advance by `utf8.DecodeRuneInString` / `utf8.RuneLen`), the early
return, the second `range` loop with the ASCII fast path, the growth `nbytes+utf8.UTFMax >= len(b)` by doubling, and
`*bP = b; return UnsafeBytesToString(b[:nbytes])`.

* `gen_toUpper_no_opaque`, `gen_toUpper_canon` — today's extraction is complete and equal to the canonical term (`decide`).
* `gen_toUpper_semantics` — interpreted with Go's semantics, for every case mapping `up`, every valid UTF-8 string (the
  encoding of a list of code points) and every initial buffer (nil included), the canonical term returns exactly the bytes
  of the hand mirror `U.toUpper up len(*bP) s` (QF/Core/Upper.lean), never indexes outside the buffer — hence
  (`toUpper_spec`) `encode (map up s)`. The UTF-8 primitives are what the mirror assumes of them (`UpperEnv`: decoding the
  encoding of a code point gives it back with its width, `EncodeRune` writes `U.enc`, `RuneLen` is its length,
  `unicode.ToUpper` is `up`); `coreEnv` is an environment that has these properties (Lean's own UTF-8 decoder).
* witnesses: the ASCII fast path also for `{` (`r <= utf8.RuneSelf`, the defect that was repaired), no growth check, a
  prefix copy one byte short are different terms (`gen_toUpper_canon` fails) and return other bytes / panic.

Strings that are not valid UTF-8 are outside C18 (and outside the mirror, which works on code points): there the code
copies an unchanged prefix byte for byte but re-encodes invalid bytes after the first change as U+FFFD.
-/
set_option linter.unusedSimpArgs false
namespace QF.Props.C18UpperGen
open QF QF.ST
open U (enc)

/-! ## The canonical term: variables 0 `*bP`, 1 `s`, 2 `nbytes`, 3 `b`, 4 `i`, 5 `c`, 6 `r`, 7 (count), 8 `w`; 9 `c`, 10 `r`, 11 `nb`, 12 (count) -/

/-- `if len(*bP) >= len(s)+utf8.UTFMax { b = *bP } else { b = make([]byte, len(s)+utf8.UTFMax) }` -/
def chooseBuf : S :=
  S.ite (E.cmp COp.ge (E.len (E.var 0)) (E.add (E.len (E.var 1)) (E.int 4)))
    (S.block [S.assign (L.var 3) (E.var 0)]) (S.block [S.assign (L.var 3) (E.make (E.add (E.len (E.var 1)) (E.int 4)))])

/-- `if r >= 0 { if r < utf8.RuneSelf { b[nbytes] = byte(r); nbytes++ } else { nbytes += utf8.EncodeRune(b[nbytes:], r) } }` -/
def writeFirst : S :=
  S.ite (E.cmp COp.ge (E.var 6) (E.rune 0))
    (S.block [S.ite (E.cmp COp.lt (E.var 6) (E.rune 128))
      (S.block [S.setAt 3 (E.var 2) (E.conv NK.byte (E.var 6)), S.assign (L.var 2) (E.add (E.var 2) (E.int 1))])
      (S.block [S.encodeRune (L.var 7) 3 (E.var 2) (E.var 6), S.assign (L.var 2) (E.add (E.var 2) (E.var 7))])])
    (S.block [])

/-- `if c == utf8.RuneError { _, w := utf8.DecodeRuneInString(s[i:]); i += w } else { i += utf8.RuneLen(c) }` -/
def advance : S :=
  S.ite (E.cmp COp.eq (E.var 5) (E.rune 65533))
    (S.block [S.decodeRune L.blank (L.var 8) (E.sliceFrom (E.var 1) (E.var 4)), S.assign (L.var 4) (E.add (E.var 4) (E.var 8))])
    (S.block [S.assign (L.var 4) (E.add (E.var 4) (E.runeLen (E.var 5)))])

/-- what the first loop does at the first rune that changes -/
def firstChange : List S := [
  chooseBuf,
  S.copy (L.var 2) 3 (E.sliceTo (E.var 1) (E.var 4)),
  writeFirst,
  advance,
  S.assign (L.var 1) (E.sliceFrom (E.var 1) (E.var 4)),
  S.brk]

/-- the body of the first loop -/
abbrev firstBody : S := S.block (
  S.assign (L.var 6) (E.upper (E.var 5)) ::
  S.ite (E.cmp COp.eq (E.var 6) (E.var 5)) (S.block [S.cont]) (S.block []) ::
  firstChange)

/-- `(0 <= r && r < utf8.RuneSelf) && nbytes < len(b)` -/
def fastCond : E :=
  E.and (E.and (E.cmp COp.le (E.rune 0) (E.var 10)) (E.cmp COp.lt (E.var 10) (E.rune 128))) (E.cmp COp.lt (E.var 2) (E.len (E.var 3)))

/-- `if nbytes+utf8.UTFMax >= len(b) { nb := make([]byte, 2*len(b)); copy(nb, b[:nbytes]); b = nb }` -/
def grow : S :=
  S.ite (E.cmp COp.ge (E.add (E.var 2) (E.int 4)) (E.len (E.var 3)))
    (S.block [S.assign (L.var 11) (E.make (E.mul (E.int 2) (E.len (E.var 3)))), S.copy L.blank 11 (E.sliceTo (E.var 3) (E.var 2)),
      S.assign (L.var 3) (E.var 11)]) (S.block [])

/-- the body of the second loop -/
abbrev secondBody : S := S.block [
  S.assign (L.var 10) (E.upper (E.var 9)),
  S.ite fastCond (S.block [S.setAt 3 (E.var 2) (E.conv NK.byte (E.var 10)), S.assign (L.var 2) (E.add (E.var 2) (E.int 1)), S.cont]) (S.block []),
  S.ite (E.cmp COp.ge (E.var 10) (E.rune 0))
    (S.block [grow, S.encodeRune (L.var 12) 3 (E.var 2) (E.var 10), S.assign (L.var 2) (E.add (E.var 2) (E.var 12))]) (S.block [])]

/-- what follows the first loop -/
def afterFirst : List S := [
  S.ite (E.isNil (E.var 3)) (S.block [S.ret [E.var 1]]) (S.block []),
  S.rangeStr L.blank (L.var 9) (E.var 1) secondBody,
  S.assign (L.var 0) (E.var 3),
  S.ret [E.toStr (E.sliceTo (E.var 3) (E.var 2))]]

def fnToUpper : ST.Fn := { params := 2, body := S.block (
  S.assign (L.var 2) (E.int 0) ::
  S.assign (L.var 3) E.nilBytes ::
  S.rangeStr (L.var 4) (L.var 5) (E.var 1) firstBody ::
  afterFirst) }

theorem gen_toUpper_no_opaque :
    ∃ fn, Gen.stringsFns.lookup .toUpper = some fn ∧ fn.body.hasOpaque = false := by decide

theorem gen_toUpper_canon : Gen.stringsFns.lookup .toUpper = some fnToUpper := by decide

/-! ## What the code takes from outside -/

/-- the UTF-8 primitives and `unicode.ToUpper` as the mirror assumes them: decoding the encoding of a code point gives the code
point and its width; `EncodeRune` writes `U.enc`; `RuneLen` is the length of the encoding; `unicode.ToUpper` is `up` -/
structure UpperEnv (Γ : Env) (up : Char → Char) : Prop where
  decode : ∀ (c : Char) (rest : Bytes), Γ.decode (enc c ++ rest) = ((c.toNat : Int), c.utf8Size)
  encode : ∀ c : Char, Γ.encode (c.toNat : Int) = enc c
  runeLen : ∀ c : Char, Γ.runeLen (c.toNat : Int) = (c.utf8Size : Int)
  toUpper : ∀ c : Char, Γ.toUpper (c.toNat : Int) = ((up c).toNat : Int)

/-- the encoding of a list of code points -/
def encs (cs : List Char) : Bytes := cs.flatMap enc

theorem encs_nil : encs [] = [] := rfl
theorem encs_cons (c : Char) (cs : List Char) : encs (c :: cs) = enc c ++ encs cs := rfl
theorem encs_append (a b : List Char) : encs (a ++ b) = encs a ++ encs b := List.flatMap_append
theorem length_enc (c : Char) : (enc c).length = c.utf8Size := String.length_utf8EncodeChar c
theorem enc_pos (c : Char) : 1 ≤ (enc c).length := by rw [length_enc]; exact c.utf8Size_pos
theorem enc_le (c : Char) : (enc c).length ≤ 4 := by rw [length_enc]; exact c.utf8Size_le_four
theorem encs_snoc (pre : List Char) (c : Char) : encs (pre ++ [c]) = encs pre ++ enc c := by
  rw [encs_append, encs_cons, encs_nil, List.append_nil]

/-! ## Lists -/

theorem length_overwrite (l : Bytes) (off : Nat) (bs : Bytes) (h : off + bs.length ≤ l.length) :
    (overwrite l off bs).length = l.length := by
  simp only [overwrite, List.length_append, List.length_take, List.length_drop]; omega

theorem take_overwrite (l : Bytes) (off : Nat) (bs : Bytes) (h : off + bs.length ≤ l.length) :
    (overwrite l off bs).take (off + bs.length) = l.take off ++ bs := by
  have : (l.take off ++ bs).length = off + bs.length := by simp; omega
  rw [overwrite, List.take_append_of_le_length (by omega), ← this, List.take_length]

theorem take_set_succ (l : Bytes) (k : Nat) (x : UInt8) (h : k < l.length) : (l.set k x).take (k + 1) = l.take k ++ [x] := by
  rw [List.take_add_one, List.take_set_of_le (Nat.le_refl k)]
  simp [h]

theorem byte_of_small (n : Nat) (h : n < 256) : UInt8.ofNat (((n : Int) % 256).toNat) = UInt8.ofNat n := by
  congr 1; omega

theorem toNat_double (n : Nat) : (2 * (n : Int)).toNat = 2 * n := by omega
theorem toNat_add4 (n : Nat) : ((n : Int) + 4).toNat = n + 4 := by omega

/-! ## `range` over a valid string -/

theorem iterStr_nil (decode : Bytes → Int × Nat) (i c : L) (step : Store → Out) (pre : List Char) (n : Nat) (σ : Store) :
    iterStr decode i c step (encs pre) (n + 1) (encs pre).length σ = .next σ := by
  rw [iterStr, if_neg (by omega)]

theorem iterStr_cons (Γ : Env) (up : Char → Char) (hΓ : UpperEnv Γ up) (i c : L) (step : Store → Out) (pre : List Char)
    (ch : Char) (rest : List Char) (n : Nat) (σ : Store) :
    iterStr Γ.decode i c step (encs (pre ++ ch :: rest)) (n + 1) (encs pre).length σ =
      (match step (assignL (assignL σ i (.int (encs pre).length)) c (.rune ch.toNat)) with
       | .next σ' => iterStr Γ.decode i c step (encs (pre ++ ch :: rest)) n (encs (pre ++ [ch])).length σ'
       | .cont σ' => iterStr Γ.decode i c step (encs (pre ++ ch :: rest)) n (encs (pre ++ [ch])).length σ'
       | .brk σ' => .next σ'
       | r => r) := by
  have hlt : (encs pre).length < (encs (pre ++ ch :: rest)).length := by
    have := enc_pos ch
    rw [encs_append, encs_cons]; simp only [List.length_append]; omega
  have hdrop : (encs (pre ++ ch :: rest)).drop (encs pre).length = enc ch ++ encs rest := by
    rw [encs_append, encs_cons, List.drop_left]
  have hoff : (encs pre).length + ch.utf8Size = (encs (pre ++ [ch])).length := by
    rw [encs_snoc, List.length_append, length_enc]
  rw [iterStr, if_pos hlt]
  simp only [hdrop, hΓ.decode, hoff]
  generalize step (assignL (assignL σ i (.int (encs pre).length)) c (.rune ch.toNat)) = o
  cases o <;> rfl

/-! ## The second loop -/

/-- the state of the second loop: `nbytes = len(out)` and `b[:nbytes] = out`; the buffer has room for `out` and at least 4 bytes -/
structure Inv2 (σ : Store) (b out : Bytes) : Prop where
  h2 : σ 2 = some (.int out.length)
  h3 : σ 3 = some (.bytes (some b))
  ht : b.take out.length = out
  hle : out.length ≤ b.length
  h4 : 4 ≤ b.length

/-- one round of the mirror's `loop2`: the new capacity and output -/
def step2 (up : Char → Char) (cap : Nat) (out : Bytes) (ch : Char) : Nat × Bytes :=
  if (up ch).val < 0x80 ∧ out.length < cap then (cap, out ++ [(up ch).val.toUInt8])
  else ((if out.length + 4 ≥ cap then 2 * cap else cap), out ++ enc (up ch))

theorem loop2_cons (up : Char → Char) (cap : Nat) (out : Bytes) (ch : Char) (cs : List Char) :
    U.loop2 up cap out (ch :: cs) = U.loop2 up (step2 up cap out ch).1 (step2 up cap out ch).2 cs := by
  rw [U.loop2]
  by_cases hc : (up ch).val < 0x80 ∧ out.length < cap
  · simp only [step2, hc, and_self, if_true]
  · simp only [step2, hc, if_false]

theorem fastCond_eval (Γ : Env) (σ : Store) (a : ST.Val) (n : Nat) (out b : Bytes)
    (h2 : σ 2 = some (.int out.length)) (h3 : σ 3 = some (.bytes (some b))) :
    fastCond.eval Γ ((σ.set 9 a).set 10 (.rune n)) = .ok (.bool (decide (n < 128) && decide (out.length < b.length))) := by
  unfold fastCond
  by_cases h1 : n < 128 <;> by_cases hr : out.length < b.length <;> st_simp [h2, h3] <;> simp [h1, hr]

/-- the buffer after growth: twice as long, `out` copied to its front -/
def grown (b out : Bytes) : Bytes := overwrite (List.replicate (2 * b.length) 0) 0 out

theorem grow_exec (Γ : Env) (σ : Store) (b out : Bytes) (h2 : σ 2 = some (.int out.length)) (h3 : σ 3 = some (.bytes (some b)))
    (ht : b.take out.length = out) (hle : out.length ≤ b.length) :
    grow.exec Γ σ = .next (if out.length + 4 ≥ b.length then (σ.set 11 (.bytes (some (grown b out)))).set 3 (.bytes (some (grown b out))) else σ) := by
  unfold grow
  by_cases hg : out.length + 4 ≥ b.length
  · st_simp [h2, h3, toNat_double, List.length_replicate, List.drop_zero, ht, List.take_length, Nat.min_eq_right, grown, hg]
  · st_simp [h2, h3, hg]

theorem grown_length (b out : Bytes) (h : out.length ≤ 2 * b.length) : (grown b out).length = 2 * b.length := by
  rw [grown, length_overwrite _ _ _ (by simp; omega)]; simp

theorem grown_take (b out : Bytes) (h : out.length ≤ 2 * b.length) : (grown b out).take out.length = out := by
  have := take_overwrite (List.replicate (2 * b.length) 0) 0 out (by simp; omega)
  simpa [grown] using this

/-- One round of the second loop on the rune `ch`: it goes on, in the state of the mirror's `loop2` after that rune. -/
theorem second_step (Γ : Env) (up : Char → Char) (hΓ : UpperEnv Γ up) (σ : Store) (ch : Char) (b out : Bytes) (hinv : Inv2 σ b out) :
    ∃ σ' b', GoesOn (stepOf Γ secondBody (σ.set 9 (.rune ch.toNat))) σ' ∧ Inv2 σ' b' (step2 up b.length out ch).2 ∧
      b'.length = (step2 up b.length out ch).1 := by
  obtain ⟨h2, h3, ht, hle, h4⟩ := hinv
  have hup := hΓ.toUpper ch
  have henc := hΓ.encode (up ch)
  have hel := enc_le (up ch)
  have hep := enc_pos (up ch)
  have hfc := fastCond_eval Γ σ (.rune ch.toNat) (up ch).toNat out b h2 h3
  unfold stepOf step2
  by_cases hfast : (up ch).toNat < 128 ∧ out.length < b.length
  · -- the one-byte shortcut
    have hv : (up ch).val < 0x80 := UInt32.lt_iff_toNat_lt.mpr hfast.1
    have hb : (decide ((up ch).toNat < 128) && decide (out.length < b.length)) = true := by simp [hfast.1, hfast.2]
    rw [if_pos ⟨hv, hfast.2⟩]
    refine ⟨_, b.set out.length (up ch).val.toUInt8, Or.inl (by
      st_simp [h2, h3, hup, hfc, hb, byte_of_small]
      rfl), ⟨?_, ?_, ?_, ?_, ?_⟩, ?_⟩
    · simp [set_apply]
    · simp [set_apply]; rfl
    · rw [List.length_append, List.length_singleton, take_set_succ _ _ _ hfast.2, ht]
    · simp; omega
    · simpa using h4
    · simp
  · have hv : ¬ ((up ch).val < 0x80 ∧ out.length < b.length) := by
      rintro ⟨a, c⟩; exact hfast ⟨UInt32.lt_iff_toNat_lt.mp a, c⟩
    have hb : (decide ((up ch).toNat < 128) && decide (out.length < b.length)) = false := by
      simpa using fun a => Nat.not_lt.mp fun c => hfast ⟨a, c⟩
    rw [if_neg hv]
    have hgr := grow_exec Γ ((σ.set 9 (.rune ch.toNat)).set 10 (.rune (up ch).toNat)) b out (by simp [set_apply, h2])
      (by simp [set_apply, h3]) ht hle
    by_cases hg : out.length + 4 ≥ b.length
    · -- the buffer grows, then `EncodeRune`
      have hgl := grown_length b out (by omega)
      have hgt := grown_take b out (by omega)
      rw [if_pos hg] at hgr ⊢
      refine ⟨_, overwrite (grown b out) out.length (enc (up ch)), Or.inr (by
        st_simp [h2, h3, hup, hfc, hb, hgr, henc, hgl]
        rfl), ⟨?_, ?_, ?_, ?_, ?_⟩, ?_⟩
      · simp [set_apply]
      · simp [set_apply]
      · rw [List.length_append, take_overwrite _ _ _ (by omega), hgt]
      · rw [List.length_append, length_overwrite _ _ _ (by omega)]; omega
      · rw [length_overwrite _ _ _ (by omega)]; omega
      · rw [length_overwrite _ _ _ (by omega), hgl]
    · -- room enough: `EncodeRune`
      rw [if_neg hg] at hgr ⊢
      refine ⟨_, overwrite b out.length (enc (up ch)), Or.inr (by
        st_simp [h2, h3, hup, hfc, hb, hgr, henc]
        rfl), ⟨?_, ?_, ?_, ?_, ?_⟩, ?_⟩
      · simp [set_apply]
      · simp [set_apply]
      · rw [List.length_append, take_overwrite _ _ _ (by omega), ht]
      · rw [List.length_append, length_overwrite _ _ _ (by omega)]; omega
      · rw [length_overwrite _ _ _ (by omega)]; omega
      · rw [length_overwrite _ _ _ (by omega)]

/-- The second loop over the remaining runes `rest` ends in the state of the mirror's `loop2`. -/
theorem second_loop (Γ : Env) (up : Char → Char) (hΓ : UpperEnv Γ up) : ∀ (rest pre : List Char) (n : Nat) (σ : Store) (b out : Bytes),
    rest.length < n → Inv2 σ b out →
    ∃ σ' b', iterStr Γ.decode .blank (.var 9) (stepOf Γ secondBody) (encs (pre ++ rest)) n (encs pre).length σ = .next σ' ∧
      Inv2 σ' b' (U.loop2 up b.length out rest) := by
  intro rest
  induction rest with
  | nil =>
    intro pre n σ b out hn hinv
    obtain ⟨m, rfl⟩ : ∃ m, n = m + 1 := ⟨n - 1, by simp at hn; omega⟩
    rw [List.append_nil, iterStr_nil]
    exact ⟨σ, b, rfl, by simpa [U.loop2] using hinv⟩
  | cons ch rest ih =>
    intro pre n σ b out hn hinv
    obtain ⟨m, rfl⟩ : ∃ m, n = m + 1 := ⟨n - 1, by simp at hn; omega⟩
    obtain ⟨σ1, b1, hgo, hinv1, hlen1⟩ := second_step Γ up hΓ σ ch b out hinv
    have hrec := ih (pre ++ [ch]) m σ1 b1 _ (by simp at hn; omega) hinv1
    rw [List.append_assoc, List.singleton_append] at hrec
    rw [iterStr_cons Γ up hΓ, loop2_cons, ← hlen1]
    simp only [assignL]
    rcases hgo with h | h <;> rw [h] <;> exact hrec

/-! ## The first loop -/

/-- the state of the first loop: `*bP`, `s`, `nbytes = 0`, `b = nil` -/
structure St1 (σ : Store) (buf : Option Bytes) (s : Bytes) : Prop where
  h0 : σ 0 = some (.bytes buf)
  h1 : σ 1 = some (.str s)
  h2 : σ 2 = some (.int 0)
  h3 : σ 3 = some (.bytes none)

/-- the buffer the code works in: `*bP` when it has `len(s)+4` bytes, else a new one of that length -/
def chosen (buf : Option Bytes) (n : Nat) : Bytes :=
  if (buf.getD []).length ≥ n + 4 then buf.getD [] else List.replicate (n + 4) 0

theorem chosen_length (buf : Option Bytes) (n : Nat) :
    (chosen buf n).length = if (buf.getD []).length ≥ n + 4 then (buf.getD []).length else n + 4 := by
  unfold chosen; split <;> simp

theorem chooseBuf_exec (Γ : Env) (σ : Store) (buf : Option Bytes) (s : Bytes) (h0 : σ 0 = some (.bytes buf)) (h1 : σ 1 = some (.str s)) :
    chooseBuf.exec Γ σ = .next (σ.set 3 (.bytes (some (chosen buf s.length)))) := by
  unfold chooseBuf chosen
  cases buf with
  | none => st_simp [h0, h1, toNat_add4]
  | some b0 =>
    by_cases h : b0.length ≥ s.length + 4
    · st_simp [h0, h1, h]
    · st_simp [h0, h1, h, toNat_add4]

theorem toNat_add_cast (a b : Nat) : ((a : Int) + (b : Int)).toNat = a + b := by omega

theorem char_toNat_ne (a b : Char) (h : a ≠ b) : ¬ ((a.toNat : Int) = (b.toNat : Int)) := by
  intro e
  apply h
  apply Char.ext
  apply UInt32.toNat_inj.mp
  have : a.toNat = b.toNat := by omega
  exact this

/-- the output of the mirror at the first rune that changes -/
def out1 (up : Char → Char) (pre : List Char) (ch : Char) : Bytes :=
  if (up ch).val < 0x80 then encs pre ++ [(up ch).val.toUInt8] else encs pre ++ enc (up ch)

/-- The round of the first loop at the first rune `ch` that changes: the loop is left with `s` = the rest of the string and the
buffer, its length and `nbytes` as the mirror has them at the start of `loop2`. -/
theorem first_change (Γ : Env) (up : Char → Char) (hΓ : UpperEnv Γ up) (σ : Store) (buf : Option Bytes) (pre : List Char) (ch : Char)
    (rest : List Char) (hst : St1 σ buf (encs (pre ++ ch :: rest))) (hne : up ch ≠ ch) :
    ∃ σ' b1, stepOf Γ firstBody ((σ.set 4 (.int (encs pre).length)).set 5 (.rune ch.toNat)) = .brk σ' ∧
      σ' 1 = some (.str (encs rest)) ∧ Inv2 σ' b1 (out1 up pre ch) ∧
      b1.length = (if (buf.getD []).length ≥ (encs (pre ++ ch :: rest)).length + 4 then (buf.getD []).length
                   else (encs (pre ++ ch :: rest)).length + 4) := by
  obtain ⟨h0, h1, h2, h3⟩ := hst
  have hup := hΓ.toUpper ch
  have henc := hΓ.encode (up ch)
  have hrl := hΓ.runeLen ch
  have hel := enc_le (up ch)
  have hep := enc_pos (up ch)
  have hcl := length_enc ch
  have hcp := enc_pos ch
  have hneq : decide (((up ch).toNat : Int) = (ch.toNat : Int)) = false := by
    simpa using char_toNat_ne _ _ hne
  generalize hs : encs (pre ++ ch :: rest) = s at *
  generalize hP : encs pre = P at *
  have hse : s = P ++ (enc ch ++ encs rest) := by rw [← hs, ← hP, encs_append, encs_cons]
  have hsl : s.length = P.length + (enc ch).length + (encs rest).length := by rw [hse]; simp; omega
  have htake : s.take P.length = P := by rw [hse, List.take_left]
  have hdrop : s.drop P.length = enc ch ++ encs rest := by rw [hse, List.drop_left]
  have hdrop2 : s.drop (P.length + ch.utf8Size) = encs rest := by
    rw [← hcl, hse, ← List.append_assoc, ← List.length_append, List.drop_left]
  have hdec : Γ.decode (enc ch ++ encs rest) = ((ch.toNat : Int), ch.utf8Size) := hΓ.decode ch _
  have hBl := chosen_length buf s.length
  generalize hB0 : chosen buf s.length = B0 at hBl
  have hB4 : s.length + 4 ≤ B0.length := by rw [hBl]; split <;> omega
  have hWl : (overwrite B0 0 P).length = B0.length := length_overwrite _ _ _ (by omega)
  have hWt : (overwrite B0 0 P).take P.length = P := by
    have := take_overwrite B0 0 P (by omega); simpa using this
  generalize hW : overwrite B0 0 P = W at hWl hWt
  have hcb := chooseBuf_exec Γ (((σ.set 4 (.int P.length)).set 5 (.rune ch.toNat)).set 6 (.rune (up ch).toNat)) buf s
    (by simp [set_apply, h0]) (by simp [set_apply, h1])
  rw [hB0] at hcb
  unfold stepOf
  have hmin : min B0.length P.length = P.length := by omega
  have hout : out1 up pre ch = if (up ch).val < 0x80 then P ++ [(up ch).val.toUInt8] else P ++ enc (up ch) := by
    rw [out1, hP]
  rw [hout]
  have hcap : ∀ b1 : Bytes, b1.length = B0.length → b1.length =
      (if (buf.getD []).length ≥ s.length + 4 then (buf.getD []).length else s.length + 4) := by
    intro b1 h; rw [h, hBl]
  clear hBl
  by_cases hlt : (up ch).toNat < 128
  · -- the upper case is below 0x80: one byte
    have hv : (up ch).val < 0x80 := UInt32.lt_iff_toNat_lt.mpr hlt
    rw [if_pos hv]
    have key : ∃ σ', firstBody.exec Γ ((σ.set 4 (.int P.length)).set 5 (.rune ch.toNat)) = .brk σ' ∧
        σ' 1 = some (.str (encs rest)) ∧ σ' 2 = some (.int ((P.length : Int) + 1)) ∧
        σ' 3 = some (.bytes (some (W.set P.length (up ch).val.toUInt8))) := by
      cases bfd : decide ((ch.toNat : Int) = 65533)
      · exact ⟨_, by
          st_simp [h0, h1, h2, h3, hup, hneq, firstChange, hcb, htake, List.drop_zero, hmin, List.take_length, hW, writeFirst, byte_of_small,
            advance, bfd, hrl, toNat_add_cast, hdrop2]
          rfl, by simp [set_apply], by simp [set_apply], by simp [set_apply]; rfl⟩
      · have hfd : (ch.toNat : Int) = 65533 := of_decide_eq_true bfd
        exact ⟨_, by
          st_simp [h0, h1, h2, h3, hup, hneq, firstChange, hcb, htake, List.drop_zero, hmin, List.take_length, hW, writeFirst, byte_of_small,
            advance, bfd, hdrop, hdec, toNat_add_cast, hdrop2]
          rfl, by simp [set_apply], by simp [set_apply], by simp [set_apply]; rfl⟩
    obtain ⟨σ', hex, k1, k2, k3⟩ := key
    refine ⟨σ', _, hex, k1, ⟨?_, k3, ?_, ?_, ?_⟩, hcap _ (by simp [hWl])⟩
    · rw [k2]; simp
    · rw [List.length_append, List.length_singleton, take_set_succ _ _ _ (by omega), hWt]
    · simp; omega
    · simp; omega
  · -- otherwise `EncodeRune`
    have hv : ¬ (up ch).val < 0x80 := fun a => hlt (UInt32.lt_iff_toNat_lt.mp a)
    rw [if_neg hv]
    have key : ∃ σ', firstBody.exec Γ ((σ.set 4 (.int P.length)).set 5 (.rune ch.toNat)) = .brk σ' ∧
        σ' 1 = some (.str (encs rest)) ∧ σ' 2 = some (.int ((P.length : Int) + ((enc (up ch)).length : Int))) ∧
        σ' 3 = some (.bytes (some (overwrite W P.length (enc (up ch))))) := by
      cases bfd : decide ((ch.toNat : Int) = 65533)
      · exact ⟨_, by
          st_simp [h0, h1, h2, h3, hup, hneq, firstChange, hcb, htake, List.drop_zero, hmin, List.take_length, hW, writeFirst, henc,
            advance, bfd, hrl, toNat_add_cast, hdrop2]
          rfl, by simp [set_apply], by simp [set_apply], by simp [set_apply]⟩
      · have hfd : (ch.toNat : Int) = 65533 := of_decide_eq_true bfd
        exact ⟨_, by
          st_simp [h0, h1, h2, h3, hup, hneq, firstChange, hcb, htake, List.drop_zero, hmin, List.take_length, hW, writeFirst, henc,
            advance, bfd, hdrop, hdec, toNat_add_cast, hdrop2]
          rfl, by simp [set_apply], by simp [set_apply], by simp [set_apply]⟩
    obtain ⟨σ', hex, k1, k2, k3⟩ := key
    refine ⟨σ', _, hex, k1, ⟨?_, k3, ?_, ?_, ?_⟩, hcap _ (by rw [length_overwrite _ _ _ (by omega), hWl])⟩
    · rw [k2]; simp
    · rw [List.length_append, take_overwrite _ _ _ (by omega), hWt]
    · rw [List.length_append, length_overwrite _ _ _ (by omega)]; omega
    · rw [length_overwrite _ _ _ (by omega)]; omega

theorem length_le_encs : ∀ cs : List Char, cs.length ≤ (encs cs).length
  | [] => Nat.le_refl _
  | c :: cs => by
    have := length_le_encs cs
    have := enc_pos c
    rw [encs_cons]; simp only [List.length_append, List.length_cons]; omega

/-- what follows the first loop when a rune has changed: the second loop over the rest of the string, `*bP = b`, and the
string `b[:nbytes]` -/
theorem after_change (Γ : Env) (up : Char → Char) (hΓ : UpperEnv Γ up) (σ : Store) (b out : Bytes) (rest : List Char)
    (h1 : σ 1 = some (.str (encs rest))) (hinv : Inv2 σ b out) :
    ∃ σ'', (S.block afterFirst).exec Γ σ = .ret σ'' [.str (U.loop2 up b.length out rest)] := by
  obtain ⟨σ2, b2, hit, h2', h3', ht', hle', -⟩ := second_loop Γ up hΓ rest [] ((encs rest).length + 1) σ b out
    (by have := length_le_encs rest; omega) hinv
  simp only [List.nil_append, encs_nil, List.length_nil] at hit
  have h3 := hinv.h3
  unfold afterFirst
  st_simp [h1, h3, hit]
  st_simp [h2', h3', List.drop_zero, ht']
  exact ⟨_, rfl⟩

/-- a round of the first loop on a rune that does not change -/
theorem first_same (Γ : Env) (up : Char → Char) (hΓ : UpperEnv Γ up) (σ : Store) (ch : Char) (he : up ch = ch) :
    stepOf Γ firstBody (σ.set 5 (.rune ch.toNat)) = .cont ((σ.set 5 (.rune ch.toNat)).set 6 (.rune ch.toNat)) := by
  have hup := hΓ.toUpper ch
  rw [he] at hup
  unfold stepOf
  st_simp [hup]

/-- The first loop from the prefix `pre` (whose runes did not change) and what follows it return the mirror's `toUpper.go`. -/
theorem first_loop (Γ : Env) (up : Char → Char) (hΓ : UpperEnv Γ up) (buf : Option Bytes) : ∀ (rest pre : List Char) (n : Nat) (σ : Store),
    rest.length < n → St1 σ buf (encs (pre ++ rest)) →
    ∃ σ' σ'', iterStr Γ.decode (.var 4) (.var 5) (stepOf Γ firstBody) (encs (pre ++ rest)) n (encs pre).length σ = .next σ' ∧
      (S.block afterFirst).exec Γ σ' = .ret σ'' [.str (U.toUpper.go up (buf.getD []).length pre rest)] := by
  intro rest
  induction rest with
  | nil =>
    intro pre n σ hn hst
    obtain ⟨m, rfl⟩ : ∃ m, n = m + 1 := ⟨n - 1, by simp at hn; omega⟩
    obtain ⟨h0, h1, h2, h3⟩ := hst
    rw [List.append_nil] at h1 ⊢
    rw [iterStr_nil]
    refine ⟨σ, σ, rfl, ?_⟩
    unfold afterFirst U.toUpper.go
    st_simp [h1, h3]
    rfl
  | cons ch rest ih =>
    intro pre n σ hn hst
    obtain ⟨m, rfl⟩ : ∃ m, n = m + 1 := ⟨n - 1, by simp at hn; omega⟩
    rw [iterStr_cons Γ up hΓ]
    simp only [assignL]
    by_cases he : up ch = ch
    · -- the rune does not change: on to the next
      rw [first_same Γ up hΓ _ ch he]
      have hst' : St1 (((σ.set 4 (.int (encs pre).length)).set 5 (.rune ch.toNat)).set 6 (.rune ch.toNat)) buf (encs ((pre ++ [ch]) ++ rest)) := by
        obtain ⟨h0, h1, h2, h3⟩ := hst
        rw [List.append_assoc, List.singleton_append]
        exact ⟨by simp [set_apply, h0], by simp [set_apply, h1], by simp [set_apply, h2], by simp [set_apply, h3]⟩
      obtain ⟨σ', σ'', hit, haf⟩ := ih (pre ++ [ch]) m _ (by simp at hn; omega) hst'
      rw [List.append_assoc, List.singleton_append] at hit
      refine ⟨σ', σ'', hit, ?_⟩
      rw [haf, U.toUpper.go]
      simp [he]
    · -- the first rune that changes: the buffer is set up, the second loop does the rest
      obtain ⟨σ', b1, hbrk, k1, hinv, hlen⟩ := first_change Γ up hΓ σ buf pre ch rest hst he
      rw [hbrk]
      obtain ⟨σ'', haf⟩ := after_change Γ up hΓ σ' b1 (out1 up pre ch) rest k1 hinv
      refine ⟨σ', σ'', rfl, ?_⟩
      rw [haf, hlen, U.toUpper.go]
      have hne : (up ch == ch) = false := by simpa using he
      simp only [hne, Bool.false_eq_true, if_false, out1, encs]
      rfl

/-- `ToUpper(&buf, s)` of the canonical term returns the bytes of the mirror's `U.toUpper`. -/
theorem toUpper_sem (Γ : Env) (up : Char → Char) (hΓ : UpperEnv Γ up) (buf : Option Bytes) (cs : List Char) :
    (runFn Γ fnToUpper [.bytes buf, .str (encs cs)]).vals = some [.str (U.toUpper up (buf.getD []).length cs)] := by
  obtain ⟨σ', σ'', hit, haf⟩ := first_loop Γ up hΓ buf cs [] ((encs cs).length + 1)
    ((((Store.empty.set 0 (.bytes buf)).set 1 (.str (encs cs))).set 2 (.int 0)).set 3 (.bytes none))
    (by have := length_le_encs cs; omega) ⟨rfl, rfl, rfl, rfl⟩
  simp only [List.nil_append, encs_nil, List.length_nil] at hit
  unfold runFn fnToUpper
  st_simp [hit, haf, Run.vals, U.toUpper]

/-- today's `ToUpper` by the regenerated term -/
def genToUpper (Γ : Env) (buf : Option Bytes) (s : Bytes) : Option (List ST.Val) :=
  (run Γ Gen.stringsFns .toUpper [.bytes buf, .str s]).vals

/-- C18 for today's code: `ToUpper` of today's source, interpreted with Go's semantics, returns exactly the bytes of the hand
mirror `U.toUpper` — for every case mapping `up`, every valid UTF-8 string (the encoding of the code points `cs`) and every
initial buffer `*bP` (nil included); in particular it never writes outside the buffer it works in. -/
theorem gen_toUpper_semantics (Γ : Env) (up : Char → Char) (hΓ : UpperEnv Γ up) (buf : Option Bytes) (cs : List Char) :
    genToUpper Γ buf (encs cs) = some [.str (U.toUpper up (buf.getD []).length cs)] := by
  simp only [genToUpper, run, gen_toUpper_canon]
  exact toUpper_sem Γ up hΓ buf cs

/-- … hence (`U.toUpper_spec'`) today's `ToUpper` returns `encode (map up s)`. -/
theorem gen_toUpper_spec (Γ : Env) (up : Char → Char) (hΓ : UpperEnv Γ up) (buf : Option Bytes) (cs : List Char) :
    genToUpper Γ buf (encs cs) = some [.str (encs (cs.map up))] := by
  rw [gen_toUpper_semantics Γ up hΓ, U.toUpper_spec']; rfl

/-- an environment with the properties `UpperEnv`: Lean's own UTF-8 decoder and encoder -/
def coreEnv (up : Char → Char) (fuel : Nat) : Env :=
  { fuel := fuel,
    decode := fun t => match t.toByteArray.utf8DecodeChar? 0 with
      | some c => ((c.toNat : Int), c.utf8Size)
      | none => (65533, 1),
    encode := fun r => enc (Char.ofNat r.toNat),
    runeLen := fun r => ((Char.ofNat r.toNat).utf8Size : Int),
    toUpper := fun r => ((up (Char.ofNat r.toNat)).toNat : Int),
    newMatcher := fun _ _ => .error .badPattern }

theorem coreEnv_ok (up : Char → Char) (fuel : Nat) : UpperEnv (coreEnv up fuel) up where
  decode c rest := by
    simp only [coreEnv, enc, List.toByteArray_append, ByteArray.utf8DecodeChar?_utf8EncodeChar_append]
  encode c := by simp only [coreEnv, Int.toNat_natCast, Char.ofNat_toNat]
  runeLen c := by simp only [coreEnv, Int.toNat_natCast, Char.ofNat_toNat]
  toUpper c := by simp only [coreEnv, Int.toNat_natCast, Char.ofNat_toNat]

/-! ## Witnesses: plausible mutations are different terms and return other bytes (or panic) -/

/-- `ToUpper` with other statements for the write at the first change, the fast-path test and the growth of the buffer -/
def mkUpper (writeFirstV : S) (fastCondV : E) (growV : S) : ST.Fn := { params := 2, body := S.block [
  S.assign (L.var 2) (E.int 0),
  S.assign (L.var 3) E.nilBytes,
  S.rangeStr (L.var 4) (L.var 5) (E.var 1) (S.block [
    S.assign (L.var 6) (E.upper (E.var 5)),
    S.ite (E.cmp COp.eq (E.var 6) (E.var 5)) (S.block [S.cont]) (S.block []),
    chooseBuf,
    S.copy (L.var 2) 3 (E.sliceTo (E.var 1) (E.var 4)),
    writeFirstV,
    advance,
    S.assign (L.var 1) (E.sliceFrom (E.var 1) (E.var 4)),
    S.brk]),
  S.ite (E.isNil (E.var 3)) (S.block [S.ret [E.var 1]]) (S.block []),
  S.rangeStr L.blank (L.var 9) (E.var 1) (S.block [
    S.assign (L.var 10) (E.upper (E.var 9)),
    S.ite fastCondV (S.block [S.setAt 3 (E.var 2) (E.conv NK.byte (E.var 10)), S.assign (L.var 2) (E.add (E.var 2) (E.int 1)), S.cont]) (S.block []),
    S.ite (E.cmp COp.ge (E.var 10) (E.rune 0))
      (S.block [growV, S.encodeRune (L.var 12) 3 (E.var 2) (E.var 10), S.assign (L.var 2) (E.add (E.var 2) (E.var 12))]) (S.block [])]),
  S.assign (L.var 0) (E.var 3),
  S.ret [E.toStr (E.sliceTo (E.var 3) (E.var 2))]] }

example : mkUpper writeFirst fastCond grow = fnToUpper := rfl

/-- an environment for evaluation: the spec's UTF-8 decoder and encoder (QF/Spec/Json.lean) and a case mapping with
`a ↦ A`, `b ↦ U+0080` (two bytes C2 80), `c ↦ U+2C6F` (three bytes E2 B1 AF), everything else unchanged -/
def wEnv : Env :=
  { fuel := 0,
    decode := fun t => (((Json.decodeRune t).1 : Nat), (Json.decodeRune t).2),
    encode := fun r => Json.encodeRune r.toNat,
    runeLen := fun r => ((Json.encodeRune r.toNat).length : Nat),
    toUpper := fun r => if r = 97 then 65 else if r = 98 then 128 else if r = 99 then 0x2C6F else r,
    newMatcher := fun _ _ => .error .badPattern }

/-- the bytes a variant returns -/
def outU (fn : ST.Fn) (buf : Option Bytes) (s : Bytes) : Option Bytes :=
  match runFn wEnv fn [.bytes buf, .str s] with
  | .ret _ [.str b] => some b
  | _ => none

def panics (fn : ST.Fn) (buf : Option Bytes) (s : Bytes) : Bool :=
  match runFn wEnv fn [.bytes buf, .str s] with
  | .panic _ => true
  | _ => false

-- today's term on samples: "xab" ↦ x A C2 80; nothing changes ↦ the string itself; "accc" grows the buffer (4+4 < 1+9)
example : outU fnToUpper none [120, 97, 98] = some [120, 65, 0xC2, 0x80] := by decide
example : outU fnToUpper (some [1, 2, 3]) [120, 121] = some [120, 121] := by decide
example : outU fnToUpper none [97, 99, 99, 99] = some [65, 0xE2, 0xB1, 0xAF, 0xE2, 0xB1, 0xAF, 0xE2, 0xB1, 0xAF] := by decide
example : outU fnToUpper (some (List.replicate 20 7)) [97, 99, 99, 99] = some [65, 0xE2, 0xB1, 0xAF, 0xE2, 0xB1, 0xAF, 0xE2, 0xB1, 0xAF] := by decide

/-- `r <= utf8.RuneSelf` in the fast path of the second loop (the defect that was repaired): U+0080 is written as the one byte 80 -/
def fastCondLe : E :=
  E.and (E.and (E.cmp COp.le (E.rune 0) (E.var 10)) (E.cmp COp.le (E.var 10) (E.rune 128))) (E.cmp COp.lt (E.var 2) (E.len (E.var 3)))
example : mkUpper writeFirst fastCondLe grow ≠ fnToUpper := by decide
example : outU (mkUpper writeFirst fastCondLe grow) none [97, 98] = some [65, 0x80] := by decide
example : outU fnToUpper none [97, 98] = some [65, 0xC2, 0x80] := by decide

/-- the same `<=` in the one-byte shortcut at the first change -/
def writeFirstLe : S :=
  S.ite (E.cmp COp.ge (E.var 6) (E.rune 0))
    (S.block [S.ite (E.cmp COp.le (E.var 6) (E.rune 128))
      (S.block [S.setAt 3 (E.var 2) (E.conv NK.byte (E.var 6)), S.assign (L.var 2) (E.add (E.var 2) (E.int 1))])
      (S.block [S.encodeRune (L.var 7) 3 (E.var 2) (E.var 6), S.assign (L.var 2) (E.add (E.var 2) (E.var 7))])])
    (S.block [])
example : mkUpper writeFirstLe fastCond grow ≠ fnToUpper := by decide
example : outU (mkUpper writeFirstLe fastCond grow) none [120, 98] = some [120, 0x80] := by decide
example : outU fnToUpper none [120, 98] = some [120, 0xC2, 0x80] := by decide

/-- the fast path without `nbytes < len(b)`: a write beyond the buffer (index out of range) when the output outgrows it -/
def fastCondNoRoom : E := E.and (E.cmp COp.le (E.rune 0) (E.var 10)) (E.cmp COp.lt (E.var 10) (E.rune 128))
example : panics (mkUpper writeFirst fastCondNoRoom grow) none [97, 99, 99, 99, 120, 120, 120, 120] = true := by decide
example : outU fnToUpper none [97, 99, 99, 99, 120, 120, 120, 120] =
    some [65, 0xE2, 0xB1, 0xAF, 0xE2, 0xB1, 0xAF, 0xE2, 0xB1, 0xAF, 120, 120, 120, 120] := by decide

/-- no growth of the buffer: `EncodeRune` panics when the upper case is longer than the string plus 4 bytes -/
example : mkUpper writeFirst fastCond S.skip ≠ fnToUpper := by decide
example : panics (mkUpper writeFirst fastCond S.skip) none [97, 99, 99, 99] = true := by decide
example : panics fnToUpper none [97, 99, 99, 99] = false := by decide

/-- growth only when `nbytes+utf8.UTFMax > 2*len(b)` (never in time): the same panic -/
def growLate : S :=
  S.ite (E.cmp COp.ge (E.add (E.var 2) (E.int 4)) (E.mul (E.int 2) (E.len (E.var 3))))
    (S.block [S.assign (L.var 11) (E.make (E.mul (E.int 2) (E.len (E.var 3)))), S.copy L.blank 11 (E.sliceTo (E.var 3) (E.var 2)),
      S.assign (L.var 3) (E.var 11)]) (S.block [])
example : panics (mkUpper writeFirst fastCond growLate) none [97, 99, 99, 99] = true := by decide

/-! ## Outside C18: strings that are not valid UTF-8

The theorems above speak about the encodings of lists of code points. On other byte strings the interpreted code (with Go's
decoder, `Json.decodeRune`: an invalid byte is U+FFFD of width 1) copies an unchanged PREFIX byte for byte — `s[:i]` — and
re-encodes invalid bytes AFTER the first change as EF BF BD, while the mirror applied to the decoded string (the driver's
`decodeAll`) re-encodes every invalid byte. C18 quantifies over valid UTF-8 only. -/

/-- the case mapping of `wEnv` on code points -/
def wUp (c : Char) : Char := if c = 'a' then 'A' else if c = 'b' then Char.ofNat 0x80 else if c = 'c' then Char.ofNat 0x2C6F else c

-- the invalid byte FF before the first change is kept; after it, it becomes U+FFFD
example : outU fnToUpper none [0xFF, 97] = some [0xFF, 65] := by decide
example : outU fnToUpper none [97, 0xFF] = some [65, 0xEF, 0xBF, 0xBD] := by decide
-- the mirror on the decoded string [U+FFFD, 'a']
example : U.toUpper wUp 0 [Char.ofNat 0xFFFD, 'a'] = [0xEF, 0xBF, 0xBD, 65] := by decide

end QF.Props.C18UpperGen

#print axioms QF.Props.C18UpperGen.gen_toUpper_no_opaque
#print axioms QF.Props.C18UpperGen.gen_toUpper_canon
#print axioms QF.Props.C18UpperGen.gen_toUpper_semantics
#print axioms QF.Props.C18UpperGen.gen_toUpper_spec
#print axioms QF.Props.C18UpperGen.coreEnv_ok
