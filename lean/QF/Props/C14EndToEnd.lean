import QF.Spec.JsonRead
import QF.Spec.Render
import QF.Props.C14ToJson
import QF.Props.C14WriterGen
import QF.Props.C14ReadJsonGen
import QF.Props.C08Construct
import QF.Props.C16Link
import QF.Props.C16LinkFinal
/-!
# C14 — `ReadJSON ∘ ToJSON`, end to end (composition)

`C14ToJson.tojson_parses` / `tojson_denotes` say what the text `ToJSON` writes denotes; `C14ReadJsonGen.gen_readjson_frame`
says that `ReadJSON` of today's source IS the spec `readJsonS` (QF/Spec/JsonRead.lean) on the parsed document. This file
links the two:

* `readjson_tojson_partial` — for every frame of the read-back half of C14's quantifier (`JsonTyped`: at least one column and
  one row, every column with `n` cells of its type, floats not NaN — an infinity is excluded by `FrameOK`, the writer's text
  for it is no JSON —; the names, as a JSON decoder returns them, distinct and legal) and every float formatter / float
  parser that fit on the frame's own numbers (`FrameOK`: a JSON number token; `ReadsBack`: the parser returns the float):
  `readJsonS pnum` of the parsed text is `.ok (jsonUnconfigured (jsonReread f))` — the driver's `jsonReread f`
  (QF/Spec/Render.lean: ints as equal-valued floats, strings as a JSON decoder returns them) with what only the
  configuration `ColumnOrder` / `Enums` could supply taken away: the columns sorted by name, enum columns as string columns.
* `gen_json_roundtrip_end_to_end_partial` — the same with the REGENERATED writer (`C14WriterGen`) and reader
  (`C14ReadJsonGen.gen_readjson_frame`).
* `float_reads_back`, `ryu_reads_back`, `ryu_text_reads_back`, `pnumS_correct` — the float clause of `ReadsBack` holds for
  every correct IEEE parser (`PnumCorrect`; the driver's `pnumS` is one) and every formatter whose text denotes the float —
  in particular the text of the Ryu pipeline (`C16Link.appendF`, by `C16Link.ryu_text_is_shortest`: `Num.parsesTo`).

BOTH HYPOTHESES BELOW ARE DISCHARGED IN `QF/Props/C14RoundTrip.lean` for the formatter of C16 (`ryuFmt`) and every correct
parser: `readjson_tojson`, `gen_json_roundtrip_end_to_end` (no `_partial`), and the configured statement
`readjson_cfg_tojson` (`readJsonCfgS … = .ok (jsonReread f)`). The theorems of this file stay as the abstract lemmas.

LEFT AS HYPOTHESES HERE (local to the numbers of the frame, as in `C14ToJson.tojson_parses_local`):
* `FrameOK fmt f` — the formatter's text for the frame's floats is a JSON number TOKEN (`C14ToJson.NumTok`; proved there
  for `[-]d+` and `[-]d+.d+` texts, `numTok_digits` / `numTok_frac`, not yet derived from `Num.isShortestRoundTrip`);
* the int clause of `ReadsBack` — `pnum (intText v) = some (Num.ofDecimal (v < 0) |v| 0)`: that the decimal text of an int
  denotes `|v| · 10^0` and that the float of an int64 is finite is not derived here from `PnumCorrect`.
The replay driver checks both dynamically: it evaluates `readJsonCfgS pnumS` on the bytes actually written and compares the
result with `jsonReread f` (`DRIVER-ERROR kind=expectations`).
What the CONFIGURED `ReadJSON(ColumnOrder(names), Enums(values))` returns (`readJsonCfgS`, the harness's call) is not
proved equal to `jsonReread f` here; `readjson_tojson_partial` is the statement for `ReadJSON` without configuration functions,
which is what `C14ReadJsonGen.gen_readjson_frame` regenerates.
-/
namespace QF.Props.C14EndToEnd
open QF QF.Json QF.Props.C14ToJson

/-! ## What comes back -/

/-- a cell as it is read back -/
def convCell : Cell → Cell
  | .int v => .float (Num.ofDecimal (v < 0) v.natAbs 0)
  | .str (some s) => .str (some (sanitize s))
  | c => c

/-- the type a column is read back with when nothing is declared -/
def plainTy : CType → CType
  | .int => .float
  | .enum => .string
  | t => t

/-- a column as `ReadJSON` without configuration returns it -/
def plainCol (c : LCol) : LCol := { name := sanitize c.name, ty := plainTy c.ty, cells := c.cells.map convCell }

/-- a cell of a column of type `ty` in the read-back half of the property's quantifier: of the type, a float not NaN -/
def CellTyped : CType → Cell → Prop
  | .int, .int _ => True
  | .float, .float b => F64.isNaN b = false
  | .bool, .bool _ => True
  | .string, .str _ => True
  | .enum, .str _ => True
  | _, _ => False

/-- The frames `ReadJSON ∘ ToJSON` is specified on: at least one column and one row; every column holds `n` cells of its
type, floats not NaN; the column names as a JSON decoder returns them (`sanitize`: invalid UTF-8 replaced by U+FFFD) are
distinct and legal. -/
structure JsonTyped (f : LFrame) : Prop where
  cols : f.cols ≠ []
  rows : 0 < f.n
  size : ∀ c ∈ f.cols, c.cells.size = f.n
  typed : ∀ c ∈ f.cols, ∀ r, r < f.n → CellTyped c.ty c.cells[r]!
  names : (f.cols.map fun c => sanitize c.name).Nodup
  legal : ∀ c ∈ f.cols, legalName (sanitize c.name) = true

/-- the float parser returns what the cell's number denotes: the float itself, for an int the float of equal value -/
def ReadsBack (pnum : Bytes → Option UInt64) (fmt : UInt64 → List UInt8) : Cell → Prop
  | .float b => F64.isNaN b = false → pnum (fmt b) = some b
  | .int v => pnum (intText v) = some (Num.ofDecimal (v < 0) v.natAbs 0)
  | _ => True

/-! ## One cell -/

theorem cell_link (pnum : Bytes → Option UInt64) (fmt : UInt64 → List UInt8) (ty : CType) (x : Cell)
    (ht : CellTyped ty x) (hr : ReadsBack pnum fmt x) :
    jsonNumsOk pnum (C14ToJson.cellVal fmt x) = true ∧ jsonTy (C14ToJson.cellVal fmt x) = some (plainTy ty) ∧
    jsonCell pnum (plainTy ty) (C14ToJson.cellVal fmt x) = some (convCell x) := by
  cases ty <;> cases x <;> simp only [CellTyped] at ht
  · -- int
    simp only [ReadsBack] at hr
    simp [C14ToJson.cellVal, jsonNumsOk, jsonTy, jsonCell, plainTy, convCell, hr]
  · -- float
    simp only [ReadsBack] at hr
    have := hr ht
    simp [C14ToJson.cellVal, jsonNumsOk, jsonTy, jsonCell, plainTy, convCell, ht, this]
  · simp [C14ToJson.cellVal, jsonNumsOk, jsonTy, jsonCell, plainTy, convCell]
  · rename_i s
    cases s <;> simp [C14ToJson.cellVal, jsonNumsOk, jsonTy, jsonCell, plainTy, convCell]
  · rename_i s
    cases s <;> simp [C14ToJson.cellVal, jsonNumsOk, jsonTy, jsonCell, plainTy, convCell]

/-! ## Lists -/

theorem mapM_map {α β γ : Type} (f : β → Option γ) (g : α → β) (h : α → γ) :
    ∀ l : List α, (∀ x ∈ l, f (g x) = some (h x)) → (l.map g).mapM f = some (l.map h) := by
  intro l
  induction l with
  | nil => intro _; rfl
  | cons a t ih =>
    intro hx
    simp only [List.map_cons, List.mapM_cons, hx a (by simp), ih (fun x hm => hx x (by simp [hm]))]
    rfl

theorem dedup_go (l acc : List Bytes) (h : (acc ++ l).Nodup) :
    l.foldl (fun acc x => if acc.contains x then acc else acc ++ [x]) acc = acc ++ l := by
  induction l generalizing acc with
  | nil => simp
  | cons x xs ih =>
    have hx : x ∉ acc := by
      intro hm
      have := List.nodup_append.mp h
      exact this.2.2 x hm x (by simp) rfl
    have hc : acc.contains x = false := by simpa using hx
    simp only [List.foldl_cons, hc, Bool.false_eq_true, if_false]
    rw [ih (acc ++ [x]) (by simpa using h)]
    simp

theorem dedup_nodup (l : List Bytes) (h : l.Nodup) : dedup l = l := by
  unfold dedup
  simpa using dedup_go l [] (by simpa using h)

/-- in a list of members with distinct names every name finds its own member -/
theorem get_member {α : Type} (key : α → Bytes) (val : α → JVal) : ∀ (l : List α), (l.map key).Nodup → ∀ c ∈ l,
    jrecGet (l.map fun x => (key x, val x)) (key c) = some (val c) := by
  intro l
  induction l with
  | nil => intro _ c hc; cases hc
  | cons a t ih =>
    intro hnd c hc
    have hnd' : (key a :: t.map key).Nodup := hnd
    obtain ⟨ha, ht⟩ := List.nodup_cons.mp hnd'
    unfold jrecGet
    simp only [List.map_cons, List.reverse_cons, List.find?_append]
    rcases List.mem_cons.mp hc with rfl | hc
    · have hnone : (t.map fun x => (key x, val x)).reverse.find? (·.1 == key c) = none := by
        rw [List.find?_eq_none]
        intro p hp
        simp only [List.mem_reverse, List.mem_map] at hp
        obtain ⟨y, hy, rfl⟩ := hp
        simp only [beq_iff_eq]
        intro e
        exact ha (List.mem_map.mpr ⟨y, hy, e⟩)
      simp [hnone]
    · have := ih ht c hc
      unfold jrecGet at this
      cases hf : (t.map fun x => (key x, val x)).reverse.find? (·.1 == key c) with
      | none => rw [hf] at this; simp at this
      | some p => rw [hf] at this; simpa using this

/-! ## The document -/

section Doc
variable (pnum : Bytes → Option UInt64) (fmt : UInt64 → List UInt8) (f : LFrame)

/-- the records of the document `ToJSON` writes -/
def recsOf : List JRec := (List.range f.n).map (fun r => f.cols.map (kv fmt r))

theorem records_expected : jsonRecords (expected fmt f) = some (recsOf fmt f) := by
  unfold expected jsonRecords recsOf
  exact mapM_map jsonRecordOf (rowVal fmt f) (fun r => f.cols.map (kv fmt r)) _ (fun _ _ => rfl)

theorem numsOkM_map (r : Nat) : ∀ (cs : List LCol), (∀ c ∈ cs, jsonNumsOk pnum (C14ToJson.cellVal fmt c.cells[r]!) = true) →
    jsonNumsOkM pnum (cs.map (kv fmt r)) = true := by
  intro cs
  induction cs with
  | nil => intro _; simp [jsonNumsOkM]
  | cons c cs ih =>
    intro h
    simp only [List.map_cons, kv, jsonNumsOkM, h c (by simp), Bool.true_and]
    exact ih (fun c' hc' => h c' (by simp [hc']))

theorem numsOkL_map : ∀ (rs : List Nat), (∀ r ∈ rs, jsonNumsOk pnum (rowVal fmt f r) = true) →
    jsonNumsOkL pnum (rs.map (rowVal fmt f)) = true := by
  intro rs
  induction rs with
  | nil => intro _; simp [jsonNumsOkL]
  | cons r rs ih =>
    intro h
    simp only [List.map_cons, jsonNumsOkL, h r (by simp), Bool.true_and]
    exact ih (fun r' hr' => h r' (by simp [hr']))

variable (ht : JsonTyped f) (hr : ∀ c ∈ f.cols, ∀ r, r < f.n → ReadsBack pnum fmt c.cells[r]!)
include ht hr

theorem numsOk_expected : jsonNumsOk pnum (expected fmt f) = true := by
  unfold expected
  rw [jsonNumsOk]
  apply numsOkL_map
  intro r hrm
  have hrn : r < f.n := List.mem_range.mp hrm
  unfold rowVal
  rw [jsonNumsOk]
  apply numsOkM_map
  intro c hc
  exact (cell_link pnum fmt c.ty _ (ht.typed c hc r hrn) (hr c hc r hrn)).1

omit hr in
theorem head_recs : (recsOf fmt f).head? = some (f.cols.map (kv fmt 0)) := by
  unfold recsOf
  have : f.n ≠ 0 := Nat.ne_of_gt ht.rows
  simp [List.head?_range, this]

omit hr in
theorem get_cell (r : Nat) (c : LCol) (hc : c ∈ f.cols) :
    jrecGet (f.cols.map (kv fmt r)) (sanitize c.name) = some (C14ToJson.cellVal fmt c.cells[r]!) :=
  get_member (fun c : LCol => sanitize c.name) (fun c => C14ToJson.cellVal fmt c.cells[r]!) f.cols ht.names c hc

theorem column_link (c : LCol) (hc : c ∈ f.cols) : jsonColumnS pnum (recsOf fmt f) (sanitize c.name) = some (plainCol c) := by
  have hhead := head_recs fmt f ht
  have hmap : (recsOf fmt f).mapM (fun r => (jrecGet r (sanitize c.name)).bind (jsonCell pnum (plainTy c.ty))) =
      some ((List.range f.n).map fun r => convCell c.cells[r]!) := by
    unfold recsOf
    apply mapM_map
    intro r hrm
    have hrn : r < f.n := List.mem_range.mp hrm
    rw [get_cell fmt f ht r c hc]
    exact (cell_link pnum fmt c.ty _ (ht.typed c hc r hrn) (hr c hc r hrn)).2.2
  have hcells : ((List.range f.n).map fun r => convCell c.cells[r]!).toArray = c.cells.map convCell := by
    apply Array.ext
    · simp [ht.size c hc]
    · intro i h1 h2
      have hi : i < c.cells.size := by simpa using h2
      simp [hi]
  cases hrecs : recsOf fmt f with
  | nil => rw [hrecs] at hhead; cases hhead
  | cons r0 rest =>
    rw [hrecs] at hhead hmap
    simp only [List.head?_cons, Option.some.injEq] at hhead
    subst hhead
    simp only [jsonColumnS]
    rw [get_cell fmt f ht 0 c hc]
    simp only [Option.bind_some, (cell_link pnum fmt c.ty _ (ht.typed c hc 0 ht.rows) (hr c hc 0 ht.rows)).2.1, hmap,
      Option.map_some, hcells]
    rfl

/-- **the columns `UnmarshalJSON` makes of what `ToJSON` wrote** -/
theorem doc_link : jsonDocS pnum (expected fmt f) = some (f.cols.map plainCol) := by
  unfold jsonDocS
  rw [numsOk_expected pnum fmt f ht hr, records_expected]
  simp only [if_true, Option.bind_some]
  have hhead := head_recs fmt f ht
  cases hrecs : recsOf fmt f with
  | nil => rw [hrecs] at hhead; cases hhead
  | cons r0 rest =>
    rw [hrecs] at hhead
    simp only [List.head?_cons, Option.some.injEq] at hhead
    simp only [jsonDataS]
    have hkeys : jrecKeys r0 = f.cols.map fun c => sanitize c.name := by
      rw [hhead]
      unfold jrecKeys
      rw [List.map_map]
      exact dedup_nodup _ ht.names
    rw [hkeys, ← hrecs]
    exact mapM_map (jsonColumnS pnum (recsOf fmt f)) (fun c : LCol => sanitize c.name) plainCol f.cols
      (fun c hc => column_link pnum fmt f ht hr c hc)

end Doc

/-! ## `New` on the data map: the columns sorted by name -/

section New
open QF.Props.C08Construct (specCol build_cons build_nil newS_after_prefix)
open QF.Props.C08Guards (specOrder newPrefixRejects sortNames_length sortNames_mem)

/-- a column as `ReadJSON`'s data map holds it -/
structure PlainOk (n : Nat) (c : LCol) : Prop where
  legal : legalName c.name = true
  size : c.cells.size = n
  ty : c.ty = .float ∨ c.ty = .bool ∨ c.ty = .string
  vals : c.vals = []
  strict : c.strict = false

theorem specCol_plain {n : Nat} (used : List Bytes) (c : LCol) (h : PlainOk n c) :
    specCol [] used c.toNewCol = some (c, used) := by
  obtain ⟨name, ty, vals, strict, cells⟩ := c
  obtain ⟨_, _, hty, hv, hs⟩ := h
  simp only at hty hv hs
  subst hv hs
  rcases hty with rfl | rfl | rfl <;> simp [specCol, LCol.toNewCol]

theorem build_plain {n : Nat} : ∀ (ordered : List LCol) (used : List Bytes), (∀ c ∈ ordered, PlainOk n c) →
    newS.build [] (n : Int) used (ordered.map LCol.toNewCol) = some (ordered, used) := by
  intro ordered
  induction ordered with
  | nil => intro used _; exact build_nil [] n used
  | cons c cs ih =>
    intro used h
    have hc := h c (by simp)
    have hcount : c.toNewCol.count = (n : Int) := by simp [LCol.toNewCol, hc.size]
    rw [List.map_cons, build_cons, specCol_plain used c hc, hcount]
    have h1 : ¬ ((n : Int) < 0) := by omega
    simp only [h1, if_false, bne_self_eq_false, Bool.false_eq_true, ih used (fun c' hc' => h c' (by simp [hc']))]

theorem find_toNewCol (cols : List LCol) (x : Bytes) :
    (cols.map LCol.toNewCol).find? (·.name == x) = (cols.find? (·.name == x)).map LCol.toNewCol := by
  induction cols with
  | nil => rfl
  | cons c cs ih =>
    simp only [List.map_cons, List.find?_cons]
    have : (c.toNewCol.name == x) = (c.name == x) := rfl
    rw [this]
    cases c.name == x <;> simp [ih]

theorem ordered_eq (cols : List LCol) :
    (specOrder (cols.map LCol.toNewCol) []).filterMap (fun x => (cols.map LCol.toNewCol).find? (·.name == x)) =
      (sortByName cols).map LCol.toNewCol := by
  have hn : (cols.map LCol.toNewCol).map (·.name) = cols.map (·.name) := by simp [LCol.toNewCol]
  unfold specOrder sortByName
  simp only [List.isEmpty_nil, if_true, hn]
  have hfun : (fun x => (cols.map LCol.toNewCol).find? (·.name == x)) =
      fun x => (cols.find? (·.name == x)).map LCol.toNewCol := funext (find_toNewCol cols)
  rw [hfun]
  generalize sortNames (cols.map (·.name)) = l
  induction l with
  | nil => rfl
  | cons x xs ih =>
    simp only [List.filterMap_cons]
    cases cols.find? (·.name == x) with
    | none => simp only [Option.map_none]; exact ih
    | some c => simp only [Option.map_some, List.map_cons, ih]

theorem sortByName_mem {cols : List LCol} {c : LCol} (h : c ∈ sortByName cols) : c ∈ cols := by
  obtain ⟨x, _, hx⟩ := List.mem_filterMap.mp h
  exact List.mem_of_find?_eq_some hx

theorem sortByName_ne_nil {cols : List LCol} (h : cols ≠ []) : sortByName cols ≠ [] := by
  unfold sortByName
  cases hs : sortNames (cols.map (·.name)) with
  | nil =>
    have := sortNames_length (cols.map (·.name))
    rw [hs] at this
    cases cols with
    | nil => exact absurd rfl h
    | cons _ _ => simp at this
  | cons x xs =>
    have hx : x ∈ cols.map (·.name) := (sortNames_mem x _).mp (by rw [hs]; simp)
    obtain ⟨c, hc, rfl⟩ := List.mem_map.mp hx
    cases hf : cols.find? (·.name == c.name) with
    | none =>
      have := List.find?_eq_none.mp hf c hc
      simp at this
    | some c' => simp [hf]

/-- **`New` without configuration on a data map of float / bool / string columns of one length**: the columns sorted by name -/
theorem newS_plain {n : Nat} (cols : List LCol) (hne : cols ≠ []) (hok : ∀ c ∈ cols, PlainOk n c) :
    newS (cols.map LCol.toNewCol) [] [] = .ok { cols := sortByName cols, n := n } := by
  have hp : ¬ newPrefixRejects (cols.map LCol.toNewCol) [] := by
    unfold newPrefixRejects
    rintro (h | h | h)
    · rw [List.all_eq_false] at h
      obtain ⟨c', hc', hl⟩ := h
      obtain ⟨c, hc, rfl⟩ := List.mem_map.mp hc'
      exact hl (hok c hc).legal
    · apply h
      unfold specOrder
      simp [sortNames_length]
    · rw [List.all_eq_false] at h
      obtain ⟨x, hx, hl⟩ := h
      apply hl
      unfold specOrder at hx
      simp only [List.isEmpty_nil, if_true] at hx
      have := (sortNames_mem x _).mp hx
      rw [List.any_eq_true]
      obtain ⟨c', hc', rfl⟩ := List.mem_map.mp this
      exact ⟨c', hc', by simp⟩
  rw [newS_after_prefix _ _ _ hp, ordered_eq]
  have hsub : ∀ c ∈ sortByName cols, PlainOk n c := fun c hc => hok c (sortByName_mem hc)
  cases hs : sortByName cols with
  | nil => exact absurd hs (sortByName_ne_nil hne)
  | cons c0 rest =>
    rw [hs] at hsub
    have hcount : c0.toNewCol.count = (n : Int) := by simp [LCol.toNewCol, (hsub c0 (by simp)).size]
    simp only [List.map_cons, hcount]
    have := build_plain (n := n) (c0 :: rest) [] hsub
    simp only [List.map_cons] at this
    rw [this]
    simp

end New

/-! ## `readJsonS` of what `ToJSON` wrote -/

theorem map_cells (a : Array Cell) (g h : Cell → Cell) (H : ∀ i (hi : i < a.size), g a[i] = h a[i]) : a.map g = a.map h := by
  apply Array.ext
  · simp
  · intro i h1 h2
    have hi : i < a.size := by simpa using h1
    simp [H i hi]

theorem map_cells_id (a : Array Cell) (h : Cell → Cell) (H : ∀ i (hi : i < a.size), h a[i] = a[i]) : a.map h = a := by
  apply Array.ext
  · simp
  · intro i h1 h2
    simp [H i h2]

theorem typed_at (f : LFrame) (ht : JsonTyped f) (c : LCol) (hc : c ∈ f.cols) (i : Nat) (hi : i < c.cells.size) :
    CellTyped c.ty c.cells[i] := by
  have := ht.typed c hc i (by rw [← ht.size c hc]; exact hi)
  rwa [getElem!_pos c.cells i hi] at this

theorem plainOk_of (f : LFrame) (ht : JsonTyped f) (c : LCol) (hc : c ∈ f.cols) : PlainOk f.n (plainCol c) where
  legal := ht.legal c hc
  size := by simp [plainCol, ht.size c hc]
  ty := by
    have h0 := ht.typed c hc 0 ht.rows
    show plainTy c.ty = .float ∨ plainTy c.ty = .bool ∨ plainTy c.ty = .string
    cases hty : c.ty <;> simp [plainTy]
    rw [hty] at h0
    cases hx : c.cells[0]! <;> rw [hx] at h0 <;> exact h0
  vals := rfl
  strict := rfl

/-- the driver's `jsonReread f` without what only `ColumnOrder` / `Enums` could supply -/
theorem unconfigured_reread (f : LFrame) (ht : JsonTyped f) :
    jsonUnconfigured (jsonReread f) = { n := f.n, cols := sortByName (f.cols.map plainCol) } := by
  unfold jsonUnconfigured jsonReread
  simp only [List.map_map]
  congr 2
  apply List.map_congr_left
  intro c hc
  have hcell := typed_at f ht c hc
  simp only [Function.comp]
  cases hty : c.ty with
  | int =>
    simp only [plainCol, hty, plainTy]
    congr 1
    apply map_cells
    intro i hi
    have := hcell i hi
    rw [hty] at this
    cases hx : c.cells[i] <;> rw [hx] at this <;> first | rfl | exact this.elim
  | float =>
    simp only [plainCol, hty, plainTy]
    congr 1
    symm
    apply map_cells_id
    intro i hi
    have := hcell i hi
    rw [hty] at this
    cases hx : c.cells[i] <;> rw [hx] at this <;> first | rfl | exact this.elim
  | bool =>
    simp only [plainCol, hty, plainTy]
    congr 1
    symm
    apply map_cells_id
    intro i hi
    have := hcell i hi
    rw [hty] at this
    cases hx : c.cells[i] <;> rw [hx] at this <;> first | rfl | exact this.elim
  | string =>
    simp only [plainCol, hty, plainTy]
    congr 1
    apply map_cells
    intro i hi
    have := hcell i hi
    rw [hty] at this
    cases hx : c.cells[i] <;> rw [hx] at this <;> first | exact this.elim | skip
    rename_i s
    cases s <;> rfl
  | enum =>
    have hcells : (c.cells.map fun x => match x with | .str (some s) => Cell.str (some (sanitize s)) | y => y) = c.cells.map convCell := by
      apply map_cells
      intro i hi
      have := hcell i hi
      rw [hty] at this
      cases hx : c.cells[i] <;> rw [hx] at this <;> first | exact this.elim | skip
      rename_i s
      cases s <;> rfl
    simp only [plainCol, hty, plainTy]
    rw [← hcells]
    split
    · split <;> (simp; intro a _; cases a <;> first | rfl | (rename_i s; cases s <;> rfl))
    · simp; intro a _; cases a <;> first | rfl | (rename_i s; cases s <;> rfl)
  | undef =>
    have := ht.typed c hc 0 ht.rows
    rw [hty] at this
    cases hx : c.cells[0]! <;> rw [hx] at this <;> exact this.elim

/-- **`ReadJSON ∘ ToJSON` on the spec side.** For every frame `f` of the read-back half of C14's quantifier (`JsonTyped`),
every float formatter `fmt` that writes a JSON number token for the frame's floats (`FrameOK`) and every float parser
`pnum` that returns, for the frame's own numbers, what they denote (`ReadsBack`): the text `ToJSON` writes parses
(RFC 8259) to a document of which `readJsonS` — `ReadJSON` without configuration functions — makes, without error, the
frame `jsonUnconfigured (jsonReread f)`: the driver's `jsonReread f` (ints as equal-valued floats, strings as a JSON
decoder returns them, bools and floats as they are) with the columns sorted by name and the enum columns as string
columns, which is all that is left when neither `ColumnOrder` nor `Enums` is supplied. -/
-- FULL STATEMENT (proved as `C14RoundTrip.readjson_tojson`; here `_partial` = the hypotheses `hok`, `hr` on formatter and parser are left):
--   theorem readjson_tojson (pnum : Bytes → Option UInt64) (hp : PnumCorrect pnum) (f : LFrame) (ht : JsonTyped f)
--       (hfin : no float cell of f is an infinity) :
--       (Json.parse (toJSON ryuFmt f)).map (readJsonS pnum) = some (.ok (jsonUnconfigured (jsonReread f)))
--   with `ryuFmt b` the text `C16Link.appendF` appends for `Ryu64.decimal` (and `0` / `-0` for the zeros).
-- Proved towards it: the float clause of `hr` (`ryu_reads_back`, `ryu_text_reads_back`). Excluded: `FrameOK` for `ryuFmt`
-- (canonical positional text ⇒ JSON number token) and the int clause of `hr` (see the head of this file).
theorem readjson_tojson_partial (pnum : Bytes → Option UInt64) (fmt : UInt64 → List UInt8) (f : LFrame) (ht : JsonTyped f)
    (hok : FrameOK fmt f) (hr : ∀ c ∈ f.cols, ∀ r, r < f.n → ReadsBack pnum fmt c.cells[r]!) :
    (Json.parse (toJSON fmt f)).map (readJsonS pnum) = some (.ok (jsonUnconfigured (jsonReread f))) := by
  rw [tojson_parses_local fmt f hok, Option.map_some, unconfigured_reread f ht]
  unfold readJsonS
  rw [doc_link pnum fmt f ht hr]
  simp only
  rw [newS_plain (n := f.n) (f.cols.map plainCol) (by simpa using ht.cols)
    (fun c' hc' => by obtain ⟨c, hc, rfl⟩ := List.mem_map.mp hc'; exact plainOk_of f ht c hc)]

/-- **`ReadJSON ∘ ToJSON` of today's source, end to end.** With the REGENERATED writer (`C14WriterGen.genToJSON`: the
assembly loop `Gen.toJsonAst`, the cell writers `Gen.appendAst`, on a writer that does not fail) and the REGENERATED
reader (`C14ReadJsonGen.genReadJson`: `Gen.readJsonAst`, `unmarshalJsonAst`, `recordsToDataAst`, `fillAsts`; for every
iteration order of Go's maps): for every frame of the read-back half of C14's quantifier whose cells are of their
columns' types (`FrameTyped`: for an enum cell a member of the value table), `ToJSON` returns no error, the bytes it
handed to `Write` are a JSON text (RFC 8259), and `ReadJSON` of the document they denote returns, without error, the
frame `jsonUnconfigured (jsonReread f)` — the driver's `jsonReread f` with the columns sorted by name and the enum columns
as strings (no `ColumnOrder`, no `Enums`). -/
theorem gen_json_roundtrip_end_to_end_partial (pnum : Bytes → Option UInt64) (fmt : UInt64 → List UInt8)
    (iter : GoMap → GoMap) (hiter : ∀ m, (iter m).Perm m) (f : LFrame) (ht : JsonTyped f)
    (hf : C09Observe.FrameTyped f) (hok : FrameOK fmt f)
    (hr : ∀ c ∈ f.cols, ∀ r, r < f.n → ReadsBack pnum fmt c.cells[r]!) :
    ∃ ws doc, C14WriterGen.genToJSON fmt f (fun _ => false) = some (ws, false) ∧ Json.parse ws.flatten = some doc ∧
      C14ReadJsonGen.genReadJson pnum iter doc = some (.ok (jsonUnconfigured (jsonReread f))) := by
  obtain ⟨ws, h1, _, h3, _⟩ := C14WriterGen.gen_tojson_semantics fmt f hf
  have hrt := readjson_tojson_partial pnum fmt f ht hok hr
  rw [← h3] at hrt
  cases hp : Json.parse ws.flatten with
  | none => rw [hp] at hrt; cases hrt
  | some doc =>
    rw [hp] at hrt
    simp only [Option.map_some, Option.some.injEq] at hrt
    exact ⟨ws, doc, h1, hp, by rw [C14ReadJsonGen.gen_readjson_frame pnum iter hiter doc, hrt]⟩

/-! ## The hypotheses on formatter and parser -/

/-- `pnum` is a correct IEEE parser of number tokens: for a token that denotes the decimal `m · 10^d` it returns the
correctly rounded float64 (`Num.ofDecimal`, proved nearest-even in `C16Round`) unless that is an infinity (out of range). -/
def PnumCorrect (pnum : Bytes → Option UInt64) : Prop :=
  ∀ t neg m d, Num.parseNumber t = some (neg, m, d) →
    ((Num.ofDecimal neg m d &&& 0x7fffffffffffffff) == 0x7ff0000000000000) = false → pnum t = some (Num.ofDecimal neg m d)

/-- the parser the replay driver uses is one -/
theorem pnumS_correct : PnumCorrect pnumS := by
  intro t neg m d h1 h2
  simp only [pnumS, h1, h2, Bool.false_eq_true, if_false]

/-- **A float reads back** whenever the formatter's text denotes it as a JSON number (`Num.parseNumber`, exponent form
allowed) under correct rounding and it is finite — what `C16Link.ryu_text_is_shortest` proves of the Ryu pipeline's text
(`Num.parsesTo b text`, positional form) — for every correct parser. -/
theorem float_reads_back (pnum : Bytes → Option UInt64) (hp : PnumCorrect pnum) (fmt : UInt64 → List UInt8) (b : UInt64)
    (hfin : ((b &&& 0x7fffffffffffffff) == 0x7ff0000000000000) = false)
    (hden : ∃ neg m d, Num.parseNumber (fmt b) = some (neg, m, d) ∧ Num.ofDecimal neg m d = b) :
    ReadsBack pnum fmt (.float b) := by
  intro _
  obtain ⟨neg, m, d, h1, h2⟩ := hden
  have := hp (fmt b) neg m d h1 (by rw [h2]; exact hfin)
  rw [this, h2]

/-! ### Positional texts: `Num.parsesTo` (what C16 proves of the Ryu text) gives the float clause of `ReadsBack` -/

def isD (c : UInt8) : Bool := 48 ≤ c && c ≤ 57
def isE (c : UInt8) : Bool := c == 101 || c == 69

theorem isD_notE (c : UInt8) (h : isD c = true) : (!isE c) = true := by
  unfold isE
  cases h1 : c == 101
  · cases h2 : c == 69
    · rfl
    · have : c = 69 := eq_of_beq h2
      subst this; revert h; decide
  · have : c = 101 := eq_of_beq h1
    subst this; revert h; decide

theorem mem_takeWhile {α} (p : α → Bool) : ∀ (l : List α) (x : α), x ∈ l.takeWhile p → p x = true := by
  intro l
  induction l with
  | nil => intro x h; cases h
  | cons a t ih =>
    intro x h
    rw [List.takeWhile_cons] at h
    cases ha : p a
    · rw [ha] at h; cases h
    · rw [ha] at h
      rcases List.mem_cons.mp h with rfl | h'
      · exact ha
      · exact ih x h'

theorem body_noE (s : List UInt8)
    (h : (match s.dropWhile isD with | [] => true | 46 :: r => r.all isD && !r.isEmpty | _ => false) = true) :
    ∀ c ∈ s, (!isE c) = true := by
  intro c hc
  rw [← List.takeWhile_append_dropWhile (p := isD) (l := s)] at hc
  rcases List.mem_append.mp hc with h1 | h1
  · exact isD_notE c (mem_takeWhile isD _ c h1)
  · cases hr : s.dropWhile isD with
    | nil => rw [hr] at h1; cases h1
    | cons x r =>
      rw [hr] at h h1
      by_cases hx : x = 46
      · subst hx
        simp only [Bool.and_eq_true] at h
        rcases List.mem_cons.mp h1 with rfl | h2
        · decide
        · exact isD_notE c (List.all_eq_true.mp h.1 c h2)
      · exfalso
        revert h
        split
        · intro _; contradiction
        · next r' heq => intro _; exact hx (by injection heq with a _)
        · intro h; cases h

theorem takeWhile_all {α} (p : α → Bool) (l : List α) (h : ∀ x ∈ l, p x = true) : l.takeWhile p = l ∧ l.dropWhile p = [] := by
  induction l with
  | nil => exact ⟨rfl, rfl⟩
  | cons a t ih =>
    have ha := h a (by simp)
    have := ih (fun x hx => h x (by simp [hx]))
    simp [ha, this.1, this.2]

theorem parseNumber_of_noE (s : List UInt8) (hs : ∀ c ∈ s, (!isE c) = true) :
    Num.parseNumber s = Num.parsePositional s := by
  unfold Num.parseNumber
  have := takeWhile_all (fun c => !(c == 101 || c == 69)) s hs
  simp only [this.1, this.2]
  cases Num.parsePositional s with
  | none => rfl
  | some p => obtain ⟨a, b, c⟩ := p; rfl

theorem positional_noE (s : List UInt8) (p : Bool × Nat × Int) (h : Num.parsePositional s = some p) :
    ∀ c ∈ s, (!isE c) = true := by
  have key : ∀ (neg : Bool) (s' : List UInt8),
      (let ip := s'.takeWhile isD
       let rest := s'.dropWhile isD
       let (fp, ok) := (match rest with
         | [] => (([] : List UInt8), true)
         | 46 :: r => (r, r.all isD && !r.isEmpty)
         | _ => ([], false) : List UInt8 × Bool)
       if !ok || ip.isEmpty then none else
       let digits := ip ++ fp
       let m := digits.foldl (fun acc c => acc * 10 + (c.toNat - 48)) 0
       (some (neg, m, -(fp.length : Int)) : Option (Bool × Nat × Int))) = some p → ∀ c ∈ s', (!isE c) = true := by
    intro neg s' h'
    apply body_noE
    simp only at h'
    cases hr : s'.dropWhile isD with
    | nil => rfl
    | cons x r =>
      rw [hr] at h'
      by_cases hx : x = 46
      · subst hx
        simp only at h' ⊢
        by_cases hok : (r.all isD && !r.isEmpty) = true
        · exact hok
        · simp [hok] at h'
      · exfalso
        revert h'
        split
        · next heq => cases heq
        · next r' heq => exact absurd (by injection heq with a _) hx
        · simp
  unfold Num.parsePositional at h
  cases s with
  | nil => intro c hc; cases hc
  | cons a t =>
    by_cases ha : a = 45
    · subst ha
      intro c hc
      rcases List.mem_cons.mp hc with rfl | hc'
      · decide
      · exact key true t h c hc'
    · intro c hc
      split at h
      next neg s' heq =>
      have h2 : (neg, s') = (false, a :: t) := by
        rw [← heq]
        split
        · next r heq2 => exact absurd (by injection heq2 with x _) ha
        · rfl
      injection h2 with e1 e2
      subst e1 e2
      exact key false (a :: t) h c hc

/-- **The Ryu text reads back.** A finite float whose text passes `Num.parsesTo b` — positional notation that denotes `b`
under correct rounding: the second conclusion of `C16Link.ryu_text_is_shortest` for the text `C16Link.appendF` appends,
for every finite non-zero float64 and every buffer state — is returned by every correct parser. -/
theorem ryu_reads_back (pnum : Bytes → Option UInt64) (hp : PnumCorrect pnum) (fmt : UInt64 → List UInt8) (b : UInt64)
    (hfin : ((b &&& 0x7fffffffffffffff) == 0x7ff0000000000000) = false) (hpt : Num.parsesTo b (fmt b) = true) :
    ReadsBack pnum fmt (.float b) := by
  apply float_reads_back pnum hp fmt b hfin
  unfold Num.parsesTo at hpt
  cases hpp : Num.parsePositional (fmt b) with
  | none => rw [hpp] at hpt; cases hpt
  | some p =>
    obtain ⟨neg, m, d⟩ := p
    rw [hpp] at hpt
    refine ⟨neg, m, d, ?_, eq_of_beq hpt⟩
    rw [parseNumber_of_noE _ (positional_noE _ _ hpp), hpp]

open QF.Ryu64 QF.Props.C16Core QF.Props.C16Link in
/-- instantiated with `C16Link.ryu_text_is_shortest`: for every finite non-zero float64 `b` the text the Ryu pipeline
appends to an empty buffer reads back as `b` through every correct parser -/
theorem ryu_text_reads_back (pnum : Bytes → Option UInt64) (hp : PnumCorrect pnum) (b : UInt64) (dy : Num.Dyadic)
    (hd : Num.decode b = some dy) (h0 : dy.m ≠ 0) (buf : AF.Buf) (extraS extra0 extra : List AF.Byte)
    (hfin : ((b &&& 0x7fffffffffffffff) == 0x7ff0000000000000) = false) :
    ∃ text, (appendF buf dy.neg (decimal (mantOf b) (expOf b)).1
        (decimal (mantOf b) (expOf b)).2.1 extraS extra0 extra).content = buf.content ++ text ∧
      ∀ fmt : UInt64 → List UInt8, fmt b = text → ReadsBack pnum fmt (.float b) := by
  obtain ⟨text, h1, _, h3, _⟩ := ryu_text_is_shortest b dy hd h0 buf extraS extra0 extra
  exact ⟨text, h1, fun fmt hf => ryu_reads_back pnum hp fmt b hfin (by rw [hf]; exact h3)⟩

/-! ## A concrete input that meets the hypotheses -/

section Example

/-- `a: [1, -2]` (int), `s: ["x", null]` (string), `b: [true, false]`, `e: ["hi", "lo"]` (enum, declared `lo, hi`) -/
def exF : LFrame :=
  { n := 2
    cols := [{ name := [115], ty := .string, cells := #[.str (some [120]), .str none] },
             { name := [97], ty := .int, cells := #[.int 1, .int (-2)] },
             { name := [98], ty := .bool, cells := #[.bool true, .bool false] },
             { name := [101], ty := .enum, vals := [[108, 111], [104, 105]], strict := true,
               cells := #[.str (some [104, 105]), .str (some [108, 111])] }] }

/-- the hypotheses of `readjson_tojson_partial` / `gen_json_roundtrip_end_to_end_partial` on the frame hold for it (no float column:
`FrameOK` and the float clause of `ReadsBack` are empty; the int clause is what a correct parser does on `1` and `-2`) -/
example : JsonTyped exF ∧ FrameOK (fun _ => [48]) exF := by
  refine ⟨⟨by decide, by decide, ?_, ?_, by decide, ?_⟩, ?_⟩
  · intro c hc
    simp only [exF, List.mem_cons, List.not_mem_nil, or_false] at hc
    rcases hc with rfl | rfl | rfl | rfl <;> rfl
  · intro c hc r hr
    simp only [exF, List.mem_cons, List.not_mem_nil, or_false] at hc
    have : r = 0 ∨ r = 1 := by simp only [exF] at hr; omega
    rcases hc with rfl | rfl | rfl | rfl <;> rcases this with rfl | rfl <;> simp [CellTyped]
  · intro c hc
    simp only [exF, List.mem_cons, List.not_mem_nil, or_false] at hc
    rcases hc with rfl | rfl | rfl | rfl <;> decide
  · intro c hc r hr b hb
    simp only [exF, List.mem_cons, List.not_mem_nil, or_false] at hc
    have : r = 0 ∨ r = 1 := by simp only [exF] at hr; omega
    rcases hc with rfl | rfl | rfl | rfl <;> rcases this with rfl | rfl <;> simp at hb

/-- … and what comes back is not trivial: the columns sorted by name (`a`, `b`, `e`, `s`), the int column as floats, the
enum column as strings -/
example : (jsonUnconfigured (jsonReread exF)).names = [[97], [98], [101], [115]] ∧
    (jsonUnconfigured (jsonReread exF)).cols.map (·.ty) = [.float, .bool, .string, .string] := by
  decide

end Example

end QF.Props.C14EndToEnd

#print axioms QF.Props.C14EndToEnd.readjson_tojson_partial
#print axioms QF.Props.C14EndToEnd.gen_json_roundtrip_end_to_end_partial
#print axioms QF.Props.C14EndToEnd.float_reads_back
#print axioms QF.Props.C14EndToEnd.pnumS_correct
#print axioms QF.Props.C14EndToEnd.ryu_reads_back
#print axioms QF.Props.C14EndToEnd.ryu_text_reads_back
