import QF.Props.C04GrouperTotal
import QF.Props.C04
/-!
# C04 / C05 — the grouper hash table as extracted today IS the mirror `G` (tie T1, regenerated semantics)

`QF.Gen.grouperFns` is regenerated on every run from /repo/internal/grouper/grouper.go (go/cmd/extract/grpast.go); by
`gen_grouper_canon` (C04GrouperCanon) it is `canonFns`. This file finishes the function-by-function proof

    hash, equals, newTable, calculateInitialSizeExp   C04GrouperFns
    grow (probe loop of the relocation, fold)          C04GrouperGrow
    insertEntry (growth check, probe loop, update)     C04GrouperInsert
    the mirror never fails (no KeyRel needed)          C04GrouperTotal
    groupIndex, GroupBy, Distinct                      here

and states the result:

* `gen_grouper_semantics` — for every list `cs` of comparables (any `Compare` / `Hash` functions), every index `ix` of at
  most 2^30 rows and every loop fuel ≥ 2^32: interpreting TODAY'S EXTRACTED PROGRAMS gives exactly the mirror's table
  (`G.groupIndex`, slot by slot), its statistics (all five, `RelocationCollisions` included), the groups of `G.groupBy`
  in slot order and the result of `G.distinct`, with `hash := hashOf cs`, `eqv := eqvOf cs`.
* `gen_grouper_semantics_abs` — the same for an arbitrary `hash : Nat → Nat` and `eqv : Nat → Nat → Bool` (the abstraction
  of QF/Core/Grouper.lean), through the comparable `cmpOf hash eqv`.
* `gen_groupBy_partition` — hence the regenerated `GroupBy` partitions the rows by key equality (`C04.groupBy_partition`).

Bounds: 2^30 rows keep `uint32(growthFactor * len(t.entries))` from wrapping (a table of 2^31 slots would "grow" to 0
slots and the next probe would index out of range; with more than 2^30 distinct keys the real code does that — not a
property violation in any reachable frame, and outside the theorem). The float load factor is the exact fraction (see
QF/Core/GLExpr.lean): the growth test is `2 * groupCount > len(entries)`.
-/
namespace QF.Props.C04GrouperGen
open QF QF.GL
set_option linter.unusedSimpArgs false
set_option linter.unusedVariables false

/-! ## `groupIndex` -/

theorem insert_loop (F n : Nat) (hF : M32 ≤ F) (cs : List Cmp) (collect : Bool) :
    ∀ (rest : List Nat) (j m : Nat) (t t' : G.Tbl) (σ : Store), TInv t m → m + rest.length ≤ 2 ^ 30 →
      σ 4 = some (.tbl (encTbl cs collect t)) →
      rest.foldlM (fun t i => G.insertEntry {} (hashOf cs) (eqvOf cs) t i collect) t = some t' →
      ∃ σ', loop (stepOf (env F (n+2)) none (some 5) insertBody) (rest.map Val.u32) j σ = .next σ' ∧
        σ' 4 = some (.tbl (encTbl cs collect t')) ∧ σ' 0 = σ 0 := by
  intro rest
  induction rest with
  | nil =>
    intro j m t t' σ _ _ h4 hf
    simp at hf
    exact ⟨σ, rfl, by rw [h4, hf], rfl⟩
  | cons i rest ih =>
    intro j m t t' σ inv hm h4 hf
    simp only [List.length_cons] at hm
    obtain ⟨t1, h1, inv1⟩ := insertEntry_total (hashOf cs) (eqvOf cs) t m inv (by omega) i collect
    simp only [List.foldlM_cons, h1, Option.bind_eq_bind, Option.bind_some] at hf
    obtain ⟨k, hk⟩ := inv.pow
    have hcall := call_insertEntry F n cs collect t t1 i k hk (by rw [M32_eq]; have := inv.sz; omega) inv.den
      (fun hc => by have := inv.grow_ok (by omega) hc; rw [M32_eq]; omega) (by rw [M32_eq]; have := inv.gc; omega) hF h1
    obtain ⟨σ', g1, g2, g3⟩ := ih (j + 1) (m + 1) t1 t' ((σ.set 5 (.u32 i)).set 4 (.tbl (encTbl cs collect t1))) inv1 (by omega)
      (by simp [set_apply]) hf
    refine ⟨σ', ?_, g2, by simp [g3, set_apply]⟩
    simp only [List.map_cons, loop, stepOf]
    exec_simp [h4, hcall]
    exact g1

/-- `groupIndex(ix, comparables, collectIx)` returns the slots and the statistics of the mirror's `G.groupIndex` -/
theorem call_groupIndex (F n : Nat) (hF : M32 ≤ F) (cs : List Cmp) (collect : Bool) (ix : List Nat) (hlen : ix.length ≤ 2 ^ 30) (t : G.Tbl)
    (hg : G.groupIndex {} (hashOf cs) (eqvOf cs) ix collect = some t) :
    callAt canonFns F (n+3) .groupIndex [.rows (some ix), .cmps cs, .bool collect] =
      some (.pair (.entries (encSlots t.slots)) (.stats (finalStats t)), some (.rows (some ix))) := by
  rw [callAt_succ F (n+2) _ _ look_groupIndex]
  have hc1 := call_initialSizeExp F n ix.length (by rw [M64_eq]; omega)
  have hc2 := call_newTable F n (G.initialSizeExp ix.length) (by have := initialSizeExp_le ix.length hlen; omega) cs collect
  unfold G.groupIndex at hg
  let σ4 : Store := ((((Store.empty.set 0 (.rows (some ix))).set 1 (.cmps cs)).set 2 (.bool collect)).set 3 (.int (G.initialSizeExp ix.length))).set 4
    (.tbl (encTbl cs collect { slots := Array.replicate (2 ^ G.initialSizeExp ix.length) none }))
  obtain ⟨σ', g1, g2, g3⟩ := insert_loop F n hF cs collect ix 0 0 _ t σ4 (init_TInv ix.length hlen) (by omega) (by simp [σ4, set_apply]) hg
  simp only [σ4] at g1
  simp [σ4, set_apply] at g3
  exec_simp [runFn, fnGroupIndex, hc1, hc2, g1, g2, g3, finalStats, encStats]

/-! ## `GroupBy`, `Distinct` -/

/-- the groups in slot order; a group of one row has no slice of its own -/
def groupsOf (l : List (Option G.Entry)) : List (List Nat) :=
  l.filterMap fun s => s.map fun e => if e.ix.isEmpty then [e.firstPos] else e.ix

/-- the first rows in slot order -/
def firstsOf (l : List (Option G.Entry)) : List Nat := l.filterMap fun s => s.map (·.firstPos)

theorem collectGroups_loop (Γ : Env) : ∀ (l : List (Option G.Entry)) (j : Nat) (σ : Store) (acc : List (List Nat)),
    σ 4 = some (.groups acc) →
    ∃ σ', loop (stepOf Γ none (some 5) collectGroupsBody) (l.map fun x => Val.entry (encEntry x)) j σ = .next σ' ∧
      σ' 4 = some (.groups (acc ++ groupsOf l)) ∧ σ' 3 = σ 3 ∧ σ' 0 = σ 0 := by
  intro l
  induction l with
  | nil => intro j σ acc h4; exact ⟨σ, rfl, by simp [groupsOf, h4], rfl, rfl⟩
  | cons x l ih =>
    intro j σ acc h4
    cases x with
    | none =>
      obtain ⟨σ', g1, g2, g3, g0⟩ := ih (j + 1) (σ.set 5 (.entry (encEntry none))) acc (by simp [set_apply, h4])
      refine ⟨σ', ?_, by simpa [groupsOf] using g2, by simp [g3, set_apply], by simp [g0, set_apply]⟩
      simp only [List.map_cons, loop, stepOf]
      exec_simp [encEntry]
      simpa [encEntry] using g1
    | some e =>
      cases he : e.ix.isEmpty
      · have he' : ¬ (e.ix = []) := by intro h; simp [h] at he
        obtain ⟨σ', g1, g2, g3, g0⟩ := ih (j + 1) ((σ.set 5 (.entry (encEntry (some e)))).set 4 (.groups (acc ++ [e.ix]))) (acc ++ [e.ix])
          (by simp [set_apply])
        refine ⟨σ', ?_, by simpa [groupsOf, he'] using g2, by simp [g3, set_apply], by simp [g0, set_apply]⟩
        simp only [List.map_cons, loop, stepOf]
        exec_simp [encEntry, he, h4]
        simpa [encEntry, he] using g1
      · have he' : e.ix = [] := by simpa using he
        obtain ⟨σ', g1, g2, g3, g0⟩ := ih (j + 1) ((σ.set 5 (.entry (encEntry (some e)))).set 4 (.groups (acc ++ [[e.firstPos]]))) (acc ++ [[e.firstPos]])
          (by simp [set_apply])
        refine ⟨σ', ?_, by simpa [groupsOf, he'] using g2, by simp [g3, set_apply], by simp [g0, set_apply]⟩
        simp only [List.map_cons, loop, stepOf]
        exec_simp [encEntry, he, h4]
        simpa [encEntry, he] using g1

theorem collectFirst_loop (Γ : Env) : ∀ (l : List (Option G.Entry)) (j : Nat) (σ : Store) (acc : List Nat),
    σ 4 = some (.rows (some acc)) →
    ∃ σ', loop (stepOf Γ none (some 5) collectFirstBody) (l.map fun x => Val.entry (encEntry x)) j σ = .next σ' ∧
      σ' 4 = some (.rows (some (acc ++ firstsOf l))) ∧ σ' 0 = σ 0 := by
  intro l
  induction l with
  | nil => intro j σ acc h4; exact ⟨σ, rfl, by simp [firstsOf, h4], rfl⟩
  | cons x l ih =>
    intro j σ acc h4
    cases x with
    | none =>
      obtain ⟨σ', g1, g2, g0⟩ := ih (j + 1) (σ.set 5 (.entry (encEntry none))) acc (by simp [set_apply, h4])
      refine ⟨σ', ?_, by simpa [firstsOf] using g2, by simp [g0, set_apply]⟩
      simp only [List.map_cons, loop, stepOf]
      exec_simp [encEntry]
      simpa [encEntry] using g1
    | some e =>
      obtain ⟨σ', g1, g2, g0⟩ := ih (j + 1) ((σ.set 5 (.entry (encEntry (some e)))).set 4 (.rows (some (acc ++ [e.firstPos])))) (acc ++ [e.firstPos])
        (by simp [set_apply])
      refine ⟨σ', ?_, by simpa [firstsOf] using g2, by simp [g0, set_apply]⟩
      simp only [List.map_cons, loop, stepOf]
      exec_simp [encEntry, h4]
      simpa [encEntry] using g1

theorem finalStats_groupCount (t : G.Tbl) : (finalStats t).groupCount = (t.groupCount : Int) := rfl

theorem encSlots_elems (a : Array (Option G.Entry)) :
    (encSlots a).map Val.entry = a.toList.map (fun x => Val.entry (encEntry x)) := by simp [encSlots]

/-- `GroupBy(ix, comparables)`: the groups of the mirror table in slot order, and its statistics -/
theorem call_groupBy (F n : Nat) (hF : M32 ≤ F) (cs : List Cmp) (ix : List Nat) (hlen : ix.length ≤ 2 ^ 30) (t : G.Tbl)
    (hg : G.groupIndex {} (hashOf cs) (eqvOf cs) ix true = some t) :
    callAt canonFns F (n+4) .groupBy [.rows (some ix), .cmps cs] =
      some (.pair (.groups (groupsOf t.slots.toList)) (.stats (finalStats t)), some (.rows (some ix))) := by
  rw [callAt_succ F (n+3) _ _ look_groupBy]
  have hc := call_groupIndex F n hF cs true ix hlen t hg
  let σ4 : Store := ((((Store.empty.set 0 (.rows (some ix))).set 1 (.cmps cs)).set 2 (.entries (encSlots t.slots))).set 3 (.stats (finalStats t))).set 4
    (.groups [])
  obtain ⟨σ', g1, g2, g3, g0⟩ := collectGroups_loop (env F (n+3)) t.slots.toList 0 σ4 [] (by simp [σ4, set_apply])
  simp only [σ4] at g1
  simp [σ4, set_apply] at g3 g0
  have hnn : ¬ ((t.groupCount : Int) < 0) := by omega
  exec_simp [runFn, fnGroupBy, hc, finalStats_groupCount, hnn, encSlots_elems, g1, g2, g3, g0]

/-- `Distinct(ix, comparables)`: the first rows of the mirror table's entries in slot order -/
theorem call_distinct (F n : Nat) (hF : M32 ≤ F) (cs : List Cmp) (ix : List Nat) (hlen : ix.length ≤ 2 ^ 30) (t : G.Tbl)
    (hg : G.groupIndex {} (hashOf cs) (eqvOf cs) ix false = some t) :
    callAt canonFns F (n+4) .distinct [.rows (some ix), .cmps cs] =
      some (.rows (some (firstsOf t.slots.toList)), some (.rows (some ix))) := by
  rw [callAt_succ F (n+3) _ _ look_distinct]
  have hc := call_groupIndex F n hF cs false ix hlen t hg
  let σ4 : Store := ((((Store.empty.set 0 (.rows (some ix))).set 1 (.cmps cs)).set 2 (.entries (encSlots t.slots))).set 3 (.stats (finalStats t))).set 4
    (.rows (some []))
  obtain ⟨σ', g1, g2, g0⟩ := collectFirst_loop (env F (n+3)) t.slots.toList 0 σ4 [] (by simp [σ4, set_apply])
  simp only [σ4] at g1
  simp [σ4, set_apply] at g0
  have hnn : ¬ ((t.groupCount : Int) < 0) := by omega
  exec_simp [runFn, fnDistinct, hc, finalStats_groupCount, hnn, encSlots_elems, g1, g2, g0]

/-! ## The theorems -/

theorem M32_le_of (F : Nat) (hF : 2 ^ 32 ≤ F) : M32 ≤ F := by rw [M32_pow]; exact hF

/-- **The grouper as extracted today is the mirror.** For every list of comparables, every index of at most 2^30 rows and
every loop fuel ≥ 2^32, interpreting the programs extracted from today's /repo/internal/grouper/grouper.go yields exactly:
the mirror's table and statistics (`groupIndex`, for both values of `collectIx`), the mirror's groups in slot order with
the statistics (`GroupBy`), and the mirror's Distinct result. -/
theorem gen_grouper_semantics (cs : List Cmp) (ix : List Nat) (hlen : ix.length ≤ 2 ^ 30) (F : Nat) (hF : 2 ^ 32 ≤ F) :
    (∀ collect, interpGroupIndex Gen.grouperFns F cs ix collect =
      (G.groupIndex {} (hashOf cs) (eqvOf cs) ix collect).map fun t => (encSlots t.slots, finalStats t)) ∧
    interpGroupBy Gen.grouperFns F cs ix =
      (G.groupIndex {} (hashOf cs) (eqvOf cs) ix true).map (fun t => (groupsOf t.slots.toList, finalStats t)) ∧
    (interpGroupBy Gen.grouperFns F cs ix).map (·.1) = G.groupBy {} (hashOf cs) (eqvOf cs) ix ∧
    interpDistinct Gen.grouperFns F cs ix = G.distinct {} (hashOf cs) (eqvOf cs) ix := by
  rw [gen_grouper_canon]
  have hF' := M32_le_of F hF
  have hgb : interpGroupBy canonFns F cs ix =
      (G.groupIndex {} (hashOf cs) (eqvOf cs) ix true).map (fun t => (groupsOf t.slots.toList, finalStats t)) := by
    obtain ⟨t, ht, _⟩ := groupIndex_total (hashOf cs) (eqvOf cs) ix hlen true
    have := call_groupBy F 1 hF' cs ix hlen t ht
    simp only [interpGroupBy, depth, this, ht, Option.map_some]
  refine ⟨fun collect => ?_, hgb, ?_, ?_⟩
  · obtain ⟨t, ht, _⟩ := groupIndex_total (hashOf cs) (eqvOf cs) ix hlen collect
    have := call_groupIndex F 2 hF' cs collect ix hlen t ht
    simp only [interpGroupIndex, depth, this, ht, Option.map_some]
  · rw [hgb]; unfold G.groupBy groupsOf
    cases G.groupIndex {} (hashOf cs) (eqvOf cs) ix true <;> rfl
  · obtain ⟨t, ht, _⟩ := groupIndex_total (hashOf cs) (eqvOf cs) ix hlen false
    have := call_distinct F 1 hF' cs ix hlen t ht
    simp only [interpDistinct, depth, this, G.distinct, ht, Option.map_some, firstsOf]

/-! ## For an abstract hash function and key equality -/

theorem hashOf_cmpOf (hash : Nat → Nat) (eqv : Nat → Nat → Bool) (i : Nat) : hashOf [cmpOf hash eqv] i = hash i % M64 := by
  simp [hashOf, cmpOf]

theorem eqvOf_cmpOf (hash : Nat → Nat) (eqv : Nat → Nat → Bool) : eqvOf [cmpOf hash eqv] = eqv := by
  funext i j
  cases h : eqv i j <;> simp [eqvOf, cmpOf, h]

/-- the mirror reads the hash function only through `hash i % 2^32` -/
theorem groupIndex_congr (hash hash' : Nat → Nat) (eqv : Nat → Nat → Bool) (h : ∀ i, hash i % 2 ^ 32 = hash' i % 2 ^ 32)
    (ix : List Nat) (collect : Bool) : G.groupIndex {} hash eqv ix collect = G.groupIndex {} hash' eqv ix collect := by
  have h1 : ∀ t i, G.insertNoGrow hash eqv t i collect = G.insertNoGrow hash' eqv t i collect := by
    intro t i; unfold G.insertNoGrow; simp only [h i]
  have h2 : (fun t i => G.insertEntry {} hash eqv t i collect) = (fun t i => G.insertEntry {} hash' eqv t i collect) := by
    funext t i; unfold G.insertEntry; simp only [h1]
  unfold G.groupIndex; rw [h2]

theorem groupIndex_cmpOf (hash : Nat → Nat) (eqv : Nat → Nat → Bool) (ix : List Nat) (collect : Bool) :
    G.groupIndex {} (hashOf [cmpOf hash eqv]) (eqvOf [cmpOf hash eqv]) ix collect = G.groupIndex {} hash eqv ix collect := by
  rw [eqvOf_cmpOf]
  apply groupIndex_congr
  intro i
  rw [hashOf_cmpOf, M64_eq]
  omega

/-- **The same for the abstraction of QF/Core/Grouper.lean**: every `hash : Nat → Nat` and `eqv : Nat → Nat → Bool`. -/
theorem gen_grouper_semantics_abs (hash : Nat → Nat) (eqv : Nat → Nat → Bool) (ix : List Nat) (hlen : ix.length ≤ 2 ^ 30)
    (F : Nat) (hF : 2 ^ 32 ≤ F) :
    (∀ collect, interpGroupIndex Gen.grouperFns F [cmpOf hash eqv] ix collect =
      (G.groupIndex {} hash eqv ix collect).map fun t => (encSlots t.slots, finalStats t)) ∧
    interpGroupBy Gen.grouperFns F [cmpOf hash eqv] ix =
      (G.groupIndex {} hash eqv ix true).map (fun t => (groupsOf t.slots.toList, finalStats t)) ∧
    (interpGroupBy Gen.grouperFns F [cmpOf hash eqv] ix).map (·.1) = G.groupBy {} hash eqv ix ∧
    interpDistinct Gen.grouperFns F [cmpOf hash eqv] ix = G.distinct {} hash eqv ix := by
  obtain ⟨a, b, c, d⟩ := gen_grouper_semantics [cmpOf hash eqv] ix hlen F hF
  refine ⟨fun collect => ?_, ?_, ?_, ?_⟩
  · rw [a collect, groupIndex_cmpOf]
  · rw [b, groupIndex_cmpOf]
  · rw [c]; unfold G.groupBy; rw [groupIndex_cmpOf]
  · rw [d]; unfold G.distinct; rw [groupIndex_cmpOf]

/-- **C04 for the regenerated code**: for a key relation that is an equivalence respected by the hash and a duplicate-free
index, the `GroupBy` extracted from today's source returns groups that are exactly the key classes in frame order, cover
every row, and are pairwise disjoint and key-different. -/
theorem gen_groupBy_partition (hash : Nat → Nat) (eqv : Nat → Nat → Bool) (kr : G.KeyRel hash eqv) (ix : List Nat) (hnd : ix.Nodup)
    (hlen : ix.length ≤ 2 ^ 30) (F : Nat) (hF : 2 ^ 32 ≤ F) :
    ∃ gs st, interpGroupBy Gen.grouperFns F [cmpOf hash eqv] ix = some (gs, st) ∧
      (∀ g, g ∈ gs → ∃ f, f ∈ ix ∧ g = List.filter (G.cls eqv f) ix) ∧
      (∀ j, j ∈ ix → ∃ g, g ∈ gs ∧ j ∈ g) ∧
      ∀ g1 g2, g1 ∈ gs → g2 ∈ gs → g1 ≠ g2 → ∀ a, a ∈ g1 → ∀ b, b ∈ g2 → a ≠ b ∧ eqv a b = false := by
  obtain ⟨gs, h1, h2, h3, h4⟩ := C04.groupBy_partition hash eqv kr ix hnd
  have hc := (gen_grouper_semantics_abs hash eqv ix hlen F hF).2.2.1
  rw [h1] at hc
  cases hi : interpGroupBy Gen.grouperFns F [cmpOf hash eqv] ix with
  | none => rw [hi] at hc; cases hc
  | some r =>
    obtain ⟨gs', st⟩ := r
    rw [hi] at hc
    simp at hc
    subst hc
    exact ⟨gs', st, rfl, h2, h3, h4⟩

end QF.Props.C04GrouperGen
