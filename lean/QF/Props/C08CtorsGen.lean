import QF.Gen.Ctors
import QF.Props.C08PointerGen
import QF.Props.C08Construct
/-!
# C08 — the column constructors `createColumn` calls, of today's source (tie T1)

`QF.Gen.scolNewBytes`, `scolNew`, `scolNewStrings`, `scolNewConst`, `numCtors` (regenerated on every run by
go/cmd/extract/ctorast.go) hold `NewBytes`, `New`, `NewStrings`, `NewConst` of /repo/internal/scolumn/column.go and
`New` / `NewConst` of internal/icolumn, fcolumn, bcolumn (column_gen.go) as terms of `QF.CT` (QF/Core/Ctors.lean). They
are the primitives `Ctor.cells` / `Ctor.const` / `Ctor.blob` of `createColumn` (QF/Core/Construct.lean, C08Construct).
`qfstrings.NewPointer` is run as regenerated (`C08PointerGen`: `genNP`).

* `gen_ctors_no_opaque`, `gen_ctors_canon` — today's extraction is complete and equal to the canonical terms (`decide`).
* `gen_scolumn_new_semantics`   — for every list of optional strings within the documented limits of the packed pointer
    (every string shorter than 2^28 bytes, all of them together shorter than 2^35 bytes: /repo/internal/strings/pointer.go),
    `scolumn.New` returns the column whose data buffer is the concatenation of the strings, with one pointer per row whose
    offset is the number of bytes in front of it, whose length is the string's (0 for null) and whose null flag tells null from
    a string; every pointer stays inside the buffer, and reading row `i` back through the pointer (`stringAt`) gives the
    cell that was passed. `NewStrings` is the same on `[]string`.
* `gen_scolumn_const_semantics` — `scolumn.NewConst(val, n)`: `n` rows that all read back `val` (null included); the buffer holds `val` once.
* `gen_const_semantics`         — `NewConst(v, n)` of the int / float / bool columns is `n` cells `v`, `New(d)` is `d`.
* `gen_ctors_meet_spec_partial` — so the regenerated constructors build the spec's cell lists (`Ctors.Spec.cells`, `.const` of
    QF/Core/Construct.lean), read back cell by cell. Excluded: strings beyond the pointer's limits.
* witnesses: the offset added before the pointer is made, the null flag not set, the length of a null row not 0, a constant
  column left unfilled.
-/
namespace QF.Props.C08CtorsGen
open QF QF.CT

/-! ## Canonical terms -/

/-- `pointers[i] = NewPointer(offset, sLen, false); offset += sLen; data = append(data, *s...)` -/
def canonStrBody : CB := .setPtr .offset .lenCur false (.addOffset .lenCur (.appendCur .done))
/-- `if s == nil { pointers[i] = NewPointer(offset, 0, true) } else { … }` -/
def canonNewBody : CB := .ifNil (.setPtr .offset (.lit 0) true .done) canonStrBody

def canonNew : CN := .makeData (.makePointers .lenCells (.initOffset 0 (.rangeCells canonNewBody .retBytes)))
def canonNewStrings : CN := .makeData (.makePointers .lenCells (.initOffset 0 (.rangeCells canonStrBody .retBytes)))
def canonNewConst : CN :=
  .makeData (.makePointers .count (.ifValNil
    (.makeData (.rangePointers (.setPtr (.lit 0) (.lit 0) true .done) .retBytes))
    (.makeData (.appendVal (.rangePointers (.setPtr (.lit 0) .lenVal false .done) .retBytes)))))
def canonNewBytes : NB := .ret .ptrParam .bytesParam
def canonNum : List (CType × NC × NC) :=
  [(.int, .retParam, .makeCells (.fillVal .retLocal)), (.float, .retParam, .makeCells (.fillVal .retLocal)),
   (.bool, .retParam, .makeCells (.fillVal .retLocal))]

theorem gen_ctors_canon :
    Gen.scolNewBytes = canonNewBytes ∧ Gen.scolNew = canonNew ∧ Gen.scolNewStrings = canonNewStrings ∧
    Gen.scolNewConst = canonNewConst ∧ Gen.numCtors = canonNum := by decide

theorem gen_ctors_no_opaque :
    Gen.scolNewBytes.hasOpaque = false ∧ Gen.scolNew.hasOpaque = false ∧ Gen.scolNewStrings.hasOpaque = false ∧
    Gen.scolNewConst.hasOpaque = false ∧ (∀ e ∈ Gen.numCtors, e.2.1.hasOpaque = false ∧ e.2.2.hasOpaque = false) := by decide

/-! ## `NewPointer` as regenerated -/

/-- `qfstrings.NewPointer(offset, length, isNull)` of today's source (QF/Gen/StringsFns.lean, run with Go's arithmetic) -/
def genNP (offset length : Nat) (isNull : Bool) : Option Nat :=
  match C08PointerGen.genRun C08PointerGen.anyEnv .newPointer [.int offset, .int length, .bool isNull] with
  | some [.u64 p] => some p
  | _ => none

theorem genNP_eq (o l : Nat) (b : Bool) (ho : o < 2 ^ 35) (hl : l < 2 ^ 28) : genNP o l b = some (Small.newPointer o l b) := by
  unfold genNP
  rw [(C08PointerGen.gen_pointer_semantics _).1 o l b ho hl]

/-- today's string constructors -/
def genScolNew (cells : List (Option Bytes)) : Option SCol := runString genNP Gen.scolNewBytes { cells := cells } Gen.scolNew
def genScolNewStrings (strs : List Bytes) : Option SCol :=
  runString genNP Gen.scolNewBytes { cells := strs.map some } Gen.scolNewStrings
def genScolNewConst (val : Option Bytes) (count : Nat) : Option SCol :=
  runString genNP Gen.scolNewBytes { val := val, count := count } Gen.scolNewConst

/-! ## What a string column is read as -/

/-- `stringAt` through a pointer: null, or the bytes `data[offset : offset+length]` -/
def cellOfPtr (data : Bytes) (p : Nat) : Option Bytes :=
  if Small.pIsNull p then none else some ((data.drop (Small.pOffset p)).take (Small.pLen p))

/-- the cells of a string column, row by row -/
def readBack (c : SCol) : List (Option Bytes) := c.ptrs.map (cellOfPtr c.data)

/-- the data buffer `New` builds: the strings one after the other -/
def dataOf : List (Option Bytes) → Bytes
  | [] => []
  | none :: r => dataOf r
  | some s :: r => s ++ dataOf r

/-- the pointers `New` builds when `off` bytes are in the buffer already -/
def ptrsFrom (off : Nat) : List (Option Bytes) → List Nat
  | [] => []
  | none :: r => Small.newPointer off 0 true :: ptrsFrom off r
  | some s :: r => Small.newPointer off s.length false :: ptrsFrom (off + s.length) r

/-- the number of bytes in front of each row -/
def offsetsFrom (off : Nat) : List (Option Bytes) → List Nat
  | [] => []
  | none :: r => off :: offsetsFrom off r
  | some s :: r => off :: offsetsFrom (off + s.length) r

/-- the documented limits of the packed pointer: 2^28 bytes a string, 2^35 bytes in all -/
def Within (cells : List (Option Bytes)) : Prop :=
  (dataOf cells).length < 2 ^ 35 ∧ ∀ s, some s ∈ cells → s.length < 2 ^ 28

/-! ## The loops -/

/-- `np` is `NewPointer` wherever the pointer has room for its arguments -/
def AgreesNP (np : Nat → Nat → Bool → Option Nat) : Prop :=
  ∀ o l b, o < 2 ^ 35 → l < 2 ^ 28 → np o l b = some (Small.newPointer o l b)

theorem new_body_nil (np : Nat → Nat → Bool → Option Nat) (hnp : AgreesNP np) (I : In) (i : Nat) (D : Bytes) (ps : List Nat)
    (hi : i < ps.length) (hD : D.length < 2 ^ 35) :
    canonNewBody.run np I i (some none) { data := some D, ptrs := some ps, offset := some D.length } =
      some { data := some D, ptrs := some (ps.set i (Small.newPointer D.length 0 true)), offset := some D.length } := by
  simp only [canonNewBody, CB.run, IE.eval, hnp _ 0 true hD (by omega), hi, if_true]

theorem str_body (np : Nat → Nat → Bool → Option Nat) (hnp : AgreesNP np) (I : In) (i : Nat) (D s : Bytes) (ps : List Nat)
    (hi : i < ps.length) (hD : D.length < 2 ^ 35) (hs : s.length < 2 ^ 28) :
    canonStrBody.run np I i (some (some s)) { data := some D, ptrs := some ps, offset := some D.length } =
      some { data := some (D ++ s), ptrs := some (ps.set i (Small.newPointer D.length s.length false)),
             offset := some (D ++ s).length } := by
  simp only [canonStrBody, CB.run, IE.eval, hnp _ _ false hD hs, hi, if_true, List.length_append]

theorem new_body_str (np : Nat → Nat → Bool → Option Nat) (I : In) (i : Nat) (s : Bytes) (σ : St) :
    canonNewBody.run np I i (some (some s)) σ = canonStrBody.run np I i (some (some s)) σ := by
  simp only [canonNewBody, CB.run]

/-- the loop of `New` from row `P.length` on: the rows in front keep their pointers, the rows that are left get theirs -/
theorem new_loop (np : Nat → Nat → Bool → Option Nat) (hnp : AgreesNP np) (I : In) (cells : List (Option Bytes)) :
    ∀ (D : Bytes) (P Q : List Nat), Q.length = cells.length → D.length + (dataOf cells).length < 2 ^ 35 →
      (∀ s, some s ∈ cells → s.length < 2 ^ 28) →
      loopCells np I canonNewBody P.length cells { data := some D, ptrs := some (P ++ Q), offset := some D.length } =
        some { data := some (D ++ dataOf cells), ptrs := some (P ++ ptrsFrom D.length cells),
               offset := some (D ++ dataOf cells).length } := by
  induction cells with
  | nil =>
    intro D P Q hQ _ _
    have : Q = [] := List.eq_nil_of_length_eq_zero hQ
    subst this
    simp [loopCells, dataOf, ptrsFrom]
  | cons c cs ih =>
    intro D P Q hQ hlen hstr
    cases Q with
    | nil => simp at hQ
    | cons q Q' =>
      have hQ' : Q'.length = cs.length := by simpa using hQ
      have hi : P.length < (P ++ q :: Q').length := by simp
      cases c with
      | none =>
        have hD : D.length < 2 ^ 35 := by omega
        simp only [loopCells, new_body_nil np hnp I _ D _ hi hD]
        have e : (P ++ q :: Q').set P.length (Small.newPointer D.length 0 true) =
            (P ++ [Small.newPointer D.length 0 true]) ++ Q' := by simp
        have e2 : P.length + 1 = (P ++ [Small.newPointer D.length 0 true]).length := by simp
        rw [e, e2, ih D _ Q' hQ' (by simpa [dataOf] using hlen) (fun s hs => hstr s (List.mem_cons_of_mem _ hs))]
        simp [dataOf, ptrsFrom]
      | some s =>
        have hlen' : D.length + (s.length + (dataOf cs).length) < 2 ^ 35 := by simpa [dataOf] using hlen
        have hD : D.length < 2 ^ 35 := by omega
        have hs : s.length < 2 ^ 28 := hstr s (by simp)
        simp only [loopCells, new_body_str, str_body np hnp I _ D s _ hi hD hs]
        have e : (P ++ q :: Q').set P.length (Small.newPointer D.length s.length false) =
            (P ++ [Small.newPointer D.length s.length false]) ++ Q' := by simp
        have e2 : P.length + 1 = (P ++ [Small.newPointer D.length s.length false]).length := by simp
        rw [e, e2, ih (D ++ s) _ Q' hQ' (by simp; omega) (fun s hs => hstr s (List.mem_cons_of_mem _ hs))]
        simp [dataOf, ptrsFrom]

/-- on cells that are all strings the loop of `NewStrings` is the loop of `New` -/
theorem strings_loop (np : Nat → Nat → Bool → Option Nat) (I : In) (strs : List Bytes) :
    ∀ (i : Nat) (σ : St), loopCells np I canonStrBody i (strs.map some) σ = loopCells np I canonNewBody i (strs.map some) σ := by
  induction strs with
  | nil => intro i σ; rfl
  | cons s ss ih =>
    intro i σ
    simp only [List.map_cons, loopCells, new_body_str]
    cases canonStrBody.run np I i (some (some s)) σ with
    | none => rfl
    | some σ' => exact ih (i + 1) σ'

/-- `for i := range pointers { pointers[i] = NewPointer(0, l, b) }` from row `P.length` on -/
theorem const_loop (np : Nat → Nat → Bool → Option Nat) (I : In) (l : IE) (b : Bool) (lv p : Nat) (D : Option Bytes) (o : Option Nat)
    (hl : ∀ σ : St, l.eval I σ none = some lv) (hp : np 0 lv b = some p) :
    ∀ (n : Nat) (P Q : List Nat), Q.length = n →
      loopN np I (.setPtr (.lit 0) l b .done) P.length n { data := D, ptrs := some (P ++ Q), offset := o } =
        some { data := D, ptrs := some (P ++ List.replicate n p), offset := o } := by
  intro n
  induction n with
  | zero =>
    intro P Q hQ
    have : Q = [] := List.eq_nil_of_length_eq_zero hQ
    subst this
    simp [loopN]
  | succ n ih =>
    intro P Q hQ
    cases Q with
    | nil => simp at hQ
    | cons q Q' =>
      have hQ' : Q'.length = n := by simpa using hQ
      have hi : P.length < (P ++ q :: Q').length := by simp
      have e : (P ++ q :: Q').set P.length p = (P ++ [p]) ++ Q' := by simp
      have e2 : P.length + 1 = (P ++ [p]).length := by simp
      have h0 : ∀ σ : St, (IE.lit 0).eval I σ none = some 0 := fun _ => rfl
      simp only [loopN, CB.run, h0, hl, hp, hi, if_true]
      rw [e, e2, ih _ Q' hQ']
      simp [List.replicate_succ]

/-! ## What the pointers say -/

theorem ptrsFrom_length (off : Nat) (cells : List (Option Bytes)) : (ptrsFrom off cells).length = cells.length := by
  induction cells generalizing off with
  | nil => rfl
  | cons c cs ih => cases c <;> simp [ptrsFrom, ih]

/-- offset, length and null flag of every pointer, read with the accessors of pointer.go -/
theorem ptrsFrom_fields (cells : List (Option Bytes)) :
    ∀ off : Nat, off + (dataOf cells).length < 2 ^ 35 → (∀ s, some s ∈ cells → s.length < 2 ^ 28) →
      (ptrsFrom off cells).map Small.pOffset = offsetsFrom off cells ∧
      (ptrsFrom off cells).map Small.pLen = cells.map (fun c => (c.getD []).length) ∧
      (ptrsFrom off cells).map Small.pIsNull = cells.map Option.isNone := by
  induction cells with
  | nil => intro off _ _; exact ⟨rfl, rfl, rfl⟩
  | cons c cs ih =>
    intro off hlen hstr
    cases c with
    | none =>
      obtain ⟨r1, r2, r3⟩ := Small.pointer_roundtrip off 0 true (by omega) (by omega)
      obtain ⟨i1, i2, i3⟩ := ih off (by simpa [dataOf] using hlen) (fun s hs => hstr s (List.mem_cons_of_mem _ hs))
      simp [ptrsFrom, offsetsFrom, r1, r2, r3, i1, i2, i3]
    | some s =>
      have hlen' : off + (s.length + (dataOf cs).length) < 2 ^ 35 := by simpa [dataOf] using hlen
      obtain ⟨r1, r2, r3⟩ := Small.pointer_roundtrip off s.length false (by omega) (hstr s (by simp))
      obtain ⟨i1, i2, i3⟩ := ih (off + s.length) (by omega) (fun s hs => hstr s (List.mem_cons_of_mem _ hs))
      simp [ptrsFrom, offsetsFrom, r1, r2, r3, i1, i2, i3]

/-- reading the rows back through their pointers gives the cells; every pointer stays inside the buffer -/
theorem ptrsFrom_read (cells : List (Option Bytes)) :
    ∀ pre : Bytes, pre.length + (dataOf cells).length < 2 ^ 35 → (∀ s, some s ∈ cells → s.length < 2 ^ 28) →
      (ptrsFrom pre.length cells).map (cellOfPtr (pre ++ dataOf cells)) = cells ∧
      ∀ p ∈ ptrsFrom pre.length cells, Small.pOffset p + Small.pLen p ≤ (pre ++ dataOf cells).length := by
  induction cells with
  | nil => intro pre _ _; exact ⟨rfl, fun p hp => by simp [ptrsFrom] at hp⟩
  | cons c cs ih =>
    intro pre hlen hstr
    cases c with
    | none =>
      obtain ⟨r1, r2, r3⟩ := Small.pointer_roundtrip pre.length 0 true (by omega) (by omega)
      obtain ⟨i1, i2⟩ := ih pre (by simpa [dataOf] using hlen) (fun s hs => hstr s (List.mem_cons_of_mem _ hs))
      refine ⟨?_, ?_⟩
      · simp only [ptrsFrom, dataOf, List.map_cons, i1]
        simp [cellOfPtr, r3]
      · intro p hp
        simp only [ptrsFrom, List.mem_cons] at hp
        rcases hp with rfl | hp
        · rw [r1, r2]; simp
        · exact i2 p hp
    | some s =>
      have hlen' : pre.length + (s.length + (dataOf cs).length) < 2 ^ 35 := by simpa [dataOf] using hlen
      obtain ⟨r1, r2, r3⟩ := Small.pointer_roundtrip pre.length s.length false (by omega) (hstr s (by simp))
      have hpre : pre.length + s.length = (pre ++ s).length := by simp
      have hd : pre ++ dataOf (some s :: cs) = (pre ++ s) ++ dataOf cs := by simp [dataOf]
      obtain ⟨i1, i2⟩ := ih (pre ++ s) (by simp; omega) (fun s hs => hstr s (List.mem_cons_of_mem _ hs))
      refine ⟨?_, ?_⟩
      · simp only [ptrsFrom, List.map_cons, hpre, hd, i1]
        congr 1
        simp [cellOfPtr, r1, r2, r3]
      · intro p hp
        simp only [ptrsFrom, List.mem_cons] at hp
        rcases hp with rfl | hp
        · rw [r1, r2]; simp [dataOf]
        · rw [hd]; rw [hpre] at hp; exact i2 p hp

/-! ## `New`, `NewStrings` -/

theorem canon_new_run (np : Nat → Nat → Bool → Option Nat) (hnp : AgreesNP np) (cells : List (Option Bytes)) (h : Within cells) :
    runString np canonNewBytes { cells := cells } canonNew = some { ptrs := ptrsFrom 0 cells, data := dataOf cells } := by
  have hl := new_loop np hnp { cells := cells } cells [] [] (List.replicate cells.length 0) (by simp) (by simpa using h.1) h.2
  simp only [List.length_nil, List.nil_append] at hl
  simp only [runString, canonNew, CN.run, hl, canonNewBytes, NB.run]

theorem canon_newStrings_run (np : Nat → Nat → Bool → Option Nat) (hnp : AgreesNP np) (strs : List Bytes) (h : Within (strs.map some)) :
    runString np canonNewBytes { cells := strs.map some } canonNewStrings =
      some { ptrs := ptrsFrom 0 (strs.map some), data := dataOf (strs.map some) } := by
  have hl := new_loop np hnp { cells := strs.map some } (strs.map some) [] [] (List.replicate (strs.map some).length 0)
    (by simp) (by simpa using h.1) h.2
  simp only [List.length_nil, List.nil_append] at hl
  simp only [runString, canonNewStrings, CN.run, strings_loop, hl, canonNewBytes, NB.run]

/-- **`scolumn.New` of today's source.** For every list of optional strings within the documented limits of the packed
pointer (`Within`: each string shorter than 2^28 bytes, all together shorter than 2^35 bytes) the constructor — run as
regenerated, `NewPointer` included — returns a column with
* the data buffer = the concatenation of the strings in row order (`dataOf`),
* one pointer per row, whose `Offset()` is the number of bytes in front of the row (`offsetsFrom 0`), whose `Len()` is the
  length of the string — 0 for a null row — and whose `IsNull()` is true exactly for the null rows,
* every pointer inside the buffer (`Offset() + Len() ≤ len(data)`: `stringAt` never slices out of range),
* and reading row `i` back through its pointer (`cellOfPtr`: null, or `data[Offset() : Offset()+Len()]`) gives the cell
  that was passed: `readBack c = cells`. -/
theorem gen_scolumn_new_semantics (cells : List (Option Bytes)) (h : Within cells) :
    ∃ c, genScolNew cells = some c ∧ c.data = dataOf cells ∧ c.ptrs.length = cells.length ∧
      c.ptrs.map Small.pOffset = offsetsFrom 0 cells ∧
      c.ptrs.map Small.pLen = cells.map (fun c => (c.getD []).length) ∧
      c.ptrs.map Small.pIsNull = cells.map Option.isNone ∧
      (∀ p ∈ c.ptrs, Small.pOffset p + Small.pLen p ≤ c.data.length) ∧
      readBack c = cells := by
  obtain ⟨c1, c2, _⟩ := gen_ctors_canon
  obtain ⟨f1, f2, f3⟩ := ptrsFrom_fields cells 0 (by simpa using h.1) h.2
  obtain ⟨g1, g2⟩ := ptrsFrom_read cells [] (by simpa using h.1) h.2
  refine ⟨{ ptrs := ptrsFrom 0 cells, data := dataOf cells }, ?_, rfl, ptrsFrom_length 0 cells, f1, f2, f3, ?_, ?_⟩
  · unfold genScolNew; rw [c1, c2]; exact canon_new_run genNP genNP_eq cells h
  · simpa using g2
  · simpa [readBack] using g1

/-- **`scolumn.NewStrings` of today's source** builds the column `New` builds from the same strings. -/
theorem gen_scolumn_newStrings_semantics (strs : List Bytes) (h : Within (strs.map some)) :
    genScolNewStrings strs = genScolNew (strs.map some) ∧
    ∃ c, genScolNewStrings strs = some c ∧ readBack c = strs.map some := by
  obtain ⟨c1, c2, c3, _⟩ := gen_ctors_canon
  have e : genScolNewStrings strs = genScolNew (strs.map some) := by
    unfold genScolNewStrings genScolNew
    rw [c1, c2, c3, canon_newStrings_run genNP genNP_eq strs h, canon_new_run genNP genNP_eq _ h]
  obtain ⟨c, hc, _, _, _, _, _, _, hr⟩ := gen_scolumn_new_semantics (strs.map some) h
  exact ⟨e, c, e ▸ hc, hr⟩

/-! ## `NewConst` -/

theorem canon_newConst_run (np : Nat → Nat → Bool → Option Nat) (hnp : AgreesNP np) (val : Option Bytes) (count : Nat)
    (h : ∀ s, val = some s → s.length < 2 ^ 28) :
    runString np canonNewBytes { val := val, count := count } canonNewConst =
      some { ptrs := List.replicate count (Small.newPointer 0 (val.getD []).length val.isNone), data := val.getD [] } := by
  cases val with
  | none =>
    have hl := const_loop np { val := none, count := count } (.lit 0) true 0 (Small.newPointer 0 0 true) (some []) none
      (fun _ => rfl) (hnp 0 0 true (by omega) (by omega)) count [] (List.replicate count 0) (by simp)
    simp only [List.length_nil, List.nil_append] at hl
    simp only [runString, canonNewConst, CN.run, List.length_replicate, hl, canonNewBytes, NB.run]
    rfl
  | some s =>
    have hs := h s rfl
    have hl := const_loop np { val := some s, count := count } .lenVal false s.length (Small.newPointer 0 s.length false)
      (some ([] ++ s)) none (fun _ => rfl) (hnp 0 s.length false (by omega) hs) count [] (List.replicate count 0) (by simp)
    simp only [List.length_nil, List.nil_append] at hl
    simp only [runString, canonNewConst, CN.run, List.length_replicate, List.nil_append, hl, canonNewBytes, NB.run]
    rfl

/-- **`scolumn.NewConst(val, n)` of today's source**, for a `val` within the pointer's limit: `n` rows, the buffer holds
the value once (nothing for null), every pointer is inside the buffer, and every row reads back `val`. -/
theorem gen_scolumn_const_semantics (val : Option Bytes) (count : Nat) (h : ∀ s, val = some s → s.length < 2 ^ 28) :
    ∃ c, genScolNewConst val count = some c ∧ c.data = val.getD [] ∧ c.ptrs.length = count ∧
      (∀ p ∈ c.ptrs, Small.pOffset p + Small.pLen p ≤ c.data.length) ∧
      readBack c = List.replicate count val := by
  obtain ⟨c1, _, _, c4, _⟩ := gen_ctors_canon
  have hl : (val.getD []).length < 2 ^ 28 := by
    cases val with
    | none => simp
    | some s => exact h s rfl
  obtain ⟨r1, r2, r3⟩ := Small.pointer_roundtrip 0 (val.getD []).length val.isNone (by omega) hl
  refine ⟨_, by unfold genScolNewConst; rw [c1, c4]; exact canon_newConst_run genNP genNP_eq val count h, rfl, by simp, ?_, ?_⟩
  · intro p hp
    rw [(List.mem_replicate.1 hp).2, r1, r2]; simp
  · simp only [readBack, List.map_replicate, cellOfPtr, r1, r2, r3]
    cases val <;> simp

/-! ## The int / float / bool columns -/

/-- today's `New(d)` / `NewConst(val, count)` of the package with cells of type `ty` -/
def genNumNew {α : Type} (ty : CType) (zero : α) (d : List α) : Option (List α) :=
  match Gen.numCtors.lookup ty with
  | some (n, _) => n.run zero d zero 0 none
  | none => none
def genNumConst {α : Type} (ty : CType) (zero val : α) (count : Nat) : Option (List α) :=
  match Gen.numCtors.lookup ty with
  | some (_, c) => c.run zero [] val count none
  | none => none

/-- **`NewConst(v, n)` of today's icolumn / fcolumn / bcolumn is `n` cells `v`** — every cell is written, whatever the
zero value of the element type is (`zero`: a `-0.0` constant is not left as `+0.0`) —, and `New(d)` is `d`. -/
theorem gen_const_semantics {α : Type} (ty : CType) (hty : ty = .int ∨ ty = .float ∨ ty = .bool) (zero val : α)
    (count : Nat) (d : List α) :
    genNumConst ty zero val count = some (List.replicate count val) ∧ genNumNew ty zero d = some d := by
  have hc : (NC.makeCells (.fillVal .retLocal)).run zero [] val count none = some (List.replicate count val) := by
    simp [NC.run]
  unfold genNumConst genNumNew
  rw [gen_ctors_canon.2.2.2.2]
  rcases hty with rfl | rfl | rfl <;> exact ⟨hc, rfl⟩

/-! ## The constructors as `createColumn` sees them -/

/-- **The regenerated constructors build the spec's cell lists** — what `Ctors.Spec.cells` / `Ctors.Spec.const`
(QF/Core/Construct.lean) assume of `Ctor.cells ty` / `Ctor.const ty`, read back cell by cell: a slice of ints / floats /
bools is the column's cells as they are; a constant is `n` copies; a `[]*string` within the pointer's limits reads back
as the same optional strings, a string constant as `n` copies of it.
EXCLUDED (`_partial`): string data beyond the documented limits of `qfstrings.Pointer` (a string of 2^28 bytes or more,
2^35 bytes or more in one column), where `NewPointer` packs offset and length into overlapping bits
(`C08PointerGen`, the last two witnesses). -/
theorem gen_ctors_meet_spec_partial :
    (∀ l : List Int, (genNumNew .int 0 l).map (·.map Cell.int) = some (l.map Cell.int)) ∧
    (∀ l : List UInt64, (genNumNew .float 0 l).map (·.map Cell.float) = some (l.map Cell.float)) ∧
    (∀ l : List Bool, (genNumNew .bool false l).map (·.map Cell.bool) = some (l.map Cell.bool)) ∧
    (∀ (v : Int) (n : Nat), (genNumConst .int 0 v n).map (·.map Cell.int) = some (List.replicate n (Cell.int v))) ∧
    (∀ (v : UInt64) (n : Nat), (genNumConst .float 0 v n).map (·.map Cell.float) = some (List.replicate n (Cell.float v))) ∧
    (∀ (v : Bool) (n : Nat), (genNumConst .bool false v n).map (·.map Cell.bool) = some (List.replicate n (Cell.bool v))) ∧
    (∀ l : List (Option Bytes), Within l → (genScolNew l).map (fun c => (readBack c).map Cell.str) = some (l.map Cell.str)) ∧
    (∀ (v : Option Bytes) (n : Nat), (∀ s, v = some s → s.length < 2 ^ 28) →
      (genScolNewConst v n).map (fun c => (readBack c).map Cell.str) = some (List.replicate n (Cell.str v))) := by
  refine ⟨?_, ?_, ?_, ?_, ?_, ?_, ?_, ?_⟩
  · intro l; rw [(gen_const_semantics .int (Or.inl rfl) 0 0 0 l).2]; rfl
  · intro l; rw [(gen_const_semantics .float (Or.inr (Or.inl rfl)) 0 0 0 l).2]; rfl
  · intro l; rw [(gen_const_semantics .bool (Or.inr (Or.inr rfl)) false false 0 l).2]; rfl
  · intro v n; rw [(gen_const_semantics .int (Or.inl rfl) 0 v n []).1]; simp
  · intro v n; rw [(gen_const_semantics .float (Or.inr (Or.inl rfl)) 0 v n []).1]; simp
  · intro v n; rw [(gen_const_semantics .bool (Or.inr (Or.inr rfl)) false v n []).1]; simp
  · intro l h
    obtain ⟨c, hc, _, _, _, _, _, _, hr⟩ := gen_scolumn_new_semantics l h
    rw [hc]; simp [hr]
  · intro v n h
    obtain ⟨c, hc, _, _, _, hr⟩ := gen_scolumn_const_semantics v n h
    rw [hc]; simp [hr]

/-! ## Witnesses: plausible mutations are different terms and violate the statements -/

section Witnesses

/-- `NewPointer` of the hand mirror (what `genNP` is within the limits) -/
def npS (o l : Nat) (b : Bool) : Option Nat := some (Small.newPointer o l b)

def readNew (t : CN) (cells : List (Option Bytes)) : Option (List (Option Bytes)) :=
  (runString npS canonNewBytes { cells := cells } t).map readBack

-- today's term on a sample
example : readNew canonNew [some [97, 98], none, some [], some [99]] = some [some [97, 98], none, some [], some [99]] := by decide

/-- `offset += sLen` BEFORE `pointers[i] = NewPointer(offset, sLen, false)`: the offset accumulated before instead of after -/
def newOffsetFirst : CN :=
  .makeData (.makePointers .lenCells (.initOffset 0 (.rangeCells
    (.ifNil (.setPtr .offset (.lit 0) true .done) (.addOffset .lenCur (.setPtr .offset .lenCur false (.appendCur .done)))) .retBytes)))
example : newOffsetFirst ≠ canonNew := by decide
/-- … every row reads the bytes of the rows behind it -/
example : readNew newOffsetFirst [some [97, 98], some [99]] = some [some [99], some []] := by decide

/-- the null flag not set: `NewPointer(offset, 0, false)` for a nil pointer -/
def newNoNullFlag : CN :=
  .makeData (.makePointers .lenCells (.initOffset 0 (.rangeCells
    (.ifNil (.setPtr .offset (.lit 0) false .done) canonStrBody) .retBytes)))
example : newNoNullFlag ≠ canonNew := by decide
/-- … null is read back as the empty string -/
example : readNew newNoNullFlag [none, some [97]] = some [some [], some [97]] := by decide

/-- the data not appended -/
def newNoAppend : CN :=
  .makeData (.makePointers .lenCells (.initOffset 0 (.rangeCells
    (.ifNil (.setPtr .offset (.lit 0) true .done) (.setPtr .offset .lenCur false (.addOffset .lenCur .done))) .retBytes)))
example : newNoAppend ≠ canonNew := by decide
example : readNew newNoAppend [some [97]] = some [some []] := by decide

/-- `NewBytes` with the data dropped: `Column{pointers: pointers}` -/
example : (runString npS (.ret .ptrParam .zero) { cells := [some [97]] } canonNew).map readBack = some [some []] := by decide

/-- a constant column not filled: `data := make([]T, count); return Column{data: data}` -/
def constNoFill : NC := .makeCells .retLocal
example : constNoFill ≠ NC.makeCells (.fillVal .retLocal) := by decide
/-- … `NewConst(7, 2)` is two zeros (and for floats `NewConst(-0.0, n)` would be `+0.0`: the comment in column_gen.go) -/
example : constNoFill.run (0 : Int) [] 7 2 none = some [0, 0] ∧
    (NC.makeCells (.fillVal .retLocal)).run (0 : Int) [] 7 2 none = some [7, 7] := by decide

end Witnesses

end QF.Props.C08CtorsGen

#print axioms QF.Props.C08CtorsGen.gen_ctors_canon
#print axioms QF.Props.C08CtorsGen.gen_ctors_no_opaque
#print axioms QF.Props.C08CtorsGen.gen_scolumn_new_semantics
#print axioms QF.Props.C08CtorsGen.gen_scolumn_newStrings_semantics
#print axioms QF.Props.C08CtorsGen.gen_scolumn_const_semantics
#print axioms QF.Props.C08CtorsGen.gen_const_semantics
#print axioms QF.Props.C08CtorsGen.gen_ctors_meet_spec_partial
