import QF.Core.CsvFull
import QF.Core.CsvL1
import QF.Props.C13Render
/-!
# C12 (reader mirror vs. specification on rendered documents)

`Full.readAll` (the mirror of internal/fastcsv: refilling buffer, in-place compaction of quoted
fields, CR trimming, blank-last-line rule) returns, on every document rendered from a table with an
admissible quoting choice and for EVERY read schedule, exactly the table — i.e. what the RFC 4180
specification `rfcParse` says.

Structure of the proof
* §0  list helpers
* §1  unquoted field followed by delimiter / LF on a loaded buffer (`unq_field`)
* §2  quoted field: lock-step with a functional scanner (`quoted_eq_qscan`), content (`qscan_content`),
      closing quote (`qscan_close`), hence `quoted_field`
* §3  one field through `fnext` (`fnext_field`), one row through `rowLoop` / `readerNext`
* §4  the whole document through `readAll` on the loaded buffer (`readAll_loaded`)
* §5  totality of the reader under an arbitrary schedule (`readAll_total`)
* §6  main theorems `read_render`, `read_eq_spec`
-/
namespace QF.Props.C12Read
open Full
open QF.Props.C13 (renderField renderFields renderRow renderDoc RowOk mustQuote)

/-! ## §0 helpers -/

theorem drop_cons_inv {α} {l : List α} {i : Nat} {x : α} {xs : List α} (h : l.drop i = x :: xs) :
    i < l.length ∧ l[i]? = some x ∧ l.drop (i + 1) = xs := by
  have hlt : i < l.length := by
    have := congrArg List.length h
    simp at this; omega
  rw [List.drop_eq_getElem_cons hlt] at h
  simp only [List.cons.injEq] at h
  exact ⟨hlt, by rw [List.getElem?_eq_getElem hlt, h.1], h.2⟩

theorem drop_add_of_append {α} {l : List α} {i : Nat} {a b : List α} (h : l.drop i = a ++ b) :
    l.drop (i + a.length) = b := by
  rw [← List.drop_drop, h, List.drop_left]

theorem slice_of_drop {α} {l : List α} {i : Nat} {a b : List α} (h : l.drop i = a ++ b) :
    (l.take (i + a.length)).drop i = a := by
  rw [List.drop_take, h]
  simp

end QF.Props.C12Read
